#!/bin/sh
# MANIFEST.setup_cmd: build the Lean model, proofs and driver, and the Go harness, offline.
set -e
cd "$(dirname "$0")"
export GOFLAGS=-mod=mod GOPROXY=off GOSUMDB=off GOTOOLCHAIN=local
mkdir -p work evidence replays harness/bin
(cd lean && lake build)
./check --build
