"""
C19 -- purity and safety for concurrent readers (partial; DESIGN 7.19).

Layer 2: tools/effects regenerates lean/Generated/Effects.lean from /repo's current source (go/ssa);
         LowProofs/Props/C19Gen.lean proves, by evaluation over that table, that every write of a
         non-init function goes to memory the call allocated itself and that every call leaving the
         analysed set is to an allow-listed pure function.
Layer 3: the harness built with -race runs every listed function from many goroutines on shared inputs
         and compares results with the sequential run and inputs/tables with snapshots.
"""
import json, os, re, subprocess, time


def _pure_callees(chk):
    src = open(os.path.join(chk.LEAN, "LowProofs", "Props", "C19Gen.lean")).read()
    m = re.search(r"def pureCallees : List String := \[(.*?)\]", src, flags=re.S)
    return set(re.findall(r'"([^"]*)"', m.group(1))) if m else set()


PURE = set()


def regenerate(chk):
    global PURE
    PURE = _pure_callees(chk)
    """layer 2: rebuild the effect table from /repo; returns (ok, message, summary)"""
    tool = os.path.join(chk.ROOT, "tools", "effects")
    out = os.path.join(chk.LEAN, "Generated", "Effects.lean")
    js = os.path.join(chk.WORK, "C19", "effects.json")
    os.makedirs(os.path.dirname(out), exist_ok=True)
    os.makedirs(os.path.dirname(js), exist_ok=True)
    tmp = os.path.join(chk.WORK, "C19", "Effects.lean.new")
    for f in (tmp, js):
        if os.path.exists(f):
            os.remove(f)     # never leave a stale table behind
    b = os.path.join(tool, "bin", "effects")
    r = chk.run(["go", "build", "-o", b, "."], cwd=tool, env=chk.GOENV)
    if r.returncode != 0:
        raise chk.BuildError("cannot build tools/effects: " + (r.stdout + r.stderr)[-1500:])
    r = chk.run([b, "-repo", chk.REPO, "-out", tmp, "-json", js], env=chk.GOENV)
    if r.returncode != 0 or not os.path.exists(tmp):
        if os.path.exists(out):
            os.remove(out)
        raise chk.BuildError("effect extraction failed on %s: %s" % (chk.REPO, (r.stdout + r.stderr)[-1500:]))
    if not os.path.exists(out) or open(out).read() != open(tmp).read():
        os.replace(tmp, out)     # installed only when the table changed
    recs = json.load(open(js))
    return recs


def suspicious(recs):
    """the records the theorems C19_effects_ok / C19_calls_ok will reject (for the replay file)"""
    effects = recs.get("records", []) if isinstance(recs, dict) else recs
    bad = []
    for e in effects:
        if e.get("initOnly"):
            continue
        if e.get("root") in ("param", "global", "unknown"):
            bad.append(e)
        elif e.get("root") == "-" and e.get("callee") not in PURE:
            bad.append(e)
    return bad


def run(chk, tier, seed):
    """layer 3 (runtime): returns (records, extra coverage)"""
    t0 = time.time()
    racebin = chk.go_build("verif", race=True)
    recs = []
    seeds = [seed, seed + 1] if tier == "quick" else [seed + k for k in range(8)]
    env = dict(chk.GOENV, GORACE="halt_on_error=0 exitcode=66")
    fns = set()
    executions = 0
    for s in seeds:
        p = subprocess.run([racebin, "conc", tier, str(s)], stdout=subprocess.PIPE, stderr=subprocess.PIPE, text=True, env=env)
        line = next((l for l in p.stdout.splitlines() if l.startswith("conc calls=")), "")
        m = re.search(r"executions=(\d+)", line)
        executions += int(m.group(1)) if m else 0
        m = re.search(r"functions=(\S+)", line)
        if m:
            fns.update(m.group(1).split(","))
        summary = re.sub(r" functions=\S+", "", line)
        races = p.stderr.count("WARNING: DATA RACE")
        impl = summary or ("exit=%d" % p.returncode)
        if races:
            first = p.stderr[p.stderr.find("WARNING: DATA RACE"):][:1500]
            impl += " DATA-RACES=%d :: %s" % (races, first)
        mm = re.search(r"conc first-mismatch (.*)", p.stdout)
        if mm:
            impl += " :: " + mm.group(1)[:400]
        ok = p.returncode == 0 and races == 0 and "mismatches=0 modified=-" in line
        want = re.sub(r"mismatches=\d+ modified=\S+", "mismatches=0 modified=-", summary) if summary else "conc run completes"
        recs.append(dict(case="conc %s %d (go build -race)" % (tier, s), variant="verif race", impl=impl if not ok else want,
                         model=want, verdict="ok" if ok else "bad"))
    extra = dict(race_detector=True, concurrent_executions=executions, functions_exercised=sorted(fns),
                 layer3_wall_s=round(time.time() - t0, 1))
    # a second, independent line of evidence for purity: the functions whose Lean definition is regenerated from their
    # go/ssa form by tools/ssa2lean4 (for the checks of C01..C18) -- the translator refuses a store into a parameter, a
    # global or any memory the function did not allocate itself, and its output is a Lean function of the arguments
    try:
        ties = json.load(open(os.path.join(chk.ROOT, "ties.json")))["functions"]
        pure_pkgs = ("bitmap.", "bmtree.", "bitstr.", "bitword.", "sigbits.")
        extra["functions_with_regenerated_pure_definition"] = sorted(
            v["name"] for v in ties.values()
            if v["name"].startswith(pure_pkgs) and "Builder" not in v["name"] and "TailBitmap" not in v["name"])
    except Exception:
        pass
    return recs, extra
