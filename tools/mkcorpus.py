#!/usr/bin/env python3
"""Rebuilds corpus/<ID>.cases from the failing inputs recorded for past findings (findings/*.json) and for the
seeded defects (seeded/*/result_quick.json). Only the ORIGINAL, generator-produced (hence in-domain) case
lines are used, never the shrunk ones."""
import glob, json, os
ROOT = os.path.dirname(os.path.dirname(os.path.abspath(__file__)))
by = {}
def add(p, src, case):
    if not case or case == "None" or case.startswith("conc") or len(case) > 20000:
        return
    case = case.replace("p2id ", "p2i ").replace("p2ild ", "p2il ")
    if case not in [c for _, c in by.setdefault(p, [])]:
        by[p].append((src, case))
for f in sorted(glob.glob(os.path.join(ROOT, "findings", "*.json"))):
    b = json.load(open(f))
    add(b["property"], os.path.basename(f), b.get("original_case") or b.get("case"))
for f in sorted(glob.glob(os.path.join(ROOT, "seeded", "*", "result_quick.json"))):
    r = json.load(open(f))
    for p, c in r.get("checks", {}).items():
        for rp in c.get("replays", []):
            add(p, "seeded/" + r["name"], rp.get("original_case"))
os.makedirs(os.path.join(ROOT, "corpus"), exist_ok=True)
for p, l in by.items():
    with open(os.path.join(ROOT, "corpus", p + ".cases"), "w") as f:
        f.write("# corpus for %s: failing inputs of past findings and seeded defects (original generator-produced cases); run first on every check\n" % p)
        for src, case in l:
            f.write("# %s\n%s\n" % (src, case))
print({p: len(l) for p, l in by.items()})
