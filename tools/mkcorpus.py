#!/usr/bin/env python3
"""Rebuilds corpus/<ID>.cases from the failing inputs recorded for past findings (findings/*.json) and for the
seeded defects (seeded/*/result_quick.json). Only the ORIGINAL, generator-produced (hence in-domain) case
lines are used, never the shrunk ones."""
import glob, json, os
ROOT = os.path.dirname(os.path.dirname(os.path.abspath(__file__)))
by = {}
def add(p, src, case):
    # result files keep at most 100000 characters of a case (older ones 6000): a case of exactly that length
    # was cut and is useless; very long cases stay out of the corpus anyway
    if not case or case == "None" or case.startswith("conc") or len(case) in (6000, 100000) or len(case) > 50000:
        return
    case = case.replace("p2id ", "p2i ").replace("p2ild ", "p2il ")
    if case not in [c for _, c in by.setdefault(p, [])]:
        by[p].append((src, case))
for f in sorted(glob.glob(os.path.join(ROOT, "findings", "*.json"))):
    b = json.load(open(f))
    add(b["property"], os.path.basename(f), b.get("original_case") or b.get("case"))
for f in sorted(glob.glob(os.path.join(ROOT, "seeded", "*", "result_quick.json"))):
    r = json.load(open(f))
    for p, c in r.get("checks", {}).items():
        for rp in c.get("replays", []):
            add(p, "seeded/" + r["name"], rp.get("original_case"))
os.makedirs(os.path.join(ROOT, "corpus"), exist_ok=True)
for p, l in by.items():
    with open(os.path.join(ROOT, "corpus", p + ".cases"), "w") as f:
        f.write("# corpus for %s: failing inputs of past findings and seeded defects (original generator-produced cases); run first on every check\n" % p)
        for src, case in l:
            # histories that fill hundreds of thousands of bits back to front are quadratic for the list-based
            # model: thorough tier only
            import re
            heavy = any(int(b) - int(a) > 100000 for a, b in re.findall(r"F(\d+):(\d+)", case)) if case.startswith("tb ") else False
            # probes of the real code at sizes of hundreds of megabytes: thorough tier only
            toks = case.split(" ")
            if toks[0] == "bmprobe" and int(toks[3]) > 1000000:
                heavy = True
            if toks[0] == "cmpuptoprobe" and int(toks[1]) > (1 << 26):
                heavy = True
            f.write("# %s\n%s%s\n" % (src, "#thorough " if heavy else "", case))
print({p: len(l) for p, l in by.items()})
