#!/usr/bin/env python3
"""
Seeded-defect bookkeeping.

  tools/seeded.py verify <srcdir> <property>   confirm a sub-agent's change in a scratch worktree
                                               (demo passes without it, fails with it, suite stays green)
                                               and keep it as seeded/<name>/ {patch.diff, demo, meta.json}
  tools/seeded.py run <name>|all [quick|thorough]
                                               apply seeded/<name>/patch.diff to /repo, run the property's
                                               check, undo the change straight afterwards, record result.json
"""
import glob, json, os, re, shutil, subprocess, sys, time

ROOT = os.path.dirname(os.path.dirname(os.path.abspath(__file__)))
SEEDED = os.path.join(ROOT, "seeded")
REPO = os.environ.get("LOW_REPO", "/repo")
ENV = dict(os.environ, GOFLAGS="-mod=mod", GOPROXY="off", GOSUMDB="off", GOTOOLCHAIN="local")


def sh(cmd, cwd=None, timeout=1200):
    p = subprocess.run(cmd, shell=True, cwd=cwd, env=ENV, stdout=subprocess.PIPE, stderr=subprocess.STDOUT, text=True, timeout=timeout)
    return p.returncode, p.stdout


def verify(src, prop):
    name = os.environ.get("SEED_PREFIX", "") + os.path.basename(src.rstrip("/"))
    patch = os.path.join(src, "patch.diff")
    demos = glob.glob(os.path.join(src, "*_test.go"))
    assert os.path.exists(patch) and demos, "need patch.diff and a demo test in " + src
    files = re.findall(r"^\+\+\+ b/(\S+)", open(patch).read(), flags=re.M)
    notes = open(os.path.join(src, "NOTES.md")).read() if os.path.exists(os.path.join(src, "NOTES.md")) else ""
    pkgdir = os.path.dirname(files[0])
    m = re.search(r"package (\w+)", open(demos[0]).read())
    wt = "/tmp/seedverify-" + name
    sh("git -C %s worktree remove --force %s" % (REPO, wt))
    rc, out = sh("git -C %s worktree add -q --detach %s HEAD" % (REPO, wt))
    assert rc == 0, out
    res = dict(name=name, property=prop, patch_files=files, demo=[os.path.basename(d) for d in demos], demo_pkg=pkgdir)
    try:
        for d in demos:
            shutil.copy(d, os.path.join(wt, pkgdir))
        run = "go test -vet=off -count=1 -run 'Demo|demo' ./%s/" % pkgdir
        names = re.findall(r"func (Test\w+)\(", "".join(open(d).read() for d in demos))
        tags = os.environ.get("SEED_TAGS", "")
        run = "go test %s-vet=off -count=1 -run '^(%s)$' ./%s/" % ("-tags '%s' " % tags if tags else "", "|".join(names), pkgdir)
        rc0, out0 = sh(run, cwd=wt)
        res["demo_without_change"] = "pass" if rc0 == 0 else "FAIL"
        rc, out = sh("git apply %s" % patch, cwd=wt)
        res["patch_applies"] = rc == 0
        if rc != 0:
            res["error"] = out[-500:]
            return res
        rcb, outb = sh("go build ./... && go build -tags verif ./...", cwd=wt)
        res["builds"] = rcb == 0
        rc1, out1 = sh(run, cwd=wt)
        res["demo_with_change"] = "fail" if rc1 != 0 else "PASSES"
        res["demo_output_with_change"] = out1[-600:]
        for d in demos:
            os.remove(os.path.join(wt, pkgdir, os.path.basename(d)))
        rcs, outs = sh("go test -vet=off -count=1 ./... 2>&1 | grep -v '^|' | grep -E '^(ok|FAIL|---|panic)' ", cwd=wt)
        failing = [l for l in outs.splitlines() if l.startswith("FAIL") and "mathext/zipf" not in l and l.strip() != "FAIL"]
        res["suite_with_change"] = "pass" if not failing else "FAIL: " + "; ".join(failing)
        res["ok"] = (rc0 == 0 and rcb == 0 and rc1 != 0 and not failing)
        res["run_cmd"] = run
    finally:
        sh("git -C %s worktree remove --force %s" % (REPO, wt))
        sh("rm -rf %s" % wt)
    if res.get("ok"):
        dst = os.path.join(SEEDED, name)
        os.makedirs(dst, exist_ok=True)
        shutil.copy(patch, dst)
        for d in demos:
            shutil.copy(d, dst)
        if notes:
            open(os.path.join(dst, "NOTES.md"), "w").write(notes)
        needs = ""
        m = re.search(r"(?is)(trigger|manifest|needs)[^\n]*\n(.{0,600})", notes)
        meta = dict(name=name, breaks_property=prop, patch_files=files, demo_files=res["demo"], demo_package_dir=pkgdir,
                    needs_to_manifest=(m.group(0)[:700] if m else "see NOTES.md"),
                    confirmed=dict(in_scratch_worktree=True, demo_without_change=res["demo_without_change"], demo_with_change=res["demo_with_change"],
                                   suite_with_change=res["suite_with_change"], demo_cmd=res["run_cmd"], base_commit=sh("git -C /repo rev-parse --short HEAD")[1].strip()),
                    origin="written by an independent sub-agent that saw only the property text")
        json.dump(meta, open(os.path.join(dst, "meta.json"), "w"), indent=1)
    return res


def run(name, tier):
    d = os.path.join(SEEDED, name)
    meta = json.load(open(os.path.join(d, "meta.json")))
    prop = meta["breaks_property"]
    rc, out = sh("git -C %s status --porcelain" % REPO)
    assert out.strip() == "", "/repo is not clean: " + out
    t0 = time.time()
    res = dict(name=name, property=prop, tier=tier)
    # evidence files and regenerated Lean definitions written while the tree is changed do not describe /repo:
    # keep the current ones aside and put them back afterwards
    keep = os.path.join(ROOT, "work", ".seeded-keep")
    shutil.rmtree(keep, ignore_errors=True)
    for sub in ("evidence", os.path.join("lean", "Generated")):
        shutil.copytree(os.path.join(ROOT, sub), os.path.join(keep, sub))
    try:
        rc, out = sh("git -C %s apply %s" % (REPO, os.path.join(d, "patch.diff")))
        if rc != 0:
            res["error"] = "patch does not apply: " + out[-300:]
            return res
        props = [prop] + meta.get("also_run", [])
        res["checks"] = {}
        for p in props:
            rc, out = sh("./check %s %s" % (p, tier), cwd=ROOT, timeout=3600)
            viol = [l for l in out.splitlines() if l.startswith("VIOLATION")]
            res["checks"][p] = dict(exit=rc, violation_lines=viol, tail=out[-300:])
            for v in viol:
                m = re.search(r"replay=(\S+)", v)
                if m and os.path.exists(os.path.join(ROOT, m.group(1))):
                    body = json.load(open(os.path.join(ROOT, m.group(1))))
                    res["checks"][p].setdefault("replays", []).append({k: str(body.get(k))[:(100000 if k in ("case", "original_case") else 300)] for k in ("kind", "case", "original_case", "impl", "model", "verdict", "failures", "function")})
        res["detected"] = any(c["exit"] == 1 and c["violation_lines"] for c in res["checks"].values())
        res["with_failing_input"] = any(any("no-failing-input-found" not in v for v in c["violation_lines"]) for c in res["checks"].values())
    finally:
        sh("git -C %s checkout -- . && git -C %s clean -fdq" % (REPO, REPO))
        # evidence and replays written while the tree was changed do not describe /repo: drop the replays
        for f in glob.glob(os.path.join(ROOT, "replays", "*.json")):
            os.remove(f)
        for sub in ("evidence", os.path.join("lean", "Generated")):
            for dp, dn, fn in os.walk(os.path.join(keep, sub)):
                for f in fn:
                    src = os.path.join(dp, f)
                    dst = os.path.join(ROOT, os.path.relpath(src, keep))
                    if not os.path.exists(dst) or open(src, "rb").read() != open(dst, "rb").read():
                        os.makedirs(os.path.dirname(dst), exist_ok=True)
                        shutil.copy(src, dst)
        shutil.rmtree(keep, ignore_errors=True)
    res["wall_s"] = round(time.time() - t0, 1)
    json.dump(res, open(os.path.join(d, "result_%s.json" % tier), "w"), indent=1)
    return res


def main():
    if sys.argv[1] == "verify":
        r = verify(sys.argv[2], sys.argv[3])
        print(json.dumps({k: v for k, v in r.items() if k != "demo_output_with_change"}, indent=1))
        return 0 if r.get("ok") else 1
    if sys.argv[1] == "run":
        tier = sys.argv[3] if len(sys.argv) > 3 else "quick"
        names = sorted(os.listdir(SEEDED)) if sys.argv[2] == "all" else [sys.argv[2]]
        for n in names:
            if not os.path.exists(os.path.join(SEEDED, n, "meta.json")):
                continue
            r = run(n, tier)
            print("%-10s %-4s detected=%s failing_input=%s %s" % (n, r["property"], r.get("detected"), r.get("with_failing_input"), r.get("error", "")))
        return 0
    print(__doc__)
    return 2


if __name__ == "__main__":
    sys.exit(main())
