package main

// Generation 5 (package pbcmpl): EXTERNAL CALLS AS ORACLE ANSWERS.
//
// A function that (transitively) calls out of the module takes, after `fuel`,
//     {σ : Type} (X : GoSem5.Ext σ)      -- the oracle record (LowModel/GoSem5.lean)
// and, as its LAST parameter, the current world `wd : σ`; it returns
//     (<Go results> × σ)                  -- the final world (inside `Option` when it can panic / has loops)
// Every external call is `X.<oracle> <current world> <arguments>`; the world it returns becomes the current world
// (key worldKey of `cur`, threaded through joins and loops like a stored receiver field).  Only the externals listed
// in emitExternal are recognised, each with its exact signature; everything else that leaves the module is refused.
//
// Besides that, generation 5 adds what the control skeleton of pbcmpl needs (see README.md, part A5):
//   * error values (GoSem5.Err), loads of package-level error variables, `err == io.EOF`;
//   * opaque handles (GoSem5.Obj) for io.Reader / io.Writer / proto.Message / VersionedMessage, comma-ok type assertion;
//   * pointers to structs of the package as tuples of their fields: read-only when received, field by field state when
//     allocated by the function itself (`new header`), written only before the value is handed on;
//   * `copy(h.Version[:], ver)` into an array field of such a struct;
//   * a package interface with exactly one implementing type (`Header`): `Option` of that type, dynamic calls resolved;
//   * `&bytes.Buffer{}` used as the destination of io.CopyN and read with `.Bytes()`;
//   * string constants.

import (
	"fmt"
	"go/constant"
	"go/token"
	"go/types"
	"sort"
	"strings"

	"golang.org/x/tools/go/ssa"
)

const worldKey = -2
const bufBase = -1000 // keys of local bytes.Buffer contents: bufBase - index

// curGen / curTr: the generation and translator of the function being translated (leanType is a free function).
var curGen int
var curTr *translator

const protoPkg = "github.com/golang/protobuf/proto"
const errorsPkg = "github.com/openacid/errors"
const messageV1 = "google.golang.org/protobuf/runtime/protoiface.MessageV1"

func isBufKey(k int) bool { return k <= bufBase }

// ---------------------------------------------------------------------------
// types

// objKind: interface types whose values are caller's objects (GoSem5.Obj).
func objKind(t types.Type) bool {
	if _, ok := t.Underlying().(*types.Interface); !ok {
		return false
	}
	switch t.String() {
	case "io.Reader", "io.Writer", messageV1:
		return true
	}
	// a module interface that extends proto.Message (VersionedMessage): only obtainable from a message
	if n, ok := t.(*types.Named); ok && n.Obj().Pkg() != nil && strings.HasPrefix(n.Obj().Pkg().Path(), modulePath+"/") {
		it := t.Underlying().(*types.Interface)
		for i := 0; i < it.NumMethods(); i++ {
			if it.Method(i).Name() == "ProtoMessage" {
				return true
			}
		}
	}
	return false
}

// moduleStructPtr: *S with S a named struct type of the module.
func moduleStructPtr(t types.Type) (*types.Struct, bool) {
	p, ok := t.Underlying().(*types.Pointer)
	if !ok {
		return nil, false
	}
	n, ok := p.Elem().(*types.Named)
	if !ok || n.Obj().Pkg() == nil || !strings.HasPrefix(n.Obj().Pkg().Path(), modulePath+"/") {
		return nil, false
	}
	st, ok := n.Underlying().(*types.Struct)
	return st, ok
}

func isBufferPtr(t types.Type) bool {
	p, ok := t.Underlying().(*types.Pointer)
	return ok && p.Elem().String() == "bytes.Buffer"
}

// fieldRepr: the Lean type of a struct field (generation 5).
func fieldRepr(t types.Type, depth int) string {
	if depth > 4 {
		fail("struct nesting too deep at %s", t)
	}
	if isIntType(t) {
		return leanType(t)
	}
	if a, ok := t.Underlying().(*types.Array); ok && isIntType(a.Elem()) {
		return "List " + leanType(a.Elem())
	}
	if st, ok := moduleStructPtr(t); ok {
		return structRepr(st, depth+1)
	}
	fail("struct field of type %s", t)
	return ""
}

func structRepr(st *types.Struct, depth int) string {
	if st.NumFields() == 0 {
		fail("empty struct")
	}
	var parts []string
	for i := 0; i < st.NumFields(); i++ {
		parts = append(parts, fieldRepr(st.Field(i).Type(), depth))
	}
	if len(parts) == 1 {
		return parts[0]
	}
	return "(" + strings.Join(parts, " × ") + ")"
}

func fieldProj(st *types.Struct, k int) string {
	n := st.NumFields()
	if n == 1 {
		return ""
	}
	p := strings.Repeat(".2", k)
	if k < n-1 {
		p += ".1"
	}
	return p
}

func fieldZero(t types.Type) string {
	if isIntType(t) {
		return zeroOf(t)
	}
	if a, ok := t.Underlying().(*types.Array); ok && isIntType(a.Elem()) {
		if a.Len() > 4096 {
			fail("array of %d elements", a.Len())
		}
		return fmt.Sprintf("(GoSem3.newArray %s %d)", zeroOf(a.Elem()), a.Len())
	}
	fail("zero value of a struct field of type %s (a nil pointer is not represented)", t)
	return ""
}

// soleImpl: the one concrete type converted to the module interface `it` anywhere in the program.
func (tr *translator) soleImpl(it types.Type) types.Type {
	if r, ok := tr.implMemo[it.String()]; ok {
		if r == nil {
			fail("interface %s does not have exactly one implementation in the program", it)
		}
		return r
	}
	tr.loadAllFuncs()
	var found types.Type
	bad := false
	for _, fn := range tr.allFuncs {
		for _, b := range fn.Blocks {
			for _, in := range b.Instrs {
				switch x := in.(type) {
				case *ssa.MakeInterface:
					if types.Identical(x.Type(), it) {
						if found != nil && !types.Identical(found, x.X.Type()) {
							bad = true
						}
						found = x.X.Type()
					}
				case *ssa.ChangeInterface:
					if types.Identical(x.Type(), it) {
						bad = true
					}
				case *ssa.TypeAssert:
					if types.Identical(x.AssertedType, it) {
						bad = true
					}
				}
			}
		}
	}
	if tr.implMemo == nil {
		tr.implMemo = map[string]types.Type{}
	}
	if bad || found == nil {
		tr.implMemo[it.String()] = nil
		fail("interface %s does not have exactly one implementation in the program", it)
	}
	if _, ok := moduleStructPtr(found); !ok {
		tr.implMemo[it.String()] = nil
		fail("interface %s is implemented by %s (only pointers to structs of the module)", it, found)
	}
	tr.implMemo[it.String()] = found
	return found
}

func moduleIface(t types.Type) bool {
	n, ok := t.(*types.Named)
	if !ok || n.Obj().Pkg() == nil || !strings.HasPrefix(n.Obj().Pkg().Path(), modulePath+"/") {
		return false
	}
	_, ok = t.Underlying().(*types.Interface)
	return ok && !objKind(t)
}

// leanType5: the types generation 5 adds.  ("", false): not one of them.
func leanType5(t types.Type) (string, bool) {
	if types.Identical(t, errorType) {
		return "GoSem5.Err", true
	}
	if objKind(t) {
		return "GoSem5.Obj", true
	}
	if st, ok := moduleStructPtr(t); ok {
		return structRepr(st, 0), true
	}
	if moduleIface(t) {
		impl := curTr.soleImpl(t)
		st, _ := moduleStructPtr(impl)
		return "Option " + paren(structRepr(st, 0)), true
	}
	return "", false
}

// ---------------------------------------------------------------------------
// which functions use the world

// invokeTarget: the generated definition a dynamic call through a module interface resolves to.
func (tr *translator) invokeTarget(call *ssa.CallCommon) *ssa.Function {
	if !call.IsInvoke() || !moduleIface(call.Value.Type()) {
		return nil
	}
	var impl types.Type
	func() {
		defer func() { recover() }()
		impl = tr.soleImpl(call.Value.Type())
	}()
	if impl == nil {
		return nil
	}
	fn := tr.prog.LookupMethod(impl, call.Method.Pkg(), call.Method.Name())
	if fn == nil {
		return nil
	}
	if _, ok := tr.byFunc[fn]; !ok {
		return nil
	}
	return fn
}

func isExternalCallee(callee *ssa.Function) bool {
	if callee == nil || callee.Pkg == nil {
		return false
	}
	p := callee.Pkg.Pkg.Path()
	switch {
	case p == protoPkg && callee.Signature.Recv() == nil && (callee.Name() == "Marshal" || callee.Name() == "Unmarshal" || callee.Name() == "Size"):
		return true
	case p == "io" && callee.Signature.Recv() == nil && (callee.Name() == "ReadFull" || callee.Name() == "CopyN"):
		return true
	case p == errorsPkg && callee.Signature.Recv() == nil && callee.Name() == "WithStack":
		return true
	}
	return false
}

func (tr *translator) usesWorld(f *ssa.Function) bool {
	if tr.worldMemo == nil {
		tr.worldMemo = map[*ssa.Function]int{}
	}
	switch tr.worldMemo[f] {
	case 1, 3:
		return false
	case 2:
		return true
	}
	tr.worldMemo[f] = 1
	res := false
	if t, ok := tr.byFunc[f]; ok && tr.genOf(t) >= 5 {
		for _, b := range f.Blocks {
			for _, in := range b.Instrs {
				switch x := in.(type) {
				case *ssa.TypeAssert:
					res = true
				case *ssa.Call:
					if x.Call.IsInvoke() {
						if objKind(x.Call.Value.Type()) {
							res = true
						} else if fn := tr.invokeTarget(&x.Call); fn != nil && tr.usesWorld(fn) {
							res = true
						}
						continue
					}
					callee := x.Call.StaticCallee()
					if isExternalCallee(callee) {
						res = true
					}
					if _, isTarget := tr.byFunc[callee]; isTarget && callee != f && tr.usesWorld(callee) {
						res = true
					}
				}
			}
		}
	}
	if res {
		tr.worldMemo[f] = 2
	} else {
		tr.worldMemo[f] = 3
	}
	return res
}

// globalErrNew: the package-level error variable g is assigned exactly once in the whole program, in its package's
// initialiser, with the result of a call of errors.New (standard library): a distinct non-nil pointer per variable.
func (tr *translator) globalErrNew(g *ssa.Global) string {
	if tr.errVarMemo == nil {
		tr.errVarMemo = map[*ssa.Global]string{}
	}
	if s, ok := tr.errVarMemo[g]; ok {
		if s == "" {
			fail("the error variable %s is not assigned exactly once, by its package initialiser, from errors.New", g.Name())
		}
		return s
	}
	tr.loadAllFuncs()
	stores, ok := 0, true
	for _, fn := range tr.allFuncs {
		for _, b := range fn.Blocks {
			for _, in := range b.Instrs {
				for _, op := range in.Operands(nil) {
					if *op != ssa.Value(g) {
						continue
					}
					switch x := in.(type) {
					case *ssa.UnOp:
						if x.Op != token.MUL {
							ok = false
						}
					case *ssa.Store:
						stores++
						call, isCall := x.Val.(*ssa.Call)
						if x.Addr != ssa.Value(g) || !isCall || fn.Pkg != g.Pkg || !isPkgInit(fn) || inCycle(b) {
							ok = false
							break
						}
						callee := call.Call.StaticCallee()
						if callee == nil || callee.Pkg == nil || callee.Pkg.Pkg.Path() != "errors" || callee.Name() != "New" {
							ok = false
						}
					default:
						ok = false
					}
				}
			}
		}
	}
	s := ""
	if ok && stores == 1 {
		s = strings.TrimPrefix(g.Pkg.Pkg.Path(), modulePath+"/") + "." + g.Name()
	}
	tr.errVarMemo[g] = s
	if s == "" {
		fail("the error variable %s is not assigned exactly once, by its package initialiser, from errors.New", g.Name())
	}
	return s
}

// ---------------------------------------------------------------------------
// local objects: `new S` (S a struct of the module) and `new bytes.Buffer`

type localObj struct {
	alloc   *ssa.Alloc
	st      *types.Struct // nil: a bytes.Buffer
	fields  []string      // current Lean name of each field
	escaped bool
	bufKey  int
}

func (c *fnCtx) isLocalObj(a *ssa.Alloc) bool {
	if c.gen < 5 {
		return false
	}
	if _, ok := moduleStructPtr(a.Type()); ok {
		return true
	}
	return isBufferPtr(a.Type())
}

// setupLocalObjs: checks the uses of the local objects and reserves the state keys of the buffers.
func (c *fnCtx) setupLocalObjs() {
	c.objs = map[*ssa.Alloc]*localObj{}
	c.ifaceOf = map[ssa.Value]ssa.Value{}
	nbuf := 0
	for _, b := range c.f.Blocks {
		if endsInPanic(b) {
			continue
		}
		for _, in := range b.Instrs {
			a, ok := in.(*ssa.Alloc)
			if !ok || !c.isLocalObj(a) {
				continue
			}
			o := &localObj{alloc: a}
			c.objs[a] = o
			if isBufferPtr(a.Type()) {
				c.checkBuffer(a)
				o.bufKey = bufBase - nbuf
				nbuf++
				c.local = append(c.local, o.bufKey)
				c.bufName = append(c.bufName, a.Name()+"_buf")
				continue
			}
			o.st, _ = moduleStructPtr(a.Type())
			structRepr(o.st, 0)
			c.checkLocalStruct(a)
		}
	}
}

// checkBuffer: a `new bytes.Buffer` is used only (1) converted to io.Writer as the destination of ONE io.CopyN that is
// not in a loop, (2) as the receiver of Bytes() at places that CopyN dominates.  Then the list of bytes written is an
// exact model of the buffer, and the slice Bytes() returns is never invalidated by a later write.
func (c *fnCtx) checkBuffer(a *ssa.Alloc) {
	var copyN *ssa.Call
	var reads []*ssa.Call
	for _, r := range *a.Referrers() {
		switch x := r.(type) {
		case *ssa.DebugRef:
		case *ssa.MakeInterface:
			if x.Type().String() != "io.Writer" {
				fail("the bytes.Buffer %s is converted to %s", a.Name(), x.Type())
			}
			for _, u := range *x.Referrers() {
				if _, dbg := u.(*ssa.DebugRef); dbg {
					continue
				}
				call, ok := u.(*ssa.Call)
				if !ok || call.Call.IsInvoke() || call.Call.StaticCallee() == nil || call.Call.StaticCallee().String() != "io.CopyN" ||
					len(call.Call.Args) != 3 || call.Call.Args[0] != ssa.Value(x) || call.Call.Args[1] == ssa.Value(x) || copyN != nil {
					fail("the bytes.Buffer %s is used other than as the destination of one io.CopyN: %s", a.Name(), u)
				}
				copyN = call
			}
			c.ifaceOf[x] = a
		case *ssa.Call:
			callee := x.Call.StaticCallee()
			if callee == nil || callee.String() != "(*bytes.Buffer).Bytes" || len(x.Call.Args) != 1 {
				fail("the bytes.Buffer %s is used in %s", a.Name(), r)
			}
			reads = append(reads, x)
		default:
			fail("the bytes.Buffer %s is used in %s", a.Name(), r)
		}
	}
	before := func(x, y ssa.Instruction) bool {
		if x.Block() == y.Block() {
			return instrPos(x) < instrPos(y)
		}
		return x.Block().Dominates(y.Block())
	}
	if copyN != nil {
		if inCycle(copyN.Block()) || inCycle(a.Block()) || !before(a, copyN) {
			fail("the bytes.Buffer %s is written in a loop", a.Name())
		}
	}
	for _, rd := range reads {
		if !before(a, rd) || (copyN != nil && !before(copyN, rd)) {
			fail("Bytes() of the bytes.Buffer %s is not preceded by its io.CopyN on every path", a.Name())
		}
	}
}

// checkLocalStruct: every use of a `new S` is in the block that allocates it (so the uses are emitted in execution
// order, once): field addresses (loaded, stored to, `[:]` of an array field as the destination of copy), and uses of
// the pointer as a value (checked when emitted: operand / MakeInterface / external call).
func (c *fnCtx) checkLocalStruct(a *ssa.Alloc) {
	blk := a.Block()
	if inCycle(blk) {
		// still fine: a fresh object per iteration, all uses in the same block
	}
	for _, r := range *a.Referrers() {
		if _, dbg := r.(*ssa.DebugRef); dbg {
			continue
		}
		if r.Block() != blk {
			fail("the struct %s allocated in block %d is used in block %d", a.Name(), blk.Index, r.Block().Index)
		}
		switch x := r.(type) {
		case *ssa.FieldAddr:
			for _, u := range *x.Referrers() {
				if _, dbg := u.(*ssa.DebugRef); dbg {
					continue
				}
				if u.Block() != blk {
					fail("a field address of the struct %s is used in another block", a.Name())
				}
				switch y := u.(type) {
				case *ssa.UnOp:
					if y.Op != token.MUL {
						fail("field address of %s used in %s", a.Name(), u)
					}
				case *ssa.Store:
					if y.Addr != ssa.Value(x) || y.Val == ssa.Value(x) {
						fail("field address of %s is stored: %s", a.Name(), u)
					}
				case *ssa.Slice:
					if y.X != ssa.Value(x) || y.Low != nil || y.High != nil || y.Max != nil {
						fail("field address of %s used in %s", a.Name(), u)
					}
					for _, w := range *y.Referrers() {
						if _, dbg := w.(*ssa.DebugRef); dbg {
							continue
						}
						call, ok := isBuiltinCall(w, "copy")
						if !ok || call.Call.Args[0] != ssa.Value(y) || call.Call.Args[1] == ssa.Value(y) || w.Block() != blk {
							fail("the array field of the struct %s is used other than as the destination of copy: %s", a.Name(), w)
						}
					}
				default:
					fail("field address of %s used in %s", a.Name(), u)
				}
			}
		case *ssa.Store:
			if x.Val != ssa.Value(a) {
				fail("store through the struct pointer %s", a.Name())
			}
		case *ssa.MakeInterface, *ssa.Return, *ssa.Call:
		default:
			fail("the struct %s is used in %s", a.Name(), r)
		}
	}
}

// snapshot: the current contents of a local struct as a value; from here on the object may be shared.
func (c *fnCtx) snapshot(o *localObj, escapes bool) string {
	if escapes {
		o.escaped = true
	}
	for k, f := range o.fields {
		if f == "" {
			fail("the pointer field %s of the struct %s is used before it is assigned (a nil pointer is not represented)", o.st.Field(k).Name(), o.alloc.Name())
		}
	}
	if len(o.fields) == 1 {
		return o.fields[0]
	}
	return "(" + strings.Join(o.fields, ", ") + ")"
}

func (c *fnCtx) mutable(o *localObj, what string) {
	if o.escaped {
		fail("the struct %s is written (%s) after it was handed on: the other holder would see the change", o.alloc.Name(), what)
	}
}

// structValue: (struct type, Lean expression) of a pointer-to-struct value that the function did not allocate.
func (c *fnCtx) structValue(v ssa.Value) (*types.Struct, string) {
	st, ok := moduleStructPtr(v.Type())
	if !ok {
		fail("field access through %s of type %s", v.Name(), v.Type())
	}
	return st, c.operand(v)
}

// ---------------------------------------------------------------------------
// instructions

// emitExt translates the constructs of generation 5; false = not one of them.
func (c *fnCtx) emitExt(in ssa.Instruction, ind int, cur map[int]string) bool {
	switch v := in.(type) {
	case *ssa.Alloc:
		o, ok := c.objs[v]
		if !ok {
			return false
		}
		if o.st == nil {
			name := c.freshName(c.storedBase(o.bufKey))
			c.line(ind, "let %s : List Nat := [];", name)
			cur[o.bufKey] = name
			return true
		}
		o.fields, o.escaped = nil, false
		for k := 0; k < o.st.NumFields(); k++ {
			f := o.st.Field(k)
			if _, isPtr := moduleStructPtr(f.Type()); isPtr {
				// a nil pointer has no representation: the field must be assigned before it is read or handed on
				o.fields = append(o.fields, "")
				fieldRepr(f.Type(), 0)
				continue
			}
			z := fieldZero(f.Type())
			if strings.Contains(z, "GoSem3.") {
				c.useGoSem3()
			}
			name := fmt.Sprintf("%s_%s", v.Name(), f.Name())
			if !identRE.MatchString(name) {
				name = fmt.Sprintf("%s_f%d", v.Name(), k)
			}
			c.line(ind, "let %s : %s := %s;", name, fieldRepr(f.Type(), 0), z)
			o.fields = append(o.fields, name)
		}
		return true

	case *ssa.FieldAddr:
		if c.recv != nil && v.X == ssa.Value(c.recv) {
			return false
		}
		if a, ok := v.X.(*ssa.Alloc); ok {
			if _, ok := c.objs[a]; ok {
				return true // uses were checked in checkLocalStruct; loads, stores and copy do the work
			}
		}
		// a struct the function did not allocate: read-only
		if _, ok := moduleStructPtr(v.X.Type()); !ok {
			return false
		}
		for _, u := range *v.Referrers() {
			switch y := u.(type) {
			case *ssa.DebugRef:
			case *ssa.UnOp:
				if y.Op != token.MUL {
					fail("field address %s used in %s", v.Name(), u)
				}
			case *ssa.Slice:
				if y.Low != nil || y.High != nil || y.Max != nil {
					fail("field address %s used in %s", v.Name(), u)
				}
			default:
				fail("field address %s of a struct the function did not allocate is used in %s (only reads)", v.Name(), u)
			}
		}
		c.structValue(v.X)
		return true

	case *ssa.UnOp:
		if v.Op != token.MUL {
			return false
		}
		if g, ok := v.X.(*ssa.Global); ok && types.Identical(v.Type(), errorType) {
			c.let(ind, v, fmt.Sprintf("GoSem5.Err.var %s", leanString(c.tr.globalErrNew(g))))
			return true
		}
		fa, ok := v.X.(*ssa.FieldAddr)
		if !ok || (c.recv != nil && fa.X == ssa.Value(c.recv)) {
			return false
		}
		if a, ok := fa.X.(*ssa.Alloc); ok {
			if o, ok := c.objs[a]; ok {
				if o.fields[fa.Field] == "" {
					fail("the pointer field %s of the struct %s is read before it is assigned", o.st.Field(fa.Field).Name(), a.Name())
				}
				c.line(ind, "let %s : %s := %s;", v.Name(), fieldRepr(o.st.Field(fa.Field).Type(), 0), o.fields[fa.Field])
				c.defined[v], c.defType[v] = v.Name(), fieldRepr(o.st.Field(fa.Field).Type(), 0)
				return true
			}
		}
		st, x := c.structValue(fa.X)
		ty := fieldRepr(st.Field(fa.Field).Type(), 0)
		if _, isArr := st.Field(fa.Field).Type().Underlying().(*types.Array); isArr {
			fail("load of an array field: %s", v)
		}
		c.line(ind, "let %s : %s := %s%s;", v.Name(), ty, x, fieldProj(st, fa.Field))
		c.defined[v], c.defType[v] = v.Name(), ty
		return true

	case *ssa.Slice:
		fa, ok := v.X.(*ssa.FieldAddr)
		if !ok {
			return false
		}
		if v.Low != nil || v.High != nil || v.Max != nil {
			fail("slicing of an array field with bounds: %s", v)
		}
		if a, ok := fa.X.(*ssa.Alloc); ok {
			if _, ok := c.objs[a]; ok {
				c.silent[v] = true // the destination of copy (checked): the copy does the work
				return true
			}
		}
		// hi.Version[:] of a struct the function did not allocate: the elements, read-only
		st, x := c.structValue(fa.X)
		ty := fieldRepr(st.Field(fa.Field).Type(), 0)
		if ty != leanType(v.Type()) {
			fail("slicing of %s", v.X.Type())
		}
		c.line(ind, "let %s : %s := %s%s;", v.Name(), ty, x, fieldProj(st, fa.Field))
		c.defined[v], c.defType[v] = v.Name(), ty
		return true

	case *ssa.Store:
		fa, ok := v.Addr.(*ssa.FieldAddr)
		if !ok {
			return false
		}
		a, ok := fa.X.(*ssa.Alloc)
		if !ok {
			if c.recv != nil && fa.X == ssa.Value(c.recv) {
				return false
			}
			fail("store through %s, a struct the function did not allocate", fa.X.Name())
		}
		o, ok := c.objs[a]
		if !ok {
			return false
		}
		c.mutable(o, v.String())
		ft := o.st.Field(fa.Field).Type()
		if _, isArr := ft.Underlying().(*types.Array); isArr {
			fail("store of a whole array: %s", v)
		}
		name := c.freshName(fmt.Sprintf("%s_%s", a.Name(), o.st.Field(fa.Field).Name()))
		c.line(ind, "let %s : %s := %s;", name, fieldRepr(ft, 0), c.operand(v.Val))
		o.fields[fa.Field] = name
		return true

	case *ssa.MakeInterface:
		if a, ok := v.X.(*ssa.Alloc); ok && isBufferPtr(a.Type()) {
			if _, ok := c.objs[a]; !ok {
				fail("conversion of %s", v.X.Name())
			}
			c.silent[v] = true
			return true
		}
		if st, ok := moduleStructPtr(v.X.Type()); ok && v.Type().String() == messageV1 {
			// a struct of the package as a proto.Message: only as the argument of proto.Marshal / proto.Unmarshal
			_ = st
			for _, u := range *v.Referrers() {
				if _, dbg := u.(*ssa.DebugRef); dbg {
					continue
				}
				call, ok := u.(*ssa.Call)
				if !ok || !isExternalCallee(call.Call.StaticCallee()) || call.Block() != v.Block() {
					fail("%s as a proto.Message is used in %s", v.X.Name(), u)
				}
			}
			c.ifaceOf[v] = v.X
			c.silent[v] = true
			return true
		}
		if moduleIface(v.Type()) {
			impl := c.tr.soleImpl(v.Type())
			if !types.Identical(impl, v.X.Type()) {
				fail("conversion of %s to %s", v.X.Type(), v.Type())
			}
			c.let(ind, v, fmt.Sprintf("some %s", c.operand(v.X)))
			return true
		}
		fail("conversion to an interface: %s", v)

	case *ssa.TypeAssert:
		if !v.CommaOk || !objKind(v.X.Type()) || !objKind(v.AssertedType) ||
			v.AssertedType.String() != modulePath+"/pbcmpl.VersionedMessage" {
			fail("type assertion %s", v)
		}
		// the value may only be used where ok is known to be true
		var okVal, val *ssa.Extract
		for _, u := range *v.Referrers() {
			switch x := u.(type) {
			case *ssa.DebugRef:
			case *ssa.Extract:
				if x.Index == 0 {
					if val != nil {
						fail("type assertion %s: value extracted twice", v)
					}
					val = x
				} else {
					if okVal != nil {
						fail("type assertion %s: ok extracted twice", v)
					}
					okVal = x
				}
			default:
				fail("type assertion %s used in %s", v, u)
			}
		}
		if val != nil && hasUses(val) {
			var guard *ssa.BasicBlock
			if okVal != nil {
				for _, u := range *okVal.Referrers() {
					if br, ok := u.(*ssa.If); ok && br.Cond == ssa.Value(okVal) {
						t := br.Block().Succs[0]
						if len(t.Preds) == 1 && t != br.Block().Succs[1] {
							guard = t
						}
					}
				}
			}
			for _, u := range *val.Referrers() {
				if _, dbg := u.(*ssa.DebugRef); dbg {
					continue
				}
				if guard == nil || !guard.Dominates(u.Block()) {
					fail("the value of the type assertion %s is used where ok may be false", v)
				}
			}
		}
		c.let(ind, v, fmt.Sprintf("(%s, X.isVersioned %s %s)", c.operand(v.X), paren(cur[worldKey]), c.operand(v.X)))
		return true

	case *ssa.BinOp:
		if (v.Op == token.EQL || v.Op == token.NEQ) && types.Identical(v.X.Type(), errorType) && types.Identical(v.Y.Type(), errorType) {
			constLike := func(x ssa.Value) bool {
				if k, ok := x.(*ssa.Const); ok && k.Value == nil {
					return true
				}
				if u, ok := x.(*ssa.UnOp); ok && u.Op == token.MUL {
					_, isG := u.X.(*ssa.Global)
					return isG
				}
				return false
			}
			if !constLike(v.X) && !constLike(v.Y) {
				fail("comparison of two error values neither of which is nil or a package-level error variable (it could panic)")
			}
			c.let(ind, v, fmt.Sprintf("decide (%s %s %s)", c.operand(v.X), cmpOps[v.Op], c.operand(v.Y)))
			return true
		}
		if v.Op == token.EQL || v.Op == token.NEQ {
			if _, isPtr := v.X.Type().Underlying().(*types.Pointer); isPtr {
				fail("pointer comparison %s", v)
			}
			if _, isIface := v.X.Type().Underlying().(*types.Interface); isIface {
				fail("interface comparison %s", v)
			}
		}
		return false

	case *ssa.Call:
		return c.emitExtCall(v, ind, cur)
	}
	return false
}

func (c *fnCtx) bumpWorld(ind int, cur map[int]string, expr string) {
	name := c.freshName("wd")
	c.line(ind, "let %s : σ := %s;", name, expr)
	cur[worldKey] = name
}

// external emits `let <v>x := X.<oracle> wd args`; returns the name of the raw answer.
func (c *fnCtx) external(v *ssa.Call, ind int, cur map[int]string, oracle string, ansType string, args ...string) string {
	raw := v.Name() + "x"
	c.line(ind, "let %s : (%s × σ) := X.%s %s %s;", raw, ansType, oracle, paren(cur[worldKey]), strings.Join(args, " "))
	return raw
}

func (c *fnCtx) emitExtCall(v *ssa.Call, ind int, cur map[int]string) bool {
	world := func() string { return paren(cur[worldKey]) }
	_ = world
	if v.Call.IsInvoke() {
		recvT := v.Call.Value.Type()
		if objKind(recvT) {
			m := v.Call.Method.Name()
			switch {
			case recvT.String() == "io.Writer" && m == "Write" && len(v.Call.Args) == 1 && leanType(v.Call.Args[0].Type()) == "List Nat" &&
				leanType(v.Type()) == "(Int × GoSem5.Err)":
				raw := c.external(v, ind, cur, "write", "(Int × GoSem5.Err)", c.operand(v.Call.Value), c.operand(v.Call.Args[0]))
				c.let(ind, v, raw+".1")
				c.bumpWorld(ind, cur, raw+".2")
			case recvT.String() == modulePath+"/pbcmpl.VersionedMessage" && m == "GetVersion" && len(v.Call.Args) == 0 && isString(v.Type()):
				raw := c.external(v, ind, cur, "getVersion", "List Nat", c.operand(v.Call.Value))
				c.let(ind, v, raw+".1")
				c.bumpWorld(ind, cur, raw+".2")
			default:
				fail("interface method call %s (not a recognised external)", v)
			}
			return true
		}
		fn := c.tr.invokeTarget(&v.Call)
		if fn == nil {
			fail("interface method call %s", v)
		}
		// a call through the package interface with one implementation: nil interface = panic
		recvName := v.Name() + "r"
		impl := c.tr.soleImpl(recvT)
		c.line(ind, "Option.bind (%s) fun (%s : %s) =>", c.operand(v.Call.Value), recvName, leanType(impl))
		c.emitTargetCall(v, fn, append([]string{recvName}, c.operands(v.Call.Args)...), ind, cur)
		return true
	}
	if call, ok := isBuiltinCall(v, "copy"); ok {
		// copy(h.Version[:], src) into an array field of a struct the function allocated
		sl, ok := call.Call.Args[0].(*ssa.Slice)
		if !ok || !c.silent[sl] {
			return false
		}
		fa := sl.X.(*ssa.FieldAddr)
		o := c.objs[fa.X.(*ssa.Alloc)]
		c.mutable(o, v.String())
		src := call.Call.Args[1]
		ty := fieldRepr(o.st.Field(fa.Field).Type(), 0)
		if !(isString(src.Type()) && ty == "List Nat") && leanType(src.Type()) != ty {
			fail("copy of %s into %s", src.Type(), sl.Type())
		}
		if _, srcOwned := c.owned[src]; srcOwned {
			c.readOwned(src)
		}
		s := c.operand(src)
		m := o.fields[fa.Field]
		if hasUses(v) {
			c.let(ind, v, fmt.Sprintf("%scopyLen %s %s", c.useGoSem3(), m, s))
		}
		name := c.freshName(fmt.Sprintf("%s_%s", o.alloc.Name(), o.st.Field(fa.Field).Name()))
		c.line(ind, "let %s : %s := %scopyInto %s %s;", name, ty, c.useGoSem3(), m, s)
		o.fields[fa.Field] = name
		return true
	}
	callee := v.Call.StaticCallee()
	if callee == nil {
		return false
	}
	if callee.String() == "(*bytes.Buffer).Bytes" {
		a, _ := v.Call.Args[0].(*ssa.Alloc)
		o, ok := c.objs[a]
		if !ok || o.st != nil {
			fail("call %s", v)
		}
		c.let(ind, v, cur[o.bufKey])
		return true
	}
	if isExternalCallee(callee) {
		c.emitExternal(v, callee, ind, cur)
		return true
	}
	if tname, ok := c.tr.byFunc[callee]; ok && c.tr.genOf(tname) >= 5 {
		c.emitTargetCall(v, callee, c.operands(v.Call.Args), ind, cur)
		return true
	}
	return false
}

func (c *fnCtx) operands(vs []ssa.Value) []string {
	var r []string
	for _, a := range vs {
		leanType(a.Type())
		r = append(r, c.operand(a))
	}
	return r
}

// emitTargetCall: a call of a generation-5 definition (static, or resolved through the package interface).
func (c *fnCtx) emitTargetCall(v *ssa.Call, callee *ssa.Function, args []string, ind int, cur map[int]string) {
	tname := c.tr.byFunc[callee]
	var full []string
	if c.tr.needsFuel(callee) {
		full = append(full, "fuel")
	}
	uses := c.tr.usesWorld(callee)
	if uses {
		full = append(full, "X")
	}
	full = append(full, args...)
	for _, g := range c.tr.globalIntsOf(callee) {
		n, ok := c.globalName[g]
		if !ok {
			fail("call of %s: the package-level variable %s is not a parameter here", callee.Name(), g.Name())
		}
		full = append(full, n)
	}
	if uses {
		full = append(full, paren(cur[worldKey]))
	}
	expr := c.leanRefOf(tname) + " " + strings.Join(full, " ")
	resT := "Unit"
	if callee.Signature.Results().Len() > 0 {
		resT = leanType(v.Type())
	}
	opt := c.tr.canPanic(callee) || c.tr.needsFuel(callee)
	if !uses {
		if callee.Signature.Results().Len() == 0 {
			fail("call of %s, which has no result", callee.Name())
		}
		if opt {
			c.bind(ind, v, resT, expr)
		} else {
			c.let(ind, v, expr)
		}
		return
	}
	raw := v.Name() + "x"
	ty := fmt.Sprintf("(%s × σ)", resT)
	if opt {
		c.line(ind, "Option.bind (%s) fun (%s : %s) =>", expr, raw, ty)
	} else {
		c.line(ind, "let %s : %s := %s;", raw, ty, expr)
	}
	if callee.Signature.Results().Len() > 0 {
		c.let(ind, v, raw+".1")
	}
	c.bumpWorld(ind, cur, raw+".2")
}

const headerRepr = "(List Nat × Nat × Nat)"

// ownHeader: the argument is a `*header` of this package converted to proto.Message.
func (c *fnCtx) ownHeader(arg ssa.Value) (ssa.Value, bool) {
	x, ok := c.ifaceOf[arg]
	if !ok {
		return nil, false
	}
	st, ok := moduleStructPtr(x.Type())
	if !ok || x.Type().String() != "*"+modulePath+"/pbcmpl.header" || structRepr(st, 0) != headerRepr {
		fail("a struct other than pbcmpl.header{Version [N]byte; HeaderSize, BodySize uint64} as a proto.Message: %s", x.Type())
	}
	return x, true
}

func (c *fnCtx) emitExternal(v *ssa.Call, callee *ssa.Function, ind int, cur map[int]string) {
	args := v.Call.Args
	want := func(ok bool) {
		if !ok {
			fail("unexpected signature of the external %s in %s", callee, v)
		}
	}
	key := callee.Pkg.Pkg.Path() + "." + callee.Name()
	switch key {
	case protoPkg + ".Marshal":
		want(len(args) == 1 && leanType(v.Type()) == "(List Nat × GoSem5.Err)")
		if h, ok := c.ownHeader(args[0]); ok {
			var snap string
			if a, isAlloc := h.(*ssa.Alloc); isAlloc && c.objs[a] != nil {
				snap = c.snapshot(c.objs[a], false)
			} else {
				snap = c.operand(h)
			}
			raw := c.external(v, ind, cur, "protoMarshalHeader", "(List Nat × GoSem5.Err)", snap)
			c.let(ind, v, raw+".1")
			c.bumpWorld(ind, cur, raw+".2")
			return
		}
		want(leanType(args[0].Type()) == "GoSem5.Obj")
		raw := c.external(v, ind, cur, "protoMarshal", "(List Nat × GoSem5.Err)", c.operand(args[0]))
		c.let(ind, v, raw+".1")
		c.bumpWorld(ind, cur, raw+".2")

	case protoPkg + ".Unmarshal":
		want(len(args) == 2 && leanType(args[0].Type()) == "List Nat" && leanType(v.Type()) == "GoSem5.Err")
		if h, ok := c.ownHeader(args[1]); ok {
			a, isAlloc := h.(*ssa.Alloc)
			if !isAlloc || c.objs[a] == nil {
				fail("proto.Unmarshal into %s, a struct the function did not allocate", h.Name())
			}
			o := c.objs[a]
			c.mutable(o, v.String())
			raw := c.external(v, ind, cur, "protoUnmarshalHeader", "("+headerRepr+" × GoSem5.Err)", c.operand(args[0]), c.snapshot(o, false))
			for k := 0; k < o.st.NumFields(); k++ {
				name := c.freshName(fmt.Sprintf("%s_%s", a.Name(), o.st.Field(k).Name()))
				c.line(ind, "let %s : %s := %s.1.1%s;", name, fieldRepr(o.st.Field(k).Type(), 0), raw, fieldProj(o.st, k))
				o.fields[k] = name
			}
			c.let(ind, v, raw+".1.2")
			c.bumpWorld(ind, cur, raw+".2")
			return
		}
		want(leanType(args[1].Type()) == "GoSem5.Obj")
		raw := c.external(v, ind, cur, "protoUnmarshal", "GoSem5.Err", c.operand(args[0]), c.operand(args[1]))
		c.let(ind, v, raw+".1")
		c.bumpWorld(ind, cur, raw+".2")

	case protoPkg + ".Size":
		want(len(args) == 1 && leanType(args[0].Type()) == "GoSem5.Obj" && leanType(v.Type()) == "Int" && intSuffix(v.Type()) == "I64")
		raw := c.external(v, ind, cur, "protoSize", "Int", c.operand(args[0]))
		c.let(ind, v, raw+".1")
		c.bumpWorld(ind, cur, raw+".2")

	case "io.ReadFull":
		want(len(args) == 2 && args[0].Type().String() == "io.Reader" && leanType(args[1].Type()) == "List Nat" &&
			leanType(v.Type()) == "(Int × GoSem5.Err)")
		cls, isOwned := c.owned[args[1]]
		if !isOwned {
			fail("io.ReadFull into %s, memory the function did not allocate", args[1].Name())
		}
		m := c.readOwned(args[1])
		if _, tied := cur[tieKey(cls)]; tied {
			fail("io.ReadFull into memory held by the receiver")
		}
		raw := c.external(v, ind, cur, "ioReadFull", "(List Nat × (Int × GoSem5.Err))", c.operand(args[0]), m)
		name := c.freshName(c.baseName(cur, cls))
		c.line(ind, "let %s : %s := %s.1.1;", name, c.clsType(cls), raw)
		c.setContents(cur, cls, name)
		c.let(ind, v, raw+".1.2")
		c.bumpWorld(ind, cur, raw+".2")

	case "io.CopyN":
		want(len(args) == 3 && args[1].Type().String() == "io.Reader" && intSuffix(args[2].Type()) == "I64" &&
			leanType(v.Type()) == "(Int × GoSem5.Err)")
		a, _ := c.ifaceOf[args[0]].(*ssa.Alloc)
		o := c.objs[a]
		if o == nil || o.st != nil {
			fail("io.CopyN into %s (only into a bytes.Buffer of the function)", args[0].Name())
		}
		raw := c.external(v, ind, cur, "ioCopyNBuffer", "(List Nat × (Int × GoSem5.Err))", cur[o.bufKey], c.operand(args[1]), c.operand(args[2]))
		name := c.freshName(c.storedBase(o.bufKey))
		c.line(ind, "let %s : List Nat := %s.1.1;", name, raw)
		cur[o.bufKey] = name
		c.let(ind, v, raw+".1.2")
		c.bumpWorld(ind, cur, raw+".2")

	case errorsPkg + ".WithStack":
		want(len(args) == 1 && leanType(args[0].Type()) == "GoSem5.Err" && leanType(v.Type()) == "GoSem5.Err")
		raw := c.external(v, ind, cur, "withStack", "GoSem5.Err", c.operand(args[0]))
		c.let(ind, v, raw+".1")
		c.bumpWorld(ind, cur, raw+".2")

	default:
		fail("external call %s", v)
	}
}

// stringConst: a Go string constant as the list of its bytes.
func stringConst(k *ssa.Const) string {
	if k.Value == nil || k.Value.Kind() != constant.String {
		fail("bad string constant")
	}
	s := constant.StringVal(k.Value)
	if len(s) > 256 {
		fail("string constant of %d bytes", len(s))
	}
	var parts []string
	for i := 0; i < len(s); i++ {
		parts = append(parts, fmt.Sprint(s[i]))
	}
	return "([" + strings.Join(parts, ", ") + "] : List Nat)"
}

var _ = sort.Ints
