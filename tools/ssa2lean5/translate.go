package main

import (
	"bytes"
	"fmt"
	"go/constant"
	"go/token"
	"go/types"
	"regexp"
	"sort"
	"strconv"
	"strings"

	"golang.org/x/tools/go/ssa"
	"golang.org/x/tools/go/ssa/ssautil"
)

// ---------------------------------------------------------------------------
// "unsupported" is reported by panicking with this type; translate recovers it.

type unsupported struct{ reason string }

func fail(format string, args ...interface{}) {
	panic(unsupported{fmt.Sprintf(format, args...)})
}

// ---------------------------------------------------------------------------

type translator struct {
	prog        *ssa.Program
	pkgs        map[string]*ssa.Package
	byName      map[string]*ssa.Function // target name -> function
	byFunc      map[*ssa.Function]string // function -> target name
	resolveErr  map[string]string
	panicMemo   map[*ssa.Function]int // 1 = being computed, 2 = cannot panic, 3 = can panic
	fuelMemo    map[*ssa.Function]int // 2 = no loop (transitively), 3 = contains a loop or calls a target that does
	legacy      map[string]bool       // targets of the original ssa2lean (namespace Low.Gen.Ssa, loop-free only)
	gen2        map[string]bool       // targets of ssa2lean2 (namespace Low.Gen.Ssa2)
	gen3        map[string]bool       // targets of ssa2lean3 (namespace Low.Gen.Ssa3)
	cloMemo     map[*ssa.Function]*closureInfo
	cloDone     map[*ssa.Function]bool
	freshMemo   map[*ssa.Function]int // returnsFresh: 1 = being computed, 2 = yes, 3 = no
	globalInts  map[*ssa.Function][]*ssa.Global
	writtenMemo map[*ssa.Function]map[int]bool
	tablesOK    map[*ssa.Global]string
	globalsOK   map[*ssa.Global]string
	allFuncs    []*ssa.Function
	gen4        map[string]bool // targets of ssa2lean4 (namespace Low.Gen.Ssa4)
	implMemo    map[string]types.Type
	worldMemo   map[*ssa.Function]int
	errVarMemo  map[*ssa.Global]string
}

func newTranslator(prog *ssa.Program, pkgs map[string]*ssa.Package, targets []string, legacy []string, gen2 []string, gen3 []string, gen4 []string) *translator {
	tr := &translator{
		prog: prog, pkgs: pkgs,
		byName: map[string]*ssa.Function{}, byFunc: map[*ssa.Function]string{},
		resolveErr: map[string]string{}, panicMemo: map[*ssa.Function]int{},
		fuelMemo: map[*ssa.Function]int{}, legacy: map[string]bool{}, tablesOK: map[*ssa.Global]string{},
		globalsOK: map[*ssa.Global]string{}, gen2: map[string]bool{}, freshMemo: map[*ssa.Function]int{},
		globalInts: map[*ssa.Function][]*ssa.Global{}, writtenMemo: map[*ssa.Function]map[int]bool{},
		gen3: map[string]bool{}, cloMemo: map[*ssa.Function]*closureInfo{}, cloDone: map[*ssa.Function]bool{},
	}
	for _, t := range gen3 {
		tr.gen3[t] = true
	}
	tr.gen4 = map[string]bool{}
	for _, t := range gen4 {
		tr.gen4[t] = true
	}
	for _, t := range legacy {
		tr.legacy[t] = true
	}
	for _, t := range gen2 {
		tr.gen2[t] = true
	}
	for _, t := range targets {
		f, err := tr.resolve(t)
		if err != "" {
			tr.resolveErr[t] = err
			continue
		}
		tr.byName[t] = f
		tr.byFunc[f] = t
	}
	return tr
}

// genOf: the generation of a target (1 = original ssa2lean, 2 = ssa2lean2, 3 = ssa2lean3, 4 = this tool).
func (tr *translator) genOf(target string) int {
	switch {
	case tr.legacy[target]:
		return 1
	case tr.gen2[target]:
		return 2
	case tr.gen3[target]:
		return 3
	case tr.gen4[target]:
		return 4
	}
	return 5
}

func (tr *translator) resolve(target string) (*ssa.Function, string) {
	parts := strings.Split(target, ".")
	pkg := tr.pkgs[parts[0]]
	if pkg == nil {
		return nil, "package " + parts[0] + " not loaded"
	}
	switch len(parts) {
	case 2:
		f := pkg.Func(parts[1])
		if f == nil {
			return nil, "no function " + target + " in the source"
		}
		return f, ""
	case 3:
		T := pkg.Type(parts[1])
		if T == nil {
			return nil, "no type " + parts[0] + "." + parts[1] + " in the source"
		}
		sel := types.NewMethodSet(types.NewPointer(T.Type())).Lookup(pkg.Pkg, parts[2])
		if sel == nil {
			return nil, "no method " + target + " in the source"
		}
		fn, ok := sel.Obj().(*types.Func)
		if !ok {
			return nil, target + " is not a method"
		}
		f := tr.prog.FuncValue(fn)
		if f == nil || len(f.Blocks) == 0 {
			return nil, "no SSA body for " + target
		}
		return f, ""
	}
	return nil, "bad target name " + target
}

// translate returns the text of the generated Lean file, or a reason why the
// function is outside the supported subset.
func (tr *translator) translate(target string) (lean string, reason string) {
	if e, bad := tr.resolveErr[target]; bad {
		return "", e
	}
	f := tr.byName[target]
	defer func() {
		if r := recover(); r != nil {
			u, ok := r.(unsupported)
			if !ok {
				panic(r)
			}
			lean, reason = "", u.reason
		}
	}()
	c := &fnCtx{tr: tr, f: f, target: target, imports: map[string]bool{}, names: map[ssa.Value]string{},
		defined: map[ssa.Value]string{}, defType: map[ssa.Value]string{}, used: map[string]bool{},
		fieldParam: map[int]string{}, cells: map[*ssa.Alloc]ssa.Value{}, silent: map[ssa.Value]bool{},
		rowIndex: map[ssa.Value]ssa.Value{}, joinType: map[*ssa.BasicBlock]string{},
		loopPrefix: map[*ssa.BasicBlock]string{}, isLoop: map[*ssa.BasicBlock]bool{}}
	return c.run(), ""
}

// canPanic: does the function contain an instruction that the translation
// maps to `none` (bounds-checked indexing or slicing, explicit panic), directly
// or through a call of another target?  Also rejects recursion among targets.
func (tr *translator) canPanic(f *ssa.Function) bool {
	switch tr.panicMemo[f] {
	case 1:
		fail("recursion through %s", f.Name())
	case 2:
		return false
	case 3:
		return true
	}
	tr.panicMemo[f] = 1
	res := false
	for _, b := range f.Blocks {
		for _, in := range b.Instrs {
			switch v := in.(type) {
			case *ssa.IndexAddr, *ssa.Index, *ssa.Slice, *ssa.Panic, *ssa.MakeSlice:
				res = true
			case *ssa.MakeClosure:
				if !onlyFeedsNoop(v) {
					res = true // the definition of a closure always returns Option (generation 4)
				}
			case *ssa.BinOp:
				if v.Op == token.QUO || v.Op == token.REM {
					res = true
				}
			case *ssa.Call:
				if v.Call.IsInvoke() && moduleIface(v.Call.Value.Type()) {
					res = true // a call through a nil interface panics (generation 5)
				}
				if callee := v.Call.StaticCallee(); callee != nil {
					if callee == f {
						fail("recursive call of %s", f.Name())
					}
					if _, ok := tr.byFunc[callee]; ok && tr.canPanic(callee) {
						res = true
					}
				}
			}
		}
	}
	if res {
		tr.panicMemo[f] = 3
	} else {
		tr.panicMemo[f] = 2
	}
	return res
}

// needsFuel: the function contains a loop (a CFG edge whose target dominates
// its source) or calls a target that does.  Such a function takes `fuel : Nat`
// as its first Lean argument and returns `Option`.  (canPanic has rejected
// recursion among targets before this is called.)
func (tr *translator) needsFuel(f *ssa.Function) bool {
	switch tr.fuelMemo[f] {
	case 2:
		return false
	case 3:
		return true
	}
	tr.canPanic(f)
	res := false
	for _, b := range f.Blocks {
		for _, s := range b.Succs {
			if s.Dominates(b) {
				res = true
			}
		}
		for _, in := range b.Instrs {
			if v, ok := in.(*ssa.Call); ok {
				if callee := v.Call.StaticCallee(); callee != nil {
					if _, ok := tr.byFunc[callee]; ok && tr.needsFuel(callee) {
						res = true
					}
				}
				if fn := tr.invokeTarget(&v.Call); fn != nil && fn != f && tr.needsFuel(fn) {
					res = true
				}
			}
			if mc, ok := in.(*ssa.MakeClosure); ok && !onlyFeedsNoop(mc) {
				// a closure (generation 4): its loops, and the depth of its recursion
				if fn, ok := mc.Fn.(*ssa.Function); ok && (tr.needsFuel(fn) || len(fn.FreeVars) > 0 && callsThroughFreeVar(fn)) {
					res = true
				}
			}
		}
	}
	if res {
		tr.fuelMemo[f] = 3
	} else {
		tr.fuelMemo[f] = 2
	}
	return res
}

func (tr *translator) loadAllFuncs() {
	if tr.allFuncs == nil {
		for fn := range ssautil.AllFunctions(tr.prog) {
			tr.allFuncs = append(tr.allFuncs, fn)
		}
	}
}

// isPkgInit: the synthesized package initialiser `init` or a declared `func init()` (go/ssa names them init#N).
func isPkgInit(fn *ssa.Function) bool {
	return (fn.Name() == "init" || strings.HasPrefix(fn.Name(), "init#")) && fn.Parent() == nil && fn.Signature.Recv() == nil
}

// globalConstErr: a package-level variable of type error that is assigned only
// by the package initialiser is represented by its identity "pkg.name".
func (tr *translator) globalConstErr(g *ssa.Global) string {
	if s, ok := tr.globalsOK[g]; ok {
		if s == "" {
			fail("global %s is written outside package initialisation", g.Name())
		}
		return s
	}
	tr.loadAllFuncs()
	ok := true
	for _, fn := range tr.allFuncs {
		if fn.Pkg != g.Pkg || isPkgInit(fn) {
			continue
		}
		for _, b := range fn.Blocks {
			for _, in := range b.Instrs {
				for _, op := range in.Operands(nil) {
					if *op != ssa.Value(g) {
						continue
					}
					// the only permitted use outside init is a load `*g`
					if u, isLoad := in.(*ssa.UnOp); !(isLoad && u.Op == token.MUL) {
						ok = false
					}
				}
			}
		}
	}
	s := ""
	if ok {
		s = strings.TrimPrefix(g.Pkg.Pkg.Path(), modulePath+"/") + "." + g.Name()
	}
	tr.globalsOK[g] = s
	if s == "" {
		fail("global %s is written (or its address taken) outside package initialisation", g.Name())
	}
	return s
}

// readOnlyAddr / readOnlyVal: an address (or slice value) derived from a lookup
// table is only ever read.
func readOnlyAddr(v ssa.Value) bool {
	refs := v.Referrers()
	if refs == nil {
		return false
	}
	for _, r := range *refs {
		switch x := r.(type) {
		case *ssa.DebugRef:
		case *ssa.UnOp:
			if x.Op != token.MUL || x.X != v {
				return false
			}
			if _, isSlice := x.Type().Underlying().(*types.Slice); isSlice {
				if !readOnlySlice(x) {
					return false
				}
			} else if !isIntType(x.Type()) {
				return false
			}
		case *ssa.IndexAddr:
			if x.X != v || !readOnlyAddr(x) {
				return false
			}
		case *ssa.Slice: // arr[:] of a pointer to an array
			if x.X != v || !readOnlySlice(x) {
				return false
			}
		default:
			return false
		}
	}
	return true
}

func readOnlySlice(v ssa.Value) bool {
	refs := v.Referrers()
	if refs == nil {
		return false
	}
	for _, r := range *refs {
		switch x := r.(type) {
		case *ssa.DebugRef:
		case *ssa.IndexAddr:
			if x.X != v || !readOnlyAddr(x) {
				return false
			}
		case *ssa.Call:
			b, ok := x.Call.Value.(*ssa.Builtin)
			if !ok {
				return false
			}
			switch b.Name() {
			case "len":
			case "append", "copy": // as the source only
				if len(x.Call.Args) != 2 || x.Call.Args[1] != v || x.Call.Args[0] == v {
					return false
				}
			default:
				return false
			}
		default:
			return false
		}
	}
	return true
}

// tableReadOnly: outside the package initialiser (and the functions listed in
// initFuncs, which must be called from the package initialiser only) the
// table `g` is only read.  Returns "" or a reason.
func (tr *translator) tableReadOnly(g *ssa.Global, initFuncs ...string) string {
	if s, ok := tr.tablesOK[g]; ok {
		return s
	}
	tr.loadAllFuncs()
	isInit := map[*ssa.Function]bool{}
	for _, n := range initFuncs {
		if fn := g.Pkg.Func(n); fn != nil {
			isInit[fn] = true
		}
	}
	reason := ""
	for _, fn := range tr.allFuncs {
		for _, b := range fn.Blocks {
			for _, in := range b.Instrs {
				// the helper initialisers may be called by the package initialiser only
				if call, ok := in.(ssa.CallInstruction); ok {
					if callee := call.Common().StaticCallee(); callee != nil && isInit[callee] && !isPkgInit(fn) {
						reason = fmt.Sprintf("%s is called from %s", callee.Name(), fn.Name())
					}
				}
				if fn.Pkg == g.Pkg && (isPkgInit(fn) || isInit[fn]) {
					continue
				}
				for _, op := range in.Operands(nil) {
					if *op != ssa.Value(g) {
						continue
					}
					switch x := in.(type) {
					case *ssa.UnOp:
						_, isSlice := x.Type().Underlying().(*types.Slice)
						if x.Op != token.MUL || !isSlice || !readOnlySlice(x) {
							reason = fmt.Sprintf("table %s is used in %s other than for reading", g.Name(), fn.Name())
						}
					case *ssa.IndexAddr:
						if x.X != ssa.Value(g) || !readOnlyAddr(x) {
							reason = fmt.Sprintf("table %s is used in %s other than for reading", g.Name(), fn.Name())
						}
					case *ssa.Slice:
						if x.X != ssa.Value(g) || !readOnlySlice(x) {
							reason = fmt.Sprintf("table %s is used in %s other than for reading", g.Name(), fn.Name())
						}
					default:
						reason = fmt.Sprintf("table %s is used in %s other than for reading", g.Name(), fn.Name())
					}
				}
			}
		}
	}
	tr.tablesOK[g] = reason
	return reason
}

// ---------------------------------------------------------------------------
// types

func basicKind(t types.Type) (types.BasicKind, bool) {
	b, ok := t.Underlying().(*types.Basic)
	if !ok {
		return 0, false
	}
	return b.Kind(), true
}

// suffix of the GoSem operation names: the integer type as GoSem sees it
// (int = int64, uint = uint64 on the supported 64-bit platforms).
func intSuffix(t types.Type) string {
	k, ok := basicKind(t)
	if ok {
		switch k {
		case types.Int32:
			return "I32"
		case types.Int, types.Int64:
			return "I64"
		case types.Uint8:
			return "U8"
		case types.Uint16:
			return "U16"
		case types.Uint32:
			return "U32"
		case types.Uint, types.Uint64:
			return "U64"
		}
	}
	fail("unsupported integer type %s", t)
	return ""
}

func isIntType(t types.Type) bool {
	k, ok := basicKind(t)
	if !ok {
		return false
	}
	switch k {
	case types.Int32, types.Int, types.Int64, types.Uint8, types.Uint16, types.Uint32, types.Uint, types.Uint64:
		return true
	}
	return false
}

func isSigned(t types.Type) bool   { return strings.HasPrefix(intSuffix(t), "I") }
func isUnsigned(t types.Type) bool { return isIntType(t) && !isSigned(t) }
func isBool(t types.Type) bool {
	k, ok := basicKind(t)
	return ok && k == types.Bool
}
func isString(t types.Type) bool {
	k, ok := basicKind(t)
	return ok && k == types.String
}

var errorType = types.Universe.Lookup("error").Type()

func leanType(t types.Type) string {
	if curGen >= 5 {
		if s, ok := leanType5(t); ok {
			return s
		}
	}
	if types.Identical(t, errorType) {
		return "GoSem.Err"
	}
	switch u := t.Underlying().(type) {
	case *types.Basic:
		switch {
		case isIntType(t):
			if isSigned(t) {
				return "Int"
			}
			return "Nat"
		case u.Kind() == types.Bool:
			return "Bool"
		case u.Kind() == types.String:
			return "List Nat"
		}
	case *types.Slice:
		if isIntType(u.Elem()) {
			return "List " + leanType(u.Elem())
		}
		if isBool(u.Elem()) || isString(u.Elem()) {
			return "List " + paren(leanType(u.Elem()))
		}
		if e, ok := u.Elem().Underlying().(*types.Slice); ok && isIntType(e.Elem()) {
			return "List " + paren(leanType(u.Elem()))
		}
	case *types.Tuple:
		var parts []string
		for i := 0; i < u.Len(); i++ {
			parts = append(parts, leanType(u.At(i).Type()))
		}
		if len(parts) >= 2 {
			return "(" + strings.Join(parts, " × ") + ")"
		}
	}
	fail("unsupported type %s", t)
	return ""
}

func paren(s string) string {
	if strings.ContainsAny(s, " ") && !(strings.HasPrefix(s, "(") && strings.HasSuffix(s, ")")) {
		return "(" + s + ")"
	}
	return s
}

// ---------------------------------------------------------------------------
// per-function state

// extKey is the pseudo "receiver field" that records the call made on the
// external io.WriterAt (see emitInvoke); it is threaded through joins and
// returned like a stored receiver field.
const extKey = -1

type fnCtx struct {
	tr      *translator
	f       *ssa.Function
	target  string
	legacy  bool
	gen     int  // 1 = original ssa2lean, 2 = ssa2lean2, 3 = this tool
	option  bool // the Lean definition returns Option
	fuel    bool // the Lean definition takes `fuel : Nat` first
	names   map[ssa.Value]string
	defined map[ssa.Value]string
	defType map[ssa.Value]string // Lean type of the name in `defined`
	used    map[string]bool
	imports map[string]bool // imported Lean modules (besides GoSem / GoSem2)
	gosem2  bool            // GoSem2 vocabulary used
	gosem3  bool            // GoSem3 vocabulary used

	// memory the function allocates itself (memory.go)
	curp       map[int]string                   // the state (`cur`) of the block being emitted
	owned      map[ssa.Value]int                // owned value -> class
	clsRoot    []ssa.Value                      // class -> its first member in program order
	liveCls    map[*ssa.BasicBlock]map[int]bool // classes live on entry to a block (and not redefined by a phi there)
	joinView   map[*ssa.BasicBlock]map[int]string
	addrOf     map[*ssa.IndexAddr]ownedAddr
	clsFields  map[int]map[int]bool   // class -> receiver fields whose memory the class may share
	globalName map[*ssa.Global]string // package-level integer variables read: extra parameters (generation 3)
	topo       map[*ssa.BasicBlock]int
	resType    string

	// struct receiver (methods with receiver *T, T a struct)
	recv       *ssa.Parameter
	recvStruct *types.Struct
	fieldParam map[int]string // field index -> Lean parameter
	stored     []int          // keys of the state the function updates (field indices, extKey), ascending
	fresh      int
	extField   int // index of the io.WriterAt field, or -1

	// loops
	isLoop     map[*ssa.BasicBlock]bool   // loop headers
	inLoop     []*ssa.BasicBlock          // headers of the loop definitions being emitted, innermost last
	loopPrefix map[*ssa.BasicBlock]string // "f_loopN fuel params live-ins"
	joinType   map[*ssa.BasicBlock]string // Lean type of the local function blkN
	defs       []string                   // finished top-level loop definitions, in dependency order
	paramNames []string                   // Lean parameters of the function (without fuel), in order
	paramDecls []string

	// local cells (`new T` written once, in the block that allocates it) and silent values
	cells    map[*ssa.Alloc]ssa.Value
	silent   map[ssa.Value]bool      // values that have no Lean counterpart and may only be used in recognised patterns
	rowIndex map[ssa.Value]ssa.Value // row value loaded from bmtree.idxToPath -> the row index

	// closures (generation 4, closure.go)
	clo       *closureInfo // the closure this function creates (parent) or is (isClosure)
	isClosure bool
	local     []int  // state keys threaded through joins but not returned: the captured variables of a parent
	selfName  string // Lean name of the definition being generated
	selfType  string // closure: Lean type of the parameter `self`
	cloDefs   []string
	cloSSA    string

	// generation 5 (extern.go)
	objs    map[*ssa.Alloc]*localObj
	ifaceOf map[ssa.Value]ssa.Value // MakeInterface value -> the converted value (silent conversions)
	bufName []string                // Lean base names of the local bytes.Buffer contents
	world   bool                    // the definition takes the oracle record and the world
	gosem5  bool

	body *strings.Builder
}

var identRE = regexp.MustCompile(`^[A-Za-z][A-Za-z0-9_]*$`)
var reservedRE = regexp.MustCompile(`^(t|blk|arg)[0-9]+$`)
var leanReserved = map[string]bool{}

func init() {
	for _, w := range strings.Fields(`at from end fun if then else let have show do in with match by open def theorem
		lemma instance structure class where namespace section import for return mut try catch finally unless true false
		Type Prop Sort forall exists using this some none Nat Int Bool List Option GoSem Low decide not or and break
		continue deriving extends mutual private protected partial unsafe noncomputable universe variable axiom example
		abbrev inductive macro syntax notation infix infixl infixr prefix postfix attribute export nomatch nofun suffices
		calc obtain sorry termination_by decreasing_by set_option local scoped omit include public meta rec id`) {
		leanReserved[w] = true
	}
}

func (c *fnCtx) claim(want string, k int) string {
	n := want
	if !identRE.MatchString(n) || reservedRE.MatchString(n) || leanReserved[n] || c.used[n] {
		n = fmt.Sprintf("arg%d", k)
		for c.used[n] {
			n += "x"
		}
	}
	c.used[n] = true
	return n
}

func (c *fnCtx) line(ind int, format string, args ...interface{}) {
	c.body.WriteString(strings.Repeat("  ", ind))
	fmt.Fprintf(c.body, format, args...)
	c.body.WriteByte('\n')
}

func (c *fnCtx) useGoSem2() string {
	if c.legacy {
		fail("construct outside the loop-free subset of the original ssa2lean")
	}
	c.gosem2 = true
	return "GoSem2."
}

// leanRefOf: how the generated definition of another target is referred to,
// and the module that has to be imported for it.
func (c *fnCtx) leanRefOf(tname string) string {
	ln := leanNameOf(tname)
	if c.tr.legacy[tname] {
		c.imports["Generated.Ssa."+ln] = true
		if c.legacy {
			return ln
		}
		return "Low.Gen.Ssa." + ln
	}
	if c.legacy {
		fail("call of %s, a target of ssa2lean2, from a target of the original tool", tname)
	}
	if c.tr.gen2[tname] {
		c.imports["Generated.Ssa2."+ln] = true
		if c.gen == 2 {
			return ln
		}
		return "Low.Gen.Ssa2." + ln
	}
	if c.gen < 3 {
		fail("call of %s, a target of ssa2lean3, from a target of an earlier tool", tname)
	}
	if c.tr.gen3[tname] {
		c.imports["Generated.Ssa3."+ln] = true
		if c.gen == 3 {
			return ln
		}
		return "Low.Gen.Ssa3." + ln
	}
	if c.gen < 4 {
		fail("call of %s, a target of ssa2lean4, from a target of an earlier tool", tname)
	}
	if c.tr.gen4[tname] {
		c.imports["Generated.Ssa4."+ln] = true
		if c.gen == 4 {
			return ln
		}
		return "Low.Gen.Ssa4." + ln
	}
	if c.gen < 5 {
		fail("call of %s, a target of ssa2lean5, from a target of an earlier tool", tname)
	}
	c.imports["Generated.Ssa5."+ln] = true
	return ln
}

func (c *fnCtx) run() string {
	f := c.f
	c.legacy = c.tr.legacy[c.target]
	c.gen = c.tr.genOf(c.target)
	curGen, curTr = c.gen, c.tr
	c.body = &strings.Builder{}
	c.extField = -1
	if len(f.Blocks) == 0 {
		fail("no body")
	}
	if f.Recover != nil {
		fail("defer/recover")
	}
	if len(f.FreeVars) > 0 && !c.isClosure {
		fail("closures")
	}
	if len(f.AnonFuncs) > 0 && c.legacy {
		fail("closures")
	}
	c.selfName = leanNameOf(c.target)
	if c.isClosure {
		c.selfName = leanNameOfClosure(c.target, f)
		if len(c.tr.globalIntsOf(f)) > 0 {
			fail("closure %s reads a package-level variable", f.Name())
		}
	} else if c.gen >= 4 && len(f.AnonFuncs) > 0 {
		c.clo = c.tr.closureOf(f)
	}
	if f.Signature.Variadic() && c.gen < 3 {
		fail("variadic function")
	}
	if f.TypeParams().Len() > 0 {
		fail("generic function")
	}
	c.analyseCFG()
	c.analyseMemory()
	c.fuel = c.tr.needsFuel(f)
	c.option = c.tr.canPanic(f) || c.fuel || c.isClosure
	if !c.legacy {
		c.used["fuel"], c.used["gas"], c.used["ans"] = true, true, true
	}
	if c.clo != nil {
		c.used["self"], c.used["depth"] = true, true
	}
	if c.gen >= 5 {
		c.used["X"], c.used["wd"] = true, true
		c.setupLocalObjs()
		c.world = c.tr.usesWorld(f)
		if c.world {
			c.paramNames = append(c.paramNames, "X")
			c.paramDecls = append(c.paramDecls, "{σ : Type} (X : GoSem5.Ext σ)")
		}
	}
	c.scanCells()
	hasExt := c.gen < 5 && c.scanExt()

	// parameters
	var ownDecls []string // closure: its own parameters and the state cells (the arguments of `self`)
	var ownNames []string
	var ownTypes []string
	if c.isClosure {
		// the captured variables the closure does not write: parameters, before `self` and the closure's own
		c.setupCells()
		for i := range c.clo.cells {
			if k := cellKey(i); i != c.clo.self && !c.clo.written[i] {
				c.paramNames = append(c.paramNames, c.fieldParam[k])
				c.paramDecls = append(c.paramDecls, fmt.Sprintf("(%s : %s)", c.fieldParam[k], leanType(c.cellElem(k))))
			}
		}
	}
	nEnv := len(c.paramNames)
	for k, p := range f.Params {
		if k == 0 && f.Signature.Recv() != nil && c.gen < 5 {
			c.setupReceiver(p)
			continue
		}
		n := c.claim(p.Name(), k)
		c.names[p] = n
		c.paramNames = append(c.paramNames, n)
		c.paramDecls = append(c.paramDecls, fmt.Sprintf("(%s : %s)", n, leanType(p.Type())))
	}
	if c.isClosure {
		// the captured variables the closure writes: state, passed in after the parameters and returned
		for i := range c.clo.cells {
			if k := cellKey(i); c.clo.written[i] {
				c.paramNames = append(c.paramNames, c.fieldParam[k])
				c.paramDecls = append(c.paramDecls, fmt.Sprintf("(%s : %s)", c.fieldParam[k], leanType(c.cellElem(k))))
				c.stored = append(c.stored, k)
			}
		}
		ownDecls = append(ownDecls, c.paramDecls[nEnv:]...)
		ownNames = append(ownNames, c.paramNames[nEnv:]...)
		for _, p := range f.Params {
			ownTypes = append(ownTypes, paren(leanType(p.Type())))
		}
		for _, k := range c.stored {
			ownTypes = append(ownTypes, paren(leanType(c.cellElem(k))))
		}
	} else if c.clo != nil {
		c.setupCells()
	}
	c.globalName = map[*ssa.Global]string{}
	if c.gen >= 3 {
		for k, g := range c.tr.globalIntsOf(f) {
			n := c.claim(g.Name(), 2000+k)
			c.globalName[g] = n
			c.paramNames = append(c.paramNames, n)
			c.paramDecls = append(c.paramDecls, fmt.Sprintf("(%s : %s)", n, leanType(g.Type().Underlying().(*types.Pointer).Elem())))
		}
	}
	if c.world {
		c.paramNames = append(c.paramNames, "wd")
		c.paramDecls = append(c.paramDecls, "(wd : σ)")
	}
	if hasExt {
		if c.extField < 0 {
			fail("interface method call outside the recognised external-writer pattern")
		}
		c.paramNames = append(c.paramNames, "ans")
		c.paramDecls = append(c.paramDecls, "(ans : "+c.useGoSem2()+"WriteAtAns)")
		// the external call record is returned last
		c.stored = append(c.stored, extKey)
	}

	// result type
	var parts []string
	res := f.Signature.Results()
	for i := 0; i < res.Len(); i++ {
		parts = append(parts, leanType(res.At(i).Type()))
	}
	for _, k := range c.stored {
		parts = append(parts, c.storedType(k))
	}
	if len(parts) == 0 && !c.world {
		fail("function without result")
	}
	c.resType = strings.Join(parts, " × ")
	if len(parts) > 1 {
		c.resType = "(" + c.resType + ")"
	}
	if c.world {
		// (<Go results> × σ): the final world last
		if len(parts) == 0 {
			c.resType = "Unit"
		}
		c.resType = "(" + c.resType + " × σ)"
	}
	if c.option {
		c.resType = "Option " + paren(c.resType)
	}
	if c.isClosure && c.clo.recursive() {
		// `self`: the closure at the remaining recursion depth, after the unwritten cells
		c.selfType = strings.Join(ownTypes, " → ") + " → " + c.resType
		envN, envD := c.paramNames[:nEnv], c.paramDecls[:nEnv]
		c.paramNames = append(append(append([]string{}, envN...), "self"), ownNames...)
		c.paramDecls = append(append(append([]string{}, envD...), "(self : "+c.selfType+")"), ownDecls...)
	}
	if c.clo != nil && !c.isClosure {
		c.cloDefs, c.cloSSA = c.translateClosure()
	}

	cur := map[int]string{}
	for k, n := range c.fieldParam {
		if isCellKey(k) && !c.isClosure {
			// a captured variable of a parent: it does not exist before its `new` (executed at most once, see
			// closureOf), which sets it to Go's zero value; that value stands in until then, so that every join can
			// pass the variable on
			cur[k] = zeroValueOf(c.cellElem(k))
			continue
		}
		cur[k] = n
	}
	if hasExt {
		cur[extKey] = "(none : GoSem2.ExtCall)"
	}
	if c.world {
		cur[worldKey] = "wd"
		c.local = append(c.local, worldKey)
	}
	for _, o := range c.objs {
		if o.st == nil {
			cur[o.bufKey] = "([] : List Nat)" // stands in until the buffer is allocated
		}
	}
	c.emitBlock(f.Blocks[0], 1, cur)

	if c.isClosure {
		c.finishClosure(nEnv, ownTypes, ownNames)
		return ""
	}

	// assemble the file
	leanName := leanNameOf(c.target)
	tool, ns, tie := genNames(c.gen)
	var out strings.Builder
	out.WriteString("import LowModel.GoSem\n")
	if c.gosem2 {
		out.WriteString("import LowModel.GoSem2\n")
	}
	if c.gosem3 {
		out.WriteString("import LowModel.GoSem3\n")
	}
	if c.gen >= 5 {
		out.WriteString("import LowModel.GoSem5\n")
	}
	var imps []string
	for i := range c.imports {
		imps = append(imps, i)
	}
	sort.Strings(imps)
	for _, i := range imps {
		fmt.Fprintf(&out, "import %s\n", i)
	}
	fmt.Fprintf(&out, "/- GENERATED by %s from the SSA form of %s.  DO NOT EDIT.\n", tool, c.target)
	fmt.Fprintf(&out, "   Rewritten from the current source on every run; the proof in %s ties it to the model.\n", tie)
	if c.recv != nil {
		out.WriteString("   Receiver fields are passed as arguments")
		var ns []string
		for _, k := range c.stored {
			if k != extKey {
				ns = append(ns, c.recvStruct.Field(k).Name())
			}
		}
		if len(ns) > 0 {
			fmt.Fprintf(&out, "; the final value of the stored field(s) %s follows the results", strings.Join(ns, ", "))
		}
		out.WriteString(".\n")
	}
	if hasExt {
		out.WriteString("   The call of WriteAt on the underlying io.WriterAt is EXTERNAL: its results are given by the argument `ans`\n")
		out.WriteString("   (GoSem2.extWriteAt); the last result component records the (offset, length) handed to it (none = not called).\n")
	}
	if c.world {
		out.WriteString("   Calls that leave the module are EXTERNAL: each is the application of an oracle of `X : GoSem5.Ext σ` to the current\n")
		out.WriteString("   world and the arguments, and yields the results and the next world; `wd` is the world at entry, the final world is\n")
		out.WriteString("   returned after the Go results.\n")
	}
	if c.fuel {
		out.WriteString("   The function contains a loop (or calls one that does): `fuel` bounds the number of iterations of every loop\n")
		out.WriteString("   instance; `none` = run-time panic, or the loop did not finish within `fuel` iterations.\n")
	}
	if c.clo != nil {
		cn := leanNameOfClosure(c.target, c.clo.fn)
		fmt.Fprintf(&out, "   The function creates the closure %s (definition `%s`): the captured variables it does not write are\n", c.clo.fn.Name(), cn)
		out.WriteString("   passed as arguments (their values at the time of the call), the captured variables it writes are passed after its own\n")
		out.WriteString("   parameters and their final values are returned.")
		if c.clo.recursive() {
			fmt.Fprintf(&out, "  The closure calls itself: `%s_body` takes the closure as `self`, and\n", cn)
			fmt.Fprintf(&out, "   `%s` closes the recursion with a depth counter (`none` when it is used up); the function passes `fuel` for it.", cn)
		}
		out.WriteString("\n")
	}
	out.WriteString("\n")
	out.WriteString(ssaText(f))
	out.WriteString(c.cloSSA)
	out.WriteString("-/\n")
	fmt.Fprintf(&out, "namespace %s\n", ns)
	out.WriteString("set_option linter.unusedVariables false\n\n")
	for _, d := range append(append([]string{}, c.cloDefs...), c.defs...) {
		out.WriteString(d)
		out.WriteString("\n")
	}
	decls := c.paramDecls
	if c.fuel {
		decls = append([]string{"(fuel : Nat)"}, decls...)
	}
	fmt.Fprintf(&out, "def %s %s : %s :=\n", leanName, strings.Join(decls, " "), c.resType)
	out.WriteString(c.body.String())
	fmt.Fprintf(&out, "\nend %s\n", ns)
	return out.String()
}

func (c *fnCtx) storedType(k int) string {
	if k == extKey {
		return "GoSem2.ExtCall"
	}
	if k == worldKey {
		return "σ"
	}
	if isBufKey(k) {
		return "List Nat"
	}
	if isCellKey(k) {
		return leanType(c.cellElem(k))
	}
	return leanType(c.recvStruct.Field(k).Type())
}

func (c *fnCtx) storedBase(k int) string {
	if k == extKey {
		return "ext"
	}
	if k == worldKey {
		return "wd"
	}
	if isBufKey(k) {
		return c.bufName[bufBase-k]
	}
	return c.fieldParam[k]
}

// ssaText is go/ssa's own listing of the function, without the lines that
// mention file-system locations, made safe for a Lean block comment.
func ssaText(f *ssa.Function) string {
	var buf bytes.Buffer
	f.WriteTo(&buf)
	var out strings.Builder
	for _, l := range strings.Split(buf.String(), "\n") {
		if strings.HasPrefix(l, "# ") {
			continue
		}
		l = strings.TrimRight(l, " \t")
		l = strings.ReplaceAll(l, "-/", "- /")
		l = strings.ReplaceAll(l, "/-", "/ -")
		if l == "" {
			continue
		}
		out.WriteString(l)
		out.WriteByte('\n')
	}
	return out.String()
}

// analyseCFG checks that the CFG is reducible (every retreating edge of a
// depth-first search goes to a block that dominates its source: a back edge of
// a natural loop), marks the loop headers and numbers the blocks topologically
// with respect to the forward edges.
func (c *fnCtx) analyseCFG() {
	color := map[*ssa.BasicBlock]int{}
	var post []*ssa.BasicBlock
	var dfs func(b *ssa.BasicBlock)
	dfs = func(b *ssa.BasicBlock) {
		color[b] = 1
		for _, s := range b.Succs {
			if s.Dominates(b) {
				// back edge
				if c.legacy {
					fail("contains a loop (back edge from block %d to block %d)", b.Index, s.Index)
				}
				c.isLoop[s] = true
				continue
			}
			switch color[s] {
			case 1:
				fail("irreducible control flow (edge from block %d to block %d)", b.Index, s.Index)
			case 0:
				dfs(s)
			}
		}
		color[b] = 2
		post = append(post, b)
	}
	entry := c.f.Blocks[0]
	if len(entry.Preds) > 0 {
		fail("contains a loop (entry block has predecessors)")
	}
	dfs(entry)
	c.topo = map[*ssa.BasicBlock]int{}
	for i, b := range post {
		c.topo[b] = len(post) - 1 - i
	}
	for _, b := range c.f.Blocks {
		if _, ok := c.topo[b]; !ok && b != c.f.Recover {
			fail("unreachable block %d", b.Index)
		}
	}
}

func endsInPanic(b *ssa.BasicBlock) bool {
	if len(b.Instrs) == 0 {
		return false
	}
	_, ok := b.Instrs[len(b.Instrs)-1].(*ssa.Panic)
	return ok
}

func instrPos(in ssa.Instruction) int {
	for i, x := range in.Block().Instrs {
		if x == in {
			return i
		}
	}
	return -1
}

// scanCells recognises local cells: `t = new T` (a parameter captured by a
// closure) that is written exactly once, in the allocating block and before
// every read.  A read of the cell is the stored value.  The closure that
// captures the cell must itself be silent (see emitInstr, MakeClosure).
func (c *fnCtx) scanCells() {
	for _, b := range c.f.Blocks {
		if endsInPanic(b) {
			continue
		}
		for _, in := range b.Instrs {
			a, ok := in.(*ssa.Alloc)
			if !ok {
				continue
			}
			if c.legacy {
				fail("instruction %T: %s", in, in)
			}
			if _, isArr := isArrayPtr(a.Type()); isArr && c.gen >= 3 {
				continue // memory the function allocates itself (memory.go)
			}
			if _, isCell := c.cellKeyOf(a); isCell {
				continue // a variable captured by the function's closure (closure.go)
			}
			if c.isLocalObj(a) {
				continue // a struct / bytes.Buffer the function allocates (extern.go)
			}
			var store *ssa.Store
			var loads []*ssa.UnOp
			for _, r := range *a.Referrers() {
				switch x := r.(type) {
				case *ssa.DebugRef:
				case *ssa.Store:
					if x.Addr != ssa.Value(a) || x.Val == ssa.Value(a) || store != nil {
						fail("local cell %s is written more than once or escapes", a.Name())
					}
					store = x
				case *ssa.UnOp:
					if x.Op != token.MUL {
						fail("local cell %s used in %s", a.Name(), r)
					}
					loads = append(loads, x)
				case *ssa.MakeClosure:
					// checked where the closure is emitted
				default:
					fail("local cell %s used in %s", a.Name(), r)
				}
			}
			if store == nil || store.Block() != b {
				fail("local cell %s is not initialised in its own block", a.Name())
			}
			sp := instrPos(store)
			for _, l := range loads {
				if l.Block() == b {
					if instrPos(l) < sp {
						fail("local cell %s is read before it is written", a.Name())
					}
				} else if !b.Dominates(l.Block()) {
					fail("local cell %s is read outside the region dominated by its block", a.Name())
				}
			}
			c.cells[a] = store.Val
		}
	}
}

// scanExt: are there interface method calls (the external io.WriterAt)?  At
// most one may be executed on any path: the function must be loop-free and no
// such call may be reachable from another.
func (c *fnCtx) scanExt() bool {
	var blocks []*ssa.BasicBlock
	for _, b := range c.f.Blocks {
		n := 0
		for _, in := range b.Instrs {
			if call, ok := in.(*ssa.Call); ok && call.Call.IsInvoke() {
				n++
			}
		}
		if n > 1 {
			fail("two interface method calls in block %d", b.Index)
		}
		if n == 1 {
			blocks = append(blocks, b)
		}
	}
	if len(blocks) == 0 {
		return false
	}
	if c.legacy {
		fail("interface method call")
	}
	if len(c.isLoop) > 0 || c.fuel {
		fail("interface method call in a function with loops")
	}
	for _, a := range blocks {
		seen := map[*ssa.BasicBlock]bool{}
		var walk func(b *ssa.BasicBlock)
		walk = func(b *ssa.BasicBlock) {
			for _, s := range b.Succs {
				if !seen[s] {
					seen[s] = true
					walk(s)
				}
			}
		}
		walk(a)
		for _, b := range blocks {
			if seen[b] {
				fail("an interface method call in block %d can follow the one in block %d", b.Index, a.Index)
			}
		}
	}
	return true
}

// setupReceiver: receiver `s *T` with T a struct.  Every field of a supported
// type becomes a parameter `s_field`; `s` itself may only be used in `&s.field`
// (such an address only in a load or as the target of a store) or as the
// receiver of a call of another target method.  A field of type io.WriterAt may
// be loaded only to call its WriteAt method (the external call).
func (c *fnCtx) setupReceiver(p *ssa.Parameter) {
	ptr, ok := p.Type().Underlying().(*types.Pointer)
	if !ok {
		fail("receiver of type %s (only pointer-to-struct receivers)", p.Type())
	}
	st, ok := ptr.Elem().Underlying().(*types.Struct)
	if !ok {
		fail("receiver of type %s (only pointer-to-struct receivers)", p.Type())
	}
	c.recv, c.recvStruct = p, st
	written := map[int]bool{}
	if c.gen >= 3 {
		written = c.tr.fieldsWritten(c.f)
	}
	storedSet := map[int]bool{}
	accessed := map[int]bool{}
	for _, r := range *p.Referrers() {
		if call, ok := r.(*ssa.Call); ok && !c.legacy {
			callee := call.Call.StaticCallee()
			_, isTarget := c.tr.byFunc[callee]
			if callee == nil || !isTarget || callee.Signature.Recv() == nil || len(call.Call.Args) == 0 || call.Call.Args[0] != ssa.Value(p) {
				fail("receiver used other than in a field access: %s", r)
			}
			for _, a := range call.Call.Args[1:] {
				if a == ssa.Value(p) {
					fail("receiver passed as an argument: %s", r)
				}
			}
			continue
		}
		if _, ok := r.(*ssa.DebugRef); ok {
			continue
		}
		fa, ok := r.(*ssa.FieldAddr)
		if !ok || fa.X != ssa.Value(p) {
			fail("receiver used other than in a field access: %s", r)
		}
		accessed[fa.Field] = true
		for _, u := range *fa.Referrers() {
			switch x := u.(type) {
			case *ssa.DebugRef:
			case *ssa.UnOp:
				if x.Op != token.MUL {
					fail("address of receiver field used in %s", u)
				}
			case *ssa.Store:
				if x.Addr != ssa.Value(fa) || x.Val == ssa.Value(fa) {
					fail("address of receiver field stored: %s", u)
				}
				storedSet[fa.Field] = true
			default:
				fail("address of receiver field escapes: %s", u)
			}
		}
	}
	recvName := p.Name()
	if !identRE.MatchString(recvName) {
		recvName = "recv"
	}
	for k := 0; k < st.NumFields(); k++ {
		ft := st.Field(k).Type()
		supported := isIntType(ft) || isBool(ft)
		if _, isSlice := ft.Underlying().(*types.Slice); isSlice && c.gen >= 3 {
			// a slice held by the receiver: its contents are passed in (and returned when the method writes them)
			func() {
				defer func() { recover() }()
				leanType(ft)
				supported = true
			}()
			if written[k] {
				if e := ft.Underlying().(*types.Slice).Elem(); !isIntType(e) {
					fail("receiver field %s of type %s is written", st.Field(k).Name(), ft)
				}
				// ASSUMED: the receiver is the only holder of this memory.  A parameter of the same slice type could
				// be an alias of it: refused.
				for _, q := range c.f.Params[1:] {
					if types.Identical(q.Type().Underlying(), ft.Underlying()) {
						fail("parameter %s could share memory with the written receiver field %s", q.Name(), st.Field(k).Name())
					}
				}
			}
		}
		if !supported {
			if accessed[k] {
				if !c.legacy && ft.String() == "io.WriterAt" && !storedSet[k] && c.extField < 0 {
					c.extField = k
					continue
				}
				fail("access to receiver field %s of unsupported type %s", st.Field(k).Name(), ft)
			}
			continue
		}
		n := c.claim(recvName+"_"+st.Field(k).Name(), 1000+k)
		c.fieldParam[k] = n
		c.paramNames = append(c.paramNames, n)
		c.paramDecls = append(c.paramDecls, fmt.Sprintf("(%s : %s)", n, leanType(ft)))
		if storedSet[k] || written[k] {
			c.stored = append(c.stored, k)
		}
	}
	sort.Ints(c.stored)
}

// ---------------------------------------------------------------------------
// blocks
//
// A block with a single predecessor is emitted inline at the end of that
// predecessor.  A block with several predecessors (a join) becomes a local
// function `blkN`, defined at the end of its immediate dominator (so that
// every value it may use is in lexical scope) and taking the block's phi
// values (and the current values of the stored receiver fields) as arguments;
// every edge into the join is a call of `blkN`.
//
// A LOOP HEADER (a join that is the target of a back edge) becomes a separate
// top-level definition
//     def f_loopN (fuel : Nat) <parameters of f> <live-ins> : Nat → <phi types> → <result>
//       | 0, … => none                         -- out of fuel
//       | gas+1, <phis> => <the header block and everything it dominates>
// by structural recursion on its own iteration counter.  Live-ins are the SSA
// values defined outside the region dominated by the header and used inside
// it, and the local functions `blkK` of joins outside the region to which the
// region exits (passed as function-valued arguments: the code after the loop).
// A back edge is the recursive call `f_loopN … gas <new phi values>`; at the
// end of the header's immediate dominator the usual local function
// `blkN := fun <phis> => f_loopN … fuel <phis>` is defined, so every entry edge
// starts the loop with the full budget `fuel`.  Everything the header
// dominates, in particular the code after the loop and later loops, is inside
// the definition; a later loop is again started with the full `fuel`.

func (c *fnCtx) region(h *ssa.BasicBlock) []*ssa.BasicBlock {
	var r []*ssa.BasicBlock
	for _, b := range c.f.Blocks {
		if h.Dominates(b) {
			r = append(r, b)
		}
	}
	return r
}

// liveIns of the region dominated by loop header h.
func (c *fnCtx) liveIns(h *ssa.BasicBlock) (vals []ssa.Value, joins []*ssa.BasicBlock) {
	seenV := map[ssa.Value]bool{}
	seenJ := map[*ssa.BasicBlock]bool{}
	var consider func(v ssa.Value)
	consider = func(v ssa.Value) {
		if v == nil {
			return
		}
		if a, ok := v.(*ssa.Alloc); ok {
			if sv, ok := c.cells[a]; ok {
				consider(sv)
			}
			return
		}
		in, ok := v.(ssa.Instruction)
		if !ok || in.Block() == nil || h.Dominates(in.Block()) {
			return
		}
		if ri, ok := c.rowIndex[v]; ok {
			consider(ri)
			return
		}
		if _, ok := c.defined[v]; !ok {
			return
		}
		if !seenV[v] {
			seenV[v] = true
			vals = append(vals, v)
		}
	}
	for _, b := range c.region(h) {
		for _, in := range b.Instrs {
			if phi, ok := in.(*ssa.Phi); ok && b == h {
				for i, e := range phi.Edges {
					if h.Dominates(b.Preds[i]) {
						consider(e)
					}
				}
				continue
			}
			for _, op := range in.Operands(nil) {
				consider(*op)
			}
		}
		for _, s := range b.Succs {
			if !h.Dominates(s) && !seenJ[s] {
				seenJ[s] = true
				joins = append(joins, s)
			}
		}
	}
	pos := func(v ssa.Value) (int, int) {
		in := v.(ssa.Instruction)
		return in.Block().Index, instrPos(in)
	}
	sort.Slice(vals, func(i, j int) bool {
		bi, pi := pos(vals[i])
		bj, pj := pos(vals[j])
		return bi < bj || (bi == bj && pi < pj)
	})
	sort.Slice(joins, func(i, j int) bool { return joins[i].Index < joins[j].Index })
	return
}

func (c *fnCtx) emitBlock(b *ssa.BasicBlock, ind int, curIn map[int]string) {
	cur := map[int]string{}
	for k, v := range curIn {
		cur[k] = v
	}
	savedCur := c.curp
	c.curp = cur
	defer func() { c.curp = savedCur }()
	n := len(b.Instrs)
	if n == 0 {
		fail("empty block %d", b.Index)
	}
	if endsInPanic(b) {
		if c.legacy {
			fail("terminator %T", b.Instrs[n-1])
		}
		// Whatever the block computes (the panic message), the function panics.
		c.checkPanicBlock(b)
		c.line(ind, "none")
		return
	}
	for _, in := range b.Instrs[:n-1] {
		if _, isPhi := in.(*ssa.Phi); isPhi {
			continue // bound as parameters of the join function
		}
		c.emitInstr(in, ind, cur)
	}

	// join blocks immediately dominated by b, innermost (topologically last) first
	var joins []*ssa.BasicBlock
	for _, d := range b.Dominees() {
		if len(d.Preds) > 1 {
			joins = append(joins, d)
		}
	}
	sort.Slice(joins, func(i, j int) bool { return c.topo[joins[i]] > c.topo[joins[j]] })
	for _, j := range joins {
		var ptypes, binders, pats []string
		jcur := map[int]string{}
		for k, v := range cur {
			jcur[k] = v
		}
		for _, in := range j.Instrs {
			phi, ok := in.(*ssa.Phi)
			if !ok {
				break
			}
			t := leanType(phi.Type())
			c.defined[phi] = phi.Name()
			c.defType[phi] = t
			ptypes = append(ptypes, paren(t))
			binders = append(binders, fmt.Sprintf("(%s : %s)", phi.Name(), t))
			pats = append(pats, phi.Name())
		}
		// memory the function allocated: the classes that are dead here are dropped, a phi of a class is its
		// current view from here on, the other live classes arrive as hidden parameters
		for k := range jcur {
			if k >= memBase {
				delete(jcur, k)
			}
		}
		for _, in := range j.Instrs {
			phi, ok := in.(*ssa.Phi)
			if !ok {
				break
			}
			if cls, isOwned := c.owned[phi]; isOwned {
				jcur[memKey(cls)] = phi.Name()
				jcur[viewKey(cls)] = phi.Name()
			}
		}
		c.joinView[j] = map[int]string{}
		for _, cls := range c.hiddenAt(j) {
			view, ok := cur[viewKey(cls)]
			if !ok {
				fail("the memory of %s is live at block %d but not allocated on every path to it", c.clsRoot[cls].Name(), j.Index)
			}
			if _, tainted := cur[taintKey(cls)]; tainted {
				fail("a view of the memory of a receiver field (%s) is live across the boundary of block %d", view, j.Index)
			}
			t := c.clsType(cls)
			name := fmt.Sprintf("%s_b%d", c.clsRoot[cls].Name(), j.Index)
			c.joinView[j][cls] = view
			jcur[memKey(cls)] = name
			jcur[viewKey(cls)] = view
			ptypes = append(ptypes, paren(t))
			binders = append(binders, fmt.Sprintf("(%s : %s)", name, t))
			pats = append(pats, name)
		}
		for _, k := range c.threaded() {
			t := c.storedType(k)
			name := fmt.Sprintf("%s_b%d", c.storedBase(k), j.Index)
			jcur[k] = name
			ptypes = append(ptypes, paren(t))
			binders = append(binders, fmt.Sprintf("(%s : %s)", name, t))
			pats = append(pats, name)
		}
		if len(binders) == 0 {
			ptypes = append(ptypes, "Unit")
			binders = append(binders, "(_ : Unit)")
			pats = append(pats, "_")
		}
		jt := strings.Join(ptypes, " → ") + " → " + paren(c.resType)
		c.joinType[j] = jt
		if !c.isLoop[j] {
			c.line(ind, "let blk%d : %s := (fun %s =>", j.Index, jt, strings.Join(binders, " "))
			c.emitBlock(j, ind+2, jcur)
			c.line(ind, ");")
			continue
		}
		// loop header: a top-level definition by recursion on its iteration counter
		vals, outs := c.liveIns(j)
		name := fmt.Sprintf("%s_loop%d", c.selfName, j.Index)
		decls := append([]string{"(fuel : Nat)"}, c.paramDecls...)
		args := append([]string{"fuel"}, c.paramNames...)
		for _, v := range vals {
			decls = append(decls, fmt.Sprintf("(%s : %s)", c.defined[v], c.defType[v]))
			args = append(args, c.defined[v])
		}
		callArgs := append([]string{}, args...) // at the place where the loop is entered
		for _, o := range outs {
			jt, ok := c.joinType[o]
			if !ok {
				fail("loop at block %d exits to block %d, which is not in scope", j.Index, o.Index)
			}
			if c.isLoop[o] && c.gen < 3 {
				fail("nested loops (block %d inside the loop at block %d)", j.Index, o.Index)
			}
			decls = append(decls, fmt.Sprintf("(blk%d : %s)", o.Index, jt))
			if len(c.inLoop) > 0 && c.inLoop[len(c.inLoop)-1] == o {
				// NESTED LOOP: the loop being defined here is inside the loop at block o, whose definition is the one
				// being emitted: the back edge to o is passed as the continuation `f_loop<o> … gas`
				callArgs = append(callArgs, fmt.Sprintf("(%s gas)", c.loopPrefix[o]))
			} else {
				callArgs = append(callArgs, fmt.Sprintf("blk%d", o.Index))
			}
			args = append(args, fmt.Sprintf("blk%d", o.Index))
		}
		prefix := name + " " + strings.Join(args, " ")
		c.loopPrefix[j] = prefix
		saved := c.body
		c.body = &strings.Builder{}
		wild := make([]string, len(pats))
		for i := range wild {
			wild[i] = "_"
		}
		c.line(0, "def %s %s : Nat → %s", name, strings.Join(decls, " "), jt)
		c.line(1, "| 0, %s => none", strings.Join(wild, ", "))
		c.line(1, "| gas+1, %s =>", strings.Join(pats, ", "))
		c.inLoop = append(c.inLoop, j)
		c.emitBlock(j, 2, jcur)
		c.inLoop = c.inLoop[:len(c.inLoop)-1]
		c.defs = append(c.defs, c.body.String())
		c.body = saved
		c.line(ind, "let blk%d : %s := (fun %s => %s fuel %s);", j.Index, jt, strings.Join(binders, " "), name+" "+strings.Join(callArgs, " "), strings.Join(pats, " "))
	}

	switch t := b.Instrs[n-1].(type) {
	case *ssa.Return:
		var parts []string
		for _, r := range t.Results {
			leanType(r.Type())
			parts = append(parts, c.operand(r))
		}
		for _, k := range c.stored {
			parts = append(parts, cur[k])
		}
		e := strings.Join(parts, ", ")
		if len(parts) > 1 {
			e = "(" + e + ")"
		}
		if c.world {
			if len(parts) == 0 {
				e = "()"
			}
			e = "(" + e + ", " + cur[worldKey] + ")"
		}
		if c.option {
			c.line(ind, "some %s", e)
		} else {
			c.line(ind, "%s", e)
		}
	case *ssa.Jump:
		c.emitGoto(b, 0, ind, cur)
	case *ssa.If:
		if !isBool(t.Cond.Type()) {
			fail("non-bool condition")
		}
		if b.Succs[0] == b.Succs[1] {
			fail("both branches of block %d lead to block %d", b.Index, b.Succs[0].Index)
		}
		c.line(ind, "if %s = true then (", c.operand(t.Cond))
		c.emitGoto(b, 0, ind+1, cur)
		c.line(ind, ") else (")
		c.emitGoto(b, 1, ind+1, cur)
		c.line(ind, ")")
	default:
		fail("terminator %T", t)
	}
}

// checkPanicBlock: a block that ends in `panic` only builds the panic value.
// Its instructions are not translated; they must be of kinds that cannot do
// anything but compute that value (no calls except fmt.Sprint*, no stores
// except into a temporary allocated in the block itself).
func (c *fnCtx) checkPanicBlock(b *ssa.BasicBlock) {
	local := func(v ssa.Value) bool {
		for {
			switch x := v.(type) {
			case *ssa.Alloc:
				return x.Block() == b
			case *ssa.IndexAddr:
				v = x.X
			case *ssa.FieldAddr:
				v = x.X
			default:
				return false
			}
		}
	}
	for _, in := range b.Instrs[:len(b.Instrs)-1] {
		switch v := in.(type) {
		case *ssa.DebugRef, *ssa.Alloc, *ssa.MakeInterface, *ssa.Convert, *ssa.ChangeType, *ssa.BinOp, *ssa.Phi,
			*ssa.Extract, *ssa.ChangeInterface:
		case *ssa.UnOp:
			if v.Op == token.ARROW { // a channel receive can block
				fail("panic block %d: %s", b.Index, in)
			}
		case *ssa.IndexAddr:
			if !local(v) {
				fail("panic block %d: %s", b.Index, in)
			}
		case *ssa.Slice:
			if !local(v.X) {
				fail("panic block %d: %s", b.Index, in)
			}
		case *ssa.Store:
			if !local(v.Addr) {
				fail("panic block %d: store %s", b.Index, in)
			}
		case *ssa.Call:
			callee := v.Call.StaticCallee()
			if callee == nil || callee.Pkg == nil || callee.Pkg.Pkg.Path() != "fmt" ||
				!(callee.Name() == "Sprintf" || callee.Name() == "Sprint" || callee.Name() == "Sprintln") {
				fail("panic block %d: call %s", b.Index, in)
			}
		default:
			fail("panic block %d: instruction %T: %s", b.Index, in, in)
		}
	}
}

func (c *fnCtx) emitGoto(from *ssa.BasicBlock, succ int, ind int, cur map[int]string) {
	to := from.Succs[succ]
	if len(to.Preds) == 1 {
		c.emitBlock(to, ind, cur)
		return
	}
	edge := -1
	for i, p := range to.Preds {
		if p == from {
			if edge >= 0 {
				fail("two edges from block %d to block %d", from.Index, to.Index)
			}
			edge = i
		}
	}
	if edge < 0 {
		fail("inconsistent CFG")
	}
	var args []string
	for _, in := range to.Instrs {
		phi, ok := in.(*ssa.Phi)
		if !ok {
			break
		}
		if cls, isOwned := c.owned[phi.Edges[edge]]; isOwned {
			if _, tainted := cur[taintKey(cls)]; tainted {
				fail("a view of the memory of a receiver field (%s) flows into the phi %s", phi.Edges[edge].Name(), phi.Name())
			}
		}
		args = append(args, c.operand(phi.Edges[edge]))
	}
	for _, cls := range c.hiddenAt(to) {
		view, ok := cur[viewKey(cls)]
		if !ok {
			fail("the memory of %s is live at block %d but not allocated on the path through block %d", c.clsRoot[cls].Name(), to.Index, from.Index)
		}
		if want := c.joinView[to][cls]; view != want {
			fail("at the edge from block %d to block %d the current view of the memory of %s is %s, but %s is used afterwards (two live views)",
				from.Index, to.Index, c.clsRoot[cls].Name(), view, want)
		}
		args = append(args, cur[memKey(cls)])
	}
	for _, k := range c.threaded() {
		args = append(args, paren(cur[k]))
	}
	if len(args) == 0 {
		args = append(args, "()")
	}
	if to.Dominates(from) {
		// back edge: the recursive call, one unit of fuel less
		if len(c.inLoop) == 0 || c.inLoop[len(c.inLoop)-1] != to {
			if c.gen < 3 {
				fail("nested loops (back edge from block %d to block %d inside another loop)", from.Index, to.Index)
			}
			// NESTED LOOP: this code is inside the definition of an inner loop; the outer loop's continuation was
			// passed in as `blk<to>`
			enclosing := false
			for _, h := range c.inLoop {
				if h == to {
					enclosing = true
				}
			}
			if !enclosing {
				fail("back edge from block %d to block %d, which is not an enclosing loop", from.Index, to.Index)
			}
			c.line(ind, "blk%d %s", to.Index, strings.Join(args, " "))
			return
		}
		c.line(ind, "%s gas %s", c.loopPrefix[to], strings.Join(args, " "))
		return
	}
	c.line(ind, "blk%d %s", to.Index, strings.Join(args, " "))
}

// ---------------------------------------------------------------------------
// operands

func (c *fnCtx) constant(k *ssa.Const) string {
	t := k.Type()
	switch {
	case isBoolOrUntypedBool(t):
		if k.Value == nil {
			fail("bad bool constant")
		}
		if constant.BoolVal(k.Value) {
			return "true"
		}
		return "false"
	case types.Identical(t, errorType):
		if k.Value != nil {
			fail("non-nil error constant")
		}
		if c.gen >= 5 {
			return "GoSem5.Err.nil"
		}
		return "(none : GoSem.Err)"
	case c.gen >= 5 && isString(t):
		return stringConst(k)
	case c.gen >= 5 && moduleIface(t) && k.Value == nil:
		return "(none : " + leanType(t) + ")"
	case isSliceType(t) && k.Value == nil && c.gen >= 3:
		return "([] : " + leanType(t) + ")"
	case isIntType(t):
		if k.Value == nil {
			fail("bad integer constant")
		}
		v := constant.ToInt(k.Value)
		if v.Kind() != constant.Int {
			fail("non-integer constant %s", k)
		}
		ty := "Nat"
		if isSigned(t) {
			ty = "Int"
		}
		return fmt.Sprintf("(%s : %s)", v.ExactString(), ty)
	}
	fail("unsupported constant %s", k)
	return ""
}

func isBoolOrUntypedBool(t types.Type) bool {
	k, ok := basicKind(t)
	return ok && (k == types.Bool || k == types.UntypedBool)
}

func (c *fnCtx) operand(v ssa.Value) string {
	switch x := v.(type) {
	case *ssa.Const:
		return c.constant(x)
	case *ssa.Parameter:
		if x == c.recv {
			fail("receiver used as a value")
		}
		if n, ok := c.names[x]; ok {
			return n
		}
		fail("unknown parameter %s", x.Name())
	case *ssa.Global, *ssa.Function, *ssa.Builtin, *ssa.FreeVar:
		fail("unsupported operand %s", v)
	}
	if _, isOwned := c.owned[v]; isOwned {
		return c.readOwned(v)
	}
	if a, ok := v.(*ssa.Alloc); ok {
		if o, ok := c.objs[a]; ok && o.st != nil {
			return c.snapshot(o, true) // the struct is handed on as a value: no write to it may follow
		}
	}
	if n, ok := c.defined[v]; ok {
		return n
	}
	fail("use of a value outside the supported subset: %s = %s", v.Name(), v)
	return ""
}

// asInt renders an integer operand as a Lean `Int`.
func (c *fnCtx) asInt(v ssa.Value) string {
	if !isIntType(v.Type()) {
		fail("integer operand expected, got %s", v.Type())
	}
	if isSigned(v.Type()) {
		return c.operand(v)
	}
	if k, ok := v.(*ssa.Const); ok {
		if k.Value == nil {
			fail("bad integer constant")
		}
		return fmt.Sprintf("(%s : Int)", constant.ToInt(k.Value).ExactString())
	}
	return fmt.Sprintf("(%s : Int)", c.operand(v))
}

// ---------------------------------------------------------------------------
// instructions

func (c *fnCtx) let(ind int, v ssa.Value, expr string) {
	t := leanType(v.Type())
	c.line(ind, "let %s : %s := %s;", v.Name(), t, expr)
	c.defined[v] = v.Name()
	c.defType[v] = t
}

func (c *fnCtx) bind(ind int, v ssa.Value, ty string, expr string) {
	c.line(ind, "Option.bind (%s) fun (%s : %s) =>", expr, v.Name(), ty)
	c.defined[v] = v.Name()
	c.defType[v] = ty
}

var arithOps = map[token.Token]string{
	token.ADD: "add", token.SUB: "sub", token.MUL: "mul",
	token.AND: "and", token.OR: "or", token.XOR: "xor", token.AND_NOT: "andNot",
}
var shiftOps = map[token.Token]string{token.SHL: "shl", token.SHR: "shr"}
var cmpOps = map[token.Token]string{
	token.EQL: "=", token.NEQ: "≠", token.LSS: "<", token.LEQ: "≤", token.GTR: ">", token.GEQ: "≥",
}

// the tables of bitmap/mask.go: name -> (GoSem function, array length GoSem assumes)
var maskTables = map[string]struct {
	fn string
	n  int64
}{
	"Mask": {"tblMask", 65}, "RMask": {"tblRMask", 65},
	"MaskUpto": {"tblMaskUpto", 64}, "RMaskUpto": {"tblRMaskUpto", 64},
	"Bit": {"tblBit", 64}, "RBit": {"tblRBit", 64},
}

// math/bits: function -> (GoSem function)
var mathBits = map[string]string{
	"OnesCount64": "onesCount64", "OnesCount32": "onesCount32", "OnesCount16": "onesCount16", "OnesCount8": "onesCount8",
	"OnesCount":       "onesCount64",
	"TrailingZeros64": "trailingZeros64", "TrailingZeros32": "trailingZeros32", "TrailingZeros8": "trailingZeros8",
	"TrailingZeros":  "trailingZeros64",
	"LeadingZeros64": "leadingZeros64", "LeadingZeros32": "leadingZeros32", "LeadingZeros8": "leadingZeros8",
	"LeadingZeros": "leadingZeros64",
	"Len64":        "len64", "Len32": "len32", "Len8": "len8", "Len": "len64",
}

// the argument type each math/bits function expects (GoSem suffix)
var mathBitsArg = map[string]string{
	"OnesCount64": "U64", "OnesCount32": "U32", "OnesCount16": "U16", "OnesCount8": "U8", "OnesCount": "U64",
	"TrailingZeros64": "U64", "TrailingZeros32": "U32", "TrailingZeros8": "U8", "TrailingZeros": "U64",
	"LeadingZeros64": "U64", "LeadingZeros32": "U32", "LeadingZeros8": "U8", "LeadingZeros": "U64",
	"Len64": "U64", "Len32": "U32", "Len8": "U8", "Len": "U64",
}

const noopCallee = "(*github.com/openacid/must/disabled.foo).OK"

// isNoop: the method `OK` of the disabled stub of github.com/openacid/must
// (release build), checked to have an empty body.
func isNoop(callee *ssa.Function) bool {
	if callee == nil || callee.String() != noopCallee || len(callee.Blocks) != 1 {
		return false
	}
	for _, in := range callee.Blocks[0].Instrs {
		switch x := in.(type) {
		case *ssa.DebugRef:
		case *ssa.Return:
			if len(x.Results) != 0 {
				return false
			}
		default:
			return false
		}
	}
	return true
}

// onlyFeedsNoop: every use of v is as an argument of a call of the no-op stub.
func onlyFeedsNoop(v ssa.Value) bool {
	refs := v.Referrers()
	if refs == nil {
		return false
	}
	for _, r := range *refs {
		switch x := r.(type) {
		case *ssa.DebugRef:
		case *ssa.Call:
			if !isNoop(x.Call.StaticCallee()) {
				return false
			}
		default:
			return false
		}
	}
	return true
}

func (c *fnCtx) emitInstr(in ssa.Instruction, ind int, cur map[int]string) {
	if c.gen >= 5 && c.emitExt(in, ind, cur) {
		return
	}
	if c.gen >= 3 && c.emitMem(in, ind, cur) {
		return
	}
	switch v := in.(type) {
	case *ssa.DebugRef:
		return

	case *ssa.BinOp:
		if name, ok := arithOps[v.Op]; ok {
			if !isIntType(v.X.Type()) || !types.Identical(v.X.Type().Underlying(), v.Y.Type().Underlying()) {
				fail("%s on %s", v.Op, v.X.Type())
			}
			if intSuffix(v.X.Type()) == "U16" {
				fail("%s on %s", v.Op, v.X.Type())
			}
			if k, isConst := v.Y.(*ssa.Const); v.Op == token.AND_NOT && isConst && k.Value != nil {
				// `x &^ c` and `x & ^c` are two spellings of one operation: one normal form for both (go/ssa folds `^c`
				// into a constant; the complement is taken here the same way, in the operand's type)
				prec := uint(0)
				if isUnsigned(v.X.Type()) {
					if b, err := strconv.Atoi(intSuffix(v.X.Type())[1:]); err == nil {
						prec = uint(b)
					} else {
						fail("and-not on %s", v.X.Type())
					}
				}
				nk := ssa.NewConst(constant.UnaryOp(token.XOR, constant.ToInt(k.Value), prec), k.Type())
				c.let(ind, v, fmt.Sprintf("GoSem.and%s %s %s", intSuffix(v.X.Type()), c.operand(v.X), c.constant(nk)))
				return
			}
			c.let(ind, v, fmt.Sprintf("GoSem.%s%s %s %s", name, intSuffix(v.X.Type()), c.operand(v.X), c.operand(v.Y)))
			return
		}
		if name, ok := shiftOps[v.Op]; ok {
			if !isIntType(v.X.Type()) || intSuffix(v.X.Type()) == "U16" {
				fail("shift of %s", v.X.Type())
			}
			if !isIntType(v.Y.Type()) || !isUnsigned(v.Y.Type()) {
				fail("shift count of signed type %s (panics when negative)", v.Y.Type())
			}
			c.let(ind, v, fmt.Sprintf("GoSem.%s%s %s %s", name, intSuffix(v.X.Type()), c.operand(v.X), c.operand(v.Y)))
			return
		}
		if sym, ok := cmpOps[v.Op]; ok {
			xt, yt := v.X.Type(), v.Y.Type()
			okTypes := (isIntType(xt) && types.Identical(xt.Underlying(), yt.Underlying())) ||
				(isBool(xt) && isBool(yt) && (v.Op == token.EQL || v.Op == token.NEQ))
			if !okTypes && !c.legacy && (v.Op == token.EQL || v.Op == token.NEQ) &&
				types.Identical(xt, errorType) && types.Identical(yt, errorType) {
				// comparison of an error with nil
				_, xc := v.X.(*ssa.Const)
				_, yc := v.Y.(*ssa.Const)
				okTypes = xc || yc
			}
			if !okTypes {
				fail("comparison %s on %s", v.Op, xt)
			}
			c.let(ind, v, fmt.Sprintf("decide (%s %s %s)", c.operand(v.X), sym, c.operand(v.Y)))
			return
		}
		fail("binary operator %s", v.Op)

	case *ssa.UnOp:
		switch v.Op {
		case token.MUL: // load
			switch x := v.X.(type) {
			case *ssa.IndexAddr:
				if ri, ok := c.rowIndex[x]; ok {
					// a row of bmtree.idxToPath: only indexed (checked by tableReadOnly)
					c.rowIndex[v] = ri
					c.silent[v] = true
					return
				}
				c.let(ind, v, c.operand(x))
			case *ssa.FieldAddr:
				if x.X != ssa.Value(c.recv) || c.recv == nil {
					fail("field access through %s", x.X.Name())
				}
				if x.Field == c.extField {
					// the external writer: may only be the receiver of WriteAt
					for _, r := range *v.Referrers() {
						call, ok := r.(*ssa.Call)
						if _, dbg := r.(*ssa.DebugRef); dbg {
							continue
						}
						if !ok || !call.Call.IsInvoke() || call.Call.Value != ssa.Value(v) || call.Call.Method.Name() != "WriteAt" {
							fail("the underlying writer is used in %s", r)
						}
					}
					c.silent[v] = true
					return
				}
				n, ok := cur[x.Field]
				if !ok {
					fail("receiver field %d", x.Field)
				}
				c.let(ind, v, n)
			case *ssa.Alloc:
				if k, isCell := c.cellKeyOf(x); isCell {
					c.emitCellLoad(v, k, ind, cur)
					return
				}
				sv, ok := c.cells[x]
				if !ok {
					fail("load through %s", v.X)
				}
				c.let(ind, v, c.operand(sv))
			case *ssa.FreeVar:
				k, isCell := c.cellKeyOf(x)
				if !isCell {
					fail("load through %s", v.X)
				}
				c.emitCellLoad(v, k, ind, cur)
			case *ssa.Global:
				if types.Identical(v.Type(), errorType) {
					c.let(ind, v, fmt.Sprintf("(some %s : GoSem.Err)", leanString(c.tr.globalConstErr(x))))
					return
				}
				if c.legacy {
					fail("read of global %s of type %s", x.Name(), v.Type())
				}
				if n, ok := c.globalName[x]; ok {
					c.let(ind, v, n) // the value of the package-level variable is an argument
					return
				}
				if x.Pkg != nil && x.Pkg.Pkg.Path() == "github.com/openacid/must" && x.Name() == "Be" && onlyFeedsNoop(v) {
					c.silent[v] = true // receiver of the no-op stub
					return
				}
				if x.Pkg != nil && x.Pkg.Pkg.Path() == modulePath+"/bmtree" && x.Name() == "idxToPath" {
					if v.Type().String() != "[][]uint64" {
						fail("bmtree.idxToPath no longer has type [][]uint64")
					}
					if r := c.tr.tableReadOnly(x); r != "" {
						fail("%s", r)
					}
					c.silent[v] = true
					return
				}
				fail("read of global %s of type %s", x.Name(), v.Type())
			default:
				fail("load through %s", v.X)
			}
		case token.SUB:
			s := intSuffix(v.X.Type())
			if s == "U32" || s == "U8" || s == "U16" {
				fail("negation on %s", v.X.Type())
			}
			c.let(ind, v, fmt.Sprintf("GoSem.neg%s %s", s, c.operand(v.X)))
		case token.XOR:
			if intSuffix(v.X.Type()) == "U16" {
				fail("^ on %s", v.X.Type())
			}
			c.let(ind, v, fmt.Sprintf("GoSem.not%s %s", intSuffix(v.X.Type()), c.operand(v.X)))
		case token.NOT:
			if !isBool(v.X.Type()) {
				fail("! on %s", v.X.Type())
			}
			c.let(ind, v, fmt.Sprintf("(!%s)", c.operand(v.X)))
		default:
			fail("unary operator %s", v.Op)
		}

	case *ssa.Convert:
		if !isIntType(v.X.Type()) || !isIntType(v.Type()) {
			fail("conversion %s <- %s", v.Type(), v.X.Type())
		}
		if intSuffix(v.Type()) == "U16" {
			c.let(ind, v, fmt.Sprintf("%stoU16 %s", c.useGoSem2(), c.asInt(v.X)))
			return
		}
		c.let(ind, v, fmt.Sprintf("GoSem.to%s %s", intSuffix(v.Type()), c.asInt(v.X)))

	case *ssa.Call:
		c.emitCall(v, ind, cur)

	case *ssa.Alloc:
		if k, isCell := c.cellKeyOf(v); isCell {
			// a captured variable: Go's zero value until it is assigned
			if k-cellBase != c.clo.self {
				cur[k] = zeroValueOf(c.cellElem(k))
			}
			return
		}
		if _, ok := c.cells[v]; !ok {
			fail("instruction %T: %s", in, in)
		}

	case *ssa.MakeClosure:
		if c.clo != nil && !c.isClosure && v == c.clo.mc {
			c.silent[v] = true // only called (closure.go): the calls do the work
			return
		}
		if c.legacy || !onlyFeedsNoop(v) {
			fail("closures")
		}
		c.silent[v] = true // never called: its only use is as the argument of the no-op stub

	case *ssa.Slice:
		_, isSlice := v.X.Type().Underlying().(*types.Slice)
		if !(isSlice || isString(v.X.Type())) || v.Max != nil {
			fail("slicing of %s", v.X.Type())
		}
		ty := leanType(v.X.Type())
		leanType(v.Type())
		x := c.operand(v.X)
		lo, hi := "(0 : Int)", fmt.Sprintf("(GoSem.len %s)", x)
		if v.Low != nil {
			lo = c.asInt(v.Low)
		}
		if v.High != nil {
			hi = c.asInt(v.High)
		}
		c.bind(ind, v, ty, fmt.Sprintf("%sslice %s %s %s", c.useGoSem2(), x, lo, hi))

	case *ssa.IndexAddr:
		for _, r := range *v.Referrers() {
			if _, dbg := r.(*ssa.DebugRef); dbg {
				continue
			}
			if u, ok := r.(*ssa.UnOp); !ok || u.Op != token.MUL {
				fail("element address used other than in a load: %s", r)
			}
		}
		if ri, ok := c.rowIndex[v.X]; ok {
			// element of a row of bmtree.idxToPath
			c.bind(ind, v, "Nat", fmt.Sprintf("%stblIdxToPath %s %s", c.useGoSem2(), c.asInt(ri), c.asInt(v.Index)))
			return
		}
		if ld, ok := v.X.(*ssa.UnOp); ok && c.silent[ld] {
			if g, ok := ld.X.(*ssa.Global); ok && g.Name() == "idxToPath" {
				// &idxToPath[k]: the row; the read happens when the row is indexed
				c.rowIndex[v] = v.Index
				c.silent[v] = true
				return
			}
		}
		if _, ok := v.X.Type().Underlying().(*types.Slice); ok {
			elem := v.Type().Underlying().(*types.Pointer).Elem()
			c.bind(ind, v, leanType(elem), fmt.Sprintf("GoSem.index %s %s", c.operand(v.X), c.asInt(v.Index)))
			return
		}
		if g, ok := v.X.(*ssa.Global); ok && g.Pkg != nil && g.Pkg.Pkg.Path() == modulePath+"/bitmap" {
			if tb, ok := maskTables[g.Name()]; ok {
				arr, isArr := g.Type().Underlying().(*types.Pointer).Elem().Underlying().(*types.Array)
				if !isArr || arr.Len() != tb.n || intSuffixOrEmpty(arr.Elem()) != "U64" {
					fail("bitmap.%s no longer has type [%d]uint64", g.Name(), tb.n)
				}
				c.bind(ind, v, "Nat", fmt.Sprintf("GoSem.%s %s", tb.fn, c.asInt(v.Index)))
				return
			}
			if g.Name() == "select8Lookup" && !c.legacy {
				arr, isArr := g.Type().Underlying().(*types.Pointer).Elem().Underlying().(*types.Array)
				if !isArr || arr.Len() != 2048 || intSuffixOrEmpty(arr.Elem()) != "U8" {
					fail("bitmap.select8Lookup no longer has type [2048]uint8")
				}
				if r := c.tr.tableReadOnly(g, "initSelectLookup"); r != "" {
					fail("%s", r)
				}
				c.bind(ind, v, "Nat", fmt.Sprintf("%stblSelect8 %s", c.useGoSem2(), c.asInt(v.Index)))
				return
			}
		}
		fail("indexing of %s", v.X)

	case *ssa.Index:
		if !isString(v.X.Type()) {
			fail("indexing of a value of type %s", v.X.Type())
		}
		c.bind(ind, v, "Nat", fmt.Sprintf("GoSem.index %s %s", c.operand(v.X), c.asInt(v.Index)))

	case *ssa.Extract:
		tup := v.Tuple.Type().(*types.Tuple)
		proj := strings.Repeat(".2", v.Index)
		if v.Index < tup.Len()-1 {
			proj += ".1"
		}
		c.let(ind, v, c.operand(v.Tuple)+proj)

	case *ssa.FieldAddr:
		if c.recv == nil || v.X != ssa.Value(c.recv) {
			fail("field address %s", v)
		}
		// uses were checked in setupReceiver; loads and stores do the work

	case *ssa.Store:
		if a, ok := v.Addr.(*ssa.Alloc); ok {
			if sv, ok := c.cells[a]; ok && sv == v.Val {
				c.operand(v.Val) // must be representable
				return
			}
		}
		if k, isCell := c.cellKeyOf(v.Addr); isCell {
			if k-cellBase == c.clo.self {
				if c.isClosure || v.Val != ssa.Value(c.clo.mc) {
					fail("store to the variable that holds the closure: %s", v)
				}
				return // the closure is assigned to its variable: the calls through the variable do the work
			}
			if cls, isOwned := c.owned[v.Val]; isOwned {
				fail("%s, which is not memory of its own, is set to memory the function allocated (%s)", c.keyGoName(k), c.clsRoot[cls].Name())
			}
			leanType(v.Val.Type())
			name := c.freshName(c.fieldParam[k])
			c.line(ind, "let %s : %s := %s;", name, leanType(c.cellElem(k)), c.operand(v.Val))
			cur[k] = name
			return
		}
		fa, ok := v.Addr.(*ssa.FieldAddr)
		if !ok || c.recv == nil || fa.X != ssa.Value(c.recv) {
			fail("store through %s", v.Addr)
		}
		if _, ok := cur[fa.Field]; !ok {
			fail("store to receiver field %d", fa.Field)
		}
		c.fresh++
		name := fmt.Sprintf("%s_%d", c.fieldParam[fa.Field], c.fresh)
		c.line(ind, "let %s : %s := %s;", name, leanType(c.recvStruct.Field(fa.Field).Type()), c.operand(v.Val))
		cur[fa.Field] = name

	default:
		fail("instruction %T: %s", in, in)
	}
}

func intSuffixOrEmpty(t types.Type) string {
	if !isIntType(t) {
		return ""
	}
	return intSuffix(t)
}

// emitInvoke: `w.WriteAt(p, off)` on the io.WriterAt held in a receiver field.
// EXTERNAL: the result is `GoSem2.extWriteAt ans p off`, and the pair
// (off, len p) is recorded in the external-call state.
func (c *fnCtx) emitInvoke(v *ssa.Call, ind int, cur map[int]string) {
	ld, ok := v.Call.Value.(*ssa.UnOp)
	if !ok || !c.silent[ld] || c.extField < 0 {
		fail("interface method call %s", v)
	}
	fa, ok := ld.X.(*ssa.FieldAddr)
	if !ok || fa.Field != c.extField || v.Call.Method.Name() != "WriteAt" || len(v.Call.Args) != 2 {
		fail("interface method call %s", v)
	}
	p, off := v.Call.Args[0], v.Call.Args[1]
	if leanType(p.Type()) != "List Nat" || intSuffix(off.Type()) != "I64" || leanType(v.Type()) != "(Int × GoSem.Err)" {
		fail("unexpected signature of WriteAt in %s", v)
	}
	c.let(ind, v, fmt.Sprintf("%sextWriteAt ans %s %s", c.useGoSem2(), c.operand(p), c.operand(off)))
	c.fresh++
	name := fmt.Sprintf("ext_%d", c.fresh)
	c.line(ind, "let %s : GoSem2.ExtCall := some (%s, GoSem.len %s);", name, c.operand(off), c.operand(p))
	cur[extKey] = name
}

func (c *fnCtx) emitCall(v *ssa.Call, ind int, cur map[int]string) {
	if v.Call.IsInvoke() {
		if c.legacy {
			fail("interface method call %s", v)
		}
		c.emitInvoke(v, ind, cur)
		return
	}
	if b, ok := v.Call.Value.(*ssa.Builtin); ok {
		if b.Name() == "len" && len(v.Call.Args) == 1 {
			a := v.Call.Args[0]
			_, isSlice := a.Type().Underlying().(*types.Slice)
			if isSlice || isString(a.Type()) {
				leanType(a.Type())
				c.let(ind, v, fmt.Sprintf("GoSem.len %s", c.operand(a)))
				return
			}
		}
		fail("builtin %s", v)
	}
	if c.closureCallee(v) {
		c.emitClosureCall(v, ind, cur)
		return
	}
	callee := v.Call.StaticCallee()
	if callee == nil {
		fail("dynamic call %s", v)
	}
	if callee.Pkg != nil && callee.Pkg.Pkg.Path() == "math/bits" && callee.Signature.Recv() == nil {
		if fn, ok := mathBits[callee.Name()]; ok && len(v.Call.Args) == 1 && isUnsigned(v.Call.Args[0].Type()) {
			if !c.legacy && intSuffix(v.Call.Args[0].Type()) != mathBitsArg[callee.Name()] {
				fail("math/bits.%s applied to %s", callee.Name(), v.Call.Args[0].Type())
			}
			c.let(ind, v, fmt.Sprintf("GoSem.%s %s", fn, c.operand(v.Call.Args[0])))
			return
		}
		fail("math/bits.%s", callee.Name())
	}
	if !c.legacy && callee.Pkg != nil && callee.Pkg.Pkg.Path() == "bytes" && callee.Name() == "Compare" &&
		callee.Signature.Recv() == nil && len(v.Call.Args) == 2 {
		// bytes.Compare: trusted to be the lexicographic comparison `Low.bytesCompare` (LowModel/Bytes.lean)
		a, b := v.Call.Args[0], v.Call.Args[1]
		if leanType(a.Type()) != "List Nat" || leanType(b.Type()) != "List Nat" {
			fail("bytes.Compare on %s", a.Type())
		}
		c.useGoSem2()
		c.let(ind, v, fmt.Sprintf("GoSem2.bytesCompare %s %s", c.operand(a), c.operand(b)))
		return
	}
	if !c.legacy && isNoop(callee) {
		// must.Be.OK(func(){…}) in the release build: a method with an empty body; the closure is never called
		for _, a := range v.Call.Args {
			if !c.silent[a] {
				fail("argument of the no-op stub: %s", a)
			}
		}
		if refs := v.Referrers(); refs != nil && len(*refs) > 0 {
			fail("result of the no-op stub is used")
		}
		return
	}
	if tname, ok := c.tr.byFunc[callee]; ok {
		var args []string
		if c.tr.needsFuel(callee) {
			args = append(args, "fuel")
		}
		callArgs := v.Call.Args
		if callee.Signature.Recv() != nil {
			// a method of the same receiver: pass the current values of the receiver fields
			if c.legacy || c.recv == nil || len(callArgs) == 0 || callArgs[0] != ssa.Value(c.recv) {
				fail("call of method %s", callee)
			}
			for _, b := range callee.Blocks {
				for _, in := range b.Instrs {
					switch x := in.(type) {
					case *ssa.Store:
						if c.gen < 3 {
							fail("call of method %s, which writes memory (%s)", callee.Name(), x)
						}
					case *ssa.Call:
						if x.Call.IsInvoke() {
							fail("call of method %s, which makes an external call", callee.Name())
						}
					}
				}
			}
			for k := 0; k < c.recvStruct.NumFields(); k++ {
				if n, ok := cur[k]; ok && k != extKey {
					args = append(args, n)
				}
			}
			callArgs = callArgs[1:]
		}
		for _, a := range callArgs {
			leanType(a.Type())
			args = append(args, c.operand(a))
		}
		if c.gen >= 3 && hasSliceResult(v.Type()) && !c.tr.returnsFresh(callee) {
			// the result is treated as a value of its own: it must not share memory with an argument
			fail("call of %s, which returns a slice it did not allocate", callee.Name())
		}
		if c.gen >= 3 {
			for _, g := range c.tr.globalIntsOf(callee) {
				args = append(args, c.globalName[g])
			}
		}
		expr := c.leanRefOf(tname) + " " + strings.Join(args, " ")
		if c.gen >= 3 && callee.Signature.Recv() != nil {
			if w := c.tr.fieldsWritten(callee); len(w) > 0 {
				c.emitStoringCall(v, callee, expr, ind, cur)
				return
			}
		}
		if c.tr.canPanic(callee) || c.tr.needsFuel(callee) {
			c.bind(ind, v, leanType(v.Type()), expr)
		} else {
			c.let(ind, v, expr)
		}
		return
	}
	fail("call of %s (not in the target list)", callee)
}

// callsThroughFreeVar: the closure calls a function value it loads from a captured variable (itself).
func callsThroughFreeVar(fn *ssa.Function) bool {
	for _, b := range fn.Blocks {
		for _, in := range b.Instrs {
			if call, ok := in.(*ssa.Call); ok && !call.Call.IsInvoke() {
				if ld, ok := call.Call.Value.(*ssa.UnOp); ok && ld.Op == token.MUL {
					if _, isFV := ld.X.(*ssa.FreeVar); isFV {
						return true
					}
				}
			}
		}
	}
	return false
}

// emitCellLoad: `*cell` of a captured variable that is not a view of allocated memory (those are handled in
// emitMem): the current value; the variable that holds the closure has no value (its loads are only called).
func (c *fnCtx) emitCellLoad(v *ssa.UnOp, k int, ind int, cur map[int]string) {
	if k-cellBase == c.clo.self {
		c.silent[v] = true
		return
	}
	c.let(ind, v, c.cellValue(cur, k))
}

// finishClosure: the definitions of a closure: the body (with `self` when it is recursive) and the wrapper
// that closes the recursion by structural recursion on the depth.
func (c *fnCtx) finishClosure(nEnv int, ownTypes, ownNames []string) {
	name := c.selfName
	decls := append([]string{}, c.paramDecls...)
	envDecls := append([]string{}, c.paramDecls[:nEnv]...)
	envNames := append([]string{}, c.paramNames[:nEnv]...)
	if c.fuel {
		decls = append([]string{"(fuel : Nat)"}, decls...)
		envDecls = append([]string{"(fuel : Nat)"}, envDecls...)
		envNames = append([]string{"fuel"}, envNames...)
	}
	if !c.clo.recursive() {
		c.defs = append(c.defs, fmt.Sprintf("def %s %s : %s :=\n%s", name, strings.Join(decls, " "), c.resType, c.body.String()))
		return
	}
	c.defs = append(c.defs, fmt.Sprintf("def %s_body %s : %s :=\n%s", name, strings.Join(decls, " "), c.resType, c.body.String()))
	wild := make([]string, len(ownNames))
	for i := range wild {
		wild[i] = "_"
	}
	env := ""
	if len(envNames) > 0 {
		env = " " + strings.Join(envNames, " ")
	}
	head := name
	if len(envDecls) > 0 {
		head += " " + strings.Join(envDecls, " ")
	}
	var b strings.Builder
	fmt.Fprintf(&b, "def %s : Nat → %s\n", head, c.selfType)
	fmt.Fprintf(&b, "  | 0, %s => none\n", strings.Join(wild, ", "))
	fmt.Fprintf(&b, "  | depth+1, %s => %s_body%s (%s%s depth) %s\n", strings.Join(ownNames, ", "), name, env, name, env, strings.Join(ownNames, " "))
	c.defs = append(c.defs, b.String())
}
