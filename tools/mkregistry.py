#!/usr/bin/env python3
"""Regenerates lean/registry.json from the property theorems found in lean/LowProofs/Props/Cxx.lean
(modules listed in lean/LowProofs.lean only) and tools/registry_meta.json (complete flag / open clauses)."""
import json, os, re
ROOT = os.path.dirname(os.path.dirname(os.path.abspath(__file__)))
meta = json.load(open(os.path.join(ROOT, "tools", "registry_meta.json")))
imported = set(re.findall(r"import\s+(LowProofs\.Props\.C\d+)", open(os.path.join(ROOT, "lean", "LowProofs.lean")).read()))
reg = {}
mods = [(m, m.split(".")[-1][:3]) for m in sorted(imported)] + sorted((m, pid) for pid, v in meta.items() for m in v.get("extra_modules", []))
for mod, pid in mods:
    src = open(os.path.join(ROOT, "lean", mod.replace(".", "/") + ".lean")).read()
    thms = []
    pat = "Tie" if ".Tie" in mod else (r"E2E\d*_" + pid if re.search(r"\.E2E\d*\.", mod) else pid)
    for m in re.finditer(r"(/--(?:(?!-/).)*-/\s*)?theorem\s+(%s_\w+'?)" % pat, src, flags=re.S):
        doc = re.sub(r"\s+", " ", (m.group(1) or "").replace("/--", "").replace("-/", "")).strip()
        # the namespaces open where the theorem is declared
        stack = []
        for kw, x in re.findall(r"^(namespace|end)\s+(\S+)", src[:m.start()], flags=re.M):
            if kw == "namespace":
                stack.append(x)
            elif stack and stack[-1] == x:
                stack.pop()
        thms.append(dict(name=".".join(stack + [m.group(2)]), module=mod, clause=doc[:300] or m.group(2)))
    mm = meta.get(pid, {})
    partial = [t["name"] for t in thms if "_partial" in t["name"]]
    if pid in reg:
        thms = reg[pid]["theorems"] + thms
    reg[pid] = dict(complete=bool(mm.get("complete")) and not partial, open=mm.get("open", []) + (["partial theorems: " + ", ".join(partial)] if partial else []), theorems=thms)
json.dump(reg, open(os.path.join(ROOT, "lean", "registry.json"), "w"), indent=1)
print({k: (len(v["theorems"]), v["complete"]) for k, v in reg.items()})
