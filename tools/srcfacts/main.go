// srcfacts prints, for every function and method of the non-test Go files under a module root, a hash of its
// normalised source (go/printer output of the declaration, comments stripped). The check compares these
// with the hashes recorded when the Lean model was last validated against the code: a function whose text
// changed makes the check search harder (thorough-size generation) -- it is a trigger, never a verdict.
package main

import (
	"bytes"
	"crypto/sha256"
	"encoding/json"
	"fmt"
	"go/ast"
	"go/parser"
	"go/printer"
	"go/token"
	"os"
	"path/filepath"
	"sort"
	"strings"
)

func main() {
	root := os.Args[1]
	out := map[string]string{}
	filepath.Walk(root, func(path string, info os.FileInfo, err error) error {
		if err != nil {
			return nil
		}
		if info.IsDir() {
			if strings.HasPrefix(info.Name(), ".") && path != root {
				return filepath.SkipDir
			}
			return nil
		}
		if !strings.HasSuffix(path, ".go") || strings.HasSuffix(path, "_test.go") || strings.HasSuffix(path, "verif_hooks.go") {
			return nil
		}
		fset := token.NewFileSet()
		f, err := parser.ParseFile(fset, path, nil, 0) // comments dropped
		if err != nil {
			fmt.Fprintln(os.Stderr, "parse error:", err)
			os.Exit(1)
		}
		rel, _ := filepath.Rel(root, filepath.Dir(path))
		for _, d := range f.Decls {
			switch x := d.(type) {
			case *ast.FuncDecl:
				name := x.Name.Name
				if x.Recv != nil && len(x.Recv.List) > 0 {
					var b bytes.Buffer
					printer.Fprint(&b, fset, x.Recv.List[0].Type)
					name = "(" + b.String() + ")." + name
				}
				var b bytes.Buffer
				printer.Fprint(&b, fset, x)
				out[rel+"."+name] = fmt.Sprintf("%x", sha256.Sum256(b.Bytes()))[:16]
			case *ast.GenDecl:
				if x.Tok == token.VAR || x.Tok == token.CONST {
					var b bytes.Buffer
					printer.Fprint(&b, fset, x)
					key := rel + ".<" + x.Tok.String() + ">@" + filepath.Base(path)
					out[key] = fmt.Sprintf("%x", sha256.Sum256(append([]byte(out[key]), b.Bytes()...)))[:16]
				}
			}
		}
		return nil
	})
	keys := make([]string, 0, len(out))
	for k := range out {
		keys = append(keys, k)
	}
	sort.Strings(keys)
	ordered := make([][2]string, 0, len(keys))
	for _, k := range keys {
		ordered = append(ordered, [2]string{k, out[k]})
	}
	m := map[string]string{}
	for _, kv := range ordered {
		m[kv[0]] = kv[1]
	}
	enc := json.NewEncoder(os.Stdout)
	enc.SetIndent("", " ")
	enc.Encode(m)
}
