module srcfacts

go 1.22
