#!/usr/bin/env python3
"""
Harmless-change experiment: apply a behaviour-preserving change to the repository and run every check whose packages it
touches; a VIOLATION line is a false alarm (or the change is not harmless after all: look at the replay).

  tools/harmless.py run <dir-with-patch.diff> [name]     apply to $LOW_REPO (default /repo), run the quick checks of the
                                                         properties whose packages the patch touches, undo, write
                                                         harmless/<name>/{patch.diff,NOTES.md,result.json}
"""
import json, os, re, shutil, subprocess, sys
ROOT = os.path.dirname(os.path.dirname(os.path.abspath(__file__)))
REPO = os.environ.get("LOW_REPO", "/repo")
ENV = dict(os.environ, GOFLAGS="-mod=mod", GOPROXY="off", GOSUMDB="off", GOTOOLCHAIN="local")


def sh(cmd, cwd=None, timeout=3600):
    p = subprocess.run(cmd, shell=True, cwd=cwd, env=ENV, stdout=subprocess.PIPE, stderr=subprocess.STDOUT, text=True, timeout=timeout)
    return p.returncode, p.stdout


def main():
    src = sys.argv[2].rstrip("/")
    name = sys.argv[3] if len(sys.argv) > 3 else os.path.basename(src)
    patch = os.path.join(src, "patch.diff")
    files = re.findall(r"^\+\+\+ b/(\S+)", open(patch).read(), flags=re.M)
    pkgs = sorted({f.split("/")[0] for f in files})
    rel = json.load(open(os.path.join(ROOT, "srcrelevant.json")))
    # the properties whose functions live in the changed files (a whole package only where no finer table exists);
    # HARMLESS_ALL=1 runs every check of the touched packages instead
    by_file = {"bitmap/rank.go": "C01", "bitmap/select.go": "C02", "bitmap/of.go": "C12", "bitmap/ofmany.go": "C12",
               "bitmap/get.go": "C12 C14", "bitmap/toarray.go": "C12", "bitmap/builder.go": "C12", "bitmap/next.go": "C13",
               "bitmap/join.go": "C14", "bitmap/slice.go": "C14", "bitmap/tailbitmap.go": "C15", "bitmap/fromstr32.go": "C11",
               "bmtree/index.go": "C03 C04 C05", "bmtree/partial_tree.go": "C03", "bmtree/allpaths.go": "C04", "bmtree/decode.go": "C04",
               "bmtree/newpath.go": "C10 C11", "bmtree/pathstr.go": "C10", "bmtree/pathbits.go": "C10", "bmtree/pathlen.go": "C03 C10",
               "bmtree/pathheight.go": "C03 C10", "bmtree/height.go": "C03 C04", "sigbits/firstdiff.go": "C16 C17",
               "sigbits/countprefixes.go": "C16", "sigbits/sigbits_countprefixes.go": "C16", "sigbits/sigbits.go": "C16",
               "sigbits/sharding.go": "C17"}
    if os.environ.get("HARMLESS_ALL") != "1" and all(f in by_file for f in files):
        pids = sorted({p for f in files for p in by_file[f].split()} | ({"C19"} if set(pkgs) & set(rel["C19"]) else set()))
    else:
        pids = sorted(p for p, ps in rel.items() if set(ps) & set(pkgs))
    dst = os.path.join(ROOT, "harmless", name)
    os.makedirs(dst, exist_ok=True)
    shutil.copy(patch, dst)
    if os.path.exists(os.path.join(src, "NOTES.md")):
        shutil.copy(os.path.join(src, "NOTES.md"), dst)
    rc, out = sh("git status --short", cwd=REPO)
    assert out.strip() == "", "repository not clean: " + out
    keep = os.path.join(ROOT, "work", ".harmless-keep")
    shutil.rmtree(keep, ignore_errors=True)
    for sub in ("evidence", os.path.join("lean", "Generated")):
        shutil.copytree(os.path.join(ROOT, sub), os.path.join(keep, sub))
    rc, out = sh("git apply %s" % os.path.abspath(patch), cwd=REPO)
    res = dict(name=name, files=files, checks={}, applies=rc == 0)
    try:
        if rc == 0:
            for pid in pids:
                rc, out = sh("./check %s quick" % pid, cwd=ROOT)
                viol = [l for l in out.splitlines() if l.startswith("VIOLATION")]
                res["checks"][pid] = dict(exit=rc, violation=viol[:3], last=out.strip().splitlines()[-1][:200] if out.strip() else "")
                for v in viol[:1]:
                    m = re.search(r"replay=(\S+)", v)
                    if m and os.path.exists(os.path.join(ROOT, m.group(1))):
                        b = json.load(open(os.path.join(ROOT, m.group(1))))
                        res["checks"][pid]["replay"] = {k: (str(v2)[:600]) for k, v2 in b.items() if k in ("kind", "case", "failures", "function", "explanation")}
    finally:
        sh("git checkout -- .", cwd=REPO)
        for f in os.listdir(os.path.join(ROOT, "replays")) if os.path.isdir(os.path.join(ROOT, "replays")) else []:
            if f.endswith(".json"):
                os.remove(os.path.join(ROOT, "replays", f))
        for sub in ("evidence", os.path.join("lean", "Generated")):
            for dp, dn, fn in os.walk(os.path.join(keep, sub)):
                for f in fn:
                    src = os.path.join(dp, f)
                    back = os.path.join(ROOT, os.path.relpath(src, keep))
                    if not os.path.exists(back) or open(src, "rb").read() != open(back, "rb").read():
                        shutil.copy(src, back)
        shutil.rmtree(keep, ignore_errors=True)
    res["alarms"] = sorted(p for p, c in res["checks"].items() if c["exit"] != 0)
    json.dump(res, open(os.path.join(dst, "result.json"), "w"), indent=1)
    print("%-14s %-40s checks=%s alarms=%s" % (name, ",".join(files)[:40], ",".join(pids), ",".join(res["alarms"]) or "none"))


if __name__ == "__main__":
    main()
