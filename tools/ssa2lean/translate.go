package main

import (
	"bytes"
	"fmt"
	"go/constant"
	"go/token"
	"go/types"
	"regexp"
	"sort"
	"strings"

	"golang.org/x/tools/go/ssa"
	"golang.org/x/tools/go/ssa/ssautil"
)

// ---------------------------------------------------------------------------
// "unsupported" is reported by panicking with this type; translate recovers it.

type unsupported struct{ reason string }

func fail(format string, args ...interface{}) {
	panic(unsupported{fmt.Sprintf(format, args...)})
}

// ---------------------------------------------------------------------------

type translator struct {
	prog       *ssa.Program
	pkgs       map[string]*ssa.Package
	byName     map[string]*ssa.Function // target name -> function
	byFunc     map[*ssa.Function]string // function -> target name
	resolveErr map[string]string
	panicMemo  map[*ssa.Function]int // 1 = being computed, 2 = cannot panic, 3 = can panic
	globalsOK  map[*ssa.Global]string
	allFuncs   []*ssa.Function
}

func newTranslator(prog *ssa.Program, pkgs map[string]*ssa.Package, targets []string) *translator {
	tr := &translator{
		prog: prog, pkgs: pkgs,
		byName: map[string]*ssa.Function{}, byFunc: map[*ssa.Function]string{},
		resolveErr: map[string]string{}, panicMemo: map[*ssa.Function]int{},
		globalsOK: map[*ssa.Global]string{},
	}
	for _, t := range targets {
		f, err := tr.resolve(t)
		if err != "" {
			tr.resolveErr[t] = err
			continue
		}
		tr.byName[t] = f
		tr.byFunc[f] = t
	}
	return tr
}

func (tr *translator) resolve(target string) (*ssa.Function, string) {
	parts := strings.Split(target, ".")
	pkg := tr.pkgs[parts[0]]
	if pkg == nil {
		return nil, "package " + parts[0] + " not loaded"
	}
	switch len(parts) {
	case 2:
		f := pkg.Func(parts[1])
		if f == nil {
			return nil, "no function " + target + " in the source"
		}
		return f, ""
	case 3:
		T := pkg.Type(parts[1])
		if T == nil {
			return nil, "no type " + parts[0] + "." + parts[1] + " in the source"
		}
		sel := types.NewMethodSet(types.NewPointer(T.Type())).Lookup(pkg.Pkg, parts[2])
		if sel == nil {
			return nil, "no method " + target + " in the source"
		}
		fn, ok := sel.Obj().(*types.Func)
		if !ok {
			return nil, target + " is not a method"
		}
		f := tr.prog.FuncValue(fn)
		if f == nil || len(f.Blocks) == 0 {
			return nil, "no SSA body for " + target
		}
		return f, ""
	}
	return nil, "bad target name " + target
}

// translate returns the text of the generated Lean file, or a reason why the
// function is outside the supported subset.
func (tr *translator) translate(target string) (lean string, reason string) {
	if e, bad := tr.resolveErr[target]; bad {
		return "", e
	}
	f := tr.byName[target]
	defer func() {
		if r := recover(); r != nil {
			u, ok := r.(unsupported)
			if !ok {
				panic(r)
			}
			lean, reason = "", u.reason
		}
	}()
	c := &fnCtx{tr: tr, f: f, target: target, imports: map[string]bool{}, names: map[ssa.Value]string{},
		defined: map[ssa.Value]string{}, used: map[string]bool{}, fieldParam: map[int]string{}}
	return c.run(), ""
}

// canPanic: does the function contain an instruction that the translation
// maps to `none` (bounds-checked indexing), directly or through a call of
// another target?  Also rejects recursion among targets.
func (tr *translator) canPanic(f *ssa.Function) bool {
	switch tr.panicMemo[f] {
	case 1:
		fail("recursion through %s", f.Name())
	case 2:
		return false
	case 3:
		return true
	}
	tr.panicMemo[f] = 1
	res := false
	for _, b := range f.Blocks {
		for _, in := range b.Instrs {
			switch v := in.(type) {
			case *ssa.IndexAddr, *ssa.Index:
				res = true
			case *ssa.Call:
				if callee := v.Call.StaticCallee(); callee != nil {
					if callee == f {
						fail("recursive call of %s", f.Name())
					}
					if _, ok := tr.byFunc[callee]; ok && tr.canPanic(callee) {
						res = true
					}
				}
			}
		}
	}
	if res {
		tr.panicMemo[f] = 3
	} else {
		tr.panicMemo[f] = 2
	}
	return res
}

// globalConstErr: a package-level variable of type error that is assigned only
// by the package initialiser is represented by its identity "pkg.name".
func (tr *translator) globalConstErr(g *ssa.Global) string {
	if s, ok := tr.globalsOK[g]; ok {
		if s == "" {
			fail("global %s is written outside package initialisation", g.Name())
		}
		return s
	}
	if tr.allFuncs == nil {
		for fn := range ssautil.AllFunctions(tr.prog) {
			tr.allFuncs = append(tr.allFuncs, fn)
		}
	}
	ok := true
	for _, fn := range tr.allFuncs {
		if fn.Pkg != g.Pkg || (fn.Name() == "init" && fn.Parent() == nil && fn.Signature.Recv() == nil) {
			continue
		}
		for _, b := range fn.Blocks {
			for _, in := range b.Instrs {
				for _, op := range in.Operands(nil) {
					if *op != ssa.Value(g) {
						continue
					}
					// the only permitted use outside init is a load `*g`
					if u, isLoad := in.(*ssa.UnOp); !(isLoad && u.Op == token.MUL) {
						ok = false
					}
				}
			}
		}
	}
	s := ""
	if ok {
		s = strings.TrimPrefix(g.Pkg.Pkg.Path(), modulePath+"/") + "." + g.Name()
	}
	tr.globalsOK[g] = s
	if s == "" {
		fail("global %s is written (or its address taken) outside package initialisation", g.Name())
	}
	return s
}

// ---------------------------------------------------------------------------
// types

func basicKind(t types.Type) (types.BasicKind, bool) {
	b, ok := t.Underlying().(*types.Basic)
	if !ok {
		return 0, false
	}
	return b.Kind(), true
}

// suffix of the GoSem operation names: the integer type as GoSem sees it
// (int = int64, uint = uint64 on the supported 64-bit platforms).
func intSuffix(t types.Type) string {
	k, ok := basicKind(t)
	if ok {
		switch k {
		case types.Int32:
			return "I32"
		case types.Int, types.Int64:
			return "I64"
		case types.Uint8:
			return "U8"
		case types.Uint32:
			return "U32"
		case types.Uint, types.Uint64:
			return "U64"
		}
	}
	fail("unsupported integer type %s", t)
	return ""
}

func isIntType(t types.Type) bool {
	k, ok := basicKind(t)
	if !ok {
		return false
	}
	switch k {
	case types.Int32, types.Int, types.Int64, types.Uint8, types.Uint32, types.Uint, types.Uint64:
		return true
	}
	return false
}

func isSigned(t types.Type) bool   { return strings.HasPrefix(intSuffix(t), "I") }
func isUnsigned(t types.Type) bool { return isIntType(t) && !isSigned(t) }
func isBool(t types.Type) bool {
	k, ok := basicKind(t)
	return ok && k == types.Bool
}
func isString(t types.Type) bool {
	k, ok := basicKind(t)
	return ok && k == types.String
}

var errorType = types.Universe.Lookup("error").Type()

func leanType(t types.Type) string {
	if types.Identical(t, errorType) {
		return "GoSem.Err"
	}
	switch u := t.Underlying().(type) {
	case *types.Basic:
		switch {
		case isIntType(t):
			if isSigned(t) {
				return "Int"
			}
			return "Nat"
		case u.Kind() == types.Bool:
			return "Bool"
		case u.Kind() == types.String:
			return "List Nat"
		}
	case *types.Slice:
		if isIntType(u.Elem()) {
			return "List " + leanType(u.Elem())
		}
	case *types.Tuple:
		var parts []string
		for i := 0; i < u.Len(); i++ {
			parts = append(parts, leanType(u.At(i).Type()))
		}
		if len(parts) >= 2 {
			return "(" + strings.Join(parts, " × ") + ")"
		}
	}
	fail("unsupported type %s", t)
	return ""
}

func paren(s string) string {
	if strings.ContainsAny(s, " ") && !(strings.HasPrefix(s, "(") && strings.HasSuffix(s, ")")) {
		return "(" + s + ")"
	}
	return s
}

// ---------------------------------------------------------------------------
// per-function state

type fnCtx struct {
	tr      *translator
	f       *ssa.Function
	target  string
	option  bool // the Lean definition returns Option
	names   map[ssa.Value]string
	defined map[ssa.Value]string
	used    map[string]bool
	imports map[string]bool
	topo    map[*ssa.BasicBlock]int
	resType string

	// struct receiver (methods with receiver *T, T a struct)
	recv       *ssa.Parameter
	recvStruct *types.Struct
	fieldParam map[int]string // field index -> Lean parameter
	stored     []int          // indices of the fields the function stores to, ascending
	fresh      int

	body strings.Builder
}

var identRE = regexp.MustCompile(`^[A-Za-z][A-Za-z0-9_]*$`)
var reservedRE = regexp.MustCompile(`^(t|blk|arg)[0-9]+$`)
var leanReserved = map[string]bool{}

func init() {
	for _, w := range strings.Fields(`at from end fun if then else let have show do in with match by open def theorem
		lemma instance structure class where namespace section import for return mut try catch finally unless true false
		Type Prop Sort forall exists using this some none Nat Int Bool List Option GoSem Low decide not or and break
		continue deriving extends mutual private protected partial unsafe noncomputable universe variable axiom example
		abbrev inductive macro syntax notation infix infixl infixr prefix postfix attribute export nomatch nofun suffices
		calc obtain sorry termination_by decreasing_by set_option local scoped omit include public meta rec id`) {
		leanReserved[w] = true
	}
}

func (c *fnCtx) claim(want string, k int) string {
	n := want
	if !identRE.MatchString(n) || reservedRE.MatchString(n) || leanReserved[n] || c.used[n] {
		n = fmt.Sprintf("arg%d", k)
		for c.used[n] {
			n += "x"
		}
	}
	c.used[n] = true
	return n
}

func (c *fnCtx) line(ind int, format string, args ...interface{}) {
	c.body.WriteString(strings.Repeat("  ", ind))
	fmt.Fprintf(&c.body, format, args...)
	c.body.WriteByte('\n')
}

func (c *fnCtx) run() string {
	f := c.f
	if len(f.Blocks) == 0 {
		fail("no body")
	}
	if f.Recover != nil {
		fail("defer/recover")
	}
	if len(f.FreeVars) > 0 || len(f.AnonFuncs) > 0 {
		fail("closures")
	}
	if f.Signature.Variadic() {
		fail("variadic function")
	}
	if f.TypeParams().Len() > 0 {
		fail("generic function")
	}
	c.checkAcyclic()
	c.option = c.tr.canPanic(f)

	// parameters
	var params []string
	for k, p := range f.Params {
		if k == 0 && f.Signature.Recv() != nil {
			c.setupReceiver(p, &params)
			continue
		}
		n := c.claim(p.Name(), k)
		c.names[p] = n
		params = append(params, fmt.Sprintf("(%s : %s)", n, leanType(p.Type())))
	}

	// result type
	var parts []string
	res := f.Signature.Results()
	for i := 0; i < res.Len(); i++ {
		parts = append(parts, leanType(res.At(i).Type()))
	}
	for _, k := range c.stored {
		parts = append(parts, leanType(c.recvStruct.Field(k).Type()))
	}
	if len(parts) == 0 {
		fail("function without result")
	}
	c.resType = strings.Join(parts, " × ")
	if len(parts) > 1 {
		c.resType = "(" + c.resType + ")"
	}
	if c.option {
		c.resType = "Option " + paren(c.resType)
	}

	cur := map[int]string{}
	for k, n := range c.fieldParam {
		cur[k] = n
	}
	c.emitBlock(f.Blocks[0], 1, cur)

	// assemble the file
	leanName := leanNameOf(c.target)
	var out strings.Builder
	out.WriteString("import LowModel.GoSem\n")
	var imps []string
	for i := range c.imports {
		imps = append(imps, i)
	}
	sort.Strings(imps)
	for _, i := range imps {
		fmt.Fprintf(&out, "import Generated.Ssa.%s\n", i)
	}
	fmt.Fprintf(&out, "/- GENERATED by tools/ssa2lean from the SSA form of %s.  DO NOT EDIT.\n", c.target)
	out.WriteString("   Rewritten from the current source on every run; the proof in LowProofs/Tie ties it to the model.\n")
	if c.recv != nil {
		out.WriteString("   Receiver fields are passed as arguments")
		if len(c.stored) > 0 {
			var ns []string
			for _, k := range c.stored {
				ns = append(ns, c.recvStruct.Field(k).Name())
			}
			fmt.Fprintf(&out, "; the final value of the stored field(s) %s follows the results", strings.Join(ns, ", "))
		}
		out.WriteString(".\n")
	}
	out.WriteString("\n")
	out.WriteString(ssaText(f))
	out.WriteString("-/\n")
	out.WriteString("namespace Low.Gen.Ssa\n")
	out.WriteString("set_option linter.unusedVariables false\n\n")
	fmt.Fprintf(&out, "def %s %s : %s :=\n", leanName, strings.Join(params, " "), c.resType)
	out.WriteString(c.body.String())
	out.WriteString("\nend Low.Gen.Ssa\n")
	return out.String()
}

// ssaText is go/ssa's own listing of the function, without the lines that
// mention file-system locations, made safe for a Lean block comment.
func ssaText(f *ssa.Function) string {
	var buf bytes.Buffer
	f.WriteTo(&buf)
	var out strings.Builder
	for _, l := range strings.Split(buf.String(), "\n") {
		if strings.HasPrefix(l, "# ") {
			continue
		}
		l = strings.TrimRight(l, " \t")
		l = strings.ReplaceAll(l, "-/", "- /")
		l = strings.ReplaceAll(l, "/-", "/ -")
		if l == "" {
			continue
		}
		out.WriteString(l)
		out.WriteByte('\n')
	}
	return out.String()
}

// checkAcyclic rejects control-flow cycles and numbers the blocks topologically.
func (c *fnCtx) checkAcyclic() {
	color := map[*ssa.BasicBlock]int{}
	var post []*ssa.BasicBlock
	var dfs func(b *ssa.BasicBlock)
	dfs = func(b *ssa.BasicBlock) {
		color[b] = 1
		for _, s := range b.Succs {
			switch color[s] {
			case 1:
				fail("contains a loop (back edge from block %d to block %d)", b.Index, s.Index)
			case 0:
				dfs(s)
			}
		}
		color[b] = 2
		post = append(post, b)
	}
	entry := c.f.Blocks[0]
	if len(entry.Preds) > 0 {
		fail("contains a loop (entry block has predecessors)")
	}
	dfs(entry)
	c.topo = map[*ssa.BasicBlock]int{}
	for i, b := range post {
		c.topo[b] = len(post) - 1 - i
	}
	for _, b := range c.f.Blocks {
		if _, ok := c.topo[b]; !ok && b != c.f.Recover {
			fail("unreachable block %d", b.Index)
		}
	}
}

// setupReceiver: receiver `s *T` with T a struct.  Every field of a supported
// type becomes a parameter `s_field`; `s` itself may only be used in `&s.field`,
// and such an address only in a load or as the target of a store.
func (c *fnCtx) setupReceiver(p *ssa.Parameter, params *[]string) {
	ptr, ok := p.Type().Underlying().(*types.Pointer)
	if !ok {
		fail("receiver of type %s (only pointer-to-struct receivers)", p.Type())
	}
	st, ok := ptr.Elem().Underlying().(*types.Struct)
	if !ok {
		fail("receiver of type %s (only pointer-to-struct receivers)", p.Type())
	}
	c.recv, c.recvStruct = p, st
	storedSet := map[int]bool{}
	accessed := map[int]bool{}
	for _, r := range *p.Referrers() {
		fa, ok := r.(*ssa.FieldAddr)
		if !ok || fa.X != ssa.Value(p) {
			fail("receiver used other than in a field access: %s", r)
		}
		accessed[fa.Field] = true
		for _, u := range *fa.Referrers() {
			switch x := u.(type) {
			case *ssa.UnOp:
				if x.Op != token.MUL {
					fail("address of receiver field used in %s", u)
				}
			case *ssa.Store:
				if x.Addr != ssa.Value(fa) || x.Val == ssa.Value(fa) {
					fail("address of receiver field stored: %s", u)
				}
				storedSet[fa.Field] = true
			default:
				fail("address of receiver field escapes: %s", u)
			}
		}
	}
	recvName := p.Name()
	if !identRE.MatchString(recvName) {
		recvName = "recv"
	}
	for k := 0; k < st.NumFields(); k++ {
		ft := st.Field(k).Type()
		supported := isIntType(ft) || isBool(ft)
		if !supported {
			if accessed[k] {
				fail("access to receiver field %s of unsupported type %s", st.Field(k).Name(), ft)
			}
			continue
		}
		n := c.claim(recvName+"_"+st.Field(k).Name(), 1000+k)
		c.fieldParam[k] = n
		*params = append(*params, fmt.Sprintf("(%s : %s)", n, leanType(ft)))
		if storedSet[k] {
			c.stored = append(c.stored, k)
		}
	}
	sort.Ints(c.stored)
}

// ---------------------------------------------------------------------------
// blocks
//
// The CFG is acyclic.  A block with a single predecessor is emitted inline at
// the end of that predecessor.  A block with several predecessors (a join)
// becomes a local function `blkN`, defined at the end of its immediate
// dominator (so that every value it may use is in lexical scope) and taking
// the block's phi values (and the current values of the stored receiver
// fields) as arguments; every edge into the join is a call of `blkN`.

func (c *fnCtx) emitBlock(b *ssa.BasicBlock, ind int, curIn map[int]string) {
	cur := map[int]string{}
	for k, v := range curIn {
		cur[k] = v
	}
	n := len(b.Instrs)
	if n == 0 {
		fail("empty block %d", b.Index)
	}
	for _, in := range b.Instrs[:n-1] {
		if _, isPhi := in.(*ssa.Phi); isPhi {
			continue // bound as parameters of the join function
		}
		c.emitInstr(in, ind, cur)
	}

	// join blocks immediately dominated by b, innermost (topologically last) first
	var joins []*ssa.BasicBlock
	for _, d := range b.Dominees() {
		if len(d.Preds) > 1 {
			joins = append(joins, d)
		}
	}
	sort.Slice(joins, func(i, j int) bool { return c.topo[joins[i]] > c.topo[joins[j]] })
	for _, j := range joins {
		var ptypes, binders []string
		jcur := map[int]string{}
		for k, v := range cur {
			jcur[k] = v
		}
		for _, in := range j.Instrs {
			phi, ok := in.(*ssa.Phi)
			if !ok {
				break
			}
			t := leanType(phi.Type())
			c.defined[phi] = phi.Name()
			ptypes = append(ptypes, paren(t))
			binders = append(binders, fmt.Sprintf("(%s : %s)", phi.Name(), t))
		}
		for _, k := range c.stored {
			t := leanType(c.recvStruct.Field(k).Type())
			name := fmt.Sprintf("%s_b%d", c.fieldParam[k], j.Index)
			jcur[k] = name
			ptypes = append(ptypes, paren(t))
			binders = append(binders, fmt.Sprintf("(%s : %s)", name, t))
		}
		if len(binders) == 0 {
			ptypes = append(ptypes, "Unit")
			binders = append(binders, "(_ : Unit)")
		}
		c.line(ind, "let blk%d : %s → %s := (fun %s =>", j.Index, strings.Join(ptypes, " → "), paren(c.resType), strings.Join(binders, " "))
		c.emitBlock(j, ind+2, jcur)
		c.line(ind, ");")
	}

	switch t := b.Instrs[n-1].(type) {
	case *ssa.Return:
		var parts []string
		for _, r := range t.Results {
			leanType(r.Type())
			parts = append(parts, c.operand(r))
		}
		for _, k := range c.stored {
			parts = append(parts, cur[k])
		}
		e := strings.Join(parts, ", ")
		if len(parts) > 1 {
			e = "(" + e + ")"
		}
		if c.option {
			c.line(ind, "some %s", e)
		} else {
			c.line(ind, "%s", e)
		}
	case *ssa.Jump:
		c.emitGoto(b, 0, ind, cur)
	case *ssa.If:
		if !isBool(t.Cond.Type()) {
			fail("non-bool condition")
		}
		if b.Succs[0] == b.Succs[1] {
			fail("both branches of block %d lead to block %d", b.Index, b.Succs[0].Index)
		}
		c.line(ind, "if %s = true then (", c.operand(t.Cond))
		c.emitGoto(b, 0, ind+1, cur)
		c.line(ind, ") else (")
		c.emitGoto(b, 1, ind+1, cur)
		c.line(ind, ")")
	default:
		fail("terminator %T", t)
	}
}

func (c *fnCtx) emitGoto(from *ssa.BasicBlock, succ int, ind int, cur map[int]string) {
	to := from.Succs[succ]
	if len(to.Preds) == 1 {
		c.emitBlock(to, ind, cur)
		return
	}
	edge := -1
	for i, p := range to.Preds {
		if p == from {
			if edge >= 0 {
				fail("two edges from block %d to block %d", from.Index, to.Index)
			}
			edge = i
		}
	}
	if edge < 0 {
		fail("inconsistent CFG")
	}
	var args []string
	for _, in := range to.Instrs {
		phi, ok := in.(*ssa.Phi)
		if !ok {
			break
		}
		args = append(args, c.operand(phi.Edges[edge]))
	}
	for _, k := range c.stored {
		args = append(args, cur[k])
	}
	if len(args) == 0 {
		args = append(args, "()")
	}
	c.line(ind, "blk%d %s", to.Index, strings.Join(args, " "))
}

// ---------------------------------------------------------------------------
// operands

func (c *fnCtx) constant(k *ssa.Const) string {
	t := k.Type()
	switch {
	case isBoolOrUntypedBool(t):
		if k.Value == nil {
			fail("bad bool constant")
		}
		if constant.BoolVal(k.Value) {
			return "true"
		}
		return "false"
	case types.Identical(t, errorType):
		if k.Value != nil {
			fail("non-nil error constant")
		}
		return "(none : GoSem.Err)"
	case isIntType(t):
		if k.Value == nil {
			fail("bad integer constant")
		}
		v := constant.ToInt(k.Value)
		if v.Kind() != constant.Int {
			fail("non-integer constant %s", k)
		}
		ty := "Nat"
		if isSigned(t) {
			ty = "Int"
		}
		return fmt.Sprintf("(%s : %s)", v.ExactString(), ty)
	}
	fail("unsupported constant %s", k)
	return ""
}

func isBoolOrUntypedBool(t types.Type) bool {
	k, ok := basicKind(t)
	return ok && (k == types.Bool || k == types.UntypedBool)
}

func (c *fnCtx) operand(v ssa.Value) string {
	switch x := v.(type) {
	case *ssa.Const:
		return c.constant(x)
	case *ssa.Parameter:
		if x == c.recv {
			fail("receiver used as a value")
		}
		if n, ok := c.names[x]; ok {
			return n
		}
		fail("unknown parameter %s", x.Name())
	case *ssa.Global, *ssa.Function, *ssa.Builtin, *ssa.FreeVar:
		fail("unsupported operand %s", v)
	}
	if n, ok := c.defined[v]; ok {
		return n
	}
	fail("use of a value outside the supported subset: %s = %s", v.Name(), v)
	return ""
}

// asInt renders an integer operand as a Lean `Int`.
func (c *fnCtx) asInt(v ssa.Value) string {
	if !isIntType(v.Type()) {
		fail("integer operand expected, got %s", v.Type())
	}
	if isSigned(v.Type()) {
		return c.operand(v)
	}
	if k, ok := v.(*ssa.Const); ok {
		if k.Value == nil {
			fail("bad integer constant")
		}
		return fmt.Sprintf("(%s : Int)", constant.ToInt(k.Value).ExactString())
	}
	return fmt.Sprintf("(%s : Int)", c.operand(v))
}

// ---------------------------------------------------------------------------
// instructions

func (c *fnCtx) let(ind int, v ssa.Value, expr string) {
	c.line(ind, "let %s : %s := %s;", v.Name(), leanType(v.Type()), expr)
	c.defined[v] = v.Name()
}

func (c *fnCtx) bind(ind int, v ssa.Value, ty string, expr string) {
	c.line(ind, "Option.bind (%s) fun (%s : %s) =>", expr, v.Name(), ty)
	c.defined[v] = v.Name()
}

var arithOps = map[token.Token]string{
	token.ADD: "add", token.SUB: "sub", token.MUL: "mul",
	token.AND: "and", token.OR: "or", token.XOR: "xor", token.AND_NOT: "andNot",
}
var shiftOps = map[token.Token]string{token.SHL: "shl", token.SHR: "shr"}
var cmpOps = map[token.Token]string{
	token.EQL: "=", token.NEQ: "≠", token.LSS: "<", token.LEQ: "≤", token.GTR: ">", token.GEQ: "≥",
}

// the tables of bitmap/mask.go: name -> (GoSem function, array length GoSem assumes)
var maskTables = map[string]struct {
	fn string
	n  int64
}{
	"Mask": {"tblMask", 65}, "RMask": {"tblRMask", 65},
	"MaskUpto": {"tblMaskUpto", 64}, "RMaskUpto": {"tblRMaskUpto", 64},
	"Bit": {"tblBit", 64}, "RBit": {"tblRBit", 64},
}

// math/bits: function -> (GoSem function)
var mathBits = map[string]string{
	"OnesCount64": "onesCount64", "OnesCount32": "onesCount32", "OnesCount16": "onesCount16", "OnesCount8": "onesCount8",
	"OnesCount":       "onesCount64",
	"TrailingZeros64": "trailingZeros64", "TrailingZeros32": "trailingZeros32", "TrailingZeros8": "trailingZeros8",
	"TrailingZeros":  "trailingZeros64",
	"LeadingZeros64": "leadingZeros64", "LeadingZeros32": "leadingZeros32", "LeadingZeros8": "leadingZeros8",
	"LeadingZeros": "leadingZeros64",
	"Len64":        "len64", "Len32": "len32", "Len8": "len8", "Len": "len64",
}

func (c *fnCtx) emitInstr(in ssa.Instruction, ind int, cur map[int]string) {
	switch v := in.(type) {
	case *ssa.DebugRef:
		return

	case *ssa.BinOp:
		if name, ok := arithOps[v.Op]; ok {
			if !isIntType(v.X.Type()) || !types.Identical(v.X.Type().Underlying(), v.Y.Type().Underlying()) {
				fail("%s on %s", v.Op, v.X.Type())
			}
			c.let(ind, v, fmt.Sprintf("GoSem.%s%s %s %s", name, intSuffix(v.X.Type()), c.operand(v.X), c.operand(v.Y)))
			return
		}
		if name, ok := shiftOps[v.Op]; ok {
			if !isIntType(v.X.Type()) {
				fail("shift of %s", v.X.Type())
			}
			if !isIntType(v.Y.Type()) || !isUnsigned(v.Y.Type()) {
				fail("shift count of signed type %s (panics when negative)", v.Y.Type())
			}
			c.let(ind, v, fmt.Sprintf("GoSem.%s%s %s %s", name, intSuffix(v.X.Type()), c.operand(v.X), c.operand(v.Y)))
			return
		}
		if sym, ok := cmpOps[v.Op]; ok {
			xt, yt := v.X.Type(), v.Y.Type()
			okTypes := (isIntType(xt) && types.Identical(xt.Underlying(), yt.Underlying())) ||
				(isBool(xt) && isBool(yt) && (v.Op == token.EQL || v.Op == token.NEQ))
			if !okTypes {
				fail("comparison %s on %s", v.Op, xt)
			}
			c.let(ind, v, fmt.Sprintf("decide (%s %s %s)", c.operand(v.X), sym, c.operand(v.Y)))
			return
		}
		fail("binary operator %s", v.Op)

	case *ssa.UnOp:
		switch v.Op {
		case token.MUL: // load
			switch x := v.X.(type) {
			case *ssa.IndexAddr:
				c.let(ind, v, c.operand(x))
			case *ssa.FieldAddr:
				if x.X != ssa.Value(c.recv) || c.recv == nil {
					fail("field access through %s", x.X.Name())
				}
				n, ok := cur[x.Field]
				if !ok {
					fail("receiver field %d", x.Field)
				}
				c.let(ind, v, n)
			case *ssa.Global:
				if !types.Identical(v.Type(), errorType) {
					fail("read of global %s of type %s", x.Name(), v.Type())
				}
				c.let(ind, v, fmt.Sprintf("(some %s : GoSem.Err)", leanString(c.tr.globalConstErr(x))))
			default:
				fail("load through %s", v.X)
			}
		case token.SUB:
			s := intSuffix(v.X.Type())
			if s == "U32" || s == "U8" {
				fail("negation on %s", v.X.Type())
			}
			c.let(ind, v, fmt.Sprintf("GoSem.neg%s %s", s, c.operand(v.X)))
		case token.XOR:
			c.let(ind, v, fmt.Sprintf("GoSem.not%s %s", intSuffix(v.X.Type()), c.operand(v.X)))
		case token.NOT:
			if !isBool(v.X.Type()) {
				fail("! on %s", v.X.Type())
			}
			c.let(ind, v, fmt.Sprintf("(!%s)", c.operand(v.X)))
		default:
			fail("unary operator %s", v.Op)
		}

	case *ssa.Convert:
		if !isIntType(v.X.Type()) || !isIntType(v.Type()) {
			fail("conversion %s <- %s", v.Type(), v.X.Type())
		}
		c.let(ind, v, fmt.Sprintf("GoSem.to%s %s", intSuffix(v.Type()), c.asInt(v.X)))

	case *ssa.Call:
		c.emitCall(v, ind)

	case *ssa.IndexAddr:
		for _, r := range *v.Referrers() {
			if u, ok := r.(*ssa.UnOp); !ok || u.Op != token.MUL {
				fail("element address used other than in a load: %s", r)
			}
		}
		if _, ok := v.X.Type().Underlying().(*types.Slice); ok {
			elem := v.Type().Underlying().(*types.Pointer).Elem()
			c.bind(ind, v, leanType(elem), fmt.Sprintf("GoSem.index %s %s", c.operand(v.X), c.asInt(v.Index)))
			return
		}
		if g, ok := v.X.(*ssa.Global); ok && g.Pkg != nil && g.Pkg.Pkg.Path() == modulePath+"/bitmap" {
			if tb, ok := maskTables[g.Name()]; ok {
				arr, isArr := g.Type().Underlying().(*types.Pointer).Elem().Underlying().(*types.Array)
				if !isArr || arr.Len() != tb.n || intSuffixOrEmpty(arr.Elem()) != "U64" {
					fail("bitmap.%s no longer has type [%d]uint64", g.Name(), tb.n)
				}
				c.bind(ind, v, "Nat", fmt.Sprintf("GoSem.%s %s", tb.fn, c.asInt(v.Index)))
				return
			}
		}
		fail("indexing of %s", v.X)

	case *ssa.Index:
		if !isString(v.X.Type()) {
			fail("indexing of a value of type %s", v.X.Type())
		}
		c.bind(ind, v, "Nat", fmt.Sprintf("GoSem.index %s %s", c.operand(v.X), c.asInt(v.Index)))

	case *ssa.Extract:
		tup := v.Tuple.Type().(*types.Tuple)
		proj := strings.Repeat(".2", v.Index)
		if v.Index < tup.Len()-1 {
			proj += ".1"
		}
		c.let(ind, v, c.operand(v.Tuple)+proj)

	case *ssa.FieldAddr:
		if c.recv == nil || v.X != ssa.Value(c.recv) {
			fail("field address %s", v)
		}
		// uses were checked in setupReceiver; loads and stores do the work

	case *ssa.Store:
		fa, ok := v.Addr.(*ssa.FieldAddr)
		if !ok || c.recv == nil || fa.X != ssa.Value(c.recv) {
			fail("store through %s", v.Addr)
		}
		if _, ok := cur[fa.Field]; !ok {
			fail("store to receiver field %d", fa.Field)
		}
		c.fresh++
		name := fmt.Sprintf("%s_%d", c.fieldParam[fa.Field], c.fresh)
		c.line(ind, "let %s : %s := %s;", name, leanType(c.recvStruct.Field(fa.Field).Type()), c.operand(v.Val))
		cur[fa.Field] = name

	default:
		fail("instruction %T: %s", in, in)
	}
}

func intSuffixOrEmpty(t types.Type) string {
	if !isIntType(t) {
		return ""
	}
	return intSuffix(t)
}

func (c *fnCtx) emitCall(v *ssa.Call, ind int) {
	if v.Call.IsInvoke() {
		fail("interface method call %s", v)
	}
	if b, ok := v.Call.Value.(*ssa.Builtin); ok {
		if b.Name() == "len" && len(v.Call.Args) == 1 {
			a := v.Call.Args[0]
			_, isSlice := a.Type().Underlying().(*types.Slice)
			if isSlice || isString(a.Type()) {
				leanType(a.Type())
				c.let(ind, v, fmt.Sprintf("GoSem.len %s", c.operand(a)))
				return
			}
		}
		fail("builtin %s", v)
	}
	callee := v.Call.StaticCallee()
	if callee == nil {
		fail("dynamic call %s", v)
	}
	if callee.Pkg != nil && callee.Pkg.Pkg.Path() == "math/bits" && callee.Signature.Recv() == nil {
		if fn, ok := mathBits[callee.Name()]; ok && len(v.Call.Args) == 1 && isUnsigned(v.Call.Args[0].Type()) {
			c.let(ind, v, fmt.Sprintf("GoSem.%s %s", fn, c.operand(v.Call.Args[0])))
			return
		}
		fail("math/bits.%s", callee.Name())
	}
	if tname, ok := c.tr.byFunc[callee]; ok && callee.Signature.Recv() == nil {
		var args []string
		for _, a := range v.Call.Args {
			leanType(a.Type())
			args = append(args, c.operand(a))
		}
		c.imports[leanNameOf(tname)] = true
		expr := leanNameOf(tname) + " " + strings.Join(args, " ")
		if c.tr.canPanic(callee) {
			c.bind(ind, v, leanType(v.Type()), expr)
		} else {
			c.let(ind, v, expr)
		}
		return
	}
	fail("call of %s (not in the target list)", callee)
}
