#!/usr/bin/env python3
"""Evidence that the regenerated tie bites.

For each seeded edit of a target function this script
  1. copies the repo to a scratch directory under /tmp (never touches the repo itself),
  2. applies the edit to the copy,
  3. runs ssa2lean on the copy into a scratch output directory,
  4. inlines the regenerated definition textually into a scratch copy of the hand-written tie file
     (`import Generated.Ssa.<f>` is replaced by the text of the regenerated file) and checks the result with
     `lake env lean` (run in the lean project, which only has to have LowModel / LowProofs.Tie.* built).

Expectations
  break    a semantic mutation: the tie theorem must NO LONGER compile, while the regenerated definition on
           its own is still valid Lean (so it is the proof that rejects the change, not a translator accident)
  survive  a rewrite that leaves the SSA unchanged: the tie must still compile
  report   a harmless (semantics-preserving) rewrite: the outcome is only reported.  A tie that breaks here is a
           false alarm that costs a proof repair, never an unsound acceptance.
  unsupported / nobuild   the translator must refuse (exit 2 with an `_UNSUPPORTED` file / exit 1)
The unmodified copy is checked first (baseline: every tie must compile against a fresh translation).

usage: selftest.py [--repo /repo] [--lean /verif/lean] [--bin bin/ssa2lean] [--json out.json] [--keep] [-j N] [-v]
exit status 0 iff every break/survive/unsupported/nobuild expectation holds and the baseline passes.
"""
import argparse, concurrent.futures, json, os, re, shutil, subprocess, sys, tempfile, time

HERE = os.path.dirname(os.path.abspath(__file__))
ENV = dict(os.environ, GOFLAGS="-mod=mod", GOPROXY="off", GOSUMDB="off", GOTOOLCHAIN="local")


def edit_in_func(path, func_anchor, old, new):
    """replace the first occurrence of `old` after `func_anchor` (the function's `func …(` text)"""
    s = open(path).read()
    i = s.find(func_anchor)
    if i < 0:
        raise SystemExit("selftest: anchor not found in %s: %r" % (path, func_anchor))
    j = s.find(old, i)
    if j < 0:
        raise SystemExit("selftest: text not found after %r in %s: %r" % (func_anchor, path, old))
    open(path, "w").write(s[:j] + new + s[j + len(old):])


# (name, expectation, target, file, func anchor, old, new)
CASES = [
    # ---- semantic mutations: the tie must break -------------------------------------------------------------
    ("Rank64: i>>6 -> i>>7", "break", "bitmap.Rank64", "bitmap/rank.go", "func Rank64(",
     "wordI := i >> 6", "wordI := i >> 7"),
    ("Rank128: (i+64)>>7 -> (i+63)>>7", "break", "bitmap.Rank128", "bitmap/rank.go", "func Rank128(",
     "rindex[(i+64)>>7]", "rindex[(i+63)>>7]"),
    ("Getw: Mask[w] -> Mask[w&63]", "break", "bitmap.Getw", "bitmap/get.go", "func Getw(",
     "& Mask[w]", "& Mask[w&63]"),
    ("SafeGet: wordI < 0 test removed", "break", "bitmap.SafeGet", "bitmap/get.go", "func SafeGet(",
     "if wordI < 0 || wordI >= int32(len(bm)) {", "if wordI >= int32(len(bm)) {"),
    ("FromStr32: 40-spanSize -> 39-spanSize", "break", "bitmap.FromStr32", "bitmap/fromstr32.go", "func FromStr32(",
     "uint(40-spanSize)", "uint(39-spanSize)"),
    ("NewPath: height-length -> height-length+1", "break", "bmtree.NewPath", "bmtree/newpath.go", "func NewPath(",
     "uint(height-length)", "uint(height-length+1)"),
    ("PathHeight: 32 - -> 31 -", "break", "bmtree.PathHeight", "bmtree/pathheight.go", "func PathHeight(",
     "int32(32 - bits", "int32(31 - bits"),
    ("bitstr.Len: - 16 -> - 8", "break", "bitstr.Len", "bitstr/bitstr.go", "func Len(",
     "<<3 - 16 +", "<<3 - 8 +"),
    ("Get: i&63 -> i&31", "break", "bitmap.Get", "bitmap/get.go", "func Get(",
     "Bit[i&63]", "Bit[i&31]"),
    ("Get1: & 1 -> & 3", "break", "bitmap.Get1", "bitmap/get.go", "func Get1(",
     "uint(i&63)) & 1", "uint(i&63)) & 3"),
    ("SafeGet1: wordI >= len -> wordI > len", "break", "bitmap.SafeGet1", "bitmap/get.go", "func SafeGet1(",
     "wordI >= int32(len(bm))", "wordI > int32(len(bm))"),
    ("Rank64: Mask[j] -> MaskUpto[j]", "break", "bitmap.Rank64", "bitmap/rank.go", "func Rank64(",
     "w&Mask[j]", "w&MaskUpto[j]"),
    ("Rank128: n - atRight*cnt1 -> n + atRight*cnt1", "break", "bitmap.Rank128", "bitmap/rank.go", "func Rank128(",
     "n - atRight*cnt1 +", "n + atRight*cnt1 +"),
    ("FromStr32: second byte shift 24 -> 25", "break", "bitmap.FromStr32", "bitmap/fromstr32.go", "func FromStr32(",
     "uint64(s[i]) << 24", "uint64(s[i]) << 25"),
    ("FromStr32: blen <= 0 -> blen < 0", "break", "bitmap.FromStr32", "bitmap/fromstr32.go", "func FromStr32(",
     "if blen <= 0 {", "if blen < 0 {"),
    ("Height: 31 - -> 30 -", "break", "bmtree.Height", "bmtree/height.go", "func Height(",
     "int32(31 - bits", "int32(30 - bits"),
    ("PathLen: uint32(p) -> uint32(p>>1)", "break", "bmtree.PathLen", "bmtree/pathlen.go", "func PathLen(",
     "uint32(p)", "uint32(p>>1)"),
    ("PathBits: >> 32 -> >> 31", "break", "bmtree.PathBits", "bmtree/pathbits.go", "func PathBits(",
     "path >> 32", "path >> 31"),
    ("PathMask: 0xffffffff -> 0x7fffffff", "break", "bmtree.PathMask", "bmtree/pathbits.go", "func PathMask(",
     "path & 0xffffffff", "path & 0x7fffffff"),
    ("PathOf: frombit+height -> frombit+height+1", "break", "bmtree.PathOf", "bmtree/newpath.go", "func PathOf(",
     "frombit, frombit+height)", "frombit, frombit+height+1)"),
    ("Seek: offset < s.base -> offset <= s.base", "break", "iohelper.SectionWriter.Seek", "iohelper/iohelper.go",
     ") Seek(", "if offset < s.base {", "if offset <= s.base {"),
    ("Seek: SeekCurrent adds s.limit", "break", "iohelper.SectionWriter.Seek", "iohelper/iohelper.go",
     ") Seek(", "offset += s.off", "offset += s.limit"),
    ("Seek: forgets to store s.off", "break", "iohelper.SectionWriter.Seek", "iohelper/iohelper.go",
     ") Seek(", "\ts.off = offset\n", ""),
    ("Size: limit-base -> limit-off", "break", "iohelper.SectionWriter.Size", "iohelper/iohelper.go",
     ") Size(", "return s.limit - s.base", "return s.limit - s.off"),
    # ---- rewrites that do not change the SSA: the tie must survive ------------------------------------------
    ("Rank64: local wordI renamed to wi", "survive", "bitmap.Rank64", "bitmap/rank.go", "func Rank64(",
     "wordI := i >> 6\n\tj := uint32(i & 63)\n\n\tn := rindex[wordI]\n\tw := words[wordI]",
     "wi := i >> 6\n\tj := uint32(i & 63)\n\n\tn := rindex[wi]\n\tw := words[wi]"),
    ("FromStr32: comment and blank lines added", "survive", "bitmap.FromStr32", "bitmap/fromstr32.go", "func FromStr32(",
     "\tsize := tobit - frombit\n", "\t// width requested\n\n\tsize := tobit - frombit\n"),
    # ---- harmless rewrites that change the SSA: outcome reported --------------------------------------------
    ("Rank128: statements `j :=` and `atRight :=` swapped", "report", "bitmap.Rank128", "bitmap/rank.go", "func Rank128(",
     "\tj := uint32(i & 63)\n\tatRight := wordI & 1\n", "\tatRight := wordI & 1\n\tj := uint32(i & 63)\n"),
    ("SafeGet: `bitI :=` moved below the bounds test", "report", "bitmap.SafeGet", "bitmap/get.go", "func SafeGet(",
     "\tbitI := i & 63\n\tif wordI < 0 || wordI >= int32(len(bm)) {\n\t\treturn 0\n\t}\n",
     "\tif wordI < 0 || wordI >= int32(len(bm)) {\n\t\treturn 0\n\t}\n\tbitI := i & 63\n"),
    ("FromStr32: `l :=` and `toByte :=` swapped", "report", "bitmap.FromStr32", "bitmap/fromstr32.go", "func FromStr32(",
     "\tl := int32(len(s))\n\ttoByte := (tobit + 7) >> 3\n", "\ttoByte := (tobit + 7) >> 3\n\tl := int32(len(s))\n"),
    ("Rank64: reads of rindex and words swapped", "report", "bitmap.Rank64", "bitmap/rank.go", "func Rank64(",
     "\tn := rindex[wordI]\n\tw := words[wordI]\n", "\tw := words[wordI]\n\tn := rindex[wordI]\n"),
    ("Get: operands of & commuted", "report", "bitmap.Get", "bitmap/get.go", "func Get(",
     "(bm[i>>6] & Bit[i&63])", "(Bit[i&63] & bm[i>>6])"),
    ("Seek: switch cases SeekStart and SeekEnd reordered", "report", "iohelper.SectionWriter.Seek", "iohelper/iohelper.go",
     ") Seek(",
     "\tcase io.SeekStart:\n\t\toffset += s.base\n\tcase io.SeekCurrent:\n\t\toffset += s.off\n\tcase io.SeekEnd:\n\t\toffset += s.limit\n",
     "\tcase io.SeekEnd:\n\t\toffset += s.limit\n\tcase io.SeekCurrent:\n\t\toffset += s.off\n\tcase io.SeekStart:\n\t\toffset += s.base\n"),
    # ---- outside the supported subset: the translator must refuse -------------------------------------------
    ("Get: a loop is introduced", "unsupported", "bitmap.Get", "bitmap/get.go", "func Get(",
     "\treturn (bm[i>>6] & Bit[i&63])", "\tfor i > 1<<20 {\n\t\ti -= 1 << 20\n\t}\n\treturn (bm[i>>6] & Bit[i&63])"),
    ("PathLen: calls math/bits.Reverse32 (no GoSem counterpart)", "unsupported", "bmtree.PathLen", "bmtree/pathlen.go",
     "func PathLen(", "bits.OnesCount32(uint32(p))", "bits.OnesCount32(bits.Reverse32(uint32(p)))"),
    ("PathOf: calls PathsOf-style helper outside the target list", "unsupported", "bmtree.PathOf", "bmtree/newpath.go",
     "func PathOf(", "return NewPath(path, plen, height)", "return NewPath(path, plen, height) | PathsOf(nil, 0, 0, false)[0]"),
    ("Get1: signed shift count", "unsupported", "bitmap.Get1", "bitmap/get.go", "func Get1(",
     ">> uint(i&63)) & 1", ">> (i & 63)) & 1"),
    ("bitmap does not compile", "nobuild", "bitmap.Get", "bitmap/get.go", "func Get(",
     "\treturn (bm[i>>6] & Bit[i&63])", "\treturn (bm[i>>6] & Bit[i&63]) +"),
]


def lean_name(target):
    return target.replace(".", "_")


IMPORT_RE = re.compile(r"^import\s+(\S+)\s*$", re.M)


def inline(gen_text, tie_text, lname):
    """one self-contained Lean file: the imports of both, then the generated text, then the tie text"""
    imports = []
    for m in IMPORT_RE.finditer(gen_text):
        imports.append(m.group(1))
    for m in IMPORT_RE.finditer(tie_text):
        if m.group(1) != "Generated.Ssa." + lname:
            imports.append(m.group(1))
    seen, imps = set(), []
    for i in imports:
        if i not in seen:
            seen.add(i)
            imps.append(i)
    body_gen = IMPORT_RE.sub("", gen_text)
    body_tie = IMPORT_RE.sub("", tie_text)
    # drop the one-line non-vacuity examples: they evaluate the generated definition on concrete inputs and would
    # fail on a mutant by themselves; the verdict must rest on the tie THEOREM alone
    body_tie = "\n".join(l for l in body_tie.split("\n") if not l.startswith("example "))
    return "".join("import %s\n" % i for i in imps) + body_gen + "\n" + body_tie


def lean_check(lean_dir, path):
    r = subprocess.run(["lake", "env", "lean", path], cwd=lean_dir, capture_output=True, text=True)
    errs = [l for l in (r.stdout + r.stderr).splitlines() if ": error" in l or "error:" in l]
    return r.returncode == 0 and not errs, errs


def run_case(args, scratch, idx, case):
    name, expect, target, relfile, anchor, old, new = case
    lname = lean_name(target)
    d = os.path.join(scratch, "case%02d" % idx)
    repo = os.path.join(d, "repo")
    out = os.path.join(d, "out")
    shutil.copytree(args.repo, repo, ignore=shutil.ignore_patterns(".git"))
    os.makedirs(out)
    if old is not None:
        edit_in_func(os.path.join(repo, relfile), anchor, old, new)
    t0 = time.time()
    r = subprocess.run([args.bin, "-q", "-repo", repo, "-outdir", out, "-only", target],
                       capture_output=True, text=True, env=ENV)
    res = {"case": name, "expect": expect, "target": target, "ssa2lean_exit": r.returncode,
           "ssa2lean_seconds": round(time.time() - t0, 2)}
    genfile = os.path.join(out, lname + ".lean")
    if expect == "nobuild":
        res["ok"] = r.returncode == 1 and "does not build" in r.stderr and not os.path.exists(genfile)
        res["outcome"] = "translator refused: source does not build" if res["ok"] else "UNEXPECTED: " + r.stderr[-300:]
        return res
    if not os.path.exists(genfile):
        res["ok"] = False
        res["outcome"] = "UNEXPECTED: no generated file; " + r.stderr[-300:]
        return res
    gen_text = open(genfile).read()
    tie_text = open(os.path.join(args.lean, "LowProofs", "Tie", lname + ".lean")).read()
    unsupported = (lname + "_UNSUPPORTED") in gen_text
    gen_only = os.path.join(d, "GenOnly.lean")
    open(gen_only, "w").write(gen_text)
    gen_ok, gen_errs = lean_check(args.lean, gen_only)
    scratch_tie = os.path.join(d, "Tie.lean")
    open(scratch_tie, "w").write(inline(gen_text, tie_text, lname))
    tie_ok, tie_errs = lean_check(args.lean, scratch_tie)
    res.update({"generated_compiles": gen_ok, "tie_compiles": tie_ok, "unsupported": unsupported,
                "first_error": (tie_errs[0][:200] if tie_errs else "")})
    if unsupported:
        m = re.search(r'_UNSUPPORTED : String := "(.*)"', gen_text)
        res["unsupported_reason"] = m.group(1) if m else "?"
    if expect == "baseline" or expect == "survive":
        res["ok"] = r.returncode == 0 and gen_ok and tie_ok
        res["outcome"] = "tie compiles" if res["ok"] else "UNEXPECTED: tie does not compile"
    elif expect == "break":
        res["ok"] = r.returncode == 0 and gen_ok and not unsupported and not tie_ok
        res["outcome"] = "tie broken (definition regenerated, proof rejected)" if res["ok"] else \
            ("UNEXPECTED: tie still compiles" if tie_ok else "UNEXPECTED: see fields")
    elif expect == "unsupported":
        res["ok"] = r.returncode == 2 and unsupported and gen_ok and not tie_ok
        res["outcome"] = "translator refused, tie broken" if res["ok"] else "UNEXPECTED: see fields"
    elif expect == "report":
        res["ok"] = r.returncode == 0 and gen_ok  # the outcome itself is informational
        res["outcome"] = "tie SURVIVES the harmless rewrite" if tie_ok else \
            "tie BREAKS on the harmless rewrite (false alarm: proof needs repair)"
    return res


def main():
    ap = argparse.ArgumentParser()
    ap.add_argument("--repo", default="/repo")
    ap.add_argument("--lean", default="/verif/lean")
    ap.add_argument("--bin", default=os.path.join(HERE, "bin", "ssa2lean"))
    ap.add_argument("--json", default="")
    ap.add_argument("--keep", action="store_true", help="keep the scratch directory")
    ap.add_argument("-j", type=int, default=8)
    ap.add_argument("-v", action="store_true")
    args = ap.parse_args()
    args.repo = os.path.abspath(args.repo)

    r = subprocess.run(["go", "build", "-o", args.bin, "."], cwd=HERE, env=ENV, capture_output=True, text=True)
    if r.returncode != 0:
        raise SystemExit("selftest: cannot build ssa2lean:\n" + r.stderr)

    # the scratch ties import already-built modules: make sure they are built (through the project lock)
    tie_dir = os.path.join(args.lean, "LowProofs", "Tie")
    mods = set()
    for f in sorted(os.listdir(tie_dir)):
        if f.endswith(".lean"):
            for m in IMPORT_RE.finditer(open(os.path.join(tie_dir, f)).read()):
                mods.add(m.group(1))
    lock = os.path.join(os.path.dirname(args.lean), "work", ".lake.lock")
    cmd = ["lake", "build"] + sorted(mods)
    if os.path.exists(os.path.dirname(lock)):
        cmd = ["flock", lock] + cmd
    r = subprocess.run(cmd, cwd=args.lean, capture_output=True, text=True)
    if r.returncode != 0:
        raise SystemExit("selftest: lake build of the imported modules failed:\n" + (r.stdout + r.stderr)[-2000:])

    targets = []
    for c in CASES:
        if c[2] not in targets:
            targets.append(c[2])
    cases = [("baseline " + t, "baseline", t, None, None, None, None) for t in targets] + CASES

    scratch = tempfile.mkdtemp(prefix="ssa2lean-selftest-", dir="/tmp")
    results = []
    try:
        with concurrent.futures.ThreadPoolExecutor(max_workers=max(1, args.j)) as ex:
            futs = [ex.submit(run_case, args, scratch, i, c) for i, c in enumerate(cases)]
            for f in futs:
                results.append(f.result())
    finally:
        if args.keep:
            print("scratch kept:", scratch)
        else:
            shutil.rmtree(scratch, ignore_errors=True)

    bad = 0
    for r in results:
        flag = "ok  " if r["ok"] else "FAIL"
        if not r["ok"]:
            bad += 1
        print("%s [%-11s] %-58s %s" % (flag, r["expect"], r["case"], r["outcome"]))
        if args.v or not r["ok"]:
            for k in ("ssa2lean_exit", "generated_compiles", "tie_compiles", "unsupported_reason", "first_error"):
                if k in r and r[k] not in ("", None):
                    print("       %s: %s" % (k, r[k]))
    n = lambda e: sum(1 for r in results if r["expect"] == e)
    nb = sum(1 for r in results if r["expect"] == "break" and r["ok"])
    rep = [r for r in results if r["expect"] == "report"]
    print("summary: baseline %d, semantic mutations rejected %d/%d, SSA-neutral rewrites accepted %d/%d, "
          "harmless SSA-changing rewrites: %d survive / %d break, translator refusals %d/%d" % (
              n("baseline"), nb, n("break"),
              sum(1 for r in results if r["expect"] == "survive" and r["ok"]), n("survive"),
              sum(1 for r in rep if r.get("tie_compiles")), sum(1 for r in rep if not r.get("tie_compiles")),
              sum(1 for r in results if r["expect"] in ("unsupported", "nobuild") and r["ok"]),
              n("unsupported") + n("nobuild")))
    if args.json:
        json.dump(results, open(args.json, "w"), indent=1)
    sys.exit(1 if bad else 0)


if __name__ == "__main__":
    main()
