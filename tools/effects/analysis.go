package main

import (
	"fmt"
	"go/token"
	"go/types"
	"path/filepath"
	"sort"
	"strings"

	"golang.org/x/tools/go/ssa"
)

// Root says who owns a piece of written memory.  The order is the "worst of"
// order used when several origins are possible.
type Root int

const (
	Owned Root = iota
	Param
	Global
	Unknown
)

func (r Root) String() string {
	switch r {
	case Owned:
		return "owned"
	case Param:
		return "param"
	case Global:
		return "global"
	}
	return "unknown"
}

// Record is one memory write or one impure operation.
type Record struct {
	Fn       string `json:"fn"`
	Pos      string `json:"pos"` // base file name ":" line
	Kind     string `json:"kind"`
	Root     string `json:"root"` // owned/param/global/unknown, "-" for calls
	Callee   string `json:"callee,omitempty"`
	InitOnly bool   `json:"initOnly"`
	Instr    string `json:"instr,omitempty"` // SSA text, debugging only

	file string
	line int
}

func (r *Record) isWrite() bool { return r.Root != "-" }

type freshKey struct {
	fn  *ssa.Function
	idx int
}

type Analyzer struct {
	prog    *ssa.Program
	fset    *token.FileSet
	targets []*ssa.Package
	inTgt   map[*ssa.Package]bool

	allFns   []*ssa.Function        // every source function of the five packages (+ synthetic init)
	inAll    map[*ssa.Function]bool //
	analysed map[*ssa.Function]bool // the ANALYSED set
	stateful map[*ssa.Function]bool // excluded: *Builder / *TailBitmap methods and constructors
	exclFile map[*ssa.Function]bool // excluded: _test.go / verif_hooks.go
	noBody   map[*ssa.Function]bool // declared without a body (assembly, linkname)

	makeClosures map[*ssa.Function][]*ssa.MakeClosure // closure -> creating instructions
	initOnly     map[*ssa.Function]bool

	fresh map[freshKey]Root // result of analysed function at index: worst root of what it returns
	sites map[ssa.Value]*siteInfo

	records []*Record
}

func newAnalyzer(prog *ssa.Program, targets []*ssa.Package) *Analyzer {
	a := &Analyzer{
		prog:         prog,
		fset:         prog.Fset,
		targets:      targets,
		inTgt:        map[*ssa.Package]bool{},
		inAll:        map[*ssa.Function]bool{},
		analysed:     map[*ssa.Function]bool{},
		stateful:     map[*ssa.Function]bool{},
		exclFile:     map[*ssa.Function]bool{},
		noBody:       map[*ssa.Function]bool{},
		makeClosures: map[*ssa.Function][]*ssa.MakeClosure{},
		initOnly:     map[*ssa.Function]bool{},
		fresh:        map[freshKey]Root{},
		sites:        map[ssa.Value]*siteInfo{},
	}
	for _, p := range targets {
		a.inTgt[p] = true
	}
	return a
}

func (a *Analyzer) run() {
	a.enumerate()
	a.classifyFunctions()
	a.indexClosures()
	a.computeInitOnly()
	a.computeFresh()
	a.collectEffects()
}

// ---------------------------------------------------------------------------
// function enumeration and exclusion

func (a *Analyzer) addFn(fn *ssa.Function) {
	if fn == nil || a.inAll[fn] {
		return
	}
	a.inAll[fn] = true
	a.allFns = append(a.allFns, fn)
	for _, anon := range fn.AnonFuncs {
		a.addFn(anon)
	}
}

func (a *Analyzer) enumerate() {
	for _, p := range a.targets {
		names := make([]string, 0, len(p.Members))
		for n := range p.Members {
			names = append(names, n)
		}
		sort.Strings(names)
		for _, n := range names {
			switch m := p.Members[n].(type) {
			case *ssa.Function:
				a.addFn(m)
			case *ssa.Type:
				named, ok := m.Type().(*types.Named)
				if !ok {
					continue
				}
				for i := 0; i < named.NumMethods(); i++ {
					// declared methods only; abstract (interface) methods have no ssa.Function
					a.addFn(a.prog.FuncValue(named.Method(i)))
				}
			}
		}
	}
	sort.Slice(a.allFns, func(i, j int) bool { return a.allFns[i].String() < a.allFns[j].String() })
}

func outermost(fn *ssa.Function) *ssa.Function {
	for fn.Parent() != nil {
		fn = fn.Parent()
	}
	return fn
}

func (a *Analyzer) isInit(fn *ssa.Function) bool {
	if fn.Parent() != nil || fn.Signature.Recv() != nil || fn.Pkg == nil {
		return false
	}
	if fn.Pkg.Func("init") == fn {
		return true // synthetic package initializer
	}
	return strings.HasPrefix(fn.Name(), "init#") // declared func init()
}

// isStateful implements exclusion (a): methods on *bitmap.Builder and
// *bitmap.TailBitmap, and their constructors (with nested closures).
func isStateful(fn *ssa.Function) bool {
	fn = outermost(fn)
	if fn.Pkg == nil || fn.Pkg.Pkg.Path() != modulePath+"/bitmap" {
		return false
	}
	if recv := fn.Signature.Recv(); recv != nil {
		ptr, ok := recv.Type().(*types.Pointer)
		if !ok {
			return false
		}
		named, ok := ptr.Elem().(*types.Named)
		if !ok {
			return false
		}
		n := named.Obj().Name()
		return n == "Builder" || n == "TailBitmap"
	}
	return fn.Name() == "NewBuilder" || fn.Name() == "NewTailBitmap"
}

func (a *Analyzer) fileOf(fn *ssa.Function) string {
	for f := fn; f != nil; f = f.Parent() {
		if f.Pos().IsValid() {
			return a.fset.Position(f.Pos()).Filename
		}
	}
	return ""
}

func (a *Analyzer) classifyFunctions() {
	for _, fn := range a.allFns {
		file := filepath.Base(a.fileOf(fn))
		switch {
		case strings.HasSuffix(file, "_test.go") || strings.HasSuffix(file, "verif_hooks.go"):
			a.exclFile[fn] = true
		case isStateful(fn):
			a.stateful[fn] = true
		case len(fn.Blocks) == 0:
			// No Go body (assembly / linkname).  It cannot be analysed, so it
			// is NOT in the analysed set and calls to it are reported.
			a.noBody[fn] = true
		default:
			a.analysed[fn] = true
		}
	}
}

func (a *Analyzer) indexClosures() {
	for _, fn := range a.allFns {
		for _, b := range fn.Blocks {
			for _, ins := range b.Instrs {
				if mc, ok := ins.(*ssa.MakeClosure); ok {
					if c, ok := mc.Fn.(*ssa.Function); ok {
						a.makeClosures[c] = append(a.makeClosures[c], mc)
					}
				}
			}
		}
	}
}

// canon maps an instantiation of a generic function to its generic origin.
func canon(fn *ssa.Function) *ssa.Function {
	if fn != nil && fn.Origin() != nil {
		return fn.Origin()
	}
	return fn
}

// ---------------------------------------------------------------------------
// initOnly

// computeInitOnly marks the functions that can run only during package
// initialisation: the init functions themselves and whatever is reachable in
// the static call graph from them but NOT from any "root".  Roots are all
// functions that something other than init could invoke: exported functions,
// all methods, functions that are excluded from the analysis (they are still
// callers), functions whose value is taken, and closures whose value escapes.
func (a *Analyzer) computeInitOnly() {
	edges := map[*ssa.Function][]*ssa.Function{}
	addrTaken := map[*ssa.Function]bool{}

	for _, fn := range a.allFns {
		for _, b := range fn.Blocks {
			for _, ins := range b.Instrs {
				var calleePtr *ssa.Value
				if ci, ok := ins.(ssa.CallInstruction); ok && !ci.Common().IsInvoke() {
					calleePtr = &ci.Common().Value
				}
				mc, isMC := ins.(*ssa.MakeClosure)
				for _, op := range ins.Operands(nil) {
					g, ok := (*op).(*ssa.Function)
					if !ok {
						continue
					}
					g = canon(g)
					if !a.inAll[g] {
						continue
					}
					switch {
					case op == calleePtr:
						edges[fn] = append(edges[fn], g)
					case isMC && op == &mc.Fn:
						edges[fn] = append(edges[fn], g)
						if closureEscapes(mc) {
							addrTaken[g] = true
						}
					default:
						addrTaken[g] = true
					}
				}
			}
		}
	}

	reach := func(seeds []*ssa.Function) map[*ssa.Function]bool {
		seen := map[*ssa.Function]bool{}
		work := append([]*ssa.Function(nil), seeds...)
		for len(work) > 0 {
			f := work[len(work)-1]
			work = work[:len(work)-1]
			if seen[f] {
				continue
			}
			seen[f] = true
			work = append(work, edges[f]...)
		}
		return seen
	}

	var inits, roots []*ssa.Function
	for _, fn := range a.allFns {
		if a.isInit(fn) {
			inits = append(inits, fn)
			continue
		}
		top := fn.Parent() == nil
		switch {
		case top && fn.Signature.Recv() != nil,
			top && token.IsExported(fn.Name()),
			!a.analysed[fn],
			addrTaken[fn]:
			roots = append(roots, fn)
		}
	}
	fromInit := reach(inits)
	fromRoot := reach(roots)
	for _, fn := range a.allFns {
		a.initOnly[fn] = fromInit[fn] && !fromRoot[fn]
	}
}

// closureEscapes reports whether the closure value is used for anything but
// being called directly.
func closureEscapes(mc *ssa.MakeClosure) bool {
	refs := mc.Referrers()
	if refs == nil {
		return true
	}
	for _, r := range *refs {
		ci, ok := r.(*ssa.Call) // go/defer of a closure: treated as escaping
		if !ok || ci.Call.IsInvoke() || ci.Call.Value != ssa.Value(mc) {
			return true
		}
		for _, arg := range ci.Call.Args {
			if arg == ssa.Value(mc) {
				return true
			}
		}
	}
	return false
}

// ---------------------------------------------------------------------------
// effects

func (a *Analyzer) sortedAnalysed() []*ssa.Function {
	var fns []*ssa.Function
	for _, fn := range a.allFns {
		if a.analysed[fn] {
			fns = append(fns, fn)
		}
	}
	return fns
}

func (a *Analyzer) collectEffects() {
	for _, fn := range a.sortedAnalysed() {
		for _, b := range fn.Blocks {
			for _, ins := range b.Instrs {
				a.instrEffects(fn, ins)
			}
		}
	}
	sort.SliceStable(a.records, func(i, j int) bool {
		x, y := a.records[i], a.records[j]
		if x.Fn != y.Fn {
			return x.Fn < y.Fn
		}
		if x.file != y.file {
			return x.file < y.file
		}
		if x.line != y.line {
			return x.line < y.line
		}
		if x.Kind != y.Kind {
			return x.Kind < y.Kind
		}
		if x.Root != y.Root {
			return x.Root < y.Root
		}
		if x.Callee != y.Callee {
			return x.Callee < y.Callee
		}
		return x.Instr < y.Instr
	})
}

func (a *Analyzer) emit(fn *ssa.Function, ins ssa.Instruction, kind, root, callee string) {
	file, line := a.posOf(fn, ins)
	a.records = append(a.records, &Record{
		Fn:       fn.String(),
		Pos:      fmt.Sprintf("%s:%d", file, line),
		Kind:     kind,
		Root:     root,
		Callee:   callee,
		InitOnly: a.initOnly[fn],
		Instr:    ins.String(),
		file:     file,
		line:     line,
	})
}

func (a *Analyzer) emitWrite(fn *ssa.Function, ins ssa.Instruction, kind string, target ssa.Value) {
	a.emit(fn, ins, kind, a.rootOf(target).String(), "")
}

func (a *Analyzer) instrEffects(fn *ssa.Function, ins ssa.Instruction) {
	switch ins := ins.(type) {
	case *ssa.Store:
		if a.isLocalCell(ins.Addr, 0) {
			return // assignment to a local variable (possibly a captured one)
		}
		a.emitWrite(fn, ins, "store", ins.Addr)
	case *ssa.MapUpdate:
		a.emitWrite(fn, ins, "mapupdate", ins.Map)
	case *ssa.Send:
		a.emit(fn, ins, "send", "-", "send")
	case *ssa.Select:
		a.emit(fn, ins, "select", "-", "select")
	case *ssa.UnOp:
		if ins.Op == token.ARROW {
			a.emit(fn, ins, "recv", "-", "recv")
		}
	case *ssa.Range:
		if _, ok := ins.X.Type().Underlying().(*types.Map); ok {
			a.emit(fn, ins, "maprange", "-", "maprange") // iteration order is random
		}
	case *ssa.Go:
		a.emit(fn, ins, "go", "-", "go")
		a.callEffects(fn, ins)
	case *ssa.Defer:
		a.emit(fn, ins, "defer", "-", "defer")
		a.callEffects(fn, ins)
	case *ssa.Call:
		a.callEffects(fn, ins)
	}
}

// builtins that neither write caller-visible memory nor observe global state.
var silentBuiltins = map[string]bool{
	"len": true, "cap": true, "make": true, "new": true, "panic": true,
	"print": true, "min": true, "max": true,
	"ssa:wrapnilchk": true, // synthetic nil check inserted by go/ssa; returns its argument
}

func (a *Analyzer) callEffects(fn *ssa.Function, ins ssa.CallInstruction) {
	c := ins.Common()
	if c.IsInvoke() {
		a.emit(fn, ins, "dyncall", "-", "dyn:invoke "+relType(c.Value.Type())+"."+c.Method.Name())
		return
	}
	if b, ok := c.Value.(*ssa.Builtin); ok {
		name := b.Name()
		switch {
		case name == "copy":
			a.emitWrite(fn, ins, "copy", c.Args[0])
		case name == "append":
			a.emitWrite(fn, ins, "append", c.Args[0])
		case name == "delete" || name == "clear":
			a.emitWrite(fn, ins, "builtin:"+name, c.Args[0])
		case silentBuiltins[name]:
		default:
			a.emit(fn, ins, "builtin:"+name, "-", "builtin:"+name)
		}
		return
	}
	if callee := c.StaticCallee(); callee != nil {
		if a.analysed[canon(callee)] {
			return
		}
		a.emit(fn, ins, "call", "-", callee.String())
		return
	}
	// function value
	if fns, ok := a.resolveFuncValue(c.Value); ok {
		allAnalysed := true
		for _, f := range fns {
			if !a.analysed[canon(f)] {
				allAnalysed = false
			}
		}
		if allAnalysed {
			return // e.g. a local recursive closure: var dfs func(); dfs = func(){... dfs() ...}
		}
	}
	a.emit(fn, ins, "dyncall", "-", "dyn:"+describeFuncValue(c.Value))
}

func relType(t types.Type) string {
	return types.TypeString(t, func(p *types.Package) string { return p.Path() })
}

func describeFuncValue(v ssa.Value) string {
	src := "value"
	switch x := v.(type) {
	case *ssa.Parameter:
		src = "param " + x.Name()
	case *ssa.FreeVar:
		src = "freevar " + x.Name()
	case *ssa.UnOp:
		if x.Op == token.MUL {
			switch y := x.X.(type) {
			case *ssa.Global:
				src = "global " + y.String()
			case *ssa.FreeVar:
				src = "captured " + y.Name()
			case *ssa.Alloc:
				src = "local " + y.Comment
			case *ssa.FieldAddr:
				src = "field " + fieldName(y.X.Type(), y.Field)
			case *ssa.IndexAddr:
				src = "element"
			}
		}
	case *ssa.Field:
		src = "field " + fieldName(x.X.Type(), x.Field)
	case *ssa.Call:
		src = "call result"
	case *ssa.Extract:
		src = "call result"
	case *ssa.Lookup:
		src = "map element"
	}
	return src + " " + relType(v.Type())
}

func fieldName(t types.Type, i int) string {
	if p, ok := t.Underlying().(*types.Pointer); ok {
		t = p.Elem()
	}
	if s, ok := t.Underlying().(*types.Struct); ok && i < s.NumFields() {
		return s.Field(i).Name()
	}
	return fmt.Sprintf("#%d", i)
}

// posOf returns base file name and line of an instruction, falling back to the
// nearest positioned instruction / the function if the instruction has none.
func (a *Analyzer) posOf(fn *ssa.Function, ins ssa.Instruction) (string, int) {
	p := ins.Pos()
	if !p.IsValid() {
		if st, ok := ins.(*ssa.Store); ok {
			for _, v := range []ssa.Value{st.Addr, st.Val} {
				if v.Pos().IsValid() {
					p = v.Pos()
					break
				}
			}
		}
	}
	if !p.IsValid() {
		if b := ins.Block(); b != nil {
			idx := -1
			for i, x := range b.Instrs {
				if x == ins {
					idx = i
					break
				}
			}
			for i := idx - 1; i >= 0 && !p.IsValid(); i-- {
				p = b.Instrs[i].Pos()
			}
			for i := idx + 1; i < len(b.Instrs) && !p.IsValid(); i++ {
				p = b.Instrs[i].Pos()
			}
		}
	}
	for f := fn; f != nil && !p.IsValid(); f = f.Parent() {
		p = f.Pos()
	}
	if !p.IsValid() {
		name := "?"
		if fn.Pkg != nil {
			name = fn.Pkg.Pkg.Name()
		}
		return name + ".<init>", 0
	}
	pos := a.fset.Position(p)
	return filepath.Base(pos.Filename), pos.Line
}

// globalRefs lists, for every package-level variable of the five packages (and
// any other global they mention), which of their functions mention it and in
// which capacity.  Purely syntactic; JSON output only.
func (a *Analyzer) globalRefs() map[string][]string {
	set := map[string]map[string]bool{}
	for _, fn := range a.allFns {
		cat := "query"
		switch {
		case a.stateful[fn]:
			cat = "stateful"
		case a.exclFile[fn]:
			cat = "hook"
		case a.noBody[fn]:
			cat = "nobody"
		case a.initOnly[fn]:
			cat = "initOnly"
		}
		for _, b := range fn.Blocks {
			for _, ins := range b.Instrs {
				for _, op := range ins.Operands(nil) {
					g, ok := (*op).(*ssa.Global)
					if !ok || strings.HasSuffix(g.Name(), "init$guard") {
						continue
					}
					name := g.String()
					if set[name] == nil {
						set[name] = map[string]bool{}
					}
					set[name][cat+": "+fn.String()] = true
				}
			}
		}
	}
	out := map[string][]string{}
	for g, fns := range set {
		for f := range fns {
			out[g] = append(out[g], f)
		}
		sort.Strings(out[g])
	}
	return out
}
