#!/usr/bin/env python3
"""Detection self-test for the effects tool.

Copies the repo to a scratch directory, seeds one impurity at a time, runs the
tool on the scratch copy and checks that each seed produces a NEW record that a
C19 check must reject: a write whose root is not "owned" in a non-initOnly
function, or an external/impure call that the unchanged tree does not have.

usage: selftest.py [-repo /repo] [-scratch /tmp/effects-scratch] [-bin bin/effects] [-v]
Never touches the repo itself; the scratch copy is deleted at the end.
"""
import argparse, json, os, shutil, subprocess, sys, tempfile

ENV = dict(os.environ, GOFLAGS="-mod=mod", GOPROXY="off", GOSUMDB="off", GOTOOLCHAIN="local")


def edit(path, old, new, count=1):
    s = open(path).read()
    if old not in s:
        raise SystemExit("selftest: anchor not found in %s: %r" % (path, old))
    open(path, "w").write(s.replace(old, new, count))


def append(path, text):
    open(path, "a").write("\n" + text + "\n")


# Each seed: (name, expectation, function applying the edit to scratch dir d)
# expectation: ("write", fn-substring, root-set[, kind]), ("call", fn-substring, callee-substring)
# or ("owned", fn-substring): a new owned write there and no new non-owned write anywhere
SEEDS = []


def seed(name, *expect):
    def deco(f):
        SEEDS.append((name, expect, f))
        return f
    return deco


@seed("1 package-level cache written in bitmap.Rank64",
      ("write", "bitmap.Rank64", {"global"}))
def s1(d):
    p = d + "/bitmap/rank.go"
    edit(p, "func Rank64(", "var lastRank int32\n\nfunc Rank64(")
    edit(p, "\tc1 := n + int32(bits.OnesCount64(w&Mask[j]))\n\treturn c1, int32(w>>uint(j)) & 1",
         "\tc1 := n + int32(bits.OnesCount64(w&Mask[j]))\n\tlastRank = c1\n\treturn c1, int32(w>>uint(j)) & 1")


@seed("2 bitmap.NextOne clears bits in its argument",
      ("write", "bitmap.NextOne", {"param"}))
def s2(d):
    edit(d + "/bitmap/next.go", "\tword := bm[wordIdx] & RMask[bitIdx]\n",
         "\tword := bm[wordIdx] & RMask[bitIdx]\n\tbm[i>>6] &= RMask[bitIdx]\n")


@seed("3 sigbits.FirstDiffBits sorts its argument in place",
      ("call", "sigbits.FirstDiffBits", "sort.Strings"))
def s3(d):
    p = d + "/sigbits/firstdiff.go"
    edit(p, 'import (\n\t"math/bits"\n)', 'import (\n\t"math/bits"\n\t"sort"\n)')
    edit(p, "\tl := len(keys)\n", "\tsort.Strings(keys)\n\tl := len(keys)\n")


@seed("4 bitstr.CmpUpto writes b[lb-1] = 0",
      ("write", "bitstr.CmpUpto", {"param"}))
def s4(d):
    edit(d + "/bitstr/bitstr.go", "func CmpUpto(a, b []byte) int {\n\tla, lb := len(a), len(b)\n",
         "func CmpUpto(a, b []byte) int {\n\tla, lb := len(a), len(b)\n\tb[lb-1] = 0\n")


@seed("5 package-level scratch buffer reused by bmtree.AllPaths",
      ("write", "bmtree.AllPaths", {"global"}))
def s5(d):
    p = d + "/bmtree/allpaths.go"
    edit(p, "func AllPaths(", "var scratch []uint64\n\nfunc AllPaths(")
    edit(p, "\tpaths := make([]uint64, 0)\n", "\tpaths := scratch[:0]\n")


@seed("6a write through the slice built by the unsafe pun in bitstr.StrCmpUpto (current code)",
      ("write", "bitstr.StrCmpUpto", {"param", "unknown"}))
def s6a(d):
    edit(d + "/bitstr/bitstr.go", "\treturn CmpUpto(bs, b)\n", "\tbs[0] = 0\n\treturn CmpUpto(bs, b)\n")


PUN = '''
func punWrite1(a string, b []byte) int {
	bs := *(*[]byte)(unsafe.Pointer(&a))
	bs[0] = 0
	return CmpUpto(bs, b)
}

func punWrite2(a string) {
	(*(*[]byte)(unsafe.Pointer(&a)))[0] = 0
}

func punWrite3(a string) {
	p := (*[2]uintptr)(unsafe.Pointer(&a))
	*(*byte)(unsafe.Pointer(p[0])) = 0
}

func punWrite4(a []byte) {
	p := unsafe.Pointer(&a[0])
	*(*byte)(unsafe.Pointer(uintptr(p) + 1)) = 0
}
'''


@seed("6b writes through the classic *(*[]byte)(unsafe.Pointer(&s)) pun and pointer arithmetic",
      ("write", "bitstr.punWrite1", {"param", "unknown"}),
      ("write", "bitstr.punWrite2", {"param", "unknown"}),
      ("write", "bitstr.punWrite3", {"param", "unknown"}),
      ("write", "bitstr.punWrite4", {"param", "unknown"}))
def s6b(d):
    append(d + "/bitstr/bitstr.go", PUN)


@seed("7 global map used as a cache in bmtree.Height",
      ("write", "bmtree.Height", {"global"}))
def s7(d):
    edit(d + "/bmtree/height.go", "func Height(bitmapSize int32) int32 {\n",
         "var hcache = map[int32]int32{}\n\nfunc Height(bitmapSize int32) int32 {\n\thcache[bitmapSize] = 1\n")


@seed("8 closure writes to a captured parameter in bitmap.Get",
      ("write", "bitmap.Get$1", {"param"}))
def s8(d):
    edit(d + "/bitmap/get.go", "func Get(bm []uint64, i int32) uint64 {\n",
         "func Get(bm []uint64, i int32) uint64 {\n\tfunc() { bm[0] |= 0 }()\n")


@seed("9 in-place normalisation of the argument done by an unexported helper",
      ("write", "sigbits.normalise", {"param"}))
def s9(d):
    p = d + "/sigbits/firstdiff.go"
    edit(p, "\tl := len(keys)\n", "\tnormalise(keys)\n\tl := len(keys)\n")
    append(p, 'func normalise(ks []string) {\n\tfor i := range ks {\n\t\tks[i] = ks[i] + ""\n\t}\n}')


@seed("10 atomic hit counter in bmtree.PathLen",
      ("call", "bmtree.PathLen", "sync/atomic.AddInt64"))
def s10(d):
    p = d + "/bmtree/pathlen.go"
    edit(p, 'import (\n\t"math/bits"\n)', 'import (\n\t"math/bits"\n\t"sync/atomic"\n)')
    edit(p, "func PathLen(p uint64) int32 {\n",
         "var hits int64\n\nfunc PathLen(p uint64) int32 {\n\tatomic.AddInt64(&hits, 1)\n")


@seed("11 parameter stored in a fresh struct, then written through the struct",
      ("write", "sigbits.New", {"param", "unknown"}))
def s11(d):
    edit(d + "/sigbits/sigbits.go", "\treturn sb\n", '\tsb.keys[0] = ""\n\treturn sb\n')


@seed("12 write through the result of an analysed helper that returns its argument",
      ("write", "bitstr.CmpUpto", {"param", "unknown"}))
def s12(d):
    p = d + "/bitstr/bitstr.go"
    edit(p, "func CmpUpto(a, b []byte) int {\n\tla, lb := len(a), len(b)\n",
         "func CmpUpto(a, b []byte) int {\n\tla, lb := len(a), len(b)\n\tident(b)[0] = 0\n")
    append(p, "func ident(x []byte) []byte { return x }")


@seed("13 write into the inner slices of a [][]int32 argument in bitmap.OfMany",
      ("write", "bitmap.OfMany", {"param"}))
def s13(d):
    edit(d + "/bitmap/ofmany.go", "\tfor _, sb := range subs {\n",
         "\tfor _, sb := range subs {\n\t\tif len(sb) > 0 {\n\t\t\tsb[0] += 0\n\t\t}\n")


@seed("14 goroutine, defer/recover, time.Now and map iteration",
      ("call", "bmtree.PathHeight", "go"),
      ("call", "bmtree.PathHeight", "defer"),
      ("call", "bmtree.PathHeight", "builtin:recover"),
      ("call", "bmtree.PathHeight", "time.Now"),
      ("call", "bmtree.PathHeight", "maprange"),
      ("call", "bmtree.PathHeight", "send"))
def s14(d):
    p = d + "/bmtree/pathheight.go"
    edit(p, 'import "math/bits"', 'import (\n\t"math/bits"\n\t"time"\n)')
    edit(p, "func PathHeight(path uint64) int32 {\n",
         "func PathHeight(path uint64) int32 {\n"
         "\tdefer func() { recover() }()\n"
         "\tch := make(chan int, 1)\n"
         "\tgo func() { ch <- 1 }()\n"
         "\tch <- 2\n"
         "\t_ = time.Now()\n"
         "\tfor k := range map[int]int{1: 1} {\n\t\t_ = k\n\t}\n")


@seed("15 an init-only table builder becomes callable after initialisation",
      ("write", "bitmap.initMasks", {"global"}))
def s15(d):
    append(d + "/bitmap/mask.go", "// Reinit rebuilds the tables.\nfunc Reinit() { initMasks() }")


@seed("16 impure hook stored in a package variable and called from bitmap.Get1",
      ("call", "bitmap.Get1", "dyn:global"),
      ("write", "bitmap.init$1", {"param"}))
def s16(d):
    edit(d + "/bitmap/get.go", "func Get1(bm []uint64, i int32) uint64 {\n",
         "var hook = func(bm []uint64) { bm[0] |= 0 }\n\n"
         "func Get1(bm []uint64, i int32) uint64 {\n\thook(bm)\n")


@seed("17 function without a Go body (assembly) called from bitmap.Getw",
      ("call", "bitmap.Getw", "bitmap.asmThing"))
def s17(d):
    edit(d + "/bitmap/get.go", "func Getw(bm []uint64, i int32, w int32) uint64 {\n",
         "func asmThing(bm []uint64)\n\nfunc Getw(bm []uint64, i int32, w int32) uint64 {\n\tasmThing(bm)\n")
    open(d + "/bitmap/asm_amd64.s", "w").write("// empty\n")


@seed("18 interface method call and call through a function-typed parameter",
      ("call", "sigbits.viaIface", "dyn:invoke"),
      ("call", "sigbits.viaFunc", "dyn:param f"))
def s18(d):
    append(d + "/sigbits/sharding.go",
           "type sorter interface{ Sort([]string) }\n\n"
           "func viaIface(s sorter, ks []string) { s.Sort(ks) }\n\n"
           "func viaFunc(f func([]string), ks []string) { f(ks) }\n")


@seed("19 copy() into and append() onto a parameter, delete() from a parameter map",
      ("write", "bitword.seed19", {"param"}, "copy"),
      ("write", "bitword.seed19", {"param"}, "append"),
      ("write", "bitword.seed19", {"param"}, "builtin:delete"))
def s19(d):
    append(d + "/bitword/bitword.go",
           "func seed19(dst []byte, m map[int]int) []byte {\n"
           "\tcopy(dst, \"xy\")\n\tdelete(m, 1)\n\treturn append(dst[:0], 1)\n}\n")


@seed("20 (precision) writes into slices returned by fresh analysed callees stay owned",
      ("owned", "bmtree.Decode"),
      ("owned", "sigbits.ShardByPrefix"))
def s20(d):
    edit(d + "/bmtree/decode.go", "\tfor _, p := range paths {\n",
         "\tif len(paths) > 0 {\n\t\tpaths[0] |= 0\n\t}\n\tfor _, p := range paths {\n")
    edit(d + "/sigbits/sharding.go", "\tn := int32(len(firstDiffs) + 1)\n",
         "\tn := int32(len(firstDiffs) + 1)\n\tif n > 1 {\n\t\tfirstDiffs[0] += 0\n\t}\n")


def run_tool(binary, repo, out_json):
    with tempfile.NamedTemporaryFile(suffix=".lean") as lean:
        r = subprocess.run([binary, "-q", "-repo", repo, "-out", lean.name, "-json", out_json],
                           env=ENV, capture_output=True, text=True)
    return r


def key(r):
    return (r["fn"], r["kind"], r["root"], r.get("callee", ""), r["initOnly"])


def main():
    ap = argparse.ArgumentParser()
    ap.add_argument("-repo", default="/repo")
    ap.add_argument("-scratch", default="/tmp/effects-scratch")
    ap.add_argument("-bin", default=os.path.join(os.path.dirname(os.path.abspath(__file__)), "bin", "effects"))
    ap.add_argument("-v", action="store_true")
    args = ap.parse_args()

    base = args.scratch + "-base"
    for d in (args.scratch, base):
        shutil.rmtree(d, ignore_errors=True)
    shutil.copytree(args.repo, base, symlinks=True)
    failures = 0
    try:
        jf = tempfile.NamedTemporaryFile(suffix=".json", delete=False).name
        r = run_tool(args.bin, base, jf)
        if r.returncode != 0:
            raise SystemExit("selftest: tool failed on pristine copy:\n" + r.stderr)
        baseline = json.load(open(jf))
        basekeys = {}
        for rec in baseline["records"]:
            basekeys[key(rec)] = basekeys.get(key(rec), 0) + 1
        shared0 = baseline["summary"]["sharedWrites"]
        print("baseline: %d analysed, %d records, %d shared writes" %
              (baseline["summary"]["analysed"], len(baseline["records"]), len(shared0)))

        for name, expects, apply in SEEDS:
            shutil.rmtree(args.scratch, ignore_errors=True)
            shutil.copytree(base, args.scratch, symlinks=True)
            apply(args.scratch)
            r = run_tool(args.bin, args.scratch, jf)
            if r.returncode != 0:
                print("FAIL  %s\n      tool exited %d: %s" % (name, r.returncode, r.stderr.strip()[:2000]))
                failures += 1
                continue
            got = json.load(open(jf))
            seen = {}
            new = []
            for rec in got["records"]:
                k = key(rec)
                seen[k] = seen.get(k, 0) + 1
                if seen[k] > basekeys.get(k, 0):
                    new.append(rec)
            ok = True
            for e in expects:
                if e[0] == "owned":
                    hit = [x for x in new if x["root"] == "owned" and e[1] in x["fn"]]
                    if [x for x in new if x["root"] not in ("owned", "-")]:
                        hit = []
                elif e[0] == "write":
                    kind = e[3] if len(e) > 3 else None
                    hit = [x for x in new if x["root"] != "-" and e[1] in x["fn"] and x["root"] in e[2]
                           and not x["initOnly"] and (kind is None or x["kind"] == kind)]
                else:
                    hit = [x for x in new if x["root"] == "-" and e[1] in x["fn"] and e[2] in x.get("callee", "")
                           and not x["initOnly"]]
                if not hit:
                    ok = False
                    print("      expectation not met: %r" % (e,))
            print("%s  %s" % ("ok  " if ok else "FAIL", name))
            if args.v or not ok:
                for x in new:
                    print("        + %-8s %-14s %-7s %s %s %s" % (
                        "init" if x["initOnly"] else "query", x["kind"], x["root"],
                        x["fn"].replace("github.com/openacid/low/", ""), x["pos"], x.get("callee", "")))
            if not ok:
                failures += 1

        # a tree that does not build must be refused
        for label, breaker in (("syntax error", "func broken( {\n"), ("type error", "var broken int = \"x\"\n")):
            shutil.rmtree(args.scratch, ignore_errors=True)
            shutil.copytree(base, args.scratch, symlinks=True)
            append(args.scratch + "/bitmap/get.go", breaker)
            r = run_tool(args.bin, args.scratch, jf)
            ok = r.returncode != 0 and "does not build" in r.stderr
            print("%s  broken tree (%s) is refused: exit=%d" % ("ok  " if ok else "FAIL", label, r.returncode))
            if args.v or not ok:
                print("        " + r.stderr.strip().replace("\n", "\n        ")[:1500])
            if not ok:
                failures += 1
        os.unlink(jf)
    finally:
        for d in (args.scratch, base):
            shutil.rmtree(d, ignore_errors=True)
    print("selftest: %s" % ("ALL OK" if failures == 0 else "%d FAILURE(S)" % failures))
    sys.exit(1 if failures else 0)


if __name__ == "__main__":
    main()
