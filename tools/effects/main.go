// Command effects regenerates, from the current source of github.com/openacid/low,
// the table of every memory write and every impure operation that the query and
// codec functions of packages bitmap, bmtree, bitstr, bitword and sigbits can
// perform, classified by who owns the written memory.  See README.md.
package main

import (
	"flag"
	"fmt"
	"os"
	"path/filepath"
	"sort"
	"strings"

	"golang.org/x/tools/go/packages"
	"golang.org/x/tools/go/ssa"
	"golang.org/x/tools/go/ssa/ssautil"
)

const modulePath = "github.com/openacid/low"

var targetPkgs = []string{"bitmap", "bmtree", "bitstr", "bitword", "sigbits"}

func fatalf(format string, args ...interface{}) {
	fmt.Fprintf(os.Stderr, "effects: FATAL: "+format+"\n", args...)
	os.Exit(1)
}

func main() {
	repo := flag.String("repo", "/repo", "root of the github.com/openacid/low module")
	out := flag.String("out", "", "Lean output file (required)")
	jsonOut := flag.String("json", "", "optional JSON output file (for humans)")
	tags := flag.String("tags", "verif", "build tags used to load the repo")
	strict := flag.Bool("strict", false, "exit 2 if a non-initOnly write is not owned")
	quiet := flag.Bool("q", false, "do not print the summary")
	flag.Parse()
	if *out == "" {
		fmt.Fprintln(os.Stderr, "usage: effects -repo /repo -out file.lean [-json file.json]")
		os.Exit(1)
	}

	absRepo, err := filepath.Abs(*repo)
	if err != nil {
		fatalf("bad -repo: %v", err)
	}
	if st, err := os.Stat(filepath.Join(absRepo, "go.mod")); err != nil || st.IsDir() {
		fatalf("%s is not a Go module root (no go.mod)", absRepo)
	}

	prog, pkgs := load(absRepo, *tags)

	a := newAnalyzer(prog, pkgs)
	a.run()

	res := a.result()
	if err := writeLean(*out, res); err != nil {
		fatalf("writing %s: %v", *out, err)
	}
	if *jsonOut != "" {
		if err := writeJSON(*jsonOut, res); err != nil {
			fatalf("writing %s: %v", *jsonOut, err)
		}
	}
	if !*quiet {
		printSummary(os.Stdout, res)
	}
	if *strict && len(res.Summary.SharedWrites) > 0 {
		fmt.Fprintf(os.Stderr, "effects: %d non-initOnly write(s) are not owned\n", len(res.Summary.SharedWrites))
		os.Exit(2)
	}
}

// load type-checks the five packages (and all their dependencies) from source
// and builds SSA for the whole program.  Any error at all is fatal: an
// analysis of a tree that does not build would be meaningless.
func load(repo, tags string) (*ssa.Program, []*ssa.Package) {
	cfg := &packages.Config{
		Dir:   repo,
		Mode:  packages.LoadAllSyntax,
		Tests: false,
	}
	if tags != "" {
		cfg.BuildFlags = []string{"-tags=" + tags}
	}
	var patterns []string
	for _, p := range targetPkgs {
		patterns = append(patterns, modulePath+"/"+p)
	}
	initial, err := packages.Load(cfg, patterns...)
	if err != nil {
		fatalf("cannot load packages from %s: %v", repo, err)
	}

	var errs []string
	packages.Visit(initial, nil, func(p *packages.Package) {
		for _, e := range p.Errors {
			errs = append(errs, fmt.Sprintf("%s: %v", p.PkgPath, e))
		}
		if p.IllTyped && len(p.Errors) == 0 {
			errs = append(errs, fmt.Sprintf("%s: package is ill-typed", p.PkgPath))
		}
	})
	if len(errs) > 0 {
		sort.Strings(errs)
		if len(errs) > 30 {
			errs = append(errs[:30], fmt.Sprintf("... and %d more", len(errs)-30))
		}
		fatalf("%s does not build; refusing to analyse it:\n  %s", repo, strings.Join(errs, "\n  "))
	}

	got := map[string]*packages.Package{}
	for _, p := range initial {
		got[p.PkgPath] = p
	}
	for _, want := range patterns {
		p := got[want]
		if p == nil || p.Types == nil || len(p.Syntax) == 0 {
			fatalf("package %s was not loaded from %s (no Go files?)", want, repo)
		}
	}

	prog, ssaPkgs := ssautil.AllPackages(initial, ssa.BuilderMode(0))
	prog.Build()

	var targets []*ssa.Package
	for i, p := range ssaPkgs {
		if p == nil {
			fatalf("no SSA package for %s", initial[i].PkgPath)
		}
		targets = append(targets, p)
	}
	sort.Slice(targets, func(i, j int) bool { return targets[i].Pkg.Path() < targets[j].Pkg.Path() })
	return prog, targets
}
