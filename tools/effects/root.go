package main

import (
	"go/constant"
	"go/token"
	"go/types"

	"golang.org/x/tools/go/ssa"
)

// maxDepth bounds the number of pending dereferences the walk keeps track of
// (e.g. p.next.next.next...).  Beyond it the answer is "unknown".
const maxDepth = 4

// ---------------------------------------------------------------------------
// The root walk.
//
// rootOf(v) answers: whose memory does the address / slice / map value v point
// into?  It is a reachability computation over a dependency graph whose nodes
// are (value, depth) pairs: depth is the number of loads still to be applied,
// i.e. visit(v, 1) asks "who owns what the pointers STORED IN the memory v
// points to point to".  The answer is the worst classification of any terminal
// that is reachable; owned terminals contribute nothing.  Because it is plain
// reachability with a visited set, cycles (loop phis, self-appending captured
// variables) need no special treatment and cannot cause unsoundness.

type visitKey struct {
	v ssa.Value
	d int
}

type walker struct {
	a     *Analyzer
	seen  map[visitKey]bool
	worst Root
}

func (a *Analyzer) rootOf(v ssa.Value) Root {
	w := &walker{a: a, seen: map[visitKey]bool{}}
	w.visit(v, 0)
	return w.worst
}

func (w *walker) add(r Root) {
	if r > w.worst {
		w.worst = r
	}
}

func (w *walker) deref(v ssa.Value, d int) {
	if d+1 > maxDepth {
		w.add(Unknown)
		return
	}
	w.visit(v, d+1)
}

func (w *walker) visit(v ssa.Value, d int) {
	if w.worst == Unknown {
		return
	}
	k := visitKey{v, d}
	if w.seen[k] {
		return
	}
	w.seen[k] = true

	switch v := v.(type) {
	case *ssa.Parameter:
		w.add(Param)
	case *ssa.Global:
		w.add(Global)
	case *ssa.FreeVar:
		bs := w.a.bindingsOf(v)
		if len(bs) == 0 {
			w.add(Unknown)
		}
		for _, b := range bs {
			w.visit(b, d)
		}
	case *ssa.Alloc, *ssa.MakeSlice, *ssa.MakeMap, *ssa.MakeChan:
		w.site(v, d)
	case *ssa.Const:
		// nil, "" and friends own no writable memory.  A non-zero number can
		// only get here through integer-to-pointer punning.
		if !v.IsNil() && v.Value != nil && isNumericKind(v.Value.Kind()) && constant.Sign(v.Value) != 0 {
			w.add(Unknown)
		}
	case *ssa.IndexAddr:
		w.visit(v.X, d)
	case *ssa.FieldAddr:
		w.visit(v.X, d)
	case *ssa.Slice:
		w.visit(v.X, d)
	case *ssa.Index:
		w.visit(v.X, d)
	case *ssa.Field:
		w.visit(v.X, d)
	case *ssa.ChangeType:
		w.visit(v.X, d)
	case *ssa.ChangeInterface:
		w.visit(v.X, d)
	case *ssa.MakeInterface:
		w.visit(v.X, d)
	case *ssa.TypeAssert:
		w.visit(v.X, d)
	case *ssa.SliceToArrayPointer:
		w.visit(v.X, d)
	case *ssa.Convert:
		w.convert(v, d)
	case *ssa.Phi:
		for _, e := range v.Edges {
			w.visit(e, d)
		}
	case *ssa.UnOp:
		if v.Op == token.MUL {
			w.deref(v.X, d)
		} else {
			w.add(Unknown)
		}
	case *ssa.Lookup:
		if _, ok := v.X.Type().Underlying().(*types.Map); ok {
			w.deref(v.X, d)
		}
		// string index: a byte, owns nothing
	case *ssa.Extract:
		w.extract(v, d)
	case *ssa.Call:
		w.call(v, 0, d)
	case *ssa.MakeClosure:
		if d > 0 {
			w.add(Unknown)
		}
	default:
		// BinOp (pointer arithmetic on uintptr), Function, Builtin, Next,
		// Range, Select, MultiConvert, ...
		w.add(Unknown)
	}
}

func isNumericKind(k constant.Kind) bool {
	return k == constant.Int || k == constant.Float || k == constant.Complex
}

func (w *walker) convert(v *ssa.Convert, d int) {
	from, to := v.X.Type().Underlying(), v.Type().Underlying()
	fb, fromBasic := from.(*types.Basic)
	tb, toBasic := to.(*types.Basic)
	_, fromSlice := from.(*types.Slice)
	_, toSlice := to.(*types.Slice)
	_, fromPtr := from.(*types.Pointer)
	_, toPtr := to.(*types.Pointer)
	isStr := func(b *types.Basic, ok bool) bool { return ok && b.Info()&types.IsString != 0 }
	isUP := func(b *types.Basic, ok bool) bool {
		return ok && (b.Kind() == types.UnsafePointer || b.Kind() == types.Uintptr)
	}
	switch {
	case isStr(fb, fromBasic) && isStr(tb, toBasic):
		w.visit(v.X, d) // string -> named string: same bytes
	case isStr(tb, toBasic) && (fromSlice || fromBasic):
		// []byte/[]rune/rune -> string: a fresh copy of pointer-free data
	case isStr(fb, fromBasic) && toSlice:
		// string -> []byte/[]rune: a fresh copy of pointer-free data
	case (fromPtr || isUP(fb, fromBasic)) && (toPtr || isUP(tb, toBasic)):
		// *T <-> unsafe.Pointer <-> uintptr: same address
		w.visit(v.X, d)
	default:
		// includes int -> uintptr/unsafe.Pointer and any numeric conversion
		// we were asked to treat as an address
		w.add(Unknown)
	}
}

func (w *walker) extract(v *ssa.Extract, d int) {
	switch t := v.Tuple.(type) {
	case *ssa.Call:
		w.call(t, v.Index, d)
	case *ssa.TypeAssert:
		if v.Index == 0 {
			w.visit(t.X, d)
		}
	case *ssa.Lookup:
		if v.Index == 0 {
			if _, ok := t.X.Type().Underlying().(*types.Map); ok {
				w.deref(t.X, d)
			}
		}
	case *ssa.Next:
		if t.IsString || v.Index == 0 {
			return
		}
		if rng, ok := t.Iter.(*ssa.Range); ok {
			w.deref(rng.X, d) // keys and values live in the map
		} else {
			w.add(Unknown)
		}
	default:
		w.add(Unknown) // channel receive, select
	}
}

// call handles result #idx of a call.
func (w *walker) call(c *ssa.Call, idx int, d int) {
	cc := &c.Call
	if cc.IsInvoke() {
		w.add(Unknown)
		return
	}
	if b, ok := cc.Value.(*ssa.Builtin); ok {
		switch b.Name() {
		case "append":
			// The result is either Args[0]'s backing array or a fresh one
			// holding the elements of Args[0] and Args[1].
			w.visit(cc.Args[0], d)
			if d > 0 {
				if !pointerFree(elemType(cc.Args[1].Type())) {
					w.visit(cc.Args[1], d)
				}
				w.site(c, d) // later stores through the result itself
			}
		case "ssa:wrapnilchk":
			w.visit(cc.Args[0], d)
		case "len", "cap":
			// a plain number that is not derived from any address
		default:
			w.add(Unknown)
		}
		return
	}
	callee := canon(cc.StaticCallee())
	if callee == nil || !w.a.analysed[callee] {
		w.add(Unknown) // external, dynamic, excluded or body-less callee
		return
	}
	r, ok := w.a.fresh[freshKey{callee, idx}]
	if !ok {
		r = Unknown
	}
	switch r {
	case Owned:
		// Fresh memory made by the callee.  What the callee stored INSIDE
		// it is not tracked.
		if d > 0 {
			w.add(Unknown)
		}
	case Global:
		w.add(Global)
	default:
		// derived from the callee's parameters or unknown: not mapped back
		// to the actual arguments.
		w.add(Unknown)
	}
}

// site handles a fresh allocation reached with d pending loads.
func (w *walker) site(s ssa.Value, d int) {
	if d == 0 {
		return // the allocation itself: owned
	}
	info := w.a.siteInfo(s)
	if info.escaped {
		w.add(Unknown)
		return
	}
	for _, c := range info.contents {
		if c.whole {
			// contents of c.v were copied in (copy / append)
			if info.punned || !pointerFree(elemType(c.v.Type())) {
				w.visit(c.v, d)
			}
		} else {
			if info.punned || !pointerFree(c.v.Type()) {
				w.visit(c.v, d-1)
			}
		}
	}
}

// ---------------------------------------------------------------------------
// allocation sites: what gets stored into them

type contribution struct {
	v     ssa.Value
	whole bool // false: v itself is stored; true: the elements of v are copied in
}

type siteInfo struct {
	contents []contribution
	escaped  bool // an alias reached code we do not track: contents unknown
	punned   bool // an alias went through unsafe.Pointer: types are not to be trusted
}

// siteInfo follows every alias of the allocation s (sub-addresses, re-slices,
// phis, conversions, variables captured by closures, append results) through
// the function and its closures, collecting every value stored through an
// alias.  Any use it does not understand marks the site as escaped.
func (a *Analyzer) siteInfo(s ssa.Value) *siteInfo {
	if info, ok := a.sites[s]; ok {
		return info
	}
	info := &siteInfo{}
	a.sites[s] = info
	seen := map[ssa.Value]bool{}
	var track func(al ssa.Value)
	track = func(al ssa.Value) {
		if seen[al] {
			return
		}
		seen[al] = true
		refs := al.Referrers()
		if refs == nil {
			info.escaped = true
			return
		}
		for _, r := range *refs {
			switch r := r.(type) {
			case *ssa.Store:
				if r.Addr == al {
					info.contents = append(info.contents, contribution{v: r.Val})
				}
				if r.Val == al && r.Addr != al {
					info.escaped = true // alias saved somewhere else
				}
			case *ssa.UnOp:
				if r.Op != token.MUL {
					info.escaped = true
				}
			case *ssa.IndexAddr:
				if r.X == al {
					track(r)
				}
			case *ssa.FieldAddr:
				track(r)
			case *ssa.Slice:
				if r.X == al {
					track(r)
				}
			case *ssa.ChangeType:
				track(r)
			case *ssa.SliceToArrayPointer:
				track(r)
			case *ssa.Convert:
				from, to := r.X.Type().Underlying(), r.Type().Underlying()
				if isCopyingConvert(from, to) {
					break // only reads the alias
				}
				if isUnsafeish(from) || isUnsafeish(to) {
					info.punned = true
				}
				track(r)
			case *ssa.Phi:
				track(r)
			case *ssa.MakeClosure:
				fn, ok := r.Fn.(*ssa.Function)
				if !ok {
					info.escaped = true
					break
				}
				for i, b := range r.Bindings {
					if b == al {
						track(fn.FreeVars[i])
					}
				}
			case *ssa.MapUpdate:
				if r.Map == al {
					info.contents = append(info.contents, contribution{v: r.Key}, contribution{v: r.Value})
				}
				if r.Key == al || r.Value == al {
					info.escaped = true
				}
			case *ssa.Lookup, *ssa.Range, *ssa.Index, *ssa.Field:
				// reads
			case *ssa.BinOp:
				// pointer comparison
				if r.Op != token.EQL && r.Op != token.NEQ {
					info.escaped = true
				}
			case *ssa.Return:
				// Handing the memory to the caller ends our interest in it,
				// unless "the caller" is an enclosing function that goes on
				// using it.
				if r.Parent().Parent() != nil {
					info.escaped = true
				}
			case *ssa.DebugRef:
			case *ssa.Call:
				a.trackCall(info, al, r, track)
			default:
				// Go, Defer, Send, MakeInterface, Extract, TypeAssert, ...
				info.escaped = true
			}
		}
	}
	track(s)
	return info
}

func (a *Analyzer) trackCall(info *siteInfo, al ssa.Value, c *ssa.Call, track func(ssa.Value)) {
	b, ok := c.Call.Value.(*ssa.Builtin)
	if !ok || c.Call.IsInvoke() {
		info.escaped = true // passed to a function (analysed or not)
		return
	}
	args := c.Call.Args
	switch b.Name() {
	case "len", "cap":
	case "copy":
		if args[0] == al {
			info.contents = append(info.contents, contribution{v: args[1], whole: true})
		}
	case "append":
		if args[0] == al {
			info.contents = append(info.contents, contribution{v: args[1], whole: true})
			track(c) // the result may alias the first argument
		}
	case "ssa:wrapnilchk":
		track(c)
	default:
		info.escaped = true
	}
}

func isUnsafeish(t types.Type) bool {
	b, ok := t.(*types.Basic)
	return ok && (b.Kind() == types.UnsafePointer || b.Kind() == types.Uintptr)
}

func isCopyingConvert(from, to types.Type) bool {
	fb, fok := from.(*types.Basic)
	tb, tok := to.(*types.Basic)
	fromStr := fok && fb.Info()&types.IsString != 0
	toStr := tok && tb.Info()&types.IsString != 0
	_, fromSlice := from.(*types.Slice)
	_, toSlice := to.(*types.Slice)
	return (fromStr && toSlice) || (toStr && fromSlice)
}

// pointerFree reports whether a value of type t can contain no address at
// all.  Strings count as pointers (their bytes can be reached by type
// punning), and so do uintptr and unsafe.Pointer.
func pointerFree(t types.Type) bool {
	if t == nil {
		return false
	}
	switch u := t.Underlying().(type) {
	case *types.Basic:
		if u.Info()&types.IsString != 0 {
			return false
		}
		switch u.Kind() {
		case types.UnsafePointer, types.Uintptr, types.UntypedNil, types.Invalid:
			return false
		}
		return true
	case *types.Array:
		return pointerFree(u.Elem())
	case *types.Struct:
		for i := 0; i < u.NumFields(); i++ {
			if !pointerFree(u.Field(i).Type()) {
				return false
			}
		}
		return true
	case *types.Tuple:
		for i := 0; i < u.Len(); i++ {
			if !pointerFree(u.At(i).Type()) {
				return false
			}
		}
		return true
	}
	return false
}

// elemType returns the element type of a slice / array / pointer-to-array /
// string; nil (treated as "may contain pointers") otherwise.
func elemType(t types.Type) types.Type {
	switch u := t.Underlying().(type) {
	case *types.Slice:
		return u.Elem()
	case *types.Array:
		return u.Elem()
	case *types.Pointer:
		if arr, ok := u.Elem().Underlying().(*types.Array); ok {
			return arr.Elem()
		}
	case *types.Basic:
		if u.Info()&types.IsString != 0 {
			return types.Typ[types.Byte]
		}
	}
	return nil
}

// ---------------------------------------------------------------------------
// closures

// bindingsOf resolves a free variable to the values bound to it by every
// MakeClosure of its function.
func (a *Analyzer) bindingsOf(fv *ssa.FreeVar) []ssa.Value {
	fn := fv.Parent()
	idx := -1
	for i, x := range fn.FreeVars {
		if x == fv {
			idx = i
		}
	}
	if idx < 0 {
		return nil
	}
	var out []ssa.Value
	for _, mc := range a.makeClosures[fn] {
		if idx < len(mc.Bindings) {
			out = append(out, mc.Bindings[idx])
		}
	}
	return out
}

// isLocalCell reports whether addr is exactly a local variable: an Alloc, or a
// captured variable whose every binding is a local variable of an enclosing
// function.  Assigning such a variable is not a memory effect.
func (a *Analyzer) isLocalCell(addr ssa.Value, depth int) bool {
	switch v := addr.(type) {
	case *ssa.Alloc:
		return true
	case *ssa.FreeVar:
		if depth > 16 {
			return false
		}
		bs := a.bindingsOf(v)
		if len(bs) == 0 {
			return false
		}
		for _, b := range bs {
			if !a.isLocalCell(b, depth+1) {
				return false
			}
		}
		return true
	}
	return false
}

// cellOf returns the Alloc a local-cell address denotes (nil if it is not one
// single Alloc).
func (a *Analyzer) cellOf(addr ssa.Value, depth int) *ssa.Alloc {
	switch v := addr.(type) {
	case *ssa.Alloc:
		return v
	case *ssa.FreeVar:
		if depth > 16 {
			return nil
		}
		bs := a.bindingsOf(v)
		if len(bs) != 1 {
			return nil
		}
		return a.cellOf(bs[0], depth+1)
	}
	return nil
}

// resolveFuncValue resolves a called function value that is loaded from a
// local variable to the set of functions ever assigned to that variable.
func (a *Analyzer) resolveFuncValue(v ssa.Value) ([]*ssa.Function, bool) {
	load, ok := v.(*ssa.UnOp)
	if !ok || load.Op != token.MUL {
		return nil, false
	}
	cell := a.cellOf(load.X, 0)
	if cell == nil {
		return nil, false
	}
	info := a.siteInfo(cell)
	if info.escaped || info.punned || len(info.contents) == 0 {
		return nil, false
	}
	var fns []*ssa.Function
	for _, c := range info.contents {
		if c.whole {
			return nil, false
		}
		switch x := c.v.(type) {
		case *ssa.MakeClosure:
			f, ok := x.Fn.(*ssa.Function)
			if !ok {
				return nil, false
			}
			fns = append(fns, f)
		case *ssa.Function:
			fns = append(fns, x)
		default:
			return nil, false
		}
	}
	return fns, true
}

// ---------------------------------------------------------------------------
// returnsFresh

// computeFresh computes, for every analysed function and result index, the
// worst root of any value it returns there.  It starts from the optimistic
// assumption "owned" everywhere and re-evaluates until nothing changes; since
// classifications only ever get worse this terminates and yields the least
// fixed point (a recursive function is fresh iff every non-recursive return
// path is).
func (a *Analyzer) computeFresh() {
	fns := a.sortedAnalysed()
	for _, fn := range fns {
		for i := 0; i < fn.Signature.Results().Len(); i++ {
			a.fresh[freshKey{fn, i}] = Owned
		}
	}
	for changed := true; changed; {
		changed = false
		for _, fn := range fns {
			for _, b := range fn.Blocks {
				for _, ins := range b.Instrs {
					ret, ok := ins.(*ssa.Return)
					if !ok {
						continue
					}
					for i, res := range ret.Results {
						k := freshKey{fn, i}
						if pointerFree(res.Type()) {
							continue // a number: nothing to write through
						}
						if r := a.rootOf(res); r > a.fresh[k] {
							a.fresh[k] = r
							changed = true
						}
					}
				}
			}
		}
	}
}
