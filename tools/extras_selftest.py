#!/usr/bin/env python3
"""Do the extras checks bite?  Applies small semantic edits (mutants) to a scratch export of /repo HEAD, builds the harness
against it, runs the quick case set of the extra the function belongs to through the real (mutated) code and the Lean driver
and counts the mutants that produce at least one disagreement.  A few harmless rewrites must produce none.
  python3 tools/extras_selftest.py [X01 X02 …]        (needs lean/.lake/build/bin/lowdrv, built by ./extras)
Scratch: /tmp/x1-selftest (removed at the end)."""
import os, shutil, subprocess, sys

ROOT = os.path.dirname(os.path.dirname(os.path.abspath(__file__)))
SCR = "/tmp/x1-selftest"
ENV = dict(os.environ, GOFLAGS="-mod=mod", GOPROXY="off", GOSUMDB="off", GOTOOLCHAIN="local")
DRV = os.path.join(ROOT, "lean/.lake/build/bin/lowdrv")

# (id, name, file, old, new, semantic?)
M = [
 ("X01", "msb-first digits", "bitmap/fmt.go", "bits.Reverse8(b)", "bits.Reverse8(bits.Reverse8(b))", True),
 ("X01", "shift by nibbles", "bitmap/fmt.go", "uint(i*8)", "uint(i*4)", True),
 ("X01", "no byte separator", "bitmap/fmt.go", 'strings.Join(rst, " ")', 'strings.Join(rst, "")', True),
 ("X01", "element separator ', '", "bitmap/fmt.go", 'strings.Join(rst, ",")', 'strings.Join(rst, ", ")', True),
 ("X01", "int16 rendered with 4 bytes", "bitmap/fmt.go", "return 2, uint64(i)\n\tcase uint16", "return 4, uint64(i)\n\tcase uint16", True),
 ("X01", "last byte dropped", "bitmap/fmt.go", "for i := 0; i < sz; i++ {", "for i := 0; i < sz-1 || i == 0; i++ {", True),
 ("X01", "big-endian bytes", "bitmap/fmt.go", "uint8(v >> uint(i*8))", "uint8(v >> uint((sz-1-i)*8))", True),
 ("X01", "%b instead of %08b", "bitmap/fmt.go", '"%08b"', '"%b"', True),
 ("X01", "last element dropped", "bitmap/fmt.go", "for i := 0; i < n; i++ {", "for i := 0; i < n-1 || i == 0 && n > 0; i++ {", True),
 ("X01", "int accepted", "bitmap/fmt.go", "\tcase uint64:\n\t\treturn 8, i\n", "\tcase uint64:\n\t\treturn 8, i\n\tcase int:\n\t\treturn 8, uint64(i)\n", True),
 ("X01", "nil slice element type check first (empty []int panics)", "bitmap/fmt.go", "\t\tn := v.Len()\n", "\t\tn := v.Len()\n\t\tif n == 0 && v.Type().Elem().Kind() == reflect.Int {\n\t\t\tpanic(\"x\")\n\t\t}\n", True),
 ("X01", "HARMLESS: int8 through uint8", "bitmap/fmt.go", "case int8:\n\t\treturn 1, uint64(i)", "case int8:\n\t\treturn 1, uint64(uint8(i))", False),
 ("X01", "HARMLESS: mask the byte", "bitmap/fmt.go", "uint8(v >> uint(i*8))", "uint8((v >> uint(i*8)) & 0xff)", False),

 ("X02", "*n for one branch", "tree/tree.go", "if brCnt > 1 {", "if brCnt >= 1 {", True),
 ("X02", "indent one more", "tree/tree.go", "indent := len(line)\n", "indent := len(line) + 1\n", True),
 ("X02", "indent counts runes", "tree/tree.go", "indent := len(line)\n", "indent := len([]rune(line))\n", True),
 ("X02", "pre-order callback", "tree/tree.go", "\tfor _, b := range t.Labels(node) {\n\t\tchild := t.Child(node, b)\n\t\tdepthFirst(t, node, b, child, np)\n\t}\n\tnp(t, parent, label, node)\n",
         "\tnp(t, parent, label, node)\n\tfor _, b := range t.Labels(node) {\n\t\tchild := t.Child(node, b)\n\t\tdepthFirst(t, node, b, child, np)\n\t}\n", True),
 ("X02", "arrow without dash", "tree/tree.go", '"-%v->"', '"-%v>"', True),
 ("X02", "# for empty id", "tree/tree.go", 'if nodeid != "" {', 'if true {', True),
 ("X02", "wrong parent", "tree/tree.go", "depthFirst(t, node, b, child, np)", "depthFirst(t, parent, b, child, np)", True),
 ("X02", "String starts at Child(nil,nil)", "tree/tree.go", "toStrings(t, nil, nil)", "toStrings(t, nil, t.Child(nil, nil))", True),
 ("X02", "children not indented", "tree/tree.go", "rst = append(rst, indent+s)", "rst = append(rst, indent[:0]+s)", True),
 ("X02", "leaf with %s", "tree/tree.go", '"=%v"', '"=%s"', True),
 ("X02", "last branch skipped in rendering", "tree/tree.go", "\tfor _, b := range t.Labels(node) {\n\t\tsub :=", "\tfor i, b := range t.Labels(node) {\n\t\tif i > 0 && i == 11 {\n\t\t\tcontinue\n\t\t}\n\t\tsub :=", True),
 ("X02", "leaf mark before fan-out", "tree/tree.go", "\tline += t.NodeInfo(node)\n", "\tline += t.NodeInfo(node)\n\tif _, l := t.LeafVal(node); l && len(t.Labels(node)) > 1 {\n\t\tline += \"!\"\n\t}\n", True),
 ("X02", "HARMLESS: Sprintf for #id", "tree/tree.go", 'line += "#" + nodeid', 'line += fmt.Sprintf("#%s", nodeid)', False),

 ("X03", "last cell not written", "typehelper/toslice.go", "for i := 0; i < l; i++ {", "for i := 0; i < l-1; i++ {", True),
 ("X03", "reversed", "typehelper/toslice.go", "rst[i] = s.Index(i).Interface()", "rst[l-1-i] = s.Index(i).Interface()", True),
 ("X03", "arrays accepted", "typehelper/toslice.go", "if s.Kind() != reflect.Slice {", "if s.Kind() != reflect.Slice && s.Kind() != reflect.Array {", True),
 ("X03", "one cell too many", "typehelper/toslice.go", "make([]interface{}, l)", "make([]interface{}, l, l+1)[:l+l/3-l/3+0][:l:l+1][:min1(l)]", None),
 ("X03", "first element everywhere", "typehelper/toslice.go", "s.Index(i).Interface()", "s.Index(i / 2 * 2).Interface()", True),
 ("X03", "nil slice panics", "typehelper/toslice.go", "\tl := s.Len()\n", "\tl := s.Len()\n\tif s.IsNil() {\n\t\tpanic(\"nil\")\n\t}\n", True),
 ("X03", "HARMLESS: append instead of index", "typehelper/toslice.go", "rst := make([]interface{}, l)\n\tfor i := 0; i < l; i++ {\n\t\trst[i] = s.Index(i).Interface()\n\t}",
         "rst := make([]interface{}, 0, l)\n\tfor i := 0; i < l; i++ {\n\t\trst = append(rst, s.Index(i).Interface())\n\t}", False),

 ("X04", "negative depth cuts", "size/sizeof.go", "\tif depth == 0 {\n\t\treturn []string{header}", "\tif depth <= 0 {\n\t\treturn []string{header}", True),
 ("X04", "slice shows maxItem+1", "size/sizeof.go", "for i, n := 0, v.Len(); i < n && i < maxItem; i++ {", "for i, n := 0, v.Len(); i < n && i <= maxItem; i++ {", True),
 ("X04", "struct cut by maxItem", "size/sizeof.go", "for i, n := 0, v.NumField(); i < n; i++ {\n\t\t\tsubs := stat(", "for i, n := 0, v.NumField(); i < n && i < maxItem; i++ {\n\t\t\tsubs := stat(", True),
 ("X04", "header indented", "size/sizeof.go", "\t\tif i > 0 {\n\t\t\tlines[i] = ", "\t\tif i >= 0 {\n\t\t\tlines[i] = ", True),
 ("X04", "three spaces", "size/sizeof.go", '"    " + s', '"   " + s', True),
 ("X04", "depth decreases by two", "size/sizeof.go", "depth -= 1", "depth -= 2", True),
 ("X04", "map not cut by maxItem", "size/sizeof.go", "i < len(keys) && i < maxItem", "i < len(keys)", True),
 ("X04", "nil interface without <nil> line", "size/sizeof.go", "\tcase reflect.Interface:\n\t\tlines = append(lines, stat(v.Elem(), depth, maxItem, opt)...)",
         "\tcase reflect.Interface:\n\t\tif !v.IsNil() {\n\t\t\tlines = append(lines, stat(v.Elem(), depth, maxItem, opt)...)\n\t\t}", True),
 ("X04", "nil pointer followed", "size/sizeof.go", "\t\tif p != nil {\n\t\t\tlines = append(lines, stat(", "\t\tif p != nil || true {\n\t\t\tlines = append(lines, stat(", True),
 ("X04", "element label from 1", "size/sizeof.go", 'subs[0] = fmt.Sprintf("%d: ", i) + subs[0]', 'subs[0] = fmt.Sprintf("%d: ", i+1) + subs[0]', True),
 ("X04", "array elements not shown", "size/sizeof.go", "\tcase reflect.Slice, reflect.Array:\n\t\tfor i, n := 0, v.Len(); i < n && i < maxItem", "\tcase reflect.Slice:\n\t\tfor i, n := 0, v.Len(); i < n && i < maxItem", True),
 ("X04", "map entries walked with MapRange (NaN entry shown)", "size/sizeof.go", "subs := stat(v.MapIndex(mapkey), depth, maxItem, opt)",
         "mv := v.MapIndex(mapkey)\n\t\t\tif !mv.IsValid() {\n\t\t\t\tfor it := v.MapRange(); it.Next(); {\n\t\t\t\t\tmv = it.Value()\n\t\t\t\t}\n\t\t\t}\n\t\t\tsubs := stat(mv, depth, maxItem, opt)", True),
 ("X04", "HARMLESS: depth-- ", "size/sizeof.go", "depth -= 1", "depth--", False),
]
M = [m for m in M if m[5] is not None]


def sh(cmd, **kw):
    return subprocess.run(cmd, stdout=subprocess.PIPE, stderr=subprocess.STDOUT, text=True, **kw)


def build_and_run(repo, cases):
    h = os.path.join(SCR, "harness")
    r = sh(["go", "build", "-tags", "verif", "-o", os.path.join(SCR, "lowharness"), "./cmd/lowharness"], cwd=h, env=ENV)
    if r.returncode != 0:
        return None, r.stdout[-600:]
    p = subprocess.run([os.path.join(SCR, "lowharness"), "run"], input=cases, stdout=subprocess.PIPE, stderr=subprocess.PIPE, text=True)
    if p.returncode != 0:
        return -1, "harness crashed: " + p.stderr[-300:]
    d = subprocess.run([DRV], input=p.stdout, stdout=subprocess.PIPE, text=True)
    bad, first = 0, ""
    for line, ans in zip(p.stdout.split("\n"), d.stdout.split("\n")):
        if not line:
            continue
        impl = line[line.index(" => ") + 4:]
        k = ans.rfind("\t")
        if ans[:k] != impl or ans[k + 1:] != "ok":
            bad += 1
            first = first or line[:160]
    return bad, first


def main():
    want = set(sys.argv[1:]) or {"X01", "X02", "X03", "X04"}
    shutil.rmtree(SCR, ignore_errors=True)
    os.makedirs(os.path.join(SCR, "repo"))
    subprocess.run("git -C /repo archive HEAD | tar -x -C %s/repo" % SCR, shell=True, check=True)
    shutil.copytree(os.path.join(ROOT, "harness"), os.path.join(SCR, "harness"), ignore=shutil.ignore_patterns("bin"))
    gm = os.path.join(SCR, "harness", "go.mod")
    txt = open(gm).read().replace("=> /repo", "=> %s/repo" % SCR)
    open(gm, "w").write(txt)
    # unmutated baseline + case sets
    bad, msg = build_and_run(None, "")
    if bad is None:
        print("baseline build failed:", msg)
        return 2
    cases = {}
    for pid in sorted(want):
        cases[pid] = sh([os.path.join(SCR, "lowharness"), "gen", pid, "quick", "1"]).stdout
        bad, first = build_and_run(None, cases[pid])
        print("%s baseline: %d cases, %d disagreements" % (pid, cases[pid].count("\n"), bad))
    caught = total = surv = harmless = 0
    for pid, name, f, old, new, semantic in M:
        if pid not in want:
            continue
        p = os.path.join(SCR, "repo", f)
        src = open(p).read()
        if src.count(old) != 1:
            print("%s MUTANT NOT APPLICABLE (%d matches): %s" % (pid, src.count(old), name))
            continue
        open(p, "w").write(src.replace(old, new))
        bad, first = build_and_run(None, cases[pid])
        open(p, "w").write(src)
        if bad is None:
            print("%s mutant does not compile: %s\n%s" % (pid, name, first))
            continue
        if semantic:
            total += 1
            caught += bad != 0
            print("%s %-55s %s (%d disagreements) %s" % (pid, name, "caught" if bad else "NOT CAUGHT", bad, first[:100] if bad else ""))
        else:
            harmless += 1
            surv += bad == 0
            print("%s %-55s %s" % (pid, name, "survives" if bad == 0 else "REJECTED (%d) %s" % (bad, first[:100])))
    print("semantic mutants caught: %d of %d; harmless rewrites accepted: %d of %d" % (caught, total, surv, harmless))
    shutil.rmtree(SCR, ignore_errors=True)
    return 0 if caught == total and surv == harmless else 1


if __name__ == "__main__":
    sys.exit(main())
