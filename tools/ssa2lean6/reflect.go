package main

// Generation 6: package reflect as a vocabulary over an abstract value tree
// (lean/LowModel/GoSem6.lean), package-level integer variables that are
// constants set by the package initialiser, and DIRECT recursion.
//
//   reflect.Value            -> GoSem6.Value  (= Option RVal; immutable)
//   reflect.Type             -> GoSem6.RType
//   interface{}              -> GoSem6.Iface  (only `== nil` and reflect.ValueOf)
//   uintptr from v.Pointer() -> GoSem6.Addr   (only conversions to unsafe.Pointer / *T and `== nil`)
//   uintptr from t.Size()    -> Nat           (only the conversion to a signed integer type)
//   *reflect.MapIter         -> no Lean value: the iterator's STATE (GoSem6.MapIter) is threaded through the code
//                               like a captured variable of generation 4 (key iterBase+i in `cur`)
//
// A function that calls itself (`sizeof`) is emitted as
//   def f_loopN (fuel) (self : params → Option R) params … -- loops, `self` passed along
//   def f_body  (fuel) (self : params → Option R) params : Option R := <the SSA of f; f(args) = self args>
//   def f_rec   (fuel) : Nat → params → Option R
//     | 0, … => none | depth+1, … => f_body fuel (f_rec fuel depth) …
//   def f       (fuel) params : Option R := f_rec fuel fuel params
// i.e. the open recursion of generation 4's closures, closed by structural recursion on the depth.

import (
	"fmt"
	"go/constant"
	"go/token"
	"go/types"
	"strings"

	"golang.org/x/tools/go/ssa"
)

// reflectTypes: leanType knows the reflect types (set while a generation-6 target is translated).
var reflectTypes bool

const iterBase = 1 << 15 // state keys of map iterators: iterBase + index of the MapRange call

func isIterKey(k int) bool { return k >= iterBase && k < cellBase }

func isReflectNamed(t types.Type, name string) bool {
	n, ok := t.(*types.Named)
	return ok && n.Obj().Pkg() != nil && n.Obj().Pkg().Path() == "reflect" && n.Obj().Name() == name
}

func isMapIterPtr(t types.Type) bool {
	p, ok := t.Underlying().(*types.Pointer)
	return ok && isReflectNamed(p.Elem(), "MapIter")
}

func isEmptyInterface(t types.Type) bool {
	t = types.Unalias(t)
	if _, named := t.(*types.Named); named {
		return false
	}
	i, ok := t.(*types.Interface)
	return ok && i.NumMethods() == 0 && i.NumEmbeddeds() == 0
}

func reflectLeanType(t types.Type) string {
	switch {
	case isReflectNamed(t, "Value"):
		return "GoSem6.Value"
	case isReflectNamed(t, "Type"):
		return "GoSem6.RType"
	case isEmptyInterface(t):
		return "GoSem6.Iface"
	}
	return ""
}

// reflect.Kind constants as GoSem6.lean has them; checked against the reflect package that was loaded.
var kindNumbers = map[string]int64{
	"Invalid": 0, "Bool": 1, "Int": 2, "Int8": 3, "Int16": 4, "Int32": 5, "Int64": 6, "Uint": 7, "Uint8": 8,
	"Uint16": 9, "Uint32": 10, "Uint64": 11, "Uintptr": 12, "Float32": 13, "Float64": 14, "Complex64": 15,
	"Complex128": 16, "Array": 17, "Chan": 18, "Func": 19, "Interface": 20, "Map": 21, "Pointer": 22, "Ptr": 22,
	"Slice": 23, "String": 24, "Struct": 25, "UnsafePointer": 26,
}

func (tr *translator) checkKindNumbers() {
	if tr.kindsChecked {
		return
	}
	var rp *types.Package
	for _, p := range tr.prog.AllPackages() {
		if p.Pkg.Path() == "reflect" {
			rp = p.Pkg
		}
	}
	if rp == nil {
		fail("package reflect is not loaded")
	}
	for name, want := range kindNumbers {
		k, ok := rp.Scope().Lookup(name).(*types.Const)
		if !ok {
			fail("reflect.%s is not a constant", name)
		}
		got, exact := constant.Int64Val(constant.ToInt(k.Val()))
		if !exact || got != want || !isReflectNamed(k.Type(), "Kind") {
			fail("reflect.%s = %s, but the vocabulary GoSem6 assumes %d", name, k.Val(), want)
		}
	}
	tr.kindsChecked = true
}

func (tr *translator) isGen6(f *ssa.Function) bool {
	n, ok := tr.byFunc[f]
	return ok && tr.genOf(n) >= 6
}

// callsItself: f contains a static call of f.
func callsItself(f *ssa.Function) bool {
	for _, b := range f.Blocks {
		for _, in := range b.Instrs {
			if call, ok := in.(ssa.CallInstruction); ok && call.Common().StaticCallee() == f {
				return true
			}
		}
	}
	return false
}

// initConst: the package-level integer variable g is assigned exactly once in the whole program, by the package
// initialiser of its package, with a constant (go/ssa folds `int(unsafe.Sizeof(x))`), and is otherwise only read.
// Returns the Lean literal.  TRUSTED: the functions translated run after package initialisation.
func (tr *translator) initConst(g *ssa.Global) string {
	if s, ok := tr.initConsts[g]; ok {
		if s == "" {
			fail("package-level variable %s is not a constant set once by the package initialiser", g.Name())
		}
		return s
	}
	tr.initConsts[g] = ""
	elem := g.Type().Underlying().(*types.Pointer).Elem()
	if !isIntType(elem) {
		fail("package-level variable %s of type %s", g.Name(), elem)
	}
	tr.loadAllFuncs()
	var val *ssa.Const
	stores := 0
	for _, fn := range tr.allFuncs {
		for _, b := range fn.Blocks {
			for _, in := range b.Instrs {
				uses := false
				for _, op := range in.Operands(nil) {
					if *op == ssa.Value(g) {
						uses = true
					}
				}
				if !uses {
					continue
				}
				switch x := in.(type) {
				case *ssa.DebugRef:
				case *ssa.UnOp:
					if x.Op != token.MUL {
						fail("package-level variable %s is used in %s (%s)", g.Name(), fn.Name(), in)
					}
				case *ssa.Store:
					k, isConst := x.Val.(*ssa.Const)
					if x.Addr != ssa.Value(g) || !isConst || k.Value == nil {
						fail("package-level variable %s is written in %s with a value that is not a constant (%s)", g.Name(), fn.Name(), in)
					}
					if !(isPkgInit(fn) && fn.Name() == "init" && fn.Pkg == g.Pkg) {
						fail("package-level variable %s is written outside package initialisation (in %s)", g.Name(), fn.Name())
					}
					if len(b.Preds) != 1 || b.Comment != "init.start" {
						fail("package-level variable %s is written conditionally by the package initialiser", g.Name())
					}
					stores++
					val = k
				default:
					fail("package-level variable %s is used in %s other than by reading it (%s)", g.Name(), fn.Name(), in)
				}
			}
		}
	}
	if stores != 1 {
		fail("package-level variable %s is assigned %d times by the package initialiser (a constant needs exactly one)", g.Name(), stores)
	}
	iv := constant.ToInt(val.Value)
	if iv.Kind() != constant.Int {
		fail("package-level variable %s: non-integer initial value", g.Name())
	}
	ty := "Nat"
	if isSigned(elem) {
		ty = "Int"
	}
	s := fmt.Sprintf("(%s : %s)", iv.ExactString(), ty)
	tr.initConsts[g] = s
	return s
}

// setupIters: every `v.MapRange()` creates an iterator whose state is threaded through the function.  The pointer
// may only be the receiver of Next / Key / Value (so nothing else can advance the iterator), and the MapRange may not
// be executed twice (not in a loop).
func (c *fnCtx) setupIters() {
	c.iterKey = map[ssa.Value]int{}
	if c.gen < 6 {
		return
	}
	n := 0
	for _, b := range c.f.Blocks {
		if endsInPanic(b) {
			continue
		}
		for _, in := range b.Instrs {
			call, ok := in.(*ssa.Call)
			if !ok || call.Call.IsInvoke() {
				continue
			}
			callee := call.Call.StaticCallee()
			if callee == nil || callee.Pkg == nil || callee.Pkg.Pkg.Path() != "reflect" || callee.Name() != "MapRange" || callee.Signature.Recv() == nil {
				continue
			}
			if c.isClosure {
				fail("MapRange in a closure")
			}
			if inCycle(b) {
				fail("MapRange inside a loop: %s", call)
			}
			for _, r := range *call.Referrers() {
				if _, dbg := r.(*ssa.DebugRef); dbg {
					continue
				}
				use, ok := r.(*ssa.Call)
				ok = ok && !use.Call.IsInvoke() && len(use.Call.Args) == 1 && use.Call.Args[0] == ssa.Value(call)
				if ok {
					uc := use.Call.StaticCallee()
					ok = uc != nil && uc.Pkg != nil && uc.Pkg.Pkg.Path() == "reflect" && uc.Signature.Recv() != nil &&
						isMapIterPtr(uc.Signature.Recv().Type()) && (uc.Name() == "Next" || uc.Name() == "Key" || uc.Name() == "Value")
				}
				if !ok {
					fail("the map iterator %s is used other than as the receiver of Next / Key / Value: %s", call.Name(), r)
				}
			}
			k := iterBase + n
			n++
			c.iterKey[call] = k
			c.fieldParam[k] = "iter_" + call.Name()
			c.local = append(c.local, k)
		}
	}
}

// threadedAt: the state passed into the join block j: everything that is threaded (closure.go), except the
// map iterators that are dead at j (no Next / Key / Value can be reached from j).  An iterator that is live at j has
// been created on every path to j: its MapRange dominates its uses and is not in a cycle (setupIters), so it
// dominates j as well.
func (c *fnCtx) threadedAt(j *ssa.BasicBlock) []int {
	all := c.threaded()
	if len(c.iterKey) == 0 {
		return all
	}
	var r []int
	for _, k := range all {
		if !isIterKey(k) || c.iterLive(k, j) {
			r = append(r, k)
		}
	}
	return r
}

func (c *fnCtx) iterLive(k int, j *ssa.BasicBlock) bool {
	var def *ssa.Call
	for v, kk := range c.iterKey {
		if kk == k {
			def = v.(*ssa.Call)
		}
	}
	uses := map[*ssa.BasicBlock]bool{}
	for _, r := range *def.Referrers() {
		if _, dbg := r.(*ssa.DebugRef); !dbg {
			uses[r.Block()] = true
		}
	}
	seen := map[*ssa.BasicBlock]bool{j: true}
	var walk func(b *ssa.BasicBlock) bool
	walk = func(b *ssa.BasicBlock) bool {
		if uses[b] {
			return true
		}
		for _, s := range b.Succs {
			if !seen[s] {
				seen[s] = true
				if walk(s) {
					return true
				}
			}
		}
		return false
	}
	if !walk(j) {
		return false
	}
	if !def.Block().Dominates(j) {
		fail("the map iterator %s is live at block %d, which its MapRange does not dominate", def.Name(), j.Index)
	}
	return true
}

var valueMethods = map[string]struct {
	fn    string // GoSem6 function
	ty    string // Lean type of the result
	opt   bool   // returns Option (can panic / undetermined)
	nargs int    // arguments besides the receiver (all of type int)
}{
	"IsValid":  {"isValid", "Bool", false, 0},
	"Kind":     {"kind", "Nat", false, 0},
	"Len":      {"len", "Int", true, 0},
	"Index":    {"index", "GoSem6.Value", true, 1},
	"Elem":     {"elem", "GoSem6.Value", true, 0},
	"NumField": {"numField", "Int", true, 0},
	"Field":    {"field", "GoSem6.Value", true, 1},
	"Type":     {"typeOf", "GoSem6.RType", true, 0},
	"Pointer":  {"pointer", "GoSem6.Addr", true, 0},
}

// reflectCallOK: a call that may stand in a block that ends in panic (it returns or panics, nothing else).
func reflectCallOK(v *ssa.Call) bool {
	callee := v.Call.StaticCallee()
	if callee == nil || callee.Pkg == nil || callee.Pkg.Pkg.Path() != "reflect" || callee.Signature.Recv() == nil {
		return false
	}
	_, ok := valueMethods[callee.Name()]
	return ok && isReflectNamed(callee.Signature.Recv().Type(), "Value")
}

func isNilConst(v ssa.Value) bool {
	k, ok := v.(*ssa.Const)
	return ok && k.Value == nil
}

func (c *fnCtx) defineAs(v ssa.Value, ty string) {
	c.defined[v] = v.Name()
	c.defType[v] = ty
}

// emitReflect translates the instructions of the reflect vocabulary; false = not one of them.
func (c *fnCtx) emitReflect(in ssa.Instruction, ind int, cur map[int]string) bool {
	switch v := in.(type) {
	case *ssa.Call:
		if v.Call.IsInvoke() {
			if !isReflectNamed(v.Call.Value.Type(), "Type") {
				return false
			}
			if v.Call.Method.Name() != "Size" || len(v.Call.Args) != 0 {
				fail("method %s of reflect.Type is not in the vocabulary GoSem6", v.Call.Method.Name())
			}
			c.gosem6 = true
			c.bind(ind, v, "Nat", "GoSem6.RType.size "+c.operand(v.Call.Value))
			c.usize[v] = true
			return true
		}
		callee := v.Call.StaticCallee()
		if callee == nil || callee.Pkg == nil || callee.Pkg.Pkg.Path() != "reflect" {
			return false
		}
		c.tr.checkKindNumbers()
		c.gosem6 = true
		recv := callee.Signature.Recv()
		if recv == nil {
			if callee.Name() == "ValueOf" && len(v.Call.Args) == 1 && isEmptyInterface(v.Call.Args[0].Type()) {
				c.let(ind, v, "GoSem6.valueOf "+c.operand(v.Call.Args[0]))
				return true
			}
			fail("call of reflect.%s, which is not in the vocabulary GoSem6 (external)", callee.Name())
		}
		if isReflectNamed(recv.Type(), "Value") {
			if callee.Name() == "MapRange" {
				k, ok := c.iterKey[v]
				if !ok {
					fail("MapRange: %s", v)
				}
				name := c.freshName(c.fieldParam[k])
				c.line(ind, "Option.bind (GoSem6.mapRange %s) fun (%s : GoSem6.MapIter) =>", c.operand(v.Call.Args[0]), name)
				cur[k] = name
				c.silent[v] = true
				return true
			}
			m, ok := valueMethods[callee.Name()]
			if !ok {
				fail("method %s of reflect.Value is not in the vocabulary GoSem6", callee.Name())
			}
			if len(v.Call.Args) != 1+m.nargs {
				fail("unexpected signature of reflect.Value.%s", callee.Name())
			}
			expr := "GoSem6." + m.fn + " " + c.operand(v.Call.Args[0])
			for _, a := range v.Call.Args[1:] {
				if !isIntType(a.Type()) || intSuffix(a.Type()) != "I64" {
					fail("unexpected signature of reflect.Value.%s", callee.Name())
				}
				expr += " " + c.operand(a)
			}
			if m.ty != "GoSem6.Addr" && leanType(v.Type()) != m.ty {
				fail("unexpected result type %s of reflect.Value.%s", v.Type(), callee.Name())
			}
			if m.opt {
				c.bind(ind, v, m.ty, expr)
			} else {
				c.line(ind, "let %s : %s := %s;", v.Name(), m.ty, expr)
				c.defineAs(v, m.ty)
			}
			if m.ty == "GoSem6.Addr" {
				if k, isB := basicKind(v.Type()); !isB || k != types.Uintptr {
					fail("unexpected result type %s of reflect.Value.Pointer", v.Type())
				}
				c.addr[v] = true
			}
			return true
		}
		if isMapIterPtr(recv.Type()) {
			k, ok := c.iterKey[v.Call.Args[0]]
			if !ok || len(v.Call.Args) != 1 {
				fail("call of a method of a map iterator that was not created by MapRange in this function: %s", v)
			}
			switch callee.Name() {
			case "Next":
				if !isBool(v.Type()) {
					fail("unexpected result type of MapIter.Next")
				}
				nx := c.freshName("next")
				c.line(ind, "Option.bind (GoSem6.MapIter.next %s) fun (%s : Bool × GoSem6.MapIter) =>", cur[k], nx)
				c.line(ind, "let %s : Bool := %s.1;", v.Name(), nx)
				c.defineAs(v, "Bool")
				name := c.freshName(c.fieldParam[k])
				c.line(ind, "let %s : GoSem6.MapIter := %s.2;", name, nx)
				cur[k] = name
			case "Key", "Value":
				if leanType(v.Type()) != "GoSem6.Value" {
					fail("unexpected result type of MapIter.%s", callee.Name())
				}
				c.bind(ind, v, "GoSem6.Value", fmt.Sprintf("GoSem6.MapIter.%s %s", strings.ToLower(callee.Name()), cur[k]))
			default:
				fail("method %s of reflect.MapIter is not in the vocabulary GoSem6", callee.Name())
			}
			return true
		}
		fail("call of %s, which is not in the vocabulary GoSem6 (external)", callee)

	case *ssa.Convert:
		switch {
		case c.addr[v.X]:
			// uintptr -> unsafe.Pointer -> *T: the same address
			k, isBasic := basicKind(v.Type())
			_, isPtr := v.Type().Underlying().(*types.Pointer)
			if !(isPtr || isBasic && k == types.UnsafePointer) {
				fail("conversion of the result of Pointer() to %s", v.Type())
			}
			c.line(ind, "let %s : GoSem6.Addr := %s;", v.Name(), c.operand(v.X))
			c.defineAs(v, "GoSem6.Addr")
			c.addr[v] = true
			return true
		case c.usize[v.X]:
			if !isIntType(v.Type()) {
				fail("conversion of the result of Size() to %s", v.Type())
			}
			c.let(ind, v, fmt.Sprintf("GoSem.to%s (%s : Int)", intSuffix(v.Type()), c.operand(v.X)))
			return true
		}
		return false

	case *ssa.BinOp:
		if v.Op != token.EQL && v.Op != token.NEQ {
			return false
		}
		x, y := v.X, v.Y
		if isNilConst(x) {
			x, y = y, x
		}
		var test string
		switch {
		case c.addr[x] && isNilConst(y):
			test = "GoSem6.Addr.isNil " + c.operand(x)
		case isEmptyInterface(x.Type()) && isEmptyInterface(y.Type()) && isNilConst(y) && !isNilConst(x):
			test = "GoSem6.ifaceIsNil " + c.operand(x)
		default:
			return false
		}
		c.gosem6 = true
		if v.Op == token.NEQ {
			test = "!(" + test + ")"
		}
		c.let(ind, v, "("+test+")")
		return true

	case *ssa.UnOp:
		g, ok := v.X.(*ssa.Global)
		if !ok || v.Op != token.MUL || !isIntType(v.Type()) {
			return false
		}
		if g.Pkg == nil || !strings.HasPrefix(g.Pkg.Pkg.Path(), modulePath+"/") {
			return false
		}
		c.let(ind, v, c.tr.initConst(g))
		return true
	}
	return false
}
