package main

type initInfo struct{}
