package main

// Closures (generation 4).
//
// Supported shape: a function P (the PARENT; not a method) creates ONE closure
// F = `func(…){…}` with go/ssa's MakeClosure and either calls it directly or
// stores it in a local variable (`var dfs func(…); dfs = func(…){…}`), possibly
// captured by F itself (recursion).  go/ssa represents every captured variable
// as a CELL: `new T (name)` in P, bound by MakeClosure, a FreeVar of F; P and F
// read and write the cell with loads and stores.
//
// The translation treats the ENVIRONMENT OF THE CLOSURE LIKE A RECEIVER: the
// cells are its fields.  In P a cell is a local variable, threaded through the
// code (and through joins and loops) like a stored receiver field, starting
// with Go's zero value at the `new`.  In F a cell that F never writes is a
// parameter (its value at the time of the call), a cell that F writes (a store
// to the cell, or to the memory of the slice the cell holds) is STATE: F's Lean
// function takes its value after its own parameters and returns the final
// values of all state cells (F itself must have no results).  A call of the
// closure passes the current values of the cells and rebinds the state cells to
// what the call returns.  A slice cell that holds memory P/F allocated
// themselves (an OWNED-KIND cell: some store into it stores the result of make /
// append / …, or its memory is written) follows the discipline of receiver-held
// slices of generation 3 (memory.go): a load is a view TIED to the cell,
// append gives a detached view that may only be stored back, every view of cell
// memory is stale after a call of the closure.  The cell is the only holder of
// that memory: its address cannot escape (checked here), and a value stored in
// one cell cannot be stored in another (existing taint check).  Other slice
// cells hold immutable values (parameters, results of calls) as before.
//
// The cell that holds the closure itself (`dfs`) has no Lean value: a load of
// it may only be called.  In P such a call is a call of F's definition, in F it
// is a call of the extra parameter `self`.  F is emitted as
//     def f_fnN_body (fuel) <unwritten cells> (self : <type of f_fnN …>) <params> <state> : Option <state> := …
//     def f_fnN (fuel) <unwritten cells> : Nat → <params> → <state> → Option <state>
//       | 0, … => none
//       | depth+1, … => f_fnN_body fuel <unwritten cells> (f_fnN fuel <unwritten cells> depth) <params> <state>
// (structural recursion on the recursion depth; `none` when it is used up, the
// same convention as for loops).  P passes `fuel` for the depth as well.
//
// Everything else is refused: the closure passed as an argument, returned,
// stored anywhere but in its own local variable, called by `go` / `defer`; a
// cell whose address is used other than in a load, a store or the MakeClosure;
// cells of other types than integers, bools, strings and the supported slices;
// closure parameters that are not integers or bools; closure results; nested
// closures; two closures in one function; closures in methods.

import (
	"fmt"
	"go/token"
	"go/types"
	"strings"

	"golang.org/x/tools/go/ssa"
)

const cellBase = 1 << 16 // state keys of captured cells: cellBase + index of the cell in MakeClosure.Bindings

func cellKey(i int) int    { return cellBase + i }
func isCellKey(k int) bool { return k >= cellBase && k < globBase }

type closureInfo struct {
	parent  *ssa.Function
	fn      *ssa.Function
	mc      *ssa.MakeClosure
	cells   []*ssa.Alloc // = mc.Bindings; cells[i] is fn.FreeVars[i]
	self    int          // index of the cell that holds the closure itself, or -1
	written []bool       // F stores to the cell or writes the memory of the slice it holds
	owned   []bool       // the cell holds memory that P / F allocated (owned-kind)
}

// cellOfAddr: the address is a captured cell — a FreeVar, or an Alloc bound by a
// MakeClosure that is not merely an argument of the no-op contract stub.
func cellOfAddr(addr ssa.Value) (int, bool) {
	switch x := addr.(type) {
	case *ssa.FreeVar:
		for i, fv := range x.Parent().FreeVars {
			if fv == x {
				return cellKey(i), true
			}
		}
	case *ssa.Alloc:
		if refs := x.Referrers(); refs != nil {
			for _, r := range *refs {
				if mc, ok := r.(*ssa.MakeClosure); ok && !onlyFeedsNoop(mc) {
					for i, b := range mc.Bindings {
						if b == ssa.Value(x) {
							return cellKey(i), true
						}
					}
				}
			}
		}
	}
	return 0, false
}

func cellGoName(a *ssa.Alloc) string {
	if a.Comment != "" {
		return a.Comment
	}
	return a.Name()
}

// onlyCalled: every use of the loaded closure value is as the function of an ordinary call.
func onlyCalled(v ssa.Value, what string) {
	for _, r := range *v.Referrers() {
		switch x := r.(type) {
		case *ssa.DebugRef:
		case *ssa.Call:
			if x.Call.Value != v {
				fail("the closure %s escapes (argument of %s)", what, r)
			}
			for _, a := range x.Call.Args {
				if a == v {
					fail("the closure %s escapes (argument of %s)", what, r)
				}
			}
		case *ssa.Go:
			fail("the closure %s is started with go", what)
		case *ssa.Defer:
			fail("the closure %s is deferred", what)
		default:
			fail("the closure %s escapes (%s)", what, r)
		}
	}
}

// closureOf: the closure the function creates (nil when it creates none, apart
// from arguments of the no-op stub), checked to be of the supported shape.
func (tr *translator) closureOf(p *ssa.Function) *closureInfo {
	if tr.cloDone[p] {
		return tr.cloMemo[p]
	}
	var mcs []*ssa.MakeClosure
	for _, b := range p.Blocks {
		for _, in := range b.Instrs {
			switch x := in.(type) {
			case *ssa.MakeClosure:
				if !onlyFeedsNoop(x) {
					mcs = append(mcs, x)
				}
			case *ssa.Go:
				fail("go statement: %s", in)
			case *ssa.Defer:
				fail("defer statement: %s", in)
			}
		}
	}
	if len(mcs) == 0 {
		tr.cloDone[p] = true
		return nil
	}
	if len(mcs) > 1 {
		fail("more than one closure (%s, %s)", mcs[0].Fn.Name(), mcs[1].Fn.Name())
	}
	mc := mcs[0]
	f := mc.Fn.(*ssa.Function)
	if p.Signature.Recv() != nil {
		fail("closure %s in a method", f.Name())
	}
	if len(f.AnonFuncs) > 0 {
		fail("nested closures in %s", f.Name())
	}
	if f.Recover != nil {
		fail("defer/recover in closure %s", f.Name())
	}
	if len(f.Blocks) == 0 {
		fail("closure %s has no body", f.Name())
	}
	for _, b := range f.Blocks {
		for _, in := range b.Instrs {
			switch in.(type) {
			case *ssa.Go:
				fail("go statement in closure: %s", in)
			case *ssa.Defer:
				fail("defer statement in closure: %s", in)
			case *ssa.MakeClosure:
				fail("nested closures in %s", f.Name())
			}
		}
	}
	if f.Signature.Results().Len() > 0 {
		fail("closure %s has results (only closures that work by changing captured variables)", f.Name())
	}
	if f.Signature.Variadic() {
		fail("variadic closure %s", f.Name())
	}
	for _, q := range f.Params {
		if !(isIntType(q.Type()) || isBool(q.Type())) {
			fail("parameter %s of closure %s has type %s (only integers and bools: a slice could share memory with a captured variable)", q.Name(), f.Name(), q.Type())
		}
	}
	// The closure may be created anywhere (and several times): every instance binds the same cells, each allocated
	// at most once per call of the function (not inside a loop), and the same code, so all instances behave alike.
	ci := &closureInfo{parent: p, fn: f, mc: mc, self: -1}
	if len(mc.Bindings) != len(f.FreeVars) {
		fail("inconsistent closure %s", f.Name())
	}
	for _, b := range mc.Bindings {
		a, ok := b.(*ssa.Alloc)
		if !ok || a.Parent() != p {
			fail("closure %s captures %s, which is not a local variable of %s", f.Name(), b.Name(), p.Name())
		}
		if inCycle(a.Block()) {
			fail("captured variable %s is declared inside a loop (a new variable per iteration)", cellGoName(a))
		}
		for _, prev := range ci.cells {
			if prev == a {
				fail("closure %s captures %s twice", f.Name(), cellGoName(a))
			}
		}
		ci.cells = append(ci.cells, a)
	}
	n := len(ci.cells)
	ci.written, ci.owned = make([]bool, n), make([]bool, n)

	// what happens to the closure value: called directly, or stored once in the local variable that holds it
	var selfStore *ssa.Store
	direct := false
	for _, r := range *mc.Referrers() {
		switch x := r.(type) {
		case *ssa.DebugRef:
		case *ssa.Store:
			if x.Val != ssa.Value(mc) || x.Addr == ssa.Value(mc) || selfStore != nil {
				fail("the closure %s escapes (%s)", f.Name(), r)
			}
			idx := -1
			for i, a := range ci.cells {
				if x.Addr == ssa.Value(a) {
					idx = i
				}
			}
			if idx < 0 {
				if a, isAlloc := x.Addr.(*ssa.Alloc); isAlloc && a.Parent() == p {
					fail("the closure %s is stored in %s, which it does not capture itself: only `var f func(…); f = func(…){… f(…) …}` and direct calls are supported", f.Name(), cellGoName(a))
				}
				fail("the closure %s escapes: it is stored in memory (%s)", f.Name(), r)
			}
			if x.Block() != mc.Block() {
				fail("the closure %s is assigned to its variable in another block than it is created in", f.Name())
			}
			selfStore, ci.self = x, idx
		case *ssa.Call:
			if x.Call.Value != ssa.Value(mc) {
				fail("the closure %s escapes: it is passed to %s", f.Name(), r)
			}
			for _, a := range x.Call.Args {
				if a == ssa.Value(mc) {
					fail("the closure %s escapes: it is passed to %s", f.Name(), r)
				}
			}
			direct = true
		case *ssa.Go:
			fail("the closure %s is started with go", f.Name())
		case *ssa.Defer:
			fail("the closure %s is deferred", f.Name())
		case *ssa.Return:
			fail("the closure %s escapes: it is returned", f.Name())
		case *ssa.MakeInterface, *ssa.ChangeType:
			fail("the closure %s escapes: it is converted (%s)", f.Name(), r)
		default:
			fail("the closure %s escapes (%s)", f.Name(), r)
		}
	}
	if direct && selfStore != nil {
		fail("the closure %s is both stored and called directly", f.Name())
	}

	// the cells
	for i, a := range ci.cells {
		elem := a.Type().Underlying().(*types.Pointer).Elem()
		fv := f.FreeVars[i]
		if i == ci.self {
			if !types.Identical(elem.Underlying(), f.Signature) {
				fail("the variable %s that holds the closure has type %s", cellGoName(a), elem)
			}
			sp := instrPos(selfStore)
			for _, r := range *a.Referrers() {
				switch x := r.(type) {
				case *ssa.DebugRef:
				case *ssa.Store:
					if x != selfStore {
						fail("the variable %s that holds the closure is assigned twice (%s)", cellGoName(a), r)
					}
				case *ssa.MakeClosure:
					if x != mc {
						fail("the variable %s that holds the closure is captured by another closure", cellGoName(a))
					}
				case *ssa.UnOp:
					if x.Op != token.MUL || x.X != ssa.Value(a) {
						fail("the address of %s escapes (%s)", cellGoName(a), r)
					}
					// the assignment must come before every read (in the closure the variable is only read during a
					// call, that is after a read in the parent)
					if x.Block() == selfStore.Block() {
						if instrPos(x) < sp {
							fail("%s is read before the closure is assigned to it", cellGoName(a))
						}
					} else if !selfStore.Block().Dominates(x.Block()) {
						fail("%s is read where the closure may not have been assigned to it yet", cellGoName(a))
					}
					onlyCalled(x, cellGoName(a))
				default:
					fail("the address of %s escapes (%s)", cellGoName(a), r)
				}
			}
			if refs := fv.Referrers(); refs != nil {
				for _, r := range *refs {
					switch x := r.(type) {
					case *ssa.DebugRef:
					case *ssa.UnOp:
						if x.Op != token.MUL || x.X != ssa.Value(fv) {
							fail("the address of %s escapes in the closure (%s)", cellGoName(a), r)
						}
						onlyCalled(x, cellGoName(a))
					case *ssa.Store:
						fail("the closure re-assigns the variable %s that holds it", cellGoName(a))
					default:
						fail("the address of %s escapes in the closure (%s)", cellGoName(a), r)
					}
				}
			}
			continue
		}
		ok := isIntType(elem) || isBool(elem) || isString(elem)
		if isSliceType(elem) {
			func() {
				defer func() { recover() }()
				leanType(elem)
				ok = true
			}()
		}
		if !ok {
			fail("captured variable %s of type %s", cellGoName(a), elem)
		}
		for _, r := range *a.Referrers() {
			switch x := r.(type) {
			case *ssa.DebugRef:
			case *ssa.Store:
				if x.Addr != ssa.Value(a) || x.Val == ssa.Value(a) {
					fail("the address of captured variable %s escapes: it is stored (%s)", cellGoName(a), r)
				}
			case *ssa.UnOp:
				if x.Op != token.MUL || x.X != ssa.Value(a) {
					fail("the address of captured variable %s escapes (%s)", cellGoName(a), r)
				}
			case *ssa.MakeClosure:
				if x != mc && !onlyFeedsNoop(x) {
					fail("captured variable %s is captured by another closure", cellGoName(a))
				}
			default:
				fail("the address of captured variable %s escapes (%s)", cellGoName(a), r)
			}
		}
		if refs := fv.Referrers(); refs != nil {
			for _, r := range *refs {
				switch x := r.(type) {
				case *ssa.DebugRef:
				case *ssa.Store:
					if x.Addr != ssa.Value(fv) || x.Val == ssa.Value(fv) {
						fail("the address of captured variable %s escapes in the closure: it is stored (%s)", cellGoName(a), r)
					}
					ci.written[i] = true
				case *ssa.UnOp:
					if x.Op != token.MUL || x.X != ssa.Value(fv) {
						fail("the address of captured variable %s escapes in the closure (%s)", cellGoName(a), r)
					}
				default:
					fail("the address of captured variable %s escapes in the closure (%s)", cellGoName(a), r)
				}
			}
		}
	}

	// owned-kind cells, and cells whose memory the closure writes: with every load of a slice cell taken as a
	// root of allocated memory, a cell is owned-kind when an allocated value is stored into it, or when the
	// memory of a value loaded from it is written (element store, copy); see the comment at the top
	for _, fn := range []*ssa.Function{p, f} {
		owned, _ := ownedValues(fn, func(k int) bool { return isCellKey(k) })
		clsCells := map[int][]int{}
		for v, cls := range owned {
			if u, isLoad := v.(*ssa.UnOp); isLoad && u.Op == token.MUL {
				if k, ok := cellOfAddr(u.X); ok {
					clsCells[cls] = append(clsCells[cls], k-cellBase)
				}
			}
		}
		through := func(x ssa.Value) {
			if cls, ok := owned[x]; ok {
				for _, i := range clsCells[cls] {
					ci.owned[i] = true
					if fn == f {
						ci.written[i] = true
					}
				}
			}
		}
		for _, b := range fn.Blocks {
			for _, in := range b.Instrs {
				switch x := in.(type) {
				case *ssa.Store:
					if k, ok := cellOfAddr(x.Addr); ok {
						if _, isOwned := owned[x.Val]; isOwned {
							ci.owned[k-cellBase] = true
						}
					}
					if ia, ok := x.Addr.(*ssa.IndexAddr); ok {
						through(ia.X)
					}
				case *ssa.Call:
					if call, ok := isBuiltinCall(in, "copy"); ok {
						through(call.Call.Args[0])
					}
				}
			}
		}
	}
	for i, a := range ci.cells {
		if ci.owned[i] && !isSliceType(a.Type().Underlying().(*types.Pointer).Elem()) {
			fail("inconsistent classification of captured variable %s", cellGoName(a))
		}
	}
	nstate := 0
	for i := range ci.cells {
		if ci.written[i] {
			nstate++
		}
	}
	if nstate == 0 {
		fail("closure %s changes no captured variable and has no result", f.Name())
	}
	tr.cloDone[p], tr.cloMemo[p] = true, ci
	return ci
}

// inCycle: can the block be executed more than once in one call of the function?
func inCycle(b *ssa.BasicBlock) bool {
	seen := map[*ssa.BasicBlock]bool{}
	var walk func(x *ssa.BasicBlock) bool
	walk = func(x *ssa.BasicBlock) bool {
		for _, s := range x.Succs {
			if s == b {
				return true
			}
			if !seen[s] {
				seen[s] = true
				if walk(s) {
					return true
				}
			}
		}
		return false
	}
	return walk(b)
}

func (ci *closureInfo) recursive() bool { return ci.self >= 0 }

// leanNameOfClosure: sigbits.ShardByPrefix + ShardByPrefix$1 -> sigbits_ShardByPrefix_fn1
func leanNameOfClosure(target string, f *ssa.Function) string {
	name := f.Name()
	if i := strings.LastIndex(name, "$"); i >= 0 {
		return leanNameOf(target) + "_fn" + name[i+1:]
	}
	return leanNameOf(target) + "_fn_" + name
}

// cellKeyOf: the state key of a captured cell of the function being translated.
func (c *fnCtx) cellKeyOf(addr ssa.Value) (int, bool) {
	if c.clo == nil {
		return 0, false
	}
	switch x := addr.(type) {
	case *ssa.FreeVar:
		if c.isClosure {
			for i, fv := range c.f.FreeVars {
				if fv == x {
					return cellKey(i), true
				}
			}
		}
	case *ssa.Alloc:
		if !c.isClosure {
			for i, a := range c.clo.cells {
				if a == x {
					return cellKey(i), true
				}
			}
		}
	}
	return 0, false
}

func (c *fnCtx) cellElem(k int) types.Type {
	return c.clo.cells[k-cellBase].Type().Underlying().(*types.Pointer).Elem()
}

// cellIsView: loads of the cell are views of memory the functions allocated
// (tied to the cell, memory.go); otherwise a load is the plain current value.
func (c *fnCtx) cellIsView(k int) bool {
	i := k - cellBase
	return c.clo != nil && i != c.clo.self && c.clo.owned[i] && (!c.isClosure || c.clo.written[i])
}

// keyGoName / keyGoType: a receiver field or a captured variable, for messages and types.
func (c *fnCtx) keyGoName(k int) string {
	if isStructKey(k) || isGlobKey(k) {
		return c.fieldParam[k]
	}
	if isCellKey(k) {
		return "captured variable " + cellGoName(c.clo.cells[k-cellBase])
	}
	return "receiver field " + c.recvStruct.Field(k).Name()
}

func (c *fnCtx) keyGoType(k int) types.Type {
	if isStructKey(k) {
		return c.freshT.Underlying().(*types.Struct).Field(k - structBase).Type()
	}
	if isGlobKey(k) {
		return globElemType(c.globOf(k))
	}
	if isCellKey(k) {
		return c.cellElem(k)
	}
	return c.recvStruct.Field(k).Type()
}

// threaded: the state keys that every join and loop passes on: the stored
// receiver fields / state cells (returned at the end) and, in a parent, the
// captured variables (locals, not returned).
func (c *fnCtx) threaded() []int {
	if len(c.local) == 0 {
		return c.stored
	}
	return append(append([]int{}, c.stored...), c.local...)
}

func zeroValueOf(t types.Type) string {
	switch {
	case isSliceType(t) || isString(t):
		return "([] : " + leanType(t) + ")"
	}
	return zeroOf(t)
}

// closureCallee: is the call a call of the function's closure (through the
// variable that holds it, or of the MakeClosure value itself)?
func (c *fnCtx) closureCallee(v *ssa.Call) bool {
	if c.clo == nil || v.Call.IsInvoke() {
		return false
	}
	if !c.isClosure && v.Call.Value == ssa.Value(c.clo.mc) {
		return true
	}
	if ld, ok := v.Call.Value.(*ssa.UnOp); ok && ld.Op == token.MUL {
		if k, ok := c.cellKeyOf(ld.X); ok && k-cellBase == c.clo.self {
			return true
		}
	}
	return false
}

// setupCells names the captured variables.  In the closure the cells it does
// not write are parameters and the cells it writes are state (parameters that
// are returned, like stored receiver fields); in the parent every cell is a
// local variable that is threaded through the code.
func (c *fnCtx) setupCells() {
	ci := c.clo
	for i, a := range ci.cells {
		if i == ci.self {
			continue
		}
		k := cellKey(i)
		want := cellGoName(a)
		var n string
		if c.isClosure {
			n = c.claim(want, 3000+i)
		} else {
			n = want
			if !identRE.MatchString(n) || reservedRE.MatchString(n) || leanReserved[n] {
				n = fmt.Sprintf("cell%d", i)
			}
			for c.used[n] {
				n += "_v"
			}
			c.used[n] = true
		}
		c.fieldParam[k] = n
		if !c.isClosure {
			c.local = append(c.local, k)
		}
	}
}

// emitClosureCall: a call of the closure: `self …` inside the closure, the
// closure's definition in the parent.  The state cells are rebound to what the
// call returns; every view of cell memory loaded before is stale.
func (c *fnCtx) emitClosureCall(v *ssa.Call, ind int, cur map[int]string) {
	ci := c.clo
	if refs := v.Referrers(); refs != nil && hasUses(v) {
		fail("result of the closure call %s is used", v)
	}
	var args []string
	if c.isClosure {
		args = append(args, "self")
	} else {
		args = append(args, leanNameOfClosure(c.target, ci.fn))
		if c.tr.needsFuel(ci.fn) {
			args = append(args, "fuel")
		}
		for i := range ci.cells {
			if i != ci.self && !ci.written[i] {
				args = append(args, paren(c.cellValue(cur, cellKey(i))))
			}
		}
		if ci.recursive() {
			args = append(args, "fuel")
		}
	}
	if len(v.Call.Args) != len(ci.fn.Params) {
		fail("call of the closure with %d arguments", len(v.Call.Args))
	}
	for _, a := range v.Call.Args {
		if !(isIntType(a.Type()) || isBool(a.Type())) {
			fail("argument of type %s in a call of the closure", a.Type())
		}
		args = append(args, c.operand(a))
	}
	var ks []int
	var parts []string
	for i := range ci.cells {
		if ci.written[i] {
			k := cellKey(i)
			ks = append(ks, k)
			parts = append(parts, leanType(c.cellElem(k)))
			args = append(args, paren(c.cellValue(cur, k)))
		}
	}
	ty := strings.Join(parts, " × ")
	if len(parts) > 1 {
		ty = "(" + ty + ")"
	}
	r := c.freshName("ret")
	c.line(ind, "Option.bind (%s) fun (%s : %s) =>", strings.Join(args, " "), r, ty)
	// the callee may have re-assigned the slices the cells hold and written their memory
	for key := range cur {
		if key >= taintBase {
			other := key - taintBase
			delete(cur, tieKey(other))
			delete(cur, viewKey(other))
			delete(cur, memKey(other))
		}
	}
	for i, k := range ks {
		proj := ""
		if len(ks) > 1 {
			proj = strings.Repeat(".2", i)
			if i < len(ks)-1 {
				proj += ".1"
			}
		}
		name := c.freshName(c.fieldParam[k])
		c.line(ind, "let %s : %s := %s%s;", name, parts[i], r, proj)
		cur[k] = name
	}
}

// cellValue: the current value of a captured variable on the path being emitted.
func (c *fnCtx) cellValue(cur map[int]string, k int) string {
	n, ok := cur[k]
	if !ok {
		fail("%s is used before it is allocated", c.keyGoName(k))
	}
	return n
}

// translateClosure emits the definitions of the closure of the parent context
// `pc` (loop definitions, body, recursion wrapper) and returns them with
// go/ssa's listing of the closure.
func (pc *fnCtx) translateClosure() (defs []string, listing string) {
	ci := pc.clo
	c := &fnCtx{tr: pc.tr, f: ci.fn, target: pc.target, imports: pc.imports, names: map[ssa.Value]string{},
		defined: map[ssa.Value]string{}, defType: map[ssa.Value]string{}, used: map[string]bool{},
		fieldParam: map[int]string{}, cells: map[*ssa.Alloc]ssa.Value{}, silent: map[ssa.Value]bool{},
		rowIndex: map[ssa.Value]ssa.Value{}, joinType: map[*ssa.BasicBlock]string{},
		loopPrefix: map[*ssa.BasicBlock]string{}, isLoop: map[*ssa.BasicBlock]bool{},
		clo: ci, isClosure: true}
	c.run()
	pc.gosem2 = pc.gosem2 || c.gosem2
	pc.gosem3 = pc.gosem3 || c.gosem3
	return c.defs, ssaText(ci.fn)
}
