package main

// Generation 7: package-table initialisers, constructors of fresh structs.
//
// INITIALISERS.  A function F without parameters, results and receiver that
// stores into package-level variables of its own package ("tables": arrays of
// integers written through `&G[i]`, and variables assigned as a whole) and that
// provably runs exactly once, during package initialisation, is translated into
// a definition that RETURNS THE FINAL VALUES of the variables it writes (in the
// order of their names).  Each such variable is state, threaded through the code
// like a stored receiver field; it starts with Go's zero value (package-level
// variables are zero-initialised before any initialisation code runs), an
// element store is `GoSem3.setIdx`, an element load `GoSem.index` on the current
// state.  F is either a helper (`initMasks`) or the package initialiser that
// go/ssa synthesizes (`init`: the initialiser expressions of the package-level
// variables, here the literal of `bmtree.idxToPath`).
//
// What makes "the final value F computes" equal to "the value of the table at
// run time" — checked here over the WHOLE module and all its dependencies,
// refused otherwise (initOf):
//   1. every variable F writes is written by NO OTHER function of the program:
//      everywhere else it is only read (loads, `len`, source of append/copy);
//      its address does not escape.  This includes the synthesized package
//      initialiser: a variable with an initialiser expression that a helper
//      also writes is refused.
//   2. F runs exactly once: it is the synthesized package initialiser (run once
//      by the Go runtime, its body guarded by `init$guard`), or it is called at
//      exactly one place in the whole program, and that place is in a declared
//      `func init()` / the package initialiser of its own package, outside
//      every loop; F is used nowhere as a value.
//   3. order: F reads no package-level table except the ones it writes itself
//      (`RMask[i] = ^Mask[i]` reads what F stored before).  A read of a table
//      that ANOTHER initialiser writes is refused: the order of the initialisers
//      is not modelled, so nothing can depend on it.  F calls nothing that reads
//      package-level variables.
// ASSUMED: Go runs package initialisation once, single-threaded, before main /
// before any exported function of the package can be called; no user of the
// library outside the loaded program writes the exported tables.
//
// CONSTRUCTORS.  `t0 = new T (complit)` with T a struct, filled field by field
// and returned (as *T or converted to an interface): the fields are state (local,
// like captured variables of generation 4) starting with their zero values; the
// function's result is the TUPLE OF THE FIELDS (in declaration order) at the
// time of the return.  The pointer may be used only in field addresses, the
// conversion to an interface and the return, so nothing else can reach the
// struct.  A field of a type the translation has no value for (`io.WriterAt`)
// must be assigned exactly once, with the parameter of that type; field and
// parameter are left out (the identity of the underlying writer is not
// modelled: the methods of generation 2 treat it as THE external writer).  A
// slice the function allocated itself and stores into a field (or into an
// element of a slice of slices it builds) is consumed by the store: every view of
// its memory is stale afterwards.  A call of another constructor yields the
// callee's tuple.

import (
	"fmt"
	"go/constant"
	"go/token"
	"go/types"
	"sort"
	"strings"

	"golang.org/x/tools/go/ssa"
)

const (
	globBase   = 1 << 18 // state keys of the package-level variables an initialiser writes
	structBase = 1 << 19 // state keys of the fields of the struct a constructor allocates
)

func globKey(i int) int      { return globBase + i }
func isGlobKey(k int) bool   { return k >= globBase && k < structBase }
func structKey(i int) int    { return structBase + i }
func isStructKey(k int) bool { return k >= structBase && k < memBase }

type initInfo struct {
	globs   []*ssa.Global
	pkgInit bool
}

type globAddrInfo struct {
	key int
	idx string
}

const guardName = "init$guard"

func isSynthInit(fn *ssa.Function) bool {
	return fn != nil && fn.Name() == "init" && fn.Synthetic != "" && fn.Parent() == nil && fn.Signature.Recv() == nil
}

func inModule(p *ssa.Package) bool {
	return p != nil && (p.Pkg.Path() == modulePath || strings.HasPrefix(p.Pkg.Path(), modulePath+"/"))
}

// readOnlyUse: the instruction `in` of some function uses the package-level variable g as an operand in a
// way that can only read it.
func readOnlyUse(in ssa.Instruction, g *ssa.Global) bool {
	switch x := in.(type) {
	case *ssa.DebugRef:
		return true
	case *ssa.UnOp:
		if x.Op != token.MUL || x.X != ssa.Value(g) {
			return false
		}
		if isIntType(x.Type()) || isBool(x.Type()) {
			return true
		}
		if _, isSlice := x.Type().Underlying().(*types.Slice); isSlice {
			return readOnlySlice(x)
		}
		if _, isMap := x.Type().Underlying().(*types.Map); isMap {
			return readOnlyMap(x)
		}
		return false
	case *ssa.IndexAddr:
		return x.X == ssa.Value(g) && readOnlyAddr(x)
	case *ssa.Slice:
		return x.X == ssa.Value(g) && readOnlySlice(x)
	}
	return false
}

// readOnlyMap: a map value that is only looked up / measured.
func readOnlyMap(v ssa.Value) bool {
	refs := v.Referrers()
	if refs == nil {
		return false
	}
	for _, r := range *refs {
		switch x := r.(type) {
		case *ssa.DebugRef:
		case *ssa.Lookup:
			if x.X != v {
				return false
			}
		case *ssa.Call:
			b, ok := x.Call.Value.(*ssa.Builtin)
			if !ok || b.Name() != "len" {
				return false
			}
		default:
			return false
		}
	}
	return true
}

// initOf: is f an initialiser in the sense of the comment at the top?  nil when f writes no package-level
// variable; fails (refusal) when it does but the conditions do not hold.
func (tr *translator) initOf(f *ssa.Function) *initInfo {
	if ii, ok := tr.initMemo[f]; ok {
		return ii
	}
	tr.initMemo[f] = nil
	set := map[*ssa.Global]bool{}
	for _, b := range f.Blocks {
		for _, in := range b.Instrs {
			st, ok := in.(*ssa.Store)
			if !ok {
				continue
			}
			var g *ssa.Global
			switch a := st.Addr.(type) {
			case *ssa.Global:
				g = a
			case *ssa.IndexAddr:
				g, _ = a.X.(*ssa.Global)
			}
			if g != nil && g.Name() != guardName {
				set[g] = true
			}
		}
	}
	if len(set) == 0 {
		return nil
	}
	if len(f.Params) > 0 || f.Signature.Results().Len() > 0 || f.Signature.Recv() != nil || len(f.FreeVars) > 0 || f.Parent() != nil {
		fail("%s writes package-level variables but is not an initialiser (it has parameters, results or a receiver)", f.Name())
	}
	if !inModule(f.Pkg) {
		fail("%s is not a function of the module", f.Name())
	}
	ii := &initInfo{pkgInit: isSynthInit(f)}
	for g := range set {
		if g.Pkg != f.Pkg {
			fail("%s writes %s, a variable of another package", f.Name(), g.Name())
		}
		ii.globs = append(ii.globs, g)
	}
	sort.Slice(ii.globs, func(i, j int) bool { return ii.globs[i].Name() < ii.globs[j].Name() })
	tr.loadAllFuncs()
	// 1. written nowhere else
	for _, fn := range tr.allFuncs {
		if fn == f {
			continue
		}
		for _, b := range fn.Blocks {
			for _, in := range b.Instrs {
				for _, op := range in.Operands(nil) {
					g, ok := (*op).(*ssa.Global)
					if !ok || !set[g] {
						continue
					}
					if !readOnlyUse(in, g) {
						fail("%s, which %s initialises, is written (or its address taken) in %s as well: %s", g.Name(), f.Name(), fn.String(), in)
					}
				}
			}
		}
	}
	// 2. runs exactly once
	if !ii.pkgInit {
		tr.calledOnceFromInit(f, f.Pkg)
	}
	tr.initMemo[f] = ii
	return ii
}

// calledOnceFromInit: the function is used at exactly one place in the whole program: a static call in a
// package initialiser (declared or synthesized) of package p, outside every loop; a declared initialiser in
// turn is called once by the synthesized one.
func (tr *translator) calledOnceFromInit(f *ssa.Function, p *ssa.Package) {
	tr.loadAllFuncs()
	n := 0
	for _, fn := range tr.allFuncs {
		for _, b := range fn.Blocks {
			for _, in := range b.Instrs {
				for _, op := range in.Operands(nil) {
					if *op != ssa.Value(f) {
						continue
					}
					call, ok := in.(*ssa.Call)
					if !ok || call.Call.Value != ssa.Value(f) {
						fail("the initialiser %s is used other than in a plain call in %s: %s", f.Name(), fn.String(), in)
					}
					for _, a := range call.Call.Args {
						if a == ssa.Value(f) {
							fail("the initialiser %s is passed as a value in %s", f.Name(), fn.String())
						}
					}
					if !isPkgInit(fn) || fn.Pkg != p {
						fail("the initialiser %s is called from %s, which is not initialisation code of its package", f.Name(), fn.String())
					}
					if inCycle(b) {
						fail("the initialiser %s is called inside a loop of %s", f.Name(), fn.String())
					}
					if !isSynthInit(fn) {
						tr.calledOnceFromInit(fn, p)
					}
					n++
				}
			}
		}
	}
	if n != 1 {
		fail("the initialiser %s is called at %d places (exactly one call during package initialisation is required)", f.Name(), n)
	}
}

// readsGlobals: does the function (or anything of the module it calls) refer to a package-level variable?
func (tr *translator) readsGlobals(f *ssa.Function, seen map[*ssa.Function]bool) bool {
	if seen[f] {
		return false
	}
	seen[f] = true
	for _, b := range f.Blocks {
		for _, in := range b.Instrs {
			for _, op := range in.Operands(nil) {
				if _, ok := (*op).(*ssa.Global); ok {
					return true
				}
			}
			if call, ok := in.(ssa.CallInstruction); ok {
				callee := call.Common().StaticCallee()
				if callee == nil {
					return true
				}
				if inModule(callee.Pkg) && tr.readsGlobals(callee, seen) {
					return true
				}
			}
		}
	}
	return false
}

func (c *fnCtx) inInit() bool { return c.init7 != nil }

func (c *fnCtx) globKeyOf(g *ssa.Global) (int, bool) {
	if c.init7 == nil {
		return 0, false
	}
	for i, x := range c.init7.globs {
		if x == g {
			return globKey(i), true
		}
	}
	return 0, false
}

func (c *fnCtx) globOf(k int) *ssa.Global { return c.init7.globs[k-globBase] }

func globElemType(g *ssa.Global) types.Type { return g.Type().Underlying().(*types.Pointer).Elem() }

// globLeanType / globZero: the Lean type and Go zero value of a package-level variable that is state.
func (c *fnCtx) globLeanType(g *ssa.Global) string {
	t := globElemType(g)
	if arr, ok := t.Underlying().(*types.Array); ok {
		if !isIntType(arr.Elem()) {
			fail("table %s of element type %s", g.Name(), arr.Elem())
		}
		return "List " + leanType(arr.Elem())
	}
	if _, ok := t.Underlying().(*types.Map); ok {
		return c.mapLeanType(t)
	}
	return leanType(t)
}

func (c *fnCtx) globZero(g *ssa.Global) string {
	t := globElemType(g)
	if arr, ok := t.Underlying().(*types.Array); ok {
		if arr.Len() > 4096 {
			fail("array %s of %d elements", g.Name(), arr.Len())
		}
		return fmt.Sprintf("(%snewArray %s %d)", c.useGoSem3(), zeroOf(arr.Elem()), arr.Len())
	}
	if _, ok := t.Underlying().(*types.Map); ok {
		return "([] : " + c.mapLeanType(t) + ")"
	}
	return zeroValueOf(t)
}

// ---------------------------------------------------------------------------
// constructors

// safeLeanType: the Lean type, or "" when the translation has no value for the Go type.
func safeLeanType(t types.Type) (s string) {
	defer func() {
		if r := recover(); r != nil {
			if _, ok := r.(unsupported); !ok {
				panic(r)
			}
			s = ""
		}
	}()
	return leanType(t)
}

func isOpaqueType(t types.Type) bool { return t.String() == "io.WriterAt" }

func isCtorResultType(t types.Type) bool {
	switch u := t.Underlying().(type) {
	case *types.Pointer:
		_, ok := u.Elem().Underlying().(*types.Struct)
		return ok
	case *types.Interface:
		return !types.Identical(t, errorType)
	}
	return false
}

func namedStructOfPtr(t types.Type) *types.Named {
	p, ok := t.Underlying().(*types.Pointer)
	if !ok {
		return nil
	}
	n, ok := p.Elem().(*types.Named)
	if !ok {
		return nil
	}
	if _, ok := n.Underlying().(*types.Struct); !ok {
		return nil
	}
	return n
}

// ctorOf: f has exactly one result, of pointer-to-struct or interface type, and every value it returns is
// (an interface conversion of) the struct f allocates itself or the result of another constructor of the
// same struct type.  Returns that struct type; fails otherwise.
func (tr *translator) ctorOf(f *ssa.Function) *types.Named {
	if n, ok := tr.ctorMemo[f]; ok {
		if n == nil {
			fail("%s is not a constructor of the supported shape", f.Name())
		}
		return n
	}
	tr.ctorMemo[f] = nil
	res := f.Signature.Results()
	if res.Len() != 1 || !isCtorResultType(res.At(0).Type()) {
		fail("%s: a result of type %s", f.Name(), res)
	}
	var S *types.Named
	for _, b := range f.Blocks {
		for _, in := range b.Instrs {
			ret, ok := in.(*ssa.Return)
			if !ok {
				continue
			}
			v := ret.Results[0]
			if mi, ok := v.(*ssa.MakeInterface); ok {
				v = mi.X
			}
			var n *types.Named
			switch x := v.(type) {
			case *ssa.Alloc:
				n = namedStructOfPtr(x.Type())
			case *ssa.Call:
				callee := x.Call.StaticCallee()
				if _, isTarget := tr.byFunc[callee]; callee != nil && isTarget && callee != f {
					n = tr.ctorOf(callee)
				}
			}
			if n == nil {
				fail("%s returns %s, which is not a struct it allocates itself (nor the result of a constructor)", f.Name(), v.Name())
			}
			if S != nil && S != n {
				fail("%s returns structs of different types", f.Name())
			}
			S = n
		}
	}
	if S == nil {
		fail("%s never returns", f.Name())
	}
	tr.ctorMemo[f] = S
	return S
}

// structTupleType: the tuple of the fields the translation has values for.
func structTupleType(S *types.Named) string {
	st := S.Underlying().(*types.Struct)
	var parts []string
	for k := 0; k < st.NumFields(); k++ {
		if t := safeLeanType(st.Field(k).Type()); t != "" {
			parts = append(parts, t)
		} else if !isOpaqueType(st.Field(k).Type()) {
			fail("field %s of %s has the unsupported type %s", st.Field(k).Name(), S.Obj().Name(), st.Field(k).Type())
		}
	}
	if len(parts) == 0 {
		fail("struct %s has no field with a value", S.Obj().Name())
	}
	if len(parts) == 1 {
		return parts[0]
	}
	return "(" + strings.Join(parts, " × ") + ")"
}

// resultLeanType: the Lean type of the i-th result of callee / of the function being translated.
func (tr *translator) resultLeanType(f *ssa.Function, i int, gen int) string {
	t := f.Signature.Results().At(i).Type()
	if gen >= 7 && isCtorResultType(t) {
		return structTupleType(tr.ctorOf(f))
	}
	return leanType(t)
}

// setup7: the struct the function allocates (constructor), the package-level variables it initialises,
// the parameters without a value.
func (c *fnCtx) setup7() {
	c.globAddr = map[*ssa.IndexAddr]globAddrInfo{}
	c.ctorAlias = map[ssa.Value]bool{}
	c.opaque = map[*ssa.Parameter]bool{}
	c.sprintfSkip = map[ssa.Instruction]bool{}
	c.sprintfArgs = map[*ssa.Call][2]ssa.Value{}
	if c.gen < 7 || c.isClosure {
		return
	}
	f := c.f
	c.scanSprintf()
	// initialiser?
	if ii := c.tr.initOf(f); ii != nil {
		c.init7 = ii
		c.prepareMap()
		for i, g := range ii.globs {
			n := c.claim(g.Name(), 4000+i)
			c.fieldParam[globKey(i)] = n
			c.stored = append(c.stored, globKey(i))
			c.globLeanType(g)
		}
	} else if isSynthInit(f) {
		fail("the package initialiser %s assigns no package-level variable", f.String())
	}
	// constructor?
	for _, b := range f.Blocks {
		for _, in := range b.Instrs {
			a, ok := in.(*ssa.Alloc)
			if !ok {
				continue
			}
			S := namedStructOfPtr(a.Type())
			if S == nil {
				continue
			}
			if c.fresh7 != nil {
				fail("two structs are allocated (%s, %s)", c.fresh7.Name(), a.Name())
			}
			if inCycle(b) {
				fail("struct %s is allocated inside a loop", a.Name())
			}
			c.fresh7, c.freshT = a, S
		}
	}
	if c.fresh7 == nil {
		return
	}
	a := c.fresh7
	st := c.freshT.Underlying().(*types.Struct)
	stores := map[int]int{}
	for _, r := range *a.Referrers() {
		switch x := r.(type) {
		case *ssa.DebugRef:
		case *ssa.Return:
		case *ssa.MakeInterface:
			for _, u := range *x.Referrers() {
				switch u.(type) {
				case *ssa.DebugRef, *ssa.Return:
				default:
					fail("the interface value %s that holds the new struct is used in %s", x.Name(), u)
				}
			}
		case *ssa.FieldAddr:
			if x.X != ssa.Value(a) {
				fail("the new struct %s escapes: %s", a.Name(), r)
			}
			for _, u := range *x.Referrers() {
				switch y := u.(type) {
				case *ssa.DebugRef:
				case *ssa.UnOp:
					if y.Op != token.MUL || y.X != ssa.Value(x) {
						fail("address of field %s of the new struct used in %s", st.Field(x.Field).Name(), u)
					}
					if safeLeanType(st.Field(x.Field).Type()) == "" {
						fail("field %s of type %s is read", st.Field(x.Field).Name(), st.Field(x.Field).Type())
					}
				case *ssa.Store:
					if y.Addr != ssa.Value(x) || y.Val == ssa.Value(x) || y.Val == ssa.Value(a) {
						fail("address of field %s of the new struct escapes: %s", st.Field(x.Field).Name(), u)
					}
					stores[x.Field]++
				default:
					fail("address of field %s of the new struct escapes: %s", st.Field(x.Field).Name(), u)
				}
			}
		default:
			fail("the new struct %s escapes: %s", a.Name(), r)
		}
	}
	base := strings.ToLower(c.freshT.Obj().Name()[:1]) + c.freshT.Obj().Name()[1:]
	for k := 0; k < st.NumFields(); k++ {
		ft := st.Field(k).Type()
		if safeLeanType(ft) == "" {
			if !isOpaqueType(ft) {
				fail("field %s of %s has the unsupported type %s", st.Field(k).Name(), c.freshT.Obj().Name(), ft)
			}
			if stores[k] != 1 {
				fail("field %s (type %s, no value in the translation) must be assigned exactly once, with the parameter of that type", st.Field(k).Name(), ft)
			}
			continue
		}
		n := c.claim(base+"_"+st.Field(k).Name(), 5000+k)
		c.fieldParam[structKey(k)] = n
		c.local = append(c.local, structKey(k))
	}
}

// structTuple: the fields of the new struct on the path being emitted.
func (c *fnCtx) structTuple(cur map[int]string) string {
	st := c.freshT.Underlying().(*types.Struct)
	var parts []string
	for k := 0; k < st.NumFields(); k++ {
		if n, ok := cur[structKey(k)]; ok {
			parts = append(parts, n)
		}
	}
	if len(parts) == 1 {
		return parts[0]
	}
	return "(" + strings.Join(parts, ", ") + ")"
}

// resultOperand: a value that is returned.
func (c *fnCtx) resultOperand(r ssa.Value, cur map[int]string) string {
	if c.gen >= 7 && isCtorResultType(r.Type()) {
		v := r
		if mi, ok := v.(*ssa.MakeInterface); ok {
			v = mi.X
		}
		if c.fresh7 != nil && v == ssa.Value(c.fresh7) {
			return c.structTuple(cur)
		}
		if n, ok := c.defined[v]; ok && c.ctorAlias[v] {
			return n
		}
		fail("%s is returned: not a struct the function allocated nor the result of a constructor", r.Name())
	}
	leanType(r.Type())
	return c.operand(r)
}

// killClass: the memory of the owned value was handed over (stored into a struct field, a package-level
// variable, an element of a slice of slices): every view of it is stale from here on.
func (c *fnCtx) killClass(cur map[int]string, v ssa.Value) {
	cls := c.owned[v]
	if _, tainted := cur[taintKey(cls)]; tainted {
		fail("%s, memory held by a receiver field or captured variable, is stored elsewhere", v.Name())
	}
	delete(cur, viewKey(cls))
	delete(cur, memKey(cls))
}

// emit7: the instructions of generation 7.  false = not one of them.
func (c *fnCtx) emit7(in ssa.Instruction, ind int, cur map[int]string) bool {
	if c.sprintfSkip[in] {
		return true // builds the argument list of a recognised fmt.Sprintf call
	}
	if call, ok := in.(*ssa.Call); ok {
		if a, ok := c.sprintfArgs[call]; ok {
			c.let(ind, call, fmt.Sprintf("%ssprintfBinPad %s %s", c.useGoSem7(), c.asInt(a[0]), c.operand(a[1])))
			return true
		}
	}
	switch v := in.(type) {
	case *ssa.Alloc:
		if c.fresh7 != nil && v == c.fresh7 {
			// the fields exist from the start with their zero values (see run); nothing to do
			return true
		}

	case *ssa.FieldAddr:
		if c.fresh7 != nil && v.X == ssa.Value(c.fresh7) {
			return true // loads and stores do the work; uses were checked in setup7
		}

	case *ssa.MakeInterface:
		if !isCtorResultType(v.Type()) {
			return false
		}
		if c.fresh7 != nil && v.X == ssa.Value(c.fresh7) {
			c.silent[v] = true
			return true
		}
		if n, ok := c.defined[v.X]; ok && c.ctorAlias[v.X] {
			for _, u := range *v.Referrers() {
				switch u.(type) {
				case *ssa.DebugRef, *ssa.Return:
				default:
					fail("the interface value %s is used in %s", v.Name(), u)
				}
			}
			c.defined[v], c.defType[v], c.ctorAlias[v] = n, c.defType[v.X], true
			return true
		}

	case *ssa.IndexAddr:
		g, ok := v.X.(*ssa.Global)
		if !ok {
			return false
		}
		k, ok := c.globKeyOf(g)
		if !ok {
			return false
		}
		if _, isArr := globElemType(g).Underlying().(*types.Array); !isArr {
			fail("indexing of %s", g.Name())
		}
		uses := 0
		for _, r := range *v.Referrers() {
			switch x := r.(type) {
			case *ssa.DebugRef:
			case *ssa.UnOp:
				if x.Op != token.MUL || x.X != ssa.Value(v) || x.Block() != v.Block() {
					fail("element address %s used in %s", v.Name(), r)
				}
				uses++
			case *ssa.Store:
				if x.Addr != ssa.Value(v) || x.Val == ssa.Value(v) || x.Block() != v.Block() {
					fail("element address %s used in %s", v.Name(), r)
				}
				uses++
			default:
				fail("element address %s used in %s", v.Name(), r)
			}
		}
		if uses == 0 {
			fail("element address %s is not used (its bounds check would be lost)", v.Name())
		}
		// the bounds check is made by the load / store (same block: which panic comes first is not observable)
		c.globAddr[v] = globAddrInfo{key: k, idx: c.asInt(v.Index)}
		c.silent[v] = true
		return true

	case *ssa.UnOp:
		if v.Op != token.MUL {
			return false
		}
		switch x := v.X.(type) {
		case *ssa.FieldAddr:
			if c.fresh7 == nil || x.X != ssa.Value(c.fresh7) {
				return false
			}
			n, ok := cur[structKey(x.Field)]
			if !ok {
				fail("field %d of the new struct is read", x.Field)
			}
			c.let(ind, v, n)
			return true
		case *ssa.IndexAddr:
			a, ok := c.globAddr[x]
			if !ok {
				return false
			}
			elem := v.Type()
			c.bind(ind, v, leanType(elem), fmt.Sprintf("GoSem.index %s %s", cur[a.key], a.idx))
			return true
		case *ssa.Global:
			if x.Name() == guardName && c.inInit() && c.init7.pkgInit && x.Pkg == c.f.Pkg {
				// package initialisation runs once: the guard is false when the initialiser is entered
				c.let(ind, v, "false")
				return true
			}
			if k, ok := c.globKeyOf(x); ok {
				if !(isIntType(v.Type()) || isBool(v.Type())) {
					fail("the initialiser reads %s as a whole", x.Name())
				}
				c.let(ind, v, cur[k])
				return true
			}
			if c.inInit() {
				fail("the initialiser reads the package-level variable %s, which it does not initialise itself (the order of initialisation is not modelled)", x.Name())
			}
		}

	case *ssa.Store:
		switch a := v.Addr.(type) {
		case *ssa.FieldAddr:
			if c.fresh7 == nil || a.X != ssa.Value(c.fresh7) {
				return false
			}
			st := c.freshT.Underlying().(*types.Struct)
			ft := st.Field(a.Field).Type()
			if safeLeanType(ft) == "" {
				p, ok := v.Val.(*ssa.Parameter)
				if !ok || !c.opaque[p] || !types.Identical(p.Type(), ft) {
					fail("field %s (type %s, no value in the translation) is set to %s, not to the parameter of that type", st.Field(a.Field).Name(), ft, v.Val.Name())
				}
				return true
			}
			c.setState(ind, cur, structKey(a.Field), ft, v.Val)
			return true
		case *ssa.IndexAddr:
			ga, ok := c.globAddr[a]
			if !ok {
				return false
			}
			name := c.freshName(c.fieldParam[ga.key])
			c.line(ind, "Option.bind (%ssetIdx %s %s %s) fun (%s : %s) =>", c.useGoSem3(), cur[ga.key], ga.idx, c.operand(v.Val), name,
				c.globLeanType(c.globOf(ga.key)))
			cur[ga.key] = name
			return true
		case *ssa.Global:
			if a.Name() == guardName && c.inInit() && c.init7.pkgInit && a.Pkg == c.f.Pkg {
				return true
			}
			k, ok := c.globKeyOf(a)
			if !ok {
				return false
			}
			if _, isMap := v.Val.Type().Underlying().(*types.Map); isMap {
				c.storeMap(ind, cur, k, v.Val)
				return true
			}
			if _, isArr := globElemType(a).Underlying().(*types.Array); isArr {
				fail("the array %s is assigned as a whole", a.Name())
			}
			c.setState(ind, cur, k, globElemType(a), v.Val)
			return true
		}

	case *ssa.Call:
		callee := v.Call.StaticCallee()
		if c.inInit() && c.init7.pkgInit && isSynthInit(callee) && callee.Pkg != c.f.Pkg && len(v.Call.Args) == 0 {
			// the initialiser of an imported package: it cannot write the variables of this package (checked: nothing
			// but this function writes them)
			return true
		}
		if c.inInit() && callee != nil {
			if _, isTarget := c.tr.byFunc[callee]; isTarget && c.tr.readsGlobals(callee, map[*ssa.Function]bool{}) {
				fail("the initialiser calls %s, which reads package-level variables (the order of initialisation is not modelled)", callee.Name())
			}
		}

	case *ssa.MakeMap, *ssa.MapUpdate:
		return c.emitMap(in, ind, cur)
	}
	return false
}

// setState: `field = val` / `global = val` for a state variable of type t.
func (c *fnCtx) setState(ind int, cur map[int]string, k int, t types.Type, val ssa.Value) {
	name := c.freshName(c.fieldParam[k])
	ty := leanType(t)
	if _, isOwned := c.owned[val]; isOwned {
		m := c.readOwned(val)
		if et := "List " + paren(leanType(c.clsElem(c.owned[val]))); et != ty {
			fail("%s of type %s is set to memory of type %s", c.fieldParam[k], ty, et)
		}
		c.line(ind, "let %s : %s := %s;", name, ty, m)
		c.killClass(cur, val)
	} else {
		leanType(val.Type())
		c.line(ind, "let %s : %s := %s;", name, ty, c.operand(val))
	}
	cur[k] = name
}

// ---------------------------------------------------------------------------
// maps built by an initialiser (bitword.BitWord): map[int]<constructor result>.  A map value is the list of
// its (key, value) pairs; `m[k] = v` is GoSem7.mapUpdate (replace the pair with that key, or append).  The
// map is local to the initialiser until it is stored in the package-level variable.

func (c *fnCtx) mapLeanType(t types.Type) string {
	m := t.Underlying().(*types.Map)
	if !isIntType(m.Key()) {
		fail("map with keys of type %s", m.Key())
	}
	if c.mapElem == "" {
		fail("map %s: the type of its values is not known", t)
	}
	return "List (" + leanType(m.Key()) + " × " + c.mapElem + ")"
}

// prepareMap: the one map the initialiser makes (all of its uses in the block that makes it: updates with
// results of constructors of one struct type, then the store into the package-level variable).
func (c *fnCtx) prepareMap() {
	for _, b := range c.f.Blocks {
		for _, in := range b.Instrs {
			v, ok := in.(*ssa.MakeMap)
			if !ok {
				continue
			}
			if c.theMap != nil {
				fail("two maps")
			}
			if inCycle(v.Block()) {
				fail("a map is made inside a loop")
			}
			var S *types.Named
			for _, r := range *v.Referrers() {
				if _, dbg := r.(*ssa.DebugRef); !dbg && r.Block() != b {
					fail("the map %s is used in another block than it is made in: %s", v.Name(), r)
				}
				switch x := r.(type) {
				case *ssa.DebugRef:
				case *ssa.MapUpdate:
					if x.Map != ssa.Value(v) || x.Key == ssa.Value(v) || x.Value == ssa.Value(v) {
						fail("the map %s escapes: %s", v.Name(), r)
					}
					// the type of the values: every value stored is the result of a constructor of one struct type
					call, ok := x.Value.(*ssa.Call)
					if !ok || call.Call.StaticCallee() == nil {
						fail("map value %s is not the result of a constructor", x.Value.Name())
					}
					if _, isTarget := c.tr.byFunc[call.Call.StaticCallee()]; !isTarget {
						fail("map value %s is not the result of a constructor in the target list", x.Value.Name())
					}
					n := c.tr.ctorOf(call.Call.StaticCallee())
					if S != nil && S != n {
						fail("map values of different struct types")
					}
					S = n
				case *ssa.Store:
					if _, ok := x.Addr.(*ssa.Global); !ok || x.Val != ssa.Value(v) {
						fail("the map %s escapes: %s", v.Name(), r)
					}
				default:
					fail("the map %s escapes: %s", v.Name(), r)
				}
			}
			if S == nil {
				fail("map %s is never updated", v.Name())
			}
			c.mapElem = structTupleType(S)
			c.theMap = v
		}
	}
}

func (c *fnCtx) emitMap(in ssa.Instruction, ind int, cur map[int]string) bool {
	if !c.inInit() {
		fail("maps outside an initialiser: %s", in)
	}
	switch v := in.(type) {
	case *ssa.MakeMap:
		ty := c.mapLeanType(v.Type())
		c.line(ind, "let %s : %s := [];", v.Name(), ty)
		c.mapCur = v.Name()
		c.mapType = ty
		return true
	case *ssa.MapUpdate:
		if c.theMap == nil || v.Map != ssa.Value(c.theMap) {
			fail("update of a map the function did not make: %s", v)
		}
		if c.mapCur == "" {
			fail("the map is updated after it was stored: %s", v)
		}
		if !c.ctorAlias[v.Value] {
			fail("map value %s is not the result of a constructor", v.Value.Name())
		}
		name := c.freshName(c.theMap.Name())
		c.line(ind, "let %s : %s := %smapUpdate %s %s %s;", name, c.mapType, c.useGoSem7(), c.mapCur, c.operand(v.Key), c.defined[v.Value])
		c.mapCur = name
		return true
	}
	return false
}

func (c *fnCtx) storeMap(ind int, cur map[int]string, k int, val ssa.Value) {
	if c.theMap == nil || val != ssa.Value(c.theMap) || c.mapCur == "" {
		fail("%s is set to a map the function did not make", c.fieldParam[k])
	}
	name := c.freshName(c.fieldParam[k])
	c.line(ind, "let %s : %s := %s;", name, c.mapType, c.mapCur)
	cur[k] = name
	c.mapCur = "" // handed over: no update after this
}

func (c *fnCtx) useGoSem7() string {
	if c.gen < 7 {
		fail("construct outside the subset of ssa2lean4")
	}
	c.gosem7 = true
	return "GoSem7."
}

// ---------------------------------------------------------------------------
// fmt.Sprintf("%0[1]*[2]b", width, x): EXTERNAL, its contract for exactly this format is GoSem7.sprintfBinPad.
// go/ssa builds the variadic argument list in a fresh array `new [2]any (varargs)`: two element stores of
// interface conversions, the slice of the whole array, the call — all in one block, the array used for nothing
// else.  Those instructions have no Lean counterpart; the call becomes `GoSem7.sprintfBinPad width x`.

const sprintfBinFormat = "%0[1]*[2]b"

func (c *fnCtx) scanSprintf() {
	for _, b := range c.f.Blocks {
		if endsInPanic(b) {
			continue
		}
		for _, in := range b.Instrs {
			call, ok := in.(*ssa.Call)
			if !ok {
				continue
			}
			callee := call.Call.StaticCallee()
			if callee == nil || callee.Pkg == nil || callee.Pkg.Pkg.Path() != "fmt" || callee.Name() != "Sprintf" || callee.Signature.Recv() != nil {
				continue
			}
			bad := func(why string) { fail("fmt.Sprintf outside the one supported form (%s): %s", why, call) }
			if len(call.Call.Args) != 2 {
				bad("arguments")
			}
			k, ok := call.Call.Args[0].(*ssa.Const)
			if !ok || k.Value == nil || !isString(k.Type()) || constant.StringVal(k.Value) != sprintfBinFormat {
				bad("only the constant format " + sprintfBinFormat)
			}
			sl, ok := call.Call.Args[1].(*ssa.Slice)
			if !ok || sl.Low != nil || sl.High != nil || sl.Max != nil || sl.Block() != b {
				bad("argument list")
			}
			arr, ok := sl.X.(*ssa.Alloc)
			if !ok || arr.Block() != b {
				bad("argument list")
			}
			at, isArr := isArrayPtr(arr.Type())
			if !isArr || at.Len() != 2 {
				bad("two arguments are required")
			}
			if refs := sl.Referrers(); refs == nil || len(*refs) != 1 {
				bad("the argument list is used elsewhere")
			}
			skip := []ssa.Instruction{arr, sl}
			var vals [2]ssa.Value
			for _, r := range *arr.Referrers() {
				switch x := r.(type) {
				case *ssa.DebugRef:
				case *ssa.Slice:
					if x != sl {
						bad("the argument list is used elsewhere")
					}
				case *ssa.IndexAddr:
					if x.X != ssa.Value(arr) || x.Block() != b {
						bad("argument list")
					}
					var idx int64 = -1
					for i := int64(0); i < 2; i++ {
						if constIntIs(x.Index, i) {
							idx = i
						}
					}
					if idx < 0 || x.Referrers() == nil || len(*x.Referrers()) != 1 {
						bad("argument list")
					}
					st, ok := (*x.Referrers())[0].(*ssa.Store)
					if !ok || st.Addr != ssa.Value(x) || st.Block() != b || vals[idx] != nil {
						bad("argument list")
					}
					mi, ok := st.Val.(*ssa.MakeInterface)
					if !ok || mi.Block() != b || mi.Referrers() == nil || len(*mi.Referrers()) != 1 {
						bad("argument list")
					}
					vals[idx] = mi.X
					skip = append(skip, x, st, mi)
				default:
					bad("the argument list is used elsewhere")
				}
			}
			if vals[0] == nil || vals[1] == nil {
				bad("argument list")
			}
			if !isIntType(vals[0].Type()) || !isSigned(vals[0].Type()) {
				bad("the width must be of a signed integer type")
			}
			if !isIntType(vals[1].Type()) || !isUnsigned(vals[1].Type()) {
				bad("the value must be of an unsigned integer type")
			}
			for _, x := range skip {
				c.sprintfSkip[x] = true
			}
			c.sprintfArgs[call] = vals
		}
	}
}
