// Command ssa2lean9 (generation 9 = generation 7 + the unsafe string-to-slice idiom of bitstr.StrCmpUpto,
// the first line of size.stat, binary.Write/Read of pbcmpl's header; see unsafe9.go, README.md.  Generation 7: ssa2lean4 + package-table initialisers,
// constructors of fresh structs, slices of slices / strings that are built,
// int8 / int16 / uint16 values; see init7.go and README.md.  Generation 4 was
// ssa2lean3 + closures that capture variables by reference, see closure.go)
// translates the SSA form of selected functions of
// github.com/openacid/low into Lean 4 definitions (one file per function under
// lean/Generated/Ssa3).  It is the translator of tools/ssa2lean (loop-free
// functions) and tools/ssa2lean2 (loops that only read memory, explicit panics,
// slicing, lookup tables, the no-op contract stub, one external call) extended
// to functions that ALLOCATE AND WRITE SLICES (make / append / copy / indexed
// stores into memory the function allocated itself), to NESTED loops and to
// methods that update a slice held in their receiver.  The hand-written proofs
// in lean/LowProofs/Tie3 show that each generated definition equals the
// hand-written model function for every sufficiently large `fuel`; since the
// definitions are regenerated from the current source on every run, the Lean
// kernel re-checks the model against what the code says now.  See README.md.
package main

import (
	"flag"
	"fmt"
	"os"
	"path/filepath"
	"sort"
	"strings"

	"golang.org/x/tools/go/packages"
	"golang.org/x/tools/go/ssa"
	"golang.org/x/tools/go/ssa/ssautil"
)

const modulePath = "github.com/openacid/low"

// The targets of the original ssa2lean (loop-free; generated into
// lean/Generated/Ssa, namespace Low.Gen.Ssa, by that tool).  ssa2lean2 refers
// to their generated definitions when one of its own targets calls them, and
// can regenerate them, byte for byte as the original tool does, with -only.
var legacyTargets = []string{
	"bitmap.Get",
	"bitmap.Get1",
	"bitmap.Getw",
	"bitmap.SafeGet",
	"bitmap.SafeGet1",
	"bitmap.Rank64",
	"bitmap.Rank128",
	"bitmap.FromStr32",
	"bmtree.Height",
	"bmtree.PathLen",
	"bmtree.PathHeight",
	"bmtree.PathBits",
	"bmtree.PathMask",
	"bmtree.NewPath",
	"bmtree.PathOf",
	"bitstr.Len",
	"iohelper.SectionWriter.Seek",
	"iohelper.SectionWriter.Size",
}

// The TARGET LIST of ssa2lean2 (generated into lean/Generated/Ssa2, namespace
// Low.Gen.Ssa2).  `pkg.Func` is a package-level function, `pkg.Type.Method` a
// method with receiver *Type.  Order matters only for the report.
var newTargets = []string{
	"bitmap.NextOne",
	"bitmap.PrevOne",
	"bmtree.shiftMulti",
	"bmtree.PathToIndex",
	"bmtree.PathToIndexLoose",
	"bitmap.Select32R64",
	"bitmap.Select32",
	"bmtree.IndexToPath",
	"bitstr.Cmp",
	"bitstr.cmpBytes",
	"bitstr.CmpUpto",
	"iohelper.SectionWriter.Write",
	"iohelper.SectionWriter.WriteAt",
	"bitword.bitWord.Get",
	"bitword.bitWord.FirstDiff",
}

// The TARGET LIST of ssa2lean3 (generated into lean/Generated/Ssa3, namespace
// Low.Gen.Ssa3): functions that allocate and write slices, nested loops.
var gen3Targets = []string{
	"bitmap.IndexRank64",
	"bitmap.IndexRank128",
	"bitmap.IndexSelect32",
	"bitmap.ToArray",
	"bitmap.Of",
	"bitmap.Slice",
	"bitmap.Join",
	"sigbits.get64Bits",
	"sigbits.sFirstDiffBit",
	"sigbits.FirstDiffBits",
	"sigbits.countPrefixes",
	"bitword.bitWord.FromStr",
	"bitword.bitWord.ToStr",
	"bitstr.New",
	"bmtree.AllPaths",
	"bmtree.Decode",
	"bmtree.PathsOf",
	"bitmap.OfMany",
	"bitmap.IndexSelect32R64",
	"sigbits.SigBits.CountPrefixes",
	"bitmap.Builder.Extend",
	"bitmap.Builder.Set",
	"bitmap.TailBitmap.Set",
	"bitmap.TailBitmap.Compact",
	"bitmap.TailBitmap.Get",
	"bitmap.TailBitmap.Get1",
}

// The TARGET LIST of ssa2lean4 (generated into lean/Generated/Ssa4, namespace
// Low.Gen.Ssa4): functions that create and call a closure (closure.go).
var gen4Targets = []string{
	"sigbits.ShardByPrefix",
	"pbcmpl.verStr",
}

// The TARGET LIST of ssa2lean7 (generated into lean/Generated/Ssa7, namespace
// Low.Gen.Ssa7): table initialisers, constructors, the remaining small
// functions and mathext/util (init7.go).
var gen7Targets = []string{
	"bitmap.initMasks",
	"bitmap.initSelectLookup",
	"bmtree.init",
	"bitmap.NewBuilder",
	"bitmap.NewTailBitmap",
	"iohelper.NewSectionWriter",
	"iohelper.AtToWriter",
	"sigbits.New",
	"bitword.newBW",
	"bitword.init",
	"bitword.bitWord.FromStrs",
	"bitword.bitWord.ToStrs",
	"bitmap.select32single",
	"bitmap.indexSelectU64",
	"bitmap.selectU64Indexed",
	"bmtree.PathStr",
}

func init() {
	for _, w := range []string{"I", "I8", "I16", "I32", "I64", "U", "U8", "U16", "U32", "U64"} {
		for _, f := range []string{"Min", "Max", "Clap"} {
			gen7Targets = append(gen7Targets, "mathext/util."+f+w)
		}
	}
	targetList = append(targetList, gen7Targets...)
	targetList = append(targetList, gen9Targets...)
}

// The TARGET LIST of ssa2lean9 (generated into lean/Generated/Ssa9, namespace
// Low.Gen.Ssa9): the last functions the properties name that had no regenerated
// tie (unsafe9.go, stat9.go, binary9.go).
var gen9Targets = []string{
	"bitstr.StrCmpUpto",
	"pbcmpl.header.Marshal",
	"pbcmpl.header.Unmarshal",
}

var targetList = append(append(append(append([]string{}, legacyTargets...), newTargets...), gen3Targets...), gen4Targets...)

func fatalf(format string, args ...interface{}) {
	fmt.Fprintf(os.Stderr, "ssa2lean9: FATAL: "+format+"\n", args...)
	os.Exit(1)
}

func main() {
	repo := flag.String("repo", "/repo", "root of the github.com/openacid/low module")
	outdir := flag.String("outdir", "", "directory for the generated Lean files (required), e.g. /verif/lean/Generated/Ssa")
	only := flag.String("only", "", "comma-separated subset of the target list (default: all targets)")
	tags := flag.String("tags", "verif", "build tags used to load the repo")
	quiet := flag.Bool("q", false, "do not print the per-function report")
	dump := flag.Bool("dump", false, "print go/ssa's listing of the selected targets and exit")
	extra := flag.String("extra", "", "comma-separated functions to translate IN ADDITION to the target list, as generation-9 targets (experiments and the differential test of the translator; they have no tie)")
	flag.Parse()
	for _, t := range strings.Split(*extra, ",") {
		if t = strings.TrimSpace(t); t != "" {
			gen9Targets = append(gen9Targets, t)
			targetList = append(targetList, t)
		}
	}
	if *outdir == "" && !*dump {
		fmt.Fprintln(os.Stderr, "usage: ssa2lean9 -repo /repo -outdir DIR [-only pkg.Func,...]")
		os.Exit(1)
	}
	absRepo, err := filepath.Abs(*repo)
	if err != nil {
		fatalf("bad -repo: %v", err)
	}
	if st, err := os.Stat(filepath.Join(absRepo, "go.mod")); err != nil || st.IsDir() {
		fatalf("%s is not a Go module root (no go.mod)", absRepo)
	}

	selected := gen9Targets
	if *only != "" {
		known := map[string]bool{}
		for _, t := range targetList {
			known[t] = true
		}
		selected = nil
		for _, t := range strings.Split(*only, ",") {
			t = strings.TrimSpace(t)
			if t == "" {
				continue
			}
			if !known[t] {
				fatalf("-only: %q is not in the target list", t)
			}
			selected = append(selected, t)
		}
	}

	prog, pkgs := load(absRepo, *tags, targetList)
	tr := newTranslator(prog, pkgs, targetList, legacyTargets, newTargets, gen3Targets, gen4Targets, gen7Targets)
	if *dump {
		for _, name := range selected {
			if f := tr.byName[name]; f != nil {
				fmt.Print(ssaText(f))
				for _, a := range f.AnonFuncs {
					fmt.Print(ssaText(a))
				}
			} else {
				fmt.Printf("%s: %s\n", name, tr.resolveErr[name])
			}
		}
		return
	}

	if err := os.MkdirAll(*outdir, 0o755); err != nil {
		fatalf("%v", err)
	}
	failed := 0
	for _, name := range selected {
		lean, reason := tr.translate(name)
		leanName := leanNameOf(name)
		var text string
		if reason != "" {
			failed++
			text = unsupportedFile(name, leanName, reason, tr.genOf(name))
		} else {
			text = lean
		}
		path := filepath.Join(*outdir, leanName+".lean")
		if err := os.WriteFile(path, []byte(text), 0o644); err != nil {
			fatalf("writing %s: %v", path, err)
		}
		if !*quiet {
			if reason != "" {
				fmt.Printf("%-32s UNSUPPORTED: %s\n", name, reason)
			} else {
				fmt.Printf("%-32s ok -> %s\n", name, path)
			}
		}
	}
	if failed > 0 {
		fmt.Fprintf(os.Stderr, "ssa2lean9: %d of %d target(s) could not be translated\n", failed, len(selected))
		os.Exit(2)
	}
}

// genNames: the tool, Lean namespace and tie directory of a generation
// (1 = tools/ssa2lean, 2 = tools/ssa2lean2, 3 = tools/ssa2lean3, 4 = this tool).
func genNames(gen int) (tool, ns, tie string) {
	switch gen {
	case 1:
		return "tools/ssa2lean", "Low.Gen.Ssa", "LowProofs/Tie"
	case 2:
		return "tools/ssa2lean2", "Low.Gen.Ssa2", "LowProofs/Tie2"
	case 3:
		return "tools/ssa2lean3", "Low.Gen.Ssa3", "LowProofs/Tie3"
	case 4:
		return "tools/ssa2lean4", "Low.Gen.Ssa4", "LowProofs/Tie4"
	case 7:
		return "tools/ssa2lean7", "Low.Gen.Ssa7", "LowProofs/Tie7"
	}
	return "tools/ssa2lean9", "Low.Gen.Ssa9", "LowProofs/Tie9"
}

// leanNameOf maps "bitmap.Get" to "bitmap_Get" ("mathext/util.MinI" to "mathext_util_MinI").
func leanNameOf(target string) string {
	return strings.ReplaceAll(strings.ReplaceAll(target, ".", "_"), "/", "_")
}

func unsupportedFile(target, leanName, reason string, gen int) string {
	tool, ns, _ := genNames(gen)
	var b strings.Builder
	fmt.Fprintf(&b, "/- GENERATED by %s from the SSA form of %s.  DO NOT EDIT.\n", tool, target)
	b.WriteString("   The function could NOT be translated; the tie proof that refers to the definition must fail. -/\n")
	fmt.Fprintf(&b, "namespace %s\n", ns)
	fmt.Fprintf(&b, "def %s_UNSUPPORTED : String := %s\n", leanName, leanString(reason))
	fmt.Fprintf(&b, "end %s\n", ns)
	return b.String()
}

func leanString(s string) string {
	var b strings.Builder
	b.WriteByte('"')
	for _, r := range s {
		switch {
		case r == '"' || r == '\\':
			b.WriteByte('\\')
			b.WriteRune(r)
		case r == '\n':
			b.WriteString("\\n")
		case r == '\t':
			b.WriteString("\\t")
		case r < 0x20:
			fmt.Fprintf(&b, "\\x%02x", r)
		default:
			b.WriteRune(r)
		}
	}
	b.WriteByte('"')
	return b.String()
}

// load type-checks the packages of the target list (and all their
// dependencies) from source and builds SSA for the whole program.  Any error
// at all is fatal: a translation of a tree that does not build would be
// meaningless.
func load(repo, tags string, targets []string) (*ssa.Program, map[string]*ssa.Package) {
	cfg := &packages.Config{
		Dir:   repo,
		Mode:  packages.LoadAllSyntax,
		Tests: false,
	}
	if tags != "" {
		cfg.BuildFlags = []string{"-tags=" + tags}
	}
	seen := map[string]bool{}
	var patterns []string
	for _, t := range targets {
		p := strings.SplitN(t, ".", 2)[0]
		if !seen[p] {
			seen[p] = true
			patterns = append(patterns, modulePath+"/"+p)
		}
	}
	sort.Strings(patterns)
	// generation 7: the checks "this table is written nowhere but in its initialiser" range over the whole module
	loadPatterns := append(append([]string{}, patterns...), modulePath+"/...")
	initial, err := packages.Load(cfg, loadPatterns...)
	if err != nil {
		fatalf("cannot load packages from %s: %v", repo, err)
	}
	var errs []string
	packages.Visit(initial, nil, func(p *packages.Package) {
		for _, e := range p.Errors {
			errs = append(errs, fmt.Sprintf("%s: %v", p.PkgPath, e))
		}
		if p.IllTyped && len(p.Errors) == 0 {
			errs = append(errs, fmt.Sprintf("%s: package is ill-typed", p.PkgPath))
		}
	})
	if len(errs) > 0 {
		sort.Strings(errs)
		if len(errs) > 30 {
			errs = append(errs[:30], fmt.Sprintf("... and %d more", len(errs)-30))
		}
		fatalf("%s does not build; refusing to translate it:\n  %s", repo, strings.Join(errs, "\n  "))
	}
	got := map[string]*packages.Package{}
	for _, p := range initial {
		got[p.PkgPath] = p
	}
	for _, want := range patterns {
		p := got[want]
		if p == nil || p.Types == nil || len(p.Syntax) == 0 {
			fatalf("package %s was not loaded from %s (no Go files?)", want, repo)
		}
	}

	prog, ssaPkgs := ssautil.AllPackages(initial, ssa.BuilderMode(0))
	prog.Build()

	byName := map[string]*ssa.Package{}
	for i, p := range ssaPkgs {
		if p == nil {
			fatalf("no SSA package for %s", initial[i].PkgPath)
		}
		byName[strings.TrimPrefix(p.Pkg.Path(), modulePath+"/")] = p
	}
	return prog, byName
}
