package main

// Generation 9, part A: THE ONE `unsafe` IDIOM of the module — bitstr.StrCmpUpto views the bytes of a string as a
// []byte without copying:
//
//	var bs []byte
//	sh := (*reflect.SliceHeader)(unsafe.Pointer(&bs))
//	sh.Data = (*reflect.StringHeader)(unsafe.Pointer(&a)).Data
//	sh.Len = len(a)
//	sh.Cap = len(a)
//	… bs is only read …
//
// scanUnsafe9 recognises EXACTLY this shape in the SSA form and nothing more general; then `bs` is the read-only
// byte list of `a` (a string is the list of its bytes in this translation, so a load of `bs` is the value of `a`).
// Every deviation is refused (exit 2, `_UNSUPPORTED`):
//
//   * the slice variable: `new []byte`, no store to the variable itself; its address has ONE use besides loads:
//     the conversion to unsafe.Pointer, whose ONE use is the conversion to *reflect.SliceHeader (the named type of
//     package reflect, checked to be struct{Data uintptr; Len int; Cap int});
//   * the header pointer has exactly three uses: the addresses of fields 0, 1, 2, each used by exactly one store.
//     A field that is not stored (the `Cap` of defect D5 came from stack garbage), stored twice, read, or a header
//     pointer that is passed / stored / compared is refused;
//   * Data is stored with ONE load of field 0 (`Data`) of (*reflect.StringHeader)(unsafe.Pointer(&s)) where `s` is a
//     local string cell (a parameter or local whose address is taken: written once, before, never through the header
//     pointer — the header pointer's only use is that field address, the field address's only use is that load);
//   * Len and Cap are both stored with `len(s)` of THE SAME string (a load of the same cell, or the value stored in it);
//   * the whole idiom sits in the block that allocates `bs`; every load of `bs` comes after the three stores;
//   * a loaded `bs` may only be READ: passed to a statically called non-method target whose results are all of basic
//     types (such a function is translated read-only: it cannot write, return or retain its argument), `len`, or indexed
//     for a load.  Returned, stored, sliced, appended to, converted, put in a phi, captured: refused (the memory of a
//     string must never be written and `bs` must not outlive the string).
//   * the pun of the whole header, `*(*[]byte)(unsafe.Pointer(&a))` (defect D5), never has this shape: a `*string`
//     converted to unsafe.Pointer whose use is not the conversion to *reflect.StringHeader is refused.
//
// Trusted (Go semantics, `unsafe.Pointer` rule 6 of package unsafe): a slice variable whose header words are
// (p, n, n) addresses exactly the n bytes at p; the Data word of a string's header is the address of its bytes and
// len(s) their number; writing the Data word of a REAL slice variable through *reflect.SliceHeader makes the
// collector see the pointer; `a`, whose address is taken, stays alive for the whole call.

import (
	"go/token"
	"go/types"

	"golang.org/x/tools/go/ssa"
)

type unsafe9Info struct {
	bs      *ssa.Alloc               // the slice variable
	str     *ssa.Alloc               // the string cell whose bytes it views
	strConv *ssa.Convert             // unsafe.Pointer(&s): the one extra use of the string cell scanCells must allow
	skip    map[ssa.Instruction]bool // the instructions of the idiom: no Lean counterpart
}

func isUnsafePointer(t types.Type) bool {
	b, ok := t.Underlying().(*types.Basic)
	return ok && b.Kind() == types.UnsafePointer
}

// reflectHeader: t = *reflect.<name> with the expected field names and types?
func isReflectHeaderPtr(t types.Type, name string, fields []string, kinds []types.BasicKind) bool {
	p, ok := t.(*types.Pointer)
	if !ok {
		return false
	}
	n, ok := p.Elem().(*types.Named)
	if !ok || n.Obj().Pkg() == nil || n.Obj().Pkg().Path() != "reflect" || n.Obj().Name() != name {
		return false
	}
	st, ok := n.Underlying().(*types.Struct)
	if !ok || st.NumFields() != len(fields) {
		return false
	}
	for i := range fields {
		b, ok := st.Field(i).Type().(*types.Basic)
		if st.Field(i).Name() != fields[i] || !ok || b.Kind() != kinds[i] {
			return false
		}
	}
	return true
}

// realRefs: the referrers of v without DebugRefs.
func realRefs(v ssa.Value) []ssa.Instruction {
	var out []ssa.Instruction
	if v.Referrers() == nil {
		return nil
	}
	for _, r := range *v.Referrers() {
		if _, dbg := r.(*ssa.DebugRef); !dbg {
			out = append(out, r)
		}
	}
	return out
}

func isByteSlice(t types.Type) bool {
	s, ok := t.Underlying().(*types.Slice)
	if !ok {
		return false
	}
	b, ok := s.Elem().Underlying().(*types.Basic)
	return ok && b.Kind() == types.Uint8
}

// scanUnsafe9 runs before scanCells.  It looks at every conversion to unsafe.Pointer in the function: each must
// belong to one instance of the idiom (at most one per function), everything else is refused here with a message
// that names the deviation (the general translator would refuse it anyway: it has no pointer conversions).
func (c *fnCtx) scanUnsafe9() {
	if c.gen < 9 || c.isClosure {
		return
	}
	var bsConvs, strConvs []*ssa.Convert
	for _, b := range c.f.Blocks {
		for _, in := range b.Instrs {
			cv, ok := in.(*ssa.Convert)
			if !ok {
				continue
			}
			if isUnsafePointer(cv.Type()) {
				a, isAlloc := cv.X.(*ssa.Alloc)
				if !isAlloc {
					fail("unsafe.Pointer of %s, which is not the address of a local variable", cv.X.Name())
				}
				pt := a.Type().(*types.Pointer).Elem()
				switch {
				case isByteSlice(pt) && types.Identical(pt, types.NewSlice(types.Typ[types.Byte])):
					bsConvs = append(bsConvs, cv)
				case isString(pt):
					strConvs = append(strConvs, cv)
				default:
					fail("unsafe.Pointer of the address of a %s", pt)
				}
			} else if isUnsafePointer(cv.X.Type()) {
				if _, ok := cv.X.(*ssa.Convert); !ok {
					fail("conversion %s <- unsafe.Pointer (%s)", cv.Type(), cv.X.Name())
				}
			}
		}
	}
	if len(bsConvs) == 0 && len(strConvs) == 0 {
		return
	}
	if len(bsConvs) != 1 {
		if len(bsConvs) == 0 {
			fail("the address of a string is converted to unsafe.Pointer, but no local []byte is filled through *reflect.SliceHeader (a string header reinterpreted as a whole has no capacity word: refused)")
		}
		fail("%d local []byte variables are converted to unsafe.Pointer (one instance of the string-view idiom per function)", len(bsConvs))
	}
	if len(strConvs) != 1 {
		fail("the string-view idiom needs exactly one string whose header is read (found %d)", len(strConvs))
	}
	u := &unsafe9Info{skip: map[ssa.Instruction]bool{}}
	bsConv, strConv := bsConvs[0], strConvs[0]
	u.bs, u.str, u.strConv = bsConv.X.(*ssa.Alloc), strConv.X.(*ssa.Alloc), strConv
	B := u.bs.Block()
	if inCycle(B) {
		fail("the string-view idiom inside a loop")
	}
	inB := func(in ssa.Instruction, what string) int {
		if in.Block() != B {
			fail("string-view idiom: %s is not in the block that declares %s", what, u.bs.Comment)
		}
		return instrPos(in)
	}

	// --- the slice variable: &bs is used by loads and by the one conversion -------------------------------------
	var bsLoads []*ssa.UnOp
	for _, r := range realRefs(u.bs) {
		switch x := r.(type) {
		case *ssa.UnOp:
			if x.Op != token.MUL {
				fail("string-view idiom: the address of %s is used in %s", u.bs.Comment, r)
			}
			bsLoads = append(bsLoads, x)
		case *ssa.Convert:
			if x != bsConv {
				fail("string-view idiom: the address of %s is converted twice", u.bs.Comment)
			}
		default:
			fail("string-view idiom: the address of %s is used in %s (the variable may only be filled through the header, then read)", u.bs.Comment, r)
		}
	}
	refs := realRefs(bsConv)
	if len(refs) != 1 {
		fail("string-view idiom: unsafe.Pointer(&%s) has %d uses, expected the one conversion to *reflect.SliceHeader", u.bs.Comment, len(refs))
	}
	sh, ok := refs[0].(*ssa.Convert)
	if !ok || !isReflectHeaderPtr(sh.Type(), "SliceHeader", []string{"Data", "Len", "Cap"}, []types.BasicKind{types.Uintptr, types.Int, types.Int}) {
		fail("string-view idiom: unsafe.Pointer(&%s) is used in %s, expected the conversion to *reflect.SliceHeader", u.bs.Comment, refs[0])
	}
	inB(bsConv, "the conversion of &"+u.bs.Comment)
	inB(sh, "the conversion to *reflect.SliceHeader")
	u.skip[bsConv], u.skip[sh] = true, true

	// --- the three fields, each stored exactly once ----------------------------------------------------------------
	var stores [3]*ssa.Store
	for _, r := range realRefs(sh) {
		fa, ok := r.(*ssa.FieldAddr)
		if !ok || fa.X != ssa.Value(sh) {
			fail("string-view idiom: the slice-header pointer is used in %s (only its three fields may be assigned)", r)
		}
		if fa.Field < 0 || fa.Field > 2 {
			fail("string-view idiom: field %d of reflect.SliceHeader", fa.Field)
		}
		frefs := realRefs(fa)
		if len(frefs) != 1 {
			fail("string-view idiom: the address of the header field #%d has %d uses, expected one store", fa.Field, len(frefs))
		}
		st, ok := frefs[0].(*ssa.Store)
		if !ok || st.Addr != ssa.Value(fa) || st.Val == ssa.Value(fa) {
			fail("string-view idiom: the header field #%d is used in %s (it may only be assigned)", fa.Field, frefs[0])
		}
		if stores[fa.Field] != nil {
			fail("string-view idiom: the header field #%d is assigned twice", fa.Field)
		}
		stores[fa.Field] = st
		inB(fa, "a header field address")
		inB(st, "a header field assignment")
		u.skip[fa], u.skip[st] = true, true
	}
	names := []string{"Data", "Len", "Cap"}
	last := 0
	for i, st := range stores {
		if st == nil {
			fail("string-view idiom: the field %s of the slice header is never assigned (its value would be whatever the memory held: defect D5)", names[i])
		}
		if p := instrPos(st); p > last {
			last = p
		}
	}

	// --- Data = (*reflect.StringHeader)(unsafe.Pointer(&s)).Data ---------------------------------------------------
	var strStore *ssa.Store
	for _, r := range realRefs(u.str) {
		if st, ok := r.(*ssa.Store); ok && st.Addr == ssa.Value(u.str) {
			if strStore != nil {
				fail("string-view idiom: the string %s is assigned twice", u.str.Comment)
			}
			strStore = st
		}
	}
	if strStore == nil {
		fail("string-view idiom: the string %s is never assigned", u.str.Comment)
	}
	strPos := inB(strStore, "the assignment of the string "+u.str.Comment)
	refs = realRefs(strConv)
	if len(refs) != 1 {
		fail("string-view idiom: unsafe.Pointer(&%s) has %d uses, expected the one conversion to *reflect.StringHeader", u.str.Comment, len(refs))
	}
	sth, ok := refs[0].(*ssa.Convert)
	if !ok || !isReflectHeaderPtr(sth.Type(), "StringHeader", []string{"Data", "Len"}, []types.BasicKind{types.Uintptr, types.Int}) {
		fail("string-view idiom: unsafe.Pointer(&%s) is used in %s, expected the conversion to *reflect.StringHeader (reinterpreting the string header as a slice header reads a capacity that does not exist: defect D5)", u.str.Comment, refs[0])
	}
	refs = realRefs(sth)
	if len(refs) != 1 {
		fail("string-view idiom: the string-header pointer has %d uses, expected the one read of its field Data", len(refs))
	}
	dfa, ok := refs[0].(*ssa.FieldAddr)
	if !ok || dfa.X != ssa.Value(sth) || dfa.Field != 0 {
		fail("string-view idiom: the string-header pointer is used in %s, expected the read of its field Data", refs[0])
	}
	refs = realRefs(dfa)
	if len(refs) != 1 {
		fail("string-view idiom: the address of the string header's Data has %d uses, expected one load", len(refs))
	}
	dld, ok := refs[0].(*ssa.UnOp)
	if !ok || dld.Op != token.MUL || dld.X != ssa.Value(dfa) {
		fail("string-view idiom: the string header's Data is used in %s (it may only be read)", refs[0])
	}
	refs = realRefs(dld)
	if len(refs) != 1 || refs[0] != ssa.Instruction(stores[0]) || stores[0].Val != ssa.Value(dld) {
		fail("string-view idiom: the Data word of the string header must be stored into the field Data of the slice header and used for nothing else")
	}
	for _, in := range []ssa.Instruction{strConv, sth, dfa, dld} {
		if inB(in, "the read of the string header") < strPos {
			fail("string-view idiom: the header of %s is read before the string is assigned", u.str.Comment)
		}
		u.skip[in] = true
	}

	// --- Len = len(s), Cap = len(s) ----------------------------------------------------------------------------------
	for _, i := range []int{1, 2} {
		call, ok := stores[i].Val.(*ssa.Call)
		if !ok {
			fail("string-view idiom: the field %s must be assigned len(%s), not %s", names[i], u.str.Comment, stores[i].Val)
		}
		bi, ok := call.Call.Value.(*ssa.Builtin)
		if !ok || bi.Name() != "len" || len(call.Call.Args) != 1 {
			fail("string-view idiom: the field %s must be assigned len(%s), not %s", names[i], u.str.Comment, call)
		}
		arg := call.Call.Args[0]
		same := arg == strStore.Val
		if ld, ok := arg.(*ssa.UnOp); ok && ld.Op == token.MUL && ld.X == ssa.Value(u.str) {
			same = true
		}
		if !same || !isString(arg.Type()) {
			fail("string-view idiom: the field %s must be assigned the length of %s itself, not len(%s)", names[i], u.str.Comment, arg.Name())
		}
	}

	// --- afterwards bs is only read ----------------------------------------------------------------------------------
	for _, ld := range bsLoads {
		if ld.Block() == B {
			if instrPos(ld) < last {
				fail("string-view idiom: %s is read before its header is complete", u.bs.Comment)
			}
		} else if !B.Dominates(ld.Block()) {
			fail("string-view idiom: %s is read outside the region dominated by its declaration", u.bs.Comment)
		}
		for _, r := range realRefs(ld) {
			switch x := r.(type) {
			case *ssa.Call:
				if bi, ok := x.Call.Value.(*ssa.Builtin); ok {
					if bi.Name() != "len" {
						fail("string-view idiom: %s(%s): the view of a string may only be read", bi.Name(), u.bs.Comment)
					}
					continue
				}
				callee := x.Call.StaticCallee()
				if callee == nil || x.Call.IsInvoke() {
					fail("string-view idiom: %s escapes into the dynamic call %s", u.bs.Comment, x)
				}
				if _, isTarget := c.tr.byFunc[callee]; !isTarget || callee.Signature.Recv() != nil {
					fail("string-view idiom: %s is passed to %s, which is not a translated (read-only) function", u.bs.Comment, callee.Name())
				}
				res := callee.Signature.Results()
				for i := 0; i < res.Len(); i++ {
					if _, basic := res.At(i).Type().Underlying().(*types.Basic); !basic || isString(res.At(i).Type()) || isUnsafePointer(res.At(i).Type()) {
						fail("string-view idiom: %s is passed to %s, which returns a %s (the view could escape through it)", u.bs.Comment, callee.Name(), res.At(i).Type())
					}
				}
				if x.Call.Value == ssa.Value(ld) {
					fail("string-view idiom: %s is called", u.bs.Comment)
				}
			case *ssa.IndexAddr:
				if x.X != ssa.Value(ld) {
					fail("string-view idiom: %s used in %s", u.bs.Comment, r)
				}
				for _, rr := range realRefs(x) {
					if l2, ok := rr.(*ssa.UnOp); !ok || l2.Op != token.MUL {
						fail("string-view idiom: an element of %s is used in %s: the bytes of a string may only be read", u.bs.Comment, rr)
					}
				}
			default:
				fail("string-view idiom: %s is used in %s: the view of a string may only be passed to a translated function, indexed or measured", u.bs.Comment, r)
			}
		}
	}
	c.un9 = u
	c.cells[u.bs] = strStore.Val // a load of bs is the (immutable) byte list of the string
}

// emit9: the instructions of the idiom have no Lean counterpart.
func (c *fnCtx) emit9(in ssa.Instruction) bool {
	return c.un9 != nil && c.un9.skip[in]
}
