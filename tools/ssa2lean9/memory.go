package main

// Memory the function allocates itself (generation 3).
//
// An OWNED value is a slice (or pointer to an array) whose memory was allocated
// by the function being translated: the result of `make`, of `new [N]T` (the
// arrays go/ssa introduces for make with constant size, slice literals and the
// arguments of variadic calls), of `x[:0:0]` (an empty slice of capacity 0: no
// accessible memory), of `[]byte(string)`, and everything derived from such a
// value by append (first argument), slicing, or a phi.  Owned values are grouped
// into CLASSES (union-find over these derivations): two values of different
// classes can never share memory.  For every class the translation threads ONE
// Lean value, the list of the `len` elements of the class's CURRENT VIEW, through
// the code: through straight-line code as `let`-bound versions, through joins
// and loops as a phi parameter (when the block has a phi of the class) or as a
// hidden parameter `<root>_b<N>` (when the class is live at the block but has no
// phi there).  An indexed store is a functional update `GoSem3.setIdx`, `append`
// is `++`, `copy` is `GoSem3.copyInto`.
//
// SOUNDNESS rests on one syntactic discipline, checked while emitting: every use
// of an owned SSA value must be a use of the CURRENT VIEW of its class on the
// path being emitted.  append / slicing / a phi / a fresh allocation make their
// result the current view; every older value of the class is then stale, and any
// later use of a stale value makes the translator refuse the function.  Hence at
// any time at most one usable view of a class's memory exists, the elements
// beyond its `len` are unobservable, and it does not matter whether `append`
// re-allocated.  Slices the function did NOT allocate (parameters, elements of
// parameters, results of calls, loaded receiver fields that are not written)
// are immutable values exactly as in ssa2lean2: a store, append or copy into
// them is refused.

import (
	"fmt"
	"go/constant"
	"go/token"
	"go/types"
	"sort"
	"strings"

	"golang.org/x/tools/go/ssa"
)

const (
	memBase   = 1 << 20 // cur[memBase+cls]   = Lean name of the current contents of class cls
	viewBase  = 2 << 20 // cur[viewBase+cls]  = SSA name of the current view of class cls
	tieBase   = 3 << 20 // cur[tieBase+cls]   = "k": the current view IS the slice held in receiver field k
	taintBase = 4 << 20 // cur[taintBase+cls] = "k": the class's memory is or was the memory of receiver field k
)

func memKey(cls int) int   { return memBase + cls }
func viewKey(cls int) int  { return viewBase + cls }
func tieKey(cls int) int   { return tieBase + cls }
func taintKey(cls int) int { return taintBase + cls }

type ownedAddr struct {
	cls int
	idx string    // the index, as a Lean Int expression
	x   ssa.Value // the slice / array pointer that was indexed
}

func isArrayPtr(t types.Type) (*types.Array, bool) {
	p, ok := t.Underlying().(*types.Pointer)
	if !ok {
		return nil, false
	}
	a, ok := p.Elem().Underlying().(*types.Array)
	return a, ok
}

func isSliceType(t types.Type) bool {
	_, ok := t.Underlying().(*types.Slice)
	return ok
}

func hasSliceResult(t types.Type) bool {
	if tup, ok := t.(*types.Tuple); ok {
		for i := 0; i < tup.Len(); i++ {
			if isSliceType(tup.At(i).Type()) {
				return true
			}
		}
		return false
	}
	return isSliceType(t)
}

func constIntIs(v ssa.Value, want int64) bool {
	k, ok := v.(*ssa.Const)
	if !ok || k.Value == nil || !isIntType(k.Type()) {
		return false
	}
	x := constant.ToInt(k.Value)
	if x.Kind() != constant.Int {
		return false
	}
	n, exact := constant.Int64Val(x)
	return exact && n == want
}

// isEmptyCap0: `x[:0:0]`, an empty slice of capacity 0 (the clone idiom
// `append(x[:0:0], x...)`): it gives access to no memory at all.
func isEmptyCap0(s *ssa.Slice) bool {
	return s.Low == nil && s.High != nil && s.Max != nil && constIntIs(s.High, 0) && constIntIs(s.Max, 0) &&
		isSliceType(s.X.Type())
}

func isBuiltinCall(in ssa.Instruction, name string) (*ssa.Call, bool) {
	call, ok := in.(*ssa.Call)
	if !ok {
		return nil, false
	}
	b, ok := call.Call.Value.(*ssa.Builtin)
	if !ok || b.Name() != name {
		return nil, false
	}
	return call, true
}

// ownedRoot: does the instruction allocate fresh memory?
func ownedRoot(in ssa.Instruction) bool {
	switch v := in.(type) {
	case *ssa.MakeSlice:
		return true
	case *ssa.Alloc:
		_, ok := isArrayPtr(v.Type())
		return ok
	case *ssa.Slice:
		return isEmptyCap0(v)
	case *ssa.Convert:
		return isSliceType(v.Type()) && isString(v.X.Type())
	}
	return false
}

// fieldLoad: `*(&recv.field)` for a field of slice type of the receiver
// (parameter 0 of a method).  In generation 3 the slice a receiver holds is
// treated as memory the receiver OWNS: the loaded value is a view of it.
func fieldLoad(in ssa.Instruction) (int, bool) {
	u, ok := in.(*ssa.UnOp)
	if !ok || u.Op != token.MUL || !isSliceType(u.Type()) {
		return 0, false
	}
	fa, ok := u.X.(*ssa.FieldAddr)
	if !ok {
		// generation 4: a variable captured by a closure (closure.go); the keys are ≥ cellBase
		return cellOfAddr(u.X)
	}
	f := in.Parent()
	if f == nil || f.Signature.Recv() == nil || len(f.Params) == 0 || fa.X != ssa.Value(f.Params[0]) {
		return 0, false
	}
	return fa.Field, true
}

// ownedValues: the owned values of f (see the comment at the top) as a map to
// class numbers; classes are numbered in program order of their first member.
// The loads of the slices held in the receiver fields k with fields(k) are roots too.
func ownedValues(f *ssa.Function, fields func(k int) bool) (owned map[ssa.Value]int, roots []ssa.Value) {
	set := map[ssa.Value]bool{}
	var order []ssa.Value
	add := func(v ssa.Value) bool {
		if set[v] {
			return false
		}
		set[v] = true
		order = append(order, v)
		return true
	}
	for changed := true; changed; {
		changed = false
		for _, b := range f.Blocks {
			for _, in := range b.Instrs {
				v, isVal := in.(ssa.Value)
				if !isVal || set[v] {
					continue
				}
				switch x := in.(type) {
				case *ssa.Phi:
					for _, e := range x.Edges {
						if set[e] {
							changed = add(v) || changed
							break
						}
					}
				case *ssa.Slice:
					if set[x.X] && !isEmptyCap0(x) {
						changed = add(v) || changed
					}
				case *ssa.Call:
					if call, ok := isBuiltinCall(in, "append"); ok && len(call.Call.Args) == 2 && set[call.Call.Args[0]] {
						changed = add(v) || changed
					}
				}
				if ownedRoot(in) {
					changed = add(v) || changed
				}
				if k, isFieldLoad := fieldLoad(in); isFieldLoad && fields(k) {
					changed = add(v) || changed
				}
			}
		}
	}
	// union-find
	parent := map[ssa.Value]ssa.Value{}
	var find func(v ssa.Value) ssa.Value
	find = func(v ssa.Value) ssa.Value {
		if p, ok := parent[v]; ok && p != v {
			r := find(p)
			parent[v] = r
			return r
		}
		return v
	}
	union := func(a, b ssa.Value) {
		ra, rb := find(a), find(b)
		if ra != rb {
			parent[ra] = rb
		}
	}
	for v := range set {
		switch x := v.(type) {
		case *ssa.Phi:
			for _, e := range x.Edges {
				if set[e] {
					union(v, e)
				}
			}
		case *ssa.Slice:
			if set[x.X] && !isEmptyCap0(x) {
				union(v, x.X)
			}
		case *ssa.Call:
			if set[x.Call.Args[0]] {
				union(v, x.Call.Args[0])
			}
		}
	}
	// number the classes in program order
	owned = map[ssa.Value]int{}
	clsOf := map[ssa.Value]int{}
	for _, b := range f.Blocks {
		for _, in := range b.Instrs {
			v, isVal := in.(ssa.Value)
			if !isVal || !set[v] {
				continue
			}
			r := find(v)
			id, ok := clsOf[r]
			if !ok {
				id = len(roots)
				clsOf[r] = id
				roots = append(roots, v)
			}
			owned[v] = id
		}
	}
	return owned, roots
}

// returnsFresh: every slice the function returns is memory the function
// allocated itself (so that a caller may treat the result as a value that does
// not alias any of the arguments).
func (tr *translator) returnsFresh(f *ssa.Function) bool {
	switch tr.freshMemo[f] {
	case 1, 2:
		return true
	case 3:
		return false
	}
	tr.freshMemo[f] = 1
	owned, _ := ownedValues(f, func(int) bool { return false })
	ok := true
	var fresh func(v ssa.Value) bool
	fresh = func(v ssa.Value) bool {
		if _, isOwned := owned[v]; isOwned {
			return true
		}
		switch x := v.(type) {
		case *ssa.Const:
			return x.Value == nil
		case *ssa.Call:
			callee := x.Call.StaticCallee()
			_, isTarget := tr.byFunc[callee]
			return callee != nil && isTarget && tr.returnsFresh(callee)
		case *ssa.Extract:
			return fresh(x.Tuple)
		}
		return false
	}
	for _, b := range f.Blocks {
		for _, in := range b.Instrs {
			ret, isRet := in.(*ssa.Return)
			if !isRet {
				continue
			}
			for _, r := range ret.Results {
				if isSliceType(r.Type()) && !fresh(r) {
					ok = false
				}
			}
		}
	}
	if ok {
		tr.freshMemo[f] = 2
	} else {
		tr.freshMemo[f] = 3
	}
	return ok
}

// fieldsWritten: the receiver fields a method may change: by a store to the
// field, by a store / copy into the slice the field holds, or through a call of
// another method on the same receiver.
func (tr *translator) fieldsWritten(f *ssa.Function) map[int]bool {
	if r, ok := tr.writtenMemo[f]; ok {
		return r
	}
	res := map[int]bool{}
	tr.writtenMemo[f] = res
	if f.Signature.Recv() == nil || len(f.Params) == 0 {
		return res
	}
	recv := ssa.Value(f.Params[0])
	owned, _ := ownedValues(f, func(k int) bool { return !isCellKey(k) })
	clsFields := map[int][]int{}
	for v, cls := range owned {
		if in, isInstr := v.(ssa.Instruction); isInstr {
			if k, ok := fieldLoad(in); ok {
				clsFields[cls] = append(clsFields[cls], k)
			}
		}
	}
	through := func(x ssa.Value) {
		if cls, ok := owned[x]; ok {
			for _, k := range clsFields[cls] {
				res[k] = true
			}
		}
	}
	for _, b := range f.Blocks {
		for _, in := range b.Instrs {
			switch x := in.(type) {
			case *ssa.Store:
				switch a := x.Addr.(type) {
				case *ssa.FieldAddr:
					if a.X == recv {
						res[a.Field] = true
					}
				case *ssa.IndexAddr:
					through(a.X)
				}
			case *ssa.Call:
				if call, ok := isBuiltinCall(in, "copy"); ok {
					through(call.Call.Args[0])
					continue
				}
				callee := x.Call.StaticCallee()
				if callee != nil && callee != f && callee.Signature.Recv() != nil && len(x.Call.Args) > 0 && x.Call.Args[0] == recv {
					if _, isTarget := tr.byFunc[callee]; isTarget {
						for k := range tr.fieldsWritten(callee) {
							res[k] = true
						}
					}
				}
			}
		}
	}
	return res
}

// globalIntsOf: the package-level variables of integer type of the module that
// the function reads, directly or through the targets it calls, by name.  In
// generation 3 they become extra parameters of the generated definition (the
// value of the variable at the time of the call; nothing translated writes
// them).
func (tr *translator) globalIntsOf(f *ssa.Function) []*ssa.Global {
	if r, ok := tr.globalInts[f]; ok {
		return r
	}
	tr.globalInts[f] = nil
	set := map[*ssa.Global]bool{}
	for _, b := range f.Blocks {
		for _, in := range b.Instrs {
			switch x := in.(type) {
			case *ssa.UnOp:
				g, ok := x.X.(*ssa.Global)
				if ok && x.Op == token.MUL && isIntType(x.Type()) && g.Pkg != nil && strings.HasPrefix(g.Pkg.Pkg.Path(), modulePath+"/") {
					set[g] = true
				}
			case *ssa.Call:
				if callee := x.Call.StaticCallee(); callee != nil && callee != f {
					if _, isTarget := tr.byFunc[callee]; isTarget && tr.genOf(tr.byFunc[callee]) >= 3 {
						for _, g := range tr.globalIntsOf(callee) {
							set[g] = true
						}
					}
				}
			}
		}
	}
	var r []*ssa.Global
	for g := range set {
		r = append(r, g)
	}
	sort.Slice(r, func(i, j int) bool { return r[i].String() < r[j].String() })
	tr.globalInts[f] = r
	return r
}

// analyseMemory: the owned values and classes of the function, and for every
// block the classes that are live on entry (used later, before being
// re-allocated) without being redefined by a phi of the block.
func (c *fnCtx) analyseMemory() {
	c.owned = map[ssa.Value]int{}
	c.liveCls = map[*ssa.BasicBlock]map[int]bool{}
	c.joinView = map[*ssa.BasicBlock]map[int]string{}
	c.addrOf = map[*ssa.IndexAddr]ownedAddr{}
	if c.gen < 3 {
		return
	}
	written := c.tr.fieldsWritten(c.f)
	if c.clo != nil {
		// the captured variables whose loads are views of allocated memory (closure.go)
		w := map[int]bool{}
		for k := range written {
			w[k] = true
		}
		for i := range c.clo.cells {
			if c.cellIsView(cellKey(i)) {
				w[cellKey(i)] = true
			}
		}
		written = w
	}
	c.owned, c.clsRoot = ownedValues(c.f, func(k int) bool { return written[k] })
	if len(c.owned) == 0 {
		return
	}
	// the receiver fields whose memory a class may share: the class contains a load of the field, or a member
	// of the class is stored into the field
	c.clsFields = map[int]map[int]bool{}
	shares := func(cls, k int) {
		if c.clsFields[cls] == nil {
			c.clsFields[cls] = map[int]bool{}
		}
		c.clsFields[cls][k] = true
	}
	for _, b := range c.f.Blocks {
		for _, in := range b.Instrs {
			if k, ok := fieldLoad(in); ok {
				if cls, isOwned := c.owned[in.(ssa.Value)]; isOwned {
					shares(cls, k)
				}
			}
			if st, ok := in.(*ssa.Store); ok {
				if fa, isField := st.Addr.(*ssa.FieldAddr); isField {
					if cls, isOwned := c.owned[st.Val]; isOwned {
						shares(cls, fa.Field)
					}
				}
				if k, isCell := c.cellKeyOf(st.Addr); isCell {
					if cls, isOwned := c.owned[st.Val]; isOwned {
						shares(cls, k)
					}
				}
			}
		}
	}
	// a phi of a class merges owned values only (or nil)
	for v := range c.owned {
		phi, ok := v.(*ssa.Phi)
		if !ok {
			continue
		}
		for _, e := range phi.Edges {
			if _, ok := c.owned[e]; ok {
				continue
			}
			if k, isConst := e.(*ssa.Const); isConst && k.Value == nil {
				continue
			}
			fail("%s merges memory the function allocated with a slice it did not allocate (%s)", phi.Name(), e.Name())
		}
	}
	// liveness of the classes, backwards, to a fixed point
	liveOut := map[*ssa.BasicBlock]map[int]bool{}
	for _, b := range c.f.Blocks {
		c.liveCls[b] = map[int]bool{}
		liveOut[b] = map[int]bool{}
	}
	for changed := true; changed; {
		changed = false
		for i := len(c.f.Blocks) - 1; i >= 0; i-- {
			b := c.f.Blocks[i]
			out := liveOut[b]
			for _, s := range b.Succs {
				for cls := range c.liveCls[s] {
					out[cls] = true
				}
				for _, in := range s.Instrs {
					phi, ok := in.(*ssa.Phi)
					if !ok {
						break
					}
					for k, p := range s.Preds {
						if p == b {
							if cls, ok := c.owned[phi.Edges[k]]; ok {
								out[cls] = true
							}
						}
					}
				}
			}
			live := map[int]bool{}
			for cls := range out {
				live[cls] = true
			}
			for k := len(b.Instrs) - 1; k >= 0; k-- {
				in := b.Instrs[k]
				if v, isVal := in.(ssa.Value); isVal {
					if cls, ok := c.owned[v]; ok {
						k, isFieldLoad := fieldLoad(in)
						isFieldLoad = isFieldLoad && written[k]
						if _, isPhi := in.(*ssa.Phi); isPhi || ownedRoot(in) || isFieldLoad {
							delete(live, cls)
						}
					}
				}
				if _, isPhi := in.(*ssa.Phi); isPhi {
					continue // the edge values are used at the end of the predecessors
				}
				for _, op := range in.Operands(nil) {
					if *op == nil {
						continue
					}
					if cls, ok := c.owned[*op]; ok {
						live[cls] = true
					}
				}
			}
			if len(live) != len(c.liveCls[b]) {
				changed = true
			}
			for cls := range live {
				if !c.liveCls[b][cls] {
					changed = true
				}
			}
			c.liveCls[b] = live
		}
	}
}

// hiddenAt: the classes whose contents are passed to join block j as hidden
// parameters, in ascending order.
func (c *fnCtx) hiddenAt(j *ssa.BasicBlock) []int {
	var r []int
	for cls := range c.liveCls[j] {
		r = append(r, cls)
	}
	sort.Ints(r)
	return r
}

func (c *fnCtx) useGoSem3() string {
	if c.gen < 3 {
		fail("construct outside the subset of ssa2lean2")
	}
	c.gosem3 = true
	return "GoSem3."
}

// clsElem: the element type of the class's slices.
func (c *fnCtx) clsElem(cls int) types.Type {
	t := c.clsRoot[cls].Type()
	if a, ok := isArrayPtr(t); ok {
		return a.Elem()
	}
	if s, ok := t.Underlying().(*types.Slice); ok {
		return s.Elem()
	}
	fail("class of %s has no element type", c.clsRoot[cls].Name())
	return nil
}

func (c *fnCtx) clsType(cls int) string {
	e := c.clsElem(cls)
	if !(isIntType(e) || isBool(e)) {
		// generation 7: slices of strings / of slices of integers that are built element by element; the elements
		// are immutable values (an allocated slice that is stored as an element is consumed by the store)
		es, isSlice := e.Underlying().(*types.Slice)
		if !(c.gen >= 7 && (isString(e) || (isSlice && isIntType(es.Elem())))) {
			fail("allocated slice of element type %s", e)
		}
	}
	return "List " + paren(leanType(e))
}

func zeroOf(t types.Type) string {
	switch {
	case isBool(t):
		return "false"
	case isIntType(t) && isSigned(t):
		return "(0 : Int)"
	case isIntType(t):
		return "(0 : Nat)"
	}
	fail("zero value of type %s", t)
	return ""
}

// readOwned: the current contents of the class of the owned value v, which
// must be the current view of its class on this path.
func (c *fnCtx) readOwned(v ssa.Value) string {
	cls := c.owned[v]
	view, ok := c.curp[viewKey(cls)]
	if !ok {
		fail("use of %s where its memory is not tracked (a stale view: since it was loaded the receiver field was re-assigned, written through another view, or a method of the receiver was called; or the value is dead at an enclosing join)", v.Name())
	}
	if view != v.Name() {
		fail("%s is used although it is not the only live view of its memory (since %s was defined by append, slicing, a phi or a new allocation, the memory may be shared)", v.Name(), view)
	}
	if k, tied := c.curp[tieKey(cls)]; tied {
		return c.curp[fieldOfKey(k)]
	}
	return c.curp[memKey(cls)]
}

func fieldOfKey(k string) int {
	n := 0
	fmt.Sscanf(k, "%d", &n)
	return n
}

// setContents: new contents of the class after an element store / copy: of
// the receiver field when the current view is the slice held there.
func (c *fnCtx) setContents(cur map[int]string, cls int, name string) {
	if k, tied := cur[tieKey(cls)]; tied {
		cur[fieldOfKey(k)] = name
		// a slice derived from the field's memory by append / slicing and not stored back may or may not see this
		// write: it is stale from here on
		for key, f := range cur {
			if key >= taintBase && f == k {
				other := key - taintBase
				if _, otherTied := cur[tieKey(other)]; !otherTied {
					delete(cur, viewKey(other))
					delete(cur, memKey(other))
				}
			}
		}
		return
	}
	if k, tainted := cur[taintKey(cls)]; tainted {
		fail("write through a slice that may or may not share memory with %s (derived from it by append or slicing and not stored back)",
			c.keyGoName(fieldOfKey(k)))
	}
	cur[memKey(cls)] = name
}

// newView: v becomes the current view of its class, with contents of its own
// (it is not, or no longer, the slice held in a receiver field).
func (c *fnCtx) newView(cur map[int]string, cls int, v ssa.Value) {
	cur[memKey(cls)] = v.Name()
	cur[viewKey(cls)] = v.Name()
	delete(cur, tieKey(cls))
}

// baseName of the versions of the class's contents
func (c *fnCtx) baseName(cur map[int]string, cls int) string {
	if k, tied := cur[tieKey(cls)]; tied {
		return c.fieldParam[fieldOfKey(k)]
	}
	return cur[viewKey(cls)]
}

func (c *fnCtx) newRoot(v ssa.Value, cur map[int]string) int {
	cls := c.owned[v]
	if old, live := cur[viewKey(cls)]; live {
		fail("%s is allocated while %s, which it is later merged with, is still live", v.Name(), old)
	}
	cur[memKey(cls)] = v.Name()
	cur[viewKey(cls)] = v.Name()
	return cls
}

func (c *fnCtx) freshName(base string) string {
	c.fresh++
	return fmt.Sprintf("%s_%d", base, c.fresh)
}

// mayShare: the two classes are the same, or both may share memory with the same receiver field.
func (c *fnCtx) mayShare(a, b int) bool {
	if a == b {
		return true
	}
	for k := range c.clsFields[a] {
		if c.clsFields[b][k] {
			return true
		}
	}
	return false
}

// mutatesClass: can the instruction change an element of the class's memory (or, for memory of a receiver
// field, re-assign the field)?
func (c *fnCtx) mutatesClass(in ssa.Instruction, cls int) bool {
	switch x := in.(type) {
	case *ssa.Store:
		switch a := x.Addr.(type) {
		case *ssa.IndexAddr:
			if k, ok := c.owned[a.X]; ok && c.mayShare(k, cls) {
				return true
			}
		case *ssa.FieldAddr:
			if c.clsFields[cls][a.Field] {
				return true
			}
		case *ssa.Alloc, *ssa.FreeVar:
			if k, isCell := c.cellKeyOf(a); isCell && c.clsFields[cls][k] {
				return true
			}
		}
	case *ssa.Call:
		if call, ok := isBuiltinCall(in, "copy"); ok {
			if k, ok := c.owned[call.Call.Args[0]]; ok && c.mayShare(k, cls) {
				return true
			}
			return false
		}
		if callee := x.Call.StaticCallee(); callee != nil && callee.Signature.Recv() != nil && len(c.clsFields[cls]) > 0 {
			return true // a method of the receiver may write the memory its fields hold
		}
		if c.closureCallee(x) && len(c.clsFields[cls]) > 0 {
			return true // the closure may write the memory the captured variables hold
		}
	}
	return false
}

func hasUses(v ssa.Value) bool {
	refs := v.Referrers()
	if refs == nil {
		return false
	}
	for _, r := range *refs {
		if _, dbg := r.(*ssa.DebugRef); !dbg {
			return true
		}
	}
	return false
}

// emitMem translates the instructions that deal with owned memory (and the few
// other constructs that are new in generation 3).  It returns false when the
// instruction is not one of them.
func (c *fnCtx) emitMem(in ssa.Instruction, ind int, cur map[int]string) bool {
	switch v := in.(type) {
	case *ssa.MakeSlice:
		cls := c.newRoot(v, cur)
		ty := c.clsType(cls)
		if !isIntType(v.Len.Type()) || !isSigned(v.Len.Type()) || !isIntType(v.Cap.Type()) || !isSigned(v.Cap.Type()) {
			fail("make with a length of type %s", v.Len.Type())
		}
		z := zeroValueOf(c.clsElem(cls))
		if v.Len == v.Cap {
			c.line(ind, "Option.bind (%smakeSlice %s %s) fun (%s : %s) =>", c.useGoSem3(), z, c.asInt(v.Len), v.Name(), ty)
		} else {
			c.line(ind, "Option.bind (%smakeSliceCap %s %s %s) fun (%s : %s) =>", c.useGoSem3(), z, c.asInt(v.Len), c.asInt(v.Cap), v.Name(), ty)
		}
		return true

	case *ssa.Alloc:
		arr, ok := isArrayPtr(v.Type())
		if !ok {
			return false
		}
		if _, isCell := c.cells[v]; isCell {
			return false
		}
		cls := c.newRoot(v, cur)
		ty := c.clsType(cls)
		if arr.Len() > 4096 {
			fail("array of %d elements", arr.Len())
		}
		c.line(ind, "let %s : %s := %snewArray %s %d;", v.Name(), ty, c.useGoSem3(), zeroValueOf(arr.Elem()), arr.Len())
		return true

	case *ssa.IndexAddr:
		cls, ok := c.owned[v.X]
		if !ok {
			return false
		}
		m := c.readOwned(v.X)
		hasLoad, hasStore := false, false
		for _, r := range *v.Referrers() {
			switch x := r.(type) {
			case *ssa.DebugRef:
			case *ssa.UnOp:
				if x.Op != token.MUL || x.X != ssa.Value(v) || x.Block() != v.Block() {
					fail("element address %s used in %s", v.Name(), r)
				}
				hasLoad = true
				for _, between := range v.Block().Instrs[instrPos(v)+1 : instrPos(x)] {
					if c.mutatesClass(between, cls) {
						fail("%s is read after the memory was written (%s)", v.Name(), between)
					}
				}
			case *ssa.Store:
				if x.Addr != ssa.Value(v) || x.Val == ssa.Value(v) || x.Block() != v.Block() {
					fail("element address %s used in %s", v.Name(), r)
				}
				hasStore = true
			default:
				fail("element address %s used in %s", v.Name(), r)
			}
		}
		idx := c.asInt(v.Index)
		c.addrOf[v] = ownedAddr{cls: cls, idx: idx, x: v.X}
		if hasLoad || !hasStore {
			elem := v.Type().Underlying().(*types.Pointer).Elem()
			c.bind(ind, v, leanType(elem), fmt.Sprintf("GoSem.index %s %s", m, idx))
		} else {
			c.silent[v] = true // the bounds check is made by the store (GoSem3.setIdx)
		}
		return true

	case *ssa.Store:
		k, isState := -1, false
		if fa, isField := v.Addr.(*ssa.FieldAddr); isField && isSliceType(v.Val.Type()) {
			if c.recv == nil || fa.X != ssa.Value(c.recv) {
				return false
			}
			k, isState = fa.Field, true
		} else if ck, isCell := c.cellKeyOf(v.Addr); isCell && c.cellIsView(ck) {
			k, isState = ck, true // a captured variable that holds allocated memory: like a slice held by the receiver
		}
		if isState {
			// recv.field = x: x must be memory the function allocated, or derived from the memory of this very field
			if _, known := cur[k]; !known {
				fail("store to receiver field %d", k)
			}
			cls, isOwned := c.owned[v.Val]
			if !isOwned {
				fail("%s is set to a slice the function did not allocate", c.keyGoName(k))
			}
			m := c.readOwned(v.Val)
			if t, tainted := cur[taintKey(cls)]; tainted && fieldOfKey(t) != k {
				fail("%s is set to memory of %s", c.keyGoName(k), c.keyGoName(fieldOfKey(t)))
			}
			name := c.freshName(c.fieldParam[k])
			c.line(ind, "let %s : %s := %s;", name, leanType(c.keyGoType(k)), m)
			// every other view of the field's old memory is stale from here on
			for key, f := range cur {
				if key >= tieBase && key < taintBase && fieldOfKey(f) == k {
					other := key - tieBase
					delete(cur, tieKey(other))
					delete(cur, viewKey(other))
					delete(cur, memKey(other))
				}
			}
			cur[k] = name
			delete(cur, memKey(cls))
			cur[viewKey(cls)] = v.Val.Name()
			cur[tieKey(cls)] = fmt.Sprint(k)
			cur[taintKey(cls)] = fmt.Sprint(k)
			return true
		}
		ia, ok := v.Addr.(*ssa.IndexAddr)
		if !ok {
			return false
		}
		a, ok := c.addrOf[ia]
		if !ok {
			return false
		}
		m := c.readOwned(a.x) // the indexed value is still the current view
		val := c.operand(v.Val)
		name := c.freshName(c.baseName(cur, a.cls))
		c.line(ind, "Option.bind (%ssetIdx %s %s %s) fun (%s : %s) =>", c.useGoSem3(), m, a.idx, val, name, c.clsType(a.cls))
		c.setContents(cur, a.cls, name)
		if cls2, isOwned := c.owned[v.Val]; isOwned {
			// an allocated slice stored as an element of a slice of slices: handed over, every view of it is stale
			if cls2 == a.cls {
				fail("%s is stored into its own memory", v.Val.Name())
			}
			c.killClass(cur, v.Val)
		}
		return true

	case *ssa.Slice:
		if isEmptyCap0(v) {
			// x[:0:0]: 0 ≤ 0 ≤ 0 ≤ cap(x) always holds; the result can reach no memory
			leanType(v.X.Type())
			if _, isOwned := c.owned[v.X]; isOwned {
				c.readOwned(v.X)
			} else {
				c.operand(v.X)
			}
			cls := c.newRoot(v, cur)
			c.line(ind, "let %s : %s := [];", v.Name(), c.clsType(cls))
			return true
		}
		cls, ok := c.owned[v.X]
		if !ok {
			return false
		}
		m := c.readOwned(v.X)
		ty := c.clsType(cls)
		if v.Max != nil {
			fail("three-index slicing %s", v)
		}
		arr, isArr := isArrayPtr(v.X.Type())
		switch {
		case v.Low == nil && (v.High == nil || (isArr && constIntIs(v.High, arr.Len()))):
			c.line(ind, "let %s : %s := %s;", v.Name(), ty, m)
		case isArr || v.High == nil:
			// against an array, or with the upper bound len(x), Go's check is the check against the length
			lo, hi := "(0 : Int)", fmt.Sprintf("(GoSem.len %s)", m)
			if v.Low != nil {
				lo = c.asInt(v.Low)
			}
			if v.High != nil {
				hi = c.asInt(v.High)
			}
			c.gosem2 = true
			c.line(ind, "Option.bind (GoSem2.slice %s %s %s) fun (%s : %s) =>", m, lo, hi, v.Name(), ty)
		case c.gen >= 4 && constIntIs(v.High, 0) && (v.Low == nil || constIntIs(v.Low, 0)):
			// s[0:0] / s[:0] of an allocated slice (generation 4): 0 ≤ 0 ≤ cap(s) always holds.  The empty list is
			// the new current view of the SAME memory; a following append overwrites elements that only the older
			// views, stale from here on, could observe
			c.line(ind, "let %s : %s := [];", v.Name(), ty)
		default:
			fail("%s: re-slicing an allocated slice with an upper bound (it may exceed len within cap)", v)
		}
		c.newView(cur, cls, v)
		return true

	case *ssa.UnOp:
		k, ok := fieldLoad(in)
		if !ok {
			return false
		}
		if _, isOwned := c.owned[v]; !isOwned || (c.recv == nil && !isCellKey(k)) {
			return false
		}
		if _, known := cur[k]; !known {
			fail("receiver field %d", k)
		}
		// the slice held in receiver field k: its contents are the field's; no Lean value of its own
		cls := c.newRoot(v, cur)
		delete(cur, memKey(cls))
		cur[tieKey(cls)] = fmt.Sprint(k)
		cur[taintKey(cls)] = fmt.Sprint(k)
		c.clsType(cls)
		return true

	case *ssa.Convert:
		if isString(v.Type()) && isSliceType(v.X.Type()) {
			// string(bs): a copy of the bytes
			if leanType(v.X.Type()) != "List Nat" {
				fail("conversion %s <- %s", v.Type(), v.X.Type())
			}
			c.let(ind, v, c.operand(v.X))
			return true
		}
		if isSliceType(v.Type()) && isString(v.X.Type()) {
			cls := c.newRoot(v, cur)
			if c.clsType(cls) != "List Nat" {
				fail("conversion %s <- %s", v.Type(), v.X.Type())
			}
			c.line(ind, "let %s : List Nat := %s;", v.Name(), c.operand(v.X))
			return true
		}
		return false

	case *ssa.BinOp:
		if v.Op != token.QUO && v.Op != token.REM {
			return false
		}
		if c.gen >= 7 && isIntType(v.X.Type()) && types.Identical(v.X.Type().Underlying(), v.Y.Type().Underlying()) && intSuffix(v.X.Type()) == "U64" {
			op := "quoU64"
			if v.Op == token.REM {
				op = "remU64"
			}
			c.bind(ind, v, "Nat", fmt.Sprintf("%s%s %s %s", c.useGoSem7(), op, c.operand(v.X), c.operand(v.Y)))
			return true
		}
		if !isIntType(v.X.Type()) || !types.Identical(v.X.Type().Underlying(), v.Y.Type().Underlying()) || intSuffix(v.X.Type()) != "I64" {
			fail("%s on %s", v.Op, v.X.Type())
		}
		op := "quoI64"
		if v.Op == token.REM {
			op = "remI64"
		}
		c.bind(ind, v, "Int", fmt.Sprintf("%s%s %s %s", c.useGoSem3(), op, c.operand(v.X), c.operand(v.Y)))
		return true

	case *ssa.Call:
		if call, ok := isBuiltinCall(in, "append"); ok {
			if len(call.Call.Args) != 2 {
				fail("builtin %s", v)
			}
			a0, a1 := call.Call.Args[0], call.Call.Args[1]
			cls, isOwned := c.owned[a0]
			if !isOwned {
				fail("append to %s, which the function did not allocate", a0.Name())
			}
			m := c.readOwned(a0)
			if k, ok := c.owned[a1]; ok && k == cls {
				fail("append of a slice to itself: %s", v)
			}
			ty := c.clsType(cls)
			if !(isString(a1.Type()) && ty == "List Nat") && leanType(a1.Type()) != ty {
				fail("append of %s to %s", a1.Type(), a0.Type())
			}
			c.line(ind, "let %s : %s := %s ++ %s;", v.Name(), ty, m, c.operand(a1))
			c.newView(cur, cls, v)
			return true
		}
		if call, ok := isBuiltinCall(in, "copy"); ok {
			dst, src := call.Call.Args[0], call.Call.Args[1]
			cls, isOwned := c.owned[dst]
			if !isOwned {
				fail("copy into %s, which the function did not allocate", dst.Name())
			}
			m := c.readOwned(dst)
			if k, ok := c.owned[src]; ok && k == cls {
				fail("copy within one slice: %s", v)
			}
			ty := c.clsType(cls)
			if !(isString(src.Type()) && ty == "List Nat") && leanType(src.Type()) != ty {
				fail("copy of %s into %s", src.Type(), dst.Type())
			}
			s := c.operand(src)
			if hasUses(v) {
				c.let(ind, v, fmt.Sprintf("%scopyLen %s %s", c.useGoSem3(), m, s))
			}
			name := c.freshName(c.baseName(cur, cls))
			c.line(ind, "let %s : %s := %scopyInto %s %s;", name, ty, c.useGoSem3(), m, s)
			c.setContents(cur, cls, name)
			return true
		}
		if call, ok := isBuiltinCall(in, "cap"); ok {
			fail("builtin %s (capacities are not modelled)", call)
		}
		return false
	}
	return false
}

// emitStoringCall: a call of another method on the same receiver that changes
// receiver fields.  The callee's definition returns its results followed by
// the final values of the fields it may write (ascending field index).
func (c *fnCtx) emitStoringCall(v *ssa.Call, callee *ssa.Function, expr string, ind int, cur map[int]string) {
	var ks []int
	for k := range c.tr.fieldsWritten(callee) {
		if _, ok := c.fieldParam[k]; !ok {
			fail("call of method %s, which writes the receiver field %s", callee.Name(), c.recvStruct.Field(k).Name())
		}
		ks = append(ks, k)
	}
	sort.Ints(ks)
	var parts []string
	res := callee.Signature.Results()
	for i := 0; i < res.Len(); i++ {
		parts = append(parts, leanType(res.At(i).Type()))
	}
	nres := len(parts)
	for _, k := range ks {
		parts = append(parts, leanType(c.recvStruct.Field(k).Type()))
	}
	ty := strings.Join(parts, " × ")
	if len(parts) > 1 {
		ty = "(" + ty + ")"
	}
	proj := func(i int) string {
		if len(parts) == 1 {
			return ""
		}
		p := strings.Repeat(".2", i)
		if i < len(parts)-1 {
			p += ".1"
		}
		return p
	}
	r := c.freshName("ret")
	if c.tr.canPanic(callee) || c.tr.needsFuel(callee) {
		c.line(ind, "Option.bind (%s) fun (%s : %s) =>", expr, r, ty)
	} else {
		c.line(ind, "let %s : %s := %s;", r, ty, expr)
	}
	switch {
	case nres == 1:
		c.let(ind, v, r+proj(0))
	case nres > 1:
		var rs []string
		for i := 0; i < nres; i++ {
			rs = append(rs, r+proj(i))
		}
		c.let(ind, v, "("+strings.Join(rs, ", ")+")")
	}
	// the callee may have re-assigned the slices the receiver holds: every view loaded before the call is stale
	for key := range cur {
		if key >= taintBase {
			other := key - taintBase
			delete(cur, tieKey(other))
			delete(cur, viewKey(other))
			delete(cur, memKey(other))
		}
	}
	for i, k := range ks {
		name := c.freshName(c.fieldParam[k])
		c.line(ind, "let %s : %s := %s%s;", name, leanType(c.recvStruct.Field(k).Type()), r, proj(nres+i))
		cur[k] = name
	}
}
