package main

// Generation 9, part C: `binary.Write` / `binary.Read` of pbcmpl's 32-byte header — the two methods
//
//	func (h *header) Marshal() ([]byte, error) { b := &bytes.Buffer{}; err := binary.Write(b, endian, h); return b.Bytes(), err }
//	func (h *header) Unmarshal(buf []byte) error { r := bytes.NewReader(buf); return binary.Read(r, endian, h) }
//
// encoding/binary works through reflection on `any`; nothing of it is translated.  A function that calls
// binary.Write / binary.Read is accepted only when its WHOLE SSA form is one of the two shapes above (one block, exactly
// these instructions, every intermediate value used exactly where the shape says), and
//
//   * the data argument is the receiver, a pointer to a named struct whose go/types fields are exactly
//     [16]uint8, uint64, uint64 in this order (the layout GoSem9.binaryWriteHeaderLE / binaryReadHeaderLE speak about:
//     16 + 8 + 8 bytes, no padding);
//   * the byte order is a value of the static type encoding/binary.littleEndian (an empty struct: the TYPE fixes the
//     behaviour, whatever the package variable `endian` holds);
//   * the writer is a `new(bytes.Buffer)` used only as the writer and, after the call, as the receiver of Bytes();
//     the reader is `bytes.NewReader(buf)` of a parameter, used only as the reader.
//
// The generated definition takes the receiver's fields as arguments (the convention of receivers since generation 1);
// Unmarshal returns the error followed by the new contents of *h (a written receiver: generation 3).
// Everything else (another struct shape, BigEndian, a writer that is not a fresh buffer, the buffer pre-filled, a second
// call, the results used differently) is refused.

import (
	"fmt"
	"go/token"
	"go/types"
	"strings"

	"golang.org/x/tools/go/ssa"
)

func staticCalleeIs(call *ssa.Call, pkg, name string) bool {
	f := call.Call.StaticCallee()
	if f == nil || call.Call.IsInvoke() {
		return false
	}
	if f.Signature.Recv() != nil {
		return f.String() == name
	}
	return f.Pkg != nil && f.Pkg.Pkg.Path() == pkg && f.Name() == name
}

func callsBinary(f *ssa.Function) bool {
	for _, b := range f.Blocks {
		for _, in := range b.Instrs {
			if c, ok := in.(*ssa.Call); ok {
				if staticCalleeIs(c, "encoding/binary", "Write") || staticCalleeIs(c, "encoding/binary", "Read") {
					return true
				}
			}
		}
	}
	return false
}

func isNamed(t types.Type, pkg, name string) bool {
	n, ok := t.(*types.Named)
	return ok && n.Obj().Pkg() != nil && n.Obj().Pkg().Path() == pkg && n.Obj().Name() == name
}

// headerShape: *T with T a named struct { [16]uint8; uint64; uint64 }; returns the field names.
func headerShape(t types.Type) []string {
	p, ok := t.(*types.Pointer)
	if !ok {
		fail("binary.Write/Read of a %s (only a pointer to the 32-byte header struct)", t)
	}
	n, ok := p.Elem().(*types.Named)
	if !ok {
		fail("binary.Write/Read of a %s", t)
	}
	st, ok := n.Underlying().(*types.Struct)
	if !ok || st.NumFields() != 3 {
		fail("binary.Write/Read of %s: the vocabulary knows only struct{[16]uint8; uint64; uint64}", n)
	}
	arr, ok := st.Field(0).Type().Underlying().(*types.Array)
	if !ok || arr.Len() != 16 {
		fail("binary.Write/Read of %s: field %s is a %s, expected [16]uint8", n, st.Field(0).Name(), st.Field(0).Type())
	}
	if b, ok := arr.Elem().Underlying().(*types.Basic); !ok || b.Kind() != types.Uint8 {
		fail("binary.Write/Read of %s: field %s is a %s, expected [16]uint8", n, st.Field(0).Name(), st.Field(0).Type())
	}
	var names []string
	for i := 0; i < 3; i++ {
		if i > 0 {
			if b, ok := st.Field(i).Type().Underlying().(*types.Basic); !ok || b.Kind() != types.Uint64 {
				fail("binary.Write/Read of %s: field %s is a %s, expected uint64", n, st.Field(i).Name(), st.Field(i).Type())
			}
		}
		if st.Field(i).Embedded() || !identRE.MatchString(st.Field(i).Name()) {
			fail("binary.Write/Read of %s: field %d", n, i)
		}
		names = append(names, st.Field(i).Name())
	}
	return names
}

func onlyUsedBy(v ssa.Value, users ...ssa.Instruction) bool {
	refs := realRefs(v)
	if len(refs) != len(users) {
		return false
	}
	for _, r := range refs {
		found := false
		for _, u := range users {
			if r == u {
				found = true
			}
		}
		if !found {
			return false
		}
	}
	return true
}

// translateBinary9 returns the generated file for a function that calls binary.Write / binary.Read.
func (tr *translator) translateBinary9(f *ssa.Function, target string) string {
	if len(f.Blocks) != 1 || f.Recover != nil || len(f.FreeVars) > 0 || f.Signature.Recv() == nil {
		fail("binary.Write/Read outside the two recognised methods (one block, a pointer receiver)")
	}
	var ins []ssa.Instruction
	for _, in := range f.Blocks[0].Instrs {
		if _, dbg := in.(*ssa.DebugRef); !dbg {
			ins = append(ins, in)
		}
	}
	h := f.Params[0]
	fields := headerShape(h.Type())
	bad := func(what string) { fail("binary.Write/Read: not the recognised shape (%s)", what) }

	// the common middle: t1 = *endian; tW = make io.Writer/Reader <- x; tO = make ByteOrder <- t1; tD = make any <- h; call
	middle := func(at int, stream ssa.Value, ifaceName, fn string) *ssa.Call {
		if len(ins) < at+5 {
			bad("too few instructions")
		}
		ld, ok := ins[at].(*ssa.UnOp)
		if !ok || ld.Op != token.MUL || !isNamed(ld.Type(), "encoding/binary", "littleEndian") {
			bad("the byte order is not a load of a value of type encoding/binary.littleEndian")
		}
		if _, ok := ld.X.(*ssa.Global); !ok {
			bad("the byte order is not read from a package-level variable")
		}
		mw, ok := ins[at+1].(*ssa.MakeInterface)
		if !ok || mw.X != stream || !isNamed(mw.Type(), "io", ifaceName) {
			bad("io." + ifaceName + " of the stream")
		}
		mo, ok := ins[at+2].(*ssa.MakeInterface)
		if !ok || mo.X != ssa.Value(ld) || !isNamed(mo.Type(), "encoding/binary", "ByteOrder") {
			bad("ByteOrder of the byte order")
		}
		md, ok := ins[at+3].(*ssa.MakeInterface)
		if !ok || md.X != ssa.Value(h) {
			bad("the data argument is not the receiver")
		}
		if it, ok := md.Type().Underlying().(*types.Interface); !ok || it.NumMethods() != 0 {
			bad("the data argument")
		}
		call, ok := ins[at+4].(*ssa.Call)
		if !ok || !staticCalleeIs(call, "encoding/binary", fn) || len(call.Call.Args) != 3 ||
			call.Call.Args[0] != ssa.Value(mw) || call.Call.Args[1] != ssa.Value(mo) || call.Call.Args[2] != ssa.Value(md) {
			bad("the call of binary." + fn)
		}
		if !onlyUsedBy(ld, mo) || !onlyUsedBy(mw, call) || !onlyUsedBy(mo, call) || !onlyUsedBy(md, call) {
			bad("an argument of binary." + fn + " is used elsewhere")
		}
		return call
	}

	leanName := leanNameOf(target)
	var params, args []string
	for i, n := range fields {
		ty := "Nat"
		if i == 0 {
			ty = "List Nat"
		}
		params = append(params, fmt.Sprintf("(%s_%s : %s)", h.Name(), n, ty))
		args = append(args, h.Name()+"_"+n)
	}
	var def, note string
	switch {
	case len(f.Params) == 1:
		// Marshal
		if len(ins) != 8 {
			bad(fmt.Sprintf("%d instructions, expected 8", len(ins)))
		}
		buf, ok := ins[0].(*ssa.Alloc)
		if !ok {
			bad("the writer is not a new bytes.Buffer")
		}
		if p, isPtr := buf.Type().(*types.Pointer); !isPtr || !isNamed(p.Elem(), "bytes", "Buffer") {
			bad("the writer is not a new bytes.Buffer")
		}
		call := middle(1, buf, "Writer", "Write")
		by, ok := ins[6].(*ssa.Call)
		if !ok || !staticCalleeIs(by, "", "(*bytes.Buffer).Bytes") || len(by.Call.Args) != 1 || by.Call.Args[0] != ssa.Value(buf) {
			bad("b.Bytes() after the call")
		}
		if !onlyUsedBy(buf, ins[2], by) {
			bad("the buffer is used for something else (written before, passed on, …)")
		}
		ret, ok := ins[7].(*ssa.Return)
		if !ok || len(ret.Results) != 2 || ret.Results[0] != ssa.Value(by) || ret.Results[1] != ssa.Value(call) ||
			!onlyUsedBy(by, ret) || !onlyUsedBy(call, ret) {
			bad("return b.Bytes(), err")
		}
		if !onlyUsedBy(h, ins[4]) {
			bad("the receiver is used for something else")
		}
		if !types.Identical(f.Signature.Results().At(1).Type(), errorType) {
			bad("result types")
		}
		def = fmt.Sprintf("def %s %s : Option (List Nat × GoSem5.Err) :=\n  some (GoSem9.binaryWriteHeaderLE %s)\n",
			leanName, strings.Join(params, " "), strings.Join(args, " "))
		note = "   The whole body is ONE vocabulary function: a fresh bytes.Buffer, binary.Write(buffer, littleEndian, receiver), buffer.Bytes()\n" +
			"   (shape and the struct's field types [16]uint8, uint64, uint64 checked: binary9.go).  Receiver fields are passed as arguments.\n"
	case len(f.Params) == 2:
		// Unmarshal
		if len(ins) != 7 {
			bad(fmt.Sprintf("%d instructions, expected 7", len(ins)))
		}
		p := f.Params[1]
		if !isByteSlice(p.Type()) {
			bad("the parameter is not a []byte")
		}
		nr, ok := ins[0].(*ssa.Call)
		if !ok || !staticCalleeIs(nr, "bytes", "NewReader") || len(nr.Call.Args) != 1 || nr.Call.Args[0] != ssa.Value(p) {
			bad("the reader is not bytes.NewReader(parameter)")
		}
		call := middle(1, nr, "Reader", "Read")
		if !onlyUsedBy(nr, ins[2]) || !onlyUsedBy(p, nr) {
			bad("the reader / the parameter is used for something else")
		}
		ret, ok := ins[6].(*ssa.Return)
		if !ok || len(ret.Results) != 1 || ret.Results[0] != ssa.Value(call) || !onlyUsedBy(call, ret) {
			bad("return binary.Read(…)")
		}
		if !onlyUsedBy(h, ins[4]) {
			bad("the receiver is used for something else")
		}
		pn := p.Name()
		if !identRE.MatchString(pn) || leanReserved[pn] {
			pn = "arg1"
		}
		def = fmt.Sprintf("def %s %s (%s : List Nat) : Option (GoSem5.Err × (List Nat × Nat × Nat)) :=\n  some (GoSem9.binaryReadHeaderLE %s %s)\n",
			leanName, strings.Join(params, " "), pn, pn, strings.Join(args, " "))
		note = "   The whole body is ONE vocabulary function: binary.Read(bytes.NewReader(parameter), littleEndian, receiver)\n" +
			"   (shape and the struct's field types [16]uint8, uint64, uint64 checked: binary9.go).  Receiver fields are passed as arguments;\n" +
			"   the new contents of the receiver (" + strings.Join(fields, ", ") + ") follow the result.\n"
	default:
		bad("parameters")
	}
	tool, ns, tie := genNames(9)
	var out strings.Builder
	out.WriteString("import LowModel.GoSem\nimport LowModel.GoSem5\nimport LowModel.GoSem9\n")
	fmt.Fprintf(&out, "/- GENERATED by %s from the SSA form of %s.  DO NOT EDIT.\n", tool, target)
	fmt.Fprintf(&out, "   Rewritten from the current source on every run; the proof in %s ties it to the model.\n", tie)
	out.WriteString(note)
	out.WriteString("\n")
	out.WriteString(ssaText(f))
	out.WriteString("-/\n")
	fmt.Fprintf(&out, "namespace %s\nset_option linter.unusedVariables false\n\n%s\nend %s\n", ns, def, ns)
	return out.String()
}
