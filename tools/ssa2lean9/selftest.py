#!/usr/bin/env python3
"""Evidence that the regenerated tie bites — ssa2lean9 (generation 9: the unsafe string-view idiom of bitstr.StrCmpUpto, the first
line of size.stat, binary.Write/Read of the pbcmpl header; plus the cases of ssa2lean7: package-table initialisers, constructors of fresh structs, slices of
slices that are built, mathext/util; plus the cases of ssa2lean4: closures that capture variables by reference and call themselves;
plus the cases of ssa2lean3 and ssa2lean2, whose targets this tool reproduces: functions that allocate and write slices,
nested loops, methods that update a slice held by the receiver, loops that read memory).

For each seeded edit of a target function this script
  1. copies the repo to a scratch directory under /tmp (never touches the repo itself),
  2. applies the edit to the copy,
  3. runs ssa2lean on the copy into a scratch output directory,
  4. inlines the regenerated definition textually into a scratch copy of the hand-written tie file
     (`import Generated.Ssa3.<f>` — `Ssa2` for the targets of ssa2lean2 — is replaced by the text of the regenerated
     file; helper modules of the tie that themselves import the generated module, e.g. `LowProofs.Tie3.<x>_L`, are
     inlined too, recursively) and checks the result with `lake env lean` (run in the lean project, which only has to
     have LowModel, Generated.Ssa2/3.* and LowProofs.Tie2/3.* built from the unmodified source).

Expectations
  break    a semantic mutation: the tie theorem must NO LONGER compile, while the regenerated definition on
           its own is still valid Lean (so it is the proof that rejects the change, not a translator accident)
  survive  a rewrite that leaves the SSA unchanged: the tie must still compile
  report   a harmless (semantics-preserving) rewrite: the outcome is only reported.  A tie that breaks here is a
           false alarm that costs a proof repair, never an unsound acceptance.
  unsupported / nobuild   the translator must refuse (exit 2 with an `_UNSUPPORTED` file / exit 1)
The unmodified copy is checked first (baseline: every tie must compile against a fresh translation).

The repo is taken as `git archive HEAD` of --repo (a clean export: the working tree may be in use by other checks),
or copied as it is with --worktree.

usage: selftest.py [--repo /repo] [--worktree] [--lean /verif/lean] [--bin bin/ssa2lean9] [--json out.json] [--keep] [-j N] [-v]
       [--only substring] [--gen 9|7|4|3|2|all]
exit status 0 iff every break/survive/unsupported/nobuild expectation holds and the baseline passes.
"""
import argparse, concurrent.futures, json, os, re, shutil, subprocess, sys, tempfile, time

HERE = os.path.dirname(os.path.abspath(__file__))
ENV = dict(os.environ, GOFLAGS="-mod=mod", GOPROXY="off", GOSUMDB="off", GOTOOLCHAIN="local")


def edit_in_func(path, func_anchor, old, new):
    """replace the first occurrence of `old` after `func_anchor` (the function's `func …(` text)"""
    s = open(path).read()
    i = s.find(func_anchor)
    if i < 0:
        raise SystemExit("selftest: anchor not found in %s: %r" % (path, func_anchor))
    j = s.find(old, i)
    if j < 0:
        raise SystemExit("selftest: text not found after %r in %s: %r" % (func_anchor, path, old))
    open(path, "w").write(s[:j] + new + s[j + len(old):])


# (name, expectation, target, file, func anchor, old, new)
# the cases of ssa2lean2 (targets generated into Generated/Ssa2, ties in LowProofs/Tie2); run with --gen 2 or --gen all
CASES2 = [
    # ---- semantic mutations: the tie must break -------------------------------------------------------------
    ("NextOne: loop step i += 64 -> i += 63", "break", "bitmap.NextOne", "bitmap/next.go", "func NextOne(",
     "for ; i < end; i += 64 {", "for ; i < end; i += 63 {"),
    ("NextOne: (i + 63) & ^63 -> (i + 64) & ^63", "break", "bitmap.NextOne", "bitmap/next.go", "func NextOne(",
     "i = (i + 63) & ^63", "i = (i + 64) & ^63"),
    ("NextOne: nxt >= end -> nxt > end", "break", "bitmap.NextOne", "bitmap/next.go", "func NextOne(",
     "if nxt >= end {", "if nxt > end {"),
    ("PrevOne: loop step end -= 64 -> end -= 65", "break", "bitmap.PrevOne", "bitmap/next.go", "func PrevOne(",
     "for ; end >= i; end -= 64 {", "for ; end >= i; end -= 65 {"),
    ("PrevOne: prv < i -> prv <= i", "break", "bitmap.PrevOne", "bitmap/next.go", "func PrevOne(",
     "if prv < i {", "if prv <= i {"),
    ("PrevOne: MaskUpto[bitIdx] -> Mask[bitIdx]", "break", "bitmap.PrevOne", "bitmap/next.go", "func PrevOne(",
     "& MaskUpto[bitIdx]", "& Mask[bitIdx]"),
    ("shiftMulti: TrailingZeros64(b - 1) -> TrailingZeros64(b) (loop no longer terminates)", "break", "bmtree.shiftMulti",
     "bmtree/partial_tree.go", "func shiftMulti(", "bits.TrailingZeros64(b - 1)", "bits.TrailingZeros64(b)"),
    ("shiftMulti: rst += a>>shift -> rst += a>>shift + 1", "break", "bmtree.shiftMulti",
     "bmtree/partial_tree.go", "func shiftMulti(", "rst += (a >> shift)", "rst += (a >> shift) + 1"),
    ("shiftMulti: initial shift -= n dropped", "break", "bmtree.shiftMulti",
     "bmtree/partial_tree.go", "func shiftMulti(", "\tb >>= uint(n)\n\tshift -= uint64(n)\n\n\tfor", "\tb >>= uint(n)\n\n\tfor"),
    ("PathToIndex: full bitmap - 32 -> - 31", "break", "bmtree.PathToIndex", "bmtree/index.go", "func PathToIndex(",
     "path^0xffffffff00000000)) - 32", "path^0xffffffff00000000)) - 31"),
    ("PathToIndex: leaf-only int32(path >> 32) -> path >> 31", "break", "bmtree.PathToIndex", "bmtree/index.go", "func PathToIndex(",
     "return int32(path >> 32)", "return int32(path >> 31)"),
    ("PathToIndex: Mask[PathLen] -> MaskUpto[PathLen]", "break", "bmtree.PathToIndex", "bmtree/index.go", "func PathToIndex(",
     "sz&bitmap.Mask[PathLen(path)]", "sz&bitmap.MaskUpto[PathLen(path)]"),
    ("PathToIndexLoose: has = size >> pl -> size >> (pl+1)", "break", "bmtree.PathToIndexLoose", "bmtree/index.go",
     "func PathToIndexLoose(", "(bitmapSize >> uint(pl)) & 1", "(bitmapSize >> uint(pl+1)) & 1"),
    ("PathToIndexLoose: full bitmap - 32 -> - 31", "break", "bmtree.PathToIndexLoose", "bmtree/index.go",
     "func PathToIndexLoose(", "path^0xffffffff00000000)) - 32, has", "path^0xffffffff00000000)) - 31, has"),
    ("Select32R64: offset |= 16 -> offset |= 8", "break", "bitmap.Select32R64", "bitmap/select.go", "func Select32R64(",
     "offset |= 16", "offset |= 8"),
    ("Select32R64: rankIndex[wordI+1] <= i -> < i", "break", "bitmap.Select32R64", "bitmap/select.go", "func Select32R64(",
     "rankIndex[wordI+1] <= i", "rankIndex[wordI+1] < i"),
    ("Select32R64: RMaskUpto[a&63] -> RMask[a&63]", "break", "bitmap.Select32R64", "bitmap/select.go", "func Select32R64(",
     "w &= RMaskUpto[a&63]", "w &= RMask[a&63]"),
    ("Select32: base |= 16 -> base |= 8", "break", "bitmap.Select32", "bitmap/select.go", "func Select32(",
     "base |= 16", "base |= 8"),
    ("Select32: findIth -= ones dropped in the word-skipping branch", "break", "bitmap.Select32", "bitmap/select.go",
     "func Select32(", "\t\t\tfindIth -= ones\n\t\t\twordI++", "\t\t\twordI++"),
    ("Select32: final scan starts at a>>6 instead of a>>6 + 1", "break", "bitmap.Select32", "bitmap/select.go",
     "func Select32(", "for wordI := a>>6 + 1; wordI < l; wordI++ {", "for wordI := a >> 6; wordI < l; wordI++ {"),
    ("IndexToPath: loop test mask&15 -> mask&7", "break", "bmtree.IndexToPath", "bmtree/index.go", "func IndexToPath(",
     "for mask&15 == 0 && index > 0 {", "for mask&7 == 0 && index > 0 {"),
    ("IndexToPath: table row idxToPath[mask&15] -> [mask&7]", "break", "bmtree.IndexToPath", "bmtree/index.go",
     "func IndexToPath(", "idxToPath[mask&15][index]", "idxToPath[mask&7][index]"),
    ("IndexToPath: index-- -> index -= 2", "break", "bmtree.IndexToPath", "bmtree/index.go", "func IndexToPath(",
     "\t\t\tindex--\n", "\t\t\tindex -= 2\n"),
    ("Cmp: b[:lb-1] -> b[:lb]", "break", "bitstr.Cmp", "bitstr/bitstr.go", "func Cmp(",
     "bytes.Compare(a[:la-1], b[:lb-1])", "bytes.Compare(a[:la-1], b[:lb])"),
    ("Cmp: la == lb -> la >= lb", "break", "bitstr.Cmp", "bitstr/bitstr.go", "func Cmp(",
     "if la == lb {", "if la >= lb {"),
    ("cmpBytes: la < 8 -> la < 9", "break", "bitstr.cmpBytes", "bitstr/bitstr.go", "func cmpBytes(",
     "if la < 8 {", "if la < 9 {"),
    ("cmpBytes: a[i] > b[i] -> a[i] >= b[i]", "break", "bitstr.cmpBytes", "bitstr/bitstr.go", "func cmpBytes(",
     "} else if a[i] > b[i] {", "} else if a[i] >= b[i] {"),
    ("cmpBytes: i < lb -> i <= lb", "break", "bitstr.cmpBytes", "bitstr/bitstr.go", "func cmpBytes(",
     "if i < lb {", "if i <= lb {"),
    ("CmpUpto: la < lb-1 -> la <= lb-1", "break", "bitstr.CmpUpto", "bitstr/bitstr.go", "func CmpUpto(",
     "if la < lb-1 {", "if la <= lb-1 {"),
    ("CmpUpto: a[la-1] & b[lb-1] -> a[la-1] | b[lb-1]", "break", "bitstr.CmpUpto", "bitstr/bitstr.go", "func CmpUpto(",
     "bytea := a[la-1] & b[lb-1]", "bytea := a[la-1] | b[lb-1]"),
    ("Write: s.off += int64(n) moved before the call", "break", "iohelper.SectionWriter.Write", "iohelper/iohelper.go",
     ") Write(", "\tn, err2 := s.w.WriteAt(p, s.off)\n\ts.off += int64(n)\n", "\ts.off += int64(n)\n\tn, err2 := s.w.WriteAt(p, s.off)\n"),
    ("Write: s.off >= s.limit -> s.off > s.limit", "break", "iohelper.SectionWriter.Write", "iohelper/iohelper.go",
     ") Write(", "if s.off >= s.limit {", "if s.off > s.limit {"),
    ("Write: writes at s.base instead of s.off", "break", "iohelper.SectionWriter.Write", "iohelper/iohelper.go",
     ") Write(", "s.w.WriteAt(p, s.off)", "s.w.WriteAt(p, s.base)"),
    ("WriteAt: off >= limit-base -> off > limit-base", "break", "iohelper.SectionWriter.WriteAt", "iohelper/iohelper.go",
     ") WriteAt(", "off >= s.limit-s.base", "off > s.limit-s.base"),
    ("WriteAt: off += s.base -> off += s.off", "break", "iohelper.SectionWriter.WriteAt", "iohelper/iohelper.go",
     ") WriteAt(", "off += s.base", "off += s.off"),
    ("WriteAt: ErrShortWrite set when err != nil", "break", "iohelper.SectionWriter.WriteAt", "iohelper/iohelper.go",
     ") WriteAt(", "if err == nil {", "if err != nil {"),
    ("bitWord.Get: (i + width - 1) & 7 -> (i + width) & 7", "break", "bitword.bitWord.Get", "bitword/bitword.go",
     ") Get(", "end := (i + w.width - 1) & 7", "end := (i + w.width) & 7"),
    ("bitWord.Get: s[i>>3] -> s[i>>2]", "break", "bitword.bitWord.Get", "bitword/bitword.go",
     ") Get(", "word := s[i>>3]", "word := s[i>>2]"),
    ("bitWord.FirstDiff: i < end -> i <= end", "break", "bitword.bitWord.FirstDiff", "bitword/bitword.go",
     ") FirstDiff(", "for i := from; i < end; i++ {", "for i := from; i <= end; i++ {"),
    ("bitWord.FirstDiff: clamp to lb assigns la", "break", "bitword.bitWord.FirstDiff", "bitword/bitword.go",
     ") FirstDiff(", "\tif end > lb {\n\t\tend = lb\n", "\tif end > lb {\n\t\tend = la\n"),
    # ---- rewrites that do not change the SSA: the tie must survive ------------------------------------------
    ("NextOne: local nxt renamed, comment added", "survive", "bitmap.NextOne", "bitmap/next.go", "func NextOne(",
     "\t\ti = (i + 63) & ^63\n", "\t\t// round up to a word boundary\n\t\ti = (i + 63) & ^63\n"),
    ("shiftMulti: blank line and comment in the loop", "survive", "bmtree.shiftMulti", "bmtree/partial_tree.go",
     "func shiftMulti(", "\t\trst += (a >> shift)\n", "\t\t// accumulate\n\n\t\trst += (a >> shift)\n"),
    # ---- harmless rewrites that change the SSA: outcome reported --------------------------------------------
    ("NextOne: i + tz -> tz + i", "report", "bitmap.NextOne", "bitmap/next.go", "func NextOne(",
     "nxt = i + int32(bits.TrailingZeros64(word))", "nxt = int32(bits.TrailingZeros64(word)) + i"),
    ("PrevOne: `wordIdx :=` and `bitIdx :=` swapped", "report", "bitmap.PrevOne", "bitmap/next.go", "func PrevOne(",
     "\twordIdx := end >> 6\n\tbitIdx := end & 63\n", "\tbitIdx := end & 63\n\twordIdx := end >> 6\n"),
    ("shiftMulti: `b >>=` and `shift -=` swapped in the loop", "report", "bmtree.shiftMulti", "bmtree/partial_tree.go",
     "func shiftMulti(", "\t\tb >>= uint(n)\n\t\tshift -= uint64(n)\n", "\t\tshift -= uint64(n)\n\t\tb >>= uint(n)\n"),
    ("PathToIndex: arguments of shiftMulti swapped (shiftMulti is symmetric)", "report", "bmtree.PathToIndex", "bmtree/index.go",
     "func PathToIndex(", "shiftMulti(sz, path>>32, uint64(height))", "shiftMulti(path>>32, sz, uint64(height))"),
    ("PathToIndexLoose: `pl :=` moved above `sz :=`", "report", "bmtree.PathToIndexLoose", "bmtree/index.go",
     "func PathToIndexLoose(", "\tsz := uint64(bitmapSize)\n\tpl := PathLen(path)\n", "\tpl := PathLen(path)\n\tsz := uint64(bitmapSize)\n"),
    ("Select32: explicit range test i>>5 >= len -> i>>5 > len (the slice read then panics instead)", "report", "bitmap.Select32",
     "bitmap/select.go", "func Select32(", "i>>5 >= int32(len(selectIndex))", "i>>5 > int32(len(selectIndex))"),
    ("Select32R64: `base :=` moved below `findIth :=`", "report", "bitmap.Select32R64", "bitmap/select.go", "func Select32R64(",
     "\tbase := wordI << 6\n\tfindIth := int(i - rankIndex[wordI])\n", "\tfindIth := int(i - rankIndex[wordI])\n\tbase := wordI << 6\n"),
    ("IndexToPath: mask = mask >> 1 -> mask >>= 1", "report", "bmtree.IndexToPath", "bmtree/index.go", "func IndexToPath(",
     "\t\tmask = mask >> 1\n", "\t\tmask >>= 1\n"),
    ("Cmp: lengths read in the other order", "report", "bitstr.Cmp", "bitstr/bitstr.go", "func Cmp(",
     "la, lb := len(a), len(b)", "lb, la := len(b), len(a)"),
    ("cmpBytes: `i++` -> `i += 1`", "report", "bitstr.cmpBytes", "bitstr/bitstr.go", "func cmpBytes(",
     "for i = 0; i < la; i++ {", "for i = 0; i < la; i += 1 {"),
    ("CmpUpto: byteb read before bytea", "report", "bitstr.CmpUpto", "bitstr/bitstr.go", "func CmpUpto(",
     "\tbytea := a[la-1] & b[lb-1]\n\tbyteb := b[la-1]\n", "\tbyteb := b[la-1]\n\tbytea := a[la-1] & b[lb-1]\n"),
    ("Write: `if err2 != nil` before `s.off +=`", "report", "iohelper.SectionWriter.Write", "iohelper/iohelper.go", ") Write(",
     "\ts.off += int64(n)\n\n\tif err2 != nil {\n\t\terr = err2\n\t}\n", "\tif err2 != nil {\n\t\terr = err2\n\t}\n\ts.off += int64(n)\n"),
    ("WriteAt: off < 0 || … -> … || off < 0", "report", "iohelper.SectionWriter.WriteAt", "iohelper/iohelper.go", ") WriteAt(",
     "if off < 0 || off >= s.limit-s.base {", "if off >= s.limit-s.base || off < 0 {"),
    ("bitWord.Get: word read before end is computed", "report", "bitword.bitWord.Get", "bitword/bitword.go", ") Get(",
     "\tend := (i + w.width - 1) & 7\n\n\tword := s[i>>3]\n", "\tword := s[i>>3]\n\tend := (i + w.width - 1) & 7\n"),
    ("bitWord.FirstDiff: `i++` -> `i += 1`", "report", "bitword.bitWord.FirstDiff", "bitword/bitword.go", ") FirstDiff(",
     "for i := from; i < end; i++ {", "for i := from; i < end; i += 1 {"),
    # ---- outside the supported subset: the translator must refuse -------------------------------------------
    ("NextOne: a nested loop is introduced", "unsupported", "bitmap.NextOne", "bitmap/next.go", "func NextOne(",
     "\t\t\tword := bm[i>>6]\n", "\t\t\tfor k := int32(0); k < i; k++ {\n\t\t\t\tend--\n\t\t\t}\n\t\t\tword := bm[i>>6]\n"),
    ("NextOne: the loop writes to the slice", "unsupported", "bitmap.NextOne", "bitmap/next.go", "func NextOne(",
     "\t\t\tword := bm[i>>6]\n", "\t\t\tbm[i>>6] |= 0\n\t\t\tword := bm[i>>6]\n"),
    ("Select32: writes the lookup table", "unsupported", "bitmap.Select32", "bitmap/select.go", "func Select32(",
     "\ta := int32(0)\n", "\ta := int32(0)\n\tselect8Lookup[0] = 0\n"),
    ("IndexToPath: another function writes idxToPath", "unsupported", "bmtree.IndexToPath", "bmtree/index.go", "func PathToIndexLoose(",
     "\theight := Height(bitmapSize)\n", "\tidxToPath[0][0] = 0\n\theight := Height(bitmapSize)\n"),
    ("Write: two calls of the underlying writer on one path", "unsupported", "iohelper.SectionWriter.Write", "iohelper/iohelper.go",
     ") Write(", "\tn, err2 := s.w.WriteAt(p, s.off)\n", "\ts.w.WriteAt(p, s.off)\n\tn, err2 := s.w.WriteAt(p, s.off)\n"),
    ("PathToIndex: built with the enabled contract checker (-tags debug style call)", "unsupported", "bmtree.PathToIndex", "bmtree/index.go",
     "func PathToIndex(", "\theight := Height(bitmapSize)\n", "\tbitmapSizeCheck(bitmapSize)\n\theight := Height(bitmapSize)\n"),
    ("bitmap does not compile", "nobuild", "bitmap.NextOne", "bitmap/next.go", "func NextOne(",
     "\treturn nxt\n", "\treturn nxt +\n"),
]


# the cases of ssa2lean3 (targets generated into Generated/Ssa3, ties in LowProofs/Tie3)
CASES3 = [
    # ---- semantic mutations: the tie must break -------------------------------------------------------------
    ("IndexRank64: idx[i] = n -> idx[i] = n + 1", "break", "bitmap.IndexRank64", "bitmap/rank.go", "func IndexRank64(",
     "\t\tidx[i] = n\n", "\t\tidx[i] = n + 1\n"),
    ("IndexRank64: trailing = opts[0] -> !opts[0]", "break", "bitmap.IndexRank64", "bitmap/rank.go", "func IndexRank64(",
     "trailing = opts[0]", "trailing = !opts[0]"),
    ("IndexRank64: l++ dropped (the trailing store then panics)", "break", "bitmap.IndexRank64", "bitmap/rank.go", "func IndexRank64(",
     "\tif trailing {\n\t\tl++\n\t}\n", ""),
    ("IndexRank128: i < len(words)-1 -> i < len(words)", "break", "bitmap.IndexRank128", "bitmap/rank.go", "func IndexRank128(",
     "if i < len(words)-1 {", "if i < len(words) {"),
    ("IndexRank128: len(words)&1 == 0 -> == 1", "break", "bitmap.IndexRank128", "bitmap/rank.go", "func IndexRank128(",
     "if len(words)&1 == 0 {", "if len(words)&1 == 1 {"),
    ("IndexSelect32: ith&31 -> ith&63", "break", "bitmap.IndexSelect32", "bitmap/select.go", "func IndexSelect32(",
     "if ith&31 == 0 {", "if ith&63 == 0 {"),
    ("IndexSelect32: ith := -1 -> ith := 0", "break", "bitmap.IndexSelect32", "bitmap/select.go", "func IndexSelect32(",
     "ith := -1", "ith := 0"),
    ("ToArray: i < l -> i <= l", "break", "bitmap.ToArray", "bitmap/toarray.go", "func ToArray(",
     "for i := int32(0); i < l; i++ {", "for i := int32(0); i <= l; i++ {"),
    ("ToArray: i&63 -> i&31", "break", "bitmap.ToArray", "bitmap/toarray.go", "func ToArray(",
     "uint(i&63)", "uint(i&31)"),
    ("Of: (n + 63) >> 6 -> (n + 64) >> 6", "break", "bitmap.Of", "bitmap/of.go", "func Of(",
     "nWords := (n + 63) >> 6", "nWords := (n + 64) >> 6"),
    ("Of: n < max -> n > max", "break", "bitmap.Of", "bitmap/of.go", "func Of(",
     "if n < max {", "if n > max {"),
    ("Of: words[wordI] |= -> words[wordI] =", "break", "bitmap.Of", "bitmap/of.go", "func Of(",
     "words[wordI] |= 1 << uint(i)", "words[wordI] = 1 << uint(i)"),
    ("Slice: j&63 -> i&63", "break", "bitmap.Slice", "bitmap/slice.go", "func Slice(",
     "r[j>>6] |= 1 << uint(j&63)", "r[j>>6] |= 1 << uint(i&63)"),
    ("Slice: (to - from) + 63 -> + 64", "break", "bitmap.Slice", "bitmap/slice.go", "func Slice(",
     "l := ((to - from) + 63) >> 6", "l := ((to - from) + 64) >> 6"),
    ("Join: e & Mask[size] -> e", "break", "bitmap.Join", "bitmap/join.go", "func Join(",
     "(e & Mask[size]) << uint(j&63)", "(e) << uint(j&63)"),
    ("Join: j := i * size -> i * (size+1)", "break", "bitmap.Join", "bitmap/join.go", "func Join(",
     "j := i * int(size)", "j := i * int(size+1)"),
    ("get64Bits: short branch bs[1] << 48 -> << 47", "break", "sigbits.get64Bits", "sigbits/firstdiff.go", "func get64Bits(",
     "(uint64(bs[1]) << 48)", "(uint64(bs[1]) << 47)"),
    ("get64Bits: len(s) >= 8 -> len(s) >= 7", "break", "sigbits.get64Bits", "sigbits/firstdiff.go", "func get64Bits(",
     "if len(s) >= 8 {", "if len(s) >= 7 {"),
    ("sFirstDiffBit: i<<3 -> i<<2", "break", "sigbits.sFirstDiffBit", "sigbits/firstdiff.go", "func sFirstDiffBit(",
     "first = i<<3 + first", "first = i<<2 + first"),
    ("sFirstDiffBit: minl > l2 -> minl < l2", "break", "sigbits.sFirstDiffBit", "sigbits/firstdiff.go", "func sFirstDiffBit(",
     "if minl > l2 {", "if minl < l2 {"),
    ("FirstDiffBits: keys[i+1] -> keys[i]", "break", "sigbits.FirstDiffBits", "sigbits/firstdiff.go", "func FirstDiffBits(",
     "sFirstDiffBit(keys[i], keys[i+1])", "sFirstDiffBit(keys[i], keys[i])"),
    ("FirstDiffBits: make(l-1) -> make(l)", "break", "sigbits.FirstDiffBits", "sigbits/firstdiff.go", "func FirstDiffBits(",
     "ds := make([]int32, l-1)", "ds := make([]int32, l)"),
    ("countPrefixes: d < maxitem-1 -> d <= maxitem-1", "break", "sigbits.countPrefixes", "sigbits/countprefixes.go", "func countPrefixes(",
     "if d < maxitem-1 {", "if d <= maxitem-1 {"),
    ("countPrefixes: rst[0] = 1 -> rst[0] = 0", "break", "sigbits.countPrefixes", "sigbits/countprefixes.go", "func countPrefixes(",
     "rst[0] = 1", "rst[0] = 0"),
    ("bitWord.FromStr: 8-width*j-width -> 8-width*j", "break", "bitword.bitWord.FromStr", "bitword/bitword.go", ") FromStr(",
     "uint(8-w.width*j-w.width)", "uint(8-w.width*j)"),
    ("bitWord.FromStr: make(lenSrc*m) -> make(lenSrc*m+1)", "break", "bitword.bitWord.FromStr", "bitword/bitword.go", ") FromStr(",
     "words := make([]byte, lenSrc*m)", "words := make([]byte, lenSrc*m+1)"),
    ("bitWord.ToStr: (len+m-1)/m -> (len+m)/m", "break", "bitword.bitWord.ToStr", "bitword/bitword.go", ") ToStr(",
     "sz := (len(bs) + m - 1) / m", "sz := (len(bs) + m) / m"),
    ("bitWord.ToStr: i*m+j < len(bs) -> <=", "break", "bitword.bitWord.ToStr", "bitword/bitword.go", ") ToStr(",
     "if i*m+j < len(bs) {", "if i*m+j <= len(bs) {"),
    ("bitstr.New: (8-toBit)&7 -> (7-toBit)&7", "break", "bitstr.New", "bitstr/bitstr.go", "func New(",
     "bitmap.RMask[(8-toBit)&7]", "bitmap.RMask[(7-toBit)&7]"),
    ("bitstr.New: (toBit + 7) >> 3 -> (toBit + 8) >> 3", "break", "bitstr.New", "bitstr/bitstr.go", "func New(",
     "toByte := (toBit + 7) >> 3", "toByte := (toBit + 8) >> 3"),
    ("AllPaths: p >= to -> p > to", "break", "bmtree.AllPaths", "bmtree/allpaths.go", "func AllPaths(",
     "if p >= to {", "if p > to {"),
    ("AllPaths: t = to>>32 + 1 -> to>>32", "break", "bmtree.AllPaths", "bmtree/allpaths.go", "func AllPaths(",
     "t = to>>32 + 1", "t = to >> 32"),
    ("Decode: idx&63 -> idx&31", "break", "bmtree.Decode", "bmtree/decode.go", "func Decode(",
     "uint(idx&63)", "uint(idx&31)"),
    ("Decode: 1<<63 -> 1<<62", "break", "bmtree.Decode", "bmtree/decode.go", "func Decode(",
     "AllPaths(bitmapSize, 0, 1<<63)", "AllPaths(bitmapSize, 0, 1<<62)"),
    ("PathsOf: p != prev -> p == prev", "break", "bmtree.PathsOf", "bmtree/newpath.go", "func PathsOf(",
     "p != prev {", "p == prev {"),
    ("PathsOf: prev = p dropped", "break", "bmtree.PathsOf", "bmtree/newpath.go", "func PathsOf(",
     "\t\tprev = p\n", ""),
    ("OfMany: base += sizes[i] -> += sizes[i] + 1", "break", "bitmap.OfMany", "bitmap/ofmany.go", "func OfMany(",
     "base += sizes[i]", "base += sizes[i] + 1"),
    ("OfMany: r[ith] = base + idx -> r[ith] = idx", "break", "bitmap.OfMany", "bitmap/ofmany.go", "func OfMany(",
     "r[ith] = base + idx", "r[ith] = idx"),
    ("IndexSelect32R64: IndexRank64(words, true) -> false", "break", "bitmap.IndexSelect32R64", "bitmap/select.go", "func IndexSelect32R64(",
     "IndexRank64(words, true)", "IndexRank64(words, false)"),
    ("IndexSelect32R64: ith&31 -> ith&15", "break", "bitmap.IndexSelect32R64", "bitmap/select.go", "func IndexSelect32R64(",
     "if ith&31 == 0 {", "if ith&15 == 0 {"),
    ("SigBits.CountPrefixes: keyEnd-1 -> keyEnd", "break", "sigbits.SigBits.CountPrefixes", "sigbits/sigbits_countprefixes.go", ") CountPrefixes(",
     "sb.sigbits[keyStart:keyEnd-1]", "sb.sigbits[keyStart:keyEnd]"),
    ("SigBits.CountPrefixes: keyStart -> keyStart+1", "break", "sigbits.SigBits.CountPrefixes", "sigbits/sigbits_countprefixes.go", ") CountPrefixes(",
     "sb.sigbits[keyStart:keyEnd-1]", "sb.sigbits[keyStart+1:keyEnd-1]"),
    ("Builder.Extend: bitEnd >= size -> bitEnd > size", "break", "bitmap.Builder.Extend", "bitmap/builder.go", ") Extend(",
     "if bitEnd >= size {", "if bitEnd > size {"),
    ("Builder.Extend: b.Offset += size -> += size + 1", "break", "bitmap.Builder.Extend", "bitmap/builder.go", ") Extend(",
     "b.Offset += size", "b.Offset += size + 1"),
    ("Builder.Set: value&1 -> value&3", "break", "bitmap.Builder.Set", "bitmap/builder.go", ") Set(",
     "uint64(value&1)", "uint64(value&3)"),
    ("Builder.Set: b.Offset <= bitPosition -> <", "break", "bitmap.Builder.Set", "bitmap/builder.go", ") Set(",
     "if b.Offset <= bitPosition {", "if b.Offset < bitPosition {"),
    ("TailBitmap.Set: wordIdx == 0 -> wordIdx == 1", "break", "bitmap.TailBitmap.Set", "bitmap/tailbitmap.go", ") Set(",
     "if wordIdx == 0 {", "if wordIdx == 1 {"),
    ("TailBitmap.Set: Bit[idx&63] -> Bit[idx&31]", "break", "bitmap.TailBitmap.Set", "bitmap/tailbitmap.go", ") Set(",
     "tb.Words[wordIdx] |= Bit[idx&63]", "tb.Words[wordIdx] |= Bit[idx&31]"),
    ("TailBitmap.Compact: tb.Offset += 64 -> += 63", "break", "bitmap.TailBitmap.Compact", "bitmap/tailbitmap.go", ") Compact(",
     "tb.Offset += 64", "tb.Offset += 63"),
    ("TailBitmap.Compact: >= reclaimThreshold -> >", "break", "bitmap.TailBitmap.Compact", "bitmap/tailbitmap.go", ") Compact(",
     "tb.Offset-tb.reclaimed >= reclaimThreshold", "tb.Offset-tb.reclaimed > reclaimThreshold"),
    ("TailBitmap.Get: idx>>6 -> idx>>5", "break", "bitmap.TailBitmap.Get", "bitmap/tailbitmap.go", ") Get(",
     "tb.Words[idx>>6] & Bit[idx&63]", "tb.Words[idx>>5] & Bit[idx&63]"),
    ("TailBitmap.Get: idx < tb.Offset -> idx <= tb.Offset", "break", "bitmap.TailBitmap.Get", "bitmap/tailbitmap.go", ") Get(",
     "if idx < tb.Offset {", "if idx <= tb.Offset {"),
    ("TailBitmap.Get1: & 1 -> & 3", "break", "bitmap.TailBitmap.Get1", "bitmap/tailbitmap.go", ") Get1(",
     "uint(idx&63)) & 1", "uint(idx&63)) & 3"),
    ("TailBitmap.Get1: idx>>6 -> idx>>7", "break", "bitmap.TailBitmap.Get1", "bitmap/tailbitmap.go", ") Get1(",
     "tb.Words[idx>>6] >>", "tb.Words[idx>>7] >>"),
    # ---- rewrites that do not change the SSA: the tie must survive ------------------------------------------
    ("Of: comment and blank line in the loop", "survive", "bitmap.Of", "bitmap/of.go", "func Of(",
     "\t\twordI := i >> 6\n", "\t\t// the word\n\n\t\twordI := i >> 6\n"),
    ("AllPaths: comment in the inner loop", "survive", "bmtree.AllPaths", "bmtree/allpaths.go", "func AllPaths(",
     "\t\t\tm := bitmap.Mask[tz]\n", "\t\t\t// mask of the level\n\t\t\tm := bitmap.Mask[tz]\n"),
    # ---- harmless rewrites that change the SSA: outcome reported --------------------------------------------
    ("IndexRank64: `idx[i] = n` after the count is read", "report", "bitmap.IndexRank64", "bitmap/rank.go", "func IndexRank64(",
     "\t\tidx[i] = n\n\t\tn += int32(bits.OnesCount64(words[i]))\n", "\t\tc := int32(bits.OnesCount64(words[i]))\n\t\tidx[i] = n\n\t\tn += c\n"),
    ("IndexRank128: the clone `append(idx[:0:0], idx...)` dropped (same contents, other capacity)", "report", "bitmap.IndexRank128",
     "bitmap/rank.go", "func IndexRank128(", "\tidx = append(idx[:0:0], idx...)\n", ""),
    ("ToArray: `i++` -> `i += 1`", "report", "bitmap.ToArray", "bitmap/toarray.go", "func ToArray(",
     "for i := int32(0); i < l; i++ {", "for i := int32(0); i < l; i += 1 {"),
    ("Join: (l+63)&(^63)>>6 -> (l+63)>>6 (the same number)", "report", "bitmap.Join", "bitmap/join.go", "func Join(",
     "(l+63)&(^63)>>6", "(l+63)>>6"),
    ("Slice: `r[j>>6] |= …` written as `r[j>>6] = r[j>>6] | …`", "report", "bitmap.Slice", "bitmap/slice.go", "func Slice(",
     "r[j>>6] |= 1 << uint(j&63)", "r[j>>6] = r[j>>6] | 1<<uint(j&63)"),
    ("sFirstDiffBit: loop step i += 8 -> i += 4 (overlapping windows find the same first difference)", "report", "sigbits.sFirstDiffBit",
     "sigbits/firstdiff.go", "func sFirstDiffBit(", "i += 8 {", "i += 4 {"),
    ("TailBitmap.Compact: the dropped copy is stored (`tb.Words = newWords`: same contents, other capacity)", "report",
     "bitmap.TailBitmap.Compact", "bitmap/tailbitmap.go", ") Compact(",
     "\t\tcopy(newWords, tb.Words)\n", "\t\tcopy(newWords, tb.Words)\n\t\ttb.Words = newWords\n"),
    ("PathsOf: make([]uint64, 0, l) -> make([]uint64, 0, l+1) (another capacity)", "report", "bmtree.PathsOf", "bmtree/newpath.go",
     "func PathsOf(", "rst := make([]uint64, 0, l)", "rst := make([]uint64, 0, l+1)"),
    # ---- outside the supported subset: the translator must refuse -------------------------------------------
    ("ToArray: a store into the parameter slice", "unsupported", "bitmap.ToArray", "bitmap/toarray.go", "func ToArray(",
     "\tl := int32(len(words) * 64)\n", "\tl := int32(len(words) * 64)\n\tif l > 0 {\n\t\twords[0] |= 0\n\t}\n"),
    ("ToArray: copy into the parameter slice", "unsupported", "bitmap.ToArray", "bitmap/toarray.go", "func ToArray(",
     "\tl := int32(len(words) * 64)\n", "\tl := int32(len(words) * 64)\n\tcopy(words, words[1:])\n"),
    ("ToArray: append to the parameter slice", "unsupported", "bitmap.ToArray", "bitmap/toarray.go", "func ToArray(",
     "\tl := int32(len(words) * 64)\n", "\tl := int32(len(words) * 64)\n\twords = append(words, 0)\n"),
    ("ToArray: two live views — the old value of r is read after the append", "unsupported", "bitmap.ToArray", "bitmap/toarray.go",
     "func ToArray(", "\t\t\tr = append(r, i)\n", "\t\t\told := r\n\t\t\tr = append(r, i)\n\t\t\tif len(old) > 5 {\n\t\t\t\ti++\n\t\t\t}\n"),
    ("ToArray: two live views — both are appended to", "unsupported", "bitmap.ToArray", "bitmap/toarray.go",
     "func ToArray(", "\t\t\tr = append(r, i)\n", "\t\t\tr2 := append(r, i)\n\t\t\tr = append(r, i+1)\n\t\t\tr = append(r, r2...)\n"),
    ("ToArray: the allocated slice is re-sliced with an upper bound (could exceed len within cap)", "unsupported", "bitmap.ToArray",
     "bitmap/toarray.go", "func ToArray(", "\treturn r\n", "\treturn r[:len(words)]\n"),
    ("ToArray: cap() of the allocated slice", "unsupported", "bitmap.ToArray", "bitmap/toarray.go", "func ToArray(",
     "\treturn r\n", "\tif cap(r) > 100 {\n\t\treturn nil\n\t}\n\treturn r\n"),
    ("Slice: a phi merges the allocated slice with the parameter", "unsupported", "bitmap.Slice", "bitmap/slice.go", "func Slice(",
     "\tr := make([]uint64, l)\n", "\tr := make([]uint64, l)\n\tif from == 0 {\n\t\tr = words\n\t}\n"),
    ("Slice: an element is written through a stale view after re-slicing", "unsupported", "bitmap.Slice", "bitmap/slice.go", "func Slice(",
     "\treturn r\n", "\tr2 := r[1:]\n\tr[0] = 1\n\treturn r2\n"),
    ("Builder.Set: the receiver's slice is set to nil (not memory of the function)", "unsupported", "bitmap.Builder.Set", "bitmap/builder.go",
     ") Set(", "\tif b.Offset <= bitPosition {", "\tif value == 7 {\n\t\tb.Words = nil\n\t}\n\tif b.Offset <= bitPosition {"),
    ("TailBitmap.Set: a view of the receiver's slice is written after the field was re-assigned", "unsupported", "bitmap.TailBitmap.Set",
     "bitmap/tailbitmap.go", ") Set(", "\ttb.Words[wordIdx] |= Bit[idx&63]\n",
     "\tws := tb.Words\n\ttb.Words = append(tb.Words, 0)\n\tws[wordIdx] |= Bit[idx&63]\n"),
    ("TailBitmap.Set: an appended view is stored back after the field's memory was written through another view", "unsupported",
     "bitmap.TailBitmap.Set", "bitmap/tailbitmap.go", ") Set(", "\ttb.Words[wordIdx] |= Bit[idx&63]\n",
     "\tgrown := append(tb.Words, 0)\n\ttb.Words[wordIdx] |= Bit[idx&63]\n\ttb.Words = grown\n"),
    ("TailBitmap.Set: an element address is read after the field's memory was written through another load of the field", "unsupported",
     "bitmap.TailBitmap.Set", "bitmap/tailbitmap.go", ") Set(", "\ttb.Words[wordIdx] |= Bit[idx&63]\n",
     "\tp, q := tb.Words, tb.Words\n\tx := &p[wordIdx]\n\tq[wordIdx] = 0\n\ttb.Words[wordIdx] |= Bit[idx&63] | *x\n"),
    ("bitmap does not compile", "nobuild", "bitmap.ToArray", "bitmap/toarray.go", "func ToArray(",
     "\treturn r\n", "\treturn r +\n"),
]

# the cases of ssa2lean4 (targets generated into Generated/Ssa4, ties in LowProofs/Tie4): closures
SH = ("sigbits.ShardByPrefix", "sigbits/sharding.go", "func ShardByPrefix(")
CASES4 = [
    # ---- semantic mutations: the tie must break -------------------------------------------------------------
    ("ShardByPrefix: e-s <= maxSize -> e-s < maxSize", "break") + SH + ("if e-s <= maxSize {", "if e-s < maxSize {"),
    ("ShardByPrefix: the reset `endsAt = endsAt[0:0]` dropped", "break") + SH + ("\t\t\t\tendsAt = endsAt[0:0]\n", ""),
    ("ShardByPrefix: leaf `min = firstDiffs[i] >> 3` -> `>> 2`", "break") + SH + ("min = firstDiffs[i] >> 3", "min = firstDiffs[i] >> 2"),
    ("ShardByPrefix: leaf loop i < e-1 -> i < e", "break") + SH + ("for i := s; i < e-1; i++ {\n\t\t\t\tif min", "for i := s; i < e; i++ {\n\t\t\t\tif min"),
    ("ShardByPrefix: keyCnts = append(keyCnts, e) -> e-1", "break") + SH + ("keyCnts = append(keyCnts, e)", "keyCnts = append(keyCnts, e-1)"),
    ("ShardByPrefix: `s = end` removed", "break") + SH + ("\t\t\ts = end\n", ""),
    ("ShardByPrefix: scan `prefixLen := firstDiffs[i] >> 3` -> `>> 2`", "break") + SH + ("prefixLen := firstDiffs[i] >> 3", "prefixLen := firstDiffs[i] >> 2"),
    ("ShardByPrefix: prefixLen == longest -> >=", "break") + SH + ("} else if prefixLen == longest {", "} else if prefixLen >= longest {"),
    ("ShardByPrefix: the final `endsAt = append(endsAt, e)` dropped", "break") + SH + ("\t\tendsAt = append(endsAt, e)\n", ""),
    ("ShardByPrefix: after the reset append(endsAt, i+1) -> i", "break") + SH + ("endsAt = endsAt[0:0]\n\t\t\t\tendsAt = append(endsAt, i+1)", "endsAt = endsAt[0:0]\n\t\t\t\tendsAt = append(endsAt, i)"),
    ("ShardByPrefix: dfs(0, n) -> dfs(0, n-1)", "break") + SH + ("\tdfs(0, n)\n", "\tdfs(0, n-1)\n"),
    ("ShardByPrefix: n = len(firstDiffs)+1 -> len(firstDiffs)", "break") + SH + ("n := int32(len(firstDiffs) + 1)", "n := int32(len(firstDiffs))"),
    ("ShardByPrefix: keyCnts starts with 0 -> 1", "break") + SH + ("keyCnts = append(keyCnts, 0)", "keyCnts = append(keyCnts, 1)"),
    ("ShardByPrefix: longest := len(keys[s]) -> len(keys[e-1])", "break") + SH + ("longest := int32(len(keys[s]))", "longest := int32(len(keys[e-1]))"),
    ("ShardByPrefix: dfs(s, end) -> dfs(s, e) (never terminates)", "break") + SH + ("dfs(s, end)", "dfs(s, e)"),
    ("ShardByPrefix: prefixLen < longest -> <=", "break") + SH + ("if prefixLen < longest {", "if prefixLen <= longest {"),
    ("ShardByPrefix: the results swapped", "break") + SH + ("return prefixes, keyCnts", "return keyCnts, prefixes"),
    ("ShardByPrefix: scan loop starts at s+1", "break") + SH + ("for i := s; i < e-1; i++ {\n\t\t\tprefixLen", "for i := s + 1; i < e-1; i++ {\n\t\t\tprefixLen"),
    ("ShardByPrefix: prefixes = append(prefixes, min) -> appended to keyCnts", "break") + SH + ("prefixes = append(prefixes, min)", "keyCnts = append(keyCnts, min)"),
    ("ShardByPrefix: leaf min starts with len(keys[s]) -> len(keys[s])+1", "break") + SH + ("min := int32(len(keys[s]))", "min := int32(len(keys[s])) + 1"),
    # ---- rewrites that leave the SSA unchanged: the tie must survive -----------------------------------------
    ("ShardByPrefix: comment in the closure", "survive") + SH + ("\t\tlongest := int32(len(keys[s]))\n", "\t\t// the shortest common prefix so far\n\t\tlongest := int32(len(keys[s]))\n"),
    ("ShardByPrefix: blank lines before the call", "survive") + SH + ("\tdfs(0, n)\n", "\n\n\tdfs(0, n)\n"),
    # ---- harmless rewrites that change the SSA: outcome reported --------------------------------------------
    ("ShardByPrefix: `else if prefixLen == longest` -> `<=` (the same in the else branch of `<`)", "report") + SH + ("} else if prefixLen == longest {", "} else if prefixLen <= longest {"),
    ("ShardByPrefix: the two appends of the leaf in the other order", "report") + SH + ("\t\t\tprefixes = append(prefixes, min)\n\t\t\tkeyCnts = append(keyCnts, e)\n", "\t\t\tkeyCnts = append(keyCnts, e)\n\t\t\tprefixes = append(prefixes, min)\n"),
    ("ShardByPrefix: make([]int32, 0, 256) -> make([]int32, 0, 16) (another capacity)", "report") + SH + ("endsAt := make([]int32, 0, 256)", "endsAt := make([]int32, 0, 16)"),
    ("ShardByPrefix: endsAt[0:0] -> endsAt[:0]", "report") + SH + ("endsAt = endsAt[0:0]", "endsAt = endsAt[:0]"),
    ("ShardByPrefix: the closure is called through a copy of the variable (`g := dfs; g(0, n)`)", "report") + SH + ("\tdfs(0, n)\n", "\tg := dfs\n\tg(0, n)\n"),
    ("ShardByPrefix: maxSize assigned through a pointer that does not escape (`p := &maxSize; *p = maxSize`)", "report") + SH + ("\tdfs(0, n)\n", "\tp := &maxSize\n\t*p = maxSize\n\tdfs(0, n)\n"),
    ("ShardByPrefix: the closure is created and called in a branch (`if n > 0 { dfs = …; dfs(0, n) }`; n > 0 always holds)", "report") + SH + ("\tkeyCnts = append(keyCnts, 0)\n", "\tkeyCnts = append(keyCnts, 0)\n\tif n <= 0 {\n\t\treturn prefixes, keyCnts\n\t}\n"),
    # ---- outside the supported subset: the translator must refuse -------------------------------------------
    ("ShardByPrefix: the closure escapes (converted to an interface value)", "unsupported") + SH + ("\tdfs(0, n)\n", "\tdfs(0, n)\n\tvar sink interface{} = dfs\n\t_ = sink\n"),
    ("ShardByPrefix: the address of a captured variable escapes (stored in another variable whose address is taken)", "unsupported") + SH + ("\tdfs(0, n)\n", "\tq := &maxSize\n\tqq := &q\n\t**qq = 7\n\tdfs(0, n)\n"),
    ("ShardByPrefix: the closure is stored in a struct and called from there", "unsupported") + SH + ("\tdfs(0, n)\n", "\ttype holder struct{ f func(s, e int32) }\n\th := &holder{f: dfs}\n\th.f(0, n)\n"),
    ("ShardByPrefix: go dfs(0, n)", "unsupported") + SH + ("\tdfs(0, n)\n", "\tgo dfs(0, n)\n"),
    ("ShardByPrefix: defer dfs(0, n)", "unsupported") + SH + ("\tdfs(0, n)\n", "\tdefer dfs(0, n)\n"),
    ("ShardByPrefix: the closure is passed to a second closure", "unsupported") + SH + ("\tdfs(0, n)\n", "\tfunc(f func(s, e int32)) { f(0, n) }(dfs)\n"),
    ("ShardByPrefix: the view of endsAt from before the reset is read afterwards (stale view)", "unsupported") + SH + ("\t\t\t\tendsAt = endsAt[0:0]\n\t\t\t\tendsAt = append(endsAt, i+1)\n", "\t\t\t\told := endsAt\n\t\t\t\tendsAt = endsAt[0:0]\n\t\t\t\tendsAt = append(endsAt, i+1)\n\t\t\t\tif len(old) > 1 && old[0] == i {\n\t\t\t\t\tlongest++\n\t\t\t\t}\n"),
    ("ShardByPrefix: prefixes is read in the parent through a view loaded before the call", "unsupported") + SH + ("\tdfs(0, n)\n\n\treturn prefixes, keyCnts", "\tbefore := prefixes\n\tdfs(0, n)\n\n\treturn before, keyCnts"),
    ("ShardByPrefix: the same allocated slice is held by two captured variables", "unsupported") + SH + ("\tkeyCnts = append(keyCnts, 0)\n", "\tkeyCnts = append(keyCnts, 0)\n\tprefixes = keyCnts\n"),
    ("ShardByPrefix: a slice the function did not allocate is stored in the captured variable the closure appends to", "unsupported") + SH + ("\tkeyCnts = append(keyCnts, 0)\n", "\tkeyCnts = append(keyCnts, 0)\n\tprefixes = firstDiffs\n"),
    ("ShardByPrefix: the variable that holds the closure is assigned twice", "unsupported") + SH + ("\tvar dfs func(s, e int32)\n\n\tdfs = func(", "\tvar dfs func(s, e int32)\n\n\tif maxSize != 77 {\n\t\tdfs = nil\n\t}\n\tdfs = func("),
]


# the cases of ssa2lean9 (targets generated into Generated/Ssa7, ties in LowProofs/Tie7): table initialisers, constructors,
# slices of slices, mathext/util
IM = ("bitmap.initMasks", "bitmap/mask.go", "func initMasks(")
IS = ("bitmap.initSelectLookup", "bitmap/select.go", "func initSelectLookup(")
BI = ("bmtree.init", "bmtree/index.go", "idxToPath = [][]uint64{")
WI = ("bitword.init", "bitword/bitword.go", "BitWord = map[int]Interface{")
NB = ("bitmap.NewBuilder", "bitmap/builder.go", "func NewBuilder(")
NT = ("bitmap.NewTailBitmap", "bitmap/tailbitmap.go", "func NewTailBitmap(")
NS = ("iohelper.NewSectionWriter", "iohelper/iohelper.go", "func NewSectionWriter(")
AW = ("iohelper.AtToWriter", "iohelper/iohelper.go", "func AtToWriter(")
SN = ("sigbits.New", "sigbits/sigbits.go", "func New(")
BW = ("bitword.newBW", "bitword/bitword.go", "func newBW(")
FS = ("bitword.bitWord.FromStrs", "bitword/bitword.go", ") FromStrs(")
TS = ("bitword.bitWord.ToStrs", "bitword/bitword.go", ") ToStrs(")
PS = ("bmtree.PathStr", "bmtree/pathstr.go", "func PathStr(")
S1 = ("bitmap.select32single", "bitmap/select.go", "func select32single(")
IU = ("bitmap.indexSelectU64", "bitmap/select.go", "func indexSelectU64(")
SU = ("bitmap.selectU64Indexed", "bitmap/select.go", "func selectU64Indexed(")
def U(f):
    return ("mathext/util." + f, "mathext/util/util.go", "func " + f + "(")
BITMAP_INIT = ("bitmap/bitmap.go", "func init() {")
CASES7 = [
    # ---- semantic mutations: the tie must break -------------------------------------------------------------
    ("initMasks: Mask[i] = (1<<i)-1 -> (1<<i)", "break") + IM + ("Mask[i] = (1 << uint(i)) - 1", "Mask[i] = (1 << uint(i))"),
    ("initMasks: RMask[i] = ^Mask[i] -> ^Mask[i] - 1 (off by one)", "break") + IM + ("RMask[i] = ^Mask[i]", "RMask[i] = ^Mask[i] - 1"),
    ("initMasks: first loop i < 65 -> i < 64 (Mask[64], RMask[64] stay 0)", "break") + IM + ("for i := 0; i < 65; i++ {", "for i := 0; i < 64; i++ {"),
    ("initMasks: MaskUpto[i] = (1<<(i+1))-1 -> (1<<i)-1", "break") + IM + ("MaskUpto[i] = (1 << uint(i+1)) - 1", "MaskUpto[i] = (1 << uint(i)) - 1"),
    ("initMasks: RMaskUpto[i] = ^MaskUpto[i] -> ^Mask[i]", "break") + IM + ("RMaskUpto[i] = ^MaskUpto[i]", "RMaskUpto[i] = ^Mask[i]"),
    ("initMasks: Bit[i] = 1<<i -> 1<<(i+1)", "break") + IM + ("Bit[i] = 1 << uint(i)", "Bit[i] = 1 << uint(i+1)"),
    ("initMasks: RBit[i] = ^Bit[i] -> Bit[i]", "break") + IM + ("RBit[i] = ^Bit[i]", "RBit[i] = Bit[i]"),
    ("initSelectLookup: entry written at (j+1)%8 instead of j", "break") + IS + ("select8Lookup[i*8+j] = uint8(x)", "select8Lookup[i*8+(j+1)%8] = uint8(x)"),
    ("initSelectLookup: w &= w-1 -> w &= w-2", "break") + IS + ("w &= w - 1", "w &= w - 2"),
    ("initSelectLookup: uint8(x) -> uint8(x+1)", "break") + IS + ("= uint8(x)", "= uint8(x + 1)"),
    ("initSelectLookup: i < 256 -> i < 255 (last row stays 0)", "break") + IS + ("for i := 0; i < 256; i++ {", "for i := 0; i < 255; i++ {"),
    ("initSelectLookup: i*8+j -> i*8+j+1 (runs off the end)", "break") + IS + ("select8Lookup[i*8+j]", "select8Lookup[i*8+j+1]"),
    ("idxToPath: one entry of row 4 changed (…02<<32 + 3 -> + 2)", "break") + BI + ("(0x00000002 << 32) + 0x00000003, // 5   10", "(0x00000002 << 32) + 0x00000002, // 5   10"),
    ("idxToPath: row 8 loses its last entry", "break") + BI + ("\t\t\t(0x00000007 << 32) + 0x00000007, // 14  111\n", ""),
    ("idxToPath: row key 4 -> 3", "break") + BI + ("\t\t4: {\n", "\t\t3: {\n"),
    ("BitWord: 4: newBW(4) -> 4: newBW(2)", "break") + WI + ("4: newBW(4)", "4: newBW(2)"),
    ("BitWord: key 8 -> 16", "break") + WI + ("8: newBW(8)", "16: newBW(8)"),
    ("newBW: byteCap 8/n -> 4/n", "break") + BW + ("byteCap:  8 / n", "byteCap:  4 / n"),
    ("newBW: wordMask (1<<n)-1 -> (1<<n)", "break") + BW + ("wordMask: (1 << uint(n)) - 1", "wordMask: (1 << uint(n))"),
    ("newBW: width n -> n+1", "break") + BW + ("width:    n,", "width:    n + 1,"),
    ("NewTailBitmap: Offset: offset -> offset + 64", "break") + NT + ("Offset:    offset,", "Offset:    offset + 64,"),
    ("NewTailBitmap: reclaimed: offset -> 0", "break") + NT + ("reclaimed: offset,", "reclaimed: 0,"),
    ("NewTailBitmap: Words with one word (make(…, 1, …))", "break") + NT + ("make([]uint64, 0, reclaimThreshold>>6)", "make([]uint64, 1, reclaimThreshold>>6)"),
    ("NewSectionWriter: limit off+n -> off+n-1", "break") + NS + ("return &SectionWriter{w, off, off, off + n}", "return &SectionWriter{w, off, off, off + n - 1}"),
    ("NewSectionWriter: cursor starts at 0 instead of off", "break") + NS + ("return &SectionWriter{w, off, off, off + n}", "return &SectionWriter{w, off, 0, off + n}"),
    ("NewSectionWriter: base off -> off+1", "break") + NS + ("return &SectionWriter{w, off, off, off + n}", "return &SectionWriter{w, off + 1, off, off + n}"),
    ("AtToWriter: length maxOffset-offset -> maxOffset", "break") + AW + ("NewSectionWriter(w, offset, maxOffset-offset)", "NewSectionWriter(w, offset, maxOffset)"),
    ("AtToWriter: starts at offset+1", "break") + AW + ("NewSectionWriter(w, offset, maxOffset-offset)", "NewSectionWriter(w, offset+1, maxOffset-offset)"),
    ("NewBuilder: make(0, n>>6) -> make(n>>6) (Words not empty)", "break") + NB + ("make([]uint64, 0, n>>6)", "make([]uint64, n>>6)"),
    ("NewBuilder: Offset 0 -> n", "break") + NB + ("Offset: 0,", "Offset: n,"),
    ("sigbits.New: keys -> keys[1:]", "break") + SN + ("keys:    keys,", "keys:    keys[1:],"),
    ("sigbits.New: sigbits of keys[1:]", "break") + SN + ("sigbits: FirstDiffBits(keys),", "sigbits: FirstDiffBits(keys[1:]),"),
    ("FromStrs: every entry is FromStr of the empty prefix s[:0]", "break") + FS + ("rst[i] = w.FromStr(s)", "rst[i] = w.FromStr(s[:0])"),
    ("FromStrs: make(len+1)", "break") + FS + ("make([][]byte, len(strs))", "make([][]byte, len(strs)+1)"),
    ("ToStrs: result reversed", "break") + TS + ("rst[i] = w.ToStr(s)", "rst[len(rst)-1-i] = w.ToStr(s)"),
    ("ToStrs: ToStr of the empty prefix s[:0]", "break") + TS + ("rst[i] = w.ToStr(s)", "rst[i] = w.ToStr(s[:0])"),
    ("MinI8: compares as unsigned", "break") + U("MinI8") + ("if a < b {", "if uint8(a) < uint8(b) {"),
    ("MinU16: results swapped", "break") + U("MinU16") + ("\t\treturn a\n\t} else {\n\t\treturn b\n", "\t\treturn b\n\t} else {\n\t\treturn a\n"),
    ("MaxI64: a > b -> a < b", "break") + U("MaxI64") + ("if a > b {", "if a < b {"),
    ("ClapU64: bounds swapped", "break") + U("ClapU64") + ("\tif n < min {\n\t\tn = min\n\t}\n\tif n > max {\n\t\tn = max\n\t}\n", "\tif n < max {\n\t\tn = max\n\t}\n\tif n > min {\n\t\tn = min\n\t}\n"),
    ("ClapI16: lower bound not applied", "break") + U("ClapI16") + ("\tif n < min {\n\t\tn = min\n\t}\n", ""),
    ("ClapI: n > max -> n >= max … n = max-1", "break") + U("ClapI") + ("\tif n > max {\n\t\tn = max\n\t}\n", "\tif n >= max {\n\t\tn = max - 1\n\t}\n"),
    ("select32single: base += 32 -> base += 16", "break") + S1 + ("base += 32", "base += 16"),
    ("select32single: off the end returns l*64 - 1", "break") + S1 + ("\t\t\treturn l * 64\n", "\t\t\treturn l*64 - 1\n"),
    ("select32single: i < 0 returns 0", "break") + S1 + ("\t\treturn -1\n", "\t\treturn 0\n"),
    ("select32single: findIth -= ones dropped in the skipping branch", "break") + S1 + ("\t\t} else {\n\t\t\tfindIth -= ones\n\t\t}\n", "\t\t}\n"),
    ("indexSelectU64: multiplier loses its top byte", "break") + IU + ("c *= 0x0101010101010101", "c *= 0x0001010101010101"),
    ("indexSelectU64: the 0x80 flags are not set", "break") + IU + ("return c | 0x8080808080808080", "return c"),
    ("indexSelectU64: mask0011 = all1/5 -> all1/3", "break") + IU + ("mask0011 := (all1 / 5)", "mask0011 := (all1 / 3)"),
    ("selectU64Indexed: (findIth+1) -> findIth", "break") + SU + ("v := (findIth + 1) * 0x0101010101010101", "v := findIth * 0x0101010101010101"),
    ("selectU64Indexed: & ^7 -> & ^3", "break") + SU + ("& (^7)", "& (^3)"),
    ("selectU64Indexed: result without + ithU8", "break") + SU + ("return int32(vv) + int32(ithU8), 0", "return int32(vv), 0"),
    ("PathStr: shift 32+treeHeight-l -> 31+treeHeight-l", "break") + PS + ("path>>uint(32+treeHeight-l)", "path>>uint(31+treeHeight-l)"),
    ("PathStr: width l -> l+1", "break") + PS + ("fmt.Sprintf(\"%0[1]*[2]b\", l, ", "fmt.Sprintf(\"%0[1]*[2]b\", l+1, "),
    ("PathStr: the test l == 0 dropped (the root prints as \"0\")", "break") + PS + ("\tif l == 0 {\n\t\treturn \"\"\n\t}\n", ""),
    # ---- rewrites that leave the SSA unchanged: the tie must survive -----------------------------------------
    ("initMasks: comment", "survive") + IM + ("\tfor i := 0; i < 65; i++ {\n", "\t// all widths\n\tfor i := 0; i < 65; i++ {\n"),
    ("NewBuilder: blank lines", "survive") + NB + ("\treturn b\n", "\n\n\treturn b\n"),
    ("ClapU8: comment", "survive") + U("ClapU8") + ("\tif n < min {\n", "\t// clamp\n\tif n < min {\n"),
    # ---- harmless rewrites that change the SSA: outcome reported --------------------------------------------
    ("initMasks: RMask[i] = ^Mask[i] -> ^((1<<i)-1) (no read back)", "report") + IM + ("RMask[i] = ^Mask[i]", "RMask[i] = ^((1 << uint(i)) - 1)"),
    ("initMasks: the two loops in the other order", "report") + IM + ("\tfor i := 0; i < 65; i++ {\n\t\tMask[i] = (1 << uint(i)) - 1\n\t\tRMask[i] = ^Mask[i]\n\t}\n\n\tfor i := 0; i < 64; i++ {\n\t\tMaskUpto[i] = (1 << uint(i+1)) - 1\n\t\tRMaskUpto[i] = ^MaskUpto[i]\n\t\tBit[i] = 1 << uint(i)\n\t\tRBit[i] = ^Bit[i]\n\t}\n", "\tfor i := 0; i < 64; i++ {\n\t\tMaskUpto[i] = (1 << uint(i+1)) - 1\n\t\tRMaskUpto[i] = ^MaskUpto[i]\n\t\tBit[i] = 1 << uint(i)\n\t\tRBit[i] = ^Bit[i]\n\t}\n\n\tfor i := 0; i < 65; i++ {\n\t\tMask[i] = (1 << uint(i)) - 1\n\t\tRMask[i] = ^Mask[i]\n\t}\n"),
    ("initSelectLookup: j < 8 -> j != 8", "report") + IS + ("for j := 0; j < 8; j++ {", "for j := 0; j != 8; j++ {"),
    ("initSelectLookup: w &= w-1 -> w = w & (w-1)", "report") + IS + ("w &= w - 1", "w = w & (w - 1)"),
    ("idxToPath: an explicit `3: nil` row added", "report") + BI + ("\t\t4: {\n", "\t\t3: nil,\n\t\t4: {\n"),
    ("NewTailBitmap: fields of the literal in another order", "report") + NT + ("\t\tOffset:    offset,\n\t\treclaimed: offset,\n", "\t\treclaimed: offset,\n\t\tOffset:    offset,\n"),
    ("NewSectionWriter: off + n -> n + off", "report") + NS + ("off + n}", "n + off}"),
    ("NewSectionWriter: keyed literal", "report") + NS + ("return &SectionWriter{w, off, off, off + n}", "return &SectionWriter{limit: off + n, w: w, base: off, off: off}"),
    ("NewBuilder: capacity n>>6 -> (n+63)>>6", "report") + NB + ("make([]uint64, 0, n>>6)", "make([]uint64, 0, (n+63)>>6)"),
    ("NewBuilder: the struct is filled field by field", "report") + NB + ("\tb := &Builder{\n\t\tWords:  make([]uint64, 0, n>>6),\n\t\tOffset: 0,\n\t}\n", "\tb := &Builder{}\n\tb.Words = make([]uint64, 0, n>>6)\n\tb.Offset = 0\n"),
    ("FromStrs: index loop instead of range", "report") + FS + ("\tfor i, s := range strs {\n\t\trst[i] = w.FromStr(s)\n\t}\n", "\tfor i := 0; i < len(strs); i++ {\n\t\trst[i] = w.FromStr(strs[i])\n\t}\n"),
    ("MaxI32: a > b -> a >= b", "report") + U("MaxI32") + ("if a > b {", "if a >= b {"),
    ("MinU: if/else -> early return", "report") + U("MinU") + ("\tif a < b {\n\t\treturn a\n\t} else {\n\t\treturn b\n\t}\n", "\tif a < b {\n\t\treturn a\n\t}\n\treturn b\n"),
    ("ClapI32: second test as else-if on the updated value", "report") + U("ClapI32") + ("\tif n < min {\n\t\tn = min\n\t}\n\tif n > max {\n\t\tn = max\n\t}\n", "\tif n < min {\n\t\tn = min\n\t}\n\tif max < n {\n\t\tn = max\n\t}\n"),
    # ---- outside the supported subset: the translator must refuse -------------------------------------------
    ("initMasks: init() also writes Mask[3] (a second writer of the table)", "unsupported", "bitmap.initMasks") + BITMAP_INIT + ("\tinitSelectLookup()\n", "\tinitSelectLookup()\n\tMask[3] = 0\n"),
    ("initMasks: called twice from init()", "unsupported", "bitmap.initMasks") + BITMAP_INIT + ("\tinitMasks()\n", "\tinitMasks()\n\tinitMasks()\n"),
    ("initMasks: also callable after initialisation (an exported function calls it)", "unsupported", "bitmap.initMasks") + BITMAP_INIT + ("func init() {", "func ResetMasks() { initMasks() }\n\nfunc init() {"),
    ("initMasks: used as a function value", "unsupported", "bitmap.initMasks") + BITMAP_INIT + ("func init() {", "var maskInit = initMasks\n\nfunc init() {"),
    ("initMasks: called in a loop of init()", "unsupported", "bitmap.initMasks") + BITMAP_INIT + ("\tinitMasks()\n", "\tfor k := 0; k < 2; k++ {\n\t\tinitMasks()\n\t}\n"),
    ("initMasks: an exported function of another package writes bitmap.RMask", "unsupported", "bitmap.initMasks", "bitstr/bitstr.go", "func Len(", "func Len(", "func Spoil() { bitmap.RMask[0] = 1 }\n\nfunc Len("),
    ("initMasks: the address of a table entry escapes (&Bit[1] stored in a variable)", "unsupported", "bitmap.initMasks") + BITMAP_INIT + ("func init() {", "var bitOne = &Bit[1]\n\nfunc init() {"),
    ("initSelectLookup: reads Mask, a table another initialiser writes (order of initialisation)", "unsupported") + IS + ("x := bits.TrailingZeros8(w)", "x := bits.TrailingZeros8(w) + int(Mask[0])"),
    ("initSelectLookup: select8Lookup written by the verif hook as well", "unsupported", "bitmap.initSelectLookup", "bitmap/verif_hooks.go", "func VerifSelect8Lookup(", "r := make([]uint8, len(select8Lookup))", "select8Lookup[0] = 8\n\tr := make([]uint8, len(select8Lookup))"),
    ("idxToPath: a function overwrites a row", "unsupported", "bmtree.init", "bmtree/verif_hooks.go", "func VerifIdxToPath(", "r := make([][]uint64, len(idxToPath))", "idxToPath[3] = nil\n\tr := make([][]uint64, len(idxToPath))"),
    ("BitWord: a function registers further widths (map written after initialisation)", "unsupported", "bitword.init", "bitword/bitword.go", "func newBW(", "func newBW(", "func Register(n int) { BitWord[n] = newBW(n) }\n\nfunc newBW("),
    ("NewTailBitmap: a method is called on the new struct before it is returned", "unsupported") + NT + ("\treturn tb\n", "\ttb.Compact()\n\treturn tb\n"),
    ("NewBuilder: the new struct is stored in a package-level variable", "unsupported") + NB + ("\treturn b\n", "\tlastBuilder = b\n\treturn b\n}\n\nvar lastBuilder *Builder\n\nfunc unusedNB() {\n"),
    ("NewSectionWriter: the field w is set to nil, not to the parameter", "unsupported") + NS + ("return &SectionWriter{w, off, off, off + n}", "return &SectionWriter{nil, off, off, off + n}"),
    ("NewSectionWriter: the field w is left unset", "unsupported") + NS + ("return &SectionWriter{w, off, off, off + n}", "return &SectionWriter{base: off, off: off, limit: off + n}"),
    ("FromStrs: an entry is written through after it was stored (rst[i][0] = 0)", "unsupported") + FS + ("rst[i] = w.FromStr(s)", "rst[i] = w.FromStr(s)\n\t\tif len(rst[i]) > 0 {\n\t\t\trst[i][0] = 0\n\t\t}"),
    ("MinI8: arithmetic on int8", "unsupported") + U("MinI8") + ("\t\treturn a\n", "\t\treturn a + 0\n"),
    ("MaxI16: conversion to int16", "unsupported") + U("MaxI16") + ("\t\treturn a\n", "\t\treturn int16(int32(a))\n"),
    ("PathStr: another format (%[1]*[2]b, padded with spaces)", "unsupported") + PS + ("\"%0[1]*[2]b\"", "\"%[1]*[2]b\""),
    ("PathStr: the format is not a constant", "unsupported") + PS + ("return fmt.Sprintf(\"%0[1]*[2]b\", l, ", "f := \"%0[1]*\"\n\tif l > 40 {\n\t\tf = \"%[1]*\"\n\t}\n\treturn fmt.Sprintf(f+\"[2]b\", l, "),
    ("PathStr: fmt.Sprint of the value", "unsupported") + PS + ("return fmt.Sprintf(\"%0[1]*[2]b\", l, path>>uint(32+treeHeight-l))", "return fmt.Sprint(l, path>>uint(32+treeHeight-l))"),
    ("a tree that does not build", "nobuild") + IM + ("Mask[i] = (1 << uint(i)) - 1", "Mask[i] = undefinedName"),
]


# ---- generation 9 ---------------------------------------------------------------------------------------------
# "reject": the change must not pass — either the translator refuses (exit 2) or the tie theorem no longer compiles
SC = ("bitstr.StrCmpUpto", "bitstr/bitstr.go", "func StrCmpUpto(")
SC_HDR = "\tsh.Data = (*reflect.StringHeader)(unsafe.Pointer(&a)).Data\n\tsh.Len = len(a)\n\tsh.Cap = len(a)\n"
SC_ALL = "\tvar bs []byte\n\tsh := (*reflect.SliceHeader)(unsafe.Pointer(&bs))\n" + SC_HDR
CASES9 = [
    # semantic mutations of the data flow: translated, the tie must break
    ("StrCmpUpto: arguments swapped CmpUpto(b, bs)", "break") + SC + ("return CmpUpto(bs, b)", "return CmpUpto(b, bs)"),
    ("StrCmpUpto: Cmp called instead of CmpUpto", "break") + SC + ("return CmpUpto(bs, b)", "return Cmp(bs, b)"),
    ("StrCmpUpto: result negated", "break") + SC + ("return CmpUpto(bs, b)", "return -CmpUpto(bs, b)"),
    ("StrCmpUpto: b truncated by one byte", "break") + SC + ("return CmpUpto(bs, b)", "return CmpUpto(bs, b[:len(b)-1])"),
    ("StrCmpUpto: b compared with itself", "break") + SC + ("return CmpUpto(bs, b)", "return CmpUpto(b, b)"),
    ("StrCmpUpto: cmpBytes called directly", "break") + SC + ("return CmpUpto(bs, b)", "return cmpBytes(bs, b)"),
    ("StrCmpUpto: early return 0 for the empty string", "break") + SC + ("return CmpUpto(bs, b)", "if len(bs) == 0 {\n\t\treturn 0\n\t}\n\treturn CmpUpto(bs, b)"),
    # the unsafe construction itself: every deviation from the idiom is refused
    ("StrCmpUpto: defect D5, the string header punned as a slice header", "unsupported") + SC +
    (SC_ALL + "\treturn CmpUpto(bs, b)", "\t_ = reflect.Bool\n\treturn CmpUpto(*(*[]byte)(unsafe.Pointer(&a)), b)"),
    ("StrCmpUpto: Cap left out", "unsupported") + SC + ("\tsh.Cap = len(a)\n", ""),
    ("StrCmpUpto: Len left out", "unsupported") + SC + ("\tsh.Len = len(a)\n", ""),
    ("StrCmpUpto: Data left out", "unsupported") + SC + ("\tsh.Data = (*reflect.StringHeader)(unsafe.Pointer(&a)).Data\n", ""),
    ("StrCmpUpto: Len = len(a)-1", "unsupported") + SC + ("sh.Len = len(a)", "sh.Len = len(a) - 1"),
    ("StrCmpUpto: Cap = len(a)+1", "unsupported") + SC + ("sh.Cap = len(a)", "sh.Cap = len(a) + 1"),
    ("StrCmpUpto: Cap = 2*len(a) (bytes behind the string become appendable)", "unsupported") + SC + ("sh.Cap = len(a)", "sh.Cap = 2 * len(a)"),
    ("StrCmpUpto: Len = len(b)", "unsupported") + SC + ("sh.Len = len(a)", "sh.Len = len(b)"),
    ("StrCmpUpto: Data + 1", "unsupported") + SC + ("unsafe.Pointer(&a)).Data\n", "unsafe.Pointer(&a)).Data + 1\n"),
    ("StrCmpUpto: Data taken from another string than Len / Cap", "unsupported") + SC +
    ("\tsh.Data = (*reflect.StringHeader)(unsafe.Pointer(&a)).Data\n", "\tc := a + \"x\"\n\tsh.Data = (*reflect.StringHeader)(unsafe.Pointer(&c)).Data\n"),
    ("StrCmpUpto: Len assigned twice", "unsupported") + SC + ("\tsh.Cap = len(a)\n", "\tsh.Cap = len(a)\n\tsh.Len = len(a)\n"),
    ("StrCmpUpto: the header is read back (sh.Len++)", "unsupported") + SC + ("\tsh.Cap = len(a)\n", "\tsh.Cap = len(a)\n\tsh.Len++\n\tsh.Len--\n"),
    ("StrCmpUpto: bs read before the header is complete", "unsupported") + SC +
    ("\tsh.Cap = len(a)\n\treturn CmpUpto(bs, b)", "\tr := CmpUpto(bs, b)\n\tsh.Cap = len(a)\n\treturn r"),
    ("StrCmpUpto: a write through bs (the memory of a string)", "unsupported") + SC +
    ("\treturn CmpUpto(bs, b)", "\tif len(bs) > 0 {\n\t\tbs[0] = 1\n\t}\n\treturn CmpUpto(bs, b)"),
    ("StrCmpUpto: copy into bs", "unsupported") + SC + ("\treturn CmpUpto(bs, b)", "\tcopy(bs, b)\n\treturn CmpUpto(bs, b)"),
    ("StrCmpUpto: append to bs", "unsupported") + SC + ("\treturn CmpUpto(bs, b)", "\tbs = append(bs, 0)\n\treturn CmpUpto(bs, b)"),
    ("StrCmpUpto: bs re-sliced", "unsupported") + SC + ("\treturn CmpUpto(bs, b)", "\treturn CmpUpto(bs[:len(bs):len(bs)], b)"),
    ("StrCmpUpto: bs escapes into a closure", "unsupported") + SC +
    ("\treturn CmpUpto(bs, b)", "\tr := 0\n\tf := func() { r = CmpUpto(bs, b) }\n\tf()\n\treturn r"),
    ("StrCmpUpto: bs escapes into a function that is not translated (reflect.ValueOf)", "unsupported") + SC +
    ("\treturn CmpUpto(bs, b)", "\t_ = reflect.ValueOf(bs)\n\treturn CmpUpto(bs, b)"),
    ("StrCmpUpto: a sub-slice of bs (bs[1:])", "unsupported") + SC +
    ("\treturn CmpUpto(bs, b)", "\treturn CmpUpto(bs, b) + len(bs[1:])"),
    ("StrCmpUpto: bs converted back to a string", "unsupported") + SC +
    ("\treturn CmpUpto(bs, b)", "\treturn CmpUpto(bs, b) + len(string(bs))"),
    ("StrCmpUpto: the header pointer escapes (stored in an interface)", "unsupported") + SC +
    ("\tsh.Cap = len(a)\n", "\tsh.Cap = len(a)\n\tvar keep interface{} = sh\n\t_ = keep\n"),
    ("StrCmpUpto: the slice header of b is overwritten too", "unsupported") + SC +
    ("\tsh.Cap = len(a)\n", "\tsh.Cap = len(a)\n\t(*reflect.SliceHeader)(unsafe.Pointer(&b)).Len = 1\n"),
    ("StrCmpUpto: the length is read from the string header", "unsupported") + SC +
    ("sh.Len = len(a)", "sh.Len = (*reflect.StringHeader)(unsafe.Pointer(&a)).Len"),
    ("StrCmpUpto: the idiom in a loop", "unsupported") + SC +
    (SC_ALL + "\treturn CmpUpto(bs, b)", "\tr := 0\n\tfor i := 0; i < 2; i++ {\n" + SC_ALL + "\t\tr = CmpUpto(bs, b)\n\t}\n\treturn r"),
    # SSA-neutral
    ("StrCmpUpto: comment and blank line", "survive") + SC + ("\tsh.Len = len(a)\n", "\n\t// the length\n\tsh.Len = len(a)\n"),
    # harmless rewrites (reported)
    ("StrCmpUpto: the three header fields assigned in another order", "report") + SC +
    (SC_HDR, "\tsh.Cap = len(a)\n\tsh.Len = len(a)\n\tsh.Data = (*reflect.StringHeader)(unsafe.Pointer(&a)).Data\n"),
    ("StrCmpUpto: n := len(a) shared by Len and Cap", "report") + SC +
    ("\tsh.Len = len(a)\n\tsh.Cap = len(a)\n", "\tn := len(a)\n\tsh.Len = n\n\tsh.Cap = n\n"),
    ("StrCmpUpto: result through a local", "report") + SC + ("\treturn CmpUpto(bs, b)", "\tr := CmpUpto(bs, b)\n\treturn r"),
    ("StrCmpUpto: the copying conversion []byte(a)", "report") + SC +
    (SC_ALL + "\treturn CmpUpto(bs, b)", "\t_ = reflect.Bool\n\t_ = unsafe.Pointer(nil)\n\treturn CmpUpto([]byte(a), b)"),
    ("StrCmpUpto: the string-header pointer in a local", "report") + SC +
    ("\tsh.Data = (*reflect.StringHeader)(unsafe.Pointer(&a)).Data\n", "\tsth := (*reflect.StringHeader)(unsafe.Pointer(&a))\n\tsh.Data = sth.Data\n"),
]

HM = ("pbcmpl.header.Marshal", "pbcmpl/header.go", "func (h *header) Marshal(")
HU = ("pbcmpl.header.Unmarshal", "pbcmpl/header.go", "func (h *header) Unmarshal(")
HMS = ("pbcmpl.header.Marshal", "pbcmpl/header.go", "type header struct {")
HUS = ("pbcmpl.header.Unmarshal", "pbcmpl/header.go", "type header struct {")
HMV = ("pbcmpl.header.Marshal", "pbcmpl/header.go", "var (")
HSWAP = ("\tHeaderSize uint64\n\n\t// BodySize is the size in byte of user data.\n\tBodySize uint64\n",
         "\tBodySize uint64\n\n\t// swapped\n\tHeaderSize uint64\n")
CASES9 += [
    # the wire layout: the struct's fields in another order are translated (same shape) and the ties break
    ("header.Marshal: HeaderSize and BodySize swapped in the struct", "break") + HMS + HSWAP,
    ("header.Unmarshal: HeaderSize and BodySize swapped in the struct", "break") + HUS + HSWAP,
    # everything else about binary.Write / binary.Read is shape: refused
    ("header.Marshal: binary.BigEndian", "unsupported") + HM + ("binary.Write(b, endian, h)", "binary.Write(b, binary.BigEndian, h)"),
    ("header.Marshal: the variable endian holds binary.BigEndian", "unsupported") + HMV + ("endian    = binary.LittleEndian", "endian    = binary.BigEndian"),
    ("header.Marshal: Version is [8]byte", "unsupported") + HMS + ("Version [versionLen]byte", "Version [8]byte"),
    ("header.Marshal: a fourth field", "unsupported") + HMS + ("\tBodySize uint64\n", "\tBodySize uint64\n\tPad uint64\n"),
    ("header.Marshal: a field in front of Version", "unsupported") + HMS + ("\tVersion [versionLen]byte\n", "\tMagic uint64\n\tVersion [versionLen]byte\n"),
    ("header.Marshal: the buffer is written before", "unsupported") + HM + ("\terr := binary.Write(b, endian, h)", "\tb.WriteByte(1)\n\terr := binary.Write(b, endian, h)"),
    ("header.Marshal: only 16 bytes returned", "unsupported") + HM + ("return b.Bytes(), err", "return b.Bytes()[:16], err"),
    ("header.Marshal: the error dropped", "unsupported") + HM + ("return b.Bytes(), err", "_ = err\n\treturn b.Bytes(), nil"),
    ("header.Marshal: written twice", "unsupported") + HM + ("\terr := binary.Write(b, endian, h)", "\tbinary.Write(b, endian, h)\n\terr := binary.Write(b, endian, h)"),
    ("header.Marshal: the struct value instead of the pointer", "unsupported") + HM + ("binary.Write(b, endian, h)", "binary.Write(b, endian, *h)"),
    ("header.Marshal: only BodySize written", "unsupported") + HM + ("binary.Write(b, endian, h)", "binary.Write(b, endian, h.BodySize)"),
    ("header.Marshal: HeaderSize changed before writing", "unsupported") + HM + ("\terr := binary.Write(b, endian, h)", "\th.HeaderSize++\n\terr := binary.Write(b, endian, h)"),
    ("header.Unmarshal: buf[1:]", "unsupported") + HU + ("bytes.NewReader(buf)", "bytes.NewReader(buf[1:])"),
    ("header.Unmarshal: decoded into a copy", "unsupported") + HU + ("return binary.Read(r, endian, h)", "hh := *h\n\treturn binary.Read(r, endian, &hh)"),
    ("header.Unmarshal: the error dropped", "unsupported") + HU + ("return binary.Read(r, endian, h)", "binary.Read(r, endian, h)\n\treturn nil"),
    ("header.Unmarshal: binary.BigEndian", "unsupported") + HU + ("binary.Read(r, endian, h)", "binary.Read(r, binary.BigEndian, h)"),
    ("header.Unmarshal: BodySize cleared afterwards", "unsupported") + HU + ("return binary.Read(r, endian, h)", "err := binary.Read(r, endian, h)\n\th.BodySize = 0\n\treturn err"),
    ("header.Unmarshal: a strings.Reader of the bytes", "unsupported") + HU + ("r := bytes.NewReader(buf)", "r := bytes.NewBuffer(buf)"),
    ("header.Marshal: comment", "survive") + HM + ("\terr := binary.Write(b, endian, h)", "\t// 32 bytes\n\terr := binary.Write(b, endian, h)"),
    ("header.Marshal: var b bytes.Buffer; &b", "report") + HM + ("\tb := &bytes.Buffer{}\n\terr := binary.Write(b, endian, h)", "\tvar bb bytes.Buffer\n\tb := &bb\n\terr := binary.Write(b, endian, h)"),
    ("header.Marshal: the byte order through a local", "report") + HM + ("\terr := binary.Write(b, endian, h)", "\te := endian\n\terr := binary.Write(b, e, h)"),
    ("header.Unmarshal: the error through a local", "report") + HU + ("return binary.Read(r, endian, h)", "err := binary.Read(r, endian, h)\n\treturn err"),
    ("header.Marshal: binary.LittleEndian written out", "report") + HM + ("binary.Write(b, endian, h)", "binary.Write(b, binary.LittleEndian, h)"),
]


GEN2_TARGETS = set(c[2] for c in CASES2)
GEN4_TARGETS = set(c[2] for c in CASES4)
GEN7_TARGETS = set(c[2] for c in CASES7)
GEN9_TARGETS = set(c[2] for c in CASES9)


def gen_of(target):
    return 9 if target in GEN9_TARGETS else 2 if target in GEN2_TARGETS else 4 if target in GEN4_TARGETS else 7 if target in GEN7_TARGETS else 3


def lean_name(target):
    return target.replace(".", "_").replace("/", "_")


IMPORT_RE = re.compile(r"^import\s+(\S+)\s*$", re.M)


def mod_file(lean_dir, mod):
    return os.path.join(lean_dir, *mod.split(".")) + ".lean"


def inline(lean_dir, gen_text, lname, gen):
    """One self-contained Lean file: the regenerated text in place of `Generated.Ssa2.<lname>`, followed by the text of
    every project module between it and the tie file (the tie file itself, and helper modules such as
    `LowProofs.Tie2.<x>_L` that import the generated module), in dependency order; all other imports stay imports
    (of modules built from the unmodified source)."""
    target = "Generated.Ssa%d.%s" % (gen, lname)
    texts, dep_memo = {target: gen_text}, {}

    def text_of(mod):
        if mod not in texts:
            p = mod_file(lean_dir, mod)
            texts[mod] = open(p).read() if (mod.startswith(("LowProofs.Tie", "Generated.Ssa")) and os.path.exists(p)) else None
        return texts[mod]

    def depends(mod):
        if mod == target:
            return True
        if mod not in dep_memo:
            dep_memo[mod] = False
            t = text_of(mod)
            if t is not None:
                dep_memo[mod] = any(depends(m.group(1)) for m in IMPORT_RE.finditer(t))
        return dep_memo[mod]

    order, seen, extern = [], set(), []

    def visit(mod):
        if mod in seen:
            return
        seen.add(mod)
        for m in IMPORT_RE.finditer(text_of(mod)):
            imp = m.group(1)
            if depends(imp):
                visit(imp)
            elif imp not in extern:
                extern.append(imp)
        order.append(mod)

    visit("LowProofs.Tie%d.%s" % (gen, lname))
    if target not in seen:
        raise SystemExit("selftest: LowProofs.Tie%d.%s does not import %s" % (gen, lname, target))
    body = []
    for mod in order:
        t = IMPORT_RE.sub("", text_of(mod))
        if mod != target:
            # drop the one-line non-vacuity examples: they evaluate the generated definition on concrete inputs and
            # would fail on a mutant by themselves; the verdict must rest on the tie THEOREM alone
            # (a docstring directly in front of such an example goes with it)
            t = strip_examples(t)
        body.append("-- ======== " + mod + "\n" + t)
    return "".join("import %s\n" % i for i in extern) + "\n".join(body)


def strip_examples(t):
    """remove every `example …` command: its first line, the indented / blank-free continuation lines that follow, and
    the `set_option … in` lines and the docstring directly in front of it"""
    t = re.sub(r"/--(?:(?!-/).)*-/\s*\n(?=(?:set_option [^\n]* in\n)*example[ \n])", "", t, flags=re.S)
    out, lines, i = [], t.split("\n"), 0
    while i < len(lines):
        l = lines[i]
        if l.startswith("example ") or l == "example":
            while out and re.match(r"set_option .* in\s*$", out[-1]):
                out.pop()
            i += 1
            while i < len(lines) and (lines[i].startswith((" ", "\t")) and lines[i].strip() != ""):
                i += 1
            continue
        out.append(l)
        i += 1
    return "\n".join(out)


def lean_check(lean_dir, path):
    try:
        r = subprocess.run(["lake", "env", "lean", path], cwd=lean_dir, capture_output=True, text=True, timeout=600)
    except subprocess.TimeoutExpired:
        return False, ["error: lean did not finish within 600 s"]
    errs = [l for l in (r.stdout + r.stderr).splitlines() if ": error" in l or "error:" in l]
    return r.returncode == 0 and not errs, errs


def run_case(args, scratch, idx, case):
    name, expect, target, relfile, anchor, old, new = case
    lname = lean_name(target)
    d = os.path.join(scratch, "case%02d" % idx)
    repo = os.path.join(d, "repo")
    out = os.path.join(d, "out")
    shutil.copytree(args.base, repo, ignore=shutil.ignore_patterns(".git"))
    os.makedirs(out)
    if old is not None:
        edit_in_func(os.path.join(repo, relfile), anchor, old, new)
    t0 = time.time()
    r = subprocess.run([args.bin, "-q", "-repo", repo, "-outdir", out, "-only", target],
                       capture_output=True, text=True, env=ENV)
    res = {"case": name, "expect": expect, "target": target, "ssa2lean_exit": r.returncode,
           "ssa2lean_seconds": round(time.time() - t0, 2)}
    genfile = os.path.join(out, lname + ".lean")
    if expect == "nobuild":
        res["ok"] = r.returncode == 1 and "does not build" in r.stderr and not os.path.exists(genfile)
        res["outcome"] = "translator refused: source does not build" if res["ok"] else "UNEXPECTED: " + r.stderr[-300:]
        return res
    if not os.path.exists(genfile):
        res["ok"] = False
        res["outcome"] = "UNEXPECTED: no generated file; " + r.stderr[-300:]
        return res
    gen_text = open(genfile).read()
    unsupported = (lname + "_UNSUPPORTED") in gen_text
    gen_only = os.path.join(d, "GenOnly.lean")
    open(gen_only, "w").write(gen_text)
    gen_ok, gen_errs = lean_check(args.lean, gen_only)
    tie_file = os.path.join(args.lean, "LowProofs", "Tie%d" % gen_of(target), lname + ".lean")
    if not os.path.exists(tie_file):
        # no tie theorem yet: check what the translator does, nothing else
        res.update({"generated_compiles": gen_ok, "unsupported": unsupported, "no_tie": True})
        if expect == "unsupported":
            res["ok"] = r.returncode == 2 and unsupported and gen_ok
        else:
            res["ok"] = r.returncode == 0 and gen_ok and not unsupported
        res["outcome"] = "NO TIE FILE: translator behaves as expected" if res["ok"] else "UNEXPECTED (no tie file): see fields"
        return res
    scratch_tie = os.path.join(d, "Tie.lean")
    open(scratch_tie, "w").write(inline(args.lean, gen_text, lname, gen_of(target)))
    tie_ok, tie_errs = lean_check(args.lean, scratch_tie)
    res.update({"generated_compiles": gen_ok, "tie_compiles": tie_ok, "unsupported": unsupported,
                "first_error": (tie_errs[0][:200] if tie_errs else "")})
    if unsupported:
        m = re.search(r'_UNSUPPORTED : String := "(.*)"', gen_text)
        res["unsupported_reason"] = m.group(1) if m else "?"
    if expect == "baseline" or expect == "survive":
        res["ok"] = r.returncode == 0 and gen_ok and tie_ok
        res["outcome"] = "tie compiles" if res["ok"] else "UNEXPECTED: tie does not compile"
    elif expect == "break":
        res["ok"] = r.returncode == 0 and gen_ok and not unsupported and not tie_ok
        res["outcome"] = "tie broken (definition regenerated, proof rejected)" if res["ok"] else \
            ("UNEXPECTED: tie still compiles" if tie_ok else "UNEXPECTED: see fields")
    elif expect == "unsupported":
        res["ok"] = r.returncode == 2 and unsupported and gen_ok and not tie_ok
        res["outcome"] = "translator refused, tie broken" if res["ok"] else "UNEXPECTED: see fields"
    elif expect == "reject":
        res["ok"] = gen_ok and not tie_ok and r.returncode in (0, 2)
        res["outcome"] = ("translator refused, tie broken" if unsupported else "tie broken (definition regenerated, proof rejected)") \
            if res["ok"] else "UNEXPECTED: see fields"
    elif expect == "report":
        res["ok"] = r.returncode in (0, 2) and gen_ok  # the outcome itself is informational
        res["outcome"] = "tie SURVIVES the harmless rewrite" if tie_ok else \
            ("harmless rewrite REFUSED by the translator (false alarm, the safe direction)" if unsupported else
             "tie BREAKS on the harmless rewrite (false alarm: proof needs repair)")
    return res


XCLO = ["sigbits.XSum", "sigbits.XCollect", "sigbits.XFact", "sigbits.XReset", "sigbits.XImmediate"]


def difftest(args, scratch):
    """Differential test of the closure translation itself (no tie involved): testdata/xclo.go (closures of other shapes:
    not recursive, called in a loop / in branches / immediately, integer state, element stores into and `[:0]` of a
    captured slice, a read-only captured variable that the parent changes between calls) is added to a scratch copy of the
    repo, translated with `-extra`, and the generated definitions are EVALUATED by Lean on the inputs on which
    testdata/xclo_main.go runs the Go functions; the printed numbers must agree."""
    res = {"case": "closure translation: generated Lean evaluated against the Go code on testdata/xclo.go", "expect": "difftest",
           "target": ",".join(XCLO)}
    d = os.path.join(scratch, "difftest")
    repo, out, gomain = os.path.join(d, "repo"), os.path.join(d, "out"), os.path.join(d, "gomain")
    shutil.copytree(args.base, repo, ignore=shutil.ignore_patterns(".git"))
    os.makedirs(out)
    os.makedirs(gomain)
    td = os.path.join(HERE, "testdata")
    shutil.copy(os.path.join(td, "xclo.go.txt"), os.path.join(repo, "sigbits", "xclo.go"))
    r = subprocess.run([args.bin, "-q", "-repo", repo, "-outdir", out, "-extra", ",".join(XCLO), "-only", ",".join(XCLO)],
                       capture_output=True, text=True, env=ENV)
    if r.returncode != 0:
        res.update(ok=False, outcome="UNEXPECTED: translator exit %d: %s" % (r.returncode, (r.stdout + r.stderr)[-300:]))
        return res
    body = "".join(IMPORT_RE.sub("", open(os.path.join(out, lean_name(t) + ".lean")).read()) for t in XCLO)
    lean_file = os.path.join(d, "Eval.lean")
    open(lean_file, "w").write("import LowModel.GoSem\nimport LowModel.GoSem2\nimport LowModel.GoSem3\n" + body +
                               open(os.path.join(td, "xclo_eval.lean.txt")).read())
    rl = subprocess.run(["lake", "env", "lean", lean_file], cwd=args.lean, capture_output=True, text=True, timeout=600)
    shutil.copy(os.path.join(td, "xclo_main.go.txt"), os.path.join(gomain, "main.go"))
    open(os.path.join(gomain, "go.mod"), "w").write(
        "module gochk\ngo 1.22\nrequire github.com/openacid/low v0.0.0\nreplace github.com/openacid/low => %s\n" % repo)
    if os.path.exists(os.path.join(repo, "go.sum")):
        shutil.copy(os.path.join(repo, "go.sum"), gomain)
    rg = subprocess.run(["go", "run", "."], cwd=gomain, capture_output=True, text=True, env=ENV)
    nums = lambda text: [re.findall(r"-?\d+", l) for l in text.strip().splitlines()]
    lean_lines, go_lines = nums(rl.stdout), nums(rg.stdout)
    ok = rl.returncode == 0 and rg.returncode == 0 and "none" not in rl.stdout and "error" not in rl.stdout \
        and len(go_lines) >= 10 and lean_lines == go_lines
    res.update(ok=ok, lines=len(go_lines),
               outcome=("%d results agree" % len(go_lines)) if ok else
               "UNEXPECTED: lean=%r go=%r %s" % (rl.stdout[-400:], rg.stdout[-400:], (rl.stderr + rg.stderr)[-300:]))
    return res

XINIT = ["bitmap.initMasks", "bitmap.initSelectLookup", "bmtree.init", "bitmap.NewTailBitmap", "bitmap.NewBuilder", "sigbits.New", "bmtree.PathStr"]


def difftest7(args, scratch):
    """Differential test of the initialiser / constructor translation (no tie involved): the tables `Mask … RBit`,
    `select8Lookup`, `idxToPath` as the REAL package initialisation leaves them (printed by testdata/xinit_main.go, built
    with -tags verif) must equal the tables the regenerated initialisers return when Lean EVALUATES them; likewise the
    fields of `NewTailBitmap(128)`, `NewBuilder(1000)`, the counters of `New(keys).CountPrefixes`, and the bytes of `PathStr` of four
    path words (this exercises the trusted contract `GoSem7.sprintfBinPad` against the real `fmt.Sprintf`)."""
    res = {"case": "initialiser / constructor translation: generated Lean evaluated against the tables of the running Go program",
           "expect": "difftest", "target": ",".join(XINIT)}
    d = os.path.join(scratch, "difftest7")
    repo, out, gomain = os.path.join(d, "repo"), os.path.join(d, "out"), os.path.join(d, "gomain")
    shutil.copytree(args.base, repo, ignore=shutil.ignore_patterns(".git"))
    os.makedirs(out)
    os.makedirs(gomain)
    td = os.path.join(HERE, "testdata")
    r = subprocess.run([args.bin, "-q", "-repo", repo, "-outdir", out, "-only", ",".join(XINIT)],
                       capture_output=True, text=True, env=ENV)
    if r.returncode != 0:
        res.update(ok=False, outcome="UNEXPECTED: translator exit %d: %s" % (r.returncode, (r.stdout + r.stderr)[-300:]))
        return res
    texts = [open(os.path.join(out, lean_name(t) + ".lean")).read() for t in XINIT]
    imports = []
    for t in texts:
        for m in IMPORT_RE.finditer(t):
            if not m.group(1).startswith("Generated.Ssa7.") and m.group(1) not in imports:
                imports.append(m.group(1))
    imports.append("Generated.Ssa3.sigbits_SigBits_CountPrefixes")
    imports.append("Generated.Ssa.bmtree_NewPath")
    lean_file = os.path.join(d, "Eval.lean")
    open(lean_file, "w").write("".join("import %s\n" % i for i in imports) + "".join(IMPORT_RE.sub("", t) for t in texts) +
                               open(os.path.join(td, "xinit_eval.lean.txt")).read())
    rl = subprocess.run(["lake", "env", "lean", lean_file], cwd=args.lean, capture_output=True, text=True, timeout=600)
    shutil.copy(os.path.join(td, "xinit_main.go.txt"), os.path.join(gomain, "main.go"))
    open(os.path.join(gomain, "go.mod"), "w").write(
        "module gochk\ngo 1.22\nrequire github.com/openacid/low v0.0.0\nreplace github.com/openacid/low => %s\n" % repo)
    if os.path.exists(os.path.join(repo, "go.sum")):
        shutil.copy(os.path.join(repo, "go.sum"), gomain)
    rg = subprocess.run(["go", "run", "-tags", "verif", "."], cwd=gomain, capture_output=True, text=True, env=ENV)
    nums = lambda text: [re.findall(r"-?\d+", l) for l in text.strip().splitlines()]
    lean_lines, go_lines = nums(rl.stdout), nums(rg.stdout)
    total = sum(len(l) for l in go_lines)
    ok = rl.returncode == 0 and rg.returncode == 0 and "none" not in rl.stdout and "error" not in rl.stdout \
        and len(go_lines) == 23 and total > 2400 and lean_lines == go_lines
    res.update(ok=ok, lines=len(go_lines),
               outcome=("%d lines, %d numbers agree" % (len(go_lines), total)) if ok else
               "UNEXPECTED: lean=%r go=%r %s" % (rl.stdout[-300:], rg.stdout[-300:], (rl.stderr + rg.stderr)[-400:]))
    return res


def main():
    ap = argparse.ArgumentParser()
    ap.add_argument("--repo", default="/repo")
    ap.add_argument("--lean", default="/verif/lean")
    ap.add_argument("--bin", default=os.path.join(HERE, "bin", "ssa2lean9"))
    ap.add_argument("--gen", default="9", help="9: the cases of ssa2lean9 (default); 7: the cases of ssa2lean9 (initialisers, constructors, mathext/util; default); 4: those of ssa2lean4 (closures); 3: those of ssa2lean3; 2: those of ssa2lean2; all")
    ap.add_argument("--worktree", action="store_true", help="copy the working tree of --repo instead of exporting HEAD")
    ap.add_argument("--only", default="", help="run only the cases (and baselines) whose name or target contains this text")
    ap.add_argument("--json", default="")
    ap.add_argument("--keep", action="store_true", help="keep the scratch directory")
    ap.add_argument("-j", type=int, default=8)
    ap.add_argument("-v", action="store_true")
    args = ap.parse_args()
    args.repo = os.path.abspath(args.repo)

    r = subprocess.run(["go", "build", "-o", args.bin, "."], cwd=HERE, env=ENV, capture_output=True, text=True)
    if r.returncode != 0:
        raise SystemExit("selftest: cannot build ssa2lean9:\n" + r.stderr)

    # the scratch ties import already-built modules: make sure they are built (through the project lock)
    pool = {"9": CASES9, "7": CASES7, "4": CASES4, "3": CASES3, "2": CASES2, "all": CASES9 + CASES7 + CASES4 + CASES3 + CASES2}[args.gen]
    all_cases = [c for c in pool if args.only in c[0] or args.only in c[2]]
    mods = set()
    for c in all_cases:
        g = gen_of(c[2])
        f = os.path.join(args.lean, "LowProofs", "Tie%d" % g, lean_name(c[2]) + ".lean")
        if not os.path.exists(f):
            continue  # a target without a tie yet: only the translator's behaviour is checked (see run_case)
        mods.add("LowProofs.Tie%d.%s" % (g, lean_name(c[2])))
    lock = os.path.join(os.path.dirname(args.lean), "work", ".lake.lock")
    cmd = ["lake", "build"] + sorted(mods)
    if os.path.exists(os.path.dirname(lock)):
        cmd = ["flock", lock] + cmd
    r = subprocess.run(cmd, cwd=args.lean, capture_output=True, text=True)
    if r.returncode != 0:
        raise SystemExit("selftest: lake build of the imported modules failed:\n" + (r.stdout + r.stderr)[-2000:])

    targets = []
    for c in all_cases:
        if c[2] not in targets:
            targets.append(c[2])
    cases = [("baseline " + t, "baseline", t, None, None, None, None) for t in targets] + all_cases

    scratch = tempfile.mkdtemp(prefix="ssa2lean9-selftest-", dir="/tmp")
    results = []
    try:
        # a clean copy of the repo: `git archive HEAD` (the working tree may be in use), or the tree as it is
        args.base = os.path.join(scratch, "base")
        if args.worktree or not os.path.exists(os.path.join(args.repo, ".git")):
            shutil.copytree(args.repo, args.base, ignore=shutil.ignore_patterns(".git"))
        else:
            os.makedirs(args.base)
            r = subprocess.run("git -C %s archive HEAD | tar -x -C %s" % (args.repo, args.base), shell=True,
                               capture_output=True, text=True)
            if r.returncode != 0:
                raise SystemExit("selftest: git archive failed: " + r.stderr)
        with concurrent.futures.ThreadPoolExecutor(max_workers=max(1, args.j)) as ex:
            futs = [ex.submit(run_case, args, scratch, i, c) for i, c in enumerate(cases)]
            for f in futs:
                results.append(f.result())
        if args.gen in ("4", "all") and (args.only == "" or args.only in "difftest"):
            results.append(difftest(args, scratch))
        if args.gen in ("7", "all") and (args.only == "" or args.only in "difftest"):
            results.append(difftest7(args, scratch))
    finally:
        if args.keep:
            print("scratch kept:", scratch)
        else:
            shutil.rmtree(scratch, ignore_errors=True)

    bad = 0
    for r in results:
        flag = "ok  " if r["ok"] else "FAIL"
        if not r["ok"]:
            bad += 1
        print("%s [%-11s] %-58s %s" % (flag, r["expect"], r["case"], r["outcome"]))
        if args.v or not r["ok"]:
            for k in ("ssa2lean_exit", "generated_compiles", "tie_compiles", "unsupported_reason", "first_error"):
                if k in r and r[k] not in ("", None):
                    print("       %s: %s" % (k, r[k]))
    n = lambda e: sum(1 for r in results if r["expect"] == e)
    nb = sum(1 for r in results if r["expect"] == "break" and r["ok"])
    rep = [r for r in results if r["expect"] == "report"]
    print("summary: baseline %d, semantic mutations rejected %d/%d, SSA-neutral rewrites accepted %d/%d, "
          "harmless SSA-changing rewrites: %d survive / %d break, translator refusals %d/%d" % (
              n("baseline"), nb, n("break"),
              sum(1 for r in results if r["expect"] == "survive" and r["ok"]), n("survive"),
              sum(1 for r in rep if r.get("tie_compiles")), sum(1 for r in rep if not r.get("tie_compiles")),
              sum(1 for r in results if r["expect"] in ("unsupported", "nobuild") and r["ok"]),
              n("unsupported") + n("nobuild")))
    for r in results:
        if r["expect"] == "difftest":
            print("differential test (%s): %s" % (r["case"].split(":")[0], r["outcome"]))
    if args.json:
        json.dump(results, open(args.json, "w"), indent=1)
    sys.exit(1 if bad else 0)


if __name__ == "__main__":
    main()
