#!/usr/bin/env python3
"""Regenerates MANIFEST.json from properties.jsonl, lean/registry.json and tools/manifest_notes.json."""
import json, os
ROOT = os.path.dirname(os.path.dirname(os.path.abspath(__file__)))
props = [json.loads(l) for l in open(os.path.join(ROOT, "properties.jsonl"))]
reg = json.load(open(os.path.join(ROOT, "lean", "registry.json")))
notes = json.load(open(os.path.join(ROOT, "tools", "manifest_notes.json")))
ties = json.load(open(os.path.join(ROOT, "ties.json")))
checks, na = [], []
for p in props:
    pid = p["id"]
    n = notes.get(pid, {})
    if n.get("not_applicable"):
        na.append(dict(property_id=pid, reason=n["not_applicable"]))
        continue
    r = reg.get(pid, {})
    thms = [t["name"].replace("Low.", "") for t in r.get("theorems", [])]
    if r.get("complete"):
        cat = "proof"
        tied = [f for f in ties.get("properties", {}).get(pid, [])]
        text = ("Every clause of the property is a kernel-checked Lean 4 theorem about the executable model (%s), for all inputs with no size bound; "
                "the model is tied to the Go code on every run (1) by a go/ssa-to-Lean translator that regenerates the definitions of %d functions of this property from /repo's current source, "
                "with kernel-checked tie theorems (generated definition = model) and end-to-end theorems (the property's clauses stated on the regenerated definitions only) re-checked against them, and "
                "(2) by differential execution of the compiled model and of the executable specification against the real functions." % (", ".join(thms), len(tied)))
    elif thms:
        cat = n.get("category", "translation_validation")
        text = ("Partly proved: kernel-checked theorems %s; clauses not yet proved: %s. Until then the deciding check is the correspondence of model and executable specification with the real code." % (", ".join(thms), "; ".join(r.get("open", [])) or "see DESIGN.md"))
    else:
        cat = n.get("category", "translation_validation")
        text = "Executable Lean model and executable specification compared with the real code on every generated case; the theorems for this property are not written yet."
    if n.get("text"):
        text = n["text"]
    checks.append(dict(
        property_id=pid, quick_cmd="./check %s quick" % pid, thorough_cmd="./check %s thorough" % pid,
        evidence_file="evidence/%s.json" % pid, replay_cmd_template="./check --replay {path}",
        engine="lean-proof+correspondence",
        level_claimed=dict(category=cat, text=text, design_ref="DESIGN.md 7.%d" % int(pid[1:])),
        level_note=n.get("level_note", "Trusted: Lean kernel (axioms propext, Classical.choice, Quot.sound only); the go/ssa-to-Lean translators and their vocabulary (LowModel/GoSem*.lean) for the regenerated ties; where a function has no regenerated tie the hand-written model's fidelity rests on the correspondence check (differential testing, bounded by its generators); specifications in LowModel/Spec.lean; Go stdlib semantics as modelled. See DESIGN.md section 6."),
        technique=n.get("technique", "Lean 4 kernel-checked theorems about an executable model; model tied to the Go code by Lean definitions regenerated from the go/ssa form of the source on every run (tie and end-to-end theorems re-checked) and by a differential correspondence check")))
m = dict(version=1, setup_cmd="./setup.sh",
         hooks=dict(guard="verif", enable="go build -tags verif (the harness module replaces github.com/openacid/low by /repo)",
                    baseline_off_cmd="cd /repo && GOFLAGS=-mod=mod GOPROXY=off GOSUMDB=off go test -vet=off -count=1 ./...",
                    source_commits=["6ed7764"], add_only=True),
         engines=[dict(name="lean-proof+correspondence", path="check", serves_properties=[c["property_id"] for c in checks],
                       kind_free_text="Lean 4 kernel-checked theorems about a hand-written executable model (lean/LowModel, lean/LowProofs); Lean definitions regenerated from go/ssa on every run with tie and end-to-end theorems (tools/ssa2lean*, lean/Generated, lean/LowProofs/Tie*, E2E*); Go harness vs compiled Lean driver differential correspondence (harness/, check)")],
         checks=checks, notes="see DESIGN.md; fixed defects in KNOWN_FINDINGS.txt and findings/", not_applicable=na)
json.dump(m, open(os.path.join(ROOT, "MANIFEST.json"), "w"), indent=1)
print("checks:", len(checks), "proof:", sum(1 for c in checks if c["level_claimed"]["category"] == "proof"), "n/a:", len(na))
