#!/usr/bin/env python3
"""writes lean/extras_registry.json: every theorem `X0n_…` of lean/LowProofs/Extras/X0n*.lean with its docstring as clause"""
import json, os, re
ROOT = os.path.dirname(os.path.dirname(os.path.abspath(__file__)))
D = os.path.join(ROOT, "lean", "LowProofs", "Extras")
TITLES = {"X01": "bitmap.Fmt / intFmt / intSize", "X02": "tree.String / tree.DepthFirst", "X03": "typehelper.ToSlice",
          "X04": "size.Stat: the lines below the first"}
reg = {}
for pid in sorted(TITLES):
    thms = []
    for fn in sorted(f for f in os.listdir(D) if f.startswith(pid) and f.endswith(".lean")):
      src = open(os.path.join(D, fn)).read()
      for m in re.finditer(r"(?:/--(.*?)-/\s*)?^theorem\s+(%s_\w+)" % pid, src, flags=re.S | re.M):
        doc = m.group(1) or ""
        # a docstring belongs to the theorem only if nothing but whitespace separates them (the regex ensures it), but a
        # lazy match may have started at an earlier docstring: keep the last one
        doc = doc.split("/--")[-1]
        thms.append(dict(name="Low." + m.group(2), module="LowProofs.Extras." + fn[:-5], clause=" ".join(doc.split())[:400]))
    reg[pid] = dict(title=TITLES[pid], theorems=thms)
# X05: regenerated ties of functions no property is attached to (mathext/util, the select helpers only tests call) and
# the theorem about all package tables together (it spans the initialisers of three properties)
T7 = os.path.join(ROOT, "lean", "LowProofs", "Tie7")
thms = []
def scan(path, mod, pat):
    src = open(path).read()
    for m in re.finditer(r"^theorem\s+(%s\w*)" % pat, src, flags=re.M):
        stack = []
        for kw, x in re.findall(r"^(namespace|end)\s+(\S+)", src[:m.start()], flags=re.M):
            if kw == "namespace":
                stack.append(x)
            elif stack and stack[-1] == x:
                stack.pop()
        thms.append(dict(name=".".join(stack + [m.group(1)]), module=mod, clause=m.group(1)))
for fn in sorted(os.listdir(T7)):
    if fn.endswith(".lean") and (fn.startswith("mathext_util_") or fn[:-5] in ("bitmap_select32single", "bitmap_indexSelectU64", "bitmap_selectU64Indexed")):
        scan(os.path.join(T7, fn), "LowProofs.Tie7." + fn[:-5], "Tie_")
scan(os.path.join(ROOT, "lean", "LowProofs", "E2E7", "Tables.lean"), "LowProofs.E2E7.Tables", "E2E_tables")
reg["X05"] = dict(title="regenerated ties without a property: mathext/util Min/Max/Clap, unexported select helpers, all package tables together", theorems=thms)
json.dump(reg, open(os.path.join(ROOT, "lean", "extras_registry.json"), "w"), indent=1)
print({k: len(v["theorems"]) for k, v in reg.items()})
