#!/usr/bin/env python3
"""Lists, per property, the regenerated definitions its registered proof modules depend on (transitively) that are
NOT in the call closure of the property's own tied functions: such a dependency would let a change to another
property's function fail this property's check.  Expected output: nothing."""
import json, re, os, sys
ROOT = os.path.dirname(os.path.dirname(os.path.abspath(__file__)))
L = os.path.join(ROOT, "lean")
def imports(mod):
    p = os.path.join(L, mod.replace(".", "/") + ".lean")
    return re.findall(r"^import\s+(\S+)", open(p).read(), flags=re.M) if os.path.exists(p) else []
def closure(mods):
    seen, st = set(), list(mods)
    while st:
        m = st.pop()
        if m not in seen:
            seen.add(m); st.extend(imports(m))
    return seen
reg = json.load(open(os.path.join(L, "registry.json")))
ties = json.load(open(os.path.join(ROOT, "ties.json")))
bad = 0
for pid in sorted(reg):
    mods = {t["module"] for t in reg[pid]["theorems"]}
    gen = {m.split(".")[-1] for m in closure(mods) if m.startswith("Generated.Ssa")}
    def genmod(f):
        g = ties["functions"][f]["gen"]; return "Generated.Ssa%s.%s" % ("" if g == 1 else g, f)
    legit = {m.split(".")[-1] for m in closure([genmod(f) for f in ties["properties"].get(pid, [])]) if m.startswith("Generated.Ssa")}
    if gen - legit:
        bad += 1
        print(pid, "depends on regenerated definitions outside its own functions' call closure:", sorted(gen - legit))
    if legit - gen:
        print(pid, "note: tied functions with no registered theorem:", sorted(legit - gen))
sys.exit(1 if bad else 0)
