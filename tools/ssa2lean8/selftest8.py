#!/usr/bin/env python3
"""Evidence that the ties of generation 8 bite — ssa2lean8 with `-tags verif,debug` (the contract checks of package
bmtree written with github.com/openacid/must, regenerated from the debug build and tied to the model's contract
Booleans / `…Debug` functions; lean/LowProofs/Tie8).

Same technique as selftest.py (whose helpers it imports): for each seeded edit of a source file, a scratch copy of a
clean export of the repo is edited, the target is regenerated from the DEBUG build, the regenerated definition — and
every module of LowProofs/Tie8 between it and the target's tie — is inlined into a scratch copy of the tie with the
`example` commands stripped, and `lake env lean` decides.

  break        a semantic mutation: the regenerated definition is valid Lean, the tie theorem no longer compiles
  survive      a rewrite that leaves the SSA unchanged: the tie must still compile
  report       a harmless rewrite that changes the SSA: outcome reported (a break is a false alarm, the safe direction)
  unsupported  the translator must refuse (exit 2, `_UNSUPPORTED` file, tie broken)
  difftest     the generated definitions are EVALUATED by Lean on the inputs on which a Go program, built with
               `-tags debug`, calls the real functions (a panic is printed as `none`): the printed results must agree.
               Includes testdata/xdebug.go.txt: contract checks of other shapes (operands of different dynamic types,
               True / False with message arguments, NotEqual, a closure called twice by must.Be.OK).

usage: selftest8.py [--repo /repo] [--lean /verif/lean] [--json out.json] [--keep] [-j N] [-v] [--only text]
"""
import argparse, concurrent.futures, json, os, re, shutil, subprocess, sys, tempfile, time

HERE = os.path.dirname(os.path.abspath(__file__))
sys.path.insert(0, HERE)
import selftest as st  # helpers only: edit_in_func, inline, strip_examples, lean_check, IMPORT_RE

ENV = st.ENV
TAGS = "verif,debug"

BSC = ("bmtree.bitmapSizeCheck", "bmtree/bitmap_check.go", "func bitmapSizeCheck(")
BML = ("bmtree.bitmapMustHaveLevel", "bmtree/bitmap_check.go", "func bitmapMustHaveLevel(")
PC = ("bmtree.pathCheck", "bmtree/pathcheck.go", "func pathCheck(")
EQH = ("bmtree.bitmapPathMustHaveEqualHeight", "bmtree/bitmappath_check.go", "func bitmapPathMustHaveEqualHeight(")
P2I = ("bmtree.PathToIndex", "bmtree/index.go", "func PathToIndex(")
P2L = ("bmtree.PathToIndexLoose", "bmtree/index.go", "func PathToIndexLoose(")
DEC = ("bmtree.Decode", "bmtree/decode.go", "func Decode(")
SM = ("bmtree.shiftMulti", "bmtree/partial_tree.go", "func shiftMulti(")

P2I_OK = ("\tmust.Be.OK(func() {\n\t\tbitmapSizeCheck(bitmapSize)\n\t\tpathCheck(path)\n"
          "\t\tbitmapPathMustHaveEqualHeight(bitmapSize, path)\n\t\tbitmapMustHaveLevel(bitmapSize, PathLen(path))\n\t})\n")

# (name, expectation, (target, file, anchor), old, new)
CASES = [
    # ---- semantic mutations: the tie must break ------------------------------------------------------------------
    ("bitmapSizeCheck: height <= 30 -> height < 30", "break", BSC, "must.Be.True(height <= 30)", "must.Be.True(height < 30)"),
    ("bitmapSizeCheck: NotEqual -> Equal", "break", BSC, "must.Be.NotEqual(int32(0), bitmapSize)", "must.Be.Equal(int32(0), bitmapSize)"),
    ("bitmapSizeCheck: NotEqual(0, …) -> NotEqual(1, …)", "break", BSC, "must.Be.NotEqual(int32(0), bitmapSize)", "must.Be.NotEqual(int32(1), bitmapSize)"),
    ("bitmapSizeCheck: the zero check dropped", "break", BSC, "\tmust.Be.NotEqual(int32(0), bitmapSize)\n", ""),
    ("bitmapSizeCheck: NotEqual(int64(0), bitmapSize) — other dynamic type, never fails", "break", BSC,
     "must.Be.NotEqual(int32(0), bitmapSize)", "must.Be.NotEqual(int64(0), bitmapSize)"),
    ("pathCheck: mask constant 0xc0000000c0000000 -> 0xc000000080000000", "break", PC, "path&0xc0000000c0000000", "path&0xc000000080000000"),
    ("pathCheck: ^pmask&pbits -> pmask&pbits", "break", PC, "^pmask&pbits", "pmask&pbits"),
    ("pathCheck: path | (path - 1) -> path | (path + 1)", "break", PC, "uint32(path | (path - 1))", "uint32(path | (path + 1))"),
    ("pathCheck: 32 - LeadingZeros32 -> 31 - LeadingZeros32", "break", PC, "pheight := 32 - bits.LeadingZeros32", "pheight := 31 - bits.LeadingZeros32"),
    ("pathCheck: early return for an empty mask dropped", "break", PC, "\tif uint32(path) == 0 {\n\t\treturn\n\t}\n", ""),
    ("pathCheck: the consecutive-ones check dropped", "break", PC, "\tmust.Be.Equal(pheight, bits.OnesCount32(extended))\n", "\t_ = pheight\n\t_ = extended\n"),
    ("pathCheck: a contract added that fails for a legal input (path != 0)", "break", PC,
     "\tmust.Be.Equal(uint64(0), path&0xc0000000c0000000)\n", "\tmust.Be.Equal(uint64(0), path&0xc0000000c0000000)\n\tmust.Be.True(path != 0)\n"),
    ("bitmapPathMustHaveEqualHeight: guard uint32(path) != 0 dropped", "break", EQH, "if uint32(path) != 0 {", "{"),
    ("bitmapPathMustHaveEqualHeight: Height(bitmapSize) -> Height(bitmapSize)+1", "break", EQH,
     "must.Be.Equal(Height(bitmapSize), PathHeight(path)", "must.Be.Equal(Height(bitmapSize)+1, PathHeight(path)"),
    ("bitmapPathMustHaveEqualHeight: the call of pathCheck dropped", "break", EQH, "\tpathCheck(path)\n", ""),
    ("bitmapMustHaveLevel: tests bit l+1", "break", BML, "(bitmapSize>>uint(l))&1", "(bitmapSize>>uint(l+1))&1"),
    ("bitmapMustHaveLevel: Equal(1, …) -> Equal(0, …)", "break", BML, "must.Be.Equal(int32(1),", "must.Be.Equal(int32(0),"),
    ("bitmapMustHaveLevel: actual converted to int64 — dynamic types differ, always fails", "break", BML,
     "(bitmapSize>>uint(l))&1,", "int64((bitmapSize>>uint(l))&1),"),
    ("PathToIndex: the contracts moved after part of the computation (into the last branch only)", "break", P2I,
     P2I_OK + "\n\theight := Height(bitmapSize)\n\tsz := uint64(bitmapSize)\n\n\tif sz == bitmap.MaskUpto[height] {\n\n\t\t// sz is all \"1\", a full bitmap.\n\n"
     "\t\treturn (int32(path>>32) << 1) + int32(bits.OnesCount64(path^0xffffffff00000000)) - 32\n\n\t} else if sz == bitmap.Bit[height] {\n\n\t\t// only leaf nodes\n\n\t\treturn int32(path >> 32)\n\n\t} else {\n\n",
     "\n\theight := Height(bitmapSize)\n\tsz := uint64(bitmapSize)\n\n\tif sz == bitmap.MaskUpto[height] {\n\n\t\t// sz is all \"1\", a full bitmap.\n\n"
     "\t\treturn (int32(path>>32) << 1) + int32(bits.OnesCount64(path^0xffffffff00000000)) - 32\n\n\t} else if sz == bitmap.Bit[height] {\n\n\t\t// only leaf nodes\n\n\t\treturn int32(path >> 32)\n\n\t} else {\n\n" + P2I_OK.replace("\n\t", "\n\t\t").replace("\tmust.Be.OK", "\t\tmust.Be.OK", 1)),
    ("PathToIndex: a contract added that fails for a legal input (path != 0)", "break", P2I,
     "\t\tpathCheck(path)\n", "\t\tpathCheck(path)\n\t\tmust.Be.True(path != 0)\n"),
    ("PathToIndex: bitmapMustHaveLevel dropped from the contracts", "break", P2I,
     "\t\tbitmapMustHaveLevel(bitmapSize, PathLen(path))\n", ""),
    ("PathToIndex: bitmapMustHaveLevel(bitmapSize, PathLen(path)) -> PathLen(path)+1", "break", P2I,
     "bitmapMustHaveLevel(bitmapSize, PathLen(path))", "bitmapMustHaveLevel(bitmapSize, PathLen(path)+1)"),
    ("PathToIndex: the closure is built but not handed to must.Be.OK", "break", P2I,
     "\tmust.Be.OK(func() {", "\t_ = (func() {"),
    ("PathToIndex: the closure changes the captured path before the computation", "break", P2I,
     "\t\tbitmapMustHaveLevel(bitmapSize, PathLen(path))\n\t})", "\t\tbitmapMustHaveLevel(bitmapSize, PathLen(path))\n\t\tpath |= 1 << 32\n\t})"),
    ("PathToIndex (debug build): full bitmap - 32 -> - 31", "break", P2I,
     "path^0xffffffff00000000)) - 32", "path^0xffffffff00000000)) - 31"),
    ("PathToIndexLoose: bitmapPathMustHaveEqualHeight dropped from the contracts", "break", P2L,
     "\t\tbitmapPathMustHaveEqualHeight(bitmapSize, path)\n\t})\n\n\theight := Height(bitmapSize)\n\tsz := uint64(bitmapSize)\n\tpl :=",
     "\t})\n\n\theight := Height(bitmapSize)\n\tsz := uint64(bitmapSize)\n\tpl :="),
    ("PathToIndexLoose: the strict contract bitmapMustHaveLevel added", "break", P2L,
     "\t\tbitmapPathMustHaveEqualHeight(bitmapSize, path)\n\t})\n\n\theight := Height(bitmapSize)\n\tsz := uint64(bitmapSize)\n\tpl :=",
     "\t\tbitmapPathMustHaveEqualHeight(bitmapSize, path)\n\t\tbitmapMustHaveLevel(bitmapSize, PathLen(path))\n\t})\n\n\theight := Height(bitmapSize)\n\tsz := uint64(bitmapSize)\n\tpl :="),
    ("PathToIndexLoose (debug build): has = size >> pl -> size >> (pl+1)", "break", P2L,
     "(bitmapSize >> uint(pl)) & 1", "(bitmapSize >> uint(pl+1)) & 1"),
    ("Decode (debug build): idx&63 -> idx&31", "break", DEC, "uint(idx&63)", "uint(idx&31)"),
    ("Decode (debug build): a contract on the decoded index that fails for the root (idx != 0)", "break", DEC,
     "\t\twordI := idx >> 6\n", "\t\tmust.Be.True(idx != 0)\n\t\twordI := idx >> 6\n"),
    ("shiftMulti (debug build): rst += a>>shift -> + 1", "break", SM, "rst += (a >> shift)", "rst += (a >> shift) + 1"),
    # ---- rewrites that do not change the SSA: the tie must survive ------------------------------------------------
    ("pathCheck: comments and blank lines", "survive", PC, "\tpmask := uint32(path)\n", "\t// the mask half\n\n\tpmask := uint32(path)\n"),
    ("PathToIndex: comment inside the contract closure", "survive", P2I, "\t\tpathCheck(path)\n", "\t\t// the path word is well formed\n\t\tpathCheck(path)\n"),
    # ---- harmless rewrites that change the SSA: outcome reported ---------------------------------------------------
    ("bitmapMustHaveLevel: the message argument dropped", "report", BML, ",\n\t\t\"level[pathlen] must be stored by bitmap\")", ")"),
    ("bitmapMustHaveLevel: another message, with arguments", "report", BML, "\"level[pathlen] must be stored by bitmap\")",
     "\"level %d must be stored by bitmap %d\", l, bitmapSize)"),
    ("bitmapPathMustHaveEqualHeight: message dropped", "report", EQH, ",\n\t\t\t\"bitmap height == path height\")", ")"),
    ("bitmapSizeCheck: height <= 30 -> height < 31", "report", BSC, "must.Be.True(height <= 30)", "must.Be.True(height < 31)"),
    ("bitmapSizeCheck: the two checks in the other order", "report", BSC,
     "\tmust.Be.True(height <= 30)\n\tmust.Be.NotEqual(int32(0), bitmapSize)\n", "\tmust.Be.NotEqual(int32(0), bitmapSize)\n\tmust.Be.True(height <= 30)\n"),
    ("bitmapSizeCheck: NotEqual(0, size) -> NotEqual(size, 0)", "report", BSC,
     "must.Be.NotEqual(int32(0), bitmapSize)", "must.Be.NotEqual(bitmapSize, int32(0))"),
    ("pathCheck: uint32(path) == 0 -> path&0xffffffff == 0", "report", PC, "if uint32(path) == 0 {", "if path&0xffffffff == 0 {"),
    ("PathToIndex: the closure bound to a variable first (f := func(){…}; must.Be.OK(f))", "report", P2I,
     "\tmust.Be.OK(func() {", "\tf := (func() {", ),
    ("PathToIndex: the contracts after the pure prologue (height, sz)", "report", P2I,
     P2I_OK + "\n\theight := Height(bitmapSize)\n\tsz := uint64(bitmapSize)\n", "\n\theight := Height(bitmapSize)\n\tsz := uint64(bitmapSize)\n" + P2I_OK),
    ("PathToIndex: the redundant first two checks dropped (bitmapPathMustHaveEqualHeight repeats them)", "report", P2I,
     "\t\tbitmapSizeCheck(bitmapSize)\n\t\tpathCheck(path)\n\t\tbitmapPathMustHaveEqualHeight(bitmapSize, path)\n\t\tbitmapMustHaveLevel",
     "\t\tbitmapPathMustHaveEqualHeight(bitmapSize, path)\n\t\tbitmapMustHaveLevel"),
    # ---- refusals ---------------------------------------------------------------------------------------------------
    ("bitmapSizeCheck: must.Be.NotZero (a method of must.Be that is not translated)", "unsupported", BSC,
     "must.Be.NotEqual(int32(0), bitmapSize)", "must.Be.NotZero(bitmapSize)"),
    ("bitmapMustHaveLevel: Equal on values of a NAMED integer type", "unsupported", BML,
     "\tmust.Be.Equal(int32(1), (bitmapSize>>uint(l))&1,", "\ttype lvl int32\n\tmust.Be.Equal(lvl(1), lvl((bitmapSize>>uint(l))&1),"),
    ("bitmapMustHaveLevel: Equal on strings", "unsupported", BML,
     "\tmust.Be.Equal(int32(1), (bitmapSize>>uint(l))&1,", "\tmust.Be.Equal(\"1\", \"1\","),
    ("bitmapSizeCheck: Equal against nil", "unsupported", BSC,
     "must.Be.NotEqual(int32(0), bitmapSize)", "must.Be.NotEqual(nil, bitmapSize)"),
    ("pathCheck: Equal on floats (NaN != NaN under DeepEqual)", "unsupported", PC,
     "must.Be.Equal(uint32(0), ^pmask&pbits)", "must.Be.Equal(float64(0), float64(^pmask&pbits))"),
    ("bitmapMustHaveLevel: a message argument that is not a basic value (a slice)", "unsupported", BML,
     "\"level[pathlen] must be stored by bitmap\")", "\"level[pathlen] must be stored by bitmap\", []int32{l})"),
    ("bitmapSizeCheck: a boxed operand bound to a variable and used twice", "unsupported", BSC,
     "\tmust.Be.NotEqual(int32(0), bitmapSize)\n", "\tvar z interface{} = int32(0)\n\tmust.Be.NotEqual(z, bitmapSize)\n\tmust.Be.NotEqual(z, bitmapSize)\n\t_ = z.(int32)\n"),
    ("PathToIndex: must.Be.OK applied to a named function", "unsupported", P2I,
     "\tmust.Be.OK(func() {\n\t\tbitmapSizeCheck(bitmapSize)", "\tmust.Be.OK(noCheck)\n\tmust.Be.OK(func() {\n\t\tbitmapSizeCheck(bitmapSize)"),
    ("PathToIndex: the function literal handed to must.Be.OK captures nothing (no closure in go/ssa)", "unsupported", P2I,
     P2I_OK, "\tmust.Be.OK(func() {\n\t\tmust.Be.True(true)\n\t})\n"),
    ("PathToIndex: the contract panic is recovered (defer / recover)", "unsupported", P2I,
     "\tmust.Be.OK(func() {\n\t\tbitmapSizeCheck(bitmapSize)", "\tdefer func() { recover() }()\n\tmust.Be.OK(func() {\n\t\tbitmapSizeCheck(bitmapSize)"),
    ("PathToIndex: the contract closure also started as a goroutine", "unsupported", P2I,
     "\tmust.Be.OK(func() {", "\tgo must.Be.OK(func() {"),
    ("PathToIndex: must.Be used through an interface (dynamic call)", "unsupported", P2I,
     "\tmust.Be.OK(func() {\n\t\tbitmapSizeCheck(bitmapSize)",
     "\tvar chk interface{ True(bool, ...interface{}) } = must.Be\n\tchk.True(path != 0)\n\tmust.Be.OK(func() {\n\t\tbitmapSizeCheck(bitmapSize)"),
]
# files appended to the scratch copy by some cases
APPEND = {"PathToIndex: must.Be.OK applied to a named function": ("bmtree/index.go", "\nfunc noCheck() {}\n")}
# the closure-bound-to-a-variable rewrite needs a second edit
SECOND = {"Decode (debug build): a contract on the decoded index that fails for the root (idx != 0)":
          ("bmtree/decode.go", "package bmtree", "package bmtree\n", "package bmtree\n\nimport \"github.com/openacid/must\"\n"),
          "PathToIndex: the closure bound to a variable first (f := func(){…}; must.Be.OK(f))":
          ("bmtree/index.go", "func PathToIndex(", "\t\tbitmapMustHaveLevel(bitmapSize, PathLen(path))\n\t})\n",
           "\t\tbitmapMustHaveLevel(bitmapSize, PathLen(path))\n\t})\n\tmust.Be.OK(f)\n")}


def lean_name(target):
    return target.replace(".", "_") + "_debug"


def run_case(args, scratch, idx, case):
    name, expect, (target, relfile, anchor), old, new = case
    lname = lean_name(target)
    d = os.path.join(scratch, "case%02d" % idx)
    repo, out = os.path.join(d, "repo"), os.path.join(d, "out")
    shutil.copytree(args.base, repo, ignore=shutil.ignore_patterns(".git"))
    os.makedirs(out)
    if old is not None:
        st.edit_in_func(os.path.join(repo, relfile), anchor, old, new)
    if name in SECOND:
        f2, a2, o2, n2 = SECOND[name]
        st.edit_in_func(os.path.join(repo, f2), a2, o2, n2)
    if name in APPEND:
        f2, text = APPEND[name]
        open(os.path.join(repo, f2), "a").write(text)
    t0 = time.time()
    r = subprocess.run([args.bin, "-q", "-repo", repo, "-tags", TAGS, "-outdir", out, "-only", target],
                       capture_output=True, text=True, env=ENV)
    res = {"case": name, "expect": expect, "target": target, "ssa2lean_exit": r.returncode,
           "ssa2lean_seconds": round(time.time() - t0, 2)}
    genfile = os.path.join(out, lname + ".lean")
    if not os.path.exists(genfile):
        res["ok"] = False
        res["outcome"] = "UNEXPECTED: no generated file; " + r.stderr[-400:]
        return res
    gen_text = open(genfile).read()
    unsupported = (lname + "_UNSUPPORTED") in gen_text
    gen_only = os.path.join(d, "GenOnly.lean")
    open(gen_only, "w").write(gen_text)
    gen_ok, _ = st.lean_check(args.lean, gen_only)
    scratch_tie = os.path.join(d, "Tie.lean")
    open(scratch_tie, "w").write(st.inline(args.lean, gen_text, lname, 8))
    tie_ok, tie_errs = st.lean_check(args.lean, scratch_tie)
    res.update({"generated_compiles": gen_ok, "tie_compiles": tie_ok, "unsupported": unsupported,
                "first_error": (tie_errs[0][:200] if tie_errs else "")})
    if unsupported:
        m = re.search(r'_UNSUPPORTED : String := "(.*)"', gen_text)
        res["unsupported_reason"] = m.group(1) if m else "?"
    if expect in ("baseline", "survive"):
        res["ok"] = r.returncode == 0 and gen_ok and tie_ok
        res["outcome"] = "tie compiles" if res["ok"] else "UNEXPECTED: tie does not compile"
    elif expect == "break":
        res["ok"] = r.returncode == 0 and gen_ok and not unsupported and not tie_ok
        res["outcome"] = "tie broken (definition regenerated, proof rejected)" if res["ok"] else \
            ("UNEXPECTED: tie still compiles" if tie_ok else "UNEXPECTED: see fields")
    elif expect == "unsupported":
        res["ok"] = r.returncode == 2 and unsupported and gen_ok and not tie_ok
        res["outcome"] = ("translator refused, tie broken: " + res.get("unsupported_reason", "")[:110]) if res["ok"] else "UNEXPECTED: see fields"
    elif expect == "report":
        res["ok"] = r.returncode == 0 and gen_ok
        res["outcome"] = "tie SURVIVES the harmless rewrite" if tie_ok else \
            "tie BREAKS on the harmless rewrite (false alarm: proof needs repair)"
    return res


# ---- differential test ------------------------------------------------------------------------------------------
SIZES = [0, 1, 2, 3, 5, 7, 0x72, 0x75, 0xfd49, 0x40000001, 0x7fffffff, -1, -0x80000000, 0x40000000]
PATHS = [0, 1, 3, 0x100000003, 0x300000003, 0x200000002, 0x28_0000003c, 0x28_00000038, 0x2c_0000003c, 0x29_00000038,
         0x5_00000007, 0xa_0000000e, 0x1_0000000e, 0x0_0000000a, 0x0_40000000, 0x3fffffff_3fffffff, 0x0_3fffffff,
         0x20000000_20000000, 0x7fffffff_7fffffff, 0xffffffff_ffffffff, 0xc0000000_00000000, 0x1_00000000,
         0x3fffffff_3ffffffe, 0x15_0000003f, 0x15_0000003e]
X = ["bmtree.XBitmapSizeCheck", "bmtree.XPathCheck", "bmtree.XMustHaveLevel", "bmtree.XEqualHeight", "bmtree.XEqTypes",
     "bmtree.XNeTypes", "bmtree.XMisc", "bmtree.XTwice"]


def difftest(args, scratch):
    res = {"case": "debug-build translation: generated Lean evaluated against the Go code built with -tags debug",
           "expect": "difftest", "target": "bmtree (12 targets) + testdata/xdebug.go.txt"}
    d = os.path.join(scratch, "difftest")
    repo, out, gomain = os.path.join(d, "repo"), os.path.join(d, "out"), os.path.join(d, "gomain")
    shutil.copytree(args.base, repo, ignore=shutil.ignore_patterns(".git"))
    os.makedirs(out)
    os.makedirs(gomain)
    shutil.copy(os.path.join(HERE, "testdata", "xdebug.go.txt"), os.path.join(repo, "bmtree", "xdebug.go"))
    r = subprocess.run([args.bin, "-q", "-repo", repo, "-tags", TAGS, "-outdir", out, "-extra", ",".join(X)],
                       capture_output=True, text=True, env=ENV)
    if r.returncode != 0:
        res.update(ok=False, outcome="UNEXPECTED: translator exit %d: %s" % (r.returncode, (r.stdout + r.stderr)[-400:]))
        return res
    # one Lean file: every generated definition in dependency order (the translator's order of targets), imports dropped
    order = ["Height", "PathLen", "PathHeight", "shiftMulti", "bitmapSizeCheck", "pathCheck", "bitmapMustHaveLevel",
             "bitmapPathMustHaveEqualHeight", "PathToIndex", "PathToIndexLoose", "AllPaths", "Decode"] + [x.split(".")[1] for x in X]
    body = "".join(st.IMPORT_RE.sub("", open(os.path.join(out, "bmtree_%s_debug.lean" % n)).read()) for n in order)
    ev, go = ["open Low.Gen.Ssa8"], []
    i32 = lambda v: "(%d : Int)" % v
    for t in SIZES:
        ev.append("#eval bmtree_XBitmapSizeCheck_debug %s" % i32(t)); go.append("r1(func() int32 { return bmtree.XBitmapSizeCheck(%d) })" % t)
        for l in (0, 1, 3, 4, 30, 31, 32, 40, -1):
            ev.append("#eval bmtree_XMustHaveLevel_debug %s %s" % (i32(t), i32(l))); go.append("r1(func() int32 { return bmtree.XMustHaveLevel(%d, %d) })" % (t, l))
    for p in PATHS:
        ev.append("#eval bmtree_XPathCheck_debug %d" % p); go.append("r1(func() int32 { return bmtree.XPathCheck(%d) })" % p)
    for t in SIZES:
        for p in PATHS:
            ev.append("#eval bmtree_XEqualHeight_debug %s %d" % (i32(t), p)); go.append("r1(func() int32 { return bmtree.XEqualHeight(%d, %d) })" % (t, p))
            ev.append("#eval bmtree_PathToIndex_debug 70 %s %d" % (i32(t), p)); go.append("r1(func() int32 { return bmtree.PathToIndex(%d, %d) })" % (t, p))
            ev.append("#eval bmtree_PathToIndexLoose_debug 70 %s %d" % (i32(t), p)); go.append("r2(func() (int32, int32) { return bmtree.PathToIndexLoose(%d, %d) })" % (t, p))
    for t, bm in [(5, [0b10101]), (0x72, [0xfff0f0f0f0f0f0f0, 0x0123456789abcdef]), (0x72, []), (7, [0x7f]), (1, [1]), (0, [1]), (0x1ff, [2**64 - 1] * 8)]:
        ev.append("#eval bmtree_Decode_debug 600 %s [%s]" % (i32(t), ", ".join(map(str, bm))))
        go.append("rl(func() []uint64 { return bmtree.Decode(%d, []uint64{%s}) })" % (t, ", ".join(map(str, bm))))
    for a, b in [(1, 1), (0, 0), (1, 2), (-1, -1)]:
        ev.append("#eval bmtree_XEqTypes_debug %s %s" % (i32(a), i32(b))); go.append("r1(func() int32 { return bmtree.XEqTypes(%d, %d) })" % (a, b))
    for a, b in [(1, 1), (0, 0), (1, 2), (7, 7)]:
        ev.append("#eval bmtree_XNeTypes_debug %d %d" % (a, b)); go.append("r1(func() int32 { return bmtree.XNeTypes(%d, %d) })" % (a, b))
    for x, y in [(4, 1), (3, 1), (4, 4), (60, 70), (60, 7), (7, 60), (101, 200), (260, 3), (260, 4), (-5, 2)]:
        ev.append("#eval bmtree_XMisc_debug %s %d" % (i32(x), y)); go.append("r1(func() int32 { return bmtree.XMisc(%d, %d) })" % (x, y))
    for x in (0, 3, 4, 5, 9, 10, -7):
        ev.append("#eval bmtree_XTwice_debug %s" % i32(x)); go.append("r1(func() int32 { return bmtree.XTwice(%d) })" % x)
    lean_file = os.path.join(d, "Eval.lean")
    open(lean_file, "w").write("import LowModel.GoSem\nimport LowModel.GoSem2\nimport LowModel.GoSem3\nimport LowModel.GoSem8\n" +
                               body + "\n".join(ev[:1] + [re.sub(r"^#eval (.*)$", r"#eval IO.println ((repr (\1)).pretty 100000000)", e) for e in ev[1:]]) + "\n")
    rl = subprocess.run(["lake", "env", "lean", lean_file], cwd=args.lean, capture_output=True, text=True, timeout=900)
    open(os.path.join(gomain, "main.go"), "w").write('''package main

import (
	"fmt"
	"strings"

	"github.com/openacid/low/bmtree"
)

func r1(f func() int32) {
	defer func() {
		if recover() != nil {
			fmt.Println("none")
		}
	}()
	fmt.Printf("some %d\\n", f())
}
func r2(f func() (int32, int32)) {
	defer func() {
		if recover() != nil {
			fmt.Println("none")
		}
	}()
	a, b := f()
	fmt.Printf("some (%d, %d)\\n", a, b)
}
func rl(f func() []uint64) {
	defer func() {
		if recover() != nil {
			fmt.Println("none")
		}
	}()
	var s []string
	for _, x := range f() {
		s = append(s, fmt.Sprint(x))
	}
	fmt.Printf("some [%s]\\n", strings.Join(s, ", "))
}

func main() {
''' + "".join("\t%s\n" % g for g in go) + "}\n")
    open(os.path.join(gomain, "go.mod"), "w").write(
        "module gochk\ngo 1.22\nrequire github.com/openacid/low v0.0.0\nreplace github.com/openacid/low => %s\n" % repo)
    shutil.copy(os.path.join(repo, "go.sum"), gomain)
    rg = subprocess.run(["go", "run", "-tags", "debug", "."], cwd=gomain, capture_output=True, text=True, env=ENV)
    norm = lambda text: [re.sub(r"\((-\d+)\)", r"\1", re.sub(r"\s+", " ", l.strip())) for l in text.strip().splitlines()]
    lean_lines, go_lines = norm(rl.stdout), norm(rg.stdout)
    nnone = sum(1 for l in go_lines if l == "none")
    bad = [(i, a, b) for i, (a, b) in enumerate(zip(lean_lines, go_lines)) if a != b]
    ok = rl.returncode == 0 and rg.returncode == 0 and len(go_lines) == len(go) and len(lean_lines) == len(go) and not bad
    res.update(ok=ok, lines=len(go_lines), panics=nnone,
               outcome=("%d results agree (%d of them panics of the debug build)" % (len(go_lines), nnone)) if ok else
               "UNEXPECTED: %d lean lines, %d go lines, first differences %r; %s" % (
                   len(lean_lines), len(go_lines), [(ev[i + 1], a, b) for i, a, b in bad[:5]], (rl.stderr + rg.stderr)[-400:]))
    return res


def main():
    ap = argparse.ArgumentParser()
    ap.add_argument("--repo", default="/repo")
    ap.add_argument("--lean", default="/verif/lean")
    ap.add_argument("--bin", default=os.path.join(HERE, "bin", "ssa2lean8"))
    ap.add_argument("--only", default="")
    ap.add_argument("--json", default="")
    ap.add_argument("--keep", action="store_true")
    ap.add_argument("-j", type=int, default=8)
    ap.add_argument("-v", action="store_true")
    args = ap.parse_args()
    args.repo = os.path.abspath(args.repo)
    r = subprocess.run(["go", "build", "-o", args.bin, "."], cwd=HERE, env=ENV, capture_output=True, text=True)
    if r.returncode != 0:
        raise SystemExit("selftest8: cannot build ssa2lean8:\n" + r.stderr)
    all_cases = [c for c in CASES if args.only in c[0] or args.only in c[2][0]]
    targets = []
    for c in all_cases:
        if c[2] not in targets:
            targets.append(c[2])
    mods = sorted("LowProofs.Tie8." + lean_name(t[0]) for t in targets)
    lock = os.path.join(os.path.dirname(args.lean), "work", ".lake.lock")
    cmd = ["lake", "build", "LowModel.GoSem8"] + mods
    if os.path.exists(os.path.dirname(lock)):
        cmd = ["flock", lock] + cmd
    r = subprocess.run(cmd, cwd=args.lean, capture_output=True, text=True)
    if r.returncode != 0:
        raise SystemExit("selftest8: lake build of the imported modules failed:\n" + (r.stdout + r.stderr)[-2000:])
    cases = [("baseline " + t[0], "baseline", t, None, None) for t in targets] + all_cases
    scratch = tempfile.mkdtemp(prefix="t8-selftest-", dir="/tmp")
    results = []
    try:
        args.base = os.path.join(scratch, "base")
        os.makedirs(args.base)
        r = subprocess.run("git -C %s archive HEAD | tar -x -C %s" % (args.repo, args.base), shell=True, capture_output=True, text=True)
        if r.returncode != 0:
            raise SystemExit("selftest8: git archive failed: " + r.stderr)
        with concurrent.futures.ThreadPoolExecutor(max_workers=max(1, args.j)) as ex:
            futs = [ex.submit(run_case, args, scratch, i, c) for i, c in enumerate(cases)]
            for f in futs:
                results.append(f.result())
        if args.only == "" or args.only in "difftest":
            results.append(difftest(args, scratch))
    finally:
        if args.keep:
            print("scratch kept:", scratch)
        else:
            shutil.rmtree(scratch, ignore_errors=True)
    bad = 0
    for r in results:
        flag = "ok  " if r["ok"] else "FAIL"
        bad += 0 if r["ok"] else 1
        print("%s [%-11s] %-64s %s" % (flag, r["expect"], r["case"], r["outcome"]))
        if args.v or not r["ok"]:
            for k in ("ssa2lean_exit", "generated_compiles", "tie_compiles", "unsupported_reason", "first_error"):
                if k in r and r[k] not in ("", None):
                    print("       %s: %s" % (k, r[k]))
    n = lambda e: sum(1 for r in results if r["expect"] == e)
    rep = [r for r in results if r["expect"] == "report"]
    print("summary: baseline %d/%d, semantic mutations rejected %d/%d, SSA-neutral rewrites accepted %d/%d, "
          "harmless SSA-changing rewrites: %d survive / %d break, translator refusals %d/%d" % (
              sum(1 for r in results if r["expect"] == "baseline" and r["ok"]), n("baseline"),
              sum(1 for r in results if r["expect"] == "break" and r["ok"]), n("break"),
              sum(1 for r in results if r["expect"] == "survive" and r["ok"]), n("survive"),
              sum(1 for r in rep if r.get("tie_compiles")), sum(1 for r in rep if not r.get("tie_compiles")),
              sum(1 for r in results if r["expect"] == "unsupported" and r["ok"]), n("unsupported")))
    for r in results:
        if r["expect"] == "difftest":
            print("differential test: " + r["outcome"])
    if args.json:
        json.dump(results, open(args.json, "w"), indent=1)
    sys.exit(1 if bad else 0)


if __name__ == "__main__":
    main()
