package main

// Generation 8: the `-tags debug` build, in which the contract checks written
// with github.com/openacid/must are real code.
//
// In the release build `must.Be` is `disabled.Be`, whose methods have empty
// bodies (translate.go: isNoop).  With the build tag `debug` it is
// `enabled.Be = &enabled.beTyp{}`, and (must@v0.1.3/enabled/enabled.go)
//
//     func (be *beTyp) OK(f func())                                   { f() }
//     func (be *beTyp) True(value bool, msgAndArgs ...interface{})    { t := &tTyp{}; t.chk(assert.True(t, value, msgAndArgs...)) }
//     func (be *beTyp) Equal(expected, actual interface{}, msg...)    { t := &tTyp{}; t.chk(assert.Equal(t, expected, actual, msg...)) }
//     func (be *beTyp) NotEqual(expected, actual interface{}, msg...) { t := &tTyp{}; t.chk(assert.NotEqual(t, expected, actual, msg...)) }
//     func (t *tTyp) chk(rst bool)                                    { if !rst { panic(strings.Join(t.msg, "\n")) } }
//
// with testify's assert.True (value), assert.Equal (ObjectsAreEqual: for two
// non-nil values that are not []byte, reflect.DeepEqual — same dynamic type and
// same value), assert.NotEqual (its negation).  The message arguments are only
// used to build the panic message.  None of the methods uses its receiver, and
// go/ssa resolves the calls statically (the static type of `must.Be` is the
// concrete pointer type), so the value of the variable `must.Be` is irrelevant.
//
// The translation (vocabulary lean/LowModel/GoSem8.lean):
//   must.Be.OK(func(){…})   the closure is CALLED (closure.go; the call through OK is a direct call of it)
//   must.Be.True(c, …)      Option.bind (GoSem8.mustTrue c) fun _ => …
//   must.Be.False(c, …)     Option.bind (GoSem8.mustFalse c) fun _ => …
//   must.Be.Equal(a, b, …)  Option.bind (GoSem8.mustEqual (GoSem8.Iface.int32 a) (GoSem8.Iface.int32 b)) fun _ => …
//   must.Be.NotEqual(a, b, …)  … GoSem8.mustNotEqual …
// where the interface arguments must be `make interface{} <- T (x)` with T one
// of the PREDECLARED integer types or bool (not a named type: it could have
// methods, and it is a different dynamic type) — the constructor of
// GoSem8.Iface is the dynamic type, so that `Equal(int64(1), int(1))` fails as
// it does in Go.  Everything else (other methods of must.Be, other argument
// types, nil) is refused.  The wrappers' bodies are checked against the shapes
// above (mustKind), and the versions of the two modules must be reviewed ones.

import (
	"fmt"
	"go/token"
	"go/types"
	"strings"

	"golang.org/x/tools/go/ssa"
)

const mustPath = "github.com/openacid/must"
const mustEnabledPrefix = "(*github.com/openacid/must/enabled.beTyp)."
const testifyPath = "github.com/stretchr/testify"

// moduleVersion: module path -> version, of every module a loaded package belongs to (filled by load).
var moduleVersion = map[string]string{}

// the versions whose source was read when the vocabulary was written
var reviewedVersions = map[string][]string{
	mustPath:    {"v0.1.3"},
	testifyPath: {"v1.8.1"},
}

// which methods of must.Be are translated, and the testify function each must wrap
var mustAssert = map[string]string{"True": "True", "False": "False", "Equal": "Equal", "NotEqual": "NotEqual"}

var mustKindMemo = map[*ssa.Function]string{}

func realInstrs(b *ssa.BasicBlock) []ssa.Instruction {
	var r []ssa.Instruction
	for _, in := range b.Instrs {
		if _, dbg := in.(*ssa.DebugRef); !dbg {
			r = append(r, in)
		}
	}
	return r
}

// chkOK: `func (t *tTyp) chk(rst bool) { if !rst { panic(…) } }` — returns normally when rst is true, and
// every other path ends in a panic.
func chkOK(f *ssa.Function) bool {
	if f == nil || f.String() != "(*github.com/openacid/must/enabled.tTyp).chk" || len(f.Params) != 2 || len(f.Blocks) == 0 || f.Recover != nil {
		return false
	}
	ins := realInstrs(f.Blocks[0])
	if len(ins) == 0 {
		return false
	}
	iff, ok := ins[len(ins)-1].(*ssa.If)
	if !ok {
		return false
	}
	// the condition is `rst` or `!rst`
	cond, negated := iff.Cond, false
	if u, isNot := cond.(*ssa.UnOp); isNot && u.Op == token.NOT {
		cond, negated = u.X, true
	}
	if cond != ssa.Value(f.Params[1]) {
		return false
	}
	for _, in := range ins[:len(ins)-1] {
		if u, isNot := in.(*ssa.UnOp); !isNot || u.Op != token.NOT {
			return false
		}
	}
	good, bad := f.Blocks[0].Succs[0], f.Blocks[0].Succs[1]
	if negated {
		good, bad = bad, good
	}
	// rst = true: returns at once
	gi := realInstrs(good)
	if len(gi) != 1 {
		return false
	}
	if r, isRet := gi[0].(*ssa.Return); !isRet || len(r.Results) != 0 {
		return false
	}
	// rst = false: a single block that ends in panic (what it computes is the message)
	return bad != good && endsInPanic(bad)
}

// mustKind: "" (not a method of the enabled must.Be) or the name of the method, after checking that the body
// has the shape described at the top of this file; a method of must.Be of another shape is refused.
func mustKind(callee *ssa.Function) string {
	if callee == nil || !strings.HasPrefix(callee.String(), mustEnabledPrefix) {
		return ""
	}
	if k, ok := mustKindMemo[callee]; ok {
		if k == "" {
			fail("%s does not have the reviewed shape", callee)
		}
		return k
	}
	name := callee.Name()
	ok := func() bool {
		if len(callee.Blocks) != 1 || callee.Recover != nil {
			return false
		}
		ins := realInstrs(callee.Blocks[0])
		if name == "OK" {
			// t0 = f(); return
			if len(callee.Params) != 2 || len(ins) != 2 {
				return false
			}
			call, isCall := ins[0].(*ssa.Call)
			ret, isRet := ins[1].(*ssa.Return)
			return isCall && isRet && len(ret.Results) == 0 && !call.Call.IsInvoke() &&
				call.Call.Value == ssa.Value(callee.Params[1]) && len(call.Call.Args) == 0
		}
		want, known := mustAssert[name]
		if !known {
			return false
		}
		// t0 = new tTyp; t1 = make TestingT <- *tTyp (t0); t2 = assert.X(t1, params[1:]...); t3 = chk(t0, t2); return
		if len(ins) != 5 {
			return false
		}
		alloc, ok0 := ins[0].(*ssa.Alloc)
		mi, ok1 := ins[1].(*ssa.MakeInterface)
		c1, ok2 := ins[2].(*ssa.Call)
		c2, ok3 := ins[3].(*ssa.Call)
		ret, ok4 := ins[4].(*ssa.Return)
		if !(ok0 && ok1 && ok2 && ok3 && ok4) || len(ret.Results) != 0 || mi.X != ssa.Value(alloc) {
			return false
		}
		a := c1.Call.StaticCallee()
		if a == nil || a.String() != testifyPath+"/assert."+want || len(c1.Call.Args) != len(callee.Params) || c1.Call.Args[0] != ssa.Value(mi) {
			return false
		}
		for i := 1; i < len(callee.Params); i++ {
			if c1.Call.Args[i] != ssa.Value(callee.Params[i]) {
				return false
			}
		}
		return chkOK(c2.Call.StaticCallee()) && len(c2.Call.Args) == 2 && c2.Call.Args[0] == ssa.Value(alloc) && c2.Call.Args[1] == ssa.Value(c1)
	}()
	if !ok {
		mustKindMemo[callee] = ""
		if _, known := mustAssert[name]; !known && name != "OK" {
			fail("must.Be.%s is not supported (only OK, True, False, Equal, NotEqual)", name)
		}
		fail("%s does not have the reviewed shape", callee)
	}
	mustKindMemo[callee] = name
	return name
}

// mustCallOf: the instruction is a call of a (translated) method of the enabled must.Be.
func mustCallOf(in ssa.Instruction) (*ssa.Call, string) {
	call, ok := in.(*ssa.Call)
	if !ok || call.Call.IsInvoke() {
		return nil, ""
	}
	callee := call.Call.StaticCallee()
	if callee == nil || !strings.HasPrefix(callee.String(), mustEnabledPrefix) {
		return nil, ""
	}
	return call, mustKind(callee)
}

// checkMustBuild: the program that was loaded is the build the generation expects — with the tag `debug`
// the variable must.Be has the enabled type and the two modules have reviewed versions; without it, must.Be
// is not the enabled one.
func (tr *translator) checkMustBuild() {
	var be *ssa.Global
	for _, p := range tr.prog.AllPackages() {
		if p.Pkg.Path() == mustPath {
			be, _ = p.Members["Be"].(*ssa.Global)
		}
	}
	enabled := be != nil && be.Type().String() == "**github.com/openacid/must/enabled.beTyp"
	if !debugBuild {
		if enabled {
			fatalf("the packages were loaded with must.Be enabled although the build tags do not contain `debug`")
		}
		return
	}
	if !enabled {
		fatalf("build tag `debug`, but must.Be is not *enabled.beTyp (is github.com/openacid/must still imported?)")
	}
	for _, m := range []string{mustPath, testifyPath} {
		ok := false
		for _, v := range reviewedVersions[m] {
			ok = ok || moduleVersion[m] == v
		}
		if !ok {
			fatalf("module %s has version %q; the translation of the contract checks was written against %v — review enabled.go / assert.ObjectsAreEqual and add the version", m, moduleVersion[m], reviewedVersions[m])
		}
	}
}

// onlyFeedsMust: every use of the loaded `must.Be` is as the receiver of a translated method.
func onlyFeedsMust(v ssa.Value) bool {
	refs := v.Referrers()
	if refs == nil {
		return false
	}
	for _, r := range *refs {
		if _, dbg := r.(*ssa.DebugRef); dbg {
			continue
		}
		call, kind := mustCallOf(r)
		if call == nil || kind == "" || call.Call.Args[0] != v {
			return false
		}
		for _, a := range call.Call.Args[1:] {
			if a == v {
				return false
			}
		}
	}
	return true
}

// boxableType: a predeclared integer type or bool — the constructor of GoSem8.Iface that stands for it.
func boxableType(t types.Type) (string, bool) {
	b, ok := types.Unalias(t).(*types.Basic) // not Underlying(): a named type is another dynamic type
	if !ok {
		return "", false
	}
	switch b.Kind() {
	case types.Int:
		return "int", true
	case types.Int32:
		return "int32", true
	case types.Int64:
		return "int64", true
	case types.Uint:
		return "uint", true
	case types.Uint8:
		return "uint8", true
	case types.Uint16:
		return "uint16", true
	case types.Uint32:
		return "uint32", true
	case types.Uint64:
		return "uint64", true
	case types.Bool:
		return "bool", true
	}
	return "", false
}

// mustArgIndex: position of v among the arguments of the call (-1: none, -2: several)
func argIndex(call *ssa.Call, v ssa.Value) int {
	idx := -1
	for i, a := range call.Call.Args {
		if a == v {
			if idx >= 0 {
				return -2
			}
			idx = i
		}
	}
	return idx
}

// mustMsgArray: `new [N]interface{} (varargs)` that only carries the message arguments of ONE must call:
// every use is `&t[k]` (used by exactly one store of a `make interface{}` of a value of a predeclared basic
// type) or the one `t[:]` that is the LAST argument of a call of a translated must method.  Building it cannot
// panic and has no effect but the allocation; the callee reads it only to build the panic message.
func mustMsgArray(a *ssa.Alloc) bool {
	arr, ok := isArrayPtr(a.Type())
	if !ok {
		return false
	}
	if _, isIface := arr.Elem().Underlying().(*types.Interface); !isIface {
		return false
	}
	refs := a.Referrers()
	if refs == nil {
		return false
	}
	slices := 0
	for _, r := range *refs {
		switch x := r.(type) {
		case *ssa.DebugRef:
		case *ssa.IndexAddr:
			if x.X != ssa.Value(a) || x.Referrers() == nil {
				return false
			}
			n := 0
			for _, u := range *x.Referrers() {
				if _, dbg := u.(*ssa.DebugRef); dbg {
					continue
				}
				st, isStore := u.(*ssa.Store)
				if !isStore || st.Addr != ssa.Value(x) {
					return false
				}
				mi, isMI := st.Val.(*ssa.MakeInterface)
				if !isMI || !msgValueType(mi.X.Type()) {
					return false
				}
				n++
			}
			if n != 1 {
				return false
			}
		case *ssa.Slice:
			if x.X != ssa.Value(a) || x.Low != nil || x.High != nil || x.Max != nil || x.Referrers() == nil {
				return false
			}
			slices++
			n := 0
			for _, u := range *x.Referrers() {
				if _, dbg := u.(*ssa.DebugRef); dbg {
					continue
				}
				call, kind := mustCallOf(u)
				if call == nil || kind == "" || kind == "OK" || argIndex(call, x) != len(call.Call.Args)-1 {
					return false
				}
				n++
			}
			if n != 1 {
				return false
			}
		default:
			return false
		}
	}
	return slices == 1
}

// msgValueType: a value of this type may be a message argument: a predeclared basic type (no methods that
// formatting could call), integers, bools, strings.
func msgValueType(t types.Type) bool {
	b, ok := types.Unalias(t).(*types.Basic)
	if !ok {
		return false
	}
	return b.Info()&(types.IsInteger|types.IsBoolean|types.IsString) != 0 && b.Kind() != types.UnsafePointer
}

// mustSilent: the instruction belongs to the construction of the arguments of a must call and has no Lean
// counterpart of its own: the message array and its parts, and the boxing of the operands of Equal / NotEqual
// (translated where the call is).
func mustSilent(in ssa.Instruction) bool {
	switch x := in.(type) {
	case *ssa.Alloc:
		return mustMsgArray(x)
	case *ssa.IndexAddr:
		a, ok := x.X.(*ssa.Alloc)
		return ok && mustMsgArray(a)
	case *ssa.Slice:
		a, ok := x.X.(*ssa.Alloc)
		return ok && mustMsgArray(a)
	case *ssa.Store:
		ia, ok := x.Addr.(*ssa.IndexAddr)
		if !ok {
			return false
		}
		a, ok := ia.X.(*ssa.Alloc)
		return ok && mustMsgArray(a)
	case *ssa.MakeInterface:
		refs := x.Referrers()
		if refs == nil {
			return false
		}
		n := 0
		for _, r := range *refs {
			if _, dbg := r.(*ssa.DebugRef); dbg {
				continue
			}
			n++
			if st, isStore := r.(*ssa.Store); isStore {
				// a message argument
				if st.Val != ssa.Value(x) || !mustSilent(st) {
					return false
				}
				continue
			}
			// an operand of Equal / NotEqual
			call, kind := mustCallOf(r)
			if call == nil || (kind != "Equal" && kind != "NotEqual") {
				return false
			}
			if i := argIndex(call, x); i != 1 && i != 2 {
				return false
			}
			if _, ok := boxableType(x.X.Type()); !ok {
				fail("must.Be.%s on a value of type %s (only the predeclared integer types and bool)", kind, x.X.Type())
			}
		}
		return n > 0
	}
	return false
}

// box: the Lean value of an `interface{}` operand of Equal / NotEqual.
func (c *fnCtx) box(v ssa.Value, kind string) string {
	mi, ok := v.(*ssa.MakeInterface)
	if !ok {
		fail("operand of must.Be.%s that is not a freshly boxed value: %s", kind, v)
	}
	ctor, ok := boxableType(mi.X.Type())
	if !ok {
		fail("must.Be.%s on a value of type %s (only the predeclared integer types and bool)", kind, mi.X.Type())
	}
	c.gosem8 = true
	return fmt.Sprintf("(GoSem8.Iface.%s %s)", ctor, c.operand(mi.X))
}

// emitMustCall: a call of a method of the enabled must.Be other than OK (OK is a closure call, closure.go).
func (c *fnCtx) emitMustCall(v *ssa.Call, kind string, ind int) {
	if hasUses(v) {
		fail("result of %s is used", v)
	}
	args := v.Call.Args
	if !c.silent[args[0]] {
		fail("receiver of %s", v)
	}
	// the message arguments: none, or the checked array
	msg := args[len(args)-1]
	if k, isConst := msg.(*ssa.Const); isConst {
		if k.Value != nil || !isSliceType(k.Type()) {
			fail("message arguments of %s", v)
		}
	} else if s, isSlice := msg.(*ssa.Slice); !isSlice || !mustSilent(s) {
		fail("message arguments of %s are not a literal argument list of integers, bools and strings", v)
	}
	c.gosem8 = true
	var expr string
	switch kind {
	case "True", "False":
		if len(args) != 3 || !isBool(args[1].Type()) {
			fail("unexpected signature: %s", v)
		}
		expr = fmt.Sprintf("GoSem8.must%s %s", kind, c.operand(args[1]))
	case "Equal", "NotEqual":
		if len(args) != 4 {
			fail("unexpected signature: %s", v)
		}
		expr = fmt.Sprintf("GoSem8.must%s %s %s", kind, c.box(args[1], kind), c.box(args[2], kind))
	default:
		fail("must.Be.%s", kind)
	}
	c.line(ind, "Option.bind (%s) fun (_ : Unit) =>", expr)
}

// isMustOKCall: `must.Be.OK(mc)` with mc the function's closure: a call of the closure without arguments.
func isMustOKCall(call *ssa.Call, mc *ssa.MakeClosure) bool {
	c, kind := mustCallOf(call)
	return c != nil && kind == "OK" && len(call.Call.Args) == 2 && call.Call.Args[1] == ssa.Value(mc) && call.Call.Args[0] != ssa.Value(mc)
}
