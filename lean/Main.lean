import LowModel.Driver
open Low.Driver

partial def loop (hin hout : IO.FS.Stream) : IO Unit := do
  let line ← hin.getLine
  if line.isEmpty then return ()
  let l := String.ofList (line.toList.reverse.dropWhile (fun c => c == '\n' || c == '\r')).reverse
  if l.isEmpty || l.startsWith "#" then loop hin hout else
  hout.putStrLn (answer l)
  loop hin hout

def main : IO Unit := do
  let hin ← IO.getStdin
  let hout ← IO.getStdout
  loop hin hout
  hout.flush
