import LowModel.Bitmap.Rank
import LowModel.Bytes
import LowModel.Bmtree.Path
/-
  SPECIFICATIONS the property theorems are stated against (beyond `rank`, `ones`, `bitAt`,
  `bitsBE`, `lexCmp`, `lcp`, `structSize`, which live next to the vocabulary they use).
  Read these: they are the meaning given to the English statements of properties.jsonl.
-/
namespace Low

/-! ### bmtree: nodes are branch lists (`false` = left), root = `[]` -/

/-- SPEC (C10): the path word of node `n` in a tree of height `h` -/
def encPath (h : Nat) (n : List Bool) : Nat :=
  ((bitsVal n <<< (h - n.length)) <<< 32) ||| ((2 ^ n.length - 1) <<< (h - n.length))

/-- the node a well-formed path word of height `h` denotes -/
def nodeOf (h p : Nat) : List Bool :=
  (List.range (pathLen p)).map fun j => (p >>> 32).testBit (h - 1 - j)

/-- SPEC (C03): level `d` is stored under level mask `t` -/
def storedLevel (t d : Nat) : Bool := t.testBit d

/-- SPEC (C03): number of stored nodes before node `n` in pre-order; `d` = depth of the subtree root -/
def preIdx (t : Nat) : Nat → List Bool → Nat
  | _, [] => 0
  | d, b :: r => (t.testBit d).toNat + (if b then t >>> (d + 1) else 0) + preIdx t (d + 1) r

/-- SPEC (C03/C04): recursive pre-order enumeration of the stored nodes of the subtree at `pfx`
    (depth `d`, `r` levels below it) -/
def preorder (t : Nat) : Nat → Nat → List Bool → List (List Bool)
  | 0, d, pfx => if t.testBit d then [pfx] else []
  | r+1, d, pfx => (if t.testBit d then [pfx] else []) ++
      preorder t r (d + 1) (pfx ++ [false]) ++ preorder t r (d + 1) (pfx ++ [true])

/-- SPEC (C04): the stored paths in pre-order -/
def storedPaths (t h : Nat) : List Nat := (preorder t h 0 []).map (encPath h)

/-- SPEC (C05): the node at pre-order position `idx` of the full tree of height `h` -/
def nodeAt : Nat → Nat → List Bool
  | 0, _ => []
  | h+1, idx =>
      if idx = 0 then []
      else if idx - 1 < 2 ^ (h + 1) - 1 then false :: nodeAt h (idx - 1)
      else true :: nodeAt h (idx - 2 ^ (h + 1))

/-! ### sigbits -/

/-- SPEC (C16): first differing bit of two keys (= 8*min len when one is a byte prefix of the other) -/
def fdSpec (a b : List Nat) : Nat := lcp (bitsBE a) (bitsBE b)

/-- SPEC (C16): the `n`-bit prefix of a key (the whole key when shorter) -/
def truncBits (n : Nat) (k : List Nat) : List Bool := (bitsBE k).take n

def distinctCount {α} [DecidableEq α] (l : List α) : Nat := l.eraseDups.length

/-- SPEC (C17): byte length of the longest common prefix of a non-empty list of keys:
    the largest `L` such that every key agrees with the first one on its first `L` bytes -/
def lcpAll : List (List Nat) → Nat
  | [] => 0
  | k :: ks => ks.foldl (fun m k' => min m (lcp k k')) k.length

/-- byte-lexicographic strict order on keys -/
def keyLt (a b : List Nat) : Bool := bytesCompare a b == -1

def strictAsc (keys : List (List Nat)) : Bool :=
  (List.zipWith keyLt keys keys.tail).all id

/-- SPEC (C17): the four clauses of the property, as a checkable predicate on a result `(L, B)` -/
def shardOK (keys : List (List Nat)) (maxSize : Nat) (L B : List Nat) : Bool :=
  B.length == L.length + 1 && B.head? == some 0 && B.getLast? == some keys.length &&
  (List.zipWith (fun a b => decide (a < b)) B B.tail).all id &&
  (List.zipWith (fun a b => decide (b - a ≤ maxSize)) B B.tail).all id &&
  ((List.range L.length).all fun j =>
      L.getD j 0 == lcpAll ((keys.drop (B.getD j 0)).take (B.getD (j+1) 0 - B.getD j 0))) &&
  strictAsc ((List.range L.length).map fun j => (keys.getD (B.getD j 0) []).take (L.getD j 0))

end Low

namespace Low
/-! ### iohelper: the reference cursor machine of C18 (plain integers, no wrap-around) -/

structure RefSW where
  base : Int
  off : Int
  limit : Int
deriving Repr, DecidableEq

/-- outcome of one call: return value, error class, and the call made on the underlying writer -/
structure RefOut where
  n : Int
  err : Option String
  ucall : Option (Int × Nat)
deriving Repr, DecidableEq

/-- the underlying writer's scripted behaviour on a buffer of `len` bytes -/
def refAccept (accept : Nat) (fail : Bool) (len : Nat) : Nat × Bool :=
  (min accept len, fail || decide (accept < len))

def RefSW.write (s : RefSW) (plen accept : Nat) (fail : Bool) : RefSW × RefOut :=
  if s.off ≥ s.limit then (s, ⟨0, some "ShortWrite", none⟩) else
  let room := (s.limit - s.off).toNat
  let k := min plen room
  let (n, failed) := refAccept accept fail k
  ({ s with off := s.off + n },
   ⟨n, if failed then some "Underlying" else if plen > room then some "ShortWrite" else none, some (s.off, k)⟩)

def RefSW.writeAt (s : RefSW) (plen : Nat) (off : Int) (accept : Nat) (fail : Bool) : RefOut :=
  if off < 0 ∨ off ≥ s.limit - s.base then ⟨0, some "ShortWrite", none⟩ else
  let room := (s.limit - s.base - off).toNat
  let k := min plen room
  let (n, failed) := refAccept accept fail k
  ⟨n, if failed then some "Underlying" else if plen > room then some "ShortWrite" else none, some (s.base + off, k)⟩

def RefSW.seek (s : RefSW) (offset whence : Int) : RefSW × RefOut :=
  if whence ≠ 0 ∧ whence ≠ 1 ∧ whence ≠ 2 then (s, ⟨0, some "Whence", none⟩) else
  let target := offset + (if whence = 0 then s.base else if whence = 1 then s.off else s.limit)
  if target < s.base then (s, ⟨0, some "Offset", none⟩)
  else ({ s with off := target }, ⟨target - s.base, none, none⟩)

/-- a call of the SectionWriter API with the scripted answer of the underlying writer -/
inductive RefCall where
  | write (plen accept : Nat) (fail : Bool)
  | writeAt (plen : Nat) (off : Int) (accept : Nat) (fail : Bool)
  | seek (offset whence : Int)
  | size
deriving Repr, DecidableEq

def RefSW.step (s : RefSW) : RefCall → RefSW × RefOut
  | .write plen accept fail => s.write plen accept fail
  | .writeAt plen off accept fail => (s, s.writeAt plen off accept fail)
  | .seek offset whence => s.seek offset whence
  | .size => (s, ⟨s.limit - s.base, none, none⟩)

def RefSW.run (s : RefSW) : List RefCall → List RefOut
  | [] => []
  | c :: r => let (s', o) := s.step c; o :: RefSW.run s' r

/-- positions the API can express are int64: a call is in the reference machine's domain when the
    position it asks for is representable -/
def RefSW.callOK (s : RefSW) : RefCall → Bool
  | .seek offset whence =>
      whence < 0 || whence > 2 ||
      (let target := offset + (if whence = 0 then s.base else if whence = 1 then s.off else s.limit)
       decide (-9223372036854775808 ≤ target) && decide (target ≤ 9223372036854775807))
  | .writeAt _ off _ _ => decide (-9223372036854775808 ≤ off) && decide (off ≤ 9223372036854775807)
  | _ => true

def RefSW.runOK (s : RefSW) : List RefCall → Bool
  | [] => true
  | c :: r => s.callOK c && RefSW.runOK (s.step c).1 r

end Low
