import LowModel.GoSem3
/-
  Additional vocabulary of the definitions that `tools/ssa2lean7` generates (`Generated/Ssa7/*.lean`):
  package-table initialisers, constructors, the remaining small functions.  TRUSTED, like `GoSem.lean` …
  `GoSem3.lean`: every definition here is part of the meaning of the generated definitions.

  Most of generation 7 needs no new vocabulary: a package-level array that an initialiser fills is a functional
  list starting as `GoSem3.newArray 0 N` (Go zero-initialises package-level variables), `G[i] = v` is
  `GoSem3.setIdx`, `G[i]` is `GoSem.index` on the current list; the struct a constructor allocates is the tuple
  of its fields.  New are only: unsigned division, a map that an initialiser builds, and the one `fmt.Sprintf`
  verb that package bmtree uses.
-/
namespace Low.GoSem7
open Low

/-- `x / y` on uint64 / uint: division by zero panics; no overflow is possible. -/
def quoU64 (x y : Nat) : Option Nat := if y = 0 then none else some (x / y)

/-- `x % y` on uint64 / uint: division by zero panics. -/
def remU64 (x y : Nat) : Option Nat := if y = 0 then none else some (x % y)

/-- `m[k] = v` on a map represented by the list of its (key, value) pairs, each key at most once: the value
    of an existing key is replaced in place, a new key is appended.  (Go maps have no order; the list order is
    the order of first insertion and is not observable through `m[k]`, see `mapLookup`.) -/
def mapUpdate {β : Type} : List (Int × β) → Int → β → List (Int × β)
  | [], k, v => [(k, v)]
  | (k', v') :: r, k, v => if k' = k then (k, v) :: r else (k', v') :: mapUpdate r k v

/-- `m[k]` (the `v, ok := m[k]` form: `none` = absent) -/
def mapLookup {β : Type} : List (Int × β) → Int → Option β
  | [], _ => none
  | (k', v') :: r, k => if k' = k then some v' else mapLookup r k

/-- `fmt.Sprintf("%0[1]*[2]b", width, x)` for `width : int`, `x : uint64` — TRUSTED contract of package fmt for
    this verb: the binary digits of `x`, most significant first, without leading zeros (`"0"` for 0), padded on
    the left with `'0'` to at least `width` characters (`width ≤ 0`: no padding; a negative `*` width means
    left-justify with the absolute value, padding with spaces on the right — `none` here: not modelled).
    The result is the list of the bytes of the string. -/
def binDigits : Nat → Nat → List Nat
  | 0, _ => []
  | fuel+1, x => if x < 2 then [48 + x] else binDigits fuel (x / 2) ++ [48 + x % 2]

def sprintfBinPad (width : Int) (x : Nat) : Option (List Nat) :=
  if width < 0 then none else
  let ds := binDigits 64 x
  some (List.replicate (width.toNat - ds.length) 48 ++ ds)

end Low.GoSem7
