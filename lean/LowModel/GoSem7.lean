import LowModel.GoSem3
/-
  Additional vocabulary of the definitions that `tools/ssa2lean7` generates (`Generated/Ssa7/*.lean`):
  package-table initialisers, constructors, the remaining small functions.  TRUSTED, like `GoSem.lean` …
  `GoSem3.lean`: every definition here is part of the meaning of the generated definitions.

  Most of generation 7 needs no new vocabulary: a package-level array that an initialiser fills is a functional
  list starting as `GoSem3.newArray 0 N` (Go zero-initialises package-level variables), `G[i] = v` is
  `GoSem3.setIdx`, `G[i]` is `GoSem.index` on the current list; the struct a constructor allocates is the tuple
  of its fields.  New are only: unsigned division, a map that an initialiser builds, and the one `fmt.Sprintf`
  format that package bmtree uses.
-/
namespace Low.GoSem7
open Low

/-- `x / y` on uint64 / uint: division by zero panics; no overflow is possible. -/
def quoU64 (x y : Nat) : Option Nat := if y = 0 then none else some (x / y)

/-- `x % y` on uint64 / uint: division by zero panics. -/
def remU64 (x y : Nat) : Option Nat := if y = 0 then none else some (x % y)

/-- `m[k] = v` on a map represented by the list of its (key, value) pairs, each key at most once: the value
    of an existing key is replaced in place, a new key is appended.  (Go maps have no order; the list order is
    the order of first insertion and is not observable through `m[k]`, see `mapLookup`.) -/
def mapUpdate {β : Type} : List (Int × β) → Int → β → List (Int × β)
  | [], k, v => [(k, v)]
  | (k', v') :: r, k, v => if k' = k then (k, v) :: r else (k', v') :: mapUpdate r k v

/-- `m[k]` (the `v, ok := m[k]` form: `none` = absent) -/
def mapLookup {β : Type} : List (Int × β) → Int → Option β
  | [], _ => none
  | (k', v') :: r, k => if k' = k then some v' else mapLookup r k

/-- `fmt.Sprintf("%0[1]*[2]b", width, x)` for an integer `width` and an unsigned integer `x` — TRUSTED contract of
    package fmt for this one format (fmt/print.go `doPrintf`, fmt/format.go `fmtInteger`); the result is the list of
    the bytes of the string:
    * `0 ≤ width ≤ 10^6`: the binary digits of `x`, most significant first, without leading zeros (`"0"` for 0), padded
      on the LEFT with `'0'` to at least `width` characters;
    * `-10^6 ≤ width < 0`: fmt takes the absolute value, sets the `-` flag and drops the `0` flag: the digits padded on
      the RIGHT with spaces to at least `|width|` characters;
    * `|width| > 10^6`: fmt writes `%!(BADWIDTH)` and formats `x` without a width.
    (The explicit argument indexes `[1]`, `[2]` switch off fmt's "extra arguments" complaint.)
    The differential test of tools/ssa2lean7/selftest.py compares this function with the real `fmt.Sprintf`. -/
def sprintfBinPad (width : Int) (x : Nat) : List Nat :=
  let ds := (Nat.toDigits 2 x).map Char.toNat
  if width < -1000000 ∨ 1000000 < width then "%!(BADWIDTH)".toList.map Char.toNat ++ ds
  else if width < 0 then ds ++ List.replicate ((-width).toNat - ds.length) 32
  else List.replicate (width.toNat - ds.length) 48 ++ ds

end Low.GoSem7
