import LowModel.Driver.Bitmap
import LowModel.Bitstr
import LowModel.Bitword
import LowModel.Sigbits
/- driver handlers for bitstr (C09), bitword (C08), sigbits (C16, C17) -/
namespace Low.Driver
open Low.Wire

/-! C09 -/
/-- `bsnew s from to` → encoding and Len -/
def hBsNew : List String → String → Res
  | [s, f, t], impl => do
    let s ← pBytes s; let f ← pNat f; let t ← pNat t
    let model := match bsNew s f t with
      | none => "PANIC"
      | some e => s!"{showBytes e},{showOpt toString (bsLen e)}"
    -- the property fixes Len; the encoding itself is checked through Cmp/CmpUpto
    let spec := match impl.splitOn "," with
      | [_, l] => vb (l == toString ((t : Int) - 8 * (f / 8 : Nat)))
      | _ => "bad"
    some (model, spec)
  | _, _ => none

/-- `bscmp s f t s' f' t'` → Cmp(New(..), New(..)) -/
def hBsCmp : List String → String → Res
  | [s, f, t, s', f', t'], impl => do
    let s ← pBytes s; let f ← pNat f; let t ← pNat t
    let s' ← pBytes s'; let f' ← pNat f'; let t' ← pNat t'
    let model := match bsNew s f t, bsNew s' f' t' with
      | some a, some b => showOpt toString (bsCmp a b)
      | _, _ => "PANIC"
    some (model, verdictEq (toString (lexCmp (bsPayload s f t) (bsPayload s' f' t'))) impl)
  | _, _ => none

/-- `bscmpupto a s f t` → CmpUpto(a, New(s,f,t)),StrCmpUpto(a, New(s,f,t)) -/
def hBsCmpUpto : List String → String → Res
  | [a, s, f, t], impl => do
    let a ← pBytes a; let s ← pBytes s; let f ← pNat f; let t ← pNat t
    let model := match bsNew s f t with
      | some b => s!"{showOpt toString (bsCmpUpto a b)},{showOpt toString (bsStrCmpUpto a b)}"
      | none => "PANIC"
    let pl := bsPayload s f t
    let c := lexCmp ((bitsBE a).take pl.length) pl
    some (model, verdictEq s!"{c},{c}" impl)
  | _, _ => none

/-! C08 -/
def hBwFromStr : List String → String → Res
  | [n, s], impl => do
    let n ← pNat n; let s ← pBytes s
    if s.length > 64 then some (showNats (bwFromStr n s), "big") else
    let spec := (List.range (8 * s.length / n)).map fun i => bwWordAt n s i
    some (showNats (bwFromStr n s), verdictEq (showNats spec) impl)
  | _, _ => none

/-- `bwtostr n words`: spec = pack MSB first, zero padded; for in-range words -/
def hBwToStr : List String → String → Res
  | [n, ws], impl => do
    let n ← pNat n; let ws ← pNatList ws
    let bits := ws.flatMap fun w => (List.range n).map fun j => w.testBit (n - 1 - j)
    let nbytes := (bits.length + 7) / 8
    let padded := bits ++ List.replicate (8 * nbytes - bits.length) false
    let spec := (List.range nbytes).map fun i => bitsVal ((padded.drop (8 * i)).take 8)
    some (showBytes (bwToStr n ws), verdictEq (showBytes spec) impl)
  | _, _ => none

/-- `bwrt n s` → ToStr(FromStr(s)) -/
def hBwRoundTrip : List String → String → Res
  | [n, s], impl => do
    let n ← pNat n; let s ← pBytes s
    some (showBytes (bwToStr n (bwFromStr n s)), verdictEq (showBytes s) impl)
  | _, _ => none

def hBwGet : List String → String → Res
  | [n, s, i], impl => do
    let n ← pNat n; let s ← pBytes s; let i ← pNat i
    let spec := if i < 8 * s.length / n then toString (bwWordAt n s i) else "PANIC"
    some (showOpt toString (bwGet n s i), verdictEq spec impl)
  | _, _ => none

def hBwFirstDiff : List String → String → Res
  | [n, a, b, frm, e], impl => do
    let n ← pNat n; let a ← pBytes a; let b ← pBytes b; let frm ← pNat frm; let e ← pInt e
    if a.length > 64 then some (showOpt toString (bwFirstDiff n a b frm e), "big") else
    let wa := 8 * a.length / n; let wb := 8 * b.length / n
    let lim := min (min (if e = -1 then wa else e.toNat) wa) wb
    let spec := match (List.range' frm (lim - frm)).find? (fun i => bwWordAt n a i != bwWordAt n b i) with
      | some i => i
      | none => lim
    some (showOpt toString (bwFirstDiff n a b frm e), verdictEq (toString spec) impl)
  | _, _ => none

/-- `bwstrs n strs` → FromStrs then ToStrs, element-wise -/
def hBwStrs : List String → String → Res
  | [n, ss], impl => do
    let n ← pNat n; let ss ← pBytesList ss
    let f := ss.map (bwFromStr n)
    let model := showList showNats' f ++ "|" ++ showList showBytes (f.map (bwToStr n))
    some (model, verdictEq (showList showNats' (ss.map fun s => (List.range (8 * s.length / n)).map (bwWordAt n s))
      ++ "|" ++ showList showBytes ss) impl)
  | _, _ => none
where showNats' (l : List Nat) : String := if l.isEmpty then "e" else String.intercalate "." (l.map toString)

/-! C16 -/
def hFdb : List String → String → Res
  | [keys], impl => do
    let keys ← pBytesList keys
    let spec := List.zipWith fdSpec keys keys.tail
    some (showOpt showNats (firstDiffBits keys), verdictEq (showNats spec) impl)
  | _, _ => none

def showCnt (r : Nat × List Nat) : String := s!"{r.1};{showNats r.2}"

def hCountPrefixes : List String → String → Res
  | [keys, s, e, m], impl => do
    let keys ← pBytesList keys; let s ← pNat s; let e ← pNat e; let m ← pNat m
    let model := showOpt showCnt (sbCountPrefixes keys s e m)
    if e - s > 60 then some (model, "big") else    -- the naive distinct count is quadratic
    let sub := (keys.drop s).take (e - s)
    let fds := List.zipWith fdSpec sub sub.tail
    let m0 := fds.foldl min (fds.headD 0)
    let cs := (List.range m).map fun i => distinctCount (sub.map (truncBits (m0 + i)))
    some (model, verdictEq (showCnt (m0, cs)) impl)
  | _, _ => none

/-- `cpm keys s:e:m;…`: several queries on one object; the model answers each independently -/
def hCountPrefixesMany : List String → String → Res
  | [keys, qs], _impl => do
    let keys ← pBytesList keys
    -- `New(keys)` computes the first-difference table once; every query is `sbCountPrefixes` on that table
    -- (the same two model functions, composed as in `sbCountPrefixes`, without recomputing the table)
    let sig := firstDiffBits keys
    let outs ← (qs.splitOn ";").mapM fun q => match q.splitOn ":" with
      | [s, e, m] => do
        let s ← pNat s; let e ← pNat e; let m ← pNat m
        let r : Option (Nat × List Nat) := match sig with
          | none => none
          | some sig =>
            if e = 0 ∨ s > e - 1 ∨ e - 1 > sig.length then none
            else countPrefixes ((sig.drop s).take (e - 1 - s)) m
        some (showOpt showCnt r)
      | _ => none
    some (String.intercalate "|" outs, "big")
  | _, _ => none

/-! C17 -/
def hShard : List String → String → Res
  | [keys, maxSize], impl => do
    let keys ← pBytesList keys; let maxSize ← pNat maxSize
    let model := match shardByPrefix keys maxSize with
      | none => "PANIC"
      | some (l, b) => showNats l ++ ";" ++ showNats b
    let spec := match impl.splitOn ";" with
      | [l, b] => match pNatList l, pNatList b with
        | some l, some b => vb (shardOK keys maxSize l b)
        | _, _ => "bad"
      | _ => "bad"
    some (model, spec)
  | _, _ => none

end Low.Driver
