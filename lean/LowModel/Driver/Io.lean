import LowModel.Driver.Bitmap
import LowModel.Iohelper
import LowModel.Pbcmpl
import LowModel.SizeOf
/- driver handlers for iohelper (C18), pbcmpl (C06, C07), size (C20) -/
namespace Low.Driver
open Low.Wire

/-! C18 -/
def pSwCall (s : String) : Option SwCall :=
  match s.splitOn ":" with
  | ["w", plen, acc, f] => do some (.write (← pNat plen) ⟨← pNat acc, (← pNat f) == 1⟩)
  | ["a", plen, off, acc, f] => do some (.writeAt (← pNat plen) (← pInt off) ⟨← pNat acc, (← pNat f) == 1⟩)
  | ["k", offset, whence] => do some (.seek (← pInt offset) (← pInt whence))
  | ["z"] => some .size
  | _ => none

def showIoErr : Option IoErr → String
  | none => "nil"
  | some .shortWrite => "ShortWrite"
  | some .whence => "Whence"
  | some .offset => "Offset"
  | some .underlying => "Underlying"

def showSwOut (r : Ret) (u : Option UCall) : String :=
  s!"{r.n}/{showIoErr r.err}" ++ (match u with | none => "" | some u => s!"/{u.off}/{u.len}/ok")

def runSw : List SwCall → SectionWriter → List String
  | [], _ => []
  | c :: r, s => let (s', ret, u) := s.step c; showSwOut ret u :: runSw r s'

def showRefOut (o : RefOut) : String :=
  s!"{o.n}/{o.err.getD "nil"}" ++ (match o.ucall with | none => "" | some (off, len) => s!"/{off}/{len}/ok")

def toRefCall : SwCall → RefCall
  | .write plen ans => .write plen ans.accept ans.fail
  | .writeAt plen off ans => .writeAt plen off ans.accept ans.fail
  | .seek offset whence => .seek offset whence
  | .size => .size

/-- confinement clause, checked on the reference machine's own underlying calls -/
def refConfined (s : RefSW) : List RefCall → Bool
  | [] => true
  | c :: r =>
    let (s', o) := s.step c
    (match o.ucall with
      | none => true
      | some (off, len) => len == 0 || (decide (s.base ≤ off) && decide (off + len ≤ s.limit))) && refConfined s' r

def runRef (calls : List SwCall) (s : RefSW) : List String × Bool :=
  let rc := calls.map toRefCall
  ((s.run rc).map showRefOut, refConfined s rc)

def swInDomain (calls : List SwCall) (s : RefSW) : Bool := s.runOK (calls.map toRefCall)

def hSw : List String → String → Res
  | [off, n, calls], impl => do
    let off ← pInt off; let n ← pInt n
    let calls ← (splitNE calls ";").mapM pSwCall
    let model := String.intercalate ";" (runSw calls (newSectionWriter off n))
    let (refOuts, confined) := runRef calls ⟨off, off, off + n⟩
    if !swInDomain calls ⟨off, off, off + n⟩ then some (model, "na") else
    some (model, vb (confined && String.intercalate ";" refOuts == impl))
  | _, _ => none

/-- a section (outer) of a section (inner) of the scripted writer: the outer section's underlying call is the
    inner section's `WriteAt`; what the innermost writer sees is the inner section's underlying call. Built from
    the model's own step functions (no new model code). -/
def runSwNested : List SwCall → SectionWriter → SectionWriter → List String
  | [], _, _ => []
  | c :: r, outer, inner =>
    -- first pass: what does the outer section hand to its underlying writer (the inner section)?
    let probe := outer.step (match c with
      | .write plen _ => .write plen ⟨plen, false⟩
      | .writeAt plen off _ => .writeAt plen off ⟨plen, false⟩
      | other => other)
    match probe.2.2 with
    | none =>
      let (outer', ret, _) := outer.step c
      showSwOut ret none :: runSwNested r outer' inner
    | some u =>
      -- the inner section answers that WriteAt, consulting the scripted writer with the case's answer
      let ans : UAns := match c with
        | .write _ a => a
        | .writeAt _ _ a => a
        | _ => ⟨0, false⟩
      let (iret, iu) := inner.writeAt u.len u.off ans
      let innerAns : UAns := ⟨iret.n.toNat, iret.err.isSome⟩
      let (outer', ret, _) := outer.step (match c with
        | .write plen _ => .write plen innerAns
        | .writeAt plen off _ => .writeAt plen off innerAns
        | other => other)
      -- an error of the inner section reaches the caller as that error (short write stays a short write)
      let ret' : Ret := match iret.err, ret.err with
        | some .shortWrite, some .underlying => { ret with err := some .shortWrite }
        | _, _ => ret
      showSwOut ret' iu :: runSwNested r outer' inner

def hSwn : List String → String → Res
  | [off1, n1, off2, n2, calls], _impl => do
    let off1 ← pInt off1; let n1 ← pInt n1; let off2 ← pInt off2; let n2 ← pInt n2
    let calls ← (splitNE calls ";").mapM pSwCall
    let model := String.intercalate ";" (runSwNested calls (newSectionWriter off2 n2) (newSectionWriter off1 n1))
    -- no separate reference machine for the composition: the model (proved equal to the reference machine
    -- step by step) decides
    some (model, "big")
  | _, _ => none

def hAtw : List String → String → Res
  | [off, calls], impl => do
    let off ← pInt off
    let calls ← (splitNE calls ";").mapM pSwCall
    let model := String.intercalate ";" (runSw calls (atToWriter off))
    let (refOuts, confined) := runRef calls ⟨off, off, maxOffset⟩
    if !swInDomain calls ⟨off, off, maxOffset⟩ then some (model, "na") else
    some (model, vb (confined && String.intercalate ";" refOuts == impl))
  | _, _ => none

/-! C06 / C07 -/
def showPbErr : Option PbErr → String
  | none => "nil"
  | some .eof => "EOF"
  | some .unexpectedEOF => "UnexpectedEOF"
  | some .invalidHeaderSize => "InvalidHeaderSize"
  | some .invalidBodySize => "InvalidBodySize"
  | some .injected => "Injected"
  | some .proto => "Proto"

def defaultVer : List Nat := [49, 46, 48, 46, 48]   -- "1.0.0"

def pVer (s : String) : Option (List Nat) := if s = "none" then some defaultVer else pBytes s

/-- `pbmk kind ver payload body cap mode` → n,err,bytes,Size,HeaderSize (`body` = the message's encoding) -/
def hPbMarshal : List String → String → Res
  | [_kind, ver, _payload, body, cap, mode], impl => do
    let ver ← pVer ver; let body ← pBytes body; let cap ← pInt cap; let mode ← pNat mode
    let capN := if cap < 0 then 32 + body.length + 1000 else cap.toNat
    -- mode 2: every write is taken in full, but the write during which the count reaches `cap` reports an
    -- error (a legal `(len p, err)` answer); later writes succeed
    let scripted := pbMarshalScript ⟨32, decide (capN ≤ 32)⟩ ⟨body.length, decide (capN ≤ 32 + body.length)⟩ ver body
    let model := match (if mode == 2 then scripted else pbMarshal (mode == 1) capN ver body) with
      | none => "PANIC"
      | some (n, failed, bytes) => s!"{n},{if failed then "WErr" else "nil"},{showBytes bytes},{32 + body.length},32"
    -- spec: the frame is version padded to 16, le64 32, le64 |body|, body; count/bytes = what the writer took
    let frame := ver ++ List.replicate (16 - ver.length) 0 ++ le64 32 ++ le64 body.length ++ body
    let total := 32 + body.length
    let k := if mode == 2 then (if capN ≤ 32 then 32 else total)
             else if capN ≥ total then total
             else if mode == 1 then (if capN < 32 then 0 else 32) else capN
    let failed := if mode == 2 then capN ≤ total else capN < total
    let spec := s!"{k},{if failed then "WErr" else "nil"},{showBytes (frame.take k)},{total},32"
    some (model, verdictEq spec impl)
  | _, _ => none

def showPbRes (r : PbResult) : String :=
  s!"{r.n}:{showBytes r.ver}:{showPbErr r.err}:" ++ (match r.body with | none => "-" | some b => showBytes b)

/-- repeated `Unmarshal` on one reader until an error or `maxCalls` -/
def runUnmarshal : Nat → PbReader → List PbResult
  | 0, _ => []
  | k+1, r => let res := pbUnmarshal r; if res.err.isSome then [res] else res :: runUnmarshal k res.rest

def pEnd (s : String) : Option PbErr := if s = "eof" then some .eof else if s = "inj" then some .injected else none

def pFrame (s : String) : Option (List Nat × List Nat) :=
  match s.splitOn ":" with
  | [v, b] => do some (← pVer v, ← pBytes b)
  | _ => none

/-- expected results for a stream made of `frames` cut after `cut` bytes -/
def streamSpec (endErr : PbErr) : List (List Nat × List Nat) → Nat → List String
  | [], _ => [s!"0:x:{showPbErr (some endErr)}:-"]
  | (ver, body) :: rest, avail =>
    let total := 32 + body.length
    if avail ≥ total then s!"{total}:{showBytes ver}:nil:{showBytes body}" :: streamSpec endErr rest (avail - total)
    else
      let e : PbErr := if endErr = .eof then (if avail = 0 ∨ avail = 32 then .eof else .unexpectedEOF) else endErr
      [s!"{avail}:{showBytes (if avail ≥ 32 then ver else [])}:{showPbErr (some e)}:-"]

/-- `pbs frames cut end chunk stream`: `stream` is what the real `Marshal` wrote for the frames (cut after
    `cut` bytes). The model marshals the frames itself (`pbFrame`) and unmarshals ITS stream; when the two
    streams differ the model output says so, so that a wrong `Marshal` is a disagreement with the model too. -/
def hPbStream : List String → String → Res
  | [frames, cut, endK, _chunk, stream], impl => do
    let frames ← (splitNE frames ";").mapM pFrame
    let cut ← pInt cut; let endErr ← pEnd endK; let stream ← pBytes stream
    let modelFull := frames.flatMap fun (v, b) => (pbFrame v b).getD []
    let modelStream := if cut < 0 then modelFull else modelFull.take cut.toNat
    let model := (if modelStream == stream then "" else "MARSHAL-WROTE-OTHER-BYTES;") ++
      String.intercalate ";" ((runUnmarshal (frames.length + 1) ⟨modelStream, endErr⟩).map showPbRes)
    let full := frames.flatMap fun (v, b) => v ++ List.replicate (16 - v.length) 0 ++ le64 32 ++ le64 b.length ++ b
    let expectStream := if cut < 0 then full else full.take cut.toNat
    let spec := String.intercalate ";" (streamSpec endErr frames expectStream.length)
    some (model, vb (expectStream == stream && spec == impl))
  | _, _ => none

/-- `pbraw bytes end chunk maxcalls`: arbitrary input; spec: no panic, success only on a complete frame -/
def hPbRaw : List String → String → Res
  | [bytes, endK, _chunk, maxCalls], impl => do
    let bytes ← pBytes bytes; let endErr ← pEnd endK; let maxCalls ← pNat maxCalls
    let model := String.intercalate ";" ((runUnmarshal maxCalls ⟨bytes, endErr⟩).map showPbRes)
    -- walk the implementation's own results over the input
    let rec walk (outs : List String) (rest : List Nat) : Bool :=
      match outs with
      | [] => true
      | o :: outs' =>
        match o.splitOn ":" with
        | [n, _ver, err, body] =>
          match pNat n with
          | none => false
          | some n =>
            if err = "nil" then
              match pBytes body with
              | none => false
              | some b =>
                n == 32 + b.length && rest.length ≥ n &&
                unle ((rest.drop 16).take 8) == 32 && unle ((rest.drop 24).take 8) == b.length &&
                (rest.drop 32).take b.length == b && walk outs' (rest.drop n)
            else n ≤ rest.length && outs'.isEmpty
        | _ => false
    some (model, vb (!(impl.splitOn "PANIC").length > 1 && walk (splitNE impl ";") bytes))
  | _, _ => none

/-- `pbh bytes end` → ReadHeader: n:ver:hs:bs:err -/
def hPbHeader : List String → String → Res
  | [bytes, endK], impl => do
    let bytes ← pBytes bytes; let endErr ← pEnd endK
    let (n, hi, err, _) := pbReadHeader ⟨bytes, endErr⟩
    let model := match hi with
      | some hi => s!"{n}:{showBytes hi.ver}:{hi.headerSize}:{hi.bodySize}:{showPbErr err}"
      | none => s!"{n}:x:0:0:{showPbErr err}"
    -- spec: 32 bytes present -> the three fields as laid out (version stripped of trailing NULs,
    -- two little-endian int64); otherwise the count of bytes available and EOF / UnexpectedEOF / the read error
    let spec := if bytes.length ≥ 32 then
        let v := ((bytes.take 16).reverse.dropWhile (· == 0)).reverse
        let f (o : Nat) : Int := wrap64 (unle ((bytes.drop o).take 8))
        s!"32:{showBytes v}:{f 16}:{f 24}:nil"
      else
        let e : PbErr := if endErr = .eof then (if bytes.length = 0 then .eof else .unexpectedEOF) else endErr
        s!"{bytes.length}:x:0:0:{showPbErr (some e)}"
    some (model, verdictEq spec impl)
  | _, _ => none

/-! C20 -/
partial def pVal (cs : List Char) : Option (GoVal × List Char) :=
  let num (cs : List Char) : Nat × List Char :=
    let ds := cs.takeWhile Char.isDigit
    ((String.ofList ds).toNat?.getD 0, cs.drop ds.length)
  let rec pList (cs : List Char) (acc : List GoVal) : Option (List GoVal × List Char) :=
    match cs with
    | ']' :: r => some (acc.reverse, r)
    | ',' :: r => pList r acc
    | _ => match pVal cs with
      | some (v, r) => pList r (v :: acc)
      | none => none
  let rec pPairs (cs : List Char) (acc : List (GoVal × GoVal)) : Option (List (GoVal × GoVal) × List Char) :=
    match cs with
    | ']' :: r => some (acc.reverse, r)
    | ',' :: r => pPairs r acc
    | _ => match pVal cs with
      | some (k, ':' :: r) => match pVal r with
        | some (v, r') => pPairs r' ((k, v) :: acc)
        | none => none
      | _ => none
  match cs with
  | 'S' :: r => let (n, r') := num r; some (.scalar n, r'.dropWhile Char.isLower)
  | 'T' :: r => let (n, r') := num r; some (.str n, r')
  | 'U' :: r => some (.unsupported, r)
  | 'A' :: '[' :: r => (pList r []).map fun (l, r') => (.arr l, r')
  | 'L' :: '[' :: r => (pList r []).map fun (l, r') => (.slice l, r')
  | 'R' :: '[' :: r => (pList r []).map fun (l, r') => (.struct l, r')
  | 'M' :: '[' :: r => (pPairs r []).map fun (l, r') => (.map l, r')
  | 'P' :: '0' :: r => some (.ptr none, r)
  | 'P' :: '[' :: r => match pVal r with
      | some (v, ']' :: r') => some (.ptr (some v), r')
      | _ => none
  | 'I' :: '0' :: r => some (.iface none, r)
  | 'I' :: '[' :: r => match pVal r with
      | some (v, ']' :: r') => some (.iface (some v), r')
      | _ => none
  | _ => none

/-- `sizeofgen seed depth` / `sizeofnamed name`: the harness describes the value it built as
    `<value tree>|<Of>,<first line of Stat>`; the model and the spec are evaluated on that tree -/
def hSizeOf : List String → String → Res
  | _, impl => do
    let (tree, _res) ← match impl.splitOn "|" with
      | [t, r] => some (t, r)
      | _ => none
    let top ← if tree = "N" then some none else match pVal tree.toList with
      | some (g, []) => some (some g)
      | _ => none
    let model := match sizeOfTop top, statHeader top with
      | some n, some none => s!"{n},nil"
      | some n, some (some m) => s!"{n},{m}"
      | _, _ => "PANIC"
    let spec := match top with
      | none => "0,nil"
      | some g => if g.supported then s!"{structSize g},{structSize g}" else "PANIC"
    some (tree ++ "|" ++ model, verdictEq (tree ++ "|" ++ spec) impl)

/-- `pbrt kind ver payload`: Marshal then Unmarshal of a real message; output
    n,ver,err,equal,n2,len -- all three counts equal the bytes written, the message is equal -/
def hPbRt : List String → String → Res
  | [_kind, ver, _payload], impl => do
    let ver ← pVer ver
    let len := (impl.splitOn ",").getLast?.getD "?"
    let expect := s!"{len},{showBytes ver},nil,true,{len},{len}"
    some (expect, verdictEq expect impl)
  | _, _ => none

end Low.Driver
