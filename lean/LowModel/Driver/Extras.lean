import LowModel.Driver.Bitmap
import LowModel.Extras.Fmt
import LowModel.Extras.Tree
import LowModel.Extras.ToSlice
import LowModel.Extras.Stat
/-
  driver handlers for the extras X01 (bitmap.Fmt), X02 (package tree), X03 (typehelper.ToSlice), X04 (body of size.Stat).
  Each handler answers `model<TAB>verdict`: the model function of LowModel/Extras on the case's arguments, and the
  executable specification compared with the IMPLEMENTATION's output.
-/
namespace Low.Driver
open Low.Wire Low.Extras

/-! ### X01  `fmt <arg>`
    arg:  `<ty>:<dec>`            a scalar of type ty ∈ i8,u8,i16,u16,i32,u32,i64,u64
          `o:<name>`              a scalar of an unsupported dynamic type (the harness knows what <name> is)
          `S<ty>=<dec,dec,…|-|nil>`   a slice []ty (`-` empty, `nil` nil slice)
          `Sany=<arg,arg,…|-|nil>`    a []interface{} of scalars
          `So:<name>=<n>`         a slice of n elements of an unsupported element type
    output: `'<text with ' ' written as '_'>'` or PANIC -/
def pIntTy : String → Option IntTy
  | "i8" => some .i8 | "u8" => some .u8 | "i16" => some .i16 | "u16" => some .u16
  | "i32" => some .i32 | "u32" => some .u32 | "i64" => some .i64 | "u64" => some .u64
  | _ => none

def pDyn (s : String) : Option Dyn :=
  match s.splitOn ":" with
  | ["o", _] => some .other
  | [t, v] => do
    let t ← pIntTy t; let v ← pInt v
    if t.inRange v then some (.int t v) else none
  | _ => none

def pItems (s : String) : List String := if s = "-" || s = "nil" then [] else s.splitOn ","

def pFmtArg (s : String) : Option FmtArg :=
  match s.toList with
  | 'S' :: r =>
    match (String.ofList r).splitOn "=" with
    | [ety, vals] =>
      if ety = "any" then ((pItems vals).mapM pDyn).map .slice
      else match ety.splitOn ":" with
        | ["o", _] => (pNat vals).map fun n => .slice (List.replicate n .other)
        | _ => ((pItems vals).mapM fun v => pDyn (ety ++ ":" ++ v)).map .slice
    | _ => none
  | _ => (pDyn s).map .scalar

def showQ : Option (List Char) → String
  | none => "PANIC"
  | some cs => "'" ++ String.ofList (cs.map fun c => if c = ' ' then '_' else c) ++ "'"

/-- SPEC: every element by `elemSpec`, joined by ','; panic iff some dynamic type is unsupported -/
def fmtSpec : FmtArg → Option (List Char)
  | .scalar (.int t v) => some (elemSpec t.size v)
  | .scalar .other => none
  | .slice es => (es.mapM fun (d : Dyn) => match d with
      | .int t v => some (elemSpec t.size v) | .other => none).map (joinSep [','])

/-- parse-back of the implementation's text for a slice of one type: the values it determines -/
def fmtParseBack (ty : IntTy) (n : Nat) (impl : String) : List Int :=
  let cs := (impl.toList.filter (· != '\'')).map fun c => if c = '_' then ' ' else c
  (List.range n).map fun e => ty.ofBits (parseElem ty.size (cs.drop (9 * ty.size * e)))

def hFmt : List String → String → Res
  | [arg], impl => do
    let a ← pFmtArg arg
    let v := verdictEq (showQ (fmtSpec a)) impl
    -- the rendering determines the values (slices of one type)
    let v := match a with
      | .slice ((.int t x) :: r) =>
        if r.all (fun (d : Dyn) => match d with | .int t' _ => t' = t | .other => false) then
          let vals := ((Dyn.int t x) :: r).filterMap fun (d : Dyn) => match d with | .int _ y => some y | .other => none
          if fmtParseBack t vals.length impl = vals then v else "bad"
        else v
      | _ => v
    some (showQ (fmt a), v)
  | _, _ => none

/-! ### X02  `tree <nilT> <root|=>`
    tree:  `(<idhex>|<infohex>|<leaf>|<lblhex>:<tree>,<lblhex>:<tree>,…)`, leaf: `-` no leaf value, `s<hex>` a string,
           `i<dec>` an int, `n` a nil value with isLeaf = true
    output: `<String(t) as bytes>|<calls of DepthFirst's callback>`, a call: `<parent>/<label>/<node>`,
            node = `<idhex>.<infohex>`, label = `<k>.<lblhex>`, nil = `~`; calls separated by `;` (`-` = none) -/
def takeUntil (c : Char) (cs : List Char) : Option (List Char × List Char) :=
  let a := cs.takeWhile (· != c)
  match cs.drop a.length with
  | _ :: r => some (a, r)
  | [] => none

def pHex (cs : List Char) : Option Bytes := pHexChars cs

def strBytes (s : String) : Bytes := s.toUTF8.toList.map (·.toNat)

def pLeaf (cs : List Char) : Option (Option Bytes) :=
  match cs with
  | ['-'] => some none
  | ['n'] => some (some (strBytes "<nil>"))
  | 's' :: r => (pHex r).map some
  | 'i' :: r => ((String.ofList r).toInt?).map fun v => some (strBytes (toString v))
  | _ => none

partial def pTree (cs : List Char) : Option (FTree × List Char) :=
  let rec pBranches (cs : List Char) (acc : List (Bytes × FTree)) : Option (List (Bytes × FTree) × List Char) :=
    match cs with
    | ')' :: r => some (acc.reverse, r)
    | ',' :: r => pBranches r acc
    | _ => do
      let (lh, r) ← takeUntil ':' cs
      let lbl ← pHex lh
      let (t, r') ← pTree r
      pBranches r' ((lbl, t) :: acc)
  match cs with
  | '(' :: r => do
    let (idh, r) ← takeUntil '|' r
    let (infoh, r) ← takeUntil '|' r
    let (leafs, r) ← takeUntil '|' r
    let id ← pHex idh; let info ← pHex infoh; let leaf ← pLeaf leafs
    let (bs, r) ← pBranches r []
    some (.node id info leaf bs, r)
  | _ => none

def hexOf (b : Bytes) : String := String.ofList (b.flatMap fun v => [hexDigit (v / 16 % 16), hexDigit (v % 16)])

def showNode (t : FTree) : String := hexOf t.id ++ "." ++ hexOf t.info

def showVisit (nilT : FTree) (v : Visit (Option FTree) (Nat × Bytes)) : String :=
  let (p, l, n) := v
  (match p with | none => "~" | some p => showNode (p.getD nilT)) ++ "/" ++
  (match l with | none => "~" | some (k, lbl) => toString k ++ "." ++ hexOf lbl) ++ "/" ++ showNode (n.getD nilT)

def showTreeOut (nilT : FTree) (s : Option Bytes) (vs : Option (List (Visit (Option FTree) (Nat × Bytes)))) : String :=
  match s, vs with
  | some s, some vs => showBytes s ++ "|" ++ (if vs.isEmpty then "-" else String.intercalate ";" (vs.map (showVisit nilT)))
  | _, _ => "NOFUEL"

def hTree : List String → String → Res
  | [a, b], impl => do
    let (nilT, rest) ← pTree a.toList
    if !rest.isEmpty then none
    let root ← if b = "=" then some nilT else match pTree b.toList with
      | some (t, []) => some t
      | _ => none
    let I := FTree.iface nilT root
    let model := showTreeOut nilT (treeString I (nilT.size + 1)) (depthFirstTop I (root.size + 1))
    let spec := showTreeOut nilT (some (joinSep [10] (FTree.lines 0 none nilT))) (some (FTree.post none none root))
    some (model, verdictEq spec impl)
  | _, _ => none

/-! ### X03  `toslice <arg>`
    arg:  `Lint=<dec,…|-|nil>` []int, `Lnamed=<dec,…>` a named slice type over int, `Lstr=<x..,x..>` []string,
          `Lany=<tok,…>` []interface{} with tok `i<dec>`, `x<hex>` (a string), `n` (nil), `l<dec_dec…|e>` (an []int),
          `Lnest=<tok,…>` [][]int with tok `<dec_dec…|e>`, `O<name>` anything that is not a slice
    output: `<len>|<elem,…>`, elem = `int:<dec>`, `string:x<hex>`, `nil`, `[]int:<dec_dec…|e>` -/
inductive DV where
  | int (v : Int) | str (b : Bytes) | nil | ints (l : List Int)
deriving Repr

def pUnder (s : String) : Option (List Int) := if s = "e" then some [] else (s.splitOn "_").mapM pInt

def pAnyTok (s : String) : Option DV :=
  match s.toList with
  | ['n'] => some .nil
  | 'i' :: r => (pInt (String.ofList r)).map .int
  | 'x' :: r => (pHex r).map .str
  | 'l' :: r => (pUnder (String.ofList r)).map .ints
  | _ => none

def pTSArg (s : String) : Option (TSArg DV) :=
  match s.toList with
  | 'O' :: _ => some .other
  | 'L' :: r =>
    match (String.ofList r).splitOn "=" with
    | ["int", vals] => ((pItems vals).mapM pInt).map fun l => .slice (l.map .int)
    | ["named", vals] => ((pItems vals).mapM pInt).map fun l => .slice (l.map .int)
    | ["str", vals] => ((pItems vals).mapM pBytes).map fun l => .slice (l.map .str)
    | ["any", vals] => ((pItems vals).mapM pAnyTok).map .slice
    | ["nest", vals] => ((pItems vals).mapM pUnder).map fun l => .slice (l.map .ints)
    | _ => none
  | _ => none

def showUnder (l : List Int) : String := if l.isEmpty then "e" else String.intercalate "_" (l.map toString)

def showDV : Option DV → String
  | none => "UNSET"
  | some (.int v) => s!"int:{v}"
  | some (.str b) => "string:x" ++ hexOf b
  | some .nil => "nil"
  | some (.ints l) => "[]int:" ++ showUnder l

def showTS : Option (List (Option DV)) → String
  | none => "PANIC"
  | some l => s!"{l.length}|" ++ (if l.isEmpty then "-" else String.intercalate "," (l.map showDV))

def hToSlice : List String → String → Res
  | [arg], impl => do
    let a ← pTSArg arg
    let spec := match a with
      | .other => none
      | .slice es => some (es.map some)
    some (showTS (toSlice a), verdictEq (showTS spec) impl)
  | _, _ => none

/-! ### X04  `statgen <seed> <typedepth> <depth> <maxItem>` / `statnamed <name> <depth> <maxItem>`
    output: `<value tree>|<lines>`; the harness describes the value it built (syntax of C20's `sizeofgen` plus field
    names `R[<namehex>=<v>,…]` and map entries `M[<labelhex>!<found 0|1>=<k>:<v>,…]`; `N` = nil argument) and gives the
    lines of `Stat`'s real output as `<indent>/<label: - or x<hex>>/<number or nil>` separated by `;` -/
partial def pSV (cs : List Char) : Option (SV × List Char) :=
  let num (cs : List Char) : Nat × List Char :=
    let ds := cs.takeWhile Char.isDigit
    ((String.ofList ds).toNat?.getD 0, cs.drop ds.length)
  let rec pList (cs : List Char) (acc : List SV) : Option (List SV × List Char) :=
    match cs with
    | ']' :: r => some (acc.reverse, r)
    | ',' :: r => pList r acc
    | _ => match pSV cs with
      | some (v, r) => pList r (v :: acc)
      | none => none
  let rec pFields (cs : List Char) (acc : List (Bytes × SV)) : Option (List (Bytes × SV) × List Char) :=
    match cs with
    | ']' :: r => some (acc.reverse, r)
    | ',' :: r => pFields r acc
    | _ => do
      let (nh, r) ← takeUntil '=' cs
      let name ← pHex nh
      let (v, r') ← pSV r
      pFields r' ((name, v) :: acc)
  let rec pEntries (cs : List Char) (acc : List (Bytes × SV × SV × Bool)) : Option (List (Bytes × SV × SV × Bool) × List Char) :=
    match cs with
    | ']' :: r => some (acc.reverse, r)
    | ',' :: r => pEntries r acc
    | _ => do
      let (lh, r) ← takeUntil '!' cs
      let lbl ← pHex lh
      match r with
      | f :: '=' :: r =>
        let (k, r) ← pSV r
        match r with
        | ':' :: r =>
          let (v, r') ← pSV r
          pEntries r' ((lbl, k, v, f == '1') :: acc)
        | _ => none
      | _ => none
  match cs with
  | 'S' :: r => let (n, r') := num r; some (.scalar n, r'.dropWhile Char.isLower)
  | 'T' :: r => let (n, r') := num r; some (.str n, r')
  | 'U' :: r => some (.unsupported, r)
  | 'A' :: '[' :: r => (pList r []).map fun (l, r') => (.arr l, r')
  | 'L' :: '[' :: r => (pList r []).map fun (l, r') => (.slice l, r')
  | 'R' :: '[' :: r => (pFields r []).map fun (l, r') => (.struct l, r')
  | 'M' :: '[' :: r => (pEntries r []).map fun (l, r') => (.map l, r')
  | 'P' :: '0' :: r => some (.ptr none, r)
  | 'P' :: '[' :: r => match pSV r with
      | some (v, ']' :: r') => some (.ptr (some v), r')
      | _ => none
  | 'I' :: '0' :: r => some (.iface none, r)
  | 'I' :: '[' :: r => match pSV r with
      | some (v, ']' :: r') => some (.iface (some v), r')
      | _ => none
  | _ => none

def showStatLine (l : StatLine) : String :=
  s!"{l.indent}/" ++ (match l.label with | none => "-" | some b => "x" ++ hexOf b) ++ "/" ++
  (match l.size with | none => "nil" | some n => toString n)

def showStat : Option (List StatLine) → String
  | none => "PANIC"
  | some ls => String.intercalate ";" (ls.map showStatLine)

def hStat : List String → String → Res
  | args, impl => do
    let (depth, maxItem) ← match args.reverse with
      | m :: d :: _ => do some (← pInt d, ← pInt m)
      | _ => none
    let (tree, _res) ← match impl.splitOn "|" with
      | [t, r] => some (t, r)
      | _ => none
    let top ← if tree = "N" then some none else match pSV tree.toList with
      | some (g, []) => some (some g)
      | _ => none
    let model := showStat (statTop top depth maxItem)
    -- SPEC: the unlimited output, cut to the lines whose indentation is at most `depth` (X04_depth_filter)
    let spec := if depth < 0 then statTop top depth maxItem
                else (statTop top (-1) maxItem).map fun ls => ls.filter fun l => decide ((l.indent : Int) ≤ depth)
    some (tree ++ "|" ++ model, verdictEq (tree ++ "|" ++ showStat spec) impl)

end Low.Driver
