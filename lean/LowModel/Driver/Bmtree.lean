import LowModel.Driver.Bitmap
import LowModel.Bmtree.Index
/- driver handlers for package bmtree (C03, C04, C05, C10, C11 PathOf/PathsOf) -/
namespace Low.Driver
open Low.Wire

def hOfT (t : Nat) : Nat := (height t).toNat

/-! C03 -/
def hP2I (debug : Bool) : List String → String → Res
  | [t, p], impl => do
    let t ← pNat t; let p ← pNat p
    let h := hOfT t
    let n := nodeOf h p
    let model := if debug then showOpt toString (pathToIndexDebug t p) else toString (pathToIndex t p)
    -- the strict function is specified only for nodes on a stored level
    let spec := if storedLevel t n.length then verdictEq (toString (preIdx t 0 n)) impl else "na"
    some (model, spec)
  | _, _ => none

def hP2IL (debug : Bool) : List String → String → Res
  | [t, p], impl => do
    let t ← pNat t; let p ← pNat p
    let h := hOfT t
    let n := nodeOf h p
    let sh (r : Int × Nat) : String := s!"{r.1},{r.2}"
    let model := if debug then showOpt sh (pathToIndexLooseDebug t p) else sh (pathToIndexLoose t p)
    some (model, verdictEq s!"{preIdx t 0 n},{(storedLevel t n.length).toNat}" impl)
  | _, _ => none

/-! C04 -/
def hAllPaths : List String → String → Res
  | [t, frm, to], impl => do
    let t ← pNat t; let frm ← pNat frm; let to ← pNat to
    let h := hOfT t
    let spec := if h ≤ 11 then
        verdictEq (showNats ((storedPaths t h).filter fun p => frm ≤ p ∧ p < to)) impl
      else "big"
    some (showNats (allPaths t frm to), spec)
  | _, _ => none

def hDecode : List String → String → Res
  | [t, bm], impl => do
    let t ← pNat t; let bm ← pNatList bm
    let h := hOfT t
    let spec := if h ≤ 11 then
        verdictEq (showNats ((preorder t h 0 []).filterMap fun n =>
          if bitAt bm (preIdx t 0 n) then some (encPath h n) else none)) impl
      else "big"
    some (showNats (decode t bm), spec)
  | _, _ => none

/-! C05 -/
def hI2P : List String → String → Res
  | [h, idx], impl => do
    let h ← pNat h; let idx ← pInt idx
    some (showOpt toString (indexToPath h idx), verdictEq (toString (encPath h (nodeAt h idx.toNat))) impl)
  | _, _ => none

/-- `<op>seq <fixed args> <x1,x2,...>`: the same pure function called on `x1`, `x2`, ... IN THIS ORDER in one process; the
    code's answers come separated by `;`.  Each call is judged on its own (a pure function's answer cannot depend on
    the calls made before it), so the model and the specification are those of the single-call handler. -/
def hSeq (one : List String → String → Res) (args : List String) (impl : String) : Res := do
  let xs ← args.getLast?
  let fixed := args.dropLast
  let items := xs.splitOn ","
  let outs := impl.splitOn ";"
  if items.length ≠ outs.length then some ("?", "bad") else
  let rs ← (items.zip outs).mapM fun (x, o) => one (fixed ++ [x]) o
  let vs := rs.map (·.2)
  let v := if vs.contains "bad" then "bad" else if vs.contains "big" then "big"
           else if vs.all (· == "na") then "na" else "ok"
  some (String.intercalate ";" (rs.map (·.1)), v)

/-- `tbl idxtopath` (dispatched here because the table belongs to bmtree) -/
def hTblIdxToPath : List String → String → Res
  | ["idxtopath"], impl =>
    let m := String.intercalate ";" ((List.range 9).map fun k => showNats (idxToPathRow k))
    some (m, verdictEq m impl)
  | args, impl => hTbl args impl

/-! C10 -/
def bitsOfWidth (l v : Nat) : List Bool := (List.range l).map fun j => v.testBit (l - 1 - j)

/-- `pathinfo h l prefix`: NewPath(prefix << (h-l), l, h) and all the accessors on it -/
def hPathInfo : List String → String → Res
  | [h, l, pfx], impl => do
    let h ← pNat h; let l ← pNat l; let pfx ← pNat pfx
    let p := newPath (pfx <<< (h - l)) l h
    let model := s!"{p},{pathLen p},{pathHeight p},{pathBits p},{pathMask p},{pathStr p}"
    let n := bitsOfWidth l pfx
    let sp := encPath h n
    let str := String.ofList (n.map fun b => if b then '1' else '0')
    let spec := s!"{sp},{l},{if l ≥ 1 then h else pathHeight sp},{sp >>> 32},{sp % 2^32},{str}"
    some (model, verdictEq spec impl)
  | _, _ => none

/-- `pathcmp h la a lb b`: sign of the unsigned comparison of the two path words -/
def hPathCmp : List String → String → Res
  | [h, la, a, lb, b], impl => do
    let h ← pNat h; let la ← pNat la; let a ← pNat a; let lb ← pNat lb; let b ← pNat b
    let pa := newPath (a <<< (h - la)) la h
    let pb := newPath (b <<< (h - lb)) lb h
    let c : Int := if pa < pb then -1 else if pa > pb then 1 else 0
    some (toString c, verdictEq (toString (lexCmp (bitsOfWidth la a) (bitsOfWidth lb b))) impl)
  | _, _ => none

/-! C11 -/
def pathOfSpec (s : List Nat) (frm h : Nat) : Nat :=
  let k := min ((8 * s.length : Nat) - frm) h
  encPath h (((bitsBE s).drop frm).take k)

def hPathOf : List String → String → Res
  | [s, frm, h], impl => do
    let s ← pBytes s; let frm ← pNat frm; let h ← pNat h
    let p := pathOf s frm h
    let sp := pathOfSpec s frm h
    let k := min ((8 * s.length : Nat) - frm) h
    let str := String.ofList ((((bitsBE s).drop frm).take k).map fun b => if b then '1' else '0')
    some (s!"{p},{pathStr p}", verdictEq s!"{sp},{str}" impl)
  | _, _ => none

def adjDedup : List Nat → List Nat
  | a :: b :: r => if a = b then adjDedup (b :: r) else a :: adjDedup (b :: r)
  | l => l

def hPathsOf : List String → String → Res
  | [keys, frm, h, dedup], impl => do
    let keys ← pBytesList keys; let frm ← pNat frm; let h ← pNat h; let dedup ← pNat dedup
    let ps := keys.map fun s => pathOfSpec s frm h
    -- "drops every path equal to its predecessor" = keep the first of each run
    let spec := if dedup == 1 then (adjDedup ps.reverse).reverse else ps
    some (showNats (pathsOf keys frm h (dedup == 1)), verdictEq (showNats spec) impl)
  | _, _ => none

end Low.Driver
