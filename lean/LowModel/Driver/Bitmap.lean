import LowModel.Wire
import LowModel.Spec
import LowModel.Bitmap.Select
import LowModel.Bitmap.Get
import LowModel.Bitmap.Of
import LowModel.Bitmap.Next
import LowModel.Bitmap.Tail
import LowModel.Bitmap.FromStr32
import Std.Data.HashSet
/- driver handlers for package bitmap (C01, C02, C11 FromStr32, C12, C13, C14, C15) -/
namespace Low.Driver
open Low.Wire

/-- (model output, spec verdict) -/
abbrev Res := Option (String × String)

def verdictEq (spec impl : String) : String := if spec = impl then "ok" else "bad"

/-- the executable specifications are naive on purpose (bit-by-bit counts, filters over all positions):
    on large inputs they are not evaluated ("na") and the comparison with the model -- which is PROVED
    equal to the specification for every input -- decides alone -/
def big (ws : List Nat) : Bool := ws.length > 48
def guardBig (ws : List Nat) (v : String) : String := if big ws then "big" else v
def vb (b : Bool) : String := if b then "ok" else "bad"

def showPair (p : Nat × Nat) : String := s!"{p.1},{p.2}"
def showIPair (p : Int × Nat) : String := s!"{p.1},{p.2}"

/-! C01 -/
def hIdxRank64 : List String → String → Res
  | [ws, t], impl => do
    let ws ← pNatList ws; let t ← pNat t
    if big ws then some (showNats (indexRank64 ws (t == 1)), "big") else
    let spec := (List.range (ws.length + t)).map fun k => rank ws (64 * k)
    some (showNats (indexRank64 ws (t == 1)), verdictEq (showNats spec) impl)
  | _, _ => none

def hIdxRank128 : List String → String → Res
  | [ws], impl => do
    let ws ← pNatList ws
    if big ws then some (showNats (indexRank128 ws), "big") else
    let spec := (List.range (ws.length / 2 + 1)).map fun k => rank ws (128 * k)
    some (showNats (indexRank128 ws), verdictEq (showNats spec) impl)
  | _, _ => none

def hRank64 : List String → String → Res
  | [ws, t, i], impl => do
    let ws ← pNatList ws; let t ← pNat t; let i ← pNat i
    some (showOpt showPair (rank64 ws (indexRank64 ws (t == 1)) i),
      if big ws then "big" else verdictEq (showPair (rank ws i, (bitAt ws i).toNat)) impl)
  | _, _ => none

def hRank128 : List String → String → Res
  | [ws, i], impl => do
    let ws ← pNatList ws; let i ← pNat i
    some (showOpt showIPair (rank128 ws (indexRank128 ws) i),
      if big ws then "big" else verdictEq (showPair (rank ws i, (bitAt ws i).toNat)) impl)
  | _, _ => none

/-! C02 -/
def selSpec (ws : List Nat) (i : Nat) : String :=
  let os := ones ws
  match os[i]? with
  | none => "PANIC"
  | some a => showPair (a, os.getD (i + 1) (64 * ws.length))

def hIdxSel32 : List String → String → Res
  | [ws], impl => do
    let ws ← pNatList ws
    if big ws then some (showNats (indexSelect32 ws), "big") else
    let os := ones ws
    let spec := (List.range ((os.length + 31) / 32)).map fun k => os.getD (32 * k) 0
    some (showNats (indexSelect32 ws), verdictEq (showNats spec) impl)
  | _, _ => none

def hIdxSel32R64 : List String → String → Res
  | [ws], impl => do
    let ws ← pNatList ws
    let (s, r) := indexSelect32R64 ws
    if big ws then some (showNats s ++ ";" ++ showNats r, "big") else
    let os := ones ws
    let spec := (List.range ((os.length + 31) / 32)).map fun k => os.getD (32 * k) 0
    let specR := (List.range (ws.length + 1)).map fun k => rank ws (64 * k)
    some (showNats s ++ ";" ++ showNats r, verdictEq (showNats spec ++ ";" ++ showNats specR) impl)
  | _, _ => none

def hSel32 : List String → String → Res
  | [ws, i], impl => do
    let ws ← pNatList ws; let i ← pNat i
    some (showOpt showPair (select32 ws (indexSelect32 ws) i), if big ws then "big" else verdictEq (selSpec ws i) impl)
  | _, _ => none

def hSel32R64 : List String → String → Res
  | [ws, i], impl => do
    let ws ← pNatList ws; let i ← pNat i
    let (s, r) := indexSelect32R64 ws
    some (showOpt showPair (select32R64 ws s r i), if big ws then "big" else verdictEq (selSpec ws i) impl)
  | _, _ => none

/-- `sel32m ws i1,i2,…` / `sel32r64m`: many queries on one bitmap, indexes built once -/
def hSelMany (r64 : Bool) : List String → String → Res
  | [ws, is], impl => do
    let ws ← pNatList ws; let is ← pNatList is
    let sidx := indexSelect32 ws
    let ridx := indexRank64 ws true
    let outs := is.map fun i =>
      showOpt showPair (if r64 then select32R64 ws sidx ridx i else select32 ws sidx i)
    let model := String.intercalate ";" outs
    if big ws then some (model, "big") else
    let os := ones ws
    let spec := is.map fun i => match os[i]? with
      | none => "PANIC"
      | some a => showPair (a, os.getD (i + 1) (64 * ws.length))
    some (model, verdictEq (String.intercalate ";" spec) impl)
  | _, _ => none

/-! C12 -/
def sortInts (l : List Int) : List Int := (l.toArray.qsort (· < ·)).toList
def dedupSorted (l : List Int) : List Int := (sortInts l).eraseDups

/-- spec of `Of`: word count and exactly the listed bits -/
def ofSpecOK (ps : List Int) (n : Option Int) (impl : String) : Bool :=
  match pNatList impl with
  | none => false
  | some ws =>
    let last1 : Int := match ps.getLast? with | none => 0 | some l => l + 1
    let m : Int := max (max (n.getD 0) last1) 0
    ws.length == ((m + 63) / 64).toNat && ws.all (· < 2^64) &&
    (ones ws).map (Int.ofNat) == dedupSorted ps

def hOf : List String → String → Res
  | [ps, n], impl => do
    let ps ← pIntList ps
    let n ← if n = "none" then some none else (pInt n).map some
    let model := bmOf ps n
    let isBig := ps.length > 3000 || (match model with | some ws => big ws | none => false) ||
      (match pNatList impl with | some ws => big ws | none => false)
    some (showOpt showNats model, if isBig then "big" else vb (ofSpecOK ps n impl))
  | _, _ => none

def hToArray : List String → String → Res
  | [ws], impl => do
    let ws ← pNatList ws
    some (showNats (toArray ws), if big ws then "big" else verdictEq (showNats (ones ws)) impl)
  | _, _ => none

def hGet : List String → String → Res
  | [ws, i], impl => do
    let ws ← pNatList ws; let i ← pNat i
    let spec := if i < 64 * ws.length then toString ((bitAt ws i).toNat <<< (i % 64)) else "PANIC"
    some (showOpt toString (get ws i), verdictEq spec impl)
  | _, _ => none

def hGet1 : List String → String → Res
  | [ws, i], impl => do
    let ws ← pNatList ws; let i ← pNat i
    let spec := if i < 64 * ws.length then toString (bitAt ws i).toNat else "PANIC"
    some (showOpt toString (get1 ws i), verdictEq spec impl)
  | _, _ => none

def hSafeGet : List String → String → Res
  | [ws, i], impl => do
    let ws ← pNatList ws; let i ← pInt i
    let spec := if 0 ≤ i ∧ i < 64 * ws.length then (bitAt ws i.toNat).toNat <<< (i.toNat % 64) else 0
    some (toString (safeGet ws i), verdictEq (toString spec) impl)
  | _, _ => none

def hSafeGet1 : List String → String → Res
  | [ws, i], impl => do
    let ws ← pNatList ws; let i ← pInt i
    let spec := if 0 ≤ i ∧ i < 64 * ws.length then (bitAt ws i.toNat).toNat else 0
    some (toString (safeGet1 ws i), verdictEq (toString spec) impl)
  | _, _ => none

/-- positions of all sub-bitmaps shifted by the running sum of the preceding sizes -/
def shiftedConcat : List (List Int) → List Int → Int → List Int × Int
  | e :: subs, s :: sizes, base =>
      let (r, b) := shiftedConcat subs sizes (base + s); (e.map (base + ·) ++ r, b)
  | _, _, base => ([], base)

def hOfMany : List String → String → Res
  | [subs, sizes], impl => do
    let subs ← pNested subs; let sizes ← pIntList sizes
    let (r, b) := shiftedConcat subs sizes 0
    some (showOpt showNats (ofMany subs sizes), vb (ofSpecOK r (some b) impl))
  | _, _ => none

inductive BOp where
  | ext (ps : List Int) (size : Int)
  | set (pos v : Int)

def pBOp (s : String) : Option BOp :=
  match s.splitOn ":" with
  | ["e", ps, size] => do some (.ext (← pIntList ps) (← pInt size))
  | ["s", pos, v] => do some (.set (← pInt pos) (← pInt v))
  | _ => none

def showBuilder (b : Builder) : String := s!"{b.offset}:{showNats b.words}"

def runBuilder : List BOp → Builder → List String
  | [], _ => []
  | op :: r, b =>
    let b' := match op with
      | .ext ps size => b.extend ps size
      | .set pos v => b.set pos v
    match b' with
    | none => ["PANIC"]
    | some b' => showBuilder b' :: runBuilder r b'

/-- abstract builder: (offset, set of bits) -/
def absBuilder : List BOp → Int → List Int → List (Int × List Int)
  | [], _, _ => []
  | .ext ps size :: r, off, s =>
      let s' := s ++ ps.map (off + ·); (off + size, s') :: absBuilder r (off + size) s'
  | .set pos v :: r, off, s =>
      let s' := if v % 2 = 1 then s ++ [pos] else s
      let off' := if off ≤ pos then pos + 1 else off
      (off', s') :: absBuilder r off' s'

def builderSpecOK (ops : List BOp) (impl : String) : Bool :=
  let abs := absBuilder ops 0 []
  let outs := splitNE impl ";"
  outs.length == abs.length &&
  (List.zipWith (fun (o : String) (a : Int × List Int) =>
    match o.splitOn ":" with
    | [off, ws] => match pInt off, pNatList ws with
      | some off, some ws => off == a.1 && (ones ws).map Int.ofNat == (sortInts a.2).eraseDups
      | _, _ => false
    | _ => false) outs abs).all id

def hBuilder : List String → String → Res
  | [_presize, ops], impl => do
    let ops ← (splitNE ops ";").mapM pBOp
    let outs := runBuilder ops ⟨[], 0⟩
    some (String.intercalate ";" outs, vb (builderSpecOK ops impl))
  | _, _ => none

/-! C13 -/
def nextSpec (ws : List Nat) (i e : Nat) : Int :=
  match (List.range' i (e - i)).find? (bitAt ws) with
  | none => -1
  | some p => p

def prevSpec (ws : List Nat) (i e : Nat) : Int :=
  match (List.range' i (e - i)).reverse.find? (bitAt ws) with
  | none => -1
  | some p => p

def hNextOne : List String → String → Res
  | [ws, i, e], impl => do
    let ws ← pNatList ws; let i ← pNat i; let e ← pNat e
    some (showOpt toString (nextOne ws i e), if big ws then "big" else verdictEq (toString (nextSpec ws i e)) impl)
  | _, _ => none

def hPrevOne : List String → String → Res
  | [ws, i, e], impl => do
    let ws ← pNatList ws; let i ← pNat i; let e ← pNat e
    some (showOpt toString (prevOne ws i e), if big ws then "big" else verdictEq (toString (prevSpec ws i e)) impl)
  | _, _ => none

/-! C14 -/
/-- value of the bits `[k, k+w)` of a bitmap -/
def fieldAt (ws : List Nat) (k w : Nat) : Nat :=
  (List.range w).foldl (fun acc j => acc + (bitAt ws (k + j)).toNat <<< j) 0

def joinSpecOK (vs : List Nat) (w : Nat) (impl : String) : Bool :=
  match pNatList impl with
  | none => false
  | some r =>
    r.length == (vs.length * w + 63) / 64 && r.all (· < 2^64) &&
    ((List.range vs.length).all fun i => fieldAt r (i * w) w == vs.getD i 0 % 2^w) &&
    ((List.range' (vs.length * w) (64 * r.length - vs.length * w)).all fun j => !bitAt r j)

def hJoin : List String → String → Res
  | [vs, w], impl => do
    let vs ← pNatList vs; let w ← pNat w
    some (showOpt showNats (bmJoin vs w), if vs.length > 400 then "big" else vb (joinSpecOK vs w impl))
  | _, _ => none

/-- `joinprobe n w seed`: the harness evaluates the C14 clauses on the real code at a size the driver cannot
    build; the model satisfies them for every size by `C14_join`, i.e. the expected answer is "ok" -/
def hJoinProbe : List String → String → Res
  | [_n, _w, _seed], impl => some ("ok", verdictEq "ok" impl)
  | _, _ => none

/-- `tbl <name>`: the live package tables against the model's (`select8Table`, `idxToPathRow`, the mask functions) -/
def hTbl : List String → String → Res
  | ["select8"], impl =>
    let m := showNats select8Table.toList
    some (m, verdictEq m impl)
  | ["masks"], impl =>
    let r65 := List.range 65
    let r64 := List.range 64
    let m := String.intercalate ";" [showNats (r65.map mask), showNats (r65.map rmask), showNats (r64.map maskUpto),
      showNats (r64.map rmaskUpto), showNats (r64.map bit), showNats (r64.map rbit)]
    some (m, verdictEq m impl)
  | _, _ => none

/-- `builderprobe` / `ofmanyprobe` / `tbprobe`: as `joinprobe` -- the harness evaluates the property's clauses on the
    real code at sizes the driver cannot build (10^8 bits, millions of Sets); the theorems C12_builder, C12_ofMany,
    C15_* say the model satisfies them for every size, so the expected answer is "ok" -/
def hProbeOk : List String → String → Res
  | _, impl => some ("ok", verdictEq "ok" impl)

def hGetw : List String → String → Res
  | [ws, i, w], impl => do
    let ws ← pNatList ws; let i ← pNat i; let w ← pNat w
    let spec := if (i + 1) * w ≤ 64 * ws.length then toString (fieldAt ws (i * w) w) else "PANIC"
    some (showOpt toString (getw ws i w), verdictEq spec impl)
  | _, _ => none

def sliceSpecOK (ws : List Nat) (frm to : Nat) (impl : String) : Bool :=
  match pNatList impl with
  | none => false
  | some r =>
    r.length == (to - frm + 63) / 64 && r.all (· < 2^64) &&
    ((List.range (64 * r.length)).all fun j => bitAt r j == (decide (j < to - frm) && bitAt ws (frm + j)))

def hSlice : List String → String → Res
  | [ws, frm, to], impl => do
    let ws ← pNatList ws; let frm ← pNat frm; let to ← pNat to
    some (showOpt showNats (bmSlice ws frm to), if big ws then "big" else vb (sliceSpecOK ws frm to impl))
  | _, _ => none

/-! C11 (FromStr32 part) -/
/-- spec of FromStr32: (k, value whose top k of w bits are bits [from, from+k) of s) -/
def fromStr32Spec (s : List Nat) (frm w : Nat) : Nat × Nat :=
  let k := min ((8 * s.length : Nat) - frm) w
  let bs := ((bitsBE s).drop frm).take k
  (k, bitsVal (bs ++ List.replicate (w - k) false))

def hFromStr32 : List String → String → Res
  | [s, frm, to], impl => do
    let s ← pBytes s; let frm ← pNat frm; let to ← pNat to
    some (showPair (fromStr32 s frm to), verdictEq (showPair (fromStr32Spec s frm (to - frm))) impl)
  | _, _ => none

/-! C15 -/
inductive TOp where
  | set (i : Int) | compact | get (i : Int) | get1 (i : Int) | fillUp (a b : Int) | fillDown (a b : Int) | obs

def pTOp (s : String) : Option TOp :=
  match s.toList with
  | ['c'] => some .compact
  | ['o'] => some .obs
  | 's' :: r => (pInt (String.ofList r)).map .set
  | 'g' :: r => (pInt (String.ofList r)).map .get
  | 'h' :: r => (pInt (String.ofList r)).map .get1
  | 'f' :: r => match (String.ofList r).splitOn ":" with
      | [a, b] => do some (.fillUp (← pInt a) (← pInt b))
      | _ => none
  | 'F' :: r => match (String.ofList r).splitOn ":" with
      | [a, b] => do some (.fillDown (← pInt a) (← pInt b))
      | _ => none
  | _ => none

def showTb (tb : TailBitmap) : String :=
  s!"{tb.offset}/" ++ (if tb.words.isEmpty then "-" else String.intercalate "." (tb.words.map toString))

def setMany (thr : Int) (tb : TailBitmap) (is : List Int) : TailBitmap := is.foldl (fun tb i => tb.set thr i) tb

def intsUp (a b : Int) : List Int := (List.range (b - a).toNat).map fun (k : Nat) => a + (k : Int)
def intsDown (a b : Int) : List Int := (intsUp a b).reverse

def runTb (thr : Int) : List TOp → TailBitmap → List String
  | [], _ => []
  | op :: r, tb =>
    match op with
    | .set i => runTb thr r (tb.set thr i)
    | .compact => runTb thr r (tb.compact thr)
    | .get i => showOpt toString (tb.get i) :: runTb thr r tb
    | .get1 i => showOpt toString (tb.get1 i) :: runTb thr r tb
    | .fillUp a b => runTb thr r (setMany thr tb (intsUp a b))
    | .fillDown a b => runTb thr r (setMany thr tb (intsDown a b))
    | .obs => showTb tb :: runTb thr r tb

/-- the property evaluated on the implementation's own outputs, against the abstract set -/
def tbSpec (o0 : Int) : List TOp → List String → Std.HashSet Int → Int → Bool
  | [], [], _, _ => true
  | [], _ :: _, _, _ => false
  | op :: r, outs, s, lastOff =>
    let mem (j : Int) : Bool := j < o0 || s.contains j
    match op with
    | .set i => tbSpec o0 r outs (s.insert i) lastOff
    | .compact => tbSpec o0 r outs s lastOff
    | .fillUp a b => tbSpec o0 r outs (s.insertMany (intsUp a b)) lastOff
    | .fillDown a b => tbSpec o0 r outs (s.insertMany (intsUp a b)) lastOff
    | .get i => match outs with
        | o :: outs' => (o == "PANIC" || o == toString ((mem i).toNat <<< (i % 64).toNat)) && tbSpec o0 r outs' s lastOff
        | [] => false
    | .get1 i => match outs with
        | o :: outs' => (o == "PANIC" || o == toString (mem i).toNat) && tbSpec o0 r outs' s lastOff
        | [] => false
    | .obs => match outs with
        | o :: outs' =>
          (match o.splitOn "/" with
          | [off, ws] =>
            match pInt off, (if ws = "-" then some [] else (ws.splitOn ".").mapM pNat) with
            | some off, some ws =>
              off % 64 == 0 && off ≥ lastOff && ws.all (· < 2^64) &&
              ws.head? != some allOnes64 &&
              ((intsUp lastOff off).all mem) &&
              ((List.range (64 * ws.length)).all fun k => bitAt ws k == mem (off + k)) &&
              s.all (fun i => i < off + 64 * ws.length) &&
              tbSpec o0 r outs' s off
            | _, _ => false
          | _ => false)
        | [] => false

def hTb : List String → String → Res
  | [o, thr, ops], impl => do
    let o ← pInt o; let thr ← pInt thr
    let ops ← (splitNE ops ",").mapM pTOp
    let outs := runTb thr ops (newTailBitmap o)
    let implOuts := splitNE impl ","
    -- the property starts from NewTailBitmap(o) with o a multiple of 64: for any other offset the specification says
    -- nothing (verdict `na`), so that a shrunk replay can never leave the domain
    some (String.intercalate "," outs, if o % 64 == 0 then vb (tbSpec o ops implOuts {} o) else "na")
  | _, _ => none

end Low.Driver
