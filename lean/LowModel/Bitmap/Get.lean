import LowModel.Bitmap.Basic
/- bitmap/get.go -/
namespace Low

def get (bm : List Nat) (i : Nat) : Option Nat := do
  let w ← bm[i / 64]?
  some (w &&& bit (i % 64))

def get1 (bm : List Nat) (i : Nat) : Option Nat := do
  let w ← bm[i / 64]?
  some ((w >>> (i % 64)) % 2)

/-- `Getw(bm, i, w)` -/
def getw (bm : List Nat) (i w : Nat) : Option Nat := do
  let k := i * w
  let x ← bm[k / 64]?
  some ((x >>> (k % 64)) &&& mask w)

/-- `SafeGet(bm, i)`: `i` any int32 -/
def safeGet (bm : List Nat) (i : Int) : Nat :=
  let wordI := i / 64        -- arithmetic shift = floor division
  let bitI := (i % 64).toNat -- i & 63
  if wordI < 0 ∨ wordI ≥ bm.length then 0
  else (bm.getD wordI.toNat 0) &&& bit bitI

def safeGet1 (bm : List Nat) (i : Int) : Nat :=
  let wordI := i / 64
  let bitI := (i % 64).toNat
  if wordI < 0 ∨ wordI ≥ bm.length then 0
  else ((bm.getD wordI.toNat 0) >>> bitI) % 2

end Low
