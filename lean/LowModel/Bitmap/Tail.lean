import LowModel.Bitmap.Basic
/- bitmap/tailbitmap.go -/
namespace Low

structure TailBitmap where
  offset : Int
  words : List Nat
  reclaimed : Int
deriving Repr, DecidableEq

def allOnes64 : Nat := 0xffffffffffffffff

def newTailBitmap (o : Int) : TailBitmap := { offset := o, words := [], reclaimed := o }

/-- the `for len(Words) > 0 && Words[0] == allOnes` loop -/
def dropOnes : List Nat → Int → List Nat × Int
  | [], o => ([], o)
  | w :: r, o => if w = allOnes64 then dropOnes r (o + 64) else (w :: r, o)

/-- `Compact()`; `thr` is the package variable `reclaimThreshold` (in bits) -/
def TailBitmap.compact (thr : Int) (tb : TailBitmap) : TailBitmap :=
  let (ws, o) := dropOnes tb.words tb.offset
  -- the reallocation branch copies into a fresh slice that is then dropped: only `reclaimed` changes
  { offset := o, words := ws, reclaimed := if o - tb.reclaimed ≥ thr then o else tb.reclaimed }

/-- `Set(idx)` -/
def TailBitmap.set (thr : Int) (tb : TailBitmap) (idx : Int) : TailBitmap :=
  if idx < tb.offset then tb else
  let k := (idx - tb.offset).toNat
  let wordIdx := k / 64
  let ws := tb.words ++ zeros (wordIdx + 1 - tb.words.length)
  let ws := ws.set wordIdx (ws.getD wordIdx 0 ||| bit (k % 64))
  let tb' := { tb with words := ws }
  if wordIdx = 0 then tb'.compact thr else tb'

/-- `Get(idx)`; `none` = index out of range -/
def TailBitmap.get (tb : TailBitmap) (idx : Int) : Option Nat :=
  if idx < tb.offset then some (bit (idx % 64).toNat) else
  let k := (idx - tb.offset).toNat
  match tb.words[k / 64]? with
  | none => none
  | some w => some (w &&& bit (k % 64))

/-- `Get1(idx)` -/
def TailBitmap.get1 (tb : TailBitmap) (idx : Int) : Option Nat :=
  if idx < tb.offset then some 1 else
  let k := (idx - tb.offset).toNat
  match tb.words[k / 64]? with
  | none => none
  | some w => some ((w >>> (k % 64)) % 2)

end Low
