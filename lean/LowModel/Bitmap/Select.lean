import LowModel.Bitmap.Rank
/- bitmap/select.go -/
namespace Low

/-- the inner loop of `initSelectLookup` for one byte: `x = tz8(w); w &= w-1`, 8 times -/
def sel8Row : Nat → Nat → List Nat
  | 0, _ => []
  | n+1, w => tz w 8 :: sel8Row n (w &&& (w - 1))

/-- `select8Lookup` as built by `initSelectLookup` (2048 entries) -/
def select8Table : Array Nat := ((List.range 256).flatMap (sel8Row 8)).toArray

def sel8 (idx : Nat) : Option Nat := select8Table[idx]?

def selIdxGo (ws : List Nat) : List Nat → Nat → List Nat
  | [], _ => []
  | i :: r, cnt =>
      if bitAt ws i then
        if cnt % 32 = 0 then i :: selIdxGo ws r (cnt + 1) else selIdxGo ws r (cnt + 1)
      else selIdxGo ws r cnt

/-- `IndexSelect32(words)` -/
def indexSelect32 (ws : List Nat) : List Nat := selIdxGo ws (List.range (ws.length * 64)) 0

/-- `IndexSelect32R64(words)` -/
def indexSelect32R64 (ws : List Nat) : List Nat × List Nat := (indexSelect32 ws, indexRank64 ws true)

/-- the `32 / 16 / 8 / table` in-word search shared by `Select32` and `Select32R64` -/
def selWord (w f : Nat) : Option Nat := do
  let ones := popc w 32
  let (f, base, ww) := if ones ≤ f then (f - ones, 32, w >>> 32) else (f, 0, w)
  let ones := popc ww 16
  let (f, base, ww) := if ones ≤ f then (f - ones, base ||| 16, ww >>> 16) else (f, base, ww)
  let ones := popc ww 8
  if ones ≤ f then
    let v ← sel8 (((ww >>> 5) &&& 0x7f8) ||| (f - ones))
    some (v + base + 8)
  else
    let v ← sel8 (((ww &&& 0xff) <<< 3) ||| f)
    some (v + base)

/-- the word-skipping loop of `Select32`: `rest = words.drop (wordI+1)` -/
def sel32Skip : List Nat → Nat → Nat → Nat → Option (Nat × Nat × Nat)
  | rest, w, wordI, f =>
      if popc w 64 ≤ f then
        match rest with
        | [] => none
        | w' :: r => sel32Skip r w' (wordI + 1) (f - popc w 64)
      else some (w, wordI, f)

/-- scan for the next non-zero word: `rest = words.drop wordI` -/
def nextNonZero (l : Nat) : List Nat → Nat → Nat
  | [], _ => l * 64
  | w :: r, wordI => if w ≠ 0 then wordI * 64 + tz w 64 else nextNonZero l r (wordI + 1)

/-- `Select32(words, selectIndex, i)` for `0 ≤ i` -/
def select32 (ws sidx : List Nat) (i : Nat) : Option (Nat × Nat) := do
  if i / 32 ≥ sidx.length then none else      -- explicit panic("i outof range")
  let base ← sidx[i / 32]?
  let findIth := i % 32
  let l := ws.length
  let wordI := base / 64
  let w0 ← ws[wordI]?
  let w := w0 &&& not64 (mask (base % 64))
  let (w, wordI, f) ← sel32Skip (ws.drop (wordI + 1)) w wordI findIth
  let a0 ← selWord w f
  let a := a0 + wordI * 64
  let w := w &&& not64 (maskUpto (a % 64))
  if w ≠ 0 then some (a, wordI * 64 + tz w 64)
  else some (a, nextNonZero l (ws.drop (a / 64 + 1)) (a / 64 + 1))

/-- `for ; rankIndex[wordI+1] <= i; wordI++ {}`: `rest = rankIndex.drop (wordI+1)` -/
def r64Skip (i : Nat) : List Nat → Nat → Option Nat
  | [], _ => none
  | r :: rest, wordI => if r ≤ i then r64Skip i rest (wordI + 1) else some wordI

/-- `Select32R64(words, selectIndex, rankIndex, i)` for `0 ≤ i` -/
def select32R64 (ws sidx ridx : List Nat) (i : Nat) : Option (Nat × Nat) := do
  let l := ws.length
  let s ← sidx[i / 32]?
  let wordI ← r64Skip i (ridx.drop (s / 64 + 1)) (s / 64)
  let w ← ws[wordI]?
  let base := wordI * 64
  let r ← ridx[wordI]?
  if i < r then none else     -- (int(i - rankIndex[wordI]) negative: table index panics)
  let a0 ← selWord w (i - r)
  let a := a0 + base
  let w := w &&& rmaskUpto (a % 64)
  if w ≠ 0 then some (a, base + tz w 64)
  else some (a, nextNonZero l (ws.drop (wordI + 1)) (wordI + 1))

end Low
