import LowModel.Bitmap.Basic
/- bitmap/fromstr32.go -/
namespace Low

/-- `FromStr32(s, frombit, tobit)`; `s` as bytes; for `0 ≤ frombit ≤ tobit` -/
def fromStr32 (s : List Nat) (frombit tobit : Nat) : Nat × Nat :=
  let size := tobit - frombit
  let spanSize := tobit - frombit / 8 * 8
  let blen : Int := (s.length * 8 : Int) - frombit
  let blen := if blen > size then (size : Int) else blen
  if blen ≤ 0 then (0, 0) else
  let l := s.length
  let toByte := (tobit + 7) / 8
  let l := if l > toByte then toByte else l
  let i := frombit / 8
  let byteAt (k sh : Nat) : Nat := if k < l then s.getD k 0 <<< sh else 0
  let b := byteAt i 32 ||| byteAt (i+1) 24 ||| byteAt (i+2) 16 ||| byteAt (i+3) 8 ||| byteAt (i+4) 0
  (blen.toNat, (shr64 b (40 - spanSize)) &&& mask size)

end Low
