import LowModel.Bitmap.Basic
/- bitmap/of.go, ofmany.go, toarray.go, slice.go, join.go, builder.go -/
namespace Low

/-- the `for _, i := range bitPositions { words[i>>6] |= 1<<(i&63) }` loop -/
def orBits : List Nat → List Int → Option (List Nat)
  | ws, [] => some ws
  | ws, p :: ps => if p < 0 then none else
      match orBit ws p.toNat with
      | none => none
      | some ws' => orBits ws' ps

/-- `Of(bitPositions, n?)` -/
def bmOf (ps : List Int) (nOpt : Option Int) : Option (List Nat) :=
  let n : Int := nOpt.getD 0
  let n := match ps.getLast? with
    | none => n
    | some l => if n < l + 1 then l + 1 else n
  let n := if n < 0 then 0 else n
  let nWords := ((n + 63) / 64).toNat
  orBits (zeros nWords) ps

/-- the flattening loop of `OfMany`; `none` when `sizes` is shorter than `subs` -/
def ofManyFlat : List (List Int) → List Int → Int → Option (List Int × Int)
  | [], _, base => some ([], base)
  | _ :: _, [], _ => none
  | e :: subs, s :: sizes, base =>
      match ofManyFlat subs sizes (base + s) with
      | none => none
      | some (r, b) => some (e.map (base + ·) ++ r, b)

/-- `OfMany(subs, sizes)` -/
def ofMany (subs : List (List Int)) (sizes : List Int) : Option (List Nat) :=
  match ofManyFlat subs sizes 0 with
  | none => none
  | some (r, base) => bmOf r (some base)

/-- `ToArray(words)` -/
def toArray (ws : List Nat) : List Nat := (List.range (ws.length * 64)).filter (bitAt ws)

/-- body of the `Slice` loop over positions `from .. to-1` -/
def sliceLoop (ws : List Nat) (frm : Nat) : List Nat → List Nat → Option (List Nat)
  | [], r => some r
  | i :: is, r =>
      match ws[i / 64]? with
      | none => none
      | some w => if w.testBit (i % 64) then
          match orBit r (i - frm) with
          | none => none
          | some r' => sliceLoop ws frm is r'
        else sliceLoop ws frm is r

/-- `Slice(words, from, to)` for `0 ≤ from ≤ to` (as repaired: `(to-from+63)>>6` words) -/
def bmSlice (ws : List Nat) (frm to : Nat) : Option (List Nat) :=
  sliceLoop ws frm (List.range' frm (to - frm)) (zeros ((to - frm + 63) / 64))

/-- the `Join` loop: element `i` is OR-ed at bit `i*size` -/
def joinLoop (size : Nat) : List Nat → Nat → List Nat → Option (List Nat)
  | [], _, r => some r
  | e :: es, i, r =>
      let j := i * size
      match r[j / 64]? with
      | none => none
      | some w => joinLoop size es (i + 1) (r.set (j / 64) (w ||| shl64 (e &&& mask size) (j % 64)))

/-- `Join(subs, size)` -/
def bmJoin (subs : List Nat) (size : Nat) : Option (List Nat) :=
  joinLoop size subs 0 (zeros ((size * subs.length + 63) / 64))

/-! ### Builder -/

structure Builder where
  words : List Nat
  offset : Int
deriving Repr, DecidableEq

/-- append zero words until `64*len ≥ end` -/
def growTo (ws : List Nat) (e : Int) : List Nat :=
  ws ++ zeros (((e + 63) / 64).toNat - ws.length)

/-- `Builder.Extend(bitPositions, size)` -/
def Builder.extend (b : Builder) (ps : List Int) (size : Int) : Option Builder :=
  let e := match ps.getLast? with
    | none => b.offset + size
    | some l => if l ≥ size then b.offset + l + 1 else b.offset + size
  let ws := growTo b.words e
  match orBits ws (ps.map (b.offset + ·)) with
  | none => none
  | some ws' => some { words := ws', offset := b.offset + size }

/-- `Builder.Set(bitPosition, value)` -/
def Builder.set (b : Builder) (pos : Int) (value : Int) : Option Builder :=
  if pos < 0 then none else
  let p := pos.toNat
  let ws := b.words ++ zeros (p / 64 + 1 - b.words.length)
  match ws[p / 64]? with
  | none => none
  | some w =>
    let ws' := ws.set (p / 64) (w ||| ((value % 2).toNat <<< (p % 64)))
    some { words := ws', offset := if b.offset ≤ pos then pos + 1 else b.offset }

end Low
