import LowModel.Bitmap.Basic
/- bitmap/next.go -/
namespace Low

/-- the whole-word loop of `NextOne`: `rest = bm.drop (i/64)`, `i` word aligned.
    outer `none` = panic (index out of range), inner `none` = loop ended without a hit -/
def nextLoop (e : Nat) : List Nat → Nat → Option (Option Nat)
  | [], i => if i < e then none else some none
  | w :: r, i =>
      if i < e then
        if w ≠ 0 then some (some (i + tz w 64)) else nextLoop e r (i + 64)
      else some none

/-- `NextOne(bm, i, end)` for `0 ≤ i` -/
def nextOne (bm : List Nat) (i e : Nat) : Option Int := do
  let wordIdx := i / 64
  let bitIdx := i % 64
  let w0 ← bm[wordIdx]?
  let word := w0 &&& rmask bitIdx
  let nxt : Option Nat ←
    if word ≠ 0 then some (some (wordIdx * 64 + tz word 64))
    else
      let i' := (i + 63) / 64 * 64
      nextLoop e (bm.drop (i' / 64)) i'
  match nxt with
  | none => some (-1)
  | some p => if p ≥ e then some (-1) else some (p : Int)

/-- the whole-word loop of `PrevOne`, walking down: `rev = (bm.take k).reverse`, current `end = 64*k - 1` -/
def prevLoop (i : Nat) : List Nat → Nat → Option (Option Nat)
  | [], k => if 64 * k > i then none else some none
  | w :: r, k =>
      if 64 * k > i then
        if w ≠ 0 then some (some (64 * k - 1 - lz w 64)) else prevLoop i r (k - 1)
      else some none

/-- `PrevOne(bm, i, end)` for `0 ≤ i`, `1 ≤ end` -/
def prevOne (bm : List Nat) (i e : Nat) : Option Int := do
  if e = 0 then none else
  let e1 := e - 1
  let wordIdx := e1 / 64
  let bitIdx := e1 % 64
  let w0 ← bm[wordIdx]?
  let word := w0 &&& maskUpto bitIdx
  let prv : Option Nat ←
    if word ≠ 0 then some (some (wordIdx * 64 + 63 - lz word 64))
    else prevLoop i ((bm.take wordIdx).reverse) wordIdx
  match prv with
  | none => some (-1)
  | some p => if p < i then some (-1) else some (p : Int)

end Low
