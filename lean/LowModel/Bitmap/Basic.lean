import LowModel.Bits
/-
  Shared vocabulary for package bitmap: what a bitmap denotes, and the two specifications
  `rank` and `ones` that C01, C02, C12, C13 are stated against.
-/
namespace Low

/-- every word fits in a uint64 -/
def WordsOK (ws : List Nat) : Prop := ∀ w ∈ ws, w < 2^64

/-- int32 domain of package bitmap: the bit length `64*len` fits in an int32 -/
def BmDom (ws : List Nat) : Prop := ws.length < 2^25

/-- bit `i` of the bitmap; positions beyond the last word read 0 -/
def bitAt (ws : List Nat) (i : Nat) : Bool := (ws.getD (i / 64) 0).testBit (i % 64)

/-- SPEC: number of 1-bits at positions `< i` -/
def rank (ws : List Nat) : Nat → Nat
  | 0 => 0
  | i+1 => rank ws i + (bitAt ws i).toNat

/-- SPEC: ascending list of the positions of all 1-bits -/
def ones (ws : List Nat) : List Nat := (List.range (64 * ws.length)).filter (bitAt ws)

def zeros (n : Nat) : List Nat := List.replicate n 0

/-- `words[i>>6] |= 1 << (i&63)`; `none` = index out of range -/
def orBit (ws : List Nat) (i : Nat) : Option (List Nat) :=
  match ws[i / 64]? with
  | none => none
  | some w => some (ws.set (i / 64) (w ||| 2^(i % 64)))

end Low
