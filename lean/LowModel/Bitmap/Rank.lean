import LowModel.Bitmap.Basic
/- bitmap/rank.go -/
namespace Low

def indexRank64Go (trailing : Bool) : List Nat → Nat → List Nat
  | [], n => if trailing then [n] else []
  | w :: r, n => n :: indexRank64Go trailing r (n + popc w 64)

/-- `IndexRank64(words, trailing)` -/
def indexRank64 (ws : List Nat) (trailing : Bool) : List Nat := indexRank64Go trailing ws 0

def indexRank128Go : List Nat → Nat → List Nat
  | [], n => [n]                 -- even word count: the extra last entry
  | [_], n => [n]                -- odd word count: last pair has one word, no extra entry
  | w0 :: w1 :: r, n => n :: indexRank128Go r (n + popc w0 64 + popc w1 64)

/-- `IndexRank128(words)` -/
def indexRank128 (ws : List Nat) : List Nat := indexRank128Go ws 0

/-- `Rank64(words, rindex, i)`; `none` = panic -/
def rank64 (ws idx : List Nat) (i : Nat) : Option (Nat × Nat) := do
  let wordI := i / 64
  let j := i % 64
  let n ← idx[wordI]?
  let w ← ws[wordI]?
  some (n + popc (w &&& mask j) 64, (w >>> j) % 2)

/-- `Rank128(words, rindex, i)`; `none` = panic. The count is an `Int` because the code subtracts. -/
def rank128 (ws idx : List Nat) (i : Nat) : Option (Int × Nat) := do
  let wordI := i / 64
  let j := i % 64
  let atRight := wordI % 2
  let n ← idx[(i + 64) / 128]?
  let w ← ws[wordI]?
  let cnt1 := popc w 64
  some ((n : Int) - (atRight : Int) * (cnt1 : Int) + (popc (w &&& mask j) 64 : Int), (w >>> j) % 2)

end Low
