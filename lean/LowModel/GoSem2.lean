import LowModel.GoSem
import LowModel.Bytes
import LowModel.Bitmap.Select
import LowModel.Bmtree.Index
/-
  Additional vocabulary of the definitions that `tools/ssa2lean2` generates (`Generated/Ssa2/*.lean`):
  functions WITH LOOPS that only read memory, two more lookup tables, slicing, `bytes.Compare`, `uint16`, and the
  one external call of package iohelper.  TRUSTED, like `GoSem.lean`: every definition here is part of the meaning
  of the generated definitions.

  Loops.  A function that contains a loop (or calls one that does) takes `fuel : Nat` as its first argument and
  returns `Option`.  Every loop is a separate definition `f_loopN fuel <params> <live-ins> : Nat → <phis> → Option _`
  by structural recursion on its own iteration counter, started with the full `fuel`:
      `none`   = a run-time panic, OR the loop did not finish within `fuel` iterations;
      `some v` = the Go function returns `v` (and every loop instance took at most `fuel` iterations).
  A tie theorem states `f fuel args = model args` for EVERY `fuel ≥ bound(args)`.  Where the model says `some v`
  this means: the Go function terminates, without panic, with `v`.  Where the model says `none` it means: for
  every such `fuel` the code panics or is still running, i.e. (fuel being arbitrary large) it panics or diverges.
  A two-valued result was chosen over `Except`/a three-valued one because the existing lemmas and the `Option.bind`
  sequencing of `GoSem` carry over unchanged and the tie statements stay equations between `Option`s.
-/
namespace Low.GoSem2
open Low

/-! ### uint16 (only as the argument type of `bits.OnesCount16`) -/
def toU16 (x : Int) : Nat := (x % (65536 : Int)).toNat

/-! ### slicing `xs[lo:hi]` of a slice or string
  Go checks `0 ≤ lo ≤ hi ≤ cap(xs)` (`len(xs)` for a string).  A slice is represented by the list of its `len`
  elements, so the check here is against `len`: re-slicing BEYOND the length but within the capacity (legal Go, it
  exposes elements past `len`) is represented as a panic.  None of the translated functions relies on it; the
  model functions make the same identification. -/
def slice {α : Type} (xs : List α) (lo hi : Int) : Option (List α) :=
  if 0 ≤ lo ∧ lo ≤ hi ∧ hi ≤ (xs.length : Int) then some ((xs.take hi.toNat).drop lo.toNat) else none

/-! ### bytes.Compare
  TRUSTED correspondence: the standard library function is the lexicographic comparison of the two byte strings
  with result -1 / 0 / 1, i.e. `Low.bytesCompare` of `LowModel/Bytes.lean` (the function the model theorems are
  about). -/
def bytesCompare (a b : List Nat) : Int := Low.bytesCompare a b

/-! ### package-level lookup tables (beyond the six mask tables of `GoSem`)
  The translator checks the declared types (`[2048]uint8`, `[][]uint64`) and that, outside package initialisation,
  no function of the program does anything with these variables but read them.  The CONTENTS are
  trusted-by-definition here: they are written down by the same algorithm (`initSelectLookup` in bitmap/select.go →
  `Low.select8Table`) resp. the same literal (`idxToPath` in bmtree/index.go → `Low.idxToPathRow`) as the Go
  source, not regenerated.  They are separately covered by the project's C19 table snapshots (the live tables are
  compared with the model's) and are the tables the model theorems are about. -/

/-- `bitmap.select8Lookup[i]`; the index arrives as an `Int` -/
def tblSelect8 (i : Int) : Option Nat := if i < 0 then none else select8Table[i.toNat]?

/-- `bmtree.idxToPath[i][j]`: the outer slice literal has 9 rows (keys 0,1,2,4,8; the others are nil, length 0) -/
def tblIdxToPath (i j : Int) : Option Nat :=
  if i < 0 ∨ 9 ≤ i then none else GoSem.index (idxToPathRow i.toNat) j

/-! ### the external call `w.WriteAt(p, off)` on the `io.WriterAt` underneath a `SectionWriter`
  The behaviour of the underlying writer is an ARGUMENT of the generated definition: `ans` says how many bytes it
  is willing to accept and whether it fails; the call returns `n = min accept (len p)` and a non-nil error iff it
  was told to fail or accepted fewer than `len p` bytes (the io.WriterAt contract) — the project's convention,
  `UAns.apply` of `LowModel/Iohelper.lean`.  The error value is represented by one fixed identity.  The generated
  definition also returns what it handed to the writer: `ExtCall = some (off, len p)`, `none` = not called. -/
structure WriteAtAns where
  accept : Nat
  fail : Bool
deriving Repr, DecidableEq

def extErr : GoSem.Err := some "(error of the underlying writer)"

def extWriteAt (ans : WriteAtAns) (p : List Nat) (_off : Int) : Int × GoSem.Err :=
  (((min ans.accept p.length : Nat) : Int), if ans.fail || decide (ans.accept < p.length) then extErr else none)

abbrev ExtCall := Option (Int × Int)

end Low.GoSem2
