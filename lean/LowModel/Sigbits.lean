import LowModel.Bytes
/- sigbits/firstdiff.go, countprefixes.go, sigbits_countprefixes.go, sharding.go -/
namespace Low

/-- `get64Bits(s)`: big-endian value of the first 8 bytes, zero padded -/
def get64Bits (s : List Nat) : Nat :=
  (List.range 8).foldl (fun acc j => add64 acc (shl64 (s.getD j 0) (56 - 8 * j))) 0

def sFirstDiffLoop (a b : List Nat) (minl : Nat) : Nat → Nat → Nat
  | 0, _ => minl
  | fuel+1, i =>
      if i < a.length ∧ i < b.length then
        let au := get64Bits (a.drop i)
        let bu := get64Bits (b.drop i)
        let first := lz (au ^^^ bu) 64
        if first < 64 then
          let first := i * 8 + first
          if first < minl then first else minl
        else sFirstDiffLoop a b minl fuel (i + 8)
      else minl

/-- `sFirstDiffBit(a, b)` -/
def sFirstDiffBit (a b : List Nat) : Nat :=
  let minl := min (a.length * 8) (b.length * 8)
  sFirstDiffLoop a b minl (a.length / 8 + 1) 0

/-- `FirstDiffBits(keys)`; `none` = `make` with length -1 -/
def firstDiffBits : List (List Nat) → Option (List Nat)
  | [] => none
  | k :: ks => some (List.zipWith sFirstDiffBit (k :: ks) ks)

/-- `countPrefixes(firstdiffs, maxitem)`; `none` = negative make / index out of range -/
def countPrefixes (fds : List Nat) (maxitem : Int) : Option (Nat × List Nat) :=
  if maxitem < 1 then none else
  let m := maxitem.toNat
  let mn := fds.foldl (fun mn d => if mn > d then d else mn) 0x7fffffff
  let counts : List Nat := (List.range (m - 1)).map fun j => (fds.filter fun d => d - mn = j).length
  -- rst[0] = 1; rst[i+1] = rst[i] + counts[i]
  let rst := counts.foldl (fun (acc : List Nat × Nat) c => (acc.1 ++ [acc.2 + c], acc.2 + c)) ([1], 1)
  some (mn, rst.1)

/-- `(*SigBits).CountPrefixes(keyStart, keyEnd, maxitem)` on `New(keys)` -/
def sbCountPrefixes (keys : List (List Nat)) (s e : Nat) (maxitem : Int) : Option (Nat × List Nat) :=
  match firstDiffBits keys with
  | none => none
  | some sig =>
    if e = 0 ∨ s > e - 1 ∨ e - 1 > sig.length then none else
    countPrefixes ((sig.drop s).take (e - 1 - s)) maxitem

/-- state of the `ShardByPrefix` closure: (prefixes, keyCnts), both in order -/
abbrev ShardAcc := List Nat × List Nat

/-- scan of one oversized range: returns `endsAt` (without the final `e`) -/
def shardScan (fds : List Nat) : Nat → Nat → Nat → List Nat → List Nat
  | 0, _, _, ends => ends
  | cnt+1, i, longest, ends =>
      let prefixLen := fds.getD i 0 / 8
      if prefixLen < longest then shardScan fds cnt (i + 1) prefixLen [i + 1]
      else if prefixLen = longest then shardScan fds cnt (i + 1) longest (ends ++ [i + 1])
      else shardScan fds cnt (i + 1) longest ends

mutual
def shardDfs (keys : List (List Nat)) (fds : List Nat) (maxSize : Int) : Nat → Nat → Nat → ShardAcc → Option ShardAcc
  | 0, _, _, _ => none
  | fuel+1, s, e, acc =>
      if ((e : Int) - s) ≤ maxSize then
        match keys[s]? with
        | none => none
        | some k =>
          let mn := ((fds.drop s).take (e - 1 - s)).foldl (fun mn d => if mn > d / 8 then d / 8 else mn) k.length
          some (acc.1 ++ [mn], acc.2 ++ [e])
      else
        match keys[s]? with
        | none => none
        | some k =>
          let ends := shardScan fds (e - 1 - s) s k.length [] ++ [e]
          shardEach keys fds maxSize fuel s ends acc
def shardEach (keys : List (List Nat)) (fds : List Nat) (maxSize : Int) : Nat → Nat → List Nat → ShardAcc → Option ShardAcc
  | _, _, [], acc => some acc
  | fuel, s, e :: rest, acc =>
      match shardDfs keys fds maxSize fuel s e acc with
      | none => none
      | some acc' => shardEach keys fds maxSize fuel e rest acc'
end

/-- `ShardByPrefix(keys, maxSize)` -/
def shardByPrefix (keys : List (List Nat)) (maxSize : Int) : Option (List Nat × List Nat) :=
  match firstDiffBits keys with
  | none => none
  | some fds => shardDfs keys fds maxSize (keys.length + 1) 0 (fds.length + 1) ([], [0])

end Low
