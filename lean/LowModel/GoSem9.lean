import LowModel.GoSem
import LowModel.GoSem5
/-
  GoSem9 -- vocabulary of generation 9 (tools/ssa2lean9, binary9.go).  TRUSTED, like GoSem .. GoSem8: every definition
  stands for the Go operation named in its docstring.

  `encoding/binary.Write(w, binary.LittleEndian, p)` and `encoding/binary.Read(r, binary.LittleEndian, p)` for `p` a
  pointer to a struct of EXACTLY the shape

      struct { [16]uint8; uint64; uint64 }          (pbcmpl.header: Version, HeaderSize, BodySize)

  with `w` a fresh `*bytes.Buffer` and `r` a `bytes.NewReader(buf)`.  The translator emits these two functions only after
  checking, on the go/types struct of the pointer's element type, that it has exactly these three field types in this
  order (no padding can occur: 16 + 8 + 8 bytes, `binary.Size = 32`), that the byte order has the static type
  `encoding/binary.littleEndian`, and that writer / reader are used for nothing else.  The representation of a `*header` is
  that of generation 5 (`GoSem5.Header`): `[16]byte` ↦ a `List Nat` of length 16 with entries `< 256`, `uint64` ↦ `Nat < 2^64`;
  errors are `GoSem5.Err`.

  Contract of package encoding/binary (documented: "Write writes the binary representation of data into w. Data must be a
  fixed-size value or a slice of fixed-size values, or a pointer to such data. … struct … written field by field, in
  order", "Read reads structured binary data from r into data … The error is EOF only if no bytes were read. If an EOF
  happens after reading some but not all the bytes, Read returns ErrUnexpectedEOF"): an array of bytes is copied, a
  `uint64` is its 8 bytes least significant first.
-/
namespace Low.GoSem9

/-- the `w` little-endian bytes of `x` (`ByteOrder.PutUint64` for `w = 8`) -/
def leBytes (w x : Nat) : List Nat := (List.range w).map fun j => (x >>> (8 * j)) % 256

/-- the value of little-endian bytes (`ByteOrder.Uint64` on 8 bytes) -/
def unleBytes : List Nat → Nat
  | [] => 0
  | b :: r => b + 256 * unleBytes r

/-- exactly `n` bytes of a `[n]byte` (total: a list that is not a valid representation is cut / padded with zeros) -/
def arrBytes (n : Nat) (bs : List Nat) : List Nat := (bs ++ List.replicate n 0).take n

/-- `b := &bytes.Buffer{}; err := binary.Write(b, binary.LittleEndian, h); return b.Bytes(), err` for
    `h *struct{[16]uint8; uint64; uint64}`: the 32 bytes `Version ‖ le64 HeaderSize ‖ le64 BodySize`; a write into a
    `bytes.Buffer` never fails and the struct is of fixed size, so the error is nil. -/
def binaryWriteHeaderLE (ver : List Nat) (hs bs : Nat) : List Nat × GoSem5.Err :=
  (arrBytes 16 ver ++ leBytes 8 hs ++ leBytes 8 bs, .nil)

/-- `binary.Read(bytes.NewReader(buf), binary.LittleEndian, h)` for `h *struct{[16]uint8; uint64; uint64}`: (error, new
    contents of `*h`).  `Read` first fills a 32-byte scratch buffer with `io.ReadFull`: with fewer than 32 bytes in `buf`
    it returns `io.EOF` (no byte at all) or `io.ErrUnexpectedEOF` and leaves `*h` untouched; otherwise it decodes the first
    32 bytes (further bytes are ignored) and returns nil. -/
def binaryReadHeaderLE (buf : List Nat) (ver : List Nat) (hs bs : Nat) : GoSem5.Err × (List Nat × Nat × Nat) :=
  if 32 ≤ buf.length then
    (.nil, (buf.take 16, unleBytes ((buf.drop 16).take 8), unleBytes ((buf.drop 24).take 8)))
  else if buf.length = 0 then (.var "io.EOF", (ver, hs, bs))
  else (.var "io.ErrUnexpectedEOF", (ver, hs, bs))

end Low.GoSem9
