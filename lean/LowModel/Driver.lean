import LowModel.Driver.Bitmap
import LowModel.Driver.Bmtree
import LowModel.Driver.Strs
import LowModel.Driver.Io
import LowModel.Driver.Extras
/- dispatch: one case line in, `model<TAB>verdict` out -/
namespace Low.Driver

def dispatch (op : String) : Option (List String → String → Res) :=
  match op with
  | "idxrank64" => some hIdxRank64 | "idxrank128" => some hIdxRank128
  | "rank64" => some hRank64 | "rank128" => some hRank128
  | "idxsel32" => some hIdxSel32 | "idxsel32r64" => some hIdxSel32R64
  | "sel32" => some hSel32 | "sel32r64" => some hSel32R64
  | "sel32m" => some (hSelMany false) | "sel32r64m" => some (hSelMany true)
  | "of" => some hOf | "toarray" => some hToArray | "get" => some hGet | "get1" => some hGet1
  | "safeget" => some hSafeGet | "safeget1" => some hSafeGet1 | "ofmany" => some hOfMany
  | "builder" => some hBuilder
  | "nextone" => some hNextOne | "prevone" => some hPrevOne
  | "tbl" => some hTblIdxToPath
  | "builderprobe" => some hProbeOk | "ofmanyprobe" => some hProbeOk | "tbprobe" => some hProbeOk | "bmprobe" => some hProbeOk | "pathstrprobe" => some hProbeOk | "gcprobe" => some hProbeOk | "cmpuptoprobe" => some hProbeOk | "buildersetprobe" => some hProbeOk | "swbigprobe" => some hProbeOk | "shardprobe" => some hProbeOk | "fdbprobe" => some hProbeOk
  | "join" => some hJoin | "joinprobe" => some hJoinProbe | "getw" => some hGetw | "slice" => some hSlice
  | "fromstr32" => some hFromStr32
  | "tb" => some hTb
  | "p2i" => some (hP2I false) | "p2id" => some (hP2I true)
  | "p2il" => some (hP2IL false) | "p2ild" => some (hP2IL true)
  | "allpaths" => some hAllPaths | "decode" => some hDecode
  | "i2p" => some hI2P | "i2pseq" => some (hSeq hI2P)
  | "p2iseq" => some (hSeq (hP2I false)) | "p2iseqd" => some (hSeq (hP2I true))
  | "p2ilseq" => some (hSeq (hP2IL false)) | "p2ilseqd" => some (hSeq (hP2IL true))
  | "pathinfo" => some hPathInfo | "pathcmp" => some hPathCmp
  | "pathof" => some hPathOf | "pathsof" => some hPathsOf
  | "bsnew" => some hBsNew | "bscmp" => some hBsCmp | "bscmpupto" => some hBsCmpUpto
  | "bwfromstr" => some hBwFromStr | "bwtostr" => some hBwToStr | "bwrt" => some hBwRoundTrip
  | "bwget" => some hBwGet | "bwfirstdiff" => some hBwFirstDiff | "bwstrs" => some hBwStrs
  | "fdb" => some hFdb | "countprefixes" => some hCountPrefixes | "cpm" => some hCountPrefixesMany | "shard" => some hShard
  | "sw" => some hSw | "atw" => some hAtw | "swn" => some hSwn
  | "pbmk" => some hPbMarshal | "pbrt" => some hPbRt | "pbs" => some hPbStream | "pbraw" => some hPbRaw | "pbh" => some hPbHeader
  | "sizeofgen" => some hSizeOf | "sizeofnamed" => some hSizeOf
  | "fmt" => some hFmt | "tree" => some hTree | "toslice" => some hToSlice | "statgen" => some hStat | "statnamed" => some hStat
  | _ => none

def answer (line : String) : String :=
  match line.splitOn " => " with
  | [lhs, impl] =>
    match lhs.splitOn " " with
    | op :: args =>
      match dispatch op with
      | none => "BADOP\tna"
      | some h => match h args impl with
        | none => "BADARGS\tna"
        | some (m, v) => m ++ "\t" ++ v
    | [] => "BADOP\tna"
  | _ => "BADLINE\tna"

end Low.Driver
