/-
  Extras (X01..X04): the parts of openacid/low that no listed property covers.
  Shared string helpers.  A Go string is a list (of `Char` for the pure-ASCII output of `bitmap.Fmt`, of bytes
  `Nat < 256` for package tree, where `len(line)` counts bytes).
-/
namespace Low.Extras

/-- `strings.Join(parts, sep)` -/
def joinSep {α} (sep : List α) : List (List α) → List α
  | [] => []
  | [x] => x
  | x :: y :: r => x ++ sep ++ joinSep sep (y :: r)

/-- a Go string as its bytes -/
abbrev Bytes := List Nat

/-- `strings.Repeat(" ", n)` -/
def spaces (n : Nat) : Bytes := List.replicate n 32

/-- `fmt.Sprintf("%d", n)` for `n ≥ 0`, as bytes -/
def dec (n : Nat) : Bytes := (Nat.toDigits 10 n).map Char.toNat

end Low.Extras
