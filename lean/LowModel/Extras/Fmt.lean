import LowModel.Extras.Str
/-
  X01 -- bitmap/fmt.go: `Fmt`, `intFmt`, `intSize`.

    func Fmt(x interface{}) string        a slice (reflect.Kind Slice): intFmt of every element, joined by ","
                                          anything else: intFmt(x)
    func intFmt(i interface{}) string     sz, v := intSize(i); bytes 0..sz-1 of v (little-endian), each as
                                          fmt.Sprintf("%08b", bits.Reverse8(b)), joined by " "
    func intSize(i interface{}) (int, uint64)   type switch over int8, uint8, …, uint64; anything else panics

  A Go panic is `none`.  The output is pure ASCII: a `List Char`.
-/
namespace Low.Extras

/-- the eight dynamic types `intSize` accepts (unnamed predeclared types only: a named type such as
    `type T int8` does not match `case int8` of a type switch) -/
inductive IntTy where
  | i8 | u8 | i16 | u16 | i32 | u32 | i64 | u64
deriving DecidableEq, Repr

/-- size in bytes: the first result of `intSize` -/
def IntTy.size : IntTy → Nat
  | .i8 | .u8 => 1
  | .i16 | .u16 => 2
  | .i32 | .u32 => 4
  | .i64 | .u64 => 8

def IntTy.signed : IntTy → Bool
  | .i8 | .i16 | .i32 | .i64 => true
  | _ => false

/-- the values of the type -/
def IntTy.inRange (t : IntTy) (v : Int) : Prop :=
  if t.signed then -(2 ^ (8 * t.size - 1) : Int) ≤ v ∧ v < 2 ^ (8 * t.size - 1)
  else 0 ≤ v ∧ v < 2 ^ (8 * t.size)

instance (t : IntTy) (v : Int) : Decidable (t.inRange v) := by unfold IntTy.inRange; exact inferInstance

/-- the dynamic value inside an `interface{}`: one of the eight integer types with its value, or anything
    else (nil, int, uint, string, a named integer type, an array, a pointer, …) -/
inductive Dyn where
  | int (ty : IntTy) (v : Int)
  | other
deriving DecidableEq, Repr

/-- Go's conversion `uint64(i)` of an integer of any of the eight types: the value modulo 2^64
    (sign extension for negative values) -/
def toU64 (v : Int) : Nat := (v % 2 ^ 64).toNat

/-- `intSize`: `none` = `panic("not a int type")` -/
def intSize : Dyn → Option (Nat × Nat)
  | .int ty v => some (ty.size, toU64 v)
  | .other => none

/-- `bits.Reverse8` -/
def reverse8 (b : Nat) : Nat :=
  (List.range 8).foldl (fun acc k => acc + (if b.testBit k then 2 ^ (7 - k) else 0)) 0

/-- `fmt.Sprintf("%08b", n)`: the binary digits of `n`, most significant first, left-padded with '0' to width 8 -/
def fmt08b (n : Nat) : List Char :=
  let ds := Nat.toDigits 2 n
  List.replicate (8 - ds.length) '0' ++ ds

/-- byte `i` of `v`: `uint8(v >> uint(i*8))` -/
def byteAt (v i : Nat) : Nat := (v >>> (i * 8)) % 256

/-- `intFmt` -/
def intFmt (d : Dyn) : Option (List Char) :=
  match intSize d with
  | none => none
  | some (sz, v) => some (joinSep [' '] ((List.range sz).map fun i => fmt08b (reverse8 (byteAt v i))))

/-- the argument of `Fmt` as `reflect` sees it: a slice (of any element type; element `i` is the dynamic value
    `v.Index(i).Interface()`), or a non-slice dynamic value -/
inductive FmtArg where
  | scalar (d : Dyn)
  | slice (es : List Dyn)
deriving Repr

/-- `Fmt` -/
def fmt : FmtArg → Option (List Char)
  | .slice es => (es.mapM intFmt).map (joinSep [','])
  | .scalar d => intFmt d

/-! ### specification -/

/-- bit `k` of the two's-complement representation of `v` -/
def bitOf (v : Int) (k : Nat) : Bool := (toU64 v).testBit k

def bitChar (b : Bool) : Char := if b then '1' else '0'

/-- SPEC: one element: bytes little-endian, each byte least significant bit first, bytes separated by ' ' -/
def elemSpec (sz : Nat) (v : Int) : List Char :=
  joinSep [' '] ((List.range sz).map fun j => (List.range 8).map fun k => bitChar (bitOf v (8 * j + k)))

/-- parse-back of one element rendering of `sz` bytes: the value modulo 2^(8·sz) -/
def parseElem (sz : Nat) (s : List Char) : Nat :=
  (List.range (8 * sz)).foldl (fun acc i => acc + (if s.getD (9 * (i / 8) + i % 8) '0' = '1' then 2 ^ i else 0)) 0

/-- the value of type `ty` with the given low bits -/
def IntTy.ofBits (ty : IntTy) (n : Nat) : Int :=
  if ty.signed ∧ n ≥ 2 ^ (8 * ty.size - 1) then (n : Int) - 2 ^ (8 * ty.size) else n

end Low.Extras
