/-
  X03 -- typehelper/toslice.go:

    func ToSlice(arg interface{}) []interface{} {
        s := reflect.ValueOf(arg)
        if s.Kind() != reflect.Slice { panic("not a slice") }
        l := s.Len()
        rst := make([]interface{}, l)
        for i := 0; i < l; i++ { rst[i] = s.Index(i).Interface() }
        return rst
    }

  `α` is the type of dynamic values (what an `interface{}` can hold, nil included); a Go panic is `none`.
-/
namespace Low.Extras

/-- the argument as `reflect` sees it: a slice of any type (nil slices are slices of length 0; `es[i]` is the
    dynamic value `s.Index(i).Interface()`), or any value whose kind is not `Slice` (nil, numbers, strings, arrays,
    maps, pointers to slices, …) -/
inductive TSArg (α : Type) where
  | slice (es : List α)
  | other
deriving Repr

/-- the loop `for i := from; i < l; i++ { rst[i] = s.Index(i).Interface() }`, `n` iterations left;
    `none` in a cell is the nil interface `make` put there -/
def toSliceLoop {α} (es : List α) : Nat → Nat → List (Option α) → List (Option α)
  | 0, _, rst => rst
  | n + 1, i, rst => toSliceLoop es n (i + 1) (rst.set i es[i]?)

/-- `ToSlice`: the cells of the result; `some x` = the boxed element, `none` = a cell the loop never wrote -/
def toSlice {α} : TSArg α → Option (List (Option α))
  | .other => none
  | .slice es =>
    let l := es.length
    let rst := List.replicate l none
    some (toSliceLoop es l 0 rst)

end Low.Extras
