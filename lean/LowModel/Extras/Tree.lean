import LowModel.Extras.Str
/-
  X02 -- tree/tree.go: `String`, `toStrings`, `nodeStr`, `DepthFirst`, `depthFirst` over the interface `Tree`.

  Layer 1 (`TreeI`, `nodeStr`, `toStrings`, `treeString`, `depthFirst`, `depthFirstTop`): the Go functions, statement by
  statement, over ANY implementation of the interface, given as a record of pure functions.  The recursion of the Go
  code follows the implementation's `Labels`/`Child` and need not terminate (a cyclic or infinite implementation): the
  model takes `fuel` (recursion depth) and answers `none` when it runs out.  A Go string is its list of bytes
  (`len(line)` counts bytes).
  Layer 2 (`FTree`, `FTree.iface`): finite trees with ordered labelled branches as an implementation of the interface,
  and the specifications (`FTree.lines`, `FTree.post`) the theorems of `LowProofs/Extras/X02.lean` relate layer 1 to.

  Assumptions written into the model: the interface methods are pure (same answer every time, no panic), `Labels` never
  returns a nil label (the code tests `inbranch != nil` to recognise the root), the callback of `DepthFirst` does not
  change the tree; the callback is modelled by the list of its calls.
-/
namespace Low.Extras

/-- what the Go code can observe of an implementation of `tree.Tree`; `N` = node values, `L` = (non-nil) label values -/
structure TreeI (N L : Type) where
  /-- the nil interface value used as a node ("A nil indicates root node") -/
  nilNode : N
  /-- `Child(nil, nil)` -/
  root : N
  /-- `Child(node, label)` for a label returned by `Labels(node)` -/
  child : N → L → N
  /-- `Labels(node)` -/
  labels : N → List L
  /-- `NodeID(node)` -/
  nodeID : N → Bytes
  /-- `LabelInfo(label)` -/
  labelInfo : L → Bytes
  /-- `NodeInfo(node)` -/
  nodeInfo : N → Bytes
  /-- `LeafVal(node)`: `some s` = `(v, true)` where `s` is what `fmt.Sprintf("%v", v)` prints; `none` = `(_, false)` -/
  leafVal : N → Option Bytes

variable {N L : Type}

/-- `nodeStr(t, inbranch, node)`: the line of a node and the indentation of its children's lines.
    '-' = 45, '>' = 62, '#' = 35, '*' = 42, '=' = 61 -/
def nodeStr (t : TreeI N L) (inbranch : Option L) (node : N) : Bytes × Nat :=
  let line : Bytes := []
  let line := match inbranch with          -- if inbranch != nil { line += fmt.Sprintf("-%v->", t.LabelInfo(inbranch)) }
    | some b => line ++ ([45] ++ t.labelInfo b ++ [45, 62])
    | none => line
  let nodeid := t.nodeID node
  let line := if nodeid ≠ [] then line ++ ([35] ++ nodeid) else line      -- line += "#" + nodeid
  let indent := line.length                                                -- indent := len(line)
  let line := line ++ t.nodeInfo node
  let brCnt := (t.labels node).length
  let line := if brCnt > 1 then line ++ ([42] ++ dec brCnt) else line     -- fmt.Sprintf("*%d", brCnt)
  let line := match t.leafVal node with                                    -- fmt.Sprintf("=%v", v)
    | some v => line ++ ([61] ++ v)
    | none => line
  (line, indent)

/-- `toStrings(t, inbranch, node)`; `none` = recursion deeper than `fuel` -/
def toStrings (t : TreeI N L) : Nat → Option L → N → Option (List Bytes)
  | 0, _, _ => none
  | fuel + 1, inbranch, node =>
    let (line, ind) := nodeStr t inbranch node
    let indent := spaces ind
    match (t.labels node).mapM (fun b => toStrings t fuel (some b) (t.child node b)) with
    | none => none
    | some subs => some (line :: subs.flatten.map (indent ++ ·))

/-- `String(t)`: note that it starts at the node `nil` itself, it never calls `Child(nil, nil)`. '\n' = 10 -/
def treeString (t : TreeI N L) (fuel : Nat) : Option Bytes :=
  (toStrings t fuel none t.nilNode).map (joinSep [10])

/-- one call `np(t, parent, label, node)` of the callback; `parent = none`/`label = none` are the nil interface -/
abbrev Visit (N L : Type) := Option N × Option L × N

/-- `depthFirst(t, parent, label, node, np)`: the calls of `np`, in order; `none` = recursion deeper than `fuel` -/
def depthFirst (t : TreeI N L) : Nat → Option N → Option L → N → Option (List (Visit N L))
  | 0, _, _, _ => none
  | fuel + 1, parent, label, node =>
    match (t.labels node).mapM (fun b => depthFirst t fuel (some node) (some b) (t.child node b)) with
    | none => none
    | some subs => some (subs.flatten ++ [(parent, label, node)])

/-- `DepthFirst(t, np)` -/
def depthFirstTop (t : TreeI N L) (fuel : Nat) : Option (List (Visit N L)) :=
  depthFirst t fuel none none t.root

/-! ### finite trees -/

/-- a finite tree: node id, node info, leaf value (`%v` rendering) and ordered branches (label info, subtree) -/
inductive FTree where
  | node (id info : Bytes) (leaf : Option Bytes) (branches : List (Bytes × FTree))
deriving Repr, Inhabited

namespace FTree
def id : FTree → Bytes | .node i _ _ _ => i
def info : FTree → Bytes | .node _ i _ _ => i
def leaf : FTree → Option Bytes | .node _ _ l _ => l
def branches : FTree → List (Bytes × FTree) | .node _ _ _ b => b

mutual
/-- number of nodes -/
def size : FTree → Nat
  | .node _ _ _ bs => 1 + sizeList bs
def sizeList : List (Bytes × FTree) → Nat
  | [] => 0
  | (_, c) :: r => size c + sizeList r
end

mutual
/-- number of nodes on the longest path from the root -/
def height : FTree → Nat
  | .node _ _ _ bs => 1 + heightList bs
def heightList : List (Bytes × FTree) → Nat
  | [] => 0
  | (_, c) :: r => max (height c) (heightList r)
end

/-- A finite tree as an implementation of the interface, the way the package's own test implements it: a node value
    is the subtree itself, `nil` stands for a tree `nilT`, `Child(nil, nil)` is `root` (every sensible implementation
    has `nilT = root`; the two are kept apart because `String` uses only the former and `DepthFirst` only the
    latter), the labels of a node are the branch numbers `0..n-1`, `LabelInfo` of a branch number is looked up in
    the node the label came from -- since a label value alone must determine its info, a label is the pair
    (branch number, info). -/
def iface (nilT root : FTree) : TreeI (Option FTree) (Nat × Bytes) where
  nilNode := none
  root := some root
  child := fun n (i, _) => some (((n.getD nilT).branches[i]?).map (·.2) |>.getD default)
  labels := fun n => ((n.getD nilT).branches.zipIdx).map fun ((lbl, _), i) => (i, lbl)
  nodeID := fun n => (n.getD nilT).id
  labelInfo := fun (_, lbl) => lbl
  nodeInfo := fun n => (n.getD nilT).info
  leafVal := fun n => (n.getD nilT).leaf

/-- SPEC: the text of one node: `-<label>->` (not for the root), `#<id>` (not for an empty id), the info, `*<n>` for
    `n > 1` branches, `=<value>` for a leaf value; and the width of the part before the info -/
def lineOf (inbranch : Option Bytes) (t : FTree) : Bytes × Nat :=
  let pre := (match inbranch with | some l => [45] ++ l ++ [45, 62] | none => [])
              ++ (if t.id ≠ [] then [35] ++ t.id else [])
  (pre ++ t.info ++ (if t.branches.length > 1 then [42] ++ dec t.branches.length else [])
       ++ (match t.leaf with | some v => [61] ++ v | none => []),
   pre.length)

mutual
/-- SPEC of `toStrings`: the nodes in pre-order, one line each, the line of a node indented by `off` = the sum of
    the prefix widths (`lineOf … .2`) of its proper ancestors -/
def lines (off : Nat) (inbranch : Option Bytes) : FTree → List Bytes
  | .node i f l bs => (spaces off ++ (lineOf inbranch (.node i f l bs)).1)
                        :: linesList (off + (lineOf inbranch (.node i f l bs)).2) bs
def linesList (off : Nat) : List (Bytes × FTree) → List Bytes
  | [] => []
  | (lbl, c) :: r => lines off (some lbl) c ++ linesList off r
end

mutual
/-- SPEC of `depthFirst`: post-order ("process children in order then their parent"); every node once, with its
    parent and the number of the branch it hangs on -/
def post (parent : Option FTree) (label : Option (Nat × Bytes)) : FTree → List (Visit (Option FTree) (Nat × Bytes))
  | .node i f l bs => postList (.node i f l bs) 0 bs ++ [(parent.map some, label, some (.node i f l bs))]
def postList (parent : FTree) (k : Nat) : List (Bytes × FTree) → List (Visit (Option FTree) (Nat × Bytes))
  | [] => []
  | (lbl, c) :: r => post (some parent) (some (k, lbl)) c ++ postList parent (k + 1) r
end

end FTree
end Low.Extras
