import LowModel.SizeOf
import LowModel.Extras.Str
/-
  X04 -- size/sizeof.go: the body of `stat` (what `Stat(v, depth, maxItem)` prints below its first line), for
  `opt.AvgOf = 0` (the default; the `AvgOf > 0` header divides floating-point numbers and is left out).

  A line of the output is `indent · "    "`, an optional label and `": "`, then either `<type>: <sizeof>` or `<nil>`.
  The type text is `reflect.Type.String()` and is not modelled; a line is (indent level, label, number).
-/
namespace Low.Extras

/-- a value as `stat` walks it: `Low.GoVal` plus what the labels are made of -/
inductive SV where
  | scalar (width : Nat)
  | str (len : Nat)
  | arr (elems : List SV)
  | slice (elems : List SV)
  /-- entries in the order `MapKeys` returned them: label (`fmt.Sprintf("%s", key)`), key, value, and whether
      `MapIndex(key)` finds the entry (it does not when the key is not equal to itself: a NaN inside) -/
  | map (entries : List (Bytes × SV × SV × Bool))
  | ptr (pointee : Option SV)
  | iface (dyn : Option SV)
  /-- field name, field value -/
  | struct (fields : List (Bytes × SV))
  | unsupported
deriving Repr, Inhabited

mutual
/-- forget the labels -/
def SV.erase : SV → GoVal
  | .scalar w => .scalar w
  | .str n => .str n
  | .arr es => .arr (eraseList es)
  | .slice es => .slice (eraseList es)
  | .map ps => .map (eraseEntries ps)
  | .ptr none => .ptr none
  | .ptr (some v) => .ptr (some v.erase)
  | .iface none => .iface none
  | .iface (some v) => .iface (some v.erase)
  | .struct fs => .struct (eraseFields fs)
  | .unsupported => .unsupported
def eraseList : List SV → List GoVal
  | [] => []
  | v :: r => v.erase :: eraseList r
def eraseEntries : List (Bytes × SV × SV × Bool) → List (GoVal × GoVal)
  | [] => []
  | (_, k, v, _) :: r => (k.erase, v.erase) :: eraseEntries r
def eraseFields : List (Bytes × SV) → List GoVal
  | [] => []
  | (_, v) :: r => v.erase :: eraseFields r
end

/-- one output line: indentation level (units of four spaces), label (`none`: no label), and the number after the
    type (`none`: the line is `<nil>`) -/
structure StatLine where
  indent : Nat
  label : Option Bytes
  size : Option Nat
deriving Repr, DecidableEq

/-- `subs[0] = label + ": " + subs[0]` -/
def setLabel (l : Bytes) : List StatLine → List StatLine
  | [] => []
  | s :: r => { s with label := some (l ++ (s.label.getD [])) } :: r

/-- the final loop of `stat`: every line but the first gets four more spaces -/
def indentTail : List StatLine → List StatLine
  | [] => []
  | s :: r => s :: r.map fun x => { x with indent := x.indent + 1 }

mutual
/-- `stat(v, depth, maxItem, Opt{})` for a valid `v`; `none` = panic (`sizeof` meets an unknown kind).
    `depth` and `maxItem` are Go `int`s: a negative depth never reaches 0 (no cut-off), `maxItem ≤ 0` shows no
    element of a map, slice or array; struct fields are never cut. -/
def stat (v : SV) (depth maxItem : Int) : Option (List StatLine) :=
  match sizeOf v.erase with
  | none => none
  | some sz =>
    let header : StatLine := ⟨0, none, some sz⟩
    if depth = 0 then some [header] else
    match v with
    | .map ps => (statEntries ps 0 (depth - 1) maxItem).map fun subs => indentTail (header :: subs)
    | .slice es => (statElems es 0 (depth - 1) maxItem).map fun subs => indentTail (header :: subs)
    | .arr es => (statElems es 0 (depth - 1) maxItem).map fun subs => indentTail (header :: subs)
    | .ptr none => some [header]
    | .ptr (some p) => (stat p (depth - 1) maxItem).map fun subs => indentTail (header :: subs)
    | .iface none => some (indentTail [header, ⟨0, none, none⟩])         -- stat(v.Elem()) of a nil interface: "<nil>"
    | .iface (some d) => (stat d (depth - 1) maxItem).map fun subs => indentTail (header :: subs)
    | .struct fs => (statFields fs (depth - 1) maxItem).map fun subs => indentTail (header :: subs)
    | _ => some [header]
/-- `for i := 0; i < n && i < maxItem; i++ { subs := stat(v.Index(i), …); subs[0] = "<i>: " + subs[0]; … }` -/
def statElems (es : List SV) (i : Nat) (depth maxItem : Int) : Option (List StatLine) :=
  match es with
  | [] => some []
  | e :: r =>
    if (i : Int) < maxItem then
      match stat e depth maxItem, statElems r (i + 1) depth maxItem with
      | some a, some b => some (setLabel (dec i) a ++ b)
      | _, _ => none
    else some []
/-- the map loop: `stat(v.MapIndex(key))`, which is `<nil>` for an entry `MapIndex` does not find -/
def statEntries (ps : List (Bytes × SV × SV × Bool)) (i : Nat) (depth maxItem : Int) : Option (List StatLine) :=
  match ps with
  | [] => some []
  | (lbl, _, v, found) :: r =>
    if (i : Int) < maxItem then
      match (if found then stat v depth maxItem else some [⟨0, none, none⟩]), statEntries r (i + 1) depth maxItem with
      | some a, some b => some (setLabel lbl a ++ b)
      | _, _ => none
    else some []
def statFields (fs : List (Bytes × SV)) (depth maxItem : Int) : Option (List StatLine) :=
  match fs with
  | [] => some []
  | (name, v) :: r =>
    match stat v depth maxItem, statFields r depth maxItem with
    | some a, some b => some (setLabel name a ++ b)
    | _, _ => none
end

/-- `Stat(v, depth, maxItem)`: `none` argument = nil interface (`reflect.ValueOf(nil)` is invalid: "<nil>") -/
def statTop (v : Option SV) (depth maxItem : Int) : Option (List StatLine) :=
  match v with
  | none => some [⟨0, none, none⟩]
  | some v => stat v depth maxItem

end Low.Extras
