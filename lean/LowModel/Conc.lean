/-
  C19, layer 1: a small model of threads over a shared memory with an ownership map.
  Nothing here is specific to Go: it is the logic "no write to shared memory => every schedule gives each
  thread the results of running alone, shared memory never changes, no conflicting access exists".
-/
namespace Low.Conc

abbrev Addr := Nat
abbrev Val := Nat
abbrev Tid := Nat
abbrev Mem := Addr → Val

inductive Act where
  | read (a : Addr)
  | write (a : Addr) (v : Val)

/-- a deterministic thread program: from a local state either finished (`none`), or one memory action
    together with the continuation (which receives the value read; a write passes 0) -/
structure Prog (σ : Type) where
  next : Tid → σ → Option (Act × (Val → σ))

/-- one step of thread `t` on its local state and a memory; a finished thread stutters -/
def stepT {σ} (P : Prog σ) (t : Tid) (s : σ) (m : Mem) : σ × Mem :=
  match P.next t s with
  | none => (s, m)
  | some (.read a, k) => (k (m a), m)
  | some (.write a v, k) => (k 0, fun x => if x = a then v else m x)

structure Sys (σ : Type) where
  mem : Mem
  loc : Tid → σ

def stepS {σ} (P : Prog σ) (t : Tid) (S : Sys σ) : Sys σ :=
  let r := stepT P t (S.loc t) S.mem
  { mem := r.2, loc := fun u => if u = t then r.1 else S.loc u }

/-- run a schedule (a list of thread ids, any interleaving) -/
def run {σ} (P : Prog σ) : List Tid → Sys σ → Sys σ
  | [], S => S
  | t :: r, S => run P r (stepS P t S)

/-- thread `t` running alone for `k` steps -/
def solo {σ} (P : Prog σ) (t : Tid) : Nat → σ → Mem → σ × Mem
  | 0, s, m => (s, m)
  | k+1, s, m => let r := solo P t k s m; stepT P t r.1 r.2

/-- `none` = shared (argument slices, strings, package tables); `some t` = allocated by thread `t` -/
abbrev Own := Addr → Option Tid

/-- every write of a thread goes to memory it owns -/
def WritesOwned {σ} (P : Prog σ) (own : Own) : Prop :=
  ∀ t s a v k, P.next t s = some (.write a v, k) → own a = some t

/-- a thread reads only shared memory or its own -/
def ReadsVisible {σ} (P : Prog σ) (own : Own) : Prop :=
  ∀ t s a k, P.next t s = some (.read a, k) → own a = none ∨ own a = some t

/-- the address a thread is about to access, and whether it is a write -/
def access {σ} (P : Prog σ) (t : Tid) (s : σ) : Option (Addr × Bool) :=
  match P.next t s with
  | none => none
  | some (.read a, _) => some (a, false)
  | some (.write a _, _) => some (a, true)

end Low.Conc
