import LowModel.Go
/- size/sizeof.go: `sizeof` over a value tree (kinds and lengths only), 64-bit platform -/
namespace Low

inductive GoVal where
  | scalar (width : Nat)                 -- bool, (u)int*, float*, complex*, int, uint, uintptr: Type.Size()
  | str (len : Nat)
  | arr (elems : List GoVal)
  | slice (elems : List GoVal)           -- a nil slice has no elements
  | map (pairs : List (GoVal × GoVal))
  | ptr (pointee : Option GoVal)
  | iface (dyn : Option GoVal)           -- only as a field/element: a nil interface is invalid
  | struct (fields : List GoVal)
  | unsupported                          -- chan, func, unsafe.Pointer: sizeof panics
deriving Repr

mutual
/-- `sizeof(v)`; `none` = panic("unknown kind") -/
def sizeOf : GoVal → Option Nat
  | .scalar w => some w
  | .str n => some (n + 16)
  | .arr es => sizeOfList es
  | .slice es => (sizeOfList es).map (· + 24)
  | .map ps => (sizeOfPairs ps).map (· + 8)
  | .ptr none => some 8
  | .ptr (some v) => (sizeOf v).map (· + 8)
  | .iface none => some 16
  | .iface (some v) => (sizeOf v).map (· + 16)
  | .struct fs => sizeOfList fs
  | .unsupported => none
def sizeOfList : List GoVal → Option Nat
  | [] => some 0
  | v :: r => match sizeOf v, sizeOfList r with
      | some a, some b => some (a + b)
      | _, _ => none
def sizeOfPairs : List (GoVal × GoVal) → Option Nat
  | [] => some 0
  | (k, v) :: r => match sizeOf k, sizeOf v, sizeOfPairs r with
      | some a, some b, some c => some (a + b + c)
      | _, _, _ => none
end

/-- the number on the first line of `Stat(v, ...)`: `stat` formats `sizeof(v)` into its header line
    (`AvgOf = 0`); `none` when `v` is nil (the line is "<nil>") -/
def statHeader : Option GoVal → Option (Option Nat)
  | none => some none
  | some v => (sizeOf v).map some

/-- `Of(data)`: `none` argument = nil interface -/
def sizeOfTop : Option GoVal → Option Nat
  | none => some 0
  | some v => sizeOf v

mutual
/-- SPEC: the structural sum of the property statement -/
def structSize : GoVal → Nat
  | .scalar w => w
  | .str n => 16 + n
  | .arr es => structSizeList es
  | .slice es => 24 + structSizeList es
  | .map ps => 8 + structSizePairs ps
  | .ptr none => 8
  | .ptr (some v) => 8 + structSize v
  | .iface none => 16
  | .iface (some v) => 16 + structSize v
  | .struct fs => structSizeList fs
  | .unsupported => 0
def structSizeList : List GoVal → Nat
  | [] => 0
  | v :: r => structSize v + structSizeList r
def structSizePairs : List (GoVal × GoVal) → Nat
  | [] => 0
  | (k, v) :: r => structSize k + structSize v + structSizePairs r
end

mutual
/-- value built only from the kinds the property lists -/
def GoVal.supported : GoVal → Bool
  | .scalar _ => true
  | .str _ => true
  | .arr es => supportedList es
  | .slice es => supportedList es
  | .map ps => supportedPairs ps
  | .ptr none => true
  | .ptr (some v) => v.supported
  | .iface none => true
  | .iface (some v) => v.supported
  | .struct fs => supportedList fs
  | .unsupported => false
def supportedList : List GoVal → Bool
  | [] => true
  | v :: r => v.supported && supportedList r
def supportedPairs : List (GoVal × GoVal) → Bool
  | [] => true
  | (k, v) :: r => k.supported && v.supported && supportedPairs r
end

end Low
