import LowModel.Bmtree.Path
/- bmtree/index.go, partial_tree.go, the contract checks, allpaths.go, decode.go -/
namespace Low

/-- the loop of `shiftMulti` (fuel bounds the number of set bits of a uint64) -/
def shiftMultiLoop : Nat → Nat → Nat → Nat → Nat → Nat
  | 0, _, _, _, rst => rst
  | fuel+1, a, b, shift, rst =>
      if b = 0 then rst else
      let rst := add64 rst (shr64 a shift)
      let n := tz (b - 1) 64
      shiftMultiLoop fuel a (shr64 b n) (sub64 shift n) rst

/-- `shiftMulti(a, b, shift)` -/
def shiftMulti (a b shift : Nat) : Nat :=
  let n := tz b 64
  shiftMultiLoop 65 a (shr64 b n) (sub64 shift n) 0

/-- the value both `PathToIndex` and `PathToIndexLoose` compute; `swap` = Loose's argument order -/
def pathToIndexCore (swap : Bool) (t path : Nat) : Int :=
  let h := (height t).toNat
  let sz := t
  if sz = maskUpto h then
    wrap32 (wrap32 (wrap32 ((path >>> 32 : Nat) : Int) * 2) + (popc (path ^^^ 0xffffffff00000000) 64 : Int) - 32)
  else if sz = bit h then
    wrap32 ((path >>> 32 : Nat) : Int)
  else
    let idx := if swap then shiftMulti (path >>> 32) sz h else shiftMulti sz (path >>> 32) h
    wrap32 ((add64 idx (popc (sz &&& mask (pathLen path)) 64) : Nat) : Int)

/-- `PathToIndex(bitmapSize, path)`, release build, for `1 ≤ bitmapSize < 2^31` -/
def pathToIndex (t path : Nat) : Int := pathToIndexCore false t path

/-- `PathToIndexLoose(bitmapSize, path)`, release build -/
def pathToIndexLoose (t path : Nat) : Int × Nat :=
  (pathToIndexCore true t path, (t >>> pathLen path) % 2)

/-! contracts (`-tags debug`): each returns `true` when `must.Be` would not panic -/

def bitmapSizeCheck (t : Nat) : Bool := decide (height t ≤ 30) && t ≠ 0

def pathCheck (path : Nat) : Bool :=
  (path &&& 0xc0000000c0000000 == 0) &&
  (if path % M32 = 0 then true else
    let extended := (path ||| (path - 1)) % M32
    let pheight := 32 - lz (path % M32) 32
    (pheight == popc extended 32) &&
    (((not64 (path % M32)) % M32) &&& (path >>> 32) == 0))

def bitmapPathMustHaveEqualHeight (t path : Nat) : Bool :=
  bitmapSizeCheck t && pathCheck path &&
  (if path % M32 ≠ 0 then decide (height t = (pathHeight path : Int)) else true)

def bitmapMustHaveLevel (t l : Nat) : Bool := (t >>> l) % 2 == 1

def contractsLoose (t path : Nat) : Bool :=
  bitmapSizeCheck t && pathCheck path && bitmapPathMustHaveEqualHeight t path

def contractsStrict (t path : Nat) : Bool :=
  contractsLoose t path && bitmapMustHaveLevel t (pathLen path)

/-- debug build: contract failure is a panic -/
def pathToIndexDebug (t path : Nat) : Option Int :=
  if contractsStrict t path then some (pathToIndex t path) else none
def pathToIndexLooseDebug (t path : Nat) : Option (Int × Nat) :=
  if contractsLoose t path then some (pathToIndexLoose t path) else none

/-! ### IndexToPath -/

/-- `idxToPath[k]` (rows 0,1,2,4,8; the other rows of the sparse literal are nil) -/
def idxToPathRow : Nat → List Nat
  | 0 => [0]
  | 1 => [0]
  | 2 => [0, 1, 0x100000001]
  | 4 => [0, 2, 3, 0x100000003, 0x200000002, 0x200000003, 0x300000003]
  | 8 => [0, 4, 6, 7, 0x100000007, 0x200000006, 0x200000007, 0x300000007,
          0x400000004, 0x400000006, 0x400000007, 0x500000007,
          0x600000006, 0x600000007, 0x700000007]
  | _ => []

/-- the descent loop of `IndexToPath` -/
def i2pLoop : Nat → Nat → Nat → Int → Nat × Nat × Int
  | 0, p2, msk, index => (p2, msk, index)
  | fuel+1, p2, msk, index =>
      if msk &&& 15 = 0 ∧ index > 0 then
        let mpb := ((shl64 (u64 index) 32) ||| 0xffffffff) &&& msk
        let p2 := p2 ||| mpb
        let index := if wrap32 ((mpb >>> 32 : Nat) : Int) = 0 then wrap32 (index - 1)
                     else wrap32 (index - wrap32 ((mpb >>> 32 : Nat) : Int))
        i2pLoop fuel p2 (msk >>> 1) index
      else (p2, msk, index)

/-- `IndexToPath(treeheight, index)`; `none` = table index out of range -/
def indexToPath (th : Nat) (index : Int) : Option Nat :=
  let msk0 := shl64 0x0100000001 th
  let (p2, msk, index) :=
    if th > 4 then
      let i1 := wrap32 (index - th)
      let i2 := index
      let diffbits : Int := 32 - (lz (u32 i1 ^^^ u32 i2) 32 : Int)
      let fixed : Int := (th : Int) + 1 - diffbits
      if fixed > 0 then
        let m := sub64 (shl64 msk0 1) (shl64 0x0100000001 diffbits.toNat)
        let p2 := ((shl64 (u64 index) 32) ||| 0xffffffff) &&& m
        -- int32(m), int32(^m): low 32 bits reinterpreted
        let mLo := m % M32
        let nmLo := (not64 m) % M32
        let index' := wrap32 (wrap32 ((u32 index &&& nmLo : Nat) : Int) - fixed
                        + (popc (u32 index &&& mLo) 32 : Int))
        (p2, msk0 >>> fixed.toNat, index')
      else (0, msk0, index)
    else (0, msk0, index)
  let (p2, msk, index) := i2pLoop 64 p2 msk index
  if index < 0 then none else
  match (idxToPathRow (msk &&& 15))[index.toNat]? with
  | none => none
  | some v => some ((p2 >>> 1) ||| v)

/-! ### AllPaths / Decode -/

/-- inner loop of `AllPaths` for one `i`: `tz` runs from `k` down to 0. Returns (paths, stop). -/
def allPathsInner (t : Nat) (h : Nat) (frm to i : Nat) : Nat → List Nat → List Nat × Bool
  | k, acc =>
    let step (acc : List Nat) : Option (List Nat) :=   -- none = return now
      if t.testBit (h - k) then
        let p := (shl64 i 32) ||| (mask h ^^^ mask k)
        if p < frm then some acc
        else if p ≥ to then none
        else some (p :: acc)
      else some acc
    match step acc with
    | none => (acc, true)
    | some acc' =>
      match k with
      | 0 => (acc', false)
      | k'+1 => allPathsInner t h frm to i k' acc'

/-- outer loop of `AllPaths`: `cnt` values of `i` starting at `i` -/
def allPathsOuter (t h frm to : Nat) : Nat → Nat → List Nat → List Nat
  | 0, _, acc => acc
  | cnt+1, i, acc =>
      let k := min (tz i 64) h
      let (acc', stop) := allPathsInner t h frm to i k acc
      if stop then acc' else allPathsOuter t h frm to cnt (i + 1) acc'

/-- `AllPaths(bitmapSize, from, to)` for `1 ≤ bitmapSize < 2^31` -/
def allPaths (t frm to : Nat) : List Nat :=
  let h := (height t).toNat
  let fullPathCnt := bit h
  let tt := add64 (to >>> 32) 1
  let tt := if tt > fullPathCnt then fullPathCnt else tt
  (allPathsOuter t h frm to (tt - frm >>> 32) (frm >>> 32) []).reverse

/-- `Decode(bitmapSize, bm)` -/
def decode (t : Nat) (bm : List Nat) : List Nat :=
  (allPaths t 0 (2^63)).filter fun p =>
    let idx := pathToIndex t p
    let wordI := idx / 64
    decide ((bm.length : Int) > wordI) && wordI ≥ 0 &&
      (bm.getD wordI.toNat 0).testBit (idx % 64).toNat

end Low
