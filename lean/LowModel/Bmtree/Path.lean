import LowModel.Bitmap.FromStr32
/- bmtree: path words (newpath.go, pathlen.go, pathheight.go, pathbits.go, pathstr.go, height.go) -/
namespace Low

/-- `Height(bitmapSize)` = 31 - LeadingZeros32 -/
def height (t : Nat) : Int := (31 : Int) - (lz (t % M32) 32 : Int)

/-- `PathLen(p)` -/
def pathLen (p : Nat) : Nat := popc (p % M32) 32
/-- `PathHeight(p)` -/
def pathHeight (p : Nat) : Nat := 32 - lz (p % M32) 32
/-- `PathBits(p)` -/
def pathBits (p : Nat) : Nat := p >>> 32
/-- `PathMask(p)` -/
def pathMask (p : Nat) : Nat := p &&& 0xffffffff

/-- `fmt.Sprintf("%0*b", l, v)`: binary digits of `v`, left padded with '0' to width `l` -/
def binDigits (v : Nat) : List Char := (Nat.toDigits 2 v)
def fmtBin (l v : Nat) : String :=
  let ds := binDigits v
  String.ofList (List.replicate (l - ds.length) '0' ++ ds)

/-- `PathStr(path)` -/
def pathStr (p : Nat) : String :=
  let th := pathHeight p
  let l := pathLen p
  if l = 0 then "" else fmtBin l (shr64 p (32 + th - l))

/-- `NewPath(searchingBits, length, height)` for `length ≤ height` -/
def newPath (bits length h : Nat) : Nat :=
  shl64 bits 32 ||| shl64 (mask length) (h - length)

/-- `PathOf(s, frombit, height)` -/
def pathOf (s : List Nat) (frombit h : Nat) : Nat :=
  let (plen, path) := fromStr32 s frombit (frombit + h)
  newPath path plen h

/-- the `PathsOf` loop as repaired: the first key is never compared with a predecessor -/
def pathsOfGo (frombit h : Nat) (dedup : Bool) : List (List Nat) → Option Nat → List Nat
  | [], _ => []
  | s :: r, prev =>
      let p := pathOf s frombit h
      if !dedup || prev ≠ some p then p :: pathsOfGo frombit h dedup r (some p)
      else pathsOfGo frombit h dedup r (some p)

/-- `PathsOf(keys, frombit, height, dedup)` -/
def pathsOf (keys : List (List Nat)) (frombit h : Nat) (dedup : Bool) : List Nat :=
  pathsOfGo frombit h dedup keys none

end Low
