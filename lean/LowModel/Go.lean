/-
  Go integer semantics used by the model.

  uint64/uint32/uint8 values are `Nat` with explicit truncation exactly where Go truncates.
  int/int32/int64 values are `Int`; `wrap32`/`wrap64` are the two's-complement conversions.
  A Go panic (index out of range, negative make, explicit panic) is `none` of `Option`.
-/
namespace Low

abbrev M64 : Nat := 18446744073709551616   -- 2^64
abbrev M32 : Nat := 4294967296             -- 2^32

/-- uint64 conversion of an integer -/
def u64 (x : Int) : Nat := (x % (M64 : Int)).toNat
/-- uint32 conversion of an integer -/
def u32 (x : Int) : Nat := (x % (M32 : Int)).toNat

/-- int64 conversion (two's complement wrap) -/
def wrap64 (x : Int) : Int :=
  let r := x % (M64 : Int)
  if r < 9223372036854775808 then r else r - (M64 : Int)

/-- int32 conversion (two's complement wrap) -/
def wrap32 (x : Int) : Int :=
  let r := x % (M32 : Int)
  if r < 2147483648 then r else r - (M32 : Int)

/-- Go `x << s` on uint64 (`s` unsigned): truncates, gives 0 for `s ≥ 64`. -/
def shl64 (x s : Nat) : Nat := if s < 64 then (x <<< s) % M64 else 0
/-- Go `x >> s` on uint64: gives 0 for `s ≥ 64` (automatic for `x < 2^64`). -/
def shr64 (x s : Nat) : Nat := if s < 64 then x >>> s else 0
/-- Go `^x` on uint64 -/
def not64 (x : Nat) : Nat := (M64 - 1) ^^^ x
/-- Go `x - y` on uint64 -/
def sub64 (x y : Nat) : Nat := (x + (M64 - y % M64)) % M64
/-- Go `x + y` on uint64 -/
def add64 (x y : Nat) : Nat := (x + y) % M64

end Low
