import LowModel.Go
/-
  `math/bits` by mathematical definition, and the mask tables of bitmap/mask.go as functions.
-/
namespace Low

/-- number of set bits among the low `n` bits of `w` (`bits.OnesCountN` for `w < 2^n`) -/
def popc (w : Nat) : Nat → Nat
  | 0 => 0
  | n+1 => popc w n + (w.testBit n).toNat

/-- trailing zeros of `w` capped at `n` (`bits.TrailingZerosN`: `n` when `w = 0`) -/
def tz (w : Nat) : Nat → Nat
  | 0 => 0
  | n+1 => if w.testBit 0 then 0 else 1 + tz (w >>> 1) n

/-- position of the highest set bit among the low `n` bits, plus one (0 when none) -/
def bitLen (w : Nat) : Nat → Nat
  | 0 => 0
  | n+1 => if w.testBit n then n+1 else bitLen w n

/-- `bits.LeadingZerosN` for `w < 2^n` -/
def lz (w n : Nat) : Nat := n - bitLen w n

/-- `bitmap.Mask[j]` -/
def mask (j : Nat) : Nat := 2^j - 1
/-- `bitmap.RMask[j] = ^Mask[j]` -/
def rmask (j : Nat) : Nat := not64 (mask j)
/-- `bitmap.MaskUpto[j]` -/
def maskUpto (j : Nat) : Nat := 2^(j+1) - 1
/-- `bitmap.RMaskUpto[j]` -/
def rmaskUpto (j : Nat) : Nat := not64 (maskUpto j)
/-- `bitmap.Bit[j]` -/
def bit (j : Nat) : Nat := 2^j
/-- `bitmap.RBit[j]` -/
def rbit (j : Nat) : Nat := not64 (bit j)

end Low
