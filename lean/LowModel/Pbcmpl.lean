import LowModel.Go
/- pbcmpl/pbcmpl.go, header.go. The protobuf encoding of the message is a parameter (`body`). -/
namespace Low

inductive PbErr where
  | eof | unexpectedEOF | invalidHeaderSize | invalidBodySize | injected | proto
deriving Repr, DecidableEq

/-- 8 little-endian bytes of a uint64 -/
def le64 (x : Nat) : List Nat := (List.range 8).map fun j => (x >>> (8 * j)) % 256
/-- value of little-endian bytes -/
def unle : List Nat → Nat
  | [] => 0
  | b :: r => b + 256 * unle r

/-- `newHeader(ver, bodysize)` marshalled; `none` = panic("version length overflow") -/
def pbHeader (ver : List Nat) (bodySize : Nat) : Option (List Nat) :=
  if ver.length > 16 then none else
  some (ver ++ List.replicate (16 - ver.length) 0 ++ le64 32 ++ le64 bodySize)

/-- `verStr(buf)`: strip trailing NUL bytes -/
def verStr (buf : List Nat) : List Nat := (buf.reverse.dropWhile (· = 0)).reverse

/-- the frame `Marshal` emits -/
def pbFrame (ver body : List Nat) : Option (List Nat) :=
  match pbHeader ver body.length with
  | none => none
  | some h => some (h ++ body)

/-- a writer with `cap` bytes of room left (`io.Writer` contract: n < len ⇒ err ≠ nil).
    `allOrNothing = false`: a write that does not fit is accepted partially, then fails;
    `allOrNothing = true`: a write that does not fit is rejected whole. -/
def wWrite (allOrNothing : Bool) (cap : Nat) (p : List Nat) : Nat × Bool :=
  if p.length ≤ cap then (p.length, false)
  else if allOrNothing then (0, true) else (cap, true)

/-- `Marshal(w, msg)`: returns (count, failed, bytes emitted) -/
def pbMarshal (allOrNothing : Bool) (cap : Nat) (ver body : List Nat) : Option (Nat × Bool × List Nat) :=
  match pbHeader ver body.length with
  | none => none
  | some h =>
    let (n, e) := wWrite allOrNothing cap h
    if e then some (n, true, h.take n) else
    let (n2, e2) := wWrite allOrNothing (cap - n) body
    some (n + n2, e2, h ++ body.take n2)

/-- the answer of an arbitrary `io.Writer` to one `Write(p)`: it takes `min accept |p|` bytes and reports an
    error when told to or when it took fewer (the io.Writer contract); `(|p|, err)` is a legal answer -/
structure WAns where
  accept : Nat
  fail : Bool
deriving Repr, DecidableEq

/-- `Marshal(w, msg)` against a writer scripted call by call (`a1` answers the header write, `a2` the body
    write): returns (count, failed, bytes the writer took) -/
def pbMarshalScript (a1 a2 : WAns) (ver body : List Nat) : Option (Nat × Bool × List Nat) :=
  match pbHeader ver body.length with
  | none => none
  | some h =>
    let n := min a1.accept h.length
    if a1.fail || decide (n < h.length) then some (n, true, h.take n) else
    let n2 := min a2.accept body.length
    some (n + n2, a2.fail || decide (n2 < body.length), h ++ body.take n2)

/-- a reader: the bytes it will deliver, then `endErr` (`eof` or an injected error) -/
structure PbReader where
  avail : List Nat
  endErr : PbErr
deriving Repr, DecidableEq

/-- `io.ReadFull(r, buf)` with `len buf = n`: (bytes read, error?, rest of reader) -/
def readFull (r : PbReader) (n : Nat) : List Nat × Option PbErr × PbReader :=
  if n = 0 then ([], none, r) else
  if r.avail.length ≥ n then (r.avail.take n, none, { r with avail := r.avail.drop n })
  else
    let got := r.avail
    let err := if r.endErr = .eof then (if got.length = 0 then PbErr.eof else PbErr.unexpectedEOF) else r.endErr
    (got, some err, { r with avail := [] })

structure PbHeaderInfo where
  ver : List Nat
  headerSize : Int
  bodySize : Int
deriving Repr, DecidableEq

/-- `ReadHeader(r)` -/
def pbReadHeader (r : PbReader) : Nat × Option PbHeaderInfo × Option PbErr × PbReader :=
  let (b, err, r') := readFull r 32
  match err with
  | some e => (b.length, none, some e, r')
  | none =>
    (b.length, some ⟨verStr (b.take 16), wrap64 (unle ((b.drop 16).take 8)), wrap64 (unle ((b.drop 24).take 8))⟩, none, r')

structure PbResult where
  n : Nat
  ver : List Nat
  body : Option (List Nat)     -- bytes handed to proto.Unmarshal on success
  err : Option PbErr
  rest : PbReader
deriving Repr, DecidableEq

/-- `Unmarshal(r, msg)` as repaired: negative body size rejected, body read incrementally -/
def pbUnmarshal (r : PbReader) : PbResult :=
  match pbReadHeader r with
  | (n, _, some e, r') => ⟨n, [], none, some e, r'⟩
  | (n, none, none, r') => ⟨n, [], none, some .proto, r'⟩   -- unreachable
  | (n, some hi, none, r') =>
    if hi.headerSize ≠ 32 then ⟨n, hi.ver, none, some .invalidHeaderSize, r'⟩ else
    if hi.bodySize < 0 then ⟨n, hi.ver, none, some .invalidBodySize, r'⟩ else
    let (b, err, r'') := readFull r' hi.bodySize.toNat
    match err with
    | some e => ⟨n + b.length, hi.ver, none, some e, r''⟩
    | none => ⟨n + b.length, hi.ver, some b, none, r''⟩

end Low
