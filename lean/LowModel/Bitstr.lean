import LowModel.Bytes
/- bitstr/bitstr.go -/
namespace Low

/-- `New(s, fromBit, toBit)`; `none` = slice bounds panic. For `0 ≤ fromBit ≤ toBit`. -/
def bsNew (s : List Nat) (fromBit toBit : Nat) : Option (List Nat) :=
  if fromBit = toBit ∧ fromBit % 8 = 0 then some [0xff] else
  let fromByte := fromBit / 8
  let toByte := (toBit + 7) / 8
  if toByte > s.length ∨ fromByte > toByte then none else
  let l := toByte - fromByte
  if l = 0 then none else
  let payload := (s.drop fromByte).take l
  let m := rmask ((8 - toBit % 8) % 8) % 256       -- byte(RMask[(8-toBit)&7])
  let lastB := payload.getD (l - 1) 0 &&& m
  some (payload.take (l - 1) ++ [lastB, m])

/-- `Cmp(a, b)`; `none` = slicing an empty encoding -/
def bsCmp (a b : List Nat) : Option Int :=
  if a.length = b.length then some (bytesCompare a b)
  else if a.length = 0 ∨ b.length = 0 then none
  else some (bytesCompare (a.take (a.length - 1)) (b.take (b.length - 1)))

/-- the `la < 8` loop of `cmpBytes`; `none` = `b[i]` out of range -/
def cmpBytesShort : List Nat → List Nat → Option Int
  | [], [] => some 0
  | [], _ :: _ => some (-1)
  | _ :: _, [] => none
  | a :: as, b :: bs => if a < b then some (-1) else if a > b then some 1 else cmpBytesShort as bs

def cmpBytes (a b : List Nat) : Option Int :=
  if a.length < 8 then cmpBytesShort a b else some (bytesCompare a b)

/-- `CmpUpto(a, b)` -/
def bsCmpUpto (a b : List Nat) : Option Int :=
  let la := a.length
  let lb := b.length
  if lb = 1 then some 0 else
  if lb = 0 then (if la < lb - 1 then none else none) else   -- b[:lb-1] with lb = 0 panics
  if la < lb - 1 then cmpBytes a (b.take (lb - 1)) else
  let la := lb - 1
  match cmpBytes (a.take (lb - 2)) (b.take (lb - 2)) with
  | none => none
  | some rst =>
    if rst ≠ 0 then some rst else
    match a[la - 1]?, b[lb - 1]?, b[la - 1]? with
    | some x, some m, some y =>
        let bytea := x &&& m
        if bytea > y then some 1 else if bytea < y then some (-1) else some 0
    | _, _, _ => none

/-- `StrCmpUpto(a, b)`: the same function of the bytes -/
def bsStrCmpUpto (a b : List Nat) : Option Int := bsCmpUpto a b

/-- `Len(bs)` -/
def bsLen (bs : List Nat) : Option Int :=
  match bs.getLast? with
  | none => none
  | some m => some ((bs.length : Int) * 8 - 16 + (popc m 8 : Int))

/-- SPEC: the bit string `s[8*floor(from/8), to)` -/
def bsPayload (s : List Nat) (fromBit toBit : Nat) : List Bool :=
  ((bitsBE s).drop (8 * (fromBit / 8))).take (toBit - 8 * (fromBit / 8))

end Low
