import LowModel.GoSem
import LowModel.GoSem2
import LowModel.GoSem3
/-
  Additional vocabulary of the definitions that `tools/ssa2lean5` generates (`Generated/Ssa5/*.lean`): package pbcmpl,
  whose functions are a CONTROL SKELETON around calls that leave the package (protobuf, `io`, `bytes.Buffer`,
  `github.com/openacid/errors`).  TRUSTED, like `GoSem.lean` .. `GoSem3.lean`: every definition here is part of the meaning
  of the generated definitions.  It contains NO behaviour of any external function: an external call is translated into
  the application of a field of the oracle record `Ext σ` to the current WORLD `wd : σ` and the call's arguments; it
  yields the call's results and the next world (state passing: the externals are executed in program order, each sees
  the world its predecessor left).  `σ` is abstract in the generated definitions.  What an external does (the contracts
  of DESIGN.md section 6 item 4) is stated where the oracles are INSTANTIATED: `LowProofs/Tie5/Oracles.lean`, not here.

  Representation of the Go values that occur in these functions:
  * `error`  ↦ `Err` (below): error VALUES up to what the code can observe with `==` / `!= nil`.
  * a caller's object behind an interface (`io.Reader`, `io.Writer`, `proto.Message`, `VersionedMessage`) ↦ `Obj`, an
    opaque handle; all of its state lives in the world.  Handles are assumed non-nil (what the externals do with a nil
    interface is the externals' business; the package itself never dereferences them).
  * a pointer to a struct of the package (`*header`, `*headerInfo`) ↦ the tuple of the struct's fields (`[16]byte` ↦ a
    `List Nat`, which a tie assumes to have length 16); a one-field struct ↦ the field.  Pointer identity is not
    represented: the translator refuses pointer comparisons, refuses stores through a pointer the function did not
    allocate itself, and lets a struct the function allocated itself be written only before it is handed on.  Pointers
    received as parameters / read from fields are assumed non-nil (`headerInfo` and `header` are unexported and only
    built by `ReadHeader` / `newHeader`, which use `new`).
  * a value of a package interface with ONE implementing type in the whole program (`Header`, implemented by
    `*headerInfo` only — checked by the translator) ↦ `Option` of that type's representation, `none` = nil interface;
    a method call through it is the call of the implementation's generated definition, a panic (`none`) on nil.
  * `&bytes.Buffer{}` that never leaves the function except as the destination of `io.CopyN` ↦ the `List Nat` of its
    unread bytes, initially `[]`; `.Bytes()` is that list.
-/
namespace Low.GoSem5

/-- Go `error` values, as far as the translated code can tell them apart (`==`, `!= nil`).
    `var "io.EOF"` is the value the package-level variable `io.EOF` holds: the translator emits it for a load `*io.EOF`
    after checking that the variable is assigned exactly once in the whole program, by its package initialiser, with the
    result of a call of `errors.New` (distinct, non-nil, comparable pointer per call — so different variables hold different
    values and `==` cannot panic).  `other`/`wrapped` are never produced by generated code: they are values an oracle may
    answer with (`other i`: some further non-nil error; `wrapped e i`: a non-nil error value different from `e` whose cause is
    `e`, what `errors.WithStack(e)` returns). -/
inductive Err where
  | nil
  | var (name : String)
  | other (id : Nat)
  | wrapped (cause : Err) (id : Nat)
deriving DecidableEq, Repr

/-- handle of an object the caller handed in through an interface -/
structure Obj where
  id : Nat
deriving DecidableEq, Repr

/-- representation of a `*pbcmpl.header`: (Version [16]byte, HeaderSize uint64, BodySize uint64) -/
abbrev Header := List Nat × Nat × Nat

/-- The external calls of package pbcmpl.  Every field: current world → arguments → (results, next world).
    For a call that writes through an argument the NEW contents of that argument come first in the result. -/
structure Ext (σ : Type) where
  /-- `proto.Marshal(msg)`, `msg` a caller's message -/
  protoMarshal : σ → Obj → (List Nat × Err) × σ
  /-- `proto.Marshal(h)`, `h` a `*header` of this package -/
  protoMarshalHeader : σ → Header → (List Nat × Err) × σ
  /-- `proto.Unmarshal(b, msg)`, `msg` a caller's message (its new contents are in the world) -/
  protoUnmarshal : σ → List Nat → Obj → Err × σ
  /-- `proto.Unmarshal(b, h)`, `h` a `*header` the function allocated: (new contents of `*h`, error) -/
  protoUnmarshalHeader : σ → List Nat → Header → (Header × Err) × σ
  /-- `proto.Size(msg)` -/
  protoSize : σ → Obj → Int × σ
  /-- `io.ReadFull(r, buf)`: (new contents of `buf`, (n, err)) -/
  ioReadFull : σ → Obj → List Nat → (List Nat × (Int × Err)) × σ
  /-- `io.CopyN(b, r, n)` with `b` a `*bytes.Buffer` of the function: (new contents of `b`, (written, err)) -/
  ioCopyNBuffer : σ → List Nat → Obj → Int → (List Nat × (Int × Err)) × σ
  /-- `w.Write(p)` on a caller's `io.Writer` -/
  write : σ → Obj → List Nat → (Int × Err) × σ
  /-- `errors.WithStack(err)` of github.com/openacid/errors -/
  withStack : σ → Err → Err × σ
  /-- the dynamic type of `msg` implements `VersionedMessage` (`msg.(VersionedMessage)` with comma-ok: no effect) -/
  isVersioned : σ → Obj → Bool
  /-- `vmsg.GetVersion()` on a caller's `VersionedMessage` -/
  getVersion : σ → Obj → List Nat × σ

end Low.GoSem5
