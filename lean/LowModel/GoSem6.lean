import LowModel.GoSem
/-
  GoSem6 -- vocabulary of generation 6 (tools/ssa2lean6): the part of package `reflect` that size/sizeof.go calls,
  over an ABSTRACT VALUE TREE.  TRUSTED (like GoSem, GoSem2, GoSem3): every definition below stands for the Go
  operation named in its docstring.  64-bit platform (`int`, `uint`, `uintptr`, pointers: 8 bytes).

  A Go value is abstracted to its tree of kinds and lengths (`RVal`): no numbers, no addresses, no types beyond the
  kind.  Consequences, all in the safe direction (a tie proves `generated = some …`, so it can only be proved where the
  operation's result is given here):
  * `none` = the Go operation PANICS, **or** its result is not determined by the tree (e.g. `Len` of a channel,
    `Type().Size()` of a struct: padding).  Code that reaches such a call evaluates to `none` = "panic / unknown".
  * Trees are finite and acyclic; a pointer that occurs twice is two sub-trees (that is what `sizeof`, which keeps no
    memo, sees as well).
  * A map node lists its entries IN THE ORDER IN WHICH THIS RUN'S ITERATION (`MapRange`) VISITS THEM (Go's order is
    unspecified; the tree is the abstraction of one run).
  * `MapKeys` / `MapIndex` are deliberately NOT in the vocabulary: `MapIndex(v, k)` needs key equality, which the tree
    does not determine (a NaN key is not equal to itself: `MapIndex` returns the zero Value for it — the defect of
    `sizeof` before "fix: size.Of counts the values of NaN-keyed maps").  The translator refuses them.
-/
namespace Low.GoSem6

/-- the scalar kinds of `reflect.Kind` (the ones `sizeof` measures with `Type().Size()`) -/
inductive Scalar where
  | bool | int | int8 | int16 | int32 | int64 | uint | uint8 | uint16 | uint32 | uint64 | uintptr
  | float32 | float64 | complex64 | complex128
deriving DecidableEq, Repr

/-- Go's numeric value of the `reflect.Kind` constant (reflect/type.go: `Bool = 1 … Complex128 = 16`);
    the translator checks these numbers against the constants of the `reflect` package it loaded -/
def Scalar.kind : Scalar → Nat
  | .bool => 1 | .int => 2 | .int8 => 3 | .int16 => 4 | .int32 => 5 | .int64 => 6
  | .uint => 7 | .uint8 => 8 | .uint16 => 9 | .uint32 => 10 | .uint64 => 11 | .uintptr => 12
  | .float32 => 13 | .float64 => 14 | .complex64 => 15 | .complex128 => 16

/-- `Type().Size()` of a scalar on a 64-bit platform -/
def Scalar.size : Scalar → Nat
  | .bool => 1 | .int => 8 | .int8 => 1 | .int16 => 2 | .int32 => 4 | .int64 => 8
  | .uint => 8 | .uint8 => 1 | .uint16 => 2 | .uint32 => 4 | .uint64 => 8 | .uintptr => 8
  | .float32 => 4 | .float64 => 8 | .complex64 => 8 | .complex128 => 16

/-- kinds whose contents the tree does not describe: `Chan = 18`, `Func = 19`, `UnsafePointer = 26` -/
inductive Opaque where
  | chan | func | unsafePointer
deriving DecidableEq, Repr

def Opaque.kind : Opaque → Nat
  | .chan => 18 | .func => 19 | .unsafePointer => 26

/-- the tree of a Go value: kinds and lengths only -/
inductive RVal where
  | scalar (k : Scalar)
  | str (len : Nat)                      -- a string of `len` bytes
  | arr (elems : List RVal)
  | slice (elems : List RVal)            -- a nil slice has no elements
  | map (entries : List (RVal × RVal))   -- in iteration order; a nil map has no entries
  | ptr (pointee : Option RVal)          -- `none`: nil pointer
  | iface (dyn : Option RVal)            -- a value of interface TYPE (field, element, key, pointee): `none` = nil
  | struct (fields : List RVal)
  | opaque (k : Opaque)
deriving Repr

/-- `Kind()` of a valid Value: `Array = 17`, `Interface = 20`, `Map = 21`, `Pointer = 22`, `Slice = 23`,
    `String = 24`, `Struct = 25` -/
def RVal.kind : RVal → Nat
  | .scalar k => k.kind
  | .str _ => 24
  | .arr _ => 17
  | .slice _ => 23
  | .map _ => 21
  | .ptr _ => 22
  | .iface _ => 20
  | .struct _ => 25
  | .opaque k => k.kind

/-- `reflect.Value`: `none` is the zero Value (`IsValid() = false`) -/
abbrev Value := Option RVal

/-- an `interface{}` argument: `none` is the nil interface, `some t` holds a value with tree `t` -/
abbrev Iface := Option RVal

/-- `data == nil` for `data interface{}` -/
def ifaceIsNil (d : Iface) : Bool := d.isNone

/-- `reflect.ValueOf(data)`: the zero Value for a nil interface, else the Value of the dynamic value -/
def valueOf (d : Iface) : Value := d

/-- `v.IsValid()` -/
def isValid (v : Value) : Bool := v.isSome

/-- `v.Kind()`; `Invalid = 0` for the zero Value (does not panic) -/
def kind (v : Value) : Nat :=
  match v with
  | none => 0
  | some t => t.kind

/-- `v.Len()`: array, slice, string, map; (a channel: not determined;) every other kind panics -/
def len (v : Value) : Option Int :=
  match v with
  | some (.str n) => some (n : Int)
  | some (.arr es) => some (es.length : Int)
  | some (.slice es) => some (es.length : Int)
  | some (.map ps) => some (ps.length : Int)
  | _ => none

/-- `v.Index(i)`: array, slice (panics when out of range); a string gives a `uint8` Value; other kinds panic -/
def index (v : Value) (i : Int) : Option Value :=
  match v with
  | some (.str n) => if 0 ≤ i ∧ i < (n : Int) then some (some (.scalar .uint8)) else none
  | some (.arr es) => (GoSem.index es i).map some
  | some (.slice es) => (GoSem.index es i).map some
  | _ => none

/-- `v.Elem()`: the pointee of a pointer / the dynamic value of an interface, the zero Value when nil;
    other kinds panic -/
def elem (v : Value) : Option Value :=
  match v with
  | some (.ptr p) => some p
  | some (.iface d) => some d
  | _ => none

/-- `v.NumField()`: panics unless `v` is a struct -/
def numField (v : Value) : Option Int :=
  match v with
  | some (.struct fs) => some (fs.length : Int)
  | _ => none

/-- `v.Field(i)`: panics unless `v` is a struct and `0 ≤ i < NumField()` -/
def field (v : Value) (i : Int) : Option Value :=
  match v with
  | some (.struct fs) => (GoSem.index fs i).map some
  | _ => none

/-- `reflect.Type`, as far as it is used: the type of the value at a tree node -/
structure RType where
  node : RVal

/-- `v.Type()`: panics on the zero Value -/
def typeOf (v : Value) : Option RType := v.map RType.mk

/-- `t.Size()` (a `uintptr`): scalars by width, headers of string / slice / map / pointer / interface / chan / func /
    unsafe.Pointer; the size of an array or struct type is not determined by the tree -/
def RType.size (t : RType) : Option Nat :=
  match t.node with
  | .scalar k => some k.size
  | .str _ => some 16
  | .slice _ => some 24
  | .map _ => some 8
  | .ptr _ => some 8
  | .iface _ => some 16
  | .opaque _ => some 8
  | .arr _ => none
  | .struct _ => none

/-- the result of `v.Pointer()` (a `uintptr`) and of its conversions to `unsafe.Pointer` and `*T`: only whether it
    is nil is known; the translator admits only the conversions and the comparison with `nil` on it -/
inductive Addr where
  | null | nonNull
deriving DecidableEq, Repr

/-- `v.Pointer()` of a pointer; for the other kinds it is defined for (chan, func, map, slice, unsafe.Pointer) the tree
    does not say whether it is nil; every other kind panics -/
def pointer (v : Value) : Option Addr :=
  match v with
  | some (.ptr none) => some .null
  | some (.ptr (some _)) => some .nonNull
  | _ => none

/-- `p == nil` -/
def Addr.isNil : Addr → Bool
  | .null => true
  | .nonNull => false

/-- the state of a `*reflect.MapIter` -/
structure MapIter where
  cur : Option (RVal × RVal)     -- the entry the iterator stands on
  rest : List (RVal × RVal)      -- the entries not visited yet
  started : Bool                 -- `Next` has been called
deriving Repr

/-- placeholder for "no iterator created yet" (never read: every use is dominated by its `MapRange`) -/
def MapIter.unset : MapIter := ⟨none, [], false⟩

/-- `v.MapRange()`: panics unless `v` is a map -/
def mapRange (v : Value) : Option MapIter :=
  match v with
  | some (.map ps) => some ⟨none, ps, false⟩
  | _ => none

/-- `iter.Next()`: the result and the new state; panics when called again after it returned false -/
def MapIter.next (it : MapIter) : Option (Bool × MapIter) :=
  if it.started && it.cur.isNone then none
  else match it.rest with
    | [] => some (false, ⟨none, [], true⟩)
    | p :: r => some (true, ⟨some p, r, true⟩)

/-- `iter.Key()`: panics before the first `Next` and on an exhausted iterator -/
def MapIter.key (it : MapIter) : Option Value := it.cur.map (fun p => some p.1)

/-- `iter.Value()`: likewise -/
def MapIter.value (it : MapIter) : Option Value := it.cur.map (fun p => some p.2)

end Low.GoSem6
