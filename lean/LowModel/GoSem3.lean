import LowModel.GoSem2
/-
  Additional vocabulary of the definitions that `tools/ssa2lean3` generates (`Generated/Ssa3/*.lean`):
  functions that ALLOCATE AND WRITE SLICES, nested loops, methods that update a slice held by their receiver.
  TRUSTED, like `GoSem.lean` / `GoSem2.lean`: every definition here is part of the meaning of the generated
  definitions.

  Memory model.  A slice (or array) that the function allocates ITSELF is a functional value: the `List` of the
  `len` elements of its current view.  The translator groups the allocated values into classes (values that may
  share memory: related by append, slicing, phi) and threads one list per class through the code; it refuses the
  function unless every use of an allocated value is a use of the CURRENT view of its class (the value last produced
  by make / append / slicing / phi on the path), so at any time at most one usable view of a piece of memory exists.
  Under that discipline
    * an indexed store `s[i] = v` is the functional update `setIdx`,
    * `append(s, ys...)` is `s ++ ys` whether or not Go re-allocates (the elements beyond `len s` of the old array,
      which an in-place append overwrites, cannot be observed through any live view),
    * `copy(dst, src)` is the bounded prefix overwrite `copyInto`,
    * `make([]T, n)` is `n` zero values (Go zero-initialises),
    * `s[:0:0]` is a fresh empty slice (capacity 0: it reaches no memory), so `append(s[:0:0], s...)` is a copy.
  Slices the function did not allocate (parameters, call results, receiver fields that are only read) remain
  immutable values; a store/append/copy into them makes the translator refuse the function.
  ASSUMED of Go: the semantics of make/append/copy just described; an allocation of any non-negative length
  succeeds (running out of memory is not modelled); capacities are not modelled (`cap` is refused, re-slicing an
  allocated slice beyond its length is refused).
-/
namespace Low.GoSem3
open Low

/-- `make([]T, n)` (length = capacity = `n`): `n` zero values; a negative length panics. -/
def makeSlice {α : Type} (zero : α) (n : Int) : Option (List α) :=
  if n < 0 then none else some (List.replicate n.toNat zero)

/-- `make([]T, n, c)`: panics unless `0 ≤ n ≤ c`. -/
def makeSliceCap {α : Type} (zero : α) (n c : Int) : Option (List α) :=
  if 0 ≤ n ∧ n ≤ c then some (List.replicate n.toNat zero) else none

/-- `new([n]T)`: an array of `n` zero values (make with constant size, slice literals, variadic arguments). -/
def newArray {α : Type} (zero : α) (n : Nat) : List α := List.replicate n zero

/-- `xs[i] = v` with Go's bounds check; `none` = index out of range. -/
def setIdx {α : Type} (xs : List α) (i : Int) (v : α) : Option (List α) :=
  if 0 ≤ i ∧ i < (xs.length : Int) then some (xs.set i.toNat v) else none

/-- the result of `copy(dst, src)`: the number of elements copied -/
def copyLen {α : Type} (dst src : List α) : Int := ((min dst.length src.length : Nat) : Int)

/-- the contents of `dst` after `copy(dst, src)`: the first `min (len dst) (len src)` elements are overwritten -/
def copyInto {α : Type} (dst src : List α) : List α := src.take dst.length ++ dst.drop src.length

/-- `x / y` on int / int64: truncated division; division by zero panics; `MinInt64 / -1` wraps. -/
def quoI64 (x y : Int) : Option Int := if y = 0 then none else some (wrap64 (Int.tdiv x y))

/-- `x % y` on int / int64: the remainder of the truncated division; division by zero panics. -/
def remI64 (x y : Int) : Option Int := if y = 0 then none else some (wrap64 (Int.tmod x y))

end Low.GoSem3
