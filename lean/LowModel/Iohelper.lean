import LowModel.Go
/- iohelper/iohelper.go: SectionWriter as a state machine over an environment-controlled io.WriterAt -/
namespace Low

inductive IoErr where
  | shortWrite | whence | offset | underlying
deriving Repr, DecidableEq

structure SectionWriter where
  base : Int
  off : Int
  limit : Int
deriving Repr, DecidableEq

/-- `NewSectionWriter(w, off, n)` -/
def newSectionWriter (off n : Int) : SectionWriter := ⟨off, off, wrap64 (off + n)⟩

def maxOffset : Int := 0x7fffffffffffffff

/-- `AtToWriter(w, offset)` -/
def atToWriter (offset : Int) : SectionWriter := newSectionWriter offset (wrap64 (maxOffset - offset))

/-- a call made on the underlying `io.WriterAt`: `(offset, number of bytes handed over)`;
    the bytes are always the first `len` bytes of the caller's buffer -/
structure UCall where
  off : Int
  len : Nat
deriving Repr, DecidableEq

/-- the environment's answer to an underlying `WriteAt(p, off)`: bytes accepted (≤ len p) and whether it failed -/
structure UAns where
  accept : Nat
  fail : Bool
deriving Repr, DecidableEq

/-- what the scripted underlying writer returns for a buffer of `len` bytes: it accepts
    `min accept len` bytes and reports an error when told to or when it accepted fewer (io.WriterAt contract) -/
def UAns.apply (a : UAns) (len : Nat) : Nat × Bool := (min a.accept len, a.fail || decide (a.accept < len))

structure Ret where
  n : Int
  err : Option IoErr
deriving Repr, DecidableEq

/-- `Write(p)` with `len p = plen`; `ans` is used only if the underlying writer is called -/
def SectionWriter.write (s : SectionWriter) (plen : Nat) (ans : UAns) : SectionWriter × Ret × Option UCall :=
  if s.off ≥ s.limit then (s, ⟨0, some .shortWrite⟩, none) else
  let mx := wrap64 (s.limit - s.off)
  let (plen', err) := if (plen : Int) > mx then (mx.toNat, some IoErr.shortWrite) else (plen, none)
  let (n, failed) := ans.apply plen'
  let s' := { s with off := wrap64 (s.off + n) }
  (s', ⟨n, if failed then some .underlying else err⟩, some ⟨s.off, plen'⟩)

/-- `Seek(offset, whence)` -/
def SectionWriter.seek (s : SectionWriter) (offset : Int) (whence : Int) : SectionWriter × Ret :=
  let o : Option Int :=
    if whence = 0 then some (wrap64 (offset + s.base))
    else if whence = 1 then some (wrap64 (offset + s.off))
    else if whence = 2 then some (wrap64 (offset + s.limit))
    else none
  match o with
  | none => (s, ⟨0, some .whence⟩)
  | some o =>
    if o < s.base then (s, ⟨0, some .offset⟩)
    else ({ s with off := o }, ⟨wrap64 (o - s.base), none⟩)

/-- `WriteAt(p, off)` -/
def SectionWriter.writeAt (s : SectionWriter) (plen : Nat) (off : Int) (ans : UAns) : Ret × Option UCall :=
  if off < 0 ∨ off ≥ wrap64 (s.limit - s.base) then (⟨0, some .shortWrite⟩, none) else
  let off := wrap64 (off + s.base)
  let mx := wrap64 (s.limit - off)
  if (plen : Int) > mx then
    let plen' := mx.toNat
    let (n, failed) := ans.apply plen'
    (⟨n, if failed then some .underlying else some .shortWrite⟩, some ⟨off, plen'⟩)
  else
    let (n, failed) := ans.apply plen
    (⟨n, if failed then some .underlying else none⟩, some ⟨off, plen⟩)

/-- `Size()` -/
def SectionWriter.size (s : SectionWriter) : Int := wrap64 (s.limit - s.base)

inductive SwCall where
  | write (plen : Nat) (ans : UAns)
  | writeAt (plen : Nat) (off : Int) (ans : UAns)
  | seek (offset : Int) (whence : Int)
  | size
deriving Repr, DecidableEq

def SectionWriter.step (s : SectionWriter) : SwCall → SectionWriter × Ret × Option UCall
  | .write plen ans => s.write plen ans
  | .writeAt plen off ans => let (r, u) := s.writeAt plen off ans; (s, r, u)
  | .seek offset whence => let (s', r) := s.seek offset whence; (s', r, none)
  | .size => (s, ⟨s.size, none⟩, none)

end Low
