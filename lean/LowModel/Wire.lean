/-
  Line protocol helpers shared by the driver: parsing and printing of the canonical token formats.
    int        decimal, optional '-'
    int list   a,b,c      ("-" = empty)
    bytes      x<hex>     ("x" = empty)
    bytes list x..,x..    ("-" = empty)
    nested     inner lists separated by ';' ("_" = no inner list, inner "-" = empty)
-/
namespace Low.Wire

def splitNE (s : String) (sep : String) : List String :=
  if s.isEmpty || s = "-" then [] else s.splitOn sep

def pNat (s : String) : Option Nat := s.toNat?
def pInt (s : String) : Option Int := s.toInt?

def pNatList (s : String) : Option (List Nat) :=
  if s = "-" then some [] else (s.splitOn ",").mapM pNat
def pIntList (s : String) : Option (List Int) :=
  if s = "-" then some [] else (s.splitOn ",").mapM pInt

def hexVal (c : Char) : Option Nat :=
  if '0' ≤ c ∧ c ≤ '9' then some (c.toNat - '0'.toNat)
  else if 'a' ≤ c ∧ c ≤ 'f' then some (c.toNat - 'a'.toNat + 10)
  else none

def pHexChars : List Char → Option (List Nat)
  | [] => some []
  | [_] => none
  | a :: b :: r => do
      let x ← hexVal a; let y ← hexVal b; let t ← pHexChars r
      some ((x * 16 + y) :: t)

/-- one segment: `x<hex>` or `R<n>*<hh>` (n copies of the byte hh) -/
def pBytesSeg (s : String) : Option (List Nat) :=
  match s.toList with
  | 'x' :: r => pHexChars r
  | 'R' :: r =>
    match (String.ofList r).splitOn "*" with
    | [n, hh] => do
      let n ← n.toNat?
      let b ← pHexChars hh.toList
      match b with
      | [v] => some (List.replicate n v)
      | _ => none
    | _ => none
  | _ => none

/-- a byte string: segments joined by '+' (so that megabyte inputs stay short on the wire) -/
def pBytes (s : String) : Option (List Nat) :=
  ((s.splitOn "+").mapM pBytesSeg).map List.flatten

def pBytesList (s : String) : Option (List (List Nat)) :=
  if s = "-" then some [] else (s.splitOn ",").mapM pBytes

def pNested (s : String) : Option (List (List Int)) :=
  if s = "_" then some [] else (s.splitOn ";").mapM pIntList

def hexDigit (n : Nat) : Char := if n < 10 then Char.ofNat (48 + n) else Char.ofNat (87 + n)

/-- FNV-1a, 64 bit -/
def fnv64 (b : List Nat) : Nat :=
  b.foldl (fun h v => ((h ^^^ v) * 1099511628211) % 18446744073709551616) 14695981039346656037

/-- byte strings longer than 4096 bytes are printed as `X<len>:<fnv64>` by both sides -/
def showBytes (b : List Nat) : String :=
  if b.length > 4096 then s!"X{b.length}:{fnv64 b}"
  else String.ofList ('x' :: b.flatMap fun v => [hexDigit (v / 16 % 16), hexDigit (v % 16)])

def showList {α} (f : α → String) (l : List α) : String :=
  if l.isEmpty then "-" else String.intercalate "," (l.map f)

def showNats (l : List Nat) : String := showList toString l
def showInts (l : List Int) : String := showList toString l

def showOpt {α} (f : α → String) : Option α → String
  | none => "PANIC"
  | some a => f a

end Low.Wire
