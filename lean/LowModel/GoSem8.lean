import LowModel.GoSem
/-
  Additional vocabulary of the definitions that `tools/ssa2lean8` generates (`Generated/Ssa8/*_debug.lean`): the
  `-tags debug` build of package bmtree, in which the contract checks written with `github.com/openacid/must` are
  real code.  TRUSTED, like `GoSem.lean` … `GoSem3.lean`: every definition here is part of the meaning of the
  generated definitions.

  What the Go code does (github.com/openacid/must v0.1.3, `enabled/enabled.go`; testify v1.8.1 `assert`; the
  translator checks the bodies of the wrappers and the two module versions on every run):

      func (be *beTyp) OK(f func())                               { f() }
      func (be *beTyp) True(value bool, msgAndArgs ...interface{})     { t := &tTyp{}; t.chk(assert.True(t, value, msgAndArgs...)) }
      func (be *beTyp) False(value bool, msgAndArgs ...interface{})    { …assert.False… }
      func (be *beTyp) Equal(expected, actual interface{}, msg...)     { …assert.Equal… }
      func (be *beTyp) NotEqual(expected, actual interface{}, msg...)  { …assert.NotEqual… }
      func (t *tTyp) chk(rst bool)                                { if !rst { panic(strings.Join(t.msg, "\n")) } }

  `assert.True(t, v)` returns `v`, `assert.False(t, v)` returns `!v`; `assert.Equal(t, a, b)` returns
  `ObjectsAreEqual(a, b)`, which for two non-nil interface values that are not `[]byte` is `reflect.DeepEqual(a, b)`:
  the dynamic TYPES are identical and (for integers and bools) the values are equal — `Equal(int64(1), int(1))`
  fails; `assert.NotEqual` returns its negation.  A failed check panics: `none`.  The message arguments only
  build the panic message and are not translated (the translator accepts only literal argument lists of integers,
  bools and strings for them: values without methods).  `OK(f)` calls `f`: the translator calls the closure's
  definition; there is no vocabulary for it.
-/
namespace Low.GoSem8

/-- The dynamic value of an `interface{}` made from a value of a PREDECLARED integer type or `bool`
    (`make interface{} <- T (x)`): the constructor is the dynamic type `T` (`int` and `int64`, `uint` and `uint64`
    are different types although they have the same values), the field the value in the representation the
    generated code uses for `T` (signed: `Int` in range; unsigned: `Nat` below `2^width`), in which equal Go
    values have equal representations.  Named types, strings, floats, pointers, nil are refused by the translator. -/
inductive Iface where
  | int (v : Int)
  | int32 (v : Int)
  | int64 (v : Int)
  | uint (v : Nat)
  | uint8 (v : Nat)
  | uint16 (v : Nat)
  | uint32 (v : Nat)
  | uint64 (v : Nat)
  | bool (v : Bool)
  deriving DecidableEq

/-- `must.Be.True(c, msg…)` in the debug build: panics unless `c`. -/
def mustTrue (c : Bool) : Option Unit := if c = true then some () else none

/-- `must.Be.False(c, msg…)` in the debug build: panics if `c`. -/
def mustFalse (c : Bool) : Option Unit := if c = true then none else some ()

/-- `must.Be.Equal(a, b, msg…)` in the debug build: panics unless `a` and `b` have the same dynamic type and value. -/
def mustEqual (a b : Iface) : Option Unit := if a = b then some () else none

/-- `must.Be.NotEqual(a, b, msg…)` in the debug build: panics if `a` and `b` have the same dynamic type and value. -/
def mustNotEqual (a b : Iface) : Option Unit := if a = b then none else some ()

end Low.GoSem8
