import LowModel.Bytes
/- bitword/bitword.go, for widths n ∈ {1,2,4,8} -/
namespace Low

def bwWordMask (n : Nat) : Nat := (2^n - 1) % 256

/-- `FromStr(s)` -/
def bwFromStr (n : Nat) (s : List Nat) : List Nat :=
  let m := 8 / n
  s.flatMap fun b => (List.range m).map fun j => (b >>> (8 - n * j - n)) &&& bwWordMask n

/-- one output byte of `ToStr`: fold `m` words starting at `i*m` -/
def bwPackByte (n : Nat) (bs : List Nat) (i m : Nat) : Nat :=
  (List.range m).foldl (fun b j =>
    match bs[i * m + j]? with
    | some x => ((b <<< n) + x) % 256
    | none => (b <<< n) % 256) 0

/-- `ToStr(bs)` -/
def bwToStr (n : Nat) (bs : List Nat) : List Nat :=
  let m := 8 / n
  let sz := (bs.length + m - 1) / m
  (List.range sz).map fun i => bwPackByte n bs i m

/-- `Get(s, ith)`; `none` = index out of range -/
def bwGet (n : Nat) (s : List Nat) (ith : Nat) : Option Nat :=
  let i := n * ith
  let e := (i + n - 1) % 8
  match s[i / 8]? with
  | none => none
  | some word => some ((word >>> (7 - e)) &&& bwWordMask n)

def bwFirstDiffLoop (n : Nat) (a b : List Nat) (e : Int) : Nat → Int → Option Int
  | 0, i => if i < e then none else some e
  | fuel+1, i =>
      if i < e then
        if i < 0 then none else
        match bwGet n a i.toNat, bwGet n b i.toNat with
        | some x, some y => if x ≠ y then some i else bwFirstDiffLoop n a b e fuel (i + 1)
        | _, _ => none
      else some e

/-- `FirstDiff(a, b, from, end)` -/
def bwFirstDiff (n : Nat) (a b : List Nat) (frm e : Int) : Option Int :=
  let m := 8 / n
  let la : Int := a.length * m
  let lb : Int := b.length * m
  let e := if e = -1 then la else e
  let e := if e > la then la else e
  let e := if e > lb then lb else e
  bwFirstDiffLoop n a b e (e - frm).toNat frm

/-- SPEC: the `i`-th `n`-bit word of the bit string of `s` -/
def bwWordAt (n : Nat) (s : List Nat) (i : Nat) : Nat :=
  bitsVal (((bitsBE s).drop (i * n)).take n)

end Low
