import LowModel.Bits
/- byte strings are `List Nat` with every element `< 256`; `bytes.Compare` and bit views -/
namespace Low

def BytesOK (s : List Nat) : Prop := ∀ b ∈ s, b < 256

/-- sign of an `Ordering` as Go's -1/0/1 -/
def ordInt : Ordering → Int
  | .lt => -1
  | .eq => 0
  | .gt => 1

/-- `bytes.Compare` -/
def bytesCompare : List Nat → List Nat → Int
  | [], [] => 0
  | [], _ :: _ => -1
  | _ :: _, [] => 1
  | a :: as, b :: bs => if a < b then -1 else if a > b then 1 else bytesCompare as bs

/-- SPEC: the 8 bits of a byte, most significant first -/
def byteBits (b : Nat) : List Bool := (List.range 8).map fun j => b.testBit (7 - j)

/-- SPEC: the bits of a byte string, most significant bit of each byte first -/
def bitsBE (s : List Nat) : List Bool := s.flatMap byteBits

/-- SPEC: lexicographic comparison, `false < true`, a proper prefix sorts first -/
def lexCmp : List Bool → List Bool → Int
  | [], [] => 0
  | [], _ :: _ => -1
  | _ :: _, [] => 1
  | a :: as, b :: bs => if a = b then lexCmp as bs else if a = false then -1 else 1

/-- SPEC: length of the longest common prefix -/
def lcp {α} [DecidableEq α] : List α → List α → Nat
  | a :: as, b :: bs => if a = b then 1 + lcp as bs else 0
  | _, _ => 0

/-- big-endian value of a bit list -/
def bitsVal : List Bool → Nat
  | [] => 0
  | b :: r => b.toNat * 2 ^ r.length + bitsVal r

end Low
