import LowModel.Go
import LowModel.Bits
/-
  Vocabulary of the definitions that `tools/ssa2lean` generates from the SSA form of loop-free Go
  functions (`Generated/Ssa/*.lean`).  One small total function per SSA operation, with Go's exact
  semantics on a 64-bit platform (`int` = int64, `uint` = uint64).  TRUSTED: every definition here is
  part of the meaning of the generated definitions; keep it small and obviously right.

  Value representation
    uint8/uint32/uint64/uint   `Nat`, invariant `x < 2^w`   (every operation below returns a value `< 2^w`
                               when its arguments are `< 2^w`)
    int32/int64/int            `Int`, invariant `-2^(w-1) ≤ x < 2^(w-1)`  (kept by `wrap32` / `wrap64`)
    bool                       `Bool`;  comparisons are emitted directly as `decide (x < y)` etc.
                               (on in-range representatives the Go comparison is the mathematical one)
    []uint64 []byte string     `List Nat`      []int32 …  `List Int`      (a Go length always fits an `int`)
    several results            a tuple
    a function that can panic  returns `Option …`, `none` = run-time panic (index out of range)
    shift counts               always of an unsigned Go type, hence `Nat`
-/
namespace Low.GoSem

abbrev M8 : Nat := 256   -- 2^8

/-! ### conversions between integer types
  Go: the result is the source value (sign-extended if the source is signed, zero-extended otherwise)
  truncated to the target width, i.e. the mathematical value reduced modulo `2^w` into the target range.
  The translator passes the source value as an `Int` (an unsigned source `x : Nat` is passed as `(x : Int)`). -/
def toU8  (x : Int) : Nat := (x % (M8 : Int)).toNat
def toU32 (x : Int) : Nat := u32 x
def toU64 (x : Int) : Nat := u64 x
def toI32 (x : Int) : Int := wrap32 x
def toI64 (x : Int) : Int := wrap64 x

/-! ### int32 -/
def addI32 (x y : Int) : Int := wrap32 (x + y)
def subI32 (x y : Int) : Int := wrap32 (x - y)
def mulI32 (x y : Int) : Int := wrap32 (x * y)
def negI32 (x : Int) : Int := wrap32 (-x)
/-- `^x`: two's complement of all bits = `-x - 1` -/
def notI32 (x : Int) : Int := -x - 1
/-- `x & y` on the two's-complement bit patterns -/
def andI32 (x y : Int) : Int := wrap32 ((u32 x &&& u32 y : Nat) : Int)
def orI32  (x y : Int) : Int := wrap32 ((u32 x ||| u32 y : Nat) : Int)
def xorI32 (x y : Int) : Int := wrap32 ((u32 x ^^^ u32 y : Nat) : Int)
/-- `x &^ y` -/
def andNotI32 (x y : Int) : Int := andI32 x (notI32 y)
/-- `x << s`: multiplication by `2^s`, truncated (0 for `s ≥ 32`) -/
def shlI32 (x : Int) (s : Nat) : Int := wrap32 (x * 2 ^ s)
/-- `x >> s`, arithmetic: floor division by `2^s` (`Int.shiftRight`; -1 or 0 for `s ≥ 32`) -/
def shrI32 (x : Int) (s : Nat) : Int := x >>> s

/-! ### int64 and int -/
def addI64 (x y : Int) : Int := wrap64 (x + y)
def subI64 (x y : Int) : Int := wrap64 (x - y)
def mulI64 (x y : Int) : Int := wrap64 (x * y)
def negI64 (x : Int) : Int := wrap64 (-x)
def notI64 (x : Int) : Int := -x - 1
def andI64 (x y : Int) : Int := wrap64 ((u64 x &&& u64 y : Nat) : Int)
def orI64  (x y : Int) : Int := wrap64 ((u64 x ||| u64 y : Nat) : Int)
def xorI64 (x y : Int) : Int := wrap64 ((u64 x ^^^ u64 y : Nat) : Int)
def andNotI64 (x y : Int) : Int := andI64 x (notI64 y)
def shlI64 (x : Int) (s : Nat) : Int := wrap64 (x * 2 ^ s)
def shrI64 (x : Int) (s : Nat) : Int := x >>> s

/-! ### uint64 and uint -/
def addU64 (x y : Nat) : Nat := add64 x y
def subU64 (x y : Nat) : Nat := sub64 x y
def mulU64 (x y : Nat) : Nat := (x * y) % M64
def negU64 (x : Nat) : Nat := sub64 0 x
def notU64 (x : Nat) : Nat := not64 x
def andU64 (x y : Nat) : Nat := x &&& y
def orU64  (x y : Nat) : Nat := x ||| y
def xorU64 (x y : Nat) : Nat := x ^^^ y
def andNotU64 (x y : Nat) : Nat := x &&& not64 y
/-- `x << s`: 0 for `s ≥ 64` -/
def shlU64 (x s : Nat) : Nat := shl64 x s
/-- `x >> s`: 0 for `s ≥ 64` -/
def shrU64 (x s : Nat) : Nat := shr64 x s

/-! ### uint32 -/
def addU32 (x y : Nat) : Nat := (x + y) % M32
def subU32 (x y : Nat) : Nat := (x + (M32 - y % M32)) % M32
def mulU32 (x y : Nat) : Nat := (x * y) % M32
def notU32 (x : Nat) : Nat := (M32 - 1) ^^^ x
def andU32 (x y : Nat) : Nat := x &&& y
def orU32  (x y : Nat) : Nat := x ||| y
def xorU32 (x y : Nat) : Nat := x ^^^ y
def andNotU32 (x y : Nat) : Nat := x &&& notU32 y
def shlU32 (x s : Nat) : Nat := if s < 32 then (x <<< s) % M32 else 0
def shrU32 (x s : Nat) : Nat := if s < 32 then x >>> s else 0

/-! ### uint8 / byte -/
def addU8 (x y : Nat) : Nat := (x + y) % M8
def subU8 (x y : Nat) : Nat := (x + (M8 - y % M8)) % M8
def mulU8 (x y : Nat) : Nat := (x * y) % M8
def notU8 (x : Nat) : Nat := (M8 - 1) ^^^ x
def andU8 (x y : Nat) : Nat := x &&& y
def orU8  (x y : Nat) : Nat := x ||| y
def xorU8 (x y : Nat) : Nat := x ^^^ y
def andNotU8 (x y : Nat) : Nat := x &&& notU8 y
def shlU8 (x s : Nat) : Nat := if s < 8 then (x <<< s) % M8 else 0
def shrU8 (x s : Nat) : Nat := if s < 8 then x >>> s else 0

/-! ### slices and strings -/
/-- `len(xs)` as an `int` -/
def len {α : Type} (xs : List α) : Int := (xs.length : Int)
/-- `xs[i]` with Go's bounds check; the index arrives as an `Int` (an unsigned index `j : Nat` as `(j : Int)`) -/
def index {α : Type} (xs : List α) (i : Int) : Option α := if i < 0 then none else xs[i.toNat]?

/-! ### the package-level tables of bitmap/mask.go
  A read `bitmap.Mask[j]` becomes `tblMask j`.  The bounds (65 / 64) are checked by the translator against the
  array types in the source.  The CONTENTS are taken from the definition of `initMasks` in bitmap/mask.go
  (`Mask[i] = 1<<i - 1`, `RMask[i] = ^Mask[i]`, `MaskUpto[i] = 1<<(i+1) - 1`, `RMaskUpto[i] = ^MaskUpto[i]`,
  `Bit[i] = 1<<i`, `RBit[i] = ^Bit[i]`); that `initMasks` runs at package initialisation and that nothing else
  writes these arrays is covered by the project's C19 effect table and table snapshots, and the functions
  `mask … rbit` of `LowModel/Bits.lean` are the ones the model theorems are about. -/
def tbl (n : Nat) (f : Nat → Nat) (j : Int) : Option Nat :=
  if 0 ≤ j ∧ j < (n : Int) then some (f j.toNat) else none
def tblMask      (j : Int) : Option Nat := tbl 65 mask j
def tblRMask     (j : Int) : Option Nat := tbl 65 rmask j
def tblMaskUpto  (j : Int) : Option Nat := tbl 64 maskUpto j
def tblRMaskUpto (j : Int) : Option Nat := tbl 64 rmaskUpto j
def tblBit       (j : Int) : Option Nat := tbl 64 bit j
def tblRBit      (j : Int) : Option Nat := tbl 64 rbit j

/-! ### math/bits (results are Go `int`) -/
def onesCount64 (x : Nat) : Int := (popc x 64 : Nat)
def onesCount32 (x : Nat) : Int := (popc x 32 : Nat)
def onesCount16 (x : Nat) : Int := (popc x 16 : Nat)
def onesCount8  (x : Nat) : Int := (popc x 8 : Nat)
def trailingZeros64 (x : Nat) : Int := (tz x 64 : Nat)
def trailingZeros32 (x : Nat) : Int := (tz x 32 : Nat)
def trailingZeros8  (x : Nat) : Int := (tz x 8 : Nat)
def leadingZeros64 (x : Nat) : Int := (lz x 64 : Nat)
def leadingZeros32 (x : Nat) : Int := (lz x 32 : Nat)
def leadingZeros8  (x : Nat) : Int := (lz x 8 : Nat)
def len64 (x : Nat) : Int := (bitLen x 64 : Nat)
def len32 (x : Nat) : Int := (bitLen x 32 : Nat)
def len8  (x : Nat) : Int := (bitLen x 8 : Nat)

/-! ### error values
  An `error` result is represented by the identity of the package-level variable it was loaded from:
  `none` = `nil`, `some "pkg.var"` = the value of that variable. -/
abbrev Err := Option String

end Low.GoSem
