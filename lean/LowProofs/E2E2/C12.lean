import LowProofs.E2E.C12
import LowProofs.E2E.Lemmas
import LowProofs.Tie3.bitmap_Of
import LowProofs.Tie3.bitmap_OfMany
import LowProofs.Tie3.bitmap_ToArray
/-
  C12 end to end, second batch (construction clauses): `C12_of`, `C12_toArray`, `C12_rt1`, `C12_rt2`, `C12_ofMany`
  stated PURELY about definitions REGENERATED from the go/ssa form of `bitmap.Of`, `bitmap.ToArray`, `bitmap.OfMany`
  (`Generated/Ssa3/*.lean`; loops are recursion on `fuel`, the slices the functions allocate are functional lists).
  No model function occurs in the statements: only generated code, the specifications `bitAt`, `ones`, `WordsOK`
  and (for `OfMany`) the specification `shiftedConcat` of `Props/C12.lean`.
  The Builder clauses are in `E2E2/C12Builder.lean`.

  Domain.  Positions are Go `int32` values.  The code computes `last + 1` and `(n + 63) >> 6` in `int32`, so the ties
  need every position `< 2^31 - 64` and the optional size `≤ 2^31 - 64` (beyond that the Go code panics or wraps; the
  bitmap would have `2^25` words, outside `BmDom`); these are hypotheses about the INPUTS.  `len(ps) < 2^63` (a Go
  length) cannot be derived from the positions because duplicates are allowed.
-/
namespace Low
open Low.C12L

/-- the number of words of a bitmap for positions `< 2^31 - 64` and a size `≤ 2^31 - 64` is below `2^25` (`BmDom`) -/
private theorem ofLen_lt (ps : List Int) (nOpt : Option Int) (hps : ∀ p ∈ ps, p < 2^31 - 64)
    (hn : ∀ n, nOpt = some n → n ≤ 2^31 - 64) : ofLen ps nOpt < 2^25 := by
  have h1 : lastEnd ps ≤ 2^31 - 64 := by
    unfold lastEnd
    cases hl : ps.getLast? with
    | none => simp
    | some l => have := hps l (List.mem_of_getLast? hl); simp only; omega
  have h2 : nOpt.getD 0 ≤ 2^31 - 64 := by
    cases nOpt with
    | none => simp
    | some n => exact hn n rfl
  unfold ofLen
  omega

/-- `C12_of` on generated code.  The code of `Of(ps, opts...)` (regenerated from its SSA form), for ascending
    (duplicates allowed) non-negative `int32` positions, all `< 2^31 - 64`, any optional size `opts[0] ≤ 2^31 - 64`
    (negative, smaller or larger than last+1; further options are ignored), and EVERY `fuel ≥ len(ps) + 1`:
    terminates, does not panic, and returns `ceil(max(n, last+1, 0)/64)` words -- fewer than `2^25` --, all `uint64`,
    in which exactly the listed bits are 1.
    Hypotheses: `ps.Pairwise (· ≤ ·)`, `∀ p ∈ ps, 0 ≤ p`, `∀ p ∈ ps, p < 2^31 - 64`, `opts[0] ≤ 2^31 - 64` if present,
    `ps.length < 2^63`, `ps.length + 1 ≤ fuel`. -/
theorem E2E_C12_of (ps opts : List Int) (fuel : Nat) (hs : ps.Pairwise (· ≤ ·)) (h0 : ∀ p ∈ ps, 0 ≤ p)
    (hps : ∀ p ∈ ps, p < 2^31 - 64) (hopts : ∀ n, opts.head? = some n → n ≤ 2^31 - 64) (hlen : ps.length < 2^63)
    (hfuel : ps.length + 1 ≤ fuel) :
    ∃ ws, Gen.Ssa3.bitmap_Of fuel ps opts = some ws ∧
      ws.length = ((max (max (opts.head?.getD 0) (match ps.getLast? with | none => 0 | some l => l + 1)) 0 + 63)
        / 64).toNat ∧
      ws.length < 2^25 ∧ WordsOK ws ∧ ∀ i : Nat, (bitAt ws i = true ↔ (i : Int) ∈ ps) := by
  rw [Tie_bitmap_Of ps opts fuel hlen (fun l hl => hps l (List.mem_of_getLast? hl))
    (fun n hn => by have := hopts n hn; omega) hfuel]
  obtain ⟨ws, h1, h2, h3, h4⟩ := bmOf_spec ps opts.head? hs h0
  refine ⟨ws, h1, h2, ?_, h3, h4⟩
  rw [h2]
  exact ofLen_lt ps _ hps hopts

/-- `C12_toArray` on generated code.  The code of `ToArray(ws)` (regenerated from its SSA form), for a bitmap of fewer
    than `2^25` words (`BmDom`) and EVERY `fuel ≥ 64*len + 1`: terminates, does not panic, and returns exactly the set
    bits in ascending order: the list `ones ws`, whose members are the positions inside the bitmap holding a 1-bit,
    strictly ascending.
    Hypotheses: `ws.length < 2^25`, `64 * ws.length + 1 ≤ fuel`. -/
theorem E2E_C12_toArray (ws : List Nat) (fuel : Nat) (hlen : ws.length < 2^25) (hfuel : 64 * ws.length + 1 ≤ fuel) :
    Gen.Ssa3.bitmap_ToArray fuel ws = some ((ones ws).map Int.ofNat) ∧
    (∀ i, i ∈ ones ws ↔ (i < 64 * ws.length ∧ bitAt ws i = true)) ∧ (ones ws).Pairwise (· < ·) := by
  rw [Tie_bitmap_ToArray ws fuel hlen hfuel, (C12_toArray ws).1]
  exact ⟨rfl, (C12_toArray ws).2⟩

/-- strictly ascending integers in `[a, b)` are at most `b - a` many -/
private theorem strict_length_le : ∀ (ps : List Int) (a b : Int), ps.Pairwise (· < ·) → (∀ p ∈ ps, a ≤ p ∧ p < b) →
    ps.length ≤ (b - a).toNat
  | [], _, _, _, _ => Nat.zero_le _
  | x :: xs, a, b, hs, hb => by
    rw [List.pairwise_cons] at hs
    have hx := hb x List.mem_cons_self
    have ih := strict_length_le xs (x + 1) b hs.2 (fun p hp => by
      have := hs.1 p hp
      have := hb p (List.mem_cons_of_mem _ hp)
      omega)
    simp only [List.length_cons]
    omega

/-- `C12_rt1` on generated code: `ToArray(Of(l, n?)) = l`.  For STRICTLY ascending non-negative positions `ps`, all
    `< 2^31 - 64`, any optional size `≤ 2^31 - 64`, every `fuel ≥ len(ps) + 1`: the code of `Of` returns a bitmap `ws`
    (no panic) of fewer than `2^25` words, and the code of `ToArray` run on THAT bitmap with any
    `fuel' ≥ 64 * len(ws) + 1` returns exactly `ps`.
    Hypotheses: `ps.Pairwise (· < ·)`, `∀ p ∈ ps, 0 ≤ p`, `∀ p ∈ ps, p < 2^31 - 64`, `opts[0] ≤ 2^31 - 64` if present,
    `ps.length + 1 ≤ fuel`.  (`len(ps) < 2^63`, needed by the tie, is proved: strictly ascending positions in
    `[0, 2^31)` are at most `2^31` many.) -/
theorem E2E_C12_rt1 (ps opts : List Int) (fuel : Nat) (hs : ps.Pairwise (· < ·)) (h0 : ∀ p ∈ ps, 0 ≤ p)
    (hps : ∀ p ∈ ps, p < 2^31 - 64) (hopts : ∀ n, opts.head? = some n → n ≤ 2^31 - 64) (hfuel : ps.length + 1 ≤ fuel) :
    ∃ ws, Gen.Ssa3.bitmap_Of fuel ps opts = some ws ∧ ws.length < 2^25 ∧
      ∀ fuel', 64 * ws.length + 1 ≤ fuel' → Gen.Ssa3.bitmap_ToArray fuel' ws = some ps := by
  have hlen : ps.length < 2^63 := by
    have := strict_length_le ps 0 (2^31 - 64) hs (fun p hp => ⟨h0 p hp, hps p hp⟩)
    omega
  obtain ⟨ws, h1, _, h3, _, _⟩ := E2E_C12_of ps opts fuel (hs.imp (fun h => by omega)) h0 hps hopts hlen hfuel
  refine ⟨ws, h1, h3, ?_⟩
  intro fuel' hf
  obtain ⟨ws', e1, _, e3⟩ := C12_rt1 ps opts.head? hs h0
  rw [Tie_bitmap_Of ps opts fuel hlen (fun l hl => hps l (List.mem_of_getLast? hl))
    (fun n hn => by have := hopts n hn; omega) hfuel, e1] at h1
  cases h1
  rw [Tie_bitmap_ToArray ws fuel' h3 hf, e3]

/-- the same as one equation, with the uniform fuel bound `2^31` for `ToArray` (the bitmap has fewer than `2^25` words) -/
theorem E2E_C12_rt1_bind (ps opts : List Int) (fuel fuel' : Nat) (hs : ps.Pairwise (· < ·)) (h0 : ∀ p ∈ ps, 0 ≤ p)
    (hps : ∀ p ∈ ps, p < 2^31 - 64) (hopts : ∀ n, opts.head? = some n → n ≤ 2^31 - 64)
    (hfuel : ps.length + 1 ≤ fuel) (hfuel' : 2^31 ≤ fuel') :
    (Gen.Ssa3.bitmap_Of fuel ps opts).bind (Gen.Ssa3.bitmap_ToArray fuel') = some ps := by
  obtain ⟨ws, h1, h2, h3⟩ := E2E_C12_rt1 ps opts fuel hs h0 hps hopts hfuel
  rw [h1, Option.bind_some]
  exact h3 fuel' (by omega)

/-- `C12_rt2` on generated code: `Of(ToArray(b)) = b` up to trailing zero words.  For a bitmap `ws` of fewer than `2^25`
    words, `fuel ≥ 64*len + 1`: the code of `ToArray` returns a list `arr` (no panic); the code of `Of(arr)` run with any
    `fuel' ≥ len(arr) + 1` does not panic, and its result denotes the same set, is not longer than `ws`, does not end
    in a zero word, and (for `uint64` words) `ws` is that result followed by zero words only.
    Hypotheses: `ws.length < 2^25`, `64 * ws.length + 1 ≤ fuel`. -/
theorem E2E_C12_rt2 (ws : List Nat) (fuel : Nat) (hlen : ws.length < 2^25) (hfuel : 64 * ws.length + 1 ≤ fuel) :
    ∃ arr, Gen.Ssa3.bitmap_ToArray fuel ws = some arr ∧ arr.length ≤ 64 * ws.length ∧
      ∀ fuel', arr.length + 1 ≤ fuel' →
        ∃ ws', Gen.Ssa3.bitmap_Of fuel' arr [] = some ws' ∧ (∀ i, bitAt ws' i = bitAt ws i) ∧
          ws'.length ≤ ws.length ∧ ws'.getLast? ≠ some 0 ∧
          (WordsOK ws → ws = ws' ++ zeros (ws.length - ws'.length)) := by
  have hl : ((toArray ws).map Int.ofNat).length ≤ 64 * ws.length := by
    rw [List.length_map, toArray_eq_ones]; exact E2EL.ones_length_le ws
  refine ⟨_, Tie_bitmap_ToArray ws fuel hlen hfuel, hl, ?_⟩
  intro fuel' hf
  have hps : ∀ p ∈ (toArray ws).map Int.ofNat, p < 2^31 - 64 := by
    intro p hp
    obtain ⟨x, hx, rfl⟩ := List.mem_map.mp hp
    rw [toArray_eq_ones] at hx
    have := E2EL.ones_mem_lt hx
    simp only [Int.ofNat_eq_natCast]
    omega
  rw [Tie_bitmap_Of_all _ [] fuel' (by omega) hps (by intro n hn; cases hn) hf]
  exact C12_rt2 ws

/-- `C12_ofMany` on generated code.  When there is a size for every sub-list, the code of `OfMany(subs, sizes)`
    (regenerated from its SSA form; nested loops, then the inlined call of `Of`) on positions whose shifted
    concatenation `shiftedConcat subs sizes 0` (each sub-list rebased by the running sum of the preceding sizes) is
    ascending, non-negative and `< 2^31 - 64`, with total size `Σ sizes[0..len(subs))` an `int32` `≤ 2^31 - 64`:
    terminates for every `fuel ≥ max(len(subs), Σ len(subs[i])) + 1`, does not panic, and returns
    `ceil(max(Σ sizes, last+1, 0)/64)` `uint64` words in which exactly the bits of the shifted concatenation are 1.
    Hypotheses (inputs only): `subs.length ≤ sizes.length`; `Pairwise (· ≤ ·)`, `0 ≤ p`, `p < 2^31 - 64` for the shifted
    concatenation; `-2^31 ≤ Σ ≤ 2^31 - 64`; `subs.length < 2^63`, `Σ len(subs[i]) < 2^63`; the fuel bound. -/
theorem E2E_C12_ofMany (subs : List (List Int)) (sizes : List Int) (fuel : Nat) (h : subs.length ≤ sizes.length)
    (hs : (shiftedConcat subs sizes 0).Pairwise (· ≤ ·)) (h0 : ∀ p ∈ shiftedConcat subs sizes 0, 0 ≤ p)
    (hps : ∀ p ∈ shiftedConcat subs sizes 0, p < 2^31 - 64)
    (hsum : -2^31 ≤ (sizes.take subs.length).sum ∧ (sizes.take subs.length).sum ≤ 2^31 - 64)
    (hsl : subs.length < 2^63) (htot : (subs.map List.length).sum < 2^63)
    (hfuel : max subs.length (subs.map List.length).sum + 1 ≤ fuel) :
    ∃ ws, Gen.Ssa3.bitmap_OfMany fuel subs sizes = some ws ∧
      ws.length = ((max (max ((sizes.take subs.length).sum)
        (match (shiftedConcat subs sizes 0).getLast? with | none => 0 | some l => l + 1)) 0 + 63) / 64).toNat ∧
      ws.length < 2^25 ∧ WordsOK ws ∧ ∀ i : Nat, (bitAt ws i = true ↔ (i : Int) ∈ shiftedConcat subs sizes 0) := by
  have hflat := ofManyFlat_eq subs sizes 0 h
  rw [Int.zero_add] at hflat
  rw [Tie_bitmap_OfMany subs sizes fuel hsl htot ?_ hfuel]
  · obtain ⟨ws, h1, h2, h3, h4⟩ := C12_ofMany_bits subs sizes h hs h0
    refine ⟨ws, h1, h2, ?_, h3, h4⟩
    rw [h2]
    exact ofLen_lt _ (some _) hps (fun n hn => by cases hn; exact hsum.2)
  · intro r b hrb
    rw [hflat] at hrb
    cases hrb
    refine ⟨fun x hx => ⟨by have := h0 x hx; omega, by have := hps x hx; omega⟩,
      fun l hl => hps l (List.mem_of_getLast? hl), hsum.1, by omega⟩

/-- `OfMany` is `Of` of the shifted concatenation with `n = Σ sizes` -- both sides generated code.  Same hypotheses as
    `E2E_C12_ofMany` except that the shifted concatenation need not be ascending (then both sides may panic, alike);
    `fuel'` is the fuel of the `Of` run (`≥ Σ len(subs[i]) + 1`). -/
theorem E2E_C12_ofMany_eq_of (subs : List (List Int)) (sizes : List Int) (fuel fuel' : Nat)
    (h : subs.length ≤ sizes.length) (h0 : ∀ p ∈ shiftedConcat subs sizes 0, 0 ≤ p)
    (hps : ∀ p ∈ shiftedConcat subs sizes 0, p < 2^31 - 64)
    (hsum : -2^31 ≤ (sizes.take subs.length).sum ∧ (sizes.take subs.length).sum ≤ 2^31 - 64)
    (hsl : subs.length < 2^63) (htot : (subs.map List.length).sum < 2^63)
    (hfuel : max subs.length (subs.map List.length).sum + 1 ≤ fuel)
    (hfuel' : (shiftedConcat subs sizes 0).length + 1 ≤ fuel') :
    Gen.Ssa3.bitmap_OfMany fuel subs sizes
      = Gen.Ssa3.bitmap_Of fuel' (shiftedConcat subs sizes 0) [(sizes.take subs.length).sum] := by
  have hflat := ofManyFlat_eq subs sizes 0 h
  rw [Int.zero_add] at hflat
  have hl : (shiftedConcat subs sizes 0).length ≤ (subs.map List.length).sum := by
    have key : ∀ (subs : List (List Int)) (sizes : List Int) (base : Int),
        (shiftedConcat subs sizes base).length ≤ (subs.map List.length).sum := by
      intro subs
      induction subs with
      | nil => intro sizes base; simp [shiftedConcat]
      | cons e subs ih =>
        intro sizes base
        cases sizes with
        | nil => simp [shiftedConcat]
        | cons s sizes =>
          have := ih sizes (base + s)
          simp only [shiftedConcat, List.length_append, List.length_map, List.map_cons, List.sum_cons]
          omega
    exact key subs sizes 0
  rw [Tie_bitmap_OfMany subs sizes fuel hsl htot ?_ hfuel,
    Tie_bitmap_Of_all _ _ fuel' (by omega) hps
      (by intro n hn; simp only [List.mem_singleton] at hn; subst hn; omega) hfuel',
    C12_ofMany subs sizes h]
  · rfl
  · intro r b hrb
    rw [hflat] at hrb
    cases hrb
    refine ⟨fun x hx => ⟨by have := h0 x hx; omega, by have := hps x hx; omega⟩,
      fun l hl => hps l (List.mem_of_getLast? hl), hsum.1, by omega⟩

/-- with fewer sizes than sub-lists the code of `OfMany` panics (`sizes[i]` out of range), for any fuel that lets it
    get there. -/
theorem E2E_C12_ofMany_short (subs : List (List Int)) (sizes : List Int) (fuel : Nat)
    (h : sizes.length < subs.length) (hsl : subs.length < 2^63) (htot : (subs.map List.length).sum < 2^63)
    (hfuel : max subs.length (subs.map List.length).sum + 1 ≤ fuel) :
    Gen.Ssa3.bitmap_OfMany fuel subs sizes = none := by
  have hnone : ofMany subs sizes = none := C12_ofMany_short subs sizes h
  rw [Tie_bitmap_OfMany subs sizes fuel hsl htot ?_ hfuel, hnone]
  intro r b hrb
  simp only [ofMany] at hnone
  rw [hrb] at hnone
  -- `ofManyFlat` is `none` here, so the hypothesis is contradictory
  have key : ∀ (subs : List (List Int)) (sizes : List Int) (base : Int), sizes.length < subs.length →
      ofManyFlat subs sizes base = none := by
    intro subs
    induction subs with
    | nil => intro sizes base h; simp at h
    | cons e subs ih =>
      intro sizes base h
      cases sizes with
      | nil => rfl
      | cons s sizes => simp only [ofManyFlat, ih sizes (base + s) (by simpa using h)]
  rw [key subs sizes 0 h] at hrb
  cases hrb

/-! non-vacuity: the generated code on concrete values, and instances of the theorems -/
example : Gen.Ssa3.bitmap_Of 6 [0, 63, 64, 65, 200] [-5] = some [2 ^ 63 + 1, 3, 0, 2 ^ 8] := by decide +kernel
example : Gen.Ssa3.bitmap_Of 1 [] [65] = some [0, 0] := by decide +kernel
set_option maxRecDepth 8000 in
example : Gen.Ssa3.bitmap_ToArray 257 [2 ^ 63 + 1, 3, 0, 2 ^ 8] = some [0, 63, 64, 65, 200] := by decide +kernel
set_option maxRecDepth 8000 in
example : (Gen.Ssa3.bitmap_Of 6 [0, 63, 64, 65, 200] [1]).bind (Gen.Ssa3.bitmap_ToArray 300)
    = some [0, 63, 64, 65, 200] := by decide +kernel
example : Gen.Ssa3.bitmap_OfMany 4 [[1, 70], [], [0]] [64, 0, 3, 9] = some [2, 2 ^ 6 + 1] := by decide +kernel
example : Gen.Ssa3.bitmap_OfMany 4 [[1], [2]] [64] = none := by decide +kernel
example := E2E_C12_of [0, 63, 64, 65, 200] [-5] 6 (by decide) (by decide) (by decide) (by decide) (by decide) (by decide)
example := E2E_C12_rt1 [0, 63, 64, 65, 200] [1000] 6 (by decide) (by decide) (by decide) (by decide) (by decide)
example := E2E_C12_ofMany [[1, 5], [], [0]] [64, 0, 3, 9] 4 (by decide) (by decide +kernel) (by decide +kernel)
  (by decide +kernel) (by decide +kernel) (by decide) (by decide) (by decide)

end Low
