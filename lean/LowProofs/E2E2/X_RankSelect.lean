import LowProofs.E2E2.C02
import LowProofs.E2E.C01
/-!
  Select followed by Rank, on regenerated code only.  This theorem spans the functions of two properties
  (C02: Select32 / IndexSelect32, C01: Rank64 / IndexRank64).  It is deliberately registered for NEITHER check:
  a change to `Rank64` must not make the C02 check fail (C02 still holds then), nor a change to `Select32` the C01
  check.  It is built by `setup.sh` on the tree the framework was validated against.
-/
namespace Low
open Low.E2EL

/-- `C02_rank_select` needs no code: for `i` below the number of 1-bits, `rank ws (ones ws)[i] = i` and the bit there
    is set.  With `E2E_C01_rank64_bind` it says, on generated code only: `Rank64` at the position `Select32` returned
    gives back `(i, 1)`. -/
theorem E2E_C02_rank_select (ws : List Nat) (opts : List Bool) (fuelS fuelR fuel' i : Nat) (hlen : ws.length < 2^25)
    (hok : WordsOK ws) (hfuelS : 64 * ws.length + 1 ≤ fuelS) (hfuelR : ws.length + 1 ≤ fuelR)
    (hfuel' : ws.length + 1 ≤ fuel') (hi : i < (ones ws).length) :
    ∃ sidx ridx p nxt, Gen.Ssa3.bitmap_IndexSelect32 fuelS ws = some sidx ∧
      Gen.Ssa3.bitmap_IndexRank64 fuelR ws opts = some ridx ∧
      Gen.Ssa2.bitmap_Select32 fuel' ws sidx (i : Int) = some (p, nxt) ∧
      Gen.Ssa.bitmap_Rank64 ws ridx p = some ((i : Int), 1) := by
  obtain ⟨sidx, hs, hq⟩ := E2E_C02_select32_full ws fuelS hlen hok hfuelS
  obtain ⟨h1, h2⟩ := C02_rank_select ws i hi
  have hp := ones_mem_lt (List.getElem_mem hi)
  refine ⟨sidx, _, _, _, hs, Tie_bitmap_IndexRank64 ws opts fuelR hlen hfuelR, hq i fuel' hi hfuel', ?_⟩
  rw [E2E_C01_rank64 ws _ _ hlen hp, h1, h2]
  rfl

end Low
