import LowProofs.E2E2.Lemmas
import LowProofs.Tie3.bitmap_TailBitmap_Set
import LowProofs.Tie3.bitmap_TailBitmap_Compact
import LowProofs.Tie3.bitmap_TailBitmap_Get
import LowProofs.Tie3.bitmap_TailBitmap_Get1
/-
  C15 end to end: every clause of `Props/C15.lean` (`C15_inv`, `C15_get1`, `C15_get`, `C15_covers`, `C15_offset`,
  `C15_firstWord`, `C15_wordsOK`, `C15_compact`) stated about histories executed through the definitions REGENERATED from
  the go/ssa form of the methods `(*TailBitmap).Set`, `Compact`, `Get`, `Get1` (`Generated/Ssa3/bitmap_TailBitmap_*.lean`;
  loops are recursion on `fuel`, `Set` calls the regenerated `Compact`, the package variable `reclaimThreshold` is the
  argument `thr`).

  Shapes.  The generated `Set` / `Compact` take the receiver's fields `Offset`, `Words`, `reclaimed` (a `TailBitmap` record
  here is just these three values) and return their new values (`none` = panic or out of fuel); `Get` / `Get1` take the
  fields and the index.  `genTbStep` / `genTbRun` execute one operation / a whole history through the GENERATED methods;
  `genGet` / `genGet1` query a state through the generated `Get` / `Get1`.  `NewTailBitmap(o)` is a struct literal
  (`Offset = reclaimed = o`, no words) and has no regenerated definition: `newTailBitmap o` is that literal.
  In the conclusions of the history theorems only the runner (generated code), the specification `mem` (abstract set:
  everything below the initial offset plus every index set) and `tbEnd` occur.

  Domain, on the INPUTS only (`TbBounds`): the initial offset `o` is a multiple of 64 and an int64; every index ever set
  is below a multiple of 64 `U ≥ o` with `U + 64 < 2^63` and `U + 64 - o < 2^63` (e.g. `|o|, |i| < 2^61`, `U = 2^61`; or
  `o ≥ 0` and `i < U = 2^62`); `fuel ≥ (U - o)/64 + 3` (the words never number more than `(U - o)/64`; the tie of `Set` asks for
  `max (words needed) (words present) + 2`, at least 3).  Queried indices are
  int64 values.  The ties' hypotheses for every intermediate receiver (`Offset` an int64, `idx - Offset`, the end of the
  words and `Offset - reclaimed` fitting an int64, the fuel) are PROVED along the history from the range invariant
  `TbDom` (`E2E2/Lemmas.lean`): `o ≤ reclaimed ≤ Offset` and `end of the words ≤ U`.
-/
namespace Low
open Low.C15L Low.E2E2L

/-- one mutating operation executed by the GENERATED method on the receiver `tb`; `none` = panic / out of fuel -/
def genTbStep (fuel : Nat) (thr : Int) (tb : TailBitmap) : TbOp → Option TailBitmap
  | .set i => (Gen.Ssa3.bitmap_TailBitmap_Set fuel tb.offset tb.words tb.reclaimed i thr).map
      (fun r => ⟨r.1, r.2.1, r.2.2⟩)
  | .compact => (Gen.Ssa3.bitmap_TailBitmap_Compact fuel tb.offset tb.words tb.reclaimed thr).map
      (fun r => ⟨r.1, r.2.1, r.2.2⟩)

/-- a history executed by the GENERATED methods, left to right; `none` as soon as a call panics -/
def genTbRun (fuel : Nat) (thr : Int) (tb : TailBitmap) : List TbOp → Option TailBitmap
  | [] => some tb
  | op :: rest =>
    match genTbStep fuel thr tb op with
    | none => none
    | some tb' => genTbRun fuel thr tb' rest

/-- `Get1(j)` / `Get(j)` answered by the GENERATED methods on the receiver `tb` -/
def genGet1 (tb : TailBitmap) (j : Int) : Option Nat :=
  Gen.Ssa3.bitmap_TailBitmap_Get1 tb.offset tb.words tb.reclaimed j
def genGet (tb : TailBitmap) (j : Int) : Option Nat :=
  Gen.Ssa3.bitmap_TailBitmap_Get tb.offset tb.words tb.reclaimed j

/-- the hypotheses about the inputs: initial offset `o`, bound `U` above every index set, fuel -/
structure TbBounds (o U : Int) (fuel : Nat) : Prop where
  ho : (64 : Int) ∣ o
  hU : (64 : Int) ∣ U
  hoU : o ≤ U
  hlo : -2^63 ≤ o
  hhi : U + 64 < 2^63
  hw : U + 64 - o < 2^63
  hfuel : (U - o).toNat / 64 + 3 ≤ fuel

/-- `Set` / `Compact`, ONE step on generated code.  From a receiver `tb` satisfying the representation invariant `Inv S`
    (w.r.t. any abstract set `S`) and the range invariant `TbDom o U`, for an operation whose index (if it is a `Set`) is
    below `U`: the generated method does not panic, terminates within the fuel, and returns exactly the fields of the
    model step `tbStep thr tb op`; the range invariant holds again.  (That `Inv` holds again, w.r.t. `S ∪ {i}`, is
    `C15_inv_step` / `set_spec` / `compact_spec`.)  `thr` is arbitrary. -/
theorem E2E_C15_step (thr o U : Int) (fuel : Nat) (hb : TbBounds o U fuel) {S : Int → Prop} (tb : TailBitmap)
    (op : TbOp) (hinv : Inv S tb) (hdom : TbDom o U tb) (hop : ∀ i, op = .set i → i < U) :
    genTbStep fuel thr tb op = some (tbStep thr tb op) ∧ TbDom o U (tbStep thr tb op) := by
  obtain ⟨ho, hU, hoU, hlo, hhi, hw, hfuel⟩ := hb
  have holo := hdom.olo
  have hrlo := hdom.rlo
  have hrhi := hdom.rhi
  have hend := hdom.endU
  have hlen := hdom.len
  unfold tbEnd at hend
  obtain ⟨a, ha⟩ := hinv.pre.dvd
  obtain ⟨b, hb'⟩ := hU
  obtain ⟨c, hc⟩ := ho
  have hl0 : (0 : Int) ≤ (tb.words.length : Int) := by omega
  cases op with
  | set i =>
    have hi := hop i rfl
    refine ⟨?_, dom_set thr i hdom ⟨a, ha⟩ ⟨b, hb'⟩ hi⟩
    have hmax : (((max tb.words.length 1 : Nat) : Int)) ≤ (tb.words.length : Int) + 1 := by omega
    have hmax' : (((max tb.words.length 1 : Nat) : Int)) = max (tb.words.length : Int) 1 := by omega
    rw [genTbStep, Tie_bitmap_TailBitmap_Set tb thr i fuel (by omega) (by omega) (by omega) (by omega) (by omega)
      (by omega)]
    rfl
  | compact =>
    refine ⟨?_, (dom_compact thr hdom).1⟩
    rw [genTbStep, Tie_bitmap_TailBitmap_Compact tb thr fuel (by omega) (by omega) (by omega) (by omega) (by omega)]
    rfl

/-- `Get` / `Get1` on generated code, ONE query.  On a receiver satisfying `Inv S` and `TbDom o U`, for every int64 index
    `j` below the end of the stored words: the generated `Get1` returns 1 exactly when `j ∈ S`, the generated `Get`
    returns that bit at position `j mod 64`; neither panics.  At or beyond the end both panic (`none`). -/
theorem E2E_C15_query (o U : Int) (fuel : Nat) (hb : TbBounds o U fuel) {S : Int → Prop} (tb : TailBitmap)
    (hinv : Inv S tb) (hdom : TbDom o U tb) (j : Int) [Decidable (S j)] (hj1 : -2^63 ≤ j) (hj2 : j < 2^63) :
    (j < tbEnd tb → genGet1 tb j = some (if S j then 1 else 0) ∧
      genGet tb j = some (if S j then 2 ^ (j % 64).toNat else 0)) ∧
    (tbEnd tb ≤ j → genGet1 tb j = none ∧ genGet tb j = none) := by
  obtain ⟨ho, hU, hoU, hlo, hhi, hw, hfuel⟩ := hb
  have holo := hdom.olo
  have hend := hdom.endU
  have hlen := hdom.len
  unfold tbEnd at hend
  have e1 : genGet1 tb j = tb.get1 j :=
    Tie_bitmap_TailBitmap_Get1 tb j hj1 hj2 (by omega) (by omega) (by omega)
  have e2 : genGet tb j = tb.get j :=
    Tie_bitmap_TailBitmap_Get tb j hj1 hj2 (by omega) (by omega) (by omega)
  rw [e1, e2]
  refine ⟨fun hj => ⟨get1_spec hinv.pre j hj, get_spec hinv.pre j hj⟩, fun hj => ?_⟩
  have := get_oob (tb := tb) (j := j) hj
  exact ⟨this.2, this.1⟩

/-- the run through the generated methods equals the model run on the domain, and both invariants hold at its end -/
theorem genTbRun_eq (thr o U : Int) (fuel : Nat) (hb : TbBounds o U fuel) :
    ∀ (ops ops0 : List TbOp) (tb : TailBitmap), Inv (mem o ops0) tb → TbDom o U tb →
    (∀ i, TbOp.set i ∈ ops → i < U) →
    genTbRun fuel thr tb ops = some (tbRun thr tb ops) ∧ Inv (mem o (ops0 ++ ops)) (tbRun thr tb ops) ∧
      TbDom o U (tbRun thr tb ops) ∧ tb.offset ≤ (tbRun thr tb ops).offset
  | [], ops0, tb, hinv, hdom, _ => by
    refine ⟨rfl, ?_, hdom, Int.le_refl _⟩
    simpa [tbRun] using hinv
  | op :: rest, ops0, tb, hinv, hdom, hops => by
    obtain ⟨h1, h2⟩ := E2E_C15_step thr o U fuel hb tb op hinv hdom
      (fun i hi => hops i (by rw [hi]; exact List.mem_cons_self))
    obtain ⟨h3, h4⟩ := C15_inv_step thr o ops0 tb op hinv
    obtain ⟨r1, r2, r3, r4⟩ := genTbRun_eq thr o U fuel hb rest (ops0 ++ [op]) _ h3 h2
      (fun i hi => hops i (List.mem_cons_of_mem _ hi))
    rw [List.append_assoc, List.singleton_append] at r2
    refine ⟨?_, r2, r3, Int.le_trans h4 r4⟩
    simp only [genTbRun, h1, r1]
    rfl

theorem inv_new_mem {o : Int} (ho : (64 : Int) ∣ o) : Inv (mem o []) (newTailBitmap o) :=
  (inv_new ho).congr (by intro j; simp [mem])

/-- C15 on generated code, the main statement.  For ANY history `ops` of `Set` / `Compact` calls executed by the
    GENERATED methods from `NewTailBitmap(o)`, any reclaim threshold `thr`, on the input domain `TbBounds o U fuel` with
    every index set below `U`:  no call panics or runs out of fuel, and in the final receiver `tb`
    * (`C15_get1`, `C15_get`) for every int64 index `j` below the end of the stored words the generated `Get1(j)` returns
      1 exactly when `j < o` or `j` has been set, and the generated `Get(j)` returns that bit at position `j mod 64`,
      without panic; at or beyond the end both panic;
    * (`C15_covers`) every index ever set lies below the end of the stored words, so every `j` up to the highest index
      ever set is answered;
    * (`C15_offset`) `Offset` is a multiple of 64, at least `o`, and everything below it is a member;
    * (`C15_firstWord`, `C15_wordsOK`) the first stored word is not all-ones, all words are `uint64`;
    * the end of the stored words does not exceed `U`. -/
theorem E2E_C15_history (thr o U : Int) (fuel : Nat) (hb : TbBounds o U fuel) (ops : List TbOp)
    (hops : ∀ i, TbOp.set i ∈ ops → i < U) :
    ∃ tb, genTbRun fuel thr (newTailBitmap o) ops = some tb ∧
      (∀ j, -2^63 ≤ j → j < 2^63 →
        (j < tbEnd tb → genGet1 tb j = some (if mem o ops j then 1 else 0) ∧
          genGet tb j = some (if mem o ops j then 2 ^ (j % 64).toNat else 0)) ∧
        (tbEnd tb ≤ j → genGet1 tb j = none ∧ genGet tb j = none)) ∧
      (∀ i, TbOp.set i ∈ ops → i < tbEnd tb) ∧
      (64 : Int) ∣ tb.offset ∧ o ≤ tb.offset ∧ (∀ j, j < tb.offset → mem o ops j) ∧
      tb.words.head? ≠ some allOnes64 ∧ WordsOK tb.words ∧ tbEnd tb ≤ U := by
  obtain ⟨r1, r2, r3, r4⟩ := genTbRun_eq thr o U fuel hb ops [] (newTailBitmap o) (inv_new_mem hb.ho)
    (dom_new hb.hoU) hops
  rw [List.nil_append] at r2
  refine ⟨_, r1, fun j hj1 hj2 => E2E_C15_query o U fuel hb _ r2 r3 j hj1 hj2,
    fun i hi => r2.pre.covers i (Or.inr hi), r2.pre.dvd, r4, r2.pre.below, r2.head, r2.pre.ok, r3.endU⟩

/-- `C15_offset`, monotonicity, on generated code: under any continuation `ops'` of a history (both within the domain),
    run by the generated methods from the state the generated methods reached, `Offset` never decreases; and running
    the continuation from that state is running the concatenated history. -/
theorem E2E_C15_offset_mono (thr o U : Int) (fuel : Nat) (hb : TbBounds o U fuel) (ops ops' : List TbOp)
    (hops : ∀ i, TbOp.set i ∈ ops ++ ops' → i < U) :
    ∃ tb tb', genTbRun fuel thr (newTailBitmap o) ops = some tb ∧ genTbRun fuel thr tb ops' = some tb' ∧
      genTbRun fuel thr (newTailBitmap o) (ops ++ ops') = some tb' ∧ tb.offset ≤ tb'.offset := by
  obtain ⟨r1, r2, r3, _⟩ := genTbRun_eq thr o U fuel hb ops [] (newTailBitmap o) (inv_new_mem hb.ho)
    (dom_new hb.hoU) (fun i hi => hops i (List.mem_append_left _ hi))
  rw [List.nil_append] at r2
  obtain ⟨s1, _, _, s4⟩ := genTbRun_eq thr o U fuel hb ops' ops _ r2 r3
    (fun i hi => hops i (List.mem_append_right _ hi))
  obtain ⟨t1, _⟩ := genTbRun_eq thr o U fuel hb (ops ++ ops') [] (newTailBitmap o) (inv_new_mem hb.ho)
    (dom_new hb.hoU) hops
  refine ⟨_, _, r1, s1, ?_, s4⟩
  rw [t1, tbRun_append]

/-- `C15_compact` on generated code: after any history run by the generated methods, one more generated `Compact` -- with
    ANY threshold `thr'`, also one different from the history's -- does not panic, keeps the end of the stored words and
    changes no `Get` / `Get1` answer of the generated query methods, at any int64 index (inside: same bit; at or beyond the
    end: both panic before and after). -/
theorem E2E_C15_compact (thr thr' o U : Int) (fuel : Nat) (hb : TbBounds o U fuel) (ops : List TbOp)
    (hops : ∀ i, TbOp.set i ∈ ops → i < U) :
    ∃ tb tb', genTbRun fuel thr (newTailBitmap o) ops = some tb ∧ genTbStep fuel thr' tb .compact = some tb' ∧
      tbEnd tb' = tbEnd tb ∧ tb.offset ≤ tb'.offset ∧
      ∀ j, -2^63 ≤ j → j < 2^63 → genGet1 tb' j = genGet1 tb j ∧ genGet tb' j = genGet tb j := by
  obtain ⟨r1, r2, r3, _⟩ := genTbRun_eq thr o U fuel hb ops [] (newTailBitmap o) (inv_new_mem hb.ho)
    (dom_new hb.hoU) hops
  rw [List.nil_append] at r2
  obtain ⟨s1, s2⟩ := E2E_C15_step thr' o U fuel hb _ .compact r2 r3 (fun i hi => by cases hi)
  obtain ⟨c1, c2, c3⟩ := dom_compact thr' r3
  have hinv' : Inv (mem o ops) ((tbRun thr (newTailBitmap o) ops).compact thr') := (compact_spec thr' r2.pre).1
  refine ⟨_, _, r1, s1, c3, c2, ?_⟩
  intro j hj1 hj2
  have q := E2E_C15_query o U fuel hb _ r2 r3 j hj1 hj2
  have q' := E2E_C15_query o U fuel hb _ hinv' c1 j hj1 hj2
  simp only [tbStep] at *
  by_cases hj : j < tbEnd (tbRun thr (newTailBitmap o) ops)
  · obtain ⟨a1, a2⟩ := q.1 hj
    obtain ⟨b1, b2⟩ := q'.1 (by rw [c3]; exact hj)
    rw [a1, a2, b1, b2]; exact ⟨rfl, rfl⟩
  · obtain ⟨a1, a2⟩ := q.2 (by omega)
    obtain ⟨b1, b2⟩ := q'.2 (by rw [c3]; omega)
    rw [a1, a2, b1, b2]; exact ⟨rfl, rfl⟩

/-- the simple input domain `|o| < 2^61`, indices `< 2^61`, with the uniform bound `U = 2^61`: a corollary for readers who
    do not want to choose `U` (the fuel bound `(2^61 - o)/64 + 3` is then far larger than any real history needs; choose a
    tight `U` in `E2E_C15_history` for a tight one). -/
theorem E2E_C15_bounds_simple (o : Int) (fuel : Nat) (ho : (64 : Int) ∣ o) (h1 : -2^61 < o) (h2 : o < 2^61)
    (hfuel : (2^61 - o).toNat / 64 + 3 ≤ fuel) : TbBounds o (2^61) fuel :=
  ⟨ho, ⟨2^55, by decide⟩, by omega, by omega, by omega, by omega, hfuel⟩

/-! ### non-vacuity: the history of `Props/C15.lean` (fills the first word out of order so that `Set` compacts, sets below
    the offset, repeats, crosses a 2-word reclaim threshold) run through the GENERATED methods -/

example : TbBounds 128 512 9 := ⟨by decide, by decide, by decide, by decide, by decide, by decide, by decide⟩
example : ∀ i, TbOp.set i ∈ C15_demoOps → i < 512 := by
  intro i hi
  simp only [C15_demoOps, List.mem_append, List.mem_map, List.mem_reverse, List.mem_range, List.mem_cons,
    TbOp.set.injEq, List.not_mem_nil, or_false, reduceCtorEq, false_or] at hi
  rcases hi with ⟨k, hk, rfl⟩ | hi
  · omega
  · omega
example : (genTbRun 9 128 (newTailBitmap 128) C15_demoOps).map (fun tb => (tb.offset, tb.words.length, tb.reclaimed))
    = some (192, 5, 128) := by decide +kernel
example : (genTbRun 9 128 (newTailBitmap 128) C15_demoOps).bind (fun tb => genGet1 tb 200) = some 1 := by decide +kernel
example : (genTbRun 9 128 (newTailBitmap 128) C15_demoOps).bind (fun tb => genGet1 tb 201) = some 0 := by decide +kernel
example : (genTbRun 9 128 (newTailBitmap 128) C15_demoOps).bind (fun tb => genGet tb 450) = some (2 ^ 2) := by
  decide +kernel
example : (genTbRun 9 128 (newTailBitmap 128) C15_demoOps).bind (fun tb => genGet1 tb (-3)) = some 1 := by decide +kernel
example : (genTbRun 9 128 (newTailBitmap 128) C15_demoOps).bind (fun tb => genGet1 tb 512) = none := by decide +kernel
-- out of fuel: 5 words need more than 3 loop visits
example : genTbRun 3 128 (newTailBitmap 128) C15_demoOps = none := by decide +kernel

end Low
