import LowProofs.Props.C15
/-
  (Imports model-side property files only: nothing here depends on regenerated code.)
  Helper lemmas for the second batch of end-to-end theorems (`LowProofs/E2E2/Cxx.lean`).
  C15: the range invariant `TbDom` of a `TailBitmap` along a history -- `reclaimed` stays between the initial offset and
  `Offset`, and the end of the stored words stays below a bound `U` above all indices ever set -- from which the
  int64-domain hypotheses of the `TailBitmap` ties follow from hypotheses about the INPUTS (initial offset, indices).
-/
namespace Low.E2E2L
open Low Low.C15L

/-- the loop of `Compact` keeps the end of the stored words (no hypothesis) -/
theorem dropOnes_end : ∀ (ws : List Nat) (o : Int),
    (dropOnes ws o).2 + 64 * ((dropOnes ws o).1.length : Int) = o + 64 * (ws.length : Int)
  | [], o => by simp [dropOnes]
  | w :: r, o => by
    simp only [dropOnes]
    split
    · rw [dropOnes_end r (o + 64)]; simp only [List.length_cons]; omega
    · rfl

/-- the loop of `Compact` never lowers the offset (no hypothesis) -/
theorem dropOnes_ge : ∀ (ws : List Nat) (o : Int), o ≤ (dropOnes ws o).2
  | [], o => by simp [dropOnes]
  | w :: r, o => by
    simp only [dropOnes]
    split
    · have := dropOnes_ge r (o + 64); omega
    · exact Int.le_refl _

/-- the loop of `Compact` never lengthens the words -/
theorem dropOnes_length_le (ws : List Nat) (o : Int) : (dropOnes ws o).1.length ≤ ws.length := by
  have h1 := dropOnes_end ws o
  have h2 := dropOnes_ge ws o
  omega

theorem compact_reclaimed (thr : Int) (tb : TailBitmap) :
    (tb.compact thr).reclaimed
      = if (dropOnes tb.words tb.offset).2 - tb.reclaimed ≥ thr then (dropOnes tb.words tb.offset).2 else tb.reclaimed :=
  rfl

/-- range invariant of a `TailBitmap` started at offset `o` whose set indices stay below `U` -/
structure TbDom (o U : Int) (tb : TailBitmap) : Prop where
  rlo : o ≤ tb.reclaimed
  rhi : tb.reclaimed ≤ tb.offset
  endU : tbEnd tb ≤ U

theorem TbDom.olo {o U : Int} {tb : TailBitmap} (h : TbDom o U tb) : o ≤ tb.offset := Int.le_trans h.rlo h.rhi

theorem TbDom.len {o U : Int} {tb : TailBitmap} (h : TbDom o U tb) : 64 * (tb.words.length : Int) ≤ U - o := by
  have := h.endU; have := h.olo; unfold tbEnd at *; omega

theorem dom_new {o U : Int} (hoU : o ≤ U) : TbDom o U (newTailBitmap o) :=
  ⟨Int.le_refl _, Int.le_refl _, by simpa [tbEnd, newTailBitmap] using hoU⟩

/-- `Compact` keeps the range invariant, never lowers the offset and keeps the end -/
theorem dom_compact (thr : Int) {o U : Int} {tb : TailBitmap} (h : TbDom o U tb) :
    TbDom o U (tb.compact thr) ∧ tb.offset ≤ (tb.compact thr).offset ∧ tbEnd (tb.compact thr) = tbEnd tb := by
  have h1 := dropOnes_end tb.words tb.offset
  have h2 := dropOnes_ge tb.words tb.offset
  have he : tbEnd (tb.compact thr) = tbEnd tb := by
    unfold tbEnd; rw [compact_words, compact_offset]; exact h1
  refine ⟨⟨?_, ?_, by rw [he]; exact h.endU⟩, by rw [compact_offset]; exact h2, he⟩
  · rw [compact_reclaimed]
    split
    · have := h.olo; omega
    · exact h.rlo
  · rw [compact_reclaimed, compact_offset]
    split
    · exact Int.le_refl _
    · have := h.rhi; omega

/-- `Set idx` with `idx < U` keeps the range invariant (`Offset` and `U` multiples of 64) -/
theorem dom_set (thr : Int) {o U : Int} {tb : TailBitmap} (i : Int) (h : TbDom o U tb) (hd : (64 : Int) ∣ tb.offset)
    (hU : (64 : Int) ∣ U) (hi : i < U) : TbDom o U (tb.set thr i) := by
  by_cases hlt : i < tb.offset
  · rw [set_lt thr hlt]; exact h
  · simp only [TailBitmap.set, if_neg hlt]
    generalize hk : (i - tb.offset).toNat = k
    have hki : tb.offset + (k : Int) = i := by omega
    have hlen : ((tb.words ++ zeros (k / 64 + 1 - tb.words.length)).set (k / 64)
        ((tb.words ++ zeros (k / 64 + 1 - tb.words.length)).getD (k / 64) 0 ||| bit (k % 64))).length
          = max tb.words.length (k / 64 + 1) := by
      simp only [List.length_set, List.length_append, zeros, List.length_replicate]; omega
    generalize (tb.words ++ zeros (k / 64 + 1 - tb.words.length)).set (k / 64)
      ((tb.words ++ zeros (k / 64 + 1 - tb.words.length)).getD (k / 64) 0 ||| bit (k % 64)) = ws2 at *
    have hdom' : TbDom o U { tb with words := ws2 } := by
      refine ⟨h.rlo, h.rhi, ?_⟩
      have he := h.endU
      unfold tbEnd at *
      simp only [hlen]
      obtain ⟨a, ha⟩ := hd
      obtain ⟨b, hb⟩ := hU
      omega
    split
    · exact (dom_compact thr hdom').1
    · exact hdom'

end Low.E2E2L
