import LowProofs.E2E.C14
import LowProofs.Tie3.bitmap_Join
import LowProofs.Tie3.bitmap_Slice
/-
  C14 end to end, second batch: `C14_join` and `C14_slice` stated PURELY about definitions REGENERATED from the go/ssa
  form of `bitmap.Join`, `bitmap.Slice` (`Generated/Ssa3/*.lean`; loops are recursion on `fuel`) and `bitmap.Getw`
  (`Generated/Ssa/bitmap_Getw.lean`), the latter called on the bitmap the GENERATED `Join` returned.  No model function
  occurs in the statements: only generated code and the specifications `bitAt`, `WordsOK`.
  (Composition of `Tie_bitmap_Join`, `Tie_bitmap_Slice_dom`, `Tie_bitmap_Getw` with `C14_join`, `C14_slice`.)
-/
namespace Low

/-- `C14_join` on generated code.  For a legal width `w ∈ {1,2,4,…,64}`, values `vs` (arbitrary naturals, possibly with
    bits above `w`) with `len(vs) * w < 2^31` (the code of `Getw` computes `i * w` in `int32`) and EVERY
    `fuel ≥ len(vs) + 1`: the code of `Join(vs, w)` (regenerated from its SSA form) terminates, does not panic and returns
    `ceil(len*w/64)` words, each a `uint64`; the code of `Getw` (regenerated) on THAT result returns, without panic, the low
    `w` bits of `vs[i]` for every index `i < len(vs)`; and no bit at or above `len*w` is set -- which together account
    for every bit of the result.
    Hypotheses: `w ∈ [1,2,4,8,16,32,64]`, `vs.length * w < 2^31`, `vs.length + 1 ≤ fuel`.  The ties' hypotheses
    `w ≤ 64`, `vs.length < 2^56`, `i * w < 2^31` are proved from these. -/
theorem E2E_C14_join (vs : List Nat) (w fuel : Nat) (hw : w ∈ [1, 2, 4, 8, 16, 32, 64])
    (hdom : vs.length * w < 2^31) (hfuel : vs.length + 1 ≤ fuel) :
    ∃ r, Gen.Ssa3.bitmap_Join fuel vs (w : Int) = some r ∧ r.length = (vs.length * w + 63) / 64 ∧ WordsOK r ∧
      (∀ i (hi : i < vs.length), Gen.Ssa.bitmap_Getw r (i : Int) (w : Int) = some (vs[i] % 2^w)) ∧
      (∀ j, vs.length * w ≤ j → bitAt r j = false) := by
  have hw1 : 1 ≤ w ∧ w ≤ 64 := by
    simp only [List.mem_cons, List.not_mem_nil, or_false] at hw
    omega
  have hl : vs.length < 2^56 := by
    have : vs.length * 1 ≤ vs.length * w := Nat.mul_le_mul_left _ hw1.1
    omega
  obtain ⟨r, h1, h2⟩ := E2E_C14_join_getw vs w hw hdom
  exact ⟨r, by rw [Tie_bitmap_Join vs w fuel hw1.2 hl hfuel, h1], h2⟩

/-- `C14_slice` on generated code.  For a bitmap `ws` of fewer than `2^25` words (`BmDom`: positions are `int32`
    values), `0 ≤ from ≤ to ≤ 64*len(ws)` and EVERY `fuel ≥ to - from + 1`: the code of `Slice(ws, from, to)`
    (regenerated from its SSA form, as repaired) terminates, does not panic, and returns exactly
    `ceil((to-from)/64)` words, each a `uint64`, whose bit `j` is bit `from + j` of the input for `j < to - from` and 0
    for every other `j`.
    Hypotheses: `ws.length < 2^25`, `frm ≤ to`, `to ≤ 64 * ws.length`, `to - frm + 1 ≤ fuel`.  The tie's `to < 2^31`
    is proved from these. -/
theorem E2E_C14_slice (ws : List Nat) (frm to fuel : Nat) (hlen : ws.length < 2^25) (hft : frm ≤ to)
    (hto : to ≤ 64 * ws.length) (hfuel : to - frm + 1 ≤ fuel) :
    ∃ r, Gen.Ssa3.bitmap_Slice fuel ws (frm : Int) (to : Int) = some r ∧ r.length = (to - frm + 63) / 64 ∧ WordsOK r ∧
      ∀ j, bitAt r j = (decide (j < to - frm) && bitAt ws (frm + j)) := by
  rw [Tie_bitmap_Slice_dom ws frm to fuel hft (by omega) hlen hfuel]
  exact C14_slice ws frm to hft hto

/-! non-vacuity: generated `Join` then generated `Getw`; generated `Slice` over an unaligned two-word range -/
example : Gen.Ssa3.bitmap_Join 6 [0x1ffff, 2, 0xabcd, 0x7fff0004, 5] 16 = some [0x0004abcd0002ffff, 5] := by
  decide +kernel
example : (Gen.Ssa3.bitmap_Join 6 [0x1ffff, 2, 0xabcd, 0x7fff0004, 5] 16).bind
    (fun r => Gen.Ssa.bitmap_Getw r 3 16) = some 4 := by decide +kernel
example : Gen.Ssa3.bitmap_Slice 71 [2^60 + 2^63, 1, 2] 60 130 = some [1 + 2^3 + 2^4, 2^5] := by decide +kernel
example : ∃ r, Gen.Ssa3.bitmap_Slice 71 [2^60 + 2^63, 1, 2] ((60 : Nat) : Int) ((130 : Nat) : Int) = some r ∧
      r.length = (130 - 60 + 63) / 64 ∧ WordsOK r ∧
      ∀ j, bitAt r j = (decide (j < 130 - 60) && bitAt [2^60 + 2^63, 1, 2] (60 + j)) :=
  E2E_C14_slice _ 60 130 71 (by decide) (by decide) (by decide) (by decide)

end Low
