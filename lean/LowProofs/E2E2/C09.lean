import LowProofs.E2E.C09
import LowProofs.Tie3.bitstr_New
/-
  C09 end to end, second batch: `C09_new`, `C09_cmp` (+ `C09_cmp_eq_zero`, `C09_cmp_antisymm`), `C09_cmpUpto` stated
  PURELY about definitions REGENERATED from the go/ssa form of `bitstr.New` (`Generated/Ssa3/bitstr_New.lean`: the byte
  slice it allocates is a functional list), `bitstr.Len` (`Generated/Ssa/`), `bitstr.Cmp`, `bitstr.CmpUpto`
  (`Generated/Ssa2/`), the latter three called on the encodings the GENERATED `New` returned.  No model function occurs
  in the statements: only generated code and the specifications `bitsBE`, `bsPayload`, `lexCmp`, `BytesOK`.
  (`StrCmpUpto` reinterprets a string header through `unsafe` and has no regenerated definition.)

  Domain.  `New` computes `toBit + 7` in `int32`: the hypothesis `t + 7 < 2^31` on the INPUT `toBit` (implied by
  `len(s) + 1 < 2^28` and `t ≤ 8*len(s)`, which the `Len` clause needs anyway).
-/
namespace Low
open Low.E2EL Low.C09L

/-- `C09_new` on generated code.  For a byte string `s` with `len(s) + 1 < 2^28` and `0 ≤ from ≤ to ≤ 8*len(s)`: the
    code of `New(s, from, to)` (regenerated from its SSA form) does not panic and returns bytes `enc` on which the code
    of `Len` (regenerated) returns, without panic, the length in bits of the bit string `s[8*floor(from/8), to)`; the
    first `Len` bits of `enc` are exactly that bit string.
    Hypotheses: `BytesOK s`, `f ≤ t`, `t ≤ 8 * s.length`, `s.length + 1 < 2^28` (it gives the ties' `f < 2^31`,
    `t + 7 < 2^31`, `len(enc) < 2^28`). -/
theorem E2E_C09_new (s : List Nat) (hs : BytesOK s) (f t : Nat) (hft : f ≤ t) (ht : t ≤ 8 * s.length)
    (hlen : s.length + 1 < 2^28) :
    ∃ enc, Gen.Ssa3.bitstr_New s (f : Int) (t : Int) = some enc ∧ BytesOK enc ∧
      Gen.Ssa.bitstr_Len enc = some ((t : Int) - 8 * ((f / 8 : Nat) : Int)) ∧
      (bitsBE enc).take (t - 8 * (f / 8)) = bsPayload s f t := by
  rw [Tie_bitstr_New s f t (by omega) (by omega)]
  exact E2E_C09_new_len s hs f t hft ht hlen

/-- `C09_cmp` on generated code.  The code of `New` (regenerated) on `(s, f, t)` and on `(s', f', t')` does not panic,
    and the code of `Cmp` (regenerated) on the two encodings it returned does not panic and returns the sign of the
    lexicographic comparison of the two bit strings `s[8⌊f/8⌋, t)`, `s'[8⌊f'/8⌋, t')`, a proper prefix sorting first.
    Hypotheses: `BytesOK s`, `f ≤ t`, `t ≤ 8 * s.length`, `t + 7 < 2^31`, `s.length + 1 < 2^63` (a Go length fits an
    `int`), and the same for the primed inputs. -/
theorem E2E_C09_cmp_full (s : List Nat) (hs : BytesOK s) (f t : Nat) (hft : f ≤ t) (ht : t ≤ 8 * s.length)
    (s' : List Nat) (hs' : BytesOK s') (f' t' : Nat) (hft' : f' ≤ t') (ht' : t' ≤ 8 * s'.length)
    (hdom : t + 7 < 2^31) (hdom' : t' + 7 < 2^31) (hlen : s.length + 1 < 2^63) (hlen' : s'.length + 1 < 2^63) :
    ∃ enc enc', Gen.Ssa3.bitstr_New s (f : Int) (t : Int) = some enc ∧
      Gen.Ssa3.bitstr_New s' (f' : Int) (t' : Int) = some enc' ∧
      Gen.Ssa2.bitstr_Cmp enc enc' = some (lexCmp (bsPayload s f t) (bsPayload s' f' t')) := by
  obtain ⟨enc, he, _⟩ := C09_new s hs f t hft ht
  obtain ⟨enc', he', _⟩ := C09_new s' hs' f' t' hft' ht'
  refine ⟨enc, enc', by rw [Tie_bitstr_New s f t (by omega) hdom, he],
    by rw [Tie_bitstr_New s' f' t' (by omega) hdom', he'], ?_⟩
  exact E2E_C09_cmp s hs f t hft ht s' hs' f' t' hft' ht' hlen hlen' enc enc' he he'

/-- consequences of `E2E_C09_cmp_full` and the order laws of `lexCmp`, on generated code: `Cmp` of two encodings made
    by `New` is `0` exactly when the two bit strings are equal, and swapping the arguments negates the result. -/
theorem E2E_C09_cmp_laws (s : List Nat) (hs : BytesOK s) (f t : Nat) (hft : f ≤ t) (ht : t ≤ 8 * s.length)
    (s' : List Nat) (hs' : BytesOK s') (f' t' : Nat) (hft' : f' ≤ t') (ht' : t' ≤ 8 * s'.length)
    (hdom : t + 7 < 2^31) (hdom' : t' + 7 < 2^31) (hlen : s.length + 1 < 2^63) (hlen' : s'.length + 1 < 2^63) :
    ∃ enc enc' r, Gen.Ssa3.bitstr_New s (f : Int) (t : Int) = some enc ∧
      Gen.Ssa3.bitstr_New s' (f' : Int) (t' : Int) = some enc' ∧
      Gen.Ssa2.bitstr_Cmp enc enc' = some r ∧ Gen.Ssa2.bitstr_Cmp enc' enc = some (-r) ∧
      (r = 0 ↔ bsPayload s f t = bsPayload s' f' t') ∧ (r = -1 ∨ r = 0 ∨ r = 1) := by
  obtain ⟨enc, enc', h1, h2, h3⟩ := E2E_C09_cmp_full s hs f t hft ht s' hs' f' t' hft' ht' hdom hdom' hlen hlen'
  obtain ⟨enc2, enc1, h2', h1', h4⟩ := E2E_C09_cmp_full s' hs' f' t' hft' ht' s hs f t hft ht hdom' hdom hlen' hlen
  rw [h1] at h1'; rw [h2] at h2'
  cases h1'; cases h2'
  refine ⟨enc, enc', _, h1, h2, h3, ?_, lexCmp_eq_zero _ _, lexCmp_range _ _⟩
  rw [h4, lexCmp_antisymm]

/-- `C09_cmpUpto` on generated code.  For plain bytes `a` of ANY length, the code of `New(s, f, t)` (regenerated) does
    not panic, and the code of `CmpUpto` (regenerated) on `a` and the encoding it returned, for EVERY `fuel ≥ 9`,
    terminates, does not panic, and returns the sign of comparing the first `Len(enc)` bits of `a` (all of `a` when
    shorter) with the encoded bit string.
    Hypotheses: `BytesOK a`, `BytesOK s`, `f ≤ t`, `t ≤ 8 * s.length`, `t + 7 < 2^31`, `s.length + 1 < 2^63`,
    `9 ≤ fuel`. -/
theorem E2E_C09_cmpUpto_full (a : List Nat) (ha : BytesOK a)
    (s : List Nat) (hs : BytesOK s) (f t : Nat) (hft : f ≤ t) (ht : t ≤ 8 * s.length)
    (hdom : t + 7 < 2^31) (hlen : s.length + 1 < 2^63) (fuel : Nat) (hfuel : 9 ≤ fuel) :
    ∃ enc, Gen.Ssa3.bitstr_New s (f : Int) (t : Int) = some enc ∧
      Gen.Ssa2.bitstr_CmpUpto fuel a enc
        = some (lexCmp ((bitsBE a).take (t - 8 * (f / 8))) (bsPayload s f t)) := by
  obtain ⟨enc, he, _⟩ := C09_new s hs f t hft ht
  exact ⟨enc, by rw [Tie_bitstr_New s f t (by omega) hdom, he],
    E2E_C09_cmpUpto a ha s hs f t hft ht hlen fuel hfuel enc he⟩

/-! non-vacuity: `New("abc", 5, 12) = 61 60 f0` by the generated code, then generated `Len` / `Cmp` / `CmpUpto` -/
example : Gen.Ssa3.bitstr_New [0x61, 0x62, 0x63] 5 12 = some [0x61, 0x60, 0xf0] := by decide +kernel
example : (Gen.Ssa3.bitstr_New [0x61, 0x62, 0x63] 5 12).bind Gen.Ssa.bitstr_Len = some 12 := by decide +kernel
example : (Gen.Ssa3.bitstr_New [0x61, 0x62, 0x63] 5 12).bind (fun e =>
    (Gen.Ssa3.bitstr_New [0x61, 0x62, 0x7f] 0 16).bind (fun e' => Gen.Ssa2.bitstr_Cmp e e')) = some (-1) := by
  decide +kernel
example : (Gen.Ssa3.bitstr_New [0x61, 0x62, 0x63] 5 12).bind (Gen.Ssa2.bitstr_CmpUpto 9 [0x61, 0x6f, 0x00]) = some 0 := by
  decide +kernel
example := E2E_C09_new [0x61, 0x62, 0x63] (by unfold BytesOK; decide) 5 12 (by decide) (by decide) (by decide)

end Low
