import LowProofs.E2E.C01
import LowProofs.Tie3.bitmap_IndexRank64
import LowProofs.Tie3.bitmap_IndexRank128
/-
  C01 end to end, second batch: every clause of `Props/C01.lean` stated PURELY about definitions REGENERATED from the
  go/ssa form of the code: the index builders `bitmap.IndexRank64` / `bitmap.IndexRank128`
  (`Generated/Ssa3/*.lean`, loops are recursion on `fuel`) and the queries `bitmap.Rank64` / `bitmap.Rank128`
  (`Generated/Ssa/*.lean`) called on the index the GENERATED builder returned.  No model function occurs in the
  statements: only generated code and the specifications `rank`, `bitAt`.
  (Composition of `Tie_bitmap_IndexRank64/128` with `E2E_C01_rank64/128` and `C01_indexRank64/128`.)
-/
namespace Low
open Low.E2EL

/-- `C01_indexRank64` on the generated builder.  The code of `IndexRank64(words, opts...)` (regenerated from its SSA
    form), for a bitmap of fewer than `2^25` words (`BmDom`), any `opts` (only `opts[0]` is read; absent = `false`)
    and EVERY `fuel ≥ len(words) + 1`: terminates, does not panic and returns one entry per word -- entry `k` = the
    number of 1-bits before position `64 k` -- plus one final grand-total entry exactly when `trailing = opts[0]` is set.
    Hypotheses: `ws.length < 2^25`, `ws.length + 1 ≤ fuel`. -/
theorem E2E_C01_indexRank64 (ws : List Nat) (opts : List Bool) (fuel : Nat) (hlen : ws.length < 2^25)
    (hfuel : ws.length + 1 ≤ fuel) :
    Gen.Ssa3.bitmap_IndexRank64 fuel ws opts
      = some ((List.range (ws.length + (opts.headD false).toNat)).map (fun k => (rank ws (64 * k) : Int))) := by
  rw [Tie_bitmap_IndexRank64 ws opts fuel hlen hfuel, C01_indexRank64, List.map_map]
  rfl

/-- `C01_indexRank128` on the generated builder.  The code of `IndexRank128(words)` (regenerated from its SSA form), for
    a bitmap of fewer than `2^25` words and EVERY `fuel ≥ len(words) + 1`: terminates, does not panic and returns
    `len/2 + 1` entries, entry `k` = the number of 1-bits before position `128 k`.
    Hypotheses: `ws.length < 2^25`, `ws.length + 1 ≤ fuel`. -/
theorem E2E_C01_indexRank128 (ws : List Nat) (fuel : Nat) (hlen : ws.length < 2^25) (hfuel : ws.length + 1 ≤ fuel) :
    Gen.Ssa3.bitmap_IndexRank128 fuel ws
      = some ((List.range (ws.length / 2 + 1)).map (fun k => (rank ws (128 * k) : Int))) := by
  rw [Tie_bitmap_IndexRank128 ws fuel hlen hfuel, C01_indexRank128, List.map_map]
  rfl

/-- `C01_rank64`, builder and query both generated.  For a bitmap of fewer than `2^25` words, any `opts` (either value of
    `trailing`) and every `fuel ≥ len + 1`: the code of `IndexRank64` returns an index `idx` (no panic), and the code
    of `Rank64` called with THAT index returns, for every position `i` inside the bitmap, without panic, exactly
    (number of 1-bits of `ws` before `i`, bit `i` of `ws`).
    Hypotheses: `ws.length < 2^25`, `ws.length + 1 ≤ fuel`; per query `i < 64 * ws.length`. -/
theorem E2E_C01_rank64_full (ws : List Nat) (opts : List Bool) (fuel : Nat) (hlen : ws.length < 2^25)
    (hfuel : ws.length + 1 ≤ fuel) :
    ∃ idx, Gen.Ssa3.bitmap_IndexRank64 fuel ws opts = some idx ∧
      ∀ i, i < 64 * ws.length →
        Gen.Ssa.bitmap_Rank64 ws idx (i : Int) = some ((rank ws i : Int), ((bitAt ws i).toNat : Int)) :=
  ⟨_, Tie_bitmap_IndexRank64 ws opts fuel hlen hfuel, fun i hi => E2E_C01_rank64 ws _ i hlen hi⟩

/-- the same as one equation: build the index with the generated `IndexRank64`, then query with the generated `Rank64` -/
theorem E2E_C01_rank64_bind (ws : List Nat) (opts : List Bool) (fuel i : Nat) (hlen : ws.length < 2^25)
    (hfuel : ws.length + 1 ≤ fuel) (hi : i < 64 * ws.length) :
    (Gen.Ssa3.bitmap_IndexRank64 fuel ws opts).bind (fun idx => Gen.Ssa.bitmap_Rank64 ws idx (i : Int))
      = some ((rank ws i : Int), ((bitAt ws i).toNat : Int)) := by
  rw [Tie_bitmap_IndexRank64 ws opts fuel hlen hfuel, Option.bind_some]
  exact E2E_C01_rank64 ws _ i hlen hi

/-- `C01_rank128`, builder and query both generated.  For a bitmap of fewer than `2^25` words and every
    `fuel ≥ len + 1`: the code of `IndexRank128` returns an index `idx` (no panic), and the code of `Rank128` called
    with THAT index returns, for every position `i` inside the bitmap, without panic, exactly
    (number of 1-bits of `ws` before `i`, bit `i` of `ws`).
    Hypotheses: `ws.length < 2^25`, `ws.length + 1 ≤ fuel`; per query `i < 64 * ws.length`. -/
theorem E2E_C01_rank128_full (ws : List Nat) (fuel : Nat) (hlen : ws.length < 2^25) (hfuel : ws.length + 1 ≤ fuel) :
    ∃ idx, Gen.Ssa3.bitmap_IndexRank128 fuel ws = some idx ∧
      ∀ i, i < 64 * ws.length →
        Gen.Ssa.bitmap_Rank128 ws idx (i : Int) = some ((rank ws i : Int), ((bitAt ws i).toNat : Int)) :=
  ⟨_, Tie_bitmap_IndexRank128 ws fuel hlen hfuel, fun i hi => E2E_C01_rank128 ws i hlen hi⟩

/-- the same as one equation -/
theorem E2E_C01_rank128_bind (ws : List Nat) (fuel i : Nat) (hlen : ws.length < 2^25)
    (hfuel : ws.length + 1 ≤ fuel) (hi : i < 64 * ws.length) :
    (Gen.Ssa3.bitmap_IndexRank128 fuel ws).bind (fun idx => Gen.Ssa.bitmap_Rank128 ws idx (i : Int))
      = some ((rank ws i : Int), ((bitAt ws i).toNat : Int)) := by
  rw [Tie_bitmap_IndexRank128 ws fuel hlen hfuel, Option.bind_some]
  exact E2E_C01_rank128 ws i hlen hi

/-! non-vacuity: generated builder, then generated query, on a concrete bitmap (odd length for Rank128) -/
example : Gen.Ssa3.bitmap_IndexRank64 4 [5, 2^63, 7] [true] = some [0, 2, 3, 6] := by decide
example : (Gen.Ssa3.bitmap_IndexRank64 4 [5, 2^63, 7] [true]).bind (fun idx => Gen.Ssa.bitmap_Rank64 [5, 2^63, 7] idx 127)
    = some (2, 1) := by decide
example : (Gen.Ssa3.bitmap_IndexRank64 4 [5, 2^63, 7] []).bind (fun idx => Gen.Ssa.bitmap_Rank64 [5, 2^63, 7] idx 130)
    = some (5, 1) := by decide
example : Gen.Ssa3.bitmap_IndexRank128 4 [5, 2^63, 7] = some [0, 3] := by decide
example : (Gen.Ssa3.bitmap_IndexRank128 4 [5, 2^63, 7]).bind (fun idx => Gen.Ssa.bitmap_Rank128 [5, 2^63, 7] idx 131)
    = some (6, 0) := by decide
example : (Gen.Ssa3.bitmap_IndexRank64 4 [5, 2^63, 7] [true]).bind
      (fun idx => Gen.Ssa.bitmap_Rank64 [5, 2^63, 7] idx ((127 : Nat) : Int))
    = some ((rank [5, 2^63, 7] 127 : Int), ((bitAt [5, 2^63, 7] 127).toNat : Int)) :=
  E2E_C01_rank64_bind [5, 2^63, 7] [true] 4 127 (by decide) (by decide) (by decide)

end Low
