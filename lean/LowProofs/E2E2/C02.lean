import LowProofs.E2E.C02
import LowProofs.Tie3.bitmap_IndexRank64
import LowProofs.Tie3.bitmap_IndexSelect32
import LowProofs.Tie3.bitmap_IndexSelect32R64
/-
  C02 end to end, second batch: `C02_indexSelect32`, `C02_indexSelect32R64`, `C02_select32`, `C02_select32R64` stated
  PURELY about definitions REGENERATED from the go/ssa form of the code: the index builders `bitmap.IndexSelect32`,
  `bitmap.IndexSelect32R64` (`Generated/Ssa3/*.lean`; the latter calls the regenerated `IndexRank64`) and the queries
  `bitmap.Select32`, `bitmap.Select32R64` (`Generated/Ssa2/*.lean`) called on the indexes the GENERATED builders
  returned.  No model function occurs in the statements: only generated code and the specifications `ones`, `rank`.
-/
namespace Low
open Low.E2EL

/-- `C02_indexSelect32` on the generated builder.  The code of `IndexSelect32(words)` (regenerated from its SSA form),
    for a bitmap of fewer than `2^25` words (`BmDom`; no hypothesis on the words) and EVERY `fuel ≥ 64*len + 1`:
    terminates, does not panic and lists the position of every 32nd 1-bit: `ceil(n/32)` entries, entry `k` is the
    position of the `(32k)`-th 1-bit.
    Hypotheses: `ws.length < 2^25`, `64 * ws.length + 1 ≤ fuel`. -/
theorem E2E_C02_indexSelect32 (ws : List Nat) (fuel : Nat) (hlen : ws.length < 2^25)
    (hfuel : 64 * ws.length + 1 ≤ fuel) :
    Gen.Ssa3.bitmap_IndexSelect32 fuel ws
      = some ((List.range (((ones ws).length + 31) / 32)).map (fun k => ((ones ws).getD (32 * k) 0 : Int))) := by
  rw [Tie_bitmap_IndexSelect32 ws fuel hlen hfuel, C02_indexSelect32, List.map_map]
  rfl

/-- `C02_indexSelect32R64` on the generated builder.  The code of `IndexSelect32R64(words)` (regenerated), under the same
    conditions, returns the same select index together with the rank index with the trailing grand total:
    `len + 1` entries, entry `k` = number of 1-bits before position `64 k`.
    Hypotheses: `ws.length < 2^25`, `64 * ws.length + 1 ≤ fuel`. -/
theorem E2E_C02_indexSelect32R64 (ws : List Nat) (fuel : Nat) (hlen : ws.length < 2^25)
    (hfuel : 64 * ws.length + 1 ≤ fuel) :
    Gen.Ssa3.bitmap_IndexSelect32R64 fuel ws
      = some ((List.range (((ones ws).length + 31) / 32)).map (fun k => ((ones ws).getD (32 * k) 0 : Int)),
              (List.range (ws.length + 1)).map (fun k => (rank ws (64 * k) : Int))) := by
  rw [Tie_bitmap_IndexSelect32R64 ws fuel hlen hfuel, C02_indexSelect32R64]
  simp only [C02_indexSelect32, C01_indexRank64, List.map_map, Bool.toNat_true]
  rfl

/-- `C02_select32`, builder and query both generated.  For a bitmap of fewer than `2^25` `uint64` words and every
    `fuel ≥ 64*len + 1`: the code of `IndexSelect32` returns an index `sidx` (no panic), and the code of `Select32`
    called with THAT index and any `fuel' ≥ len + 1` returns, for every `i` below the number of 1-bits, without panic,
    exactly (position of the `i`-th 1-bit, position of the `(i+1)`-th 1-bit or `64*len` when `i` is the last).
    Hypotheses: `ws.length < 2^25`, `WordsOK ws`, `64 * ws.length + 1 ≤ fuel`; per query `i < (ones ws).length`,
    `ws.length + 1 ≤ fuel'`. -/
theorem E2E_C02_select32_full (ws : List Nat) (fuel : Nat) (hlen : ws.length < 2^25) (hok : WordsOK ws)
    (hfuel : 64 * ws.length + 1 ≤ fuel) :
    ∃ sidx, Gen.Ssa3.bitmap_IndexSelect32 fuel ws = some sidx ∧
      ∀ (i fuel' : Nat) (hi : i < (ones ws).length), ws.length + 1 ≤ fuel' →
        Gen.Ssa2.bitmap_Select32 fuel' ws sidx (i : Int)
          = some (((ones ws)[i] : Int), ((ones ws).getD (i + 1) (64 * ws.length) : Int)) :=
  ⟨_, Tie_bitmap_IndexSelect32 ws fuel hlen hfuel, fun i fuel' hi hf => E2E_C02_select32 ws hlen hok i fuel' hi hf⟩

/-- the same as one equation -/
theorem E2E_C02_select32_bind (ws : List Nat) (fuel fuel' i : Nat) (hlen : ws.length < 2^25) (hok : WordsOK ws)
    (hfuel : 64 * ws.length + 1 ≤ fuel) (hfuel' : ws.length + 1 ≤ fuel') (hi : i < (ones ws).length) :
    (Gen.Ssa3.bitmap_IndexSelect32 fuel ws).bind (fun sidx => Gen.Ssa2.bitmap_Select32 fuel' ws sidx (i : Int))
      = some (((ones ws)[i] : Int), ((ones ws).getD (i + 1) (64 * ws.length) : Int)) := by
  rw [Tie_bitmap_IndexSelect32 ws fuel hlen hfuel, Option.bind_some]
  exact E2E_C02_select32 ws hlen hok i fuel' hi hfuel'

/-- `C02_select32R64`, builder and query both generated.  Under the same conditions the code of `IndexSelect32R64`
    returns a pair of indexes `(sidx, ridx)` (no panic), and the code of `Select32R64` called with THAT pair and any
    `fuel' ≥ len + 2` returns the same pair of positions for every `i` below the number of 1-bits.
    Hypotheses: `ws.length < 2^25`, `WordsOK ws`, `64 * ws.length + 1 ≤ fuel`; per query `i < (ones ws).length`,
    `ws.length + 2 ≤ fuel'`. -/
theorem E2E_C02_select32R64_full (ws : List Nat) (fuel : Nat) (hlen : ws.length < 2^25) (hok : WordsOK ws)
    (hfuel : 64 * ws.length + 1 ≤ fuel) :
    ∃ sidx ridx, Gen.Ssa3.bitmap_IndexSelect32R64 fuel ws = some (sidx, ridx) ∧
      ∀ (i fuel' : Nat) (hi : i < (ones ws).length), ws.length + 2 ≤ fuel' →
        Gen.Ssa2.bitmap_Select32R64 fuel' ws sidx ridx (i : Int)
          = some (((ones ws)[i] : Int), ((ones ws).getD (i + 1) (64 * ws.length) : Int)) :=
  ⟨_, _, Tie_bitmap_IndexSelect32R64 ws fuel hlen hfuel,
    fun i fuel' hi hf => E2E_C02_select32R64 ws hlen hok i fuel' hi hf⟩

/-- the same as one equation -/
theorem E2E_C02_select32R64_bind (ws : List Nat) (fuel fuel' i : Nat) (hlen : ws.length < 2^25) (hok : WordsOK ws)
    (hfuel : 64 * ws.length + 1 ≤ fuel) (hfuel' : ws.length + 2 ≤ fuel') (hi : i < (ones ws).length) :
    (Gen.Ssa3.bitmap_IndexSelect32R64 fuel ws).bind
        (fun p => Gen.Ssa2.bitmap_Select32R64 fuel' ws p.1 p.2 (i : Int))
      = some (((ones ws)[i] : Int), ((ones ws).getD (i + 1) (64 * ws.length) : Int)) := by
  rw [Tie_bitmap_IndexSelect32R64 ws fuel hlen hfuel, Option.bind_some]
  exact E2E_C02_select32R64 ws hlen hok i fuel' hi hfuel'

/-! non-vacuity: 66 one-bits over three words with an empty word in the middle -/
set_option maxRecDepth 8000 in
example : Gen.Ssa3.bitmap_IndexSelect32 193 [2^64 - 1, 0, 2^63 + 1] = some [0, 32, 128] := by decide +kernel
set_option maxRecDepth 8000 in
example : (Gen.Ssa3.bitmap_IndexSelect32 193 [2^64 - 1, 0, 2^63 + 1]).bind
    (fun sidx => Gen.Ssa2.bitmap_Select32 4 [2^64 - 1, 0, 2^63 + 1] sidx 63) = some (63, 128) := by decide +kernel
set_option maxRecDepth 8000 in
example : (Gen.Ssa3.bitmap_IndexSelect32R64 193 [2^64 - 1, 0, 2^63 + 1]).bind
    (fun p => Gen.Ssa2.bitmap_Select32R64 5 [2^64 - 1, 0, 2^63 + 1] p.1 p.2 65) = some (191, 192) := by decide +kernel

end Low
