import LowProofs.Props.C16
import LowProofs.Tie3.sigbits_sFirstDiffBit
import LowProofs.Tie3.sigbits_FirstDiffBits
import LowProofs.Tie3.sigbits_countPrefixes
import LowProofs.Tie3.sigbits_SigBits_CountPrefixes
/-
  C16 end to end: `C16_sFirstDiffBit`, `C16_firstDiffBits`, `C16_count` stated PURELY about definitions REGENERATED from
  the go/ssa form of `sigbits.sFirstDiffBit`, `sigbits.FirstDiffBits`, `(*SigBits).CountPrefixes` (which calls the
  regenerated `countPrefixes`) (`Generated/Ssa3/sigbits_*.lean`; loops are recursion on `fuel`).  A `SigBits` receiver is
  passed field by field (`keys`, `sigbits`); the constructor `New` is `FirstDiffBits` plus a struct literal, so the
  `sigbits` field the `CountPrefixes` theorem uses is the result of the GENERATED `FirstDiffBits`.  No model function
  occurs in the statements: only generated code and the specifications `fdSpec`, `truncBits`, `distinctCount`.
  (C17's `ShardByPrefix` is a recursive closure and has no regenerated definition.)

  Domain (DESIGN 3.1): keys shorter than `2^28` bytes (bit positions are `int32`), fewer than `2^31` keys (key indices
  are `int32`).
-/
namespace Low
open Low.C16L

/-- a first-difference position lies inside the first key: `fdSpec a b ≤ 8 * len(a)` -/
private theorem fdSpec_le (a b : List Nat) : fdSpec a b ≤ 8 * a.length := by
  have := lcp_le_left (bitsBE a) (bitsBE b)
  rw [bitsBE_length] at this
  exact this

/-- `C16_sFirstDiffBit` on generated code.  The code of `sFirstDiffBit(a, b)` (regenerated from its SSA form), for byte
    strings shorter than `2^28` bytes and EVERY `fuel ≥ len(a)/8 + 2`: terminates, does not panic and returns the length
    of the longest common prefix of the two big-endian bit strings: the index of the first differing bit, or
    `8 * min len` when one key is a byte prefix of the other (`fdSpec`, see `C16_fdSpec_*` for its reading).
    Hypotheses: `BytesOK a`, `BytesOK b`, `a.length < 2^28`, `b.length < 2^28`, `a.length / 8 + 2 ≤ fuel`. -/
theorem E2E_C16_sFirstDiffBit (a b : List Nat) (fuel : Nat) (ha : BytesOK a) (hb : BytesOK b)
    (hla : a.length < 2^28) (hlb : b.length < 2^28) (hfuel : a.length / 8 + 2 ≤ fuel) :
    Gen.Ssa3.sigbits_sFirstDiffBit fuel a b = some ((fdSpec a b : Nat) : Int) := by
  rw [Tie_sigbits_sFirstDiffBit a b fuel ha hb hla hlb hfuel, C16_sFirstDiffBit a b ha hb]

/-- `C16_firstDiffBits` on generated code.  The code of `FirstDiffBits(keys)` (regenerated from its SSA form), for a
    non-empty list of byte strings, each shorter than `2^28` bytes, and EVERY `fuel` with `len(keys) ≤ fuel` and
    `len(k)/8 + 2 ≤ fuel` for every key: terminates, does not panic and returns one entry per adjacent pair, the first
    differing bit of the pair.
    Hypotheses: `keys ≠ []`, `∀ k ∈ keys, BytesOK k`, `∀ k ∈ keys, k.length < 2^28`, `keys.length < 2^63` (a Go length
    fits an `int`), the two fuel bounds. -/
theorem E2E_C16_firstDiffBits (keys : List (List Nat)) (fuel : Nat) (hne : keys ≠ []) (hok : ∀ k ∈ keys, BytesOK k)
    (hlen : ∀ k ∈ keys, k.length < 2^28) (hn : keys.length < 2^63) (hfuel1 : keys.length ≤ fuel)
    (hfuel2 : ∀ k ∈ keys, k.length / 8 + 2 ≤ fuel) :
    Gen.Ssa3.sigbits_FirstDiffBits fuel keys = some ((List.zipWith fdSpec keys keys.tail).map Int.ofNat) := by
  rw [Tie_sigbits_FirstDiffBits keys fuel hok hlen hn hfuel1 hfuel2, C16_firstDiffBits keys hne hok]
  rfl

/-- the empty key list makes the code of `FirstDiffBits` panic (`make([]int32, -1)`), whatever the fuel -/
theorem E2E_C16_firstDiffBits_nil (fuel : Nat) : Gen.Ssa3.sigbits_FirstDiffBits fuel [] = none := by
  rw [Tie_sigbits_FirstDiffBits [] fuel (by intro k hk; cases hk) (by intro k hk; cases hk) (by decide)
    (Nat.zero_le _) (by intro k hk; cases hk)]
  rfl

/-- `C16_count` on generated code.  For strictly ascending byte-string keys, each shorter than `2^28` bytes, fewer
    than `2^31` of them, a range `[s, e)` holding at least two keys and `1 ≤ m < 2^31`: the code of `FirstDiffBits(keys)`
    (regenerated; it computes the `sigbits` field `New(keys)` stores) returns `sig` without panic, and the code of
    `CountPrefixes(s, e, m)` (regenerated) on the receiver `(keys, sig)`, for EVERY `fuel' ≥ e + m`, terminates, does not
    panic and returns `(m0, cs)` where `m0` is the smallest first-difference value among the adjacent pairs of
    `keys[s:e]`, there are `m` counters, and the `i`-th is the number of distinct `(m0+i)`-bit prefixes of `keys[s:e]`
    (`truncBits n k` is the whole key when it has fewer than `n` bits).
    Hypotheses (inputs only): `strictAsc keys`, `∀ k ∈ keys, BytesOK k`, `∀ k ∈ keys, k.length < 2^28`,
    `keys.length < 2^31`, `s + 2 ≤ e`, `e ≤ keys.length`, `1 ≤ m`, `m < 2^31`, and the fuel bounds.  The ties'
    hypotheses (every first-difference value `< 2^31`, `e < 2^31`, `8*len(k) ≤ 0x7fffffff`) are proved from these. -/
theorem E2E_C16_count (keys : List (List Nat)) (s e : Nat) (m : Int) (fuel fuel' : Nat)
    (hasc : strictAsc keys = true) (hok : ∀ k ∈ keys, BytesOK k) (hlen : ∀ k ∈ keys, k.length < 2^28)
    (hn : keys.length < 2^31) (hse : s + 2 ≤ e) (he : e ≤ keys.length) (hm : 1 ≤ m) (hm' : m < 2^31)
    (hfuel1 : keys.length ≤ fuel) (hfuel2 : ∀ k ∈ keys, k.length / 8 + 2 ≤ fuel)
    (hfuel' : e + m.toNat ≤ fuel') :
    ∃ (sig : List Int) (m0 : Nat) (cs : List Nat),
      Gen.Ssa3.sigbits_FirstDiffBits fuel keys = some sig ∧
      Gen.Ssa3.sigbits_SigBits_CountPrefixes fuel' keys sig (s : Int) (e : Int) m
        = some ((m0 : Int), cs.map Int.ofNat) ∧
      m0 ∈ List.zipWith fdSpec ((keys.drop s).take (e - s)) ((keys.drop s).take (e - s)).tail ∧
      (∀ d ∈ List.zipWith fdSpec ((keys.drop s).take (e - s)) ((keys.drop s).take (e - s)).tail, m0 ≤ d) ∧
      cs.length = m.toNat ∧
      ∀ i, i < m.toNat →
        cs.getD i 0 = distinctCount (((keys.drop s).take (e - s)).map (truncBits (m0 + i))) := by
  have hne : keys ≠ [] := by intro h; rw [h] at he; simp at he; omega
  have hsig := C16_firstDiffBits keys hne hok
  obtain ⟨m0, cs, h1, h2, h3, h4, h5⟩ := C16_count keys s e m hasc hok
    (fun k hk => by have := hlen k hk; omega) hse he hm
  refine ⟨_, m0, cs, E2E_C16_firstDiffBits keys fuel hne hok hlen (by omega) hfuel1 hfuel2, ?_, h2, h3, h4, h5⟩
  have hfd : ∀ d ∈ List.zipWith fdSpec keys keys.tail, d < 2^31 := by
    intro d hd
    rw [List.mem_iff_getElem] at hd
    obtain ⟨i, hi, rfl⟩ := hd
    rw [List.getElem_zipWith]
    have hi' : i < keys.length := by
      rw [List.length_zipWith] at hi; omega
    have h1 := fdSpec_le keys[i] (keys.tail[i]'(by rw [List.length_zipWith] at hi; omega))
    have h2 := hlen keys[i] (List.getElem_mem hi')
    omega
  rw [Tie_sigbits_SigBits_CountPrefixes keys _ s e m fuel' hsig (by omega) hfd ⟨by omega, hm'⟩ hfuel', h1]
  rfl

/-! non-vacuity: the generated code on the key set of `Props/C16.lean` -/
example : Gen.Ssa3.sigbits_sFirstDiffBit 3 [1, 2, 3, 4, 5, 6, 7, 8, 0x10] [1, 2, 3, 4, 5, 6, 7, 8, 0x18, 3] = some 68 := by
  decide +kernel
example : Gen.Ssa3.sigbits_FirstDiffBits 4 [[97], [97, 0], [97, 1], [98]] = some [8, 15, 6] := by decide +kernel
example : (Gen.Ssa3.sigbits_FirstDiffBits 4 [[97], [97, 0], [97, 1], [98]]).bind
      (fun sig => Gen.Ssa3.sigbits_SigBits_CountPrefixes 16 [[97], [97, 0], [97, 1], [98]] sig 1 4 12)
    = some (6, [1, 2, 2, 2, 2, 2, 2, 2, 2, 2, 3, 3]) := by decide +kernel
example := E2E_C16_count [[97], [97, 0], [97, 1], [98]] 1 4 12 4 16 (by decide)
  (by intro k hk; simp at hk; rcases hk with h | h | h | h <;> subst h <;> unfold BytesOK <;> decide)
  (by decide) (by decide) (by decide) (by decide) (by decide) (by decide) (by decide) (by decide) (by decide)

end Low
