import LowProofs.Props.C17
import LowProofs.Tie4.sigbits_ShardByPrefix
/-
  C17 end to end: every clause of C17 (`C17_total`, `C17_shape`, `C17_size`, `C17_lcp`, `C17_order`, `C17_unique`,
  `C17_shardByPrefix`) stated PURELY about the definition REGENERATED from the go/ssa form of `sigbits.ShardByPrefix`
  (`Generated/Ssa4/sigbits_ShardByPrefix.lean`: the function, its RECURSIVE CLOSURE `dfs` closed with a depth counter,
  and the closure's three loops as recursion on `fuel`; it calls the regenerated `FirstDiffBits` / `sFirstDiffBit`).
  No model function occurs in the statements: only generated code and the specifications `strictAsc`, `lcpAll`,
  `shardOK`.  (Composition of `Tie_sigbits_ShardByPrefix` with the theorems of `Props/C17.lean`.)

  The generated function returns two `[]int32` slices as `List Int`.  The result is stated as
  `some (L.map Int.ofNat, B.map Int.ofNat)` for `Nat` lists `L` (prefix lengths) and `B` (boundaries): this says in
  passing that no entry is negative.  `E2E_C17_total` gives such `L`, `B`; the clause theorems hold for EVERY `L`, `B`
  the generated code returns in that form (they are unique, `Int.ofNat` being injective).

  Domain (DESIGN 3.1; hypotheses about the INPUTS only): `keys` non-empty, strictly ascending, bytes `< 256`, every key
  shorter than `2^28` bytes (bit positions are `int32`), fewer than `2^31` keys (key indices are `int32`),
  `1 ≤ maxSize`.  Fuel: EVERY `fuel` with `len(keys) + 1 ≤ fuel` and `len(k)/8 + 2 ≤ fuel` for every key.
  For `maxSize ≤ 0` the Go function does not terminate: `E2E_C17_diverges`.
-/
namespace Low
open Low.C16L Low.C17L

private theorem map_ofNat_inj : ∀ (a b : List Nat), a.map Int.ofNat = b.map Int.ofNat → a = b
  | [], [], _ => rfl
  | [], _ :: _, h => by simp at h
  | _ :: _, [], h => by simp at h
  | x :: a, y :: b, h => by
    simp only [List.map_cons, List.cons.injEq] at h
    rw [Int.ofNat.inj h.1, map_ofNat_inj a b h.2]

/-- what the generated code returns (in `Nat`-list form) is what the model returns -/
private theorem gen_to_model (keys : List (List Nat)) (maxSize : Int) (fuel : Nat)
    (hok : ∀ k ∈ keys, BytesOK k) (hlen : ∀ k ∈ keys, k.length < 2^28) (hn : keys.length < 2^31) (hm : 1 ≤ maxSize)
    (hfuel1 : keys.length + 1 ≤ fuel) (hfuel2 : ∀ k ∈ keys, k.length / 8 + 2 ≤ fuel) (L B : List Nat)
    (h : Gen.Ssa4.sigbits_ShardByPrefix fuel keys maxSize = some (L.map Int.ofNat, B.map Int.ofNat)) :
    shardByPrefix keys maxSize = some (L, B) := by
  rw [Tie_sigbits_ShardByPrefix keys maxSize fuel hok hlen hn hm hfuel1 hfuel2] at h
  cases hs : shardByPrefix keys maxSize with
  | none => rw [hs] at h; simp at h
  | some r =>
    rw [hs] at h
    simp only [Option.map_some, Option.some.injEq, Prod.mk.injEq] at h
    rw [← map_ofNat_inj _ _ h.1, ← map_ofNat_inj _ _ h.2]

/-- `C17_total` on generated code.  The code of `ShardByPrefix(keys, maxSize)` (regenerated from its SSA form, recursive
    closure included), for EVERY fuel above the bounds: terminates within the fuel, does not panic, and returns two
    slices of non-negative numbers (`L`: prefix lengths, `B`: boundaries).
    Hypotheses (inputs only): `keys ≠ []`, `strictAsc keys` (not needed for this clause), `∀ k ∈ keys, BytesOK k`,
    `∀ k ∈ keys, k.length < 2^28`, `keys.length < 2^31`, `1 ≤ maxSize`, `keys.length + 1 ≤ fuel`,
    `∀ k ∈ keys, k.length / 8 + 2 ≤ fuel`. -/
theorem E2E_C17_total (keys : List (List Nat)) (maxSize : Int) (fuel : Nat) (hne : keys ≠ [])
    (_hasc : strictAsc keys = true) (hok : ∀ k ∈ keys, BytesOK k) (hlen : ∀ k ∈ keys, k.length < 2^28)
    (hn : keys.length < 2^31) (hm : 1 ≤ maxSize)
    (hfuel1 : keys.length + 1 ≤ fuel) (hfuel2 : ∀ k ∈ keys, k.length / 8 + 2 ≤ fuel) :
    ∃ L B : List Nat,
      Gen.Ssa4.sigbits_ShardByPrefix fuel keys maxSize = some (L.map Int.ofNat, B.map Int.ofNat) := by
  obtain ⟨L, B, h⟩ := C17_total keys maxSize hne _hasc hok hm
  exact ⟨L, B, by rw [Tie_sigbits_ShardByPrefix keys maxSize fuel hok hlen hn hm hfuel1 hfuel2, h]; rfl⟩

/-- `C17_shape` on generated code.  Whatever `(L, B)` the generated `ShardByPrefix` returns: there are `len(L) + 1`
    boundaries and `0 = B[0] < B[1] < … < B[len(L)] = len(keys)`.  Hypotheses: as `E2E_C17_total`, plus the result `h`. -/
theorem E2E_C17_shape (keys : List (List Nat)) (maxSize : Int) (fuel : Nat) (hne : keys ≠ [])
    (hasc : strictAsc keys = true) (hok : ∀ k ∈ keys, BytesOK k) (hlen : ∀ k ∈ keys, k.length < 2^28)
    (hn : keys.length < 2^31) (hm : 1 ≤ maxSize)
    (hfuel1 : keys.length + 1 ≤ fuel) (hfuel2 : ∀ k ∈ keys, k.length / 8 + 2 ≤ fuel) (L B : List Nat)
    (h : Gen.Ssa4.sigbits_ShardByPrefix fuel keys maxSize = some (L.map Int.ofNat, B.map Int.ofNat)) :
    B.length = L.length + 1 ∧ B.head? = some 0 ∧ B.getLast? = some keys.length ∧
      ∀ j, j < L.length → B.getD j 0 < B.getD (j + 1) 0 :=
  C17_shape keys maxSize hne hasc hok hm L B (gen_to_model keys maxSize fuel hok hlen hn hm hfuel1 hfuel2 L B h)

/-- `C17_size` on generated code: every shard `keys[B[j]:B[j+1]]` of the returned partition holds at most `maxSize`
    keys.  Hypotheses: as `E2E_C17_total`, plus the result `h`. -/
theorem E2E_C17_size (keys : List (List Nat)) (maxSize : Int) (fuel : Nat) (hne : keys ≠ [])
    (hasc : strictAsc keys = true) (hok : ∀ k ∈ keys, BytesOK k) (hlen : ∀ k ∈ keys, k.length < 2^28)
    (hn : keys.length < 2^31) (hm : 1 ≤ maxSize)
    (hfuel1 : keys.length + 1 ≤ fuel) (hfuel2 : ∀ k ∈ keys, k.length / 8 + 2 ≤ fuel) (L B : List Nat)
    (h : Gen.Ssa4.sigbits_ShardByPrefix fuel keys maxSize = some (L.map Int.ofNat, B.map Int.ofNat)) :
    ∀ j, j < L.length → ((B.getD (j + 1) 0 - B.getD j 0 : Nat) : Int) ≤ maxSize :=
  C17_size keys maxSize hne hasc hok hm L B (gen_to_model keys maxSize fuel hok hlen hn hm hfuel1 hfuel2 L B h)

/-- `C17_lcp` on generated code: the returned `L[j]` is exactly the byte length of the longest common prefix of the keys
    of shard `j` (`lcpAll`; of a single key: its length).  Hypotheses: as `E2E_C17_total`, plus the result `h`. -/
theorem E2E_C17_lcp (keys : List (List Nat)) (maxSize : Int) (fuel : Nat) (hne : keys ≠ [])
    (hasc : strictAsc keys = true) (hok : ∀ k ∈ keys, BytesOK k) (hlen : ∀ k ∈ keys, k.length < 2^28)
    (hn : keys.length < 2^31) (hm : 1 ≤ maxSize)
    (hfuel1 : keys.length + 1 ≤ fuel) (hfuel2 : ∀ k ∈ keys, k.length / 8 + 2 ≤ fuel) (L B : List Nat)
    (h : Gen.Ssa4.sigbits_ShardByPrefix fuel keys maxSize = some (L.map Int.ofNat, B.map Int.ofNat)) :
    ∀ j, j < L.length →
      L.getD j 0 = lcpAll ((keys.drop (B.getD j 0)).take (B.getD (j + 1) 0 - B.getD j 0)) :=
  C17_lcp keys maxSize hne hasc hok hm L B (gen_to_model keys maxSize fuel hok hlen hn hm hfuel1 hfuel2 L B h)

/-- `C17_order` on generated code: the shard prefixes `keys[B[j]][:L[j]]` of the returned partition are strictly
    ascending in byte order.  Hypotheses: as `E2E_C17_total` (here `strictAsc keys` is used), plus the result `h`. -/
theorem E2E_C17_order (keys : List (List Nat)) (maxSize : Int) (fuel : Nat) (hne : keys ≠ [])
    (hasc : strictAsc keys = true) (hok : ∀ k ∈ keys, BytesOK k) (hlen : ∀ k ∈ keys, k.length < 2^28)
    (hn : keys.length < 2^31) (hm : 1 ≤ maxSize)
    (hfuel1 : keys.length + 1 ≤ fuel) (hfuel2 : ∀ k ∈ keys, k.length / 8 + 2 ≤ fuel) (L B : List Nat)
    (h : Gen.Ssa4.sigbits_ShardByPrefix fuel keys maxSize = some (L.map Int.ofNat, B.map Int.ofNat)) :
    strictAsc ((List.range L.length).map fun j => (keys.getD (B.getD j 0) []).take (L.getD j 0)) = true :=
  C17_order keys maxSize hne hasc hok hm L B (gen_to_model keys maxSize fuel hok hlen hn hm hfuel1 hfuel2 L B h)

/-- `C17_unique` on generated code: … hence the shard prefixes are pairwise distinct.  Hypotheses: as `E2E_C17_order`. -/
theorem E2E_C17_unique (keys : List (List Nat)) (maxSize : Int) (fuel : Nat) (hne : keys ≠ [])
    (hasc : strictAsc keys = true) (hok : ∀ k ∈ keys, BytesOK k) (hlen : ∀ k ∈ keys, k.length < 2^28)
    (hn : keys.length < 2^31) (hm : 1 ≤ maxSize)
    (hfuel1 : keys.length + 1 ≤ fuel) (hfuel2 : ∀ k ∈ keys, k.length / 8 + 2 ≤ fuel) (L B : List Nat)
    (h : Gen.Ssa4.sigbits_ShardByPrefix fuel keys maxSize = some (L.map Int.ofNat, B.map Int.ofNat)) :
    ((List.range L.length).map fun j => (keys.getD (B.getD j 0) []).take (L.getD j 0)).Pairwise (· ≠ ·) :=
  C17_unique keys maxSize hne hasc hok hm L B (gen_to_model keys maxSize fuel hok hlen hn hm hfuel1 hfuel2 L B h)

/-- All of C17 on generated code, in one statement.  For non-empty strictly ascending byte-string keys, each shorter
    than `2^28` bytes, fewer than `2^31` of them, `1 ≤ maxSize` and EVERY fuel above the bounds, the code of
    `ShardByPrefix(keys, maxSize)` (regenerated from its SSA form) terminates, does not panic and returns non-negative
    `(L, B)` with: `len(L) + 1` boundaries, `0 = B[0] < B[1] < … < B[len(L)] = len(keys)`; every shard
    `keys[B[j]:B[j+1]]` has at most `maxSize` keys; `L[j]` is the length of the longest common prefix of shard `j`; the
    shard prefixes `keys[B[j]][:L[j]]` are strictly ascending, hence pairwise distinct; and the checkable predicate
    `shardOK` of `LowModel/Spec.lean` (the one the correspondence harness evaluates on Go's result) holds.
    Hypotheses (inputs only): `keys ≠ []`, `strictAsc keys`, `∀ k ∈ keys, BytesOK k`, `∀ k ∈ keys, k.length < 2^28`,
    `keys.length < 2^31`, `1 ≤ maxSize`, `keys.length + 1 ≤ fuel`, `∀ k ∈ keys, k.length / 8 + 2 ≤ fuel`. -/
theorem E2E_C17_ShardByPrefix (keys : List (List Nat)) (maxSize : Int) (fuel : Nat) (hne : keys ≠ [])
    (hasc : strictAsc keys = true) (hok : ∀ k ∈ keys, BytesOK k) (hlen : ∀ k ∈ keys, k.length < 2^28)
    (hn : keys.length < 2^31) (hm : 1 ≤ maxSize)
    (hfuel1 : keys.length + 1 ≤ fuel) (hfuel2 : ∀ k ∈ keys, k.length / 8 + 2 ≤ fuel) :
    ∃ L B : List Nat,
      Gen.Ssa4.sigbits_ShardByPrefix fuel keys maxSize = some (L.map Int.ofNat, B.map Int.ofNat) ∧
      B.length = L.length + 1 ∧ B.head? = some 0 ∧ B.getLast? = some keys.length ∧
      (∀ j, j < L.length → B.getD j 0 < B.getD (j + 1) 0) ∧
      (∀ j, j < L.length → ((B.getD (j + 1) 0 - B.getD j 0 : Nat) : Int) ≤ maxSize) ∧
      (∀ j, j < L.length →
        L.getD j 0 = lcpAll ((keys.drop (B.getD j 0)).take (B.getD (j + 1) 0 - B.getD j 0))) ∧
      strictAsc ((List.range L.length).map fun j => (keys.getD (B.getD j 0) []).take (L.getD j 0)) = true ∧
      ((List.range L.length).map fun j => (keys.getD (B.getD j 0) []).take (L.getD j 0)).Pairwise (· ≠ ·) ∧
      shardOK keys maxSize.toNat L B = true := by
  obtain ⟨L, B, h, hOK⟩ := C17_shardByPrefix keys maxSize hne hasc hok hm
  obtain ⟨s1, s2, s3, s4⟩ := C17_shape keys maxSize hne hasc hok hm L B h
  exact ⟨L, B, by rw [Tie_sigbits_ShardByPrefix keys maxSize fuel hok hlen hn hm hfuel1 hfuel2, h]; rfl,
    s1, s2, s3, s4, C17_size keys maxSize hne hasc hok hm L B h, C17_lcp keys maxSize hne hasc hok hm L B h,
    C17_order keys maxSize hne hasc hok hm L B h, C17_unique keys maxSize hne hasc hok hm L B h, hOK⟩

/-- The domain bound `1 ≤ maxSize` is necessary (FINDING of the tie).  For `maxSize ≤ 0` the code of `ShardByPrefix`
    (regenerated) returns nothing for EVERY fuel above the bounds, however large: `dfs(s, s+1)` calls `dfs(s, s+1)`, the
    recursion of the closure only ends when the depth counter does (in Go: stack overflow, a fatal error).
    Hypotheses: `∀ k ∈ keys, BytesOK k`, `∀ k ∈ keys, k.length < 2^28`, `keys.length < 2^31`, `maxSize ≤ 0`, the two fuel
    bounds.  (Keys need not be sorted; for `keys = []` the result is `none` too, because `FirstDiffBits` panics.) -/
theorem E2E_C17_diverges (keys : List (List Nat)) (maxSize : Int) (fuel : Nat)
    (hok : ∀ k ∈ keys, BytesOK k) (hlen : ∀ k ∈ keys, k.length < 2^28) (hn : keys.length < 2^31) (hm : maxSize ≤ 0)
    (hfuel1 : keys.length + 1 ≤ fuel) (hfuel2 : ∀ k ∈ keys, k.length / 8 + 2 ≤ fuel) :
    Gen.Ssa4.sigbits_ShardByPrefix fuel keys maxSize = none :=
  (Tie_sigbits_ShardByPrefix_diverges keys maxSize fuel hok hlen hn hm hfuel1 hfuel2).1

/-- no keys: the code of `ShardByPrefix` panics (`FirstDiffBits` makes a slice of length `-1`), whatever the fuel and
    `maxSize`: `keys ≠ []` is necessary too -/
theorem E2E_C17_nil (maxSize : Int) (fuel : Nat) : Gen.Ssa4.sigbits_ShardByPrefix fuel [] maxSize = none := by
  rw [Gen.Ssa4.sigbits_ShardByPrefix, Tie_sigbits_FirstDiffBits [] fuel (by intro k hk; cases hk)
    (by intro k hk; cases hk) (by decide) (Nat.zero_le _) (by intro k hk; cases hk)]
  rfl

/-! non-vacuity: the generated code on the key set of `Props/C17.lean` (a key that is the common prefix of its
    successors, NUL bytes, a split that restarts), and the theorems instantiated on it -/
example : Gen.Ssa4.sigbits_ShardByPrefix 8 [[97], [97, 0], [97, 1], [98], [98, 1, 1], [98, 1, 2], [98, 2]] 2
    = some ([1, 2, 2, 1, 2, 2], [0, 1, 2, 3, 4, 6, 7]) := by decide +kernel
example : Gen.Ssa4.sigbits_ShardByPrefix 8 [[97], [97, 0], [97, 1], [98], [98, 1, 1], [98, 1, 2], [98, 2]] 3
    = some ([1, 1, 2, 2], [0, 3, 4, 6, 7]) := by decide +kernel
example : Gen.Ssa4.sigbits_ShardByPrefix 30 [[97], [97, 0], [97, 1], [98], [98, 1, 1], [98, 1, 2], [98, 2]] 0
    = none := by decide +kernel
example := E2E_C17_ShardByPrefix [[97], [97, 0], [97, 1], [98], [98, 1, 1], [98, 1, 2], [98, 2]] 2 8 (by decide)
  (by decide) (by simp [BytesOK]) (by decide) (by decide) (by decide) (by decide) (by decide)
example : strictAsc ((List.range 6).map fun j =>
    (([[97], [97, 0], [97, 1], [98], [98, 1, 1], [98, 1, 2], [98, 2]] : List (List Nat)).getD
      (([0, 1, 2, 3, 4, 6, 7] : List Nat).getD j 0) []).take (([1, 2, 2, 1, 2, 2] : List Nat).getD j 0)) = true :=
  E2E_C17_order [[97], [97, 0], [97, 1], [98], [98, 1, 1], [98, 1, 2], [98, 2]] 2 8 (by decide)
    (by decide) (by simp [BytesOK]) (by decide) (by decide) (by decide) (by decide) (by decide)
    [1, 2, 2, 1, 2, 2] [0, 1, 2, 3, 4, 6, 7] (by decide +kernel)
example := E2E_C17_diverges [[97], [97, 0]] 0 3 (by simp [BytesOK]) (by decide) (by decide) (by decide) (by decide)
  (by decide)

end Low
