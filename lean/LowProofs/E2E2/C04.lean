import LowProofs.Props.C04
import LowProofs.E2E.C03Strict
import LowProofs.Tie3.bmtree_AllPaths
import LowProofs.Tie3.bmtree_Decode
/-
  C04 end to end: `C04_allPaths` (+ `_ascending`, `_mem`, `_all`), `C04_decode(_nodes)`, `C04_roundtrip(_paths)` stated
  PURELY about definitions REGENERATED from the go/ssa form of `bmtree.AllPaths` and `bmtree.Decode`
  (`Generated/Ssa3/bmtree_*.lean`; nested loops are recursion on `fuel`, `Decode` calls the regenerated `AllPaths` and
  `PathToIndex`, release build).  No model function occurs in the statements: only generated code and the
  specifications `storedPaths`, `preorder`, `encPath`, `preIdx`, `bitAt`.
  As in `E2E/C03.lean`, "`h` is the height of the tree with level bitmap `T`" is the input condition
  `2^h ≤ T < 2^(h+1)`, `h ≤ 30` (`E2E_C03_height`: this is what the code of `Height` computes).
  (`C04_sorted`, `C04_storedPaths_mem` are about the specification alone; `C04_decode_debug_safe` is about the contract
  closures of the `debug` build, which the release-build SSA does not contain.)
-/
namespace Low
open Low.C03L Low.C04L

private theorem dom4 {T h : Nat} (h1 : 2^h ≤ T) (h2 : T < 2^(h+1)) (h30 : h ≤ 30) : 1 ≤ T ∧ T < 2^31 := by
  have a : 1 ≤ 2^h := Nat.two_pow_pos h
  have b : 2^(h+1) ≤ 2^31 := Nat.pow_le_pow_right (by omega) (by omega)
  omega

/-- `C04_allPaths` on generated code.  The code of `AllPaths(T, from, to)` (regenerated from its SSA form), for every
    level bitmap `T` of height `h ≤ 30`, ANY `uint64` bounds `from`, `to` (they need not be path words) and EVERY
    `fuel ≥ 2^h + 32`: terminates, does not panic and returns exactly the stored path words `p` with `from ≤ p < to`, in
    pre-order.
    Hypotheses: `2^h ≤ T`, `T < 2^(h+1)`, `h ≤ 30`, `frm < 2^64`, `to < 2^64`, `2^h + 32 ≤ fuel`. -/
theorem E2E_C04_allPaths (T h frm to fuel : Nat) (h1 : 2^h ≤ T) (h2 : T < 2^(h+1)) (h30 : h ≤ 30)
    (hfrm : frm < 2^64) (hto : to < 2^64) (hfuel : 2^h + 32 ≤ fuel) :
    Gen.Ssa3.bmtree_AllPaths fuel (T : Int) frm to
      = some ((storedPaths T h).filter (fun p => decide (frm ≤ p ∧ p < to))) := by
  obtain ⟨a, b⟩ := dom4 h1 h2 h30
  have hh := height_of_range h1 h2 h30
  rw [Tie_bmtree_AllPaths' T frm to fuel a b hfrm hto (by rw [hh, Int.toNat_natCast]; exact hfuel),
    C04_allPaths T h frm to a b hh hto]

/-- the same with the exact fuel bound: the number of values of the high half the outer loop visits,
    `min (to>>32 + 1) 2^h - from>>32`, plus 32. -/
theorem E2E_C04_allPaths_tight (T h frm to fuel : Nat) (h1 : 2^h ≤ T) (h2 : T < 2^(h+1)) (h30 : h ≤ 30)
    (hfrm : frm < 2^64) (hto : to < 2^64) (hfuel : (min (to >>> 32 + 1) (2^h) - frm >>> 32) + 32 ≤ fuel) :
    Gen.Ssa3.bmtree_AllPaths fuel (T : Int) frm to
      = some ((storedPaths T h).filter (fun p => decide (frm ≤ p ∧ p < to))) := by
  obtain ⟨a, b⟩ := dom4 h1 h2 h30
  have hh := height_of_range h1 h2 h30
  have e : add64 (to >>> 32) 1 = to >>> 32 + 1 := by
    have : to >>> 32 < 2^32 := by rw [Nat.shiftRight_eq_div_pow]; omega
    unfold add64 M64; omega
  rw [Tie_bmtree_AllPaths T frm to fuel a b hfrm hto (by rw [hh, Int.toNat_natCast, e]; exact hfuel),
    C04_allPaths T h frm to a b hh hto]

/-- the reading of `E2E_C04_allPaths`: the list the code of `AllPaths` returns is strictly ascending (no duplicates),
    and its members are exactly the path words `encPath h n` of the nodes `n` of depth `≤ h` on a stored level
    (`T.testBit n.length`) that lie in `[from, to)`. -/
theorem E2E_C04_allPaths_spec (T h frm to fuel : Nat) (h1 : 2^h ≤ T) (h2 : T < 2^(h+1)) (h30 : h ≤ 30)
    (hfrm : frm < 2^64) (hto : to < 2^64) (hfuel : 2^h + 32 ≤ fuel) :
    ∃ ps, Gen.Ssa3.bmtree_AllPaths fuel (T : Int) frm to = some ps ∧ ps.Pairwise (· < ·) ∧
      ∀ p, p ∈ ps ↔
        (∃ n : List Bool, n.length ≤ h ∧ T.testBit n.length = true ∧ p = encPath h n) ∧ frm ≤ p ∧ p < to := by
  obtain ⟨a, b⟩ := dom4 h1 h2 h30
  have hh := height_of_range h1 h2 h30
  refine ⟨_, E2E_C04_allPaths T h frm to fuel h1 h2 h30 hfrm hto hfuel, (C04_sorted T h a b hh).filter _, ?_⟩
  intro p
  rw [List.mem_filter, C04_storedPaths_mem, decide_eq_true_eq]

/-- the full range (`Decode` calls `AllPaths(T, 0, 2^63)`): every stored path word, in pre-order. -/
theorem E2E_C04_allPaths_all (T h to fuel : Nat) (h1 : 2^h ≤ T) (h2 : T < 2^(h+1)) (h30 : h ≤ 30)
    (hto : to < 2^64) (hto' : 2^62 ≤ to) (hfuel : 2^h + 32 ≤ fuel) :
    Gen.Ssa3.bmtree_AllPaths fuel (T : Int) 0 to = some (storedPaths T h) := by
  obtain ⟨a, b⟩ := dom4 h1 h2 h30
  have hh := height_of_range h1 h2 h30
  rw [Tie_bmtree_AllPaths' T 0 to fuel a b (by decide) hto (by rw [hh, Int.toNat_natCast]; exact hfuel),
    C04_allPaths_all T h to a b hh hto hto']

/-- `C04_decode` on generated code.  The code of `Decode(T, bm)` (regenerated from its SSA form), for every level bitmap
    `T` of height `h ≤ 30`, ANY bitmap `bm` of fewer than `2^31` words (too short, even empty, or with garbage at and
    beyond bit `T`) and EVERY `fuel ≥ T + 32`: terminates, does not panic and returns, in pre-order, exactly the path
    words of the stored nodes `n` whose pre-order index bit `preIdx T 0 n` is 1 in `bm` (`bitAt` reads 0 beyond the
    words of `bm`).
    Hypotheses: `2^h ≤ T`, `T < 2^(h+1)`, `h ≤ 30`, `bm.length < 2^31`, `T + 32 ≤ fuel`. -/
theorem E2E_C04_decode (T h : Nat) (bm : List Nat) (fuel : Nat) (h1 : 2^h ≤ T) (h2 : T < 2^(h+1)) (h30 : h ≤ 30)
    (hbm : bm.length < 2^31) (hfuel : T + 32 ≤ fuel) :
    Gen.Ssa3.bmtree_Decode fuel (T : Int) bm
      = some (((preorder T h 0 []).filter (fun n => bitAt bm (preIdx T 0 n))).map (encPath h)) := by
  obtain ⟨a, b⟩ := dom4 h1 h2 h30
  rw [Tie_bmtree_Decode T bm fuel a b hbm hfuel, C04_decode_nodes T h bm a b (height_of_range h1 h2 h30)]

/-- the result of the code of `Decode` is strictly ascending -/
theorem E2E_C04_decode_ascending (T h : Nat) (bm : List Nat) (fuel : Nat) (h1 : 2^h ≤ T) (h2 : T < 2^(h+1))
    (h30 : h ≤ 30) (hbm : bm.length < 2^31) (hfuel : T + 32 ≤ fuel) :
    ∃ ps, Gen.Ssa3.bmtree_Decode fuel (T : Int) bm = some ps ∧ ps.Pairwise (· < ·) := by
  obtain ⟨a, b⟩ := dom4 h1 h2 h30
  exact ⟨_, Tie_bmtree_Decode T bm fuel a b hbm hfuel, C04_decode_ascending T h bm a b (height_of_range h1 h2 h30)⟩

/-- `C04_roundtrip` on generated code: encode-then-decode is the identity on sets of stored nodes.  For a set `S` of
    stored nodes (a sub-list of the pre-order enumeration) and ANY bitmap `bm` of fewer than `2^31` words whose bits
    below `T` are exactly `{preIdx(n) | n ∈ S}` (bits at or beyond `T`, and the number of words, are arbitrary), the code
    of `Decode` returns exactly the path words of `S`, in order.
    Hypotheses: `2^h ≤ T`, `T < 2^(h+1)`, `h ≤ 30`, `S.Sublist (preorder T h 0 [])`, the bit condition,
    `bm.length < 2^31`, `T + 32 ≤ fuel`. -/
theorem E2E_C04_roundtrip (T h : Nat) (S : List (List Bool)) (bm : List Nat) (fuel : Nat) (h1 : 2^h ≤ T)
    (h2 : T < 2^(h+1)) (h30 : h ≤ 30) (hS : S.Sublist (preorder T h 0 []))
    (hbits : ∀ i, i < T → (bitAt bm i = true ↔ ∃ n, n ∈ S ∧ preIdx T 0 n = i))
    (hbm : bm.length < 2^31) (hfuel : T + 32 ≤ fuel) :
    Gen.Ssa3.bmtree_Decode fuel (T : Int) bm = some (S.map (encPath h)) := by
  obtain ⟨a, b⟩ := dom4 h1 h2 h30
  rw [Tie_bmtree_Decode T bm fuel a b hbm hfuel, C04_roundtrip T h S bm a b (height_of_range h1 h2 h30) hS hbits]

/-- `C04_roundtrip_paths` on generated code, with the bits named through the CODE of `PathToIndex` (what a Go caller
    does: `bm[PathToIndex(T, p)] = 1` for each `p` of the set): for a sub-list `P` of the stored path words and ANY
    bitmap `bm` whose bits below `T` are exactly the indexes the code of `PathToIndex` (regenerated, `fuel' ≥ 33`)
    returns for the members of `P`, the code of `Decode` returns exactly `P`.
    Hypotheses: as `E2E_C04_roundtrip`, with `P.Sublist (storedPaths T h)` and `33 ≤ fuel'`. -/
theorem E2E_C04_roundtrip_paths (T h : Nat) (P : List Nat) (bm : List Nat) (fuel fuel' : Nat) (h1 : 2^h ≤ T)
    (h2 : T < 2^(h+1)) (h30 : h ≤ 30) (hP : P.Sublist (storedPaths T h)) (hfuel' : 33 ≤ fuel')
    (hbits : ∀ i, i < T → (bitAt bm i = true ↔
      ∃ p, p ∈ P ∧ Gen.Ssa2.bmtree_PathToIndex fuel' (T : Int) p = some (i : Int)))
    (hbm : bm.length < 2^31) (hfuel : T + 32 ≤ fuel) :
    Gen.Ssa3.bmtree_Decode fuel (T : Int) bm = some P := by
  obtain ⟨a, b⟩ := dom4 h1 h2 h30
  have hlt : ∀ p ∈ P, p < 2^64 := by
    intro p hp
    obtain ⟨n, hn, _, rfl⟩ := (C04_storedPaths_mem T h p).mp (hP.subset hp)
    exact Nat.lt_of_lt_of_le (C10L.encPath_lt (by omega) hn) (Nat.pow_le_pow_right (by omega) (by omega))
  rw [Tie_bmtree_Decode T bm fuel a b hbm hfuel,
    C04_roundtrip_paths T h P bm a b (height_of_range h1 h2 h30) hP ?_]
  intro i hi
  rw [hbits i hi]
  constructor
  · rintro ⟨p, hp, e⟩
    rw [Tie_bmtree_PathToIndex T p fuel' a b (hlt p hp) hfuel'] at e
    exact ⟨p, hp, Option.some.inj e⟩
  · rintro ⟨p, hp, e⟩
    exact ⟨p, hp, by rw [Tie_bmtree_PathToIndex T p fuel' a b (hlt p hp) hfuel', e]⟩

/-! non-vacuity: `T = 5` (root + 4 leaves, height 2) and `T = 0x72` (height 6), on the generated code -/
example : Gen.Ssa3.bmtree_AllPaths 36 5 0x100000001 0x200000004 = some [0x100000003, 0x200000003] := by decide +kernel
example : Gen.Ssa3.bmtree_AllPaths 36 5 0 (2^63) = some [0, 0x3, 0x100000003, 0x200000003, 0x300000003] := by
  decide +kernel
example : Gen.Ssa3.bmtree_Decode 37 5 [0xffffffffffffffe0 + 0b10101, 0xffff] = some [0, 0x100000003, 0x300000003] := by
  decide +kernel
example : Gen.Ssa3.bmtree_Decode 37 5 [] = some [] := by decide +kernel
example : Gen.Ssa3.bmtree_AllPaths 96 ((0x72 : Nat) : Int) 0x500000000 0x900000031
    = some ((storedPaths 0x72 6).filter (fun p => decide (0x500000000 ≤ p ∧ p < 0x900000031))) :=
  E2E_C04_allPaths 0x72 6 _ _ 96 (by decide) (by decide) (by decide) (by decide) (by decide) (by decide)
example : Gen.Ssa3.bmtree_Decode 37 ((5 : Nat) : Int) [0b10101] = some ([[], [false, true], [true, true]].map (encPath 2)) :=
  E2E_C04_roundtrip 5 2 [[], [false, true], [true, true]] [0b10101] 37 (by decide) (by decide) (by decide)
    (by decide) (by decide +kernel) (by decide) (by decide)

end Low
