import LowProofs.E2E.C08
import LowProofs.Tie3.bitword_bitWord_FromStr
import LowProofs.Tie3.bitword_bitWord_ToStr
/-
  C08 end to end, second batch: `C08_fromStr`, `C08_roundtrip`, `C08_toStr` stated PURELY about definitions REGENERATED
  from the go/ssa form of the methods `bitWord.FromStr`, `bitWord.ToStr` (`Generated/Ssa3/bitword_bitWord_*.lean`;
  nested loops are recursion on `fuel`, the slices they allocate are functional lists) and `bitWord.Get`
  (`Generated/Ssa2/`).  The receiver is passed field by field: `(width, byteCap, wordMask) = (n, 8/n, bwWordMask n)` are
  the values `newBW(n)` stores (the constructor has no regenerated definition; these three numbers are the only
  model-side part of the statements).  No model function occurs in the conclusions: only generated code and the
  specifications `bwWordAt`, `bitsBE`, `BytesOK`.
-/
namespace Low

private theorem width_cases' {n : Nat} (hn : n ∈ [1,2,4,8]) : n = 1 ∨ n = 2 ∨ n = 4 ∨ n = 8 := by
  simpa using hn

/-- `C08_fromStr` on generated code.  The code of `FromStr(s)` (regenerated from its SSA form), for a width
    `n ∈ {1,2,4,8}`, a byte string `s` shorter than `2^32` bytes and EVERY `fuel ≥ len(s) + 9`: terminates, does not
    panic and returns `8*len(s)/n` words; word `i` is the `n` bits of `s` starting at bit `i*n`, most significant first
    (`bwWordAt`), and equals what the code of `Get(s, i)` (regenerated) returns, which does not panic for these `i`.
    Hypotheses: `n ∈ [1,2,4,8]`, `BytesOK s`, `s.length < 2^32`, `s.length + 9 ≤ fuel`. -/
theorem E2E_C08_fromStr (n : Nat) (hn : n ∈ [1,2,4,8]) (s : List Nat) (hs : BytesOK s) (hlen : s.length < 2^32)
    (fuel : Nat) (hfuel : s.length + 9 ≤ fuel) :
    ∃ ws, Gen.Ssa3.bitword_bitWord_FromStr fuel (n : Int) ((8 / n : Nat) : Int) (bwWordMask n) s = some ws ∧
      ws.length = 8 * s.length / n ∧
      ∀ i, i < 8 * s.length / n →
        ws[i]? = some (bwWordAt n s i) ∧
        Gen.Ssa2.bitword_bitWord_Get (n : Int) ((8 / n : Nat) : Int) (bwWordMask n) s (i : Int)
          = some (bwWordAt n s i) := by
  refine ⟨_, Tie_bitword_bitWord_FromStr n s fuel (width_cases' hn) hlen hfuel, (C08_fromStr n hn s hs).1, ?_⟩
  intro i hi
  exact ⟨((C08_fromStr n hn s hs).2 i hi).1, E2E_C08_get n hn s hs (by omega) i hi⟩

/-- `C08_roundtrip` on generated code: `ToStr(FromStr(s)) = s`.  For a width `n ∈ {1,2,4,8}`, a byte string `s` shorter
    than `2^29` bytes (its at most `8*len(s)` words then number fewer than `2^32`), every `fuel ≥ len(s) + 9` and every
    `fuel' ≥ 8*len(s)/n + 9`: the code of `FromStr` returns a word slice (no panic) and the code of `ToStr` on THAT slice
    returns exactly `s`.
    Hypotheses: `n ∈ [1,2,4,8]`, `BytesOK s`, `s.length < 2^29`, `s.length + 9 ≤ fuel`, `8 * s.length / n + 9 ≤ fuel'`. -/
theorem E2E_C08_roundtrip (n : Nat) (hn : n ∈ [1,2,4,8]) (s : List Nat) (hs : BytesOK s) (hlen : s.length < 2^29)
    (fuel fuel' : Nat) (hfuel : s.length + 9 ≤ fuel) (hfuel' : 8 * s.length / n + 9 ≤ fuel') :
    (Gen.Ssa3.bitword_bitWord_FromStr fuel (n : Int) ((8 / n : Nat) : Int) (bwWordMask n) s).bind
      (Gen.Ssa3.bitword_bitWord_ToStr fuel' (n : Int) ((8 / n : Nat) : Int) (bwWordMask n)) = some s := by
  have hl := (C08_fromStr n hn s hs).1
  have hle : 8 * s.length / n ≤ 8 * s.length := Nat.div_le_self _ _
  rw [Tie_bitword_bitWord_FromStr n s fuel (width_cases' hn) (by omega) hfuel, Option.bind_some,
    Tie_bitword_bitWord_ToStr n _ fuel' (width_cases' hn) (by omega) (by omega), C08_roundtrip n hn s hs]

/-- `C08_toStr` on generated code.  The code of `ToStr(ws)` (regenerated from its SSA form), for a width
    `n ∈ {1,2,4,8}`, ANY slice of fewer than `2^32` in-range words (`< 2^n`) and EVERY `fuel ≥ len(ws) + 9`: terminates,
    does not panic and returns a byte string whose bits are the words packed MSB-first (each word contributes its `n`
    bits, most significant first), padded with zero bits up to the byte boundary.
    Hypotheses: `n ∈ [1,2,4,8]`, `∀ w ∈ ws, w < 2^n`, `ws.length < 2^32`, `ws.length + 9 ≤ fuel`. -/
theorem E2E_C08_toStr (n : Nat) (hn : n ∈ [1,2,4,8]) (ws : List Nat) (hws : ∀ w ∈ ws, w < 2 ^ n)
    (hlen : ws.length < 2^32) (fuel : Nat) (hfuel : ws.length + 9 ≤ fuel) :
    ∃ bs, Gen.Ssa3.bitword_bitWord_ToStr fuel (n : Int) ((8 / n : Nat) : Int) (bwWordMask n) ws = some bs ∧
      bitsBE bs =
        ws.flatMap (fun w => (List.range n).map fun j => w.testBit (n - 1 - j)) ++
          List.replicate (8 * ((ws.length * n + 7) / 8) - ws.length * n) false ∧
      BytesOK bs :=
  ⟨_, Tie_bitword_bitWord_ToStr n ws fuel (width_cases' hn) hlen hfuel, C08_toStr n hn ws hws⟩

/-! non-vacuity: width 2 on two bytes, by the generated code; the round trip; an odd number of 4-bit words -/
example : Gen.Ssa3.bitword_bitWord_FromStr 11 2 4 (bwWordMask 2) [0xb4, 0x1e] = some [2, 3, 1, 0, 0, 1, 3, 2] := by
  decide +kernel
example : (Gen.Ssa3.bitword_bitWord_FromStr 12 4 2 (bwWordMask 4) [0xff, 0x80, 0x01]).bind
    (Gen.Ssa3.bitword_bitWord_ToStr 15 4 2 (bwWordMask 4)) = some [0xff, 0x80, 0x01] := by decide +kernel
example : Gen.Ssa3.bitword_bitWord_ToStr 12 4 2 (bwWordMask 4) [0xf, 0x8, 0x1] = some [0xf8, 0x10] := by decide +kernel
example := E2E_C08_roundtrip 4 (by decide) [0xff, 0x80, 0x01] (by unfold BytesOK; decide) (by decide) 12 15
  (by decide) (by decide)

end Low
