import LowProofs.E2E.C11
import LowProofs.Tie3.bmtree_PathsOf
/-
  C11 end to end, second batch: `C11_pathsOf` stated PURELY about the definition REGENERATED from the go/ssa form of
  `bmtree.PathsOf` (`Generated/Ssa3/bmtree_PathsOf.lean`, as repaired -- finding D4; the loop is recursion on `fuel`,
  the result slice is a functional list, the calls go to the regenerated `PathOf` / `FromStr32`).  No model function
  occurs in the statement: only generated code and the specifications `encPath`, `bitsBE`, `adjDedup` (`Props/C11.lean`).
  (`PathStr` goes through `fmt`: no regenerated definition.)
-/
namespace Low

/-- SPEC (`C11_pathOf`): the path word of height `h` of the node spelled by bits `[frm, frm+k)` of `s`,
    `k = min (8|s| - frm) h` -/
def pathOfSpec (frm h : Nat) (s : List Nat) : Nat :=
  encPath h (((bitsBE s).drop frm).take (min (8 * s.length - frm) h))

/-- `C11_pathsOf` on generated code.  The code of `PathsOf(keys, frombit, height, dedup)` (regenerated from its SSA
    form), for byte-string keys shorter than `2^28` bytes, `height ≤ 32`, `frombit + height + 7` an `int32`, and EVERY
    `fuel ≥ len(keys) + 1`: terminates, does not panic and returns the path word (`pathOfSpec`) of every key, in order,
    and, when `dedup`, drops every path equal to its predecessor (the first is always kept -- also when it is the
    all-ones word the unrepaired loop used as its sentinel).
    Hypotheses: `∀ k ∈ keys, BytesOK k`, `∀ k ∈ keys, k.length < 2^28`, `h ≤ 32`, `f + h + 7 < 2^31`,
    `keys.length < 2^63` (a Go length fits an `int`), `keys.length + 1 ≤ fuel`. -/
theorem E2E_C11_pathsOf (keys : List (List Nat)) (f h : Nat) (dedup : Bool) (fuel : Nat)
    (hok : ∀ k ∈ keys, BytesOK k) (hlen : ∀ k ∈ keys, k.length < 2^28) (hh : h ≤ 32) (hf : f + h + 7 < 2^31)
    (hkeys : keys.length < 2^63) (hfuel : keys.length + 1 ≤ fuel) :
    Gen.Ssa3.bmtree_PathsOf fuel keys (f : Int) (h : Int) dedup
      = some (if dedup then adjDedup (keys.map (pathOfSpec f h)) else keys.map (pathOfSpec f h)) := by
  have e : keys.map (fun s => pathOf s f h) = keys.map (pathOfSpec f h) :=
    List.map_congr_left (fun s hs => C11_pathOf (hok s hs) f h hh)
  rw [Tie_bmtree_PathsOf keys f h dedup fuel hh hf hkeys hlen hok hfuel, C11_pathsOf, e]

/-! non-vacuity: duplicates, a key that differs only beyond the window, and the case the unrepaired loop got wrong -/
example : Gen.Ssa3.bmtree_PathsOf 6 [[0x61], [0x61, 0x00], [0x62], [0x62], [0x61]] 0 8 true
    = some [0x61000000ff, 0x62000000ff, 0x61000000ff] := by decide +kernel
example : Gen.Ssa3.bmtree_PathsOf 4 [[0x61], [0x61, 0x00], [0x62]] 0 8 false
    = some [0x61000000ff, 0x61000000ff, 0x62000000ff] := by decide +kernel
example : Gen.Ssa3.bmtree_PathsOf 2 [[0xff, 0xff, 0xff, 0xff]] 0 32 true = some [0xffffffffffffffff] := by decide +kernel
example : adjDedup ([[0x61], [0x61, 0x00], [0x62], [0x62], [0x61]].map (pathOfSpec 0 8))
    = [0x61000000ff, 0x62000000ff, 0x61000000ff] := by decide +kernel

end Low
