import LowProofs.Props.C12
import LowProofs.Tie3.bitmap_Builder_Extend
import LowProofs.Tie3.bitmap_Builder_Set
import LowProofs.Tie3.bitmap_Of
/-
  C12 end to end, second batch (Builder clauses): `C12_builder(_from)` and `C12_builder_set` stated PURELY about the
  definitions REGENERATED from the go/ssa form of the methods `(*Builder).Extend` and `(*Builder).Set`
  (`Generated/Ssa3/bitmap_Builder_*.lean`; the two loops of `Extend` / the growing loop of `Set` are recursion on `fuel`).
  The generated methods take the receiver's fields `(Words, Offset)` and return their new values; a `Builder` record
  here is just that pair.  `genExtendAll` runs a sequence of `Extend` calls through the GENERATED method (`none` as soon
  as one panics or runs out of fuel).  No model function occurs in the conclusions: only generated code (through the
  runner) and the specifications `bitAt`, `WordsOK`, `segOff`.
  (`NewBuilder(n)` is `&Builder{Words: make([]uint64, 0, n)}`: empty words, offset 0 -- the preallocated capacity is not
  observable and not modelled by the translation.)

  Domain.  Positions and `Offset` are `int32`; the hypotheses say, about the INPUTS only, that the bit length reached
  (`B`: every `offset_k + size_k ≤ B`, every `offset_k + p < B`) is an `int32` (`B < 2^31`).  The ties' hypotheses for
  every intermediate receiver (its `Offset`, fewer than `2^57` words, `end` not wrapping) are proved along the run.
-/
namespace Low
open Low.C12L

/-- one `Extend` executed by the GENERATED method on the receiver `b` -/
def genExtend (fuel : Nat) (b : Builder) (ps : List Int) (size : Int) : Option Builder :=
  (Gen.Ssa3.bitmap_Builder_Extend fuel b.words b.offset ps size).map (fun r => ⟨r.1, r.2⟩)

/-- one `Set` executed by the GENERATED method on the receiver `b` -/
def genSet (fuel : Nat) (b : Builder) (pos value : Int) : Option Builder :=
  (Gen.Ssa3.bitmap_Builder_Set fuel b.words b.offset pos value).map (fun r => ⟨r.1, r.2⟩)

/-- a sequence of `Extend(ps, size)` calls executed by the GENERATED method; `none` as soon as one panics -/
def genExtendAll (fuel : Nat) (b : Builder) : List (List Int × Int) → Option Builder
  | [] => some b
  | (ps, size) :: rest =>
    match genExtend fuel b ps size with
    | none => none
    | some b' => genExtendAll fuel b' rest

private theorem map_mk (o : Option Builder) : (o.map (fun b' => (b'.words, b'.offset))).map
    (fun r : List Nat × Int => (⟨r.1, r.2⟩ : Builder)) = o := by
  cases o <;> rfl

private theorem segOff_zero (segs : List (List Int × Int)) : segOff segs 0 = 0 := by
  simp [segOff]

private theorem segOff_succ (s : List Int × Int) (rest : List (List Int × Int)) (k : Nat) :
    segOff (s :: rest) (k + 1) = s.2 + segOff rest k := by
  simp [segOff, List.take_succ_cons, List.map_cons, List.sum_cons]

/-- `Extend`, one step, on generated code.  From ANY receiver with `0 ≤ Offset` and fewer than `2^57` words, for
    ascending non-negative positions `ps` (duplicates allowed, positions may exceed `size`), `size ≥ 0`, with
    `Offset + size ≤ B`, every `Offset + p < B`, `B < 2^31`, and every `fuel ≥ max (⌈B/64⌉) (len ps) + 1`: the code of
    `Extend` (regenerated from its SSA form) terminates, does not panic, advances `Offset` by `size`, ORs in exactly the
    positions rebased by the old `Offset`, keeps `uint64` words, and leaves
    `max (old len) ⌈(Offset + max size (last+1)) / 64⌉` words. -/
theorem E2E_C12_builder_extend (b : Builder) (ps : List Int) (size : Int) (fuel B : Nat)
    (hb : 0 ≤ b.offset) (hw : b.words.length < 2^57) (hs : ps.Pairwise (· ≤ ·)) (h0 : ∀ p ∈ ps, 0 ≤ p)
    (hsz : 0 ≤ size) (hlen : ps.length < 2^63) (hB : B < 2^31) (hBs : b.offset + size ≤ B)
    (hBp : ∀ p ∈ ps, b.offset + p < B) (hfuel1 : (B + 63) / 64 + 1 ≤ fuel) (hfuel2 : ps.length + 1 ≤ fuel) :
    ∃ b', genExtend fuel b ps size = some b' ∧ b'.offset = b.offset + size ∧
      b'.words.length = max b.words.length
        ((b.offset + max size (match ps.getLast? with | none => 0 | some l => l + 1) + 63) / 64).toNat ∧
      (WordsOK b.words → WordsOK b'.words) ∧
      ∀ i : Nat, (bitAt b'.words i = true ↔ (bitAt b.words i = true ∨ ∃ p ∈ ps, (i : Int) = b.offset + p)) := by
  have hE : b.extendEnd ps size ≤ B := by
    unfold Builder.extendEnd
    cases hl : ps.getLast? with
    | none => exact hBs
    | some l =>
      have := hBp l (List.mem_of_getLast? hl)
      simp only
      split <;> omega
  have htie := Tie_bitmap_Builder_Extend b ps size fuel hlen hw ⟨by omega, by omega⟩
    (fun p hp => ⟨by have := h0 p hp; omega, by have := hBp p hp; omega⟩)
    (fun l hl _ => by have := hBp l (List.mem_of_getLast? hl); omega) (by omega) hfuel2
  obtain ⟨b', e1, e2, e3, e4, e5⟩ := extend_spec b ps size hb hsz hs h0
  refine ⟨b', ?_, e2, e3, e4, e5⟩
  rw [genExtend, htie, map_mk, e1]

/-- `C12_builder_set` on generated code.  The code of `Builder.Set(pos, value)` (regenerated from its SSA form), from
    ANY receiver, for `0 ≤ pos < 2^31 - 1`, any `value` and EVERY `fuel ≥ pos/64 + 2`: terminates, does not panic, ORs
    the single bit `pos` in iff `value` is odd (`value & 1`), leaves all other bits, moves `Offset` to
    `max(Offset, pos + 1)`, grows the words to `max (old len) (pos/64 + 1)` and keeps them `uint64`.
    Hypotheses: `0 ≤ pos`, `pos < 2^31 - 1` (for `pos = 2^31 - 1` the Go `pos + 1` wraps), `pos.toNat / 64 + 2 ≤ fuel`. -/
theorem E2E_C12_builder_set (b : Builder) (pos value : Int) (fuel : Nat) (hp : 0 ≤ pos) (hhi : pos < 2^31 - 1)
    (hfuel : pos.toNat / 64 + 2 ≤ fuel) :
    ∃ b', genSet fuel b pos value = some b' ∧ b'.offset = max b.offset (pos + 1) ∧
      b'.words.length = max b.words.length (pos.toNat / 64 + 1) ∧
      (WordsOK b.words → WordsOK b'.words) ∧
      ∀ i : Nat, (bitAt b'.words i = true ↔ (bitAt b.words i = true ∨ ((i : Int) = pos ∧ value % 2 = 1))) := by
  obtain ⟨b', e1, e2⟩ := C12_builder_set b pos value hp
  refine ⟨b', ?_, e2⟩
  rw [genSet, Tie_bitmap_Builder_Set b pos value fuel (by omega) hhi (by omega), map_mk, e1]

/-- a negative position makes the code of `Builder.Set` panic, for any fuel ≥ 2 -/
theorem E2E_C12_builder_set_neg (b : Builder) (pos value : Int) (fuel : Nat) (hlo : -2^31 ≤ pos) (hp : pos < 0)
    (hfuel : 2 ≤ fuel) : genSet fuel b pos value = none := by
  have e : pos.toNat = 0 := by omega
  rw [genSet, Tie_bitmap_Builder_Set b pos value fuel hlo (by omega) (by rw [e]; omega),
    C12_builder_set_neg b pos value hp]
  rfl

/-- the run through the generated `Extend` equals the specification-level run `extendAll` on the domain; internal -/
private theorem genExtendAll_eq (fuel B : Nat) (hB : B < 2^31) (hfuel1 : (B + 63) / 64 + 1 ≤ fuel) :
    ∀ (segs : List (List Int × Int)) (b0 : Builder), 0 ≤ b0.offset → b0.words.length < 2^57 →
    (∀ s ∈ segs, s.1.Pairwise (· ≤ ·) ∧ (∀ p ∈ s.1, 0 ≤ p) ∧ 0 ≤ s.2 ∧ s.1.length < 2^63 ∧ s.1.length + 1 ≤ fuel) →
    (∀ k ps size, segs[k]? = some (ps, size) →
      b0.offset + segOff segs k + size ≤ B ∧ ∀ p ∈ ps, b0.offset + segOff segs k + p < B) →
    genExtendAll fuel b0 segs = extendAll b0 segs
  | [], _, _, _, _, _ => rfl
  | (ps, size) :: rest, b0, hb, hw, hseg, hdom => by
    obtain ⟨hs, h0, hsz, hl, hf2⟩ := hseg (ps, size) List.mem_cons_self
    obtain ⟨d1, d2⟩ := hdom 0 ps size rfl
    rw [segOff_zero] at d1 d2
    obtain ⟨b1, e1, o1, l1, _, _⟩ := E2E_C12_builder_extend b0 ps size fuel B hb hw hs h0 hsz hl hB (by omega)
      (fun p hp => by have := d2 p hp; omega) hfuel1 hf2
    obtain ⟨b1', e1', _⟩ := extend_spec b0 ps size hb hsz hs h0
    have hb1 : b1' = b1 := by
      have := e1
      rw [genExtend, Tie_bitmap_Builder_Extend b0 ps size fuel hl hw ⟨by omega, by omega⟩
        (fun p hp => ⟨by have := h0 p hp; omega, by have := d2 p hp; omega⟩)
        (fun l hl' _ => by have := d2 l (List.mem_of_getLast? hl'); omega) ?_ hf2, map_mk, e1'] at this
      · exact Option.some.inj this
      · have hE : b0.extendEnd ps size ≤ B := by
          unfold Builder.extendEnd
          cases hl' : ps.getLast? with
          | none => simp only; omega
          | some l =>
            have := d2 l (List.mem_of_getLast? hl')
            simp only
            split <;> omega
        omega
    subst hb1
    have hw1 : b1'.words.length < 2^57 := by
      rw [l1]
      have hle : (match ps.getLast? with | none => (0 : Int) | some l => l + 1) ≤ B - b0.offset := by
        cases hl' : ps.getLast? with
        | none => simp only; omega
        | some l => have := d2 l (List.mem_of_getLast? hl'); simp only; omega
      generalize (match ps.getLast? with | none => (0 : Int) | some l => l + 1) = le at hle
      omega
    have ih := genExtendAll_eq fuel B hB hfuel1 rest b1' (by omega) hw1
      (fun s hs' => hseg s (List.mem_cons_of_mem _ hs'))
      (fun k ps' size' hk => by
        have := hdom (k + 1) ps' size' (by simpa using hk)
        rw [segOff_succ] at this
        simp only at this
        rw [o1]
        refine ⟨by omega, fun p hp => ?_⟩
        have := this.2 p hp
        omega)
    simp only [genExtendAll, extendAll, e1, e1', ih]

/-- `C12_builder_from` on generated code.  Any sequence of `Extend` calls executed by the GENERATED method from any
    receiver with `0 ≤ Offset` and fewer than `2^57` words (each segment ascending, non-negative, `size ≥ 0`; positions
    may exceed the size, sizes may be 0), whose rebased positions and sizes stay below a bit length `B < 2^31`, for every
    `fuel ≥ ⌈B/64⌉ + 1` that also exceeds every segment's length: no call panics, `Offset` advances by the sum of the
    sizes, the bits are the old ones plus every position rebased by the old `Offset` and the running sum of the
    preceding sizes, words stay `uint64`, never shrink, and cover `Offset`.
    Hypotheses (inputs only): `0 ≤ b0.offset`, `b0.words.length < 2^57`; per segment `Pairwise (· ≤ ·)`, `0 ≤ p`,
    `0 ≤ size`, `len < 2^63`, `len + 1 ≤ fuel`; `B < 2^31`, `(B + 63) / 64 + 1 ≤ fuel`; for every segment `k`:
    `b0.offset + segOff segs k + size_k ≤ B` and `b0.offset + segOff segs k + p < B` for its positions `p`. -/
theorem E2E_C12_builder_from (segs : List (List Int × Int)) (b0 : Builder) (fuel B : Nat) (hb : 0 ≤ b0.offset)
    (hw : b0.words.length < 2^57)
    (hseg : ∀ s ∈ segs, s.1.Pairwise (· ≤ ·) ∧ (∀ p ∈ s.1, 0 ≤ p) ∧ 0 ≤ s.2 ∧ s.1.length < 2^63 ∧ s.1.length + 1 ≤ fuel)
    (hB : B < 2^31) (hfuel1 : (B + 63) / 64 + 1 ≤ fuel)
    (hdom : ∀ k ps size, segs[k]? = some (ps, size) →
      b0.offset + segOff segs k + size ≤ B ∧ ∀ p ∈ ps, b0.offset + segOff segs k + p < B) :
    ∃ b, genExtendAll fuel b0 segs = some b ∧
      b.offset = b0.offset + (segs.map Prod.snd).sum ∧
      (WordsOK b0.words → WordsOK b.words) ∧
      b0.words.length ≤ b.words.length ∧
      ((segs ≠ [] ∨ b0.offset ≤ 64 * (b0.words.length : Int)) → b.offset ≤ 64 * (b.words.length : Int)) ∧
      ∀ i : Nat, (bitAt b.words i = true ↔ (bitAt b0.words i = true ∨
        ∃ k ps size, segs[k]? = some (ps, size) ∧ ∃ p ∈ ps, (i : Int) = b0.offset + segOff segs k + p)) := by
  rw [genExtendAll_eq fuel B hB hfuel1 segs b0 hb hw hseg hdom]
  exact C12_builder_from segs b0 hb (fun s hs => ⟨(hseg s hs).1, (hseg s hs).2.1, (hseg s hs).2.2.1⟩)

/-- `C12_builder` on generated code.  A Builder from `NewBuilder(n)` (empty words, `Offset` 0), after any sequence of
    `Extend` calls executed by the GENERATED method (same conditions as `E2E_C12_builder_from` with `b0.offset = 0`):
    no panic, `Offset = Σ size_k`, the bits are exactly `{ off_k + p | p ∈ ps_k }` with `off_k = Σ_{j<k} size_j`, the words
    are `uint64` and there are enough of them for `Offset` (and, by `bitAt_oob`, for every bit). -/
theorem E2E_C12_builder (segs : List (List Int × Int)) (fuel B : Nat)
    (hseg : ∀ s ∈ segs, s.1.Pairwise (· ≤ ·) ∧ (∀ p ∈ s.1, 0 ≤ p) ∧ 0 ≤ s.2 ∧ s.1.length < 2^63 ∧ s.1.length + 1 ≤ fuel)
    (hB : B < 2^31) (hfuel1 : (B + 63) / 64 + 1 ≤ fuel)
    (hdom : ∀ k ps size, segs[k]? = some (ps, size) →
      segOff segs k + size ≤ B ∧ ∀ p ∈ ps, segOff segs k + p < B) :
    ∃ b, genExtendAll fuel ⟨[], 0⟩ segs = some b ∧
      b.offset = (segs.map Prod.snd).sum ∧ WordsOK b.words ∧ b.offset ≤ 64 * (b.words.length : Int) ∧
      ∀ i : Nat, (bitAt b.words i = true ↔
        ∃ k ps size, segs[k]? = some (ps, size) ∧ ∃ p ∈ ps, (i : Int) = segOff segs k + p) := by
  rw [genExtendAll_eq fuel B hB hfuel1 segs ⟨[], 0⟩ (Int.le_refl _) (by simp) hseg
    (fun k ps size hk => by
      obtain ⟨a, b⟩ := hdom k ps size hk
      exact ⟨by simpa using a, fun p hp => by simpa using b p hp⟩)]
  exact C12_builder segs (fun s hs => ⟨(hseg s hs).1, (hseg s hs).2.1, (hseg s hs).2.2.1⟩)

/-- `C12_builder_eq_of` on generated code: the Builder's result is the bitmap `Of` would build from the shifted positions.
    Under the conditions of `E2E_C12_builder`, when moreover the shifted concatenation of all segments is ascending, its
    entries are `< 2^31 - 64` and `Σ sizes ≤ 2^31 - 64` (the domain of `Of`): the run of `Extend` calls through the
    GENERATED method and the GENERATED `Of(shifted positions, Σ sizes)` (any `fuel' ≥` number of positions `+ 1`) both
    succeed and yield bitmaps with the same bits. -/
theorem E2E_C12_builder_eq_of (segs : List (List Int × Int)) (fuel fuel' B : Nat)
    (hseg : ∀ s ∈ segs, s.1.Pairwise (· ≤ ·) ∧ (∀ p ∈ s.1, 0 ≤ p) ∧ 0 ≤ s.2 ∧ s.1.length < 2^63 ∧ s.1.length + 1 ≤ fuel)
    (hB : B < 2^31) (hfuel1 : (B + 63) / 64 + 1 ≤ fuel)
    (hdom : ∀ k ps size, segs[k]? = some (ps, size) →
      segOff segs k + size ≤ B ∧ ∀ p ∈ ps, segOff segs k + p < B)
    (hs : (shiftedConcat (segs.map Prod.fst) (segs.map Prod.snd) 0).Pairwise (· ≤ ·))
    (hps : ∀ p ∈ shiftedConcat (segs.map Prod.fst) (segs.map Prod.snd) 0, p < 2^31 - 64)
    (hsum : (segs.map Prod.snd).sum ≤ 2^31 - 64)
    (hlen : (shiftedConcat (segs.map Prod.fst) (segs.map Prod.snd) 0).length < 2^63)
    (hfuel' : (shiftedConcat (segs.map Prod.fst) (segs.map Prod.snd) 0).length + 1 ≤ fuel') :
    ∃ b ws, genExtendAll fuel ⟨[], 0⟩ segs = some b ∧
      Gen.Ssa3.bitmap_Of fuel' (shiftedConcat (segs.map Prod.fst) (segs.map Prod.snd) 0) [(segs.map Prod.snd).sum]
        = some ws ∧
      ∀ i, bitAt b.words i = bitAt ws i := by
  rw [genExtendAll_eq fuel B hB hfuel1 segs ⟨[], 0⟩ (Int.le_refl _) (by simp) hseg
    (fun k ps size hk => by
      obtain ⟨a, b⟩ := hdom k ps size hk
      exact ⟨by simpa using a, fun p hp => by simpa using b p hp⟩),
    Tie_bitmap_Of_all _ _ fuel' hlen hps
      (by intro n hn; simp only [List.mem_singleton] at hn; subst hn; omega) hfuel']
  exact C12_builder_eq_of segs (fun s hs' => ⟨(hseg s hs').1, (hseg s hs').2.1, (hseg s hs').2.2.1⟩) hs

/-! non-vacuity: three `Extend` calls (one with a position beyond its size, one empty) and `Set`, on generated code -/
example : genExtendAll 4 ⟨[], 0⟩ [([1, 70], 64), ([], 0), ([0], 3)] = some ⟨[2, 2 ^ 6 + 1], 67⟩ := by decide +kernel
example : genSet 3 ⟨[2], 5⟩ 70 3 = some ⟨[2, 2 ^ 6], 71⟩ ∧ genSet 3 ⟨[2], 5⟩ 3 (-2) = some ⟨[2], 5⟩ ∧
    genSet 3 ⟨[2], 5⟩ 3 (-1) = some ⟨[10], 5⟩ ∧ genSet 2 ⟨[2], 5⟩ (-1) 1 = none := by decide +kernel
example := E2E_C12_builder [([1, 70], 64), ([], 0), ([0], 3)] 4 71 (by decide) (by decide) (by decide)
  (by intro k ps size hk
      rcases k with _ | _ | _ | k <;> simp at hk <;> obtain ⟨rfl, rfl⟩ := hk <;> decide +kernel)
example := E2E_C12_builder_set ⟨[2], 5⟩ 70 3 3 (by decide) (by decide) (by decide)
example := E2E_C12_builder_eq_of [([1, 5], 64), ([], 0), ([0], 3)] 4 4 71 (by decide) (by decide) (by decide)
  (by intro k ps size hk
      rcases k with _ | _ | _ | k <;> simp at hk <;> obtain ⟨rfl, rfl⟩ := hk <;> decide +kernel)
  (by decide +kernel) (by decide +kernel) (by decide +kernel) (by decide +kernel) (by decide +kernel)

end Low
