import Generated.Ssa6.size_sizeof
import LowProofs.Tie6.Defs
/-
  Loop lemmas for the tie of `size.sizeof` (see `size_sizeof.lean`): the four loops of the function as the translator
  emits them, each with an abstract `self` (the function at the remaining recursion depth) that is assumed to follow
  the model on the children, and an abstract continuation `blk3` (the second `switch`).
    * `loop8`  — the entries of a map, through the `reflect.MapIter` state;
    * `loop13` — the elements of a slice / array (`v.Index(i)`);
    * `loop17` — the bytes of a string (`v.Index(i)` is a uint8 Value);
    * `loop27` — the fields of a struct (`v.Field(i)`).
  Sums are `Int` in the generated code, `Nat` in the model; `9223372036854775808 = 2^63` bounds them (Go's `int` would wrap).
-/
namespace Low.Tie6
open Low Low.GoSem Low.GoSem6 Low.TieL Low.Tie2L Low.Tie3L

/-- the type of `sizeof` in the generated code -/
abbrev SelfT := Value → Option Int


/-- `self` follows the model on the tree `e` -/
def SelfOK (self : SelfT) (e : RVal) : Prop := self (some e) = (sizeOf (erase e)).map Int.ofNat

theorem loop13_eq (fuel : Nat) (self : SelfT) (v : Value) (L : List RVal) (blk3 : Int → Option Int)
    (hidx : ∀ i : Nat, GoSem6.index v (i : Int) = (L[i]?).map some)
    (hself : ∀ e ∈ L, SelfOK self e) (hL : L.length < 9223372036854775808) :
    ∀ (es : List RVal) (j gas acc : Nat), es = L.drop j → es.length + 1 ≤ gas →
      acc + structSizeList (eraseList es) < 9223372036854775808 →
      Gen.Ssa6.size_sizeof_loop13 fuel self v (L.length : Int) blk3 gas (acc : Int) (j : Int)
        = (sizeOfList (eraseList es)).bind (fun s => blk3 ((acc + s : Nat) : Int))
  | [], j, gas, acc, hd, hg, hb => by
    obtain ⟨g, rfl⟩ : ∃ g, gas = g + 1 := ⟨gas - 1, by simp at hg; omega⟩
    have hj : L.length ≤ j := drop_eq_nil_le hd
    have hn : ¬ (j < L.length) := by omega
    rw [Gen.Ssa6.size_sizeof_loop13]
    simp [eraseList, sizeOfList, hn]
  | e :: rest, j, gas, acc, hd, hg, hb => by
    obtain ⟨g, rfl⟩ : ∃ g, gas = g + 1 := ⟨gas - 1, by simp at hg; omega⟩
    have hj : j < L.length := drop_eq_cons_lt hd
    have ht : L[j]? = some e := getElem?_of_drop_eq_cons hd
    have hmem : e ∈ L := List.mem_of_getElem? ht
    have e1 : addI64 (j : Int) 1 = ((j + 1 : Nat) : Int) := addI64_one_ofNat (by omega)
    have hse : self (some e) = (sizeOf (erase e)).map Int.ofNat := hself e hmem
    rw [eraseList, structSizeList] at hb
    rw [Gen.Ssa6.size_sizeof_loop13]
    simp only [Int.ofNat_lt, hj, decide_true, ↓reduceIte, hidx, ht, Option.map_some, Option.bind_some, hse]
    cases hs : sizeOf (erase e) with
    | none => simp [eraseList, sizeOfList_cons_none hs]
    | some a =>
      have ha := sizeOf_some _ _ hs
      have e2 : addI64 (acc : Int) (a : Int) = ((acc + a : Nat) : Int) := addI64_ofNat (by omega)
      have ih := loop13_eq fuel self v L blk3 hidx hself hL rest (j + 1) g (acc + a) (drop_succ_of_drop_eq_cons hd)
        (by simp at hg; omega) (by omega)
      simp only [Option.map_some, Option.bind_some, Int.ofNat_eq_natCast, e2, e1]
      rw [ih, eraseList, sizeOfList_cons_some hs]
      cases sizeOfList (eraseList rest) <;> simp [Nat.add_assoc]

theorem loop27_eq (fuel : Nat) (self : SelfT) (v : Value) (L : List RVal) (blk3 : Int → Option Int)
    (hidx : ∀ i : Nat, GoSem6.field v (i : Int) = (L[i]?).map some)
    (hself : ∀ e ∈ L, SelfOK self e) (hL : L.length < 9223372036854775808) :
    ∀ (es : List RVal) (j gas acc : Nat), es = L.drop j → es.length + 1 ≤ gas →
      acc + structSizeList (eraseList es) < 9223372036854775808 →
      Gen.Ssa6.size_sizeof_loop27 fuel self v (L.length : Int) blk3 gas (acc : Int) (j : Int)
        = (sizeOfList (eraseList es)).bind (fun s => blk3 ((acc + s : Nat) : Int))
  | [], j, gas, acc, hd, hg, hb => by
    obtain ⟨g, rfl⟩ : ∃ g, gas = g + 1 := ⟨gas - 1, by simp at hg; omega⟩
    have hj : L.length ≤ j := drop_eq_nil_le hd
    have hn : ¬ (j < L.length) := by omega
    rw [Gen.Ssa6.size_sizeof_loop27]
    simp [eraseList, sizeOfList, hn]
  | e :: rest, j, gas, acc, hd, hg, hb => by
    obtain ⟨g, rfl⟩ : ∃ g, gas = g + 1 := ⟨gas - 1, by simp at hg; omega⟩
    have hj : j < L.length := drop_eq_cons_lt hd
    have ht : L[j]? = some e := getElem?_of_drop_eq_cons hd
    have hmem : e ∈ L := List.mem_of_getElem? ht
    have e1 : addI64 (j : Int) 1 = ((j + 1 : Nat) : Int) := addI64_one_ofNat (by omega)
    have hse : self (some e) = (sizeOf (erase e)).map Int.ofNat := hself e hmem
    rw [eraseList, structSizeList] at hb
    rw [Gen.Ssa6.size_sizeof_loop27]
    simp only [Int.ofNat_lt, hj, decide_true, ↓reduceIte, hidx, ht, Option.map_some, Option.bind_some, hse]
    cases hs : sizeOf (erase e) with
    | none => simp [eraseList, sizeOfList_cons_none hs]
    | some a =>
      have ha := sizeOf_some _ _ hs
      have e2 : addI64 (acc : Int) (a : Int) = ((acc + a : Nat) : Int) := addI64_ofNat (by omega)
      have ih := loop27_eq fuel self v L blk3 hidx hself hL rest (j + 1) g (acc + a) (drop_succ_of_drop_eq_cons hd)
        (by simp at hg; omega) (by omega)
      simp only [Option.map_some, Option.bind_some, Int.ofNat_eq_natCast, e2, e1]
      rw [ih, eraseList, sizeOfList_cons_some hs]
      cases sizeOfList (eraseList rest) <;> simp [Nat.add_assoc]

/-- the bytes of a string of length `n`: `k` of them are left, each costs 1 -/
theorem loop17_eq (fuel : Nat) (self : SelfT) (n : Nat) (blk3 : Int → Option Int)
    (hself : self (some (.scalar .uint8)) = some 1) (hn : n < 9223372036854775808) :
    ∀ (k j gas acc : Nat), j + k = n → k + 1 ≤ gas → acc + k < 9223372036854775808 →
      Gen.Ssa6.size_sizeof_loop17 fuel self (some (.str n)) (n : Int) blk3 gas (acc : Int) (j : Int)
        = blk3 ((acc + k : Nat) : Int)
  | 0, j, gas, acc, hj, hg, hb => by
    obtain ⟨g, rfl⟩ : ∃ g, gas = g + 1 := ⟨gas - 1, by omega⟩
    have hn' : ¬ (j < n) := by omega
    rw [Gen.Ssa6.size_sizeof_loop17]
    simp [hn']
  | k+1, j, gas, acc, hj, hg, hb => by
    obtain ⟨g, rfl⟩ : ∃ g, gas = g + 1 := ⟨gas - 1, by omega⟩
    have hj' : j < n := by omega
    have e1 : addI64 (j : Int) 1 = ((j + 1 : Nat) : Int) := addI64_one_ofNat (by omega)
    have e2 : addI64 (acc : Int) 1 = ((acc + 1 : Nat) : Int) := addI64_one_ofNat (by omega)
    have hi : GoSem6.index (some (.str n)) (j : Int) = some (some (.scalar .uint8)) := by
      simp [GoSem6.index, hj']
    have ih := loop17_eq fuel self n blk3 hself hn k (j + 1) g (acc + 1) (by omega) (by omega) (by omega)
    rw [Gen.Ssa6.size_sizeof_loop17]
    simp only [Int.ofNat_lt, hj', decide_true, ↓reduceIte, hi, Option.bind_some, hself, e1, e2]
    rw [ih, show acc + 1 + k = acc + (k + 1) by omega]

/-- the entries of a map: the iterator stands on `cur`, `rest` is still to come -/
theorem loop8_eq (fuel : Nat) (self : SelfT) (v : Value) (blk3 : Int → Option Int) :
    ∀ (rest : List (RVal × RVal)) (cur : Option (RVal × RVal)) (st : Bool) (gas acc : Nat),
      (st = true → cur.isSome = true) → (∀ p ∈ rest, SelfOK self p.1 ∧ SelfOK self p.2) → rest.length + 1 ≤ gas →
      acc + structSizePairs (erasePairs rest) < 9223372036854775808 →
      Gen.Ssa6.size_sizeof_loop8 fuel self v blk3 gas (acc : Int) ⟨cur, rest, st⟩
        = (sizeOfPairs (erasePairs rest)).bind (fun s => blk3 ((acc + s : Nat) : Int))
  | [], cur, st, gas, acc, hinv, hself, hg, hb => by
    obtain ⟨g, rfl⟩ : ∃ g, gas = g + 1 := ⟨gas - 1, by simp at hg; omega⟩
    have hc : (st && cur.isNone) = false := by
      cases st <;> cases cur <;> simp at hinv ⊢
    rw [Gen.Ssa6.size_sizeof_loop8]
    simp [MapIter.next, hc, erasePairs, sizeOfPairs]
  | (k, x) :: r, cur, st, gas, acc, hinv, hself, hg, hb => by
    obtain ⟨g, rfl⟩ : ∃ g, gas = g + 1 := ⟨gas - 1, by simp at hg; omega⟩
    have hc : (st && cur.isNone) = false := by
      cases st <;> cases cur <;> simp at hinv ⊢
    have hk : self (some k) = (sizeOf (erase k)).map Int.ofNat := (hself (k, x) (by simp)).1
    have hx : self (some x) = (sizeOf (erase x)).map Int.ofNat := (hself (k, x) (by simp)).2
    rw [erasePairs, structSizePairs] at hb
    rw [Gen.Ssa6.size_sizeof_loop8]
    simp only [MapIter.next, hc, Bool.false_eq_true, ↓reduceIte, Option.bind_some, MapIter.key, MapIter.value,
      Option.map_some, hk, hx]
    cases hs1 : sizeOf (erase k) with
    | none => simp [erasePairs, sizeOfPairs, hs1]
    | some a =>
      have ha := sizeOf_some _ _ hs1
      have e1 : addI64 (acc : Int) (a : Int) = ((acc + a : Nat) : Int) := addI64_ofNat (by omega)
      cases hs2 : sizeOf (erase x) with
      | none => simp [erasePairs, sizeOfPairs, hs1, hs2]
      | some b =>
        have hb' := sizeOf_some _ _ hs2
        have e2 : addI64 ((acc + a : Nat) : Int) (b : Int) = ((acc + a + b : Nat) : Int) :=
          addI64_ofNat (by omega)
        have ih := loop8_eq fuel self v blk3 r (some (k, x)) true g (acc + a + b) (by simp)
          (fun p hp => hself p (List.mem_cons_of_mem _ hp)) (by simp at hg; omega) (by omega)
        simp only [Option.map_some, Option.bind_some, Int.ofNat_eq_natCast, e1, e2]
        rw [ih, erasePairs, sizeOfPairs, hs1, hs2]
        cases sizeOfPairs (erasePairs r) <;> simp [Nat.add_assoc]

end Low.Tie6
