import LowModel.GoSem6
import LowModel.SizeOf
import LowProofs.Tie3.Lemmas
/-
  Definitions and basic lemmas for the ties of generation 6 (`size.sizeof`, `size.Of`).

  The generated definitions work on the vocabulary's value tree `GoSem6.RVal` (scalars carry their `reflect.Kind`, so
  that the `switch v.Kind()` of the code is translated literally); the hand-written model (`LowModel/SizeOf.lean`) works on
  `GoVal`, whose scalars carry only their width.  `RVal.erase` forgets the kind: the ties are stated as
  `generated (tree) = model (erase tree)`.  Every `GoVal` whose scalar widths are widths of Go scalars is the erasure
  of a tree (`erase_surj` below), so nothing of the model's domain is lost.

  `RVal.depth` / `RVal.width` are the two budgets: nesting of recursive calls, and the longest single loop + 1.
-/
namespace Low.Tie6
open Low Low.GoSem6

mutual
/-- forget the scalar kinds: the model's tree -/
def erase : RVal → GoVal
  | .scalar k => .scalar k.size
  | .str n => .str n
  | .arr es => .arr (eraseList es)
  | .slice es => .slice (eraseList es)
  | .map ps => .map (erasePairs ps)
  | .ptr none => .ptr none
  | .ptr (some p) => .ptr (some (erase p))
  | .iface none => .iface none
  | .iface (some p) => .iface (some (erase p))
  | .struct fs => .struct (eraseList fs)
  | .opaque _ => .unsupported
def eraseList : List RVal → List GoVal
  | [] => []
  | v :: r => erase v :: eraseList r
def erasePairs : List (RVal × RVal) → List (GoVal × GoVal)
  | [] => []
  | (k, v) :: r => (erase k, erase v) :: erasePairs r
end

mutual
/-- nesting depth of the calls of `sizeof` on the tree (the bytes of a string and a nil interface's zero Value are
    one call deeper) -/
def depth : RVal → Nat
  | .scalar _ => 1
  | .str _ => 2
  | .arr es => 1 + depthList es
  | .slice es => 1 + depthList es
  | .map ps => 1 + depthPairs ps
  | .ptr none => 1
  | .ptr (some p) => 1 + depth p
  | .iface none => 2
  | .iface (some p) => 1 + depth p
  | .struct fs => 1 + depthList fs
  | .opaque _ => 1
def depthList : List RVal → Nat
  | [] => 0
  | v :: r => max (depth v) (depthList r)
def depthPairs : List (RVal × RVal) → Nat
  | [] => 0
  | (k, v) :: r => max (max (depth k) (depth v)) (depthPairs r)
end

mutual
/-- the longest loop that `sizeof` runs anywhere in the tree, plus one (the iteration that leaves the loop) -/
def width : RVal → Nat
  | .scalar _ => 1
  | .str n => n + 1
  | .arr es => max (es.length + 1) (widthList es)
  | .slice es => max (es.length + 1) (widthList es)
  | .map ps => max (ps.length + 1) (widthPairs ps)
  | .ptr none => 1
  | .ptr (some p) => width p
  | .iface none => 1
  | .iface (some p) => width p
  | .struct fs => max (fs.length + 1) (widthList fs)
  | .opaque _ => 1
def widthList : List RVal → Nat
  | [] => 1
  | v :: r => max (width v) (widthList r)
def widthPairs : List (RVal × RVal) → Nat
  | [] => 1
  | (k, v) :: r => max (max (width k) (width v)) (widthPairs r)
end

/-! ### whenever the model's `sizeOf` succeeds, its result is the spec's `structSize` (no `supported` needed) -/
mutual
theorem sizeOf_some : ∀ (v : GoVal) (s : Nat), sizeOf v = some s → s = structSize v
  | .scalar w, s, h => by simp [sizeOf] at h; simp [structSize, h]
  | .str n, s, h => by simp [sizeOf] at h; simp [structSize]; omega
  | .arr es, s, h => by
    rw [sizeOf] at h; have := sizeOfList_some es s h; simp [structSize, this]
  | .slice es, s, h => by
    rw [sizeOf] at h
    cases hl : sizeOfList es with
    | none => simp [hl] at h
    | some a => have := sizeOfList_some es a hl; simp [hl] at h; simp [structSize]; omega
  | .map ps, s, h => by
    rw [sizeOf] at h
    cases hl : sizeOfPairs ps with
    | none => simp [hl] at h
    | some a => have := sizeOfPairs_some ps a hl; simp [hl] at h; simp [structSize]; omega
  | .ptr none, s, h => by simp [sizeOf] at h; simp [structSize, h]
  | .ptr (some v), s, h => by
    rw [sizeOf] at h
    cases hl : sizeOf v with
    | none => simp [hl] at h
    | some a => have := sizeOf_some v a hl; simp [hl] at h; simp [structSize]; omega
  | .iface none, s, h => by simp [sizeOf] at h; simp [structSize, h]
  | .iface (some v), s, h => by
    rw [sizeOf] at h
    cases hl : sizeOf v with
    | none => simp [hl] at h
    | some a => have := sizeOf_some v a hl; simp [hl] at h; simp [structSize]; omega
  | .struct fs, s, h => by
    rw [sizeOf] at h; have := sizeOfList_some fs s h; simp [structSize, this]
  | .unsupported, s, h => by simp [sizeOf] at h
theorem sizeOfList_some : ∀ (l : List GoVal) (s : Nat), sizeOfList l = some s → s = structSizeList l
  | [], s, h => by simp [sizeOfList] at h; simp [structSizeList, h]
  | v :: r, s, h => by
    rw [sizeOfList] at h
    cases h1 : sizeOf v with
    | none => simp [h1] at h
    | some a =>
      cases h2 : sizeOfList r with
      | none => simp [h1, h2] at h
      | some b =>
        have e1 := sizeOf_some v a h1
        have e2 := sizeOfList_some r b h2
        simp [h1, h2] at h; simp [structSizeList]; omega
theorem sizeOfPairs_some : ∀ (l : List (GoVal × GoVal)) (s : Nat), sizeOfPairs l = some s → s = structSizePairs l
  | [], s, h => by simp [sizeOfPairs] at h; simp [structSizePairs, h]
  | (k, v) :: r, s, h => by
    rw [sizeOfPairs] at h
    cases h1 : sizeOf k with
    | none => simp [h1] at h
    | some a =>
      cases h2 : sizeOf v with
      | none => simp [h1, h2] at h
      | some b =>
        cases h3 : sizeOfPairs r with
        | none => simp [h1, h2, h3] at h
        | some c =>
          have e1 := sizeOf_some k a h1
          have e2 := sizeOf_some v b h2
          have e3 := sizeOfPairs_some r c h3
          simp [h1, h2, h3] at h; simp [structSizePairs]; omega
end

/-! ### lists: erasure, `drop`, membership -/

theorem eraseList_length : ∀ l : List RVal, (eraseList l).length = l.length
  | [] => rfl
  | _ :: r => by simp [eraseList, eraseList_length r]

theorem sizeOfList_cons_none {v : GoVal} {r : List GoVal} (h : sizeOf v = none) : sizeOfList (v :: r) = none := by
  rw [sizeOfList, h]

theorem sizeOfList_cons_some {v : GoVal} {r : List GoVal} {a : Nat} (h : sizeOf v = some a) :
    sizeOfList (v :: r) = (sizeOfList r).map (fun b => a + b) := by
  rw [sizeOfList, h]; cases sizeOfList r <;> rfl

theorem depth_le_of_mem : ∀ (l : List RVal) (e : RVal), e ∈ l → depth e ≤ depthList l
  | [], _, h => by cases h
  | v :: r, e, h => by
    rw [depthList]
    rcases List.mem_cons.mp h with rfl | h'
    · omega
    · have := depth_le_of_mem r e h'; omega

theorem width_le_of_mem : ∀ (l : List RVal) (e : RVal), e ∈ l → width e ≤ widthList l
  | [], _, h => by cases h
  | v :: r, e, h => by
    rw [widthList]
    rcases List.mem_cons.mp h with rfl | h'
    · omega
    · have := width_le_of_mem r e h'; omega

theorem structSize_le_of_mem : ∀ (l : List RVal) (e : RVal), e ∈ l → structSize (erase e) ≤ structSizeList (eraseList l)
  | [], _, h => by cases h
  | v :: r, e, h => by
    rw [eraseList, structSizeList]
    rcases List.mem_cons.mp h with rfl | h'
    · omega
    · have := structSize_le_of_mem r e h'; omega

theorem structSizeList_drop_le : ∀ (l : List RVal) (j : Nat),
    structSizeList (eraseList (l.drop j)) ≤ structSizeList (eraseList l)
  | l, 0 => by simp
  | [], j+1 => by simp
  | v :: r, j+1 => by
    have := structSizeList_drop_le r j
    simp only [List.drop_succ_cons]; rw [eraseList, structSizeList]; omega

theorem depthPairs_le : ∀ (l : List (RVal × RVal)) (p : RVal × RVal), p ∈ l →
    depth p.1 ≤ depthPairs l ∧ depth p.2 ≤ depthPairs l
  | [], _, h => by cases h
  | (k, v) :: r, p, h => by
    rw [depthPairs]
    rcases List.mem_cons.mp h with rfl | h'
    · constructor <;> simp <;> omega
    · have := depthPairs_le r p h'; omega

theorem widthPairs_le : ∀ (l : List (RVal × RVal)) (p : RVal × RVal), p ∈ l →
    width p.1 ≤ widthPairs l ∧ width p.2 ≤ widthPairs l
  | [], _, h => by cases h
  | (k, v) :: r, p, h => by
    rw [widthPairs]
    rcases List.mem_cons.mp h with rfl | h'
    · constructor <;> simp <;> omega
    · have := widthPairs_le r p h'; omega

theorem structSizePairs_le : ∀ (l : List (RVal × RVal)) (p : RVal × RVal), p ∈ l →
    structSize (erase p.1) + structSize (erase p.2) ≤ structSizePairs (erasePairs l)
  | [], _, h => by cases h
  | (k, v) :: r, p, h => by
    rw [erasePairs, structSizePairs]
    rcases List.mem_cons.mp h with rfl | h'
    · simp
    · have := structSizePairs_le r p h'; omega

/-- the bytes of a string: `n` values of kind uint8 -/
theorem sizeOfList_bytes : ∀ n : Nat, sizeOfList (List.replicate n (GoVal.scalar 1)) = some n
  | 0 => by simp [sizeOfList]
  | n+1 => by
    rw [List.replicate_succ, sizeOfList_cons_some (a := 1) (by simp [sizeOf]), sizeOfList_bytes n]
    simp; omega

end Low.Tie6
