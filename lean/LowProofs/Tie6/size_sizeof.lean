import LowProofs.Tie6.size_sizeof_L
/-
  TIE: the definition regenerated from the SSA form of `size.sizeof` (size/sizeof.go) equals the hand-written model
  `Low.sizeOf` (LowModel/SizeOf.lean) on the erasure of the value tree.

  The generated definition is DIRECTLY recursive: `size_sizeof_body fuel self v` is the SSA of the function with the
  recursive calls going to `self`; `size_sizeof_rec fuel depth` closes the recursion on a depth counter and
  `size_sizeof fuel v = size_sizeof_rec fuel fuel v`.  `rec_eq` is proved by induction on the depth; in each case of the
  first `switch` the loop lemma of `size_sizeof_L.lean` is applied with `self := size_sizeof_rec fuel d`.

  Domain (explicit hypotheses):
    * `depth v ≤ fuel`, `width v ≤ fuel`: the budgets (nesting of the calls / longest loop + 1); below them the generated
      definition is `none` although Go returns a value — `fuel` is not a Go quantity;
    * `width v ≤ 2^63`: every length in the tree is a Go `int`;
    * `structSize (erase v) < 2^63`: the structural sum fits an `int`.  Outside, Go's `sum += s` wraps around, the
      model's `Nat` does not: a value of ≥ 2^63 bytes does not fit a 64-bit address space, so this is outside the
      domain of property C20 (which quantifies over values that exist).
  No hypothesis about supportedness: for a tree that contains a channel / func / unsafe.Pointer both sides are `none`
  (Go panics with "unknown kind").
-/
namespace Low.Tie6
open Low Low.GoSem Low.GoSem6 Low.TieL Low.Tie2L Low.Tie3L
set_option linter.unusedSimpArgs false

theorem depth_pos : ∀ v : RVal, 1 ≤ depth v
  | .scalar _ => by simp [depth]
  | .str _ => by simp [depth]
  | .arr _ => by simp [depth]
  | .slice _ => by simp [depth]
  | .map _ => by simp [depth]
  | .ptr none => by simp [depth]
  | .ptr (some _) => by simp [depth]
  | .iface none => by simp [depth]
  | .iface (some _) => by simp [depth]
  | .struct _ => by simp [depth]
  | .opaque _ => by simp [depth]

/-- the zero Value: `sizeof` returns 0 -/
theorem rec_invalid (fuel d : Nat) : Gen.Ssa6.size_sizeof_rec fuel (d + 1) none = some 0 := by
  rw [Gen.Ssa6.size_sizeof_rec]; simp [Gen.Ssa6.size_sizeof_body, isValid]

theorem rec_eq (fuel : Nat) : ∀ (d : Nat) (v : RVal), depth v ≤ d → width v ≤ fuel → width v ≤ 9223372036854775808 →
    structSize (erase v) < 9223372036854775808 →
    Gen.Ssa6.size_sizeof_rec fuel d (some v) = (sizeOf (erase v)).map Int.ofNat
  | 0, v, hd, _, _, _ => by have := depth_pos v; omega
  | d+1, .scalar k, hd, hw, hl, hs => by
    rw [Gen.Ssa6.size_sizeof_rec]
    cases k <;>
      simp [Gen.Ssa6.size_sizeof_body, isValid, kind, RVal.kind, Scalar.kind, typeOf, RType.size, Scalar.size, erase, sizeOf] <;> decide
  | d+1, .opaque k, hd, hw, hl, hs => by
    rw [Gen.Ssa6.size_sizeof_rec]
    cases k <;>
      simp [Gen.Ssa6.size_sizeof_body, isValid, kind, RVal.kind, Opaque.kind, erase, sizeOf]
  | d+1, .ptr none, hd, hw, hl, hs => by
    rw [Gen.Ssa6.size_sizeof_rec]
    simp [Gen.Ssa6.size_sizeof_body, isValid, kind, RVal.kind, pointer, Addr.isNil, erase, sizeOf]
    decide
  | d+1, .iface none, hd, hw, hl, hs => by
    obtain ⟨d', rfl⟩ : ∃ d', d = d' + 1 := ⟨d - 1, by simp [depth] at hd; omega⟩
    rw [Gen.Ssa6.size_sizeof_rec]
    simp [Gen.Ssa6.size_sizeof_body, isValid, kind, RVal.kind, elem, rec_invalid, erase, sizeOf]
    decide
  | d+1, .ptr (some p), hd, hw, hl, hs => by
    have ih := rec_eq fuel d p (by simp [depth] at hd; omega) (by simpa [width] using hw) (by simpa [width] using hl)
      (by simp [erase, structSize] at hs; omega)
    rw [Gen.Ssa6.size_sizeof_rec]
    simp only [erase, structSize] at hs
    cases hp : sizeOf (erase p) with
    | none =>
      rw [hp] at ih
      simp [Gen.Ssa6.size_sizeof_body, isValid, kind, RVal.kind, pointer, Addr.isNil, elem, ih, erase, sizeOf, hp]
    | some a =>
      rw [hp] at ih
      have ha := sizeOf_some _ _ hp
      have e : addI64 (a : Int) 8 = ((a + 8 : Nat) : Int) := addI64_ofNat (b := 8) (by omega)
      simp [Gen.Ssa6.size_sizeof_body, isValid, kind, RVal.kind, pointer, Addr.isNil, elem, ih, erase, sizeOf, hp, e]
  | d+1, .iface (some p), hd, hw, hl, hs => by
    have ih := rec_eq fuel d p (by simp [depth] at hd; omega) (by simpa [width] using hw) (by simpa [width] using hl)
      (by simp [erase, structSize] at hs; omega)
    rw [Gen.Ssa6.size_sizeof_rec]
    simp only [erase, structSize] at hs
    cases hp : sizeOf (erase p) with
    | none =>
      rw [hp] at ih
      simp [Gen.Ssa6.size_sizeof_body, isValid, kind, RVal.kind, elem, ih, erase, sizeOf, hp]
    | some a =>
      rw [hp] at ih
      have ha := sizeOf_some _ _ hp
      have e : addI64 (a : Int) 16 = ((a + 16 : Nat) : Int) := addI64_ofNat (b := 16) (by omega)
      simp [Gen.Ssa6.size_sizeof_body, isValid, kind, RVal.kind, elem, ih, erase, sizeOf, hp, e]
  | d+1, .str n, hd, hw, hl, hs => by
    obtain ⟨d', rfl⟩ : ∃ d', d = d' + 1 := ⟨d - 1, by simp [depth] at hd; omega⟩
    have hself : Gen.Ssa6.size_sizeof_rec fuel (d' + 1) (some (.scalar .uint8)) = some 1 := by
      have := rec_eq fuel (d' + 1) (.scalar .uint8) (by simp [depth]) (by simp [width] at hw ⊢; omega) (by simp [width])
        (by simp [erase, structSize, Scalar.size])
      simpa [erase, sizeOf, Scalar.size] using this
    simp only [width] at hw hl
    simp only [erase, structSize] at hs
    have hloop := loop17_eq fuel (Gen.Ssa6.size_sizeof_rec fuel (d' + 1)) n
    rw [Gen.Ssa6.size_sizeof_rec]
    have e : addI64 (n : Int) 16 = ((n + 16 : Nat) : Int) := addI64_ofNat (b := 16) (by omega)
    simp only [Gen.Ssa6.size_sizeof_body, isValid, kind, RVal.kind, GoSem6.len, Option.isSome_some, ↓reduceIte,
      Option.bind_some]
    simp only [Nat.reduceEqDiff, decide_false, decide_true, Bool.false_eq_true, ↓reduceIte]
    have h0 := hloop (fun t3 => some (addI64 t3 16)) hself (by omega) n 0 fuel 0 (by omega) (by omega) (by omega)
    simp only [Int.ofNat_zero, Nat.zero_add] at h0
    simp [h0, e, erase, sizeOf]
  | d+1, .arr es, hd, hw, hl, hs => by
    simp only [width] at hw hl
    simp only [erase, structSize] at hs
    simp only [depth] at hd
    have hself : ∀ e ∈ es, SelfOK (Gen.Ssa6.size_sizeof_rec fuel d) e := fun e he =>
      rec_eq fuel d e (by have := depth_le_of_mem es e he; omega) (by have := width_le_of_mem es e he; omega)
        (by have := width_le_of_mem es e he; omega) (by have := structSize_le_of_mem es e he; omega)
    have hidx : ∀ i : Nat, GoSem6.index (some (.arr es)) (i : Int) = (es[i]?).map some := fun i => by
      simp [GoSem6.index, index_ofNat]
    rw [Gen.Ssa6.size_sizeof_rec]
    simp only [Gen.Ssa6.size_sizeof_body, isValid, kind, RVal.kind, GoSem6.len, Option.isSome_some, ↓reduceIte,
      Option.bind_some]
    simp only [Nat.reduceEqDiff, decide_false, decide_true, Bool.false_eq_true, ↓reduceIte]
    have h0 := loop13_eq fuel (Gen.Ssa6.size_sizeof_rec fuel d) (some (.arr es)) es (fun t3 => some t3) hidx hself
      (by omega) es 0 fuel 0 (by simp) (by omega) (by omega)
    simp only [Int.ofNat_zero, Nat.zero_add] at h0
    rw [h0, erase, sizeOf]
    cases sizeOfList (eraseList es) <;> simp
  | d+1, .slice es, hd, hw, hl, hs => by
    simp only [width] at hw hl
    simp only [erase, structSize] at hs
    simp only [depth] at hd
    have hself : ∀ e ∈ es, SelfOK (Gen.Ssa6.size_sizeof_rec fuel d) e := fun e he =>
      rec_eq fuel d e (by have := depth_le_of_mem es e he; omega) (by have := width_le_of_mem es e he; omega)
        (by have := width_le_of_mem es e he; omega) (by have := structSize_le_of_mem es e he; omega)
    have hidx : ∀ i : Nat, GoSem6.index (some (.slice es)) (i : Int) = (es[i]?).map some := fun i => by
      simp [GoSem6.index, index_ofNat]
    rw [Gen.Ssa6.size_sizeof_rec]
    simp only [Gen.Ssa6.size_sizeof_body, isValid, kind, RVal.kind, GoSem6.len, Option.isSome_some, ↓reduceIte,
      Option.bind_some]
    simp only [Nat.reduceEqDiff, decide_false, decide_true, Bool.false_eq_true, ↓reduceIte]
    have h0 := loop13_eq fuel (Gen.Ssa6.size_sizeof_rec fuel d) (some (.slice es)) es (fun t3 => some (addI64 t3 24)) hidx
      hself (by omega) es 0 fuel 0 (by simp) (by omega) (by omega)
    simp only [Int.ofNat_zero, Nat.zero_add] at h0
    rw [h0, erase, sizeOf]
    cases hl' : sizeOfList (eraseList es) with
    | none => simp
    | some a =>
      have ha := sizeOfList_some _ _ hl'
      have e : addI64 (a : Int) 24 = ((a + 24 : Nat) : Int) := addI64_ofNat (b := 24) (by omega)
      simp [e]
  | d+1, .struct es, hd, hw, hl, hs => by
    simp only [width] at hw hl
    simp only [erase, structSize] at hs
    simp only [depth] at hd
    have hself : ∀ e ∈ es, SelfOK (Gen.Ssa6.size_sizeof_rec fuel d) e := fun e he =>
      rec_eq fuel d e (by have := depth_le_of_mem es e he; omega) (by have := width_le_of_mem es e he; omega)
        (by have := width_le_of_mem es e he; omega) (by have := structSize_le_of_mem es e he; omega)
    have hidx : ∀ i : Nat, GoSem6.field (some (.struct es)) (i : Int) = (es[i]?).map some := fun i => by
      simp [GoSem6.field, index_ofNat]
    rw [Gen.Ssa6.size_sizeof_rec]
    simp only [Gen.Ssa6.size_sizeof_body, isValid, kind, RVal.kind, GoSem6.numField, Option.isSome_some, ↓reduceIte,
      Option.bind_some]
    simp only [Nat.reduceEqDiff, decide_false, decide_true, Bool.false_eq_true, ↓reduceIte]
    have h0 := loop27_eq fuel (Gen.Ssa6.size_sizeof_rec fuel d) (some (.struct es)) es (fun t3 => some t3) hidx hself
      (by omega) es 0 fuel 0 (by simp) (by omega) (by omega)
    simp only [Int.ofNat_zero, Nat.zero_add] at h0
    rw [h0, erase, sizeOf]
    cases sizeOfList (eraseList es) <;> simp
  | d+1, .map ps, hd, hw, hl, hs => by
    simp only [width] at hw hl
    simp only [erase, structSize] at hs
    simp only [depth] at hd
    have hself : ∀ p ∈ ps, SelfOK (Gen.Ssa6.size_sizeof_rec fuel d) p.1 ∧ SelfOK (Gen.Ssa6.size_sizeof_rec fuel d) p.2 :=
      fun p hp => by
        have h1 := depthPairs_le ps p hp
        have h2 := widthPairs_le ps p hp
        have h3 := structSizePairs_le ps p hp
        exact ⟨rec_eq fuel d p.1 (by omega) (by omega) (by omega) (by omega),
               rec_eq fuel d p.2 (by omega) (by omega) (by omega) (by omega)⟩
    rw [Gen.Ssa6.size_sizeof_rec]
    simp only [Gen.Ssa6.size_sizeof_body, isValid, kind, RVal.kind, GoSem6.mapRange, Option.isSome_some, ↓reduceIte,
      Option.bind_some]
    simp only [Nat.reduceEqDiff, decide_false, decide_true, Bool.false_eq_true, ↓reduceIte]
    have h0 := loop8_eq fuel (Gen.Ssa6.size_sizeof_rec fuel d) (some (.map ps)) (fun t3 => some (addI64 t3 8)) ps none false
      fuel 0 (by simp) hself (by omega) (by omega)
    simp only [Int.ofNat_zero, Nat.zero_add] at h0
    rw [h0, erase, sizeOf]
    cases hl' : sizeOfPairs (erasePairs ps) with
    | none => simp
    | some a =>
      have ha := sizeOfPairs_some _ _ hl'
      have e : addI64 (a : Int) 8 = ((a + 8 : Nat) : Int) := addI64_ofNat (b := 8) (by omega)
      simp [e]

/-- **Tie of `size.sizeof`**: on every value tree within the budgets and the `int` range, the regenerated definition
    equals the model's `sizeOf` of the erased tree (including `none` = panic "unknown kind" on chan / func /
    unsafe.Pointer anywhere in the tree). -/
theorem Tie_size_sizeof (fuel : Nat) (v : RVal) (hd : depth v ≤ fuel) (hw : width v ≤ fuel)
    (hl : width v ≤ 9223372036854775808) (hs : structSize (erase v) < 9223372036854775808) :
    Gen.Ssa6.size_sizeof fuel (some v) = (sizeOf (erase v)).map Int.ofNat := by
  rw [Gen.Ssa6.size_sizeof]; exact rec_eq fuel fuel v hd hw hl hs

/-- the zero Value (`reflect.ValueOf(nil)`, the `Elem()` of a nil interface): `sizeof` returns 0 -/
theorem Tie_size_sizeof_invalid (fuel : Nat) (h : 1 ≤ fuel) : Gen.Ssa6.size_sizeof fuel none = some 0 := by
  obtain ⟨f, rfl⟩ : ∃ f, fuel = f + 1 := ⟨fuel - 1, by omega⟩
  rw [Gen.Ssa6.size_sizeof]; exact rec_invalid (f + 1) f

end Low.Tie6
