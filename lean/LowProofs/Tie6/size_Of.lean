import Generated.Ssa6.size_Of
import LowProofs.Tie6.size_sizeof
/-
  TIE: the definition regenerated from the SSA form of `size.Of` (size/sizeof.go) equals the hand-written model
  `Low.sizeOfTop` (LowModel/SizeOf.lean): `nil` costs 0, any other argument is measured by `sizeof(reflect.ValueOf(data))`.
  The argument `data interface{}` is `GoSem6.Iface = Option RVal` (`none` = the nil interface); the model takes the erased
  tree.  Domain: as for `Tie_size_sizeof` (budgets `depth`, `width`; lengths and the sum fit an `int`).
-/
namespace Low.Tie6
open Low Low.GoSem Low.GoSem6

/-- **Tie of `size.Of`** for a non-nil argument. -/
theorem Tie_size_Of (fuel : Nat) (v : RVal) (hd : depth v ≤ fuel) (hw : width v ≤ fuel)
    (hl : width v ≤ 9223372036854775808) (hs : structSize (erase v) < 9223372036854775808) :
    Gen.Ssa6.size_Of fuel (some v) = (sizeOfTop (some (erase v))).map Int.ofNat := by
  rw [Gen.Ssa6.size_Of]
  simp only [ifaceIsNil, Option.isNone_some, Bool.false_eq_true, ↓reduceIte, valueOf, Tie_size_sizeof fuel v hd hw hl hs,
    sizeOfTop]
  cases sizeOf (erase v) <;> rfl

/-- **Tie of `size.Of`** for the nil interface: 0, for every `fuel`. -/
theorem Tie_size_Of_nil (fuel : Nat) : Gen.Ssa6.size_Of fuel none = (sizeOfTop none).map Int.ofNat := by
  rw [Gen.Ssa6.size_Of]; simp [ifaceIsNil, sizeOfTop]

/-- both cases in one statement: the argument as the model sees it is `data.map erase` -/
theorem Tie_size_Of_all (fuel : Nat) (data : Iface)
    (h : ∀ v, data = some v → depth v ≤ fuel ∧ width v ≤ fuel ∧ width v ≤ 9223372036854775808 ∧
      structSize (erase v) < 9223372036854775808) :
    Gen.Ssa6.size_Of fuel data = (sizeOfTop (data.map erase)).map Int.ofNat := by
  cases data with
  | none => exact Tie_size_Of_nil fuel
  | some v => obtain ⟨h1, h2, h3, h4⟩ := h v rfl; exact Tie_size_Of fuel v h1 h2 h3 h4

end Low.Tie6
