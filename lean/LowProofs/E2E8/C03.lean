import LowProofs.E2E.C03
import LowProofs.E2E8.C03Strict
import LowProofs.Tie8.bmtree_PathToIndexLoose_debug
/-
  C03 end to end, the `-tags debug` clauses, part 2: `C03_contracts` and `C03_loose_debug` on the definitions REGENERATED
  by tools/ssa2lean8 from the build with tag `debug` (see `E2E8/C03Strict.lean` for the conventions and for
  `PathToIndex`).  `E2E8_C03_loose_debug_eq_release` relates the debug build to the release build (`Generated/Ssa2`).
-/
namespace Low
open Low.C03L Low.Tie8L Low.E2E8L

/-- `C03_contracts` on generated code.  For every level bitmap `T` of height `h ≤ 30` and every node `n` of depth
    `≤ h`, given as its specified path word `encPath h n`, the code of the contract functions in the debug build
    returns without a panic: `bitmapSizeCheck(T)`, `pathCheck(path)`, `bitmapPathMustHaveEqualHeight(T, path)`, and
    the whole closure that `PathToIndexLoose` hands to `must.Be.OK`; if moreover the level of `n` is stored
    (`T.testBit n.length`), also `bitmapMustHaveLevel(T, PathLen(path))` — with `PathLen` the regenerated code — and
    the whole closure of `PathToIndex`.
    Hypotheses: `2^h ≤ T`, `T < 2^(h+1)`, `h ≤ 30`, `n.length ≤ h`. -/
theorem E2E8_C03_contracts (T h : Nat) (n : List Bool) (h1 : 2^h ≤ T) (h2 : T < 2^(h+1)) (h30 : h ≤ 30)
    (hn : n.length ≤ h) :
    Gen.Ssa8.bmtree_bitmapSizeCheck_debug (T : Int) = some () ∧
    Gen.Ssa8.bmtree_pathCheck_debug (encPath h n) = some () ∧
    Gen.Ssa8.bmtree_bitmapPathMustHaveEqualHeight_debug (T : Int) (encPath h n) = some () ∧
    Gen.Ssa8.bmtree_PathToIndexLoose_debug_fn1 (T : Int) (encPath h n) = some () ∧
    (T.testBit n.length = true →
      Gen.Ssa8.bmtree_bitmapMustHaveLevel_debug (T : Int) (Gen.Ssa8.bmtree_PathLen_debug (encPath h n)) = some () ∧
      Gen.Ssa8.bmtree_PathToIndex_debug_fn1 (T : Int) (encPath h n) = some ()) := by
  obtain ⟨a, b⟩ := dom h1 h2 h30
  have hp := encPath_lt64 h30 hn
  have hc := C03_contracts T h n a b (height_of_range h1 h2 h30) hn
  have hl := hc.1
  simp only [contractsLoose, Bool.and_eq_true] at hl
  have hpl : pathLen (encPath h n) < 2^63 := by
    have : pathLen (encPath h n) ≤ 32 := popc_le _ _
    omega
  refine ⟨?_, ?_, ?_, ?_, ?_⟩
  · rw [Tie_bmtree_bitmapSizeCheck_debug T b, hl.1.1]; rfl
  · rw [Tie_bmtree_pathCheck_debug _ hp, hl.1.2]; rfl
  · rw [Tie_bmtree_bitmapPathMustHaveEqualHeight_debug T _ b hp, hl.2]; rfl
  · rw [PathToIndexLoose_debug_fn1 T _ b hp, hc.1]; rfl
  · intro hs
    have hst := hc.2 hs
    have hlv : bitmapMustHaveLevel T (pathLen (encPath h n)) = true := by
      simp only [contractsStrict, Bool.and_eq_true] at hst; exact hst.2
    exact ⟨by rw [Tie_bmtree_PathLen_debug, Tie_bmtree_bitmapMustHaveLevel_debug T _ hpl, hlv]; rfl,
      by rw [PathToIndex_debug_fn1 T _ b hp, hst]; rfl⟩

/-- `C03_loose_debug` on generated code.  The code of `PathToIndexLoose` in the DEBUG build, for every level bitmap `T`
    of height `h ≤ 30`, every node `n` of depth `≤ h` (as `encPath h n`) and EVERY `fuel ≥ 32`: no contract fires, no
    other panic, terminates, and the result is (number of stored nodes before `n` in pre-order, 1 iff the level of `n`
    is stored).
    Hypotheses: `2^h ≤ T`, `T < 2^(h+1)`, `h ≤ 30`, `n.length ≤ h`, `32 ≤ fuel`. -/
theorem E2E8_C03_loose_debug (T h : Nat) (n : List Bool) (fuel : Nat) (h1 : 2^h ≤ T) (h2 : T < 2^(h+1))
    (h30 : h ≤ 30) (hn : n.length ≤ h) (hfuel : 32 ≤ fuel) :
    Gen.Ssa8.bmtree_PathToIndexLoose_debug fuel (T : Int) (encPath h n)
      = some ((preIdx T 0 n : Int), ((T.testBit n.length).toNat : Int)) := by
  obtain ⟨a, b⟩ := dom h1 h2 h30
  rw [Tie_bmtree_PathToIndexLoose_debug T _ fuel b (encPath_lt64 h30 hn) hfuel,
    (C03_loose_debug T h n a b (height_of_range h1 h2 h30) hn).2]
  rfl

/-- … and this is what the RELEASE build returns (regenerated code of both builds, same `fuel`). -/
theorem E2E8_C03_loose_debug_eq_release (T h : Nat) (n : List Bool) (fuel : Nat) (h1 : 2^h ≤ T) (h2 : T < 2^(h+1))
    (h30 : h ≤ 30) (hn : n.length ≤ h) (hfuel : 32 ≤ fuel) :
    Gen.Ssa8.bmtree_PathToIndexLoose_debug fuel (T : Int) (encPath h n)
      = Gen.Ssa2.bmtree_PathToIndexLoose fuel (T : Int) (encPath h n) := by
  rw [E2E8_C03_loose_debug T h n fuel h1 h2 h30 hn hfuel, E2E_C03_loose T h n fuel h1 h2 h30 hn hfuel]

/-! non-vacuity: level bitmap 0x72 (height 6, levels 1, 4, 5, 6 stored) -/
example : Gen.Ssa8.bmtree_PathToIndexLoose_debug 32 0x72 (encPath 6 [true, false, true]) = some (72, 0) := by
  decide +kernel
example : Gen.Ssa8.bmtree_PathToIndexLoose_debug_fn1 ((0x72 : Nat) : Int) (encPath 6 [true, false, true]) = some () :=
  (E2E8_C03_contracts 0x72 6 [true, false, true] (by decide) (by decide) (by decide) (by decide)).2.2.2.1
example : Gen.Ssa8.bmtree_PathToIndex_debug_fn1 ((0x72 : Nat) : Int) (encPath 6 [true, false, true, true]) = some () :=
  ((E2E8_C03_contracts 0x72 6 [true, false, true, true] (by decide) (by decide) (by decide) (by decide)).2.2.2.2
    (by decide)).2
-- height 30 (the largest), deepest right-most leaf of the full tree
example : Gen.Ssa8.bmtree_PathToIndexLoose_debug 32 0x7fffffff (encPath 30 (List.replicate 30 true))
    = some (2147483646, 1) := by
  decide +kernel

end Low
