import Generated.Ssa3.bitmap_ToArray
import LowModel.Bitmap.Of
import LowProofs.Tie3.Lemmas
/-
  Tie: the definition regenerated from the SSA form of `bitmap.ToArray` (a loop over the bit positions
  `i = 0 .. 64*len(words)-1`, an `int32`, that appends `i` to the result when bit `i` is set) equals the hand-written
  model `toArray ws = (List.range (ws.length * 64)).filter (bitAt ws)`.  The generated loop `bitmap_ToArray_loop3`
  carries the result slice `r` (a functional list, `append` is `++` of the one-element array of the variadic
  argument) and the position `i`; `ToArray_loop` relates it to the model's filter over `List.range' i k`, with `k` the
  number of remaining positions and a generic accumulator.
-/
namespace Low
open Low.GoSem Low.GoSem3 Low.TieL Low.Tie2L Low.Tie3L

/-- `1 << j` on uint64 for `j < 64` -/
theorem shl64_one {j : Nat} (hj : j < 64) : shl64 1 j = 2 ^ j := by
  have h : (2 : Nat) ^ j < 2 ^ 64 := Nat.pow_lt_pow_right (by omega) hj
  rw [shl64, if_pos hj, Nat.one_shiftLeft]
  exact Nat.mod_eq_of_lt h

/-- the Go test `w & (1 << j) != 0` reads bit `j` of `w` (any `Nat` `w`, `j < 64`) -/
theorem and_shl64_one_ne_zero (w : Nat) {j : Nat} (hj : j < 64) :
    decide (w &&& shl64 1 j ≠ 0) = w.testBit j := by
  rw [shl64_one hj]
  cases hb : w.testBit j with
  | true =>
    have : (w &&& 2 ^ j).testBit j = true := by rw [Nat.testBit_and, hb, Nat.testBit_two_pow_self]; rfl
    have hne : w &&& 2 ^ j ≠ 0 := by
      intro h0; rw [h0, Nat.zero_testBit] at this; exact absurd this (by decide)
    exact decide_eq_true hne
  | false =>
    have h0 : w &&& 2 ^ j = 0 := by
      apply Nat.eq_of_testBit_eq; intro k
      rw [Nat.testBit_and, Nat.testBit_two_pow, Nat.zero_testBit]
      by_cases hk : j = k
      · subst hk; simp [hb]
      · simp [hk]
    simp [h0]

/-- the generated test at position `i < 64 * len(words)`, word `ws[i/64]`, is the model's `bitAt ws i` -/
theorem ToArray_test (ws : List Nat) {i : Nat} (hw : i / 64 < ws.length) :
    decide (ws[i / 64] &&& shl64 1 (i % 64) ≠ 0) = bitAt ws i := by
  rw [and_shl64_one_ne_zero _ (Nat.mod_lt _ (by omega)), bitAt, List.getD_eq_getElem?_getD,
    List.getElem?_eq_getElem hw]
  rfl

theorem ToArray_loop (fuel : Nat) (ws : List Nat) (hlen : ws.length < 2^25) :
    ∀ (k i gas : Nat) (acc : List Int), i + k = 64 * ws.length → k + 1 ≤ gas →
      Gen.Ssa3.bitmap_ToArray_loop3 fuel ws ((64 * ws.length : Nat) : Int) gas acc (i : Int)
        = some (acc ++ ((List.range' i k).filter (bitAt ws)).map Int.ofNat)
  | 0, i, gas, acc, hik, hg => by
    obtain ⟨g, rfl⟩ : ∃ g, gas = g + 1 := ⟨gas - 1, by omega⟩
    have hil : ¬ (i < 64 * ws.length) := by omega
    rw [Gen.Ssa3.bitmap_ToArray_loop3]
    simp only [Int.ofNat_lt, hil, decide_false, Bool.false_eq_true, ↓reduceIte, List.range'_zero, List.filter_nil,
      List.map_nil, List.append_nil]
  | k+1, i, gas, acc, hik, hg => by
    obtain ⟨g, rfl⟩ : ∃ g, gas = g + 1 := ⟨gas - 1, by omega⟩
    have hil : i < 64 * ws.length := by omega
    have hw : i / 64 < ws.length := by omega
    have e1 : addI32 (i : Int) 1 = ((i + 1 : Nat) : Int) := addI32_ofNat (b := 1) (by omega)
    have e2 : toU64 ((i % 64 : Nat) : Int) = i % 64 := toU64_ofNat_lt (by omega)
    have ih := fun acc' => ToArray_loop fuel ws hlen k (i + 1) g acc' (by omega) (by omega)
    rw [Gen.Ssa3.bitmap_ToArray_loop3, List.range'_succ, List.filter_cons]
    simp only [Int.ofNat_lt, hil, decide_true, ↓reduceIte, shrI32_6_ofNat, index_ofNat, List.getElem?_eq_getElem hw,
      Option.bind_some, andI32_63_ofNat, e2, shlU64_eq, andU64_eq, ToArray_test ws hw, e1, setIdx_newArray_one, ih]
    cases bitAt ws i with
    | false => simp only [Bool.false_eq_true, ↓reduceIte]
    | true => simp only [↓reduceIte, List.map_cons, List.append_assoc, List.cons_append, List.nil_append]; rfl

/-- Domain: `words` with fewer than `2^25` words (`BmDom`: the bit length `64*len` fits an `int32`, which is the type
    of the Go loop variable and of the bound `l`); no hypothesis on the words.  Fuel: every
    `fuel ≥ 64 * len(words) + 1` (one iteration per bit position, plus the exit test).  The Go function cannot panic
    on this domain: the result is `some`. -/
theorem Tie_bitmap_ToArray (ws : List Nat) (fuel : Nat) (hlen : ws.length < 2^25) (hfuel : 64 * ws.length + 1 ≤ fuel) :
    Gen.Ssa3.bitmap_ToArray fuel ws = some ((toArray ws).map Int.ofNat) := by
  have e : toI32 (mulI64 (len ws) 64) = ((64 * ws.length : Nat) : Int) := by
    have h1 : mulI64 (len ws) 64 = ((64 * ws.length : Nat) : Int) := by
      rw [mulI64, len_eq]
      exact (wrap64_id (by omega) (by omega)).trans (by omega)
    rw [h1]; exact toI32_ofNat_lt (by omega)
  have h := ToArray_loop fuel ws hlen (64 * ws.length) 0 fuel [] (by omega) (by omega)
  rw [Gen.Ssa3.bitmap_ToArray]
  simp only [e, newArray_zero]
  rw [Int.natCast_zero] at h
  rw [h, toArray, List.range_eq_range', Nat.mul_comm ws.length 64, List.nil_append]

set_option maxRecDepth 20000 in
example : Gen.Ssa3.bitmap_ToArray 129 [5, 0x8000000000000001] = some [0, 2, 64, 127] := by decide
example : toArray [5, 0x8000000000000001] = [0, 2, 64, 127] := by decide
example : Gen.Ssa3.bitmap_ToArray 1 [] = some [] := by decide
-- out of fuel
set_option maxRecDepth 20000 in
example : Gen.Ssa3.bitmap_ToArray 128 [5, 0x8000000000000001] = none := by decide

end Low
