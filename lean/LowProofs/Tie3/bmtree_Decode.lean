import Generated.Ssa3.bmtree_Decode
import LowModel.Bmtree.Index
import LowProofs.Tie2.bmtree_PathToIndex
import LowProofs.Tie3.bmtree_AllPaths
import LowProofs.Props.C04
/-
  Tie: the definition regenerated from the SSA form of `bmtree.Decode` (a `range` loop over the result of
  `AllPaths(bitmapSize, 0, 1<<63)` that appends to a slice the function allocates) equals the hand-written model
  `decode`.

  The calls are replaced by their ties: `AllPaths` (`Tie_bmtree_AllPaths'`, this directory) and `PathToIndex`
  (`Tie_bmtree_PathToIndex`, `LowProofs/Tie2`).  The facts about the MODEL that the loop needs come from the property
  proofs C03 / C04: every `p ∈ allPaths t 0 (2^63)` is the path word `encPath h n` of a stored node, hence
  `p < 2^63` (`C04_allPaths_mem`) and `pathToIndex t p = preIdx t 0 n ≥ 0` (`C03_strict`), and the list has exactly
  `t` elements (`C04_allPaths_all`, `C03_preorder_length`).  The model is a `List.filter`; `Decode_loop` relates the
  generated index loop to it by induction on the suffix `paths.drop j`, for an arbitrary accumulator.
-/
namespace Low
open Low.GoSem Low.GoSem3 Low.TieL Low.Tie2L Low.Tie3L

namespace Tie3DC

/-- `1 << s` on `uint64` for `s < 64` -/
theorem shlU64_one {s : Nat} (hs : s < 64) : shlU64 1 s = 2 ^ s := by
  have : (2 : Nat) ^ s < 2 ^ 64 := Nat.pow_lt_pow_right (by omega) hs
  rw [shlU64, shl64, if_pos hs, Nat.shiftLeft_eq, Nat.one_mul]
  exact Nat.mod_eq_of_lt (by simp only [M64]; omega)

/-- the test `int32(len(bm)) > wordI && bm[wordI]&(1<<uint(idx&63)) != 0` of the model, for an index `≥ 0` -/
theorem decode_pred' (t : Nat) (bm : List Nat) (p idx : Nat) (hidx : pathToIndex t p = (idx : Int)) :
    (decide ((bm.length : Int) > pathToIndex t p / 64) && decide (pathToIndex t p / 64 ≥ 0) &&
      (bm.getD (pathToIndex t p / 64).toNat 0).testBit (pathToIndex t p % 64).toNat) = bitAt bm idx := by
  rw [hidx]; exact C04L.decode_pred bm idx

/-- what the property proofs C03 / C04 say about the paths `Decode` walks over -/
theorem paths_facts {t : Nat} (ht : 1 ≤ t) (ht' : t < 2^31) :
    (allPaths t 0 (2^63)).length = t ∧
    ∀ p ∈ allPaths t 0 (2^63), p < 2^64 ∧ ∃ idx : Nat, pathToIndex t p = (idx : Int) := by
  obtain ⟨h, hh, _, _, _⟩ := Tie3AP.height_nat30 ht ht'
  constructor
  · rw [C04_allPaths_all t h (2^63) ht ht' hh (by decide) (by decide), storedPaths, List.length_map]
    exact C03_preorder_length t h ht ht' hh
  · intro p hp
    obtain ⟨⟨n, hn, hs, rfl⟩, _, hlt⟩ := (C04_allPaths_mem t h 0 (2^63) p ht ht' hh (by decide)).mp hp
    exact ⟨by omega, preIdx t 0 n, C03_strict t h n ht ht' hh hn hs⟩

end Tie3DC
open Tie3DC

/-- The `range` loop at position `j` (the SSA range index is `j - 1`, `-1` at the start), for an arbitrary result
    accumulator `acc`; `rest.length + 1` units of fuel; `33 ≤ fuel` for the calls of `PathToIndex`. -/
theorem Decode_loop (fuel t : Nat) (bm paths : List Nat) (ht : 1 ≤ t) (ht' : t < 2^31) (hbm : bm.length < 2^31)
    (hfuel : 33 ≤ fuel) (hlen : paths.length < 2^62)
    (hp : ∀ p ∈ paths, p < 2^64 ∧ ∃ idx : Nat, pathToIndex t p = (idx : Int)) :
    ∀ (rest : List Nat) (j gas : Nat) (acc : List Nat) (t5 : Int), rest = paths.drop j → addI64 t5 1 = (j : Int) →
      rest.length + 1 ≤ gas →
      Gen.Ssa3.bmtree_Decode_loop1 fuel (t : Int) bm paths (paths.length : Int) gas acc t5
        = some (acc ++ rest.filter (fun p => bitAt bm (pathToIndex t p).toNat))
  | [], j, gas, acc, t5, hr, h5, hg => by
    obtain ⟨g, rfl⟩ : ∃ g, gas = g + 1 := ⟨gas - 1, by omega⟩
    have hjl : ¬ j < paths.length := by have := drop_eq_nil_le hr; omega
    rw [Gen.Ssa3.bmtree_Decode_loop1]
    simp only [h5, Int.ofNat_lt, hjl, decide_false, Bool.false_eq_true, ↓reduceIte, List.filter_nil, List.append_nil]
  | w :: r, j, gas, acc, t5, hr, h5, hg => by
    obtain ⟨g, rfl⟩ : ∃ g, gas = g + 1 := ⟨gas - 1, by omega⟩
    have hjl : j < paths.length := drop_eq_cons_lt hr
    have hw : paths[j]? = some w := getElem?_of_drop_eq_cons hr
    obtain ⟨hw64, idx, hidx⟩ := hp w (List.mem_of_getElem? hw)
    have ih := fun acc' => Decode_loop fuel t bm paths ht ht' hbm hfuel hlen hp r (j + 1) g acc' (j : Int)
      (drop_succ_of_drop_eq_cons hr) (addI64_one_ofNat (by omega)) (by simp only [List.length_cons] at hg; omega)
    have hs : idx % 64 < 64 := Nat.mod_lt _ (by omega)
    have e1 : toI32 ((bm.length : Nat) : Int) = ((bm.length : Nat) : Int) := toI32_ofNat_lt (by omega)
    have e2 : toU64 ((idx % 64 : Nat) : Int) = idx % 64 := toU64_ofNat_lt (by omega)
    rw [Gen.Ssa3.bmtree_Decode_loop1]
    simp only [h5, Int.ofNat_lt, hjl, decide_true, ↓reduceIte, index_ofNat, hw, Option.bind_some,
      Tie_bmtree_PathToIndex t w fuel ht ht' hw64 hfuel, hidx, shrI32_6_ofNat, len_eq, e1, gt_iff_lt,
      andI32_63_ofNat, e2, shlU64_one hs, andU64_eq, setIdx_newArray_one, ih, List.filter_cons, Int.toNat_natCast,
      decide_eq_true_eq]
    by_cases hl : idx / 64 < bm.length
    · have hi := index_getD bm hl
      rw [index_ofNat] at hi
      have hba : (bm.getD (idx / 64) 0).testBit (idx % 64) = bitAt bm idx := rfl
      simp only [hl, ↓reduceIte, hi, Option.bind_some, ne_eq, Tie3AP.and_two_pow_eq_zero, Bool.not_eq_false, hba]
      cases bitAt bm idx with
      | true => simp
      | false => simp
    · have hz : bitAt bm idx = false := by
        unfold bitAt
        have : bm.getD (idx / 64) 0 = 0 := by
          rw [List.getD_eq_getElem?_getD, List.getElem?_eq_none (Nat.le_of_not_lt hl)]; rfl
        rw [this]; exact Nat.zero_testBit _
      simp only [hl, ↓reduceIte, hz, Bool.false_eq_true]

/-- Domain:
    * `1 ≤ t < 2^31`: `bitmapSize` a positive `int32` (the domain of `AllPaths` and `PathToIndex`, both panic for
      `bitmapSize = 0`);
    * `bm.length < 2^31`: `int32(len(bm))` is `len(bm)`; beyond that the Go conversion wraps while the model compares
      the exact length.  No hypothesis on the words of `bm`, nor on its length relative to `t` (a short, even empty,
      bitmap reads as zeros: the guard `int32(len(bm)) > wordI`).
    Fuel: every `fuel ≥ t + 32`: `AllPaths` needs `2^height + 32 ≤ t + 32`, the `range` loop visits the
    `len(paths) = t` stored paths (`t + 1`), every `PathToIndex` call needs `33`.
    `bm[wordI]` with a NEGATIVE `wordI` would panic in Go (the guard is only `int32(len(bm)) > wordI`) where the
    model's conjunct `wordI ≥ 0 &&` says "skip": this difference is not reachable, because every path that `AllPaths`
    produces on this domain is the path word of a stored node and its index is `preIdx ≥ 0` (C03, C04); no extra
    hypothesis is needed.  On this domain the Go function neither panics nor diverges. -/
theorem Tie_bmtree_Decode (t : Nat) (bm : List Nat) (fuel : Nat) (ht : 1 ≤ t) (ht' : t < 2^31)
    (hbm : bm.length < 2^31) (hfuel : t + 32 ≤ fuel) :
    Gen.Ssa3.bmtree_Decode fuel (t : Int) bm = some (decode t bm) := by
  obtain ⟨h, hh, _, hlo, _⟩ := Tie3AP.height_nat30 ht ht'
  obtain ⟨hlen, hp⟩ := paths_facts ht ht'
  have hap := Tie_bmtree_AllPaths' t 0 (2^63) fuel ht ht' (by decide) (by decide)
    (by rw [hh, Int.toNat_natCast]; omega)
  have hdec : decode t bm = (allPaths t 0 (2^63)).filter (fun p => bitAt bm (pathToIndex t p).toNat) := by
    rw [decode]
    apply List.filter_congr
    intro p hpm
    obtain ⟨_, idx, hidx⟩ := hp p hpm
    rw [decode_pred' t bm p idx hidx, hidx, Int.toNat_natCast]
  have hloop := Decode_loop fuel t bm (allPaths t 0 (2^63)) ht ht' hbm (by omega) (by omega) hp
    (allPaths t 0 (2^63)) 0 fuel [] (-1) rfl addI64_neg_one_one (by omega)
  rw [Gen.Ssa3.bmtree_Decode]
  have e63 : (9223372036854775808 : Nat) = 2^63 := by decide
  rw [e63, hap, Option.bind_some, hdec]
  simp only [newArray_zero, len_eq]
  rw [hloop, List.nil_append]

example : Gen.Ssa3.bmtree_Decode 40 5 [0b10101] = some [0, 0x100000003, 0x300000003] := by decide
example : decode 5 [0b10101] = [0, 0x100000003, 0x300000003] :=
  Option.some.inj ((Tie_bmtree_Decode 5 [0b10101] 40 (by decide) (by decide) (by decide) (by decide)).symm.trans
    (by decide))
-- an empty bitmap reads as zeros; garbage beyond bit `t` is never consulted
example : Gen.Ssa3.bmtree_Decode 40 5 [] = some [] := by decide
example : Gen.Ssa3.bmtree_Decode 40 5 [0xffffffffffffffe0 + 0b10101, 0xffff] = some [0, 0x100000003, 0x300000003] := by
  decide
-- out of fuel
example : Gen.Ssa3.bmtree_Decode 4 5 [0b10101] = none := by decide
-- `bitmapSize = 0` panics (inside `AllPaths`)
example : Gen.Ssa3.bmtree_Decode 40 0 [0b10101] = none := by decide

end Low
