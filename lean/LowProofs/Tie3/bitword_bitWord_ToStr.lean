import Generated.Ssa3.bitword_bitWord_ToStr
import LowModel.Bitword
import LowProofs.Tie3.Lemmas
/-
  Tie: the definition regenerated from the SSA form of `(*bitword.bitWord).ToStr` (two NESTED loops; the outer one
  fills a slice allocated with `make`, the inner one folds `byteCap` words into one byte) equals the hand-written model
  `bwToStr`.  The generated definition takes the receiver's fields `width`, `byteCap`, `wordMask` as arguments; the
  theorem instantiates them with the values that `newBW(n)` stores: `width = n`, `byteCap = 8/n`,
  `wordMask = bwWordMask n` (not read by `ToStr`).

  The loop lemmas are stated for arbitrary `n ≤ 8`, `1 ≤ m ≤ 8`; the case split on `n ∈ {1,2,4,8}` is only needed for
  these bounds in the main theorem.
  * inner loop (`_loop6`, over `j < m`, generic in the outer loop's continuation `k` and in the buffer, which it only
    writes on exit): with accumulator `b` at index `j` it computes the model's fold over `j, j+1, …, m-1` started at
    `b`, stores the result at `buf[i]` and calls `k (i+1)`;
  * outer loop (`_loop3`): the buffer is `pre ++ zeros` with `pre.length = i`, the final prefix.
  uint8 arithmetic: the code computes `addU8 (shlU8 b n) x = ((b <<< n) % 256 + x) % 256` (and `shlU8 b 8 = 0`), the
  model `((b <<< n) + x) % 256` (and `(b <<< 8) % 256`, which is 0): they agree for every `b`, `x` (no hypothesis on the
  bytes of `bs` is needed).
-/
namespace Low
open Low.GoSem Low.GoSem3 Low.TieL Low.Tie2L Low.Tie3L

/-- one step of the fold of `bwPackByte` -/
def ToStr_step (n : Nat) (bs : List Nat) (i m : Nat) (b j : Nat) : Nat :=
  match bs[i * m + j]? with
  | some x => ((b <<< n) + x) % 256
  | none => (b <<< n) % 256

theorem ToStr_packByte_eq (n : Nat) (bs : List Nat) (i m : Nat) :
    bwPackByte n bs i m = (List.range' 0 m).foldl (ToStr_step n bs i m) 0 := by
  rw [bwPackByte, List.range_eq_range']; rfl

/-- a product of small naturals does not wrap -/
theorem ToStr_mulI64_ofNat {a b : Nat} (h : a * b < 9223372036854775808) :
    mulI64 (a : Int) (b : Int) = ((a * b : Nat) : Int) := by
  rw [mulI64, ← Int.natCast_mul]; exact wrap64_ofNat h

/-- `b << n` on a byte, for every shift count `n ≤ 8` (for `n = 8` the Go result is 0, and so is `(b <<< 8) % 256`) -/
theorem ToStr_shlU8 (b : Nat) {n : Nat} (hn : n ≤ 8) : shlU8 b n = (b <<< n) % 256 := by
  unfold shlU8
  by_cases h : n < 8
  · rw [if_pos h]
  · have : n = 8 := by omega
    subst this
    rw [if_neg h, Nat.shiftLeft_eq]
    omega

theorem ToStr_step_some (n : Nat) (bs : List Nat) (i m b j x : Nat) (hn : n ≤ 8) (hx : bs[i * m + j]? = some x) :
    addU8 (shlU8 b n) x = ToStr_step n bs i m b j := by
  rw [ToStr_step, hx, addU8, ToStr_shlU8 b hn]
  exact Nat.mod_add_mod _ _ _

theorem ToStr_step_none (n : Nat) (bs : List Nat) (i m b j : Nat) (hn : n ≤ 8) (hx : bs[i * m + j]? = none) :
    shlU8 b n = ToStr_step n bs i m b j := by
  rw [ToStr_step, hx, ToStr_shlU8 b hn]

theorem ToStr_inner (fuel n m : Nat) (bc : Int) (mask : Nat) (bs : List Nat) (i : Nat)
    (k : Int → List Nat → Option (List Nat)) (hn8 : n ≤ 8) (hm8 : m ≤ 8) (hi : i < 2^33) :
    ∀ (d j gas b : Nat) (buf : List Nat), d = m - j → j ≤ m → d + 1 ≤ gas →
      Gen.Ssa3.bitword_bitWord_ToStr_loop6 fuel (n : Int) bc mask bs (m : Int) (i : Int) k gas b (j : Int) buf
        = (setIdx buf (i : Int) ((List.range' j d).foldl (ToStr_step n bs i m) b)).bind fun buf' =>
            k ((i + 1 : Nat) : Int) buf'
  | 0, j, gas, b, buf, hd, hj, hg => by
    obtain ⟨g, rfl⟩ : ∃ g, gas = g + 1 := ⟨gas - 1, by omega⟩
    have hjm : ¬ ((j : Int) < (m : Int)) := by omega
    have h1 : i + 1 < 9223372036854775808 := by omega
    have e1 : addI64 (i : Int) 1 = ((i + 1 : Nat) : Int) := addI64_one_ofNat h1
    rw [Gen.Ssa3.bitword_bitWord_ToStr_loop6]
    simp only [hjm, decide_false, Bool.false_eq_true, ↓reduceIte, e1, List.range'_zero, List.foldl_nil]
  | d + 1, j, gas, b, buf, hd, hj, hg => by
    obtain ⟨g, rfl⟩ : ∃ g, gas = g + 1 := ⟨gas - 1, by omega⟩
    have hjm : j < m := by omega
    have him : i * m ≤ i * 8 := Nat.mul_le_mul_left i hm8
    -- all `omega` calls come before the `Int` equations enter the context (see `FromStr_inner`)
    have h1 : i * m < 9223372036854775808 := by omega
    have h2 : i * m + j < 9223372036854775808 := by omega
    have h3 : n < 18446744073709551616 := by omega
    have h4 : j + 1 < 9223372036854775808 := by omega
    have ih := fun b' => ToStr_inner fuel n m bc mask bs i k hn8 hm8 hi d (j + 1) g b' buf (by omega) (by omega)
      (by omega)
    have e1 : mulI64 (i : Int) (m : Int) = ((i * m : Nat) : Int) := ToStr_mulI64_ofNat h1
    have e2 : addI64 ((i * m : Nat) : Int) (j : Int) = ((i * m + j : Nat) : Int) := addI64_ofNat h2
    have e3 : toU64 (n : Int) = n := toU64_ofNat_lt h3
    have e4 : addI64 (j : Int) 1 = ((j + 1 : Nat) : Int) := addI64_one_ofNat h4
    have hr : (List.range' j (d + 1)).foldl (ToStr_step n bs i m) b
        = (List.range' (j + 1) d).foldl (ToStr_step n bs i m) (ToStr_step n bs i m b j) := by
      rw [List.range'_succ, List.foldl_cons]
    rw [Gen.Ssa3.bitword_bitWord_ToStr_loop6, hr]
    by_cases hlt : i * m + j < bs.length
    · have hx : bs[i * m + j]? = some bs[i * m + j] := List.getElem?_eq_getElem hlt
      simp only [Int.ofNat_lt, hjm, decide_true, ↓reduceIte, e1, e2, e3, e4, len_eq, hlt, index_ofNat, hx,
        Option.bind_some, ToStr_step_some n bs i m b j _ hn8 hx, ih]
    · have hx : bs[i * m + j]? = none := List.getElem?_eq_none (by omega)
      simp only [Int.ofNat_lt, hjm, decide_true, ↓reduceIte, e1, e2, e3, e4, len_eq, hlt, decide_false,
        Bool.false_eq_true, ToStr_step_none n bs i m b j hn8 hx, ih]

theorem ToStr_outer (fuel n m : Nat) (bc : Int) (mask : Nat) (bs : List Nat) (hn8 : n ≤ 8) (hm8 : m ≤ 8)
    (hfuel : m + 1 ≤ fuel) :
    ∀ (d i gas : Nat) (pre : List Nat), pre.length = i → i + d < 2^33 → d + 1 ≤ gas →
      Gen.Ssa3.bitword_bitWord_ToStr_loop3 fuel (n : Int) bc mask bs (m : Int) gas (i : Int)
          (pre ++ List.replicate d 0)
        = some (pre ++ (List.range' i d).map fun i => bwPackByte n bs i m)
  | 0, i, gas, pre, hp, hid, hg => by
    obtain ⟨g, rfl⟩ : ∃ g, gas = g + 1 := ⟨gas - 1, by omega⟩
    subst hp
    rw [Gen.Ssa3.bitword_bitWord_ToStr_loop3]
    simp only [len_eq, List.replicate_zero, List.append_nil, Int.lt_irrefl, decide_false, Bool.false_eq_true,
      ↓reduceIte, List.range'_zero, List.map_nil]
  | d + 1, i, gas, pre, hp, hid, hg => by
    obtain ⟨g, rfl⟩ : ∃ g, gas = g + 1 := ⟨gas - 1, by omega⟩
    subst hp
    have hlt : pre.length < (pre ++ List.replicate (d + 1) 0).length := by
      simp only [List.length_append, List.length_replicate]; omega
    have hin := ToStr_inner fuel n m bc mask bs pre.length
      (Gen.Ssa3.bitword_bitWord_ToStr_loop3 fuel (n : Int) bc mask bs (m : Int) g)
      hn8 hm8 (by omega) m 0 fuel 0 (pre ++ List.replicate (d + 1) 0) (by omega) (by omega) (by omega)
    have ih := ToStr_outer fuel n m bc mask bs hn8 hm8 hfuel d (pre.length + 1) g
      (pre ++ [bwPackByte n bs pre.length m]) (by simp) (by omega) (by omega)
    rw [Gen.Ssa3.bitword_bitWord_ToStr_loop3]
    simp only [len_eq, Int.ofNat_lt, hlt, decide_true, ↓reduceIte]
    simp only [Int.natCast_zero] at hin
    rw [hin, ← ToStr_packByte_eq, setIdx_ofNat _ _ hlt, set_append_replicate, Option.bind_some, ih]
    simp only [List.range'_succ, List.map_cons, List.append_assoc, List.cons_append, List.nil_append]

theorem ToStr_main (fuel n m : Nat) (mask : Nat) (bs : List Nat) (hn8 : n ≤ 8) (hm1 : 1 ≤ m) (hm8 : m ≤ 8)
    (hlen : bs.length < 2^32) (hfuel : bs.length + 9 ≤ fuel) :
    Gen.Ssa3.bitword_bitWord_ToStr fuel (n : Int) (m : Int) mask bs
      = some ((List.range ((bs.length + m - 1) / m)).map fun i => bwPackByte n bs i m) := by
  have hsz : (bs.length + m - 1) / m ≤ bs.length + m - 1 := Nat.div_le_self _ _
  have hszl : (bs.length + m - 1) / m ≤ bs.length := by
    rw [Nat.div_le_iff_le_mul_add_pred (by omega)]
    have : bs.length * 1 ≤ bs.length * m := Nat.mul_le_mul_left _ hm1
    rw [Nat.mul_comm m]; omega
  have h1 : bs.length + m < 9223372036854775808 := by omega
  have h2 : (1 : Nat) ≤ bs.length + m := by omega
  have h3 : (bs.length + m - 1) / m < 9223372036854775808 := by omega
  have hm0 : ¬ ((m : Int) = 0) := by omega
  have h := ToStr_outer fuel n m (m : Int) mask bs hn8 hm8 (by omega) ((bs.length + m - 1) / m) 0 fuel []
    rfl (by omega) (by omega)
  have e1 : addI64 (bs.length : Int) (m : Int) = ((bs.length + m : Nat) : Int) := addI64_ofNat h1
  have e2 : subI64 ((bs.length + m : Nat) : Int) 1 = ((bs.length + m - 1 : Nat) : Int) :=
    subI64_ofNat (b := 1) h2 h1
  have e3 : quoI64 ((bs.length + m - 1 : Nat) : Int) (m : Int) = some (((bs.length + m - 1) / m : Nat) : Int) := by
    rw [quoI64, if_neg hm0, ← Int.ofNat_tdiv, wrap64_ofNat h3]
  rw [Gen.Ssa3.bitword_bitWord_ToStr]
  simp only [len_eq, e1, e2, e3, Option.bind_some, makeSlice_ofNat]
  simp only [List.nil_append, Int.natCast_zero] at h
  rw [h, List.range_eq_range']

/-- Domain: `n ∈ {1,2,4,8}` (the widths `newBW` accepts; the fields are `width = n`, `byteCap = 8/n`,
    `wordMask = bwWordMask n`), `bs` any byte slice shorter than `2^32` (`hlen`: the `int` sums and products
    `len(bs)+byteCap`, `i*byteCap+j` do not wrap; NO hypothesis on the bytes: the uint8 arithmetic of the generated code
    and the `% 256` of the model agree for all values).  Fuel: every `fuel ≥ len(bs) + 9` (the outer loop needs
    `⌈len(bs)/byteCap⌉ + 1 ≤ len(bs) + 1` iterations of gas, each instance of the inner loop `8/n + 1 ≤ 9`).
    The Go function cannot panic on this domain: the result is `some`. -/
theorem Tie_bitword_bitWord_ToStr (n : Nat) (bs : List Nat) (fuel : Nat) (hn : n = 1 ∨ n = 2 ∨ n = 4 ∨ n = 8)
    (hlen : bs.length < 2^32) (hfuel : bs.length + 9 ≤ fuel) :
    Gen.Ssa3.bitword_bitWord_ToStr fuel (n : Int) ((8 / n : Nat) : Int) (bwWordMask n) bs = some (bwToStr n bs) := by
  have hb : n ≤ 8 ∧ 1 ≤ 8 / n ∧ 8 / n ≤ 8 := by rcases hn with h | h | h | h <;> subst h <;> decide
  rw [ToStr_main fuel n (8 / n) (bwWordMask n) bs hb.1 hb.2.1 hb.2.2 hlen hfuel, bwToStr]

example : Gen.Ssa3.bitword_bitWord_ToStr 17 2 4 3 [0, 1, 2, 3, 3, 2, 1, 0] = some [0x1b, 0xe4] := by decide
example : bwToStr 2 [0, 1, 2, 3, 3, 2, 1, 0] = [0x1b, 0xe4] := by decide
-- a partial last byte is padded with zero words
example : Gen.Ssa3.bitword_bitWord_ToStr 12 4 2 15 [1, 11, 7] = some [0x1b, 0x70] := by decide
example : bwToStr 4 [1, 11, 7] = [0x1b, 0x70] := by decide
-- width 8: `b << 8` is 0 on a byte
example : Gen.Ssa3.bitword_bitWord_ToStr 11 8 1 255 [0x1b, 7] = some [0x1b, 7] := by decide
-- out of fuel: the outer loop needs 3 iterations of gas
example : Gen.Ssa3.bitword_bitWord_ToStr 2 2 4 3 [0, 1, 2, 3, 3, 2, 1, 0] = none := by decide
-- out of fuel in the inner loop (needs 9 for n = 1)
example : Gen.Ssa3.bitword_bitWord_ToStr 8 1 8 1 [1, 0, 1] = none := by decide

end Low
