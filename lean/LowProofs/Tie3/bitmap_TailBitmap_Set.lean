import Generated.Ssa3.bitmap_TailBitmap_Set
import LowModel.Bitmap.Tail
import LowProofs.Tie3.bitmap_TailBitmap_Get_L
import LowProofs.Tie3.bitmap_TailBitmap_Compact
/-
  Tie: the definition regenerated from the SSA form of `(*bitmap.TailBitmap).Set` equals the hand-written model
  `TailBitmap.set`.  The receiver fields `Offset`, `Words`, `reclaimed` are passed as arguments and are loop
  parameters of the generated loop `bitmap_TailBitmap_Set_loop5` (`for int(wordIdx) >= len(tb.Words) { tb.Words =
  append(tb.Words, 0) }`); the code after the loop (`tb.Words[wordIdx] |= Bit[idx&63]`, then `tb.Compact()` if
  `wordIdx == 0`) is inside the loop definition; the call of `Compact` is a call of the generated
  `bitmap_TailBitmap_Compact` with the current field values, tied to the model by `Tie_bitmap_TailBitmap_Compact`.
-/
namespace Low
open Low.GoSem Low.GoSem3 Low.TieL Low.Tie2L Low.Tie3L Low.TailL

/-- what the code after the growing loop computes from the grown `Words` (`ws1`) -/
def setExit (fuel : Nat) (thr : Int) (k : Nat) (o : Int) (ws1 : List Nat) (rc : Int) : Option (Int × List Nat × Int) :=
  let ws3 := ws1.set (k / 64) (ws1.getD (k / 64) 0 ||| bit (k % 64))
  if k / 64 = 0 then Gen.Ssa3.bitmap_TailBitmap_Compact fuel o ws3 rc thr else some (o, ws3, rc)

theorem Set_loop (fuel : Nat) (o0 : Int) (ws0 : List Nat) (rc0 idx thr : Int) (k : Nat) (o rc : Int)
    (hk : k < 9223372036854775808) :
    ∀ (n : Nat) (ws : List Nat) (gas : Nat), n = k / 64 + 1 - ws.length → n + 1 ≤ gas →
      Gen.Ssa3.bitmap_TailBitmap_Set_loop5 fuel o0 ws0 rc0 idx thr (k : Int) ((k / 64 : Nat) : Int) gas o ws rc
        = setExit fuel thr k o (ws ++ zeros n) rc
  | 0, ws, gas, hn, hg => by
    obtain ⟨g, rfl⟩ : ∃ g, gas = g + 1 := ⟨gas - 1, by omega⟩
    have hlt : k / 64 < ws.length := by omega
    have hge : ¬ (((k / 64 : Nat) : Int) ≥ (ws.length : Int)) := by omega
    have hk64 : k % 64 < 64 := Nat.mod_lt k (by omega)
    have hz : decide (((k / 64 : Nat) : Int) = 0) = decide (k / 64 = 0) := by
      simp only [Int.natCast_eq_zero]
    rw [Gen.Ssa3.bitmap_TailBitmap_Set_loop5, setExit]
    simp only [toI64_ofNat_lt (by omega : k / 64 < 9223372036854775808), len_eq, hge, decide_false,
      Bool.false_eq_true, ↓reduceIte, andI64_63_ofNat, tblBit_ofNat hk64, Option.bind_some, index_getD ws hlt,
      orU64_eq, setIdx_ofNat ws _ hlt, hz, zeros, List.replicate_zero, List.append_nil]
    by_cases h : k / 64 = 0
    · simp only [h, decide_true, ↓reduceIte]
      cases Gen.Ssa3.bitmap_TailBitmap_Compact fuel o (ws.set 0 (ws.getD 0 0 ||| bit (k % 64))) rc thr <;> rfl
    · simp only [h, decide_false, Bool.false_eq_true, ↓reduceIte]
  | n + 1, ws, gas, hn, hg => by
    obtain ⟨g, rfl⟩ : ∃ g, gas = g + 1 := ⟨gas - 1, by omega⟩
    have hge : ((k / 64 : Nat) : Int) ≥ (ws.length : Int) := by omega
    have ih := Set_loop fuel o0 ws0 rc0 idx thr k o rc hk n (ws ++ [0]) g (by simp; omega) (by omega)
    have happ : ws ++ zeros (n + 1) = ws ++ [0] ++ zeros n := by
      simp [zeros, List.replicate_succ]
    rw [Gen.Ssa3.bitmap_TailBitmap_Set_loop5, happ, ← ih]
    simp only [toI64_ofNat_lt (by omega : k / 64 < 9223372036854775808), len_eq, hge, decide_true, ↓reduceIte,
      setIdx_newArray_one, Option.bind_some]

/-- Domain: `tb.Offset` is an int64 and `idx - tb.Offset` fits an int64 (no wrap; it is `≥ 0` where it is computed).
    The remaining hypotheses are those of `Tie_bitmap_TailBitmap_Compact` for the receiver after the bit is set, and
    are used only when `idx` falls into the first word (then `Compact` is called, with at least one word):
    `Offset + 64 * max(len(Words), 1) < 2^63` (`tb.Offset += 64` does not wrap) and `tb.Offset - tb.reclaimed` fits an
    int64 for the initial and every possible final `Offset`.  `thr` (`reclaimThreshold`) is arbitrary.
    Fuel: every `fuel ≥ (number of words appended) + len(Words) + 2`.  The Go method cannot panic on this domain. -/
theorem Tie_bitmap_TailBitmap_Set (tb : TailBitmap) (thr idx : Int) (fuel : Nat)
    (ho1 : -9223372036854775808 ≤ tb.offset)
    (hidx : idx - tb.offset < 9223372036854775808)
    (ho2 : tb.offset + 64 * ((max tb.words.length 1 : Nat) : Int) < 9223372036854775808)
    (hr1 : -9223372036854775808 ≤ tb.offset - tb.reclaimed)
    (hr2 : tb.offset + 64 * ((max tb.words.length 1 : Nat) : Int) - tb.reclaimed < 9223372036854775808)
    (hfuel : ((idx - tb.offset).toNat / 64 + 1 - tb.words.length) + tb.words.length + 2 ≤ fuel) :
    Gen.Ssa3.bitmap_TailBitmap_Set fuel tb.offset tb.words tb.reclaimed idx thr
      = some (let r := tb.set thr idx; (r.offset, r.words, r.reclaimed)) := by
  rw [Gen.Ssa3.bitmap_TailBitmap_Set, TailBitmap.set]
  by_cases hlt : idx < tb.offset
  · simp only [hlt, decide_true, ↓reduceIte]
  · obtain ⟨k, hk⟩ : ∃ k : Nat, idx - tb.offset = (k : Int) := ⟨(idx - tb.offset).toNat, by omega⟩
    have hs : subI64 idx tb.offset = (k : Int) := by rw [subI64_id (by omega) hidx, hk]
    simp only [hk, Int.toNat_natCast] at hfuel
    simp only [hlt, decide_false, Bool.false_eq_true, ↓reduceIte, hs, hk, Int.toNat_natCast, shrI64_6_ofNat]
    rw [Set_loop fuel tb.offset tb.words tb.reclaimed idx thr k tb.offset tb.reclaimed (by omega)
      (k / 64 + 1 - tb.words.length) tb.words fuel rfl (by omega), setExit]
    by_cases h : k / 64 = 0
    · have hlen : (tb.words ++ zeros (0 + 1 - tb.words.length)).length = max tb.words.length 1 := by
        simp [zeros]; omega
      simp only [h, ↓reduceIte]
      rw [Tie_bitmap_TailBitmap_Compact
        (TailBitmap.mk tb.offset ((tb.words ++ zeros (0 + 1 - tb.words.length)).set 0
            ((tb.words ++ zeros (0 + 1 - tb.words.length)).getD 0 0 ||| bit (k % 64))) tb.reclaimed) thr fuel ho1
        (by simp only [List.length_set, hlen]; exact ho2) hr1
        (by simp only [List.length_set, hlen]; exact hr2)
        (by simp only [List.length_set, hlen]; omega)]
    · simp only [h, ↓reduceIte]

example : Gen.Ssa3.bitmap_TailBitmap_Set 5 64 [5] 0 200 65536 = some (64, [5, 0, 256], 0) := by decide
example : (TailBitmap.mk 64 [5] 0).set 65536 200 = TailBitmap.mk 64 [5, 0, 256] 0 := by decide
example : Gen.Ssa3.bitmap_TailBitmap_Set 4 64 [0xfffffffffffffffe, 0xffffffffffffffff] 0 64 100
    = some (192, [], 192) := by decide
example : Gen.Ssa3.bitmap_TailBitmap_Set 4 64 [5] 0 3 100 = some (64, [5], 0) := by decide
-- out of fuel
example : Gen.Ssa3.bitmap_TailBitmap_Set 2 64 [5] 0 200 65536 = none := by decide

end Low
