import Generated.Ssa3.sigbits_FirstDiffBits
import LowModel.Sigbits
import LowProofs.Tie3.Lemmas
import LowProofs.Tie3.sigbits_sFirstDiffBit
/-
  Tie: the definition regenerated from the SSA form of `sigbits.FirstDiffBits` (a loop `ds[i] = sFirstDiffBit(keys[i],
  keys[i+1])` that fills a slice allocated with `make([]int32, len(keys)-1)`) equals the hand-written model
  `firstDiffBits` (`zipWith sFirstDiffBit keys keys.tail`; `none` for no keys: `make` with length -1 panics).
  The generated loop `sigbits_FirstDiffBits_loop3` carries the index `i` and the CONTENTS of the allocated slice;
  `FirstDiffBits_loop` (induction on the suffix `keys.drop (i+1)`): the first `i` elements of the buffer are final, the
  rest is overwritten by what the model produces for the suffix.
  Proof-engineering note: stepping through the `Option.bind`s with `simp only [Option.bind_some, …]` in one go made the
  kernel report "deep recursion" here; the binds are therefore resolved with `rw [Option.bind_some]` one at a time.
-/
namespace Low
open Low.GoSem Low.GoSem3 Low.TieL Low.Tie2L Low.Tie3L

theorem FirstDiffBits_loop (fuel : Nat) (keys : List (List Nat)) (hbytes : ∀ k ∈ keys, ∀ x ∈ k, x < 256)
    (hlen : ∀ k ∈ keys, k.length < 2^28) (hf2 : ∀ k ∈ keys, k.length / 8 + 2 ≤ fuel) (hn : keys.length < 2^63) :
    ∀ (rest : List (List Nat)) (i gas : Nat) (buf : List Int), rest = keys.drop (i + 1) → i + 1 ≤ keys.length →
      rest.length + 1 ≤ gas → buf.length = keys.length - 1 →
      Gen.Ssa3.sigbits_FirstDiffBits_loop3 fuel keys (keys.length : Int) gas (i : Int) buf
        = some (buf.take i ++ (List.zipWith sFirstDiffBit (keys.drop i) rest).map Int.ofNat)
  | [], i, gas, buf, hr, hi, hg, hb => by
    obtain ⟨g, rfl⟩ : ∃ g, gas = g + 1 := ⟨gas - 1, by omega⟩
    have hil : keys.length ≤ i + 1 := drop_eq_nil_le hr
    have e0 : subI64 (keys.length : Int) 1 = ((keys.length - 1 : Nat) : Int) := subI64_ofNat (b := 1) (by omega) (by omega)
    have hnl : ¬ (i < keys.length - 1) := by omega
    rw [Gen.Ssa3.sigbits_FirstDiffBits_loop3]
    simp only [e0, Int.ofNat_lt, hnl, decide_false, Bool.false_eq_true, ↓reduceIte, List.zipWith_nil_right, List.map_nil,
      List.append_nil]
    rw [List.take_of_length_le (by omega)]
  | k2 :: r, i, gas, buf, hr, hi, hg, hb => by
    obtain ⟨g, rfl⟩ : ∃ g, gas = g + 1 := ⟨gas - 1, by omega⟩
    have hil : i + 1 < keys.length := drop_eq_cons_lt hr
    have hi' : i < keys.length := by omega
    have hk2 : keys[i + 1]? = some k2 := getElem?_of_drop_eq_cons hr
    have hk1 : keys[i]? = some keys[i] := List.getElem?_eq_getElem hi'
    have hd : keys.drop i = keys[i] :: (k2 :: r) := by rw [hr]; exact List.drop_eq_getElem_cons hi'
    have hm1 : keys[i] ∈ keys := List.getElem_mem hi'
    have hm2 : k2 ∈ keys := List.mem_of_getElem? hk2
    have e0 : subI64 (keys.length : Int) 1 = ((keys.length - 1 : Nat) : Int) := subI64_ofNat (b := 1) (by omega) (by omega)
    have e1 : addI64 (i : Int) 1 = ((i + 1 : Nat) : Int) := addI64_one_ofNat (by omega)
    have hlt : i < keys.length - 1 := by omega
    have hs := Tie_sigbits_sFirstDiffBit keys[i] k2 fuel (hbytes _ hm1) (hbytes _ hm2) (hlen _ hm1) (hlen _ hm2) (hf2 _ hm1)
    have ih := FirstDiffBits_loop fuel keys hbytes hlen hf2 hn r (i + 1) g
      (buf.set i ((sFirstDiffBit keys[i] k2 : Nat) : Int))
      (drop_succ_of_drop_eq_cons hr) (by omega) (by simp only [List.length_cons] at hg; omega) (by simpa using hb)
    rw [← hr] at ih
    rw [Gen.Ssa3.sigbits_FirstDiffBits_loop3]
    simp only [e0, Int.ofNat_lt, hlt, decide_true, ↓reduceIte, index_ofNat, hk1]
    rw [Option.bind_some]
    simp only [e1, index_ofNat, hk2]
    rw [Option.bind_some, hs, Option.bind_some, setIdx_ofNat buf _ (by omega : i < buf.length), Option.bind_some, ih,
      take_set_succ buf i _ (by omega : i < buf.length), hd, List.zipWith_cons_cons, List.map_cons]
    simp

/-- Domain: `keys` byte strings (`BytesOK`), each shorter than `2^28` bytes (the domain of `sFirstDiffBit`: `len*8` fits
    the `int32` element type); `len(keys) < 2^63` (a Go slice length is an `int`; the hypothesis is needed because the
    generated code computes `len(keys) - 1` with wrap-around on 64 bits).
    Fuel: every `fuel` with `len(keys) ≤ fuel` (the outer loop: `len(keys) - 1` iterations plus the final test) and
    `len(k)/8 + 2 ≤ fuel` for every key `k` (the loop of `sFirstDiffBit`).
    For `keys = []` the Go function panics (`make([]int32, -1)`): both sides are `none`. -/
theorem Tie_sigbits_FirstDiffBits (keys : List (List Nat)) (fuel : Nat) (hbytes : ∀ k ∈ keys, ∀ x ∈ k, x < 256)
    (hlen : ∀ k ∈ keys, k.length < 2^28) (hn : keys.length < 2^63) (hfuel1 : keys.length ≤ fuel)
    (hfuel2 : ∀ k ∈ keys, k.length / 8 + 2 ≤ fuel) :
    Gen.Ssa3.sigbits_FirstDiffBits fuel keys = (firstDiffBits keys).map (fun l => l.map Int.ofNat) := by
  rw [Gen.Ssa3.sigbits_FirstDiffBits]
  cases hk : keys with
  | nil =>
    have e0 : subI64 (len ([] : List (List Nat))) 1 = -1 := by decide
    simp only [e0, makeSlice_neg (0 : Int) (by omega : (-1 : Int) < 0), firstDiffBits, Option.bind_none, Option.map_none]
  | cons k ks =>
    rw [← hk]
    have hl : keys.length = ks.length + 1 := by rw [hk]; rfl
    have e0 : subI64 (keys.length : Int) 1 = ((keys.length - 1 : Nat) : Int) := subI64_ofNat (b := 1) (by omega) (by omega)
    have hloop := FirstDiffBits_loop fuel keys hbytes hlen hfuel2 hn (keys.drop 1) 0 fuel
      (List.replicate (keys.length - 1) (0 : Int)) rfl (by omega) (by simp only [List.length_drop]; omega)
      List.length_replicate
    simp only [len_eq, e0, makeSlice_ofNat, Option.bind_some]
    rw [show ((0 : Nat) : Int) = 0 from rfl] at hloop
    rw [hloop, hk]
    simp [firstDiffBits]

example : Gen.Ssa3.sigbits_FirstDiffBits 3 [[1, 2, 3], [1, 2, 7, 9], [1, 2, 7, 9, 0]] = some [21, 32] := by decide
example : firstDiffBits [[1, 2, 3], [1, 2, 7, 9], [1, 2, 7, 9, 0]] = some [21, 32] := by decide
example : Gen.Ssa3.sigbits_FirstDiffBits 5 [] = none := by decide
example : Gen.Ssa3.sigbits_FirstDiffBits 5 [[7]] = some [] := by decide
-- out of fuel (outer loop)
example : Gen.Ssa3.sigbits_FirstDiffBits 2 [[1, 2, 3], [1, 2, 7, 9], [1, 2, 7, 9, 0]] = none := by decide

end Low
