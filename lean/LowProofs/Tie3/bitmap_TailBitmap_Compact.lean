import Generated.Ssa3.bitmap_TailBitmap_Compact
import LowModel.Bitmap.Tail
import LowProofs.Tie3.bitmap_TailBitmap_Get_L
/-
  Tie: the definition regenerated from the SSA form of `(*bitmap.TailBitmap).Compact` equals the hand-written model
  `TailBitmap.compact`.  The receiver fields `Offset`, `Words`, `reclaimed` are passed as arguments and are loop
  parameters of the generated loop `bitmap_TailBitmap_Compact_loop3` (`for len(tb.Words) > 0 && tb.Words[0] ==
  allOnes { tb.Offset += 64; tb.Words = tb.Words[1:] }`); the code after the loop (`blk2`, the reclamation test) is
  local to the loop definition.  The model recurses over the word list (`dropOnes`).
-/
namespace Low
open Low.GoSem Low.GoSem3 Low.TieL Low.Tie2L Low.Tie3L Low.TailL

/-- the code after the loop: `if tb.Offset-tb.reclaimed >= reclaimThreshold { … make, copy (dropped) …;
    tb.reclaimed = tb.Offset }` -/
theorem Compact_tail (thr o rc : Int) (ws : List Nat)
    (h1 : -9223372036854775808 ≤ o - rc) (h2 : o - rc < 9223372036854775808)
    (hl : 2 * ws.length < 9223372036854775808) :
    (if decide (subI64 o rc ≥ thr) = true then
        (makeSliceCap (0 : Nat) (ws.length : Int) (mulI64 (ws.length : Int) 2)).bind
          (fun (_ : List Nat) => some (o, ws, o))
      else some (o, ws, rc))
      = some (o, ws, if o - rc ≥ thr then o else rc) := by
  rw [subI64_id h1 h2, mulI64_two_ofNat hl, makeSliceCap_ofNat _ (by omega)]
  by_cases h : o - rc ≥ thr <;> simp [h]

theorem Compact_loop (fuel : Nat) (o0 : Int) (ws0 : List Nat) (rc0 thr rc : Int) :
    ∀ (ws : List Nat) (gas : Nat) (o : Int), ws.length + 1 ≤ gas →
      -9223372036854775808 ≤ o → o + 64 * (ws.length : Int) < 9223372036854775808 →
      -9223372036854775808 ≤ o - rc → o + 64 * (ws.length : Int) - rc < 9223372036854775808 →
      Gen.Ssa3.bitmap_TailBitmap_Compact_loop3 fuel o0 ws0 rc0 thr gas o ws rc
        = some ((dropOnes ws o).2, (dropOnes ws o).1,
            if (dropOnes ws o).2 - rc ≥ thr then (dropOnes ws o).2 else rc)
  | [], gas, o, hg, ho1, ho2, hr1, hr2 => by
    obtain ⟨g, rfl⟩ : ∃ g, gas = g + 1 := ⟨gas - 1, by omega⟩
    have hpos : ¬ ((0 : Int) < (([] : List Nat).length : Int)) := by simp
    rw [Gen.Ssa3.bitmap_TailBitmap_Compact_loop3, dropOnes]
    simp only [len_eq, gt_iff_lt, hpos, decide_false, Bool.false_eq_true, ↓reduceIte]
    rw [Compact_tail thr o rc [] (by omega) (by simp at hr2; omega) (by simp)]
  | w :: r, gas, o, hg, ho1, ho2, hr1, hr2 => by
    obtain ⟨g, rfl⟩ : ∃ g, gas = g + 1 := ⟨gas - 1, by omega⟩
    have hpos : (0 : Int) < ((w :: r).length : Int) := by simp only [List.length_cons]; omega
    have hidx : index (w :: r) 0 = some w := by unfold index; simp
    simp only [List.length_cons, Int.natCast_add, Int.natCast_one] at ho2 hr2 hg
    rw [Gen.Ssa3.bitmap_TailBitmap_Compact_loop3, dropOnes]
    simp only [len_eq, gt_iff_lt, hpos, decide_true, ↓reduceIte, hidx, Option.bind_some, allOnes64_eq]
    have hsl : GoSem2.slice (w :: r) 1 (((w :: r).length : Nat) : Int) = some r := by
      unfold GoSem2.slice; simp; omega
    by_cases hw : w = 18446744073709551615
    · have hd : decide (w = 18446744073709551615) = true := by simp [hw]
      have ih := Compact_loop fuel o0 ws0 rc0 thr rc r g (o + 64) (by omega) (by omega) (by omega) (by omega) (by omega)
      simp only [hd, if_pos hw, ↓reduceIte, hsl, Option.bind_some, addI64_id (a := o) (b := 64) (by omega) (by omega), ih]
    · have hd : decide (w = 18446744073709551615) = false := by simp [hw]
      simp only [hd, if_neg hw, Bool.false_eq_true, ↓reduceIte]
      rw [Compact_tail thr o rc (w :: r) (by omega) (by omega) (by simp only [List.length_cons]; omega)]

/-- Domain: `tb.Offset` is an int64 and so is the bit index after the last word (`Offset + 64 * len(Words) < 2^63`:
    `tb.Offset += 64` does not wrap); the difference `tb.Offset - tb.reclaimed` fits an int64 for the initial and
    for every possible final `Offset` (the model computes it in unbounded integers; it holds whenever
    `0 ≤ reclaimed ≤ Offset`, or `reclaimed = 0`).  `thr` (the package variable `reclaimThreshold`) is arbitrary.
    Fuel: every `fuel ≥ len(Words) + 1`.  The Go method cannot panic on this domain: the result is `some`; the slice
    `newWords` the Go code allocates and fills is never stored, so only `reclaimed` changes, as in the model. -/
theorem Tie_bitmap_TailBitmap_Compact (tb : TailBitmap) (thr : Int) (fuel : Nat)
    (ho1 : -9223372036854775808 ≤ tb.offset)
    (ho2 : tb.offset + 64 * (tb.words.length : Int) < 9223372036854775808)
    (hr1 : -9223372036854775808 ≤ tb.offset - tb.reclaimed)
    (hr2 : tb.offset + 64 * (tb.words.length : Int) - tb.reclaimed < 9223372036854775808)
    (hfuel : tb.words.length + 1 ≤ fuel) :
    Gen.Ssa3.bitmap_TailBitmap_Compact fuel tb.offset tb.words tb.reclaimed thr
      = some (let r := tb.compact thr; (r.offset, r.words, r.reclaimed)) := by
  rw [Gen.Ssa3.bitmap_TailBitmap_Compact]
  simp only []
  rw [Compact_loop fuel tb.offset tb.words tb.reclaimed thr tb.reclaimed tb.words fuel tb.offset hfuel ho1 ho2 hr1 hr2]
  simp [TailBitmap.compact]

example : Gen.Ssa3.bitmap_TailBitmap_Compact 3 0 [0xffffffffffffffff, 0xffffffffffffffff] 0 100
    = some (128, [], 128) := by decide
example : Gen.Ssa3.bitmap_TailBitmap_Compact 4 64 [0xffffffffffffffff, 5, 0xffffffffffffffff] 0 65536
    = some (128, [5, 0xffffffffffffffff], 0) := by decide
example : (TailBitmap.mk 64 [0xffffffffffffffff, 5, 0xffffffffffffffff] 0).compact 65536
    = TailBitmap.mk 128 [5, 0xffffffffffffffff] 0 := by decide
-- out of fuel
example : Gen.Ssa3.bitmap_TailBitmap_Compact 2 0 [0xffffffffffffffff, 0xffffffffffffffff] 0 100 = none := by decide

end Low
