import Generated.Ssa3.bitstr_New
import LowModel.Bitstr
import LowProofs.Tie3.Lemmas
/-
  Tie: the definition regenerated from the SSA form of `bitstr.New` (loop-free; allocates the result with `make`,
  fills it with `copy` and two indexed stores) equals the hand-written model `bsNew`.
-/
namespace Low
open Low.GoSem Low.GoSem3 Low.TieL Low.Tie2L Low.Tie3L

namespace Tie3NewL

/-- `x & 7` on any int32 (two's complement): the Euclidean remainder -/
theorem andI32_7 (x : Int) : andI32 x 7 = x % 8 := by
  unfold andI32
  have h7 : u32 7 = 7 := by decide
  rw [h7, and_7]
  unfold u32; simp only [M32]
  apply (wrap32_id (by omega) (by omega)).trans
  omega

/-- the two final stores: the last payload byte is masked, the extra byte receives the mask -/
theorem set_set_last (p : List Nat) (l v m : Nat) (hp : p.length = l) (hl : 1 ≤ l) :
    ((p ++ [0]).set (l - 1) v).set l m = p.take (l - 1) ++ [v, m] := by
  rw [List.set_append_left _ _ (by omega), List.set_append_right _ _ (by simp; omega)]
  have : l - (p.set (l - 1) v).length = 0 := by simp; omega
  rw [this, List.set_eq_take_append_cons_drop, if_pos (by omega)]
  have : l - 1 + 1 = p.length := by omega
  rw [this, List.drop_length]
  simp

end Tie3NewL
open Tie3NewL

theorem Tie_bitstr_New (s : List Nat) (f t : Nat) (hf : f < 2^31) (ht : t + 7 < 2^31) :
    Gen.Ssa3.bitstr_New s (f : Int) (t : Int) = bsNew s f t := by
  have e4 : shrI32 (f : Int) 3 = ((f / 8 : Nat) : Int) := shrI32_3_ofNat f
  have e5 : addI32 (t : Int) 7 = ((t + 7 : Nat) : Int) := addI32_ofNat (b := 7) (by omega)
  have e6 : shrI32 ((t + 7 : Nat) : Int) 3 = (((t + 7) / 8 : Nat) : Int) := shrI32_3_ofNat _
  have e14 : andI32 (subI32 8 (t : Int)) 7 = (((8 - t % 8) % 8 : Nat) : Int) := by
    rw [andI32_7, subI32, wrap32_id (by omega) (by omega)]; omega
  have e24 : andI32 (f : Int) 7 = ((f % 8 : Nat) : Int) := by rw [andI32_7]; omega
  unfold Gen.Ssa3.bitstr_New bsNew
  simp only [e4, e5, e6, e14, e24]
  trace_state
  sorry

end Low
