import Generated.Ssa3.bitstr_New
import LowModel.Bitstr
import LowProofs.Tie3.Lemmas
/-
  Tie: the definition regenerated from the SSA form of `bitstr.New` (loop-free; allocates the result with `make`,
  fills it with `copy` and two indexed stores) equals the hand-written model `bsNew`.
-/
namespace Low
open Low.GoSem Low.GoSem3 Low.TieL Low.Tie2L Low.Tie3L

namespace Tie3NewL

/-- `x & 7` on any int32 (two's complement): the Euclidean remainder -/
theorem andI32_7 (x : Int) : andI32 x 7 = x % 8 := by
  unfold andI32
  have h7 : u32 7 = 7 := by decide
  rw [h7, and_7]
  unfold u32; simp only [M32]
  apply (wrap32_id (by omega) (by omega)).trans
  omega

/-- the two final stores: the last payload byte is masked, the extra byte receives the mask -/
theorem set_set_last (p : List Nat) (l v m : Nat) (hp : p.length = l) (hl : 1 ≤ l) :
    ((p ++ [0]).set (l - 1) v).set l m = p.take (l - 1) ++ [v, m] := by
  rw [List.set_append_left _ _ (by omega), List.set_append_right _ _ (by simp; omega)]
  have : l - (p.set (l - 1) v).length = 0 := by simp; omega
  rw [this, List.set_eq_take_append_cons_drop, if_pos (by omega)]
  have : l - 1 + 1 = p.length := by omega
  rw [this, List.drop_length]
  simp

/-- `s[lo:hi]` in range -/
theorem slice_ofNat {α : Type} (xs : List α) {lo hi : Nat} (h1 : lo ≤ hi) (h2 : hi ≤ xs.length) :
    GoSem2.slice xs (lo : Int) (hi : Int) = some ((xs.drop lo).take (hi - lo)) := by
  unfold GoSem2.slice
  have : (0 : Int) ≤ (lo : Int) ∧ (lo : Int) ≤ (hi : Int) ∧ (hi : Int) ≤ (xs.length : Int) := by omega
  rw [if_pos this, List.drop_take]; rfl

theorem slice_lo_gt {α : Type} (xs : List α) {lo hi : Int} (h : hi < lo) : GoSem2.slice xs lo hi = none := by
  unfold GoSem2.slice
  have : ¬ ((0 : Int) ≤ lo ∧ lo ≤ hi ∧ hi ≤ (xs.length : Int)) := by omega
  rw [if_neg this]

theorem toU8_ofNat (n : Nat) : toU8 (n : Int) = n % 256 := by
  unfold toU8; simp only [M8]; omega

/-- the part of `New` after the early return, on byte indices `F = fromBit >> 3`, `T = (toBit + 7) >> 3` -/
theorem New_body (s : List Nat) (F T k : Nat) (hF : F < 2^28) (hT : T ≤ 2^28) (hk : k < 8) :
    ((makeSlice 0 (addI32 (subI32 (T : Int) (F : Int)) 1)).bind fun t9 =>
        (GoSem2.slice s (F : Int) (T : Int)).bind fun t11 =>
          (tblRMask (k : Int)).bind fun t15 =>
            (index (copyInto t9 t11) (subI32 (subI32 (T : Int) (F : Int)) 1)).bind fun t19 =>
              (setIdx (copyInto t9 t11) (subI32 (subI32 (T : Int) (F : Int)) 1) (andU8 t19 (toU8 (t15 : Int)))).bind
                fun t9_2 => (setIdx t9_2 (subI32 (T : Int) (F : Int)) (toU8 (t15 : Int))).bind fun t1_4 => some t1_4)
      = if T > s.length ∨ F > T then none
        else
          if T - F = 0 then none
          else
            some
              (List.take (T - F - 1) (List.take (T - F) (List.drop F s)) ++
                [(List.take (T - F) (List.drop F s)).getD (T - F - 1) 0 &&& rmask k % 256, rmask k % 256]) := by
  by_cases h1 : F > T
  · have e7 : subI32 (T : Int) (F : Int) = (T : Int) - (F : Int) := by
      rw [subI32]; exact wrap32_id (by omega) (by omega)
    have e8 : addI32 ((T : Int) - (F : Int)) 1 = (T : Int) - (F : Int) + 1 := by
      rw [addI32]; exact wrap32_id (by omega) (by omega)
    rw [if_pos (Or.inr h1), e7, e8]
    by_cases h2 : F = T + 1
    · subst h2
      have : ((T : Int) - ((T + 1 : Nat) : Int) + 1) = ((0 : Nat) : Int) := by omega
      rw [this, makeSlice_ofNat, Option.bind_some, slice_lo_gt s (by omega)]; rfl
    · rw [makeSlice_neg _ (by omega)]; rfl
  · have e7 : subI32 (T : Int) (F : Int) = ((T - F : Nat) : Int) := subI32_ofNat (by omega) (by omega)
    have e8 : addI32 ((T - F : Nat) : Int) 1 = ((T - F + 1 : Nat) : Int) := addI32_ofNat (b := 1) (by omega)
    rw [e7, e8, makeSlice_ofNat, Option.bind_some]
    by_cases h2 : T > s.length
    · rw [if_pos (Or.inl h2), slice_gt s _ (by omega)]; rfl
    · rw [if_neg (by omega), slice_ofNat s (by omega) (by omega), Option.bind_some, tblRMask_ofNat (by omega),
        Option.bind_some]
      by_cases h3 : T - F = 0
      · have : subI32 ((T - F : Nat) : Int) 1 = -1 := by rw [h3]; decide
        rw [if_pos h3, this, index_neg _ (by omega)]; rfl
      · have e18 : subI32 ((T - F : Nat) : Int) 1 = ((T - F - 1 : Nat) : Int) := subI32_ofNat (b := 1) (by omega) (by omega)
        have hpl : ((s.drop F).take (T - F)).length = T - F := by simp; omega
        rw [if_neg h3, e18]
        generalize hp : (s.drop F).take (T - F) = p at hpl ⊢
        generalize T - F = l at *
        rw [copyInto_short _ _ (by simp; omega)]
        have hd : (List.replicate (l + 1) 0).drop p.length = [0] := by rw [hpl]; simp
        have hi : (p ++ [0])[l - 1]? = some (p.getD (l - 1) 0) := by
          rw [List.getElem?_append_left (by omega), List.getD_eq_getElem?_getD,
            List.getElem?_eq_getElem (by omega)]; rfl
        rw [hd, index_ofNat, hi, Option.bind_some, setIdx_ofNat _ _ (by simp; omega), Option.bind_some,
          setIdx_ofNat _ _ (by simp; omega), Option.bind_some, set_set_last p l _ _ hpl (by omega), toU8_ofNat, andU8]

end Tie3NewL
open Tie3NewL

/-- Domain: `0 ≤ fromBit < 2^31` and `0 ≤ toBit`, `toBit + 7 < 2^31` (the Go code computes `toBit + 7` in int32; beyond
    that bound it wraps and the `Nat` model does not).  NO hypothesis `fromBit ≤ toBit`, none on the bytes of `s`, none
    on `len s`: wherever the Go code panics (negative `make` length, `s[fromByte:toByte]` out of range or inverted,
    index `-1` for `l = 0`) the model returns `none`, and conversely.  No difference between model and code was met
    on this domain. -/
theorem Tie_bitstr_New (s : List Nat) (f t : Nat) (hf : f < 2^31) (ht : t + 7 < 2^31) :
    Gen.Ssa3.bitstr_New s (f : Int) (t : Int) = bsNew s f t := by
  have hF : f / 8 < 2^28 := by omega
  have hT : (t + 7) / 8 ≤ 2^28 := by omega
  have hk : (8 - t % 8) % 8 < 8 := by omega
  have e4 : shrI32 (f : Int) 3 = ((f / 8 : Nat) : Int) := shrI32_3_ofNat f
  have e5 : addI32 (t : Int) 7 = ((t + 7 : Nat) : Int) := addI32_ofNat (b := 7) (by omega)
  have e6 : shrI32 ((t + 7 : Nat) : Int) 3 = (((t + 7) / 8 : Nat) : Int) := shrI32_3_ofNat _
  have e14 : andI32 (subI32 8 (t : Int)) 7 = (((8 - t % 8) % 8 : Nat) : Int) := by
    rw [andI32_7, subI32, wrap32_id (by omega) (by omega)]; omega
  have e24 : andI32 (f : Int) 7 = ((f % 8 : Nat) : Int) := by rw [andI32_7]; omega
  unfold Gen.Ssa3.bitstr_New bsNew
  simp only [e4, e5, e6, e14, e24]
  rw [New_body s (f / 8) ((t + 7) / 8) ((8 - t % 8) % 8) hF hT hk]
  clear e4 e5 e6 e14 e24
  by_cases h1 : f = t
  · subst h1
    by_cases h2 : f % 8 = 0
    · have h2' : ((f % 8 : Nat) : Int) = 0 := by omega
      simp only [h2, decide_true, ↓reduceIte, and_self, setIdx_newArray_one, Option.bind_some]
      rfl
    · have h2' : ¬ ((f % 8 : Nat) : Int) = 0 := by omega
      simp only [h2, h2', decide_true, decide_false, ↓reduceIte, and_false, Bool.false_eq_true]
  · have h1' : ¬ (f : Int) = (t : Int) := by omega
    simp only [h1, h1', decide_false, ↓reduceIte, false_and, Bool.false_eq_true]

/-- the statement on the domain `fromBit ≤ toBit < 2^31 - 8` of the callers -/
theorem Tie_bitstr_New_le (s : List Nat) (f t : Nat) (hft : f ≤ t) (ht : t < 2^31 - 8) :
    Gen.Ssa3.bitstr_New s (f : Int) (t : Int) = bsNew s f t :=
  Tie_bitstr_New s f t (by omega) (by omega)

example : Gen.Ssa3.bitstr_New [0xab, 0xcd, 0xef] 4 13 = some [0xab, 0xc8, 0xf8] := by decide
example : bsNew [0xab, 0xcd, 0xef] 4 13 = some [0xab, 0xc8, 0xf8] := by decide
example : Gen.Ssa3.bitstr_New [0xab, 0xcd, 0xef] 8 8 = some [0xff] := by decide
example : Gen.Ssa3.bitstr_New [0xab, 0xcd, 0xef] 9 9 = some [0x80, 0x80] := by decide
-- panics: slice beyond the string; `fromBit > toBit` in the same byte (index -1)
example : Gen.Ssa3.bitstr_New [0xab, 0xcd, 0xef] 4 25 = none := by decide
example : Gen.Ssa3.bitstr_New [0xab, 0xcd, 0xef] 9 8 = none := by decide

end Low
