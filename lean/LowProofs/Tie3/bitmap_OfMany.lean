import Generated.Ssa3.bitmap_OfMany
import LowModel.Bitmap.Of
import LowProofs.Tie3.Lemmas
import LowProofs.Tie3.bitmap_Of
/-
  Tie: the definition regenerated from the SSA form of `bitmap.OfMany` equals the hand-written model `ofMany`.
  Three generated loops: `bitmap_OfMany_loop1` sums the lengths (`totalBits`), then `r := make([]int32, totalBits)`;
  `bitmap_OfMany_loop4` (outer, over `subs`) and `bitmap_OfMany_loop7` (inner, over one `sub`; it receives the outer
  loop's continuation as `blk4`) fill `r` at the running index `ith`; finally `Of(r, base)` (tie: `Tie_bitmap_Of`).

  Steps: `OfMany_loop7` / `OfMany_loop4` show, WITHOUT any range hypothesis, that the two nested loops compute
  `flatC` (the model's `ofManyFlat` with Go's wrapping int32 addition); `flatC_eq` relates `flatC` to `ofManyFlat`
  (int32 addition is addition modulo `2^32`, so the accumulated `base` is the int32 image of the model's `base`);
  on the domain the images are the values themselves.
-/
namespace Low
open Low.GoSem Low.GoSem3 Low.TieL Low.Tie2L Low.Tie3L

/-! ### the buffer with a written stretch -/

/-- `buf` with the elements `ith, ith+1, …` overwritten by `xs` -/
def splice (buf : List Int) (ith : Nat) (xs : List Int) : List Int :=
  buf.take ith ++ xs ++ buf.drop (ith + xs.length)

theorem splice_nil (buf : List Int) (ith : Nat) : splice buf ith [] = buf := by simp [splice]

theorem splice_length (buf : List Int) (ith : Nat) (xs : List Int) (h : ith + xs.length ≤ buf.length) :
    (splice buf ith xs).length = buf.length := by
  simp [splice]; omega

theorem splice_set_cons (buf : List Int) (ith : Nat) (v : Int) (xs : List Int) (h : ith < buf.length) :
    splice (buf.set ith v) (ith + 1) xs = splice buf ith (v :: xs) := by
  unfold splice
  rw [take_set_succ buf ith v h, List.drop_set_of_lt (by omega)]
  have : ith + 1 + xs.length = ith + (v :: xs).length := by simp only [List.length_cons]; omega
  rw [this]
  simp

theorem splice_take (buf : List Int) (ith : Nat) (xs : List Int) (h : ith ≤ buf.length) :
    (splice buf ith xs).take (ith + xs.length) = buf.take ith ++ xs := by
  unfold splice
  exact List.take_left' (by simp; omega)

theorem length_le_sum_of_mem : ∀ (subs : List (List Int)) (e : List Int), e ∈ subs →
    e.length ≤ (subs.map List.length).sum
  | [], _, h => by cases h
  | a :: r, e, h => by
    simp only [List.map_cons, List.sum_cons]
    rcases List.mem_cons.mp h with rfl | h
    · omega
    · have := length_le_sum_of_mem r e h; omega

/-! ### the flattening loops, as the code computes them (wrapping int32 additions) -/

/-- `ofManyFlat` with Go's int32 `+` -/
def flatC : List (List Int) → List Int → Int → Option (List Int × Int)
  | [], _, base => some ([], base)
  | _ :: _, [], _ => none
  | e :: subs, s :: sizes, base =>
      match flatC subs sizes (addI32 base s) with
      | none => none
      | some (r, b) => some (e.map (addI32 base ·) ++ r, b)

theorem flatC_length : ∀ (subs : List (List Int)) (sizes : List Int) (base : Int) (r : List Int) (b : Int),
    flatC subs sizes base = some (r, b) → r.length = (subs.map List.length).sum
  | [], _, base, r, b, h => by
    rw [flatC] at h; injection h with h; injection h with h1 h2; subst h1; rfl
  | _ :: _, [], _, r, b, h => by rw [flatC] at h; cases h
  | e :: subs, s :: sizes, base, r, b, h => by
    rw [flatC] at h
    cases hf : flatC subs sizes (addI32 base s) with
    | none => rw [hf] at h; cases h
    | some rb =>
      obtain ⟨r', b'⟩ := rb
      rw [hf] at h
      injection h with h; injection h with h1 h2; subst h1
      have := flatC_length subs sizes _ r' b' hf
      simp [this]

theorem wrap32_add_left (a b : Int) : wrap32 (wrap32 a + b) = wrap32 (a + b) := by
  unfold wrap32; simp only [M32]; omega

theorem wrap32_add_right (a b : Int) : wrap32 (a + wrap32 b) = wrap32 (a + b) := by
  unfold wrap32; simp only [M32]; omega

/-- the code's `base` is the int32 image of the model's, the code's entries are the int32 images of the model's -/
theorem flatC_eq : ∀ (subs : List (List Int)) (sizes : List Int) (base : Int),
    flatC subs sizes (wrap32 base)
      = (ofManyFlat subs sizes base).map (fun rb => (rb.1.map wrap32, wrap32 rb.2))
  | [], _, base => by rw [flatC, ofManyFlat]; rfl
  | _ :: _, [], _ => by rw [flatC, ofManyFlat]; rfl
  | e :: subs, s :: sizes, base => by
    have e1 : addI32 (wrap32 base) s = wrap32 (base + s) := by rw [addI32, wrap32_add_left]
    have e2 : e.map (addI32 (wrap32 base) ·) = (e.map (base + ·)).map wrap32 := by
      rw [List.map_map]
      apply List.map_congr_left
      intro x _
      simp only [Function.comp_apply, addI32, wrap32_add_left]
    rw [flatC, ofManyFlat, e1, flatC_eq subs sizes (base + s), e2]
    cases ofManyFlat subs sizes (base + s) with
    | none => rfl
    | some rb => obtain ⟨r, b⟩ := rb; simp

/-! ### the loops -/

/-- the inner loop over one `sub` (= `e`), about to read `e[j]` and to write `buf[ith]`; `k` is the continuation
    (the next iteration of the outer loop) -/
theorem OfMany_loop7 (fuel : Nat) (subs : List (List Int)) (sizes : List Int) (t11 t14 : Int) (e : List Int)
    (k : Int → Int → Int → List Int → Option (List Nat)) (he : e.length < 2^63) :
    ∀ (rest : List Int) (j gas ith : Nat) (buf : List Int), rest = e.drop j → j ≤ e.length → rest.length + 1 ≤ gas →
      ith + rest.length ≤ buf.length → buf.length < 2^63 →
      Gen.Ssa3.bitmap_OfMany_loop7 fuel subs sizes t11 t14 e (e.length : Int) k gas (ith : Int) ((j : Int) - 1) buf
        = (index sizes t14).bind (fun s => k (addI32 t11 s) ((ith + rest.length : Nat) : Int) t14
            (splice buf ith (rest.map (addI32 t11 ·))))
  | [], j, gas, ith, buf, hr, hj, hg, hb, hbl => by
    obtain ⟨g, rfl⟩ : ∃ g, gas = g + 1 := ⟨gas - 1, by omega⟩
    have hjl : e.length ≤ j := drop_eq_nil_le hr
    have e1 : addI64 ((j : Int) - 1) 1 = (j : Int) := by
      rw [addI64]; exact (wrap64_id (by omega) (by omega)).trans (by omega)
    have hlt : ¬ (j < e.length) := by omega
    rw [Gen.Ssa3.bitmap_OfMany_loop7]
    simp only [e1, Int.ofNat_lt, hlt, decide_false, Bool.false_eq_true, ↓reduceIte, List.length_nil, Nat.add_zero,
      List.map_nil, splice_nil]
  | x :: r, j, gas, ith, buf, hr, hj, hg, hb, hbl => by
    obtain ⟨g, rfl⟩ : ∃ g, gas = g + 1 := ⟨gas - 1, by omega⟩
    have hjl : j < e.length := drop_eq_cons_lt hr
    have hx : e[j]? = some x := getElem?_of_drop_eq_cons hr
    simp only [List.length_cons] at hg hb
    have hil : ith < buf.length := by omega
    have e1 : addI64 ((j : Int) - 1) 1 = (j : Int) := by
      rw [addI64]; exact (wrap64_id (by omega) (by omega)).trans (by omega)
    have e2 : addI64 (ith : Int) 1 = ((ith + 1 : Nat) : Int) := addI64_one_ofNat (by omega)
    have ih := OfMany_loop7 fuel subs sizes t11 t14 e k he r (j + 1) g (ith + 1) (buf.set ith (addI32 t11 x))
      (drop_succ_of_drop_eq_cons hr) (by omega) (by omega) (by simp only [List.length_set]; omega)
      (by simp only [List.length_set]; omega)
    rw [show ((j + 1 : Nat) : Int) - 1 = (j : Int) by omega] at ih
    rw [Gen.Ssa3.bitmap_OfMany_loop7]
    simp only [e1, Int.ofNat_lt, hjl, decide_true, ↓reduceIte, index_ofNat, hx, Option.bind_some,
      setIdx_ofNat buf _ hil, e2, ih, splice_set_cons buf ith _ _ hil, List.map_cons, List.length_cons]
    have : ith + 1 + r.length = ith + (r.length + 1) := by omega
    rw [this]

/-- the outer loop, about to read `subs[i]`, with `ith` elements of `buf` written; no range hypothesis -/
theorem OfMany_loop4 (fuel : Nat) (subs : List (List Int)) (sizes : List Int) (hsl : subs.length < 2^63)
    (hfuel : ∀ e ∈ subs, e.length + 1 ≤ fuel) :
    ∀ (rest : List (List Int)) (i gas ith : Nat) (t11 : Int) (buf : List Int), rest = subs.drop i →
      i ≤ subs.length → rest.length + 1 ≤ gas → ith + (rest.map List.length).sum = buf.length → buf.length < 2^63 →
      Gen.Ssa3.bitmap_OfMany_loop4 fuel subs sizes (subs.length : Int) gas t11 (ith : Int) ((i : Int) - 1) buf
        = match flatC rest (sizes.drop i) t11 with
          | none => none
          | some (r, b) => Gen.Ssa3.bitmap_Of fuel (buf.take ith ++ r) [b]
  | [], i, gas, ith, t11, buf, hr, hi, hg, hb, hbl => by
    obtain ⟨g, rfl⟩ : ∃ g, gas = g + 1 := ⟨gas - 1, by omega⟩
    have hil : subs.length ≤ i := drop_eq_nil_le hr
    have e1 : addI64 ((i : Int) - 1) 1 = (i : Int) := by
      rw [addI64]; exact (wrap64_id (by omega) (by omega)).trans (by omega)
    have hlt : ¬ (i < subs.length) := by omega
    have hith : ith = buf.length := by simpa using hb
    rw [Gen.Ssa3.bitmap_OfMany_loop4, flatC]
    simp only [e1, Int.ofNat_lt, hlt, decide_false, Bool.false_eq_true, ↓reduceIte, setIdx_newArray_one,
      Option.bind_some, Option.bind_fun_some, hith, List.take_length, List.append_nil]
  | e :: r, i, gas, ith, t11, buf, hr, hi, hg, hb, hbl => by
    obtain ⟨g, rfl⟩ : ∃ g, gas = g + 1 := ⟨gas - 1, by omega⟩
    have hil : i < subs.length := drop_eq_cons_lt hr
    have he : subs[i]? = some e := getElem?_of_drop_eq_cons hr
    have hmem : e ∈ subs := List.mem_of_getElem? he
    simp only [List.length_cons] at hg
    simp only [List.map_cons, List.sum_cons] at hb
    have e1 : addI64 ((i : Int) - 1) 1 = (i : Int) := by
      rw [addI64]; exact (wrap64_id (by omega) (by omega)).trans (by omega)
    have h7 := OfMany_loop7 fuel subs sizes t11 (i : Int) e
      (Gen.Ssa3.bitmap_OfMany_loop4 fuel subs sizes (subs.length : Int) g) (by omega) e 0 fuel ith buf
      (by simp) (by omega) (hfuel e hmem) (by omega) hbl
    rw [show ((0 : Nat) : Int) - 1 = -1 from rfl] at h7
    rw [Gen.Ssa3.bitmap_OfMany_loop4]
    simp only [e1, Int.ofNat_lt, hil, decide_true, ↓reduceIte, index_ofNat, he, Option.bind_some, len_eq, h7]
    cases hs : sizes.drop i with
    | nil =>
      rw [getElem?_of_drop_eq_nil hs.symm, flatC]; rfl
    | cons s srest =>
      have hsz : sizes[i]? = some s := getElem?_of_drop_eq_cons hs.symm
      have hsr : srest = sizes.drop (i + 1) := drop_succ_of_drop_eq_cons hs.symm
      have hlen' : (splice buf ith (e.map (addI32 t11 ·))).length = buf.length :=
        splice_length _ _ _ (by simp only [List.length_map]; omega)
      have ih := OfMany_loop4 fuel subs sizes hsl hfuel r (i + 1) g (ith + e.length) (addI32 t11 s)
        (splice buf ith (e.map (addI32 t11 ·))) (drop_succ_of_drop_eq_cons hr) (by omega) (by omega)
        (by rw [hlen']; omega) (by rw [hlen']; exact hbl)
      rw [show ((i + 1 : Nat) : Int) - 1 = (i : Int) by omega, ← hsr] at ih
      have htake : (splice buf ith (e.map (addI32 t11 ·))).take (ith + e.length) = buf.take ith ++ e.map (addI32 t11 ·) := by
        have := splice_take buf ith (e.map (addI32 t11 ·)) (by omega)
        rwa [List.length_map] at this
      rw [hsz, Option.bind_some, ih, flatC, htake]
      cases flatC r srest (addI32 t11 s) with
      | none => rfl
      | some rb => obtain ⟨r', b⟩ := rb; simp only [List.append_assoc]

/-- the first loop: `totalBits += len(sb)`, then the allocation and the outer loop -/
theorem OfMany_loop1 (fuel : Nat) (subs : List (List Int)) (sizes : List Int) (hsl : subs.length < 2^63) :
    ∀ (rest : List (List Int)) (i gas acc : Nat), rest = subs.drop i → i ≤ subs.length → rest.length + 1 ≤ gas →
      acc + (rest.map List.length).sum < 2^63 →
      Gen.Ssa3.bitmap_OfMany_loop1 fuel subs sizes (subs.length : Int) gas (acc : Int) ((i : Int) - 1)
        = Gen.Ssa3.bitmap_OfMany_loop4 fuel subs sizes (subs.length : Int) fuel 0 0 (-1)
            (List.replicate (acc + (rest.map List.length).sum) 0)
  | [], i, gas, acc, hr, hi, hg, ha => by
    obtain ⟨g, rfl⟩ : ∃ g, gas = g + 1 := ⟨gas - 1, by omega⟩
    have hil : subs.length ≤ i := drop_eq_nil_le hr
    have e1 : addI64 ((i : Int) - 1) 1 = (i : Int) := by
      rw [addI64]; exact (wrap64_id (by omega) (by omega)).trans (by omega)
    have hlt : ¬ (i < subs.length) := by omega
    rw [Gen.Ssa3.bitmap_OfMany_loop1]
    simp only [e1, Int.ofNat_lt, hlt, decide_false, Bool.false_eq_true, ↓reduceIte, makeSlice_ofNat,
      Option.bind_some, len_eq, List.map_nil, List.sum_nil, Nat.add_zero]
  | e :: r, i, gas, acc, hr, hi, hg, ha => by
    obtain ⟨g, rfl⟩ : ∃ g, gas = g + 1 := ⟨gas - 1, by omega⟩
    have hil : i < subs.length := drop_eq_cons_lt hr
    have he : subs[i]? = some e := getElem?_of_drop_eq_cons hr
    simp only [List.length_cons] at hg
    simp only [List.map_cons, List.sum_cons] at ha ⊢
    have e1 : addI64 ((i : Int) - 1) 1 = (i : Int) := by
      rw [addI64]; exact (wrap64_id (by omega) (by omega)).trans (by omega)
    have e2 : addI64 (acc : Int) (e.length : Int) = ((acc + e.length : Nat) : Int) := addI64_ofNat (by omega)
    have ih := OfMany_loop1 fuel subs sizes hsl r (i + 1) g (acc + e.length) (drop_succ_of_drop_eq_cons hr) (by omega)
      (by omega) (by omega)
    rw [show ((i + 1 : Nat) : Int) - 1 = (i : Int) by omega] at ih
    rw [Gen.Ssa3.bitmap_OfMany_loop1]
    simp only [e1, Int.ofNat_lt, hil, decide_true, ↓reduceIte, index_ofNat, he, Option.bind_some, len_eq, e2, ih,
      Nat.add_assoc]

/-- Domain.  `subs` a slice of int32 slices, `sizes` a slice of int32.  Hypotheses:
    * `subs.length < 2^63` and the total number of positions `Σ len(subs[i]) < 2^63` (Go lengths fit an `int`; the sum
      is the length of the slice `r` the function allocates),
    * `hdom`, stated on the model's flattened list `ofManyFlat subs sizes 0 = some (r, b)` (`r` = all the sums
      `base_i + idx` with `base_i = sizes[0] + … + sizes[i-1]`, in order; `b` = the final `base`, the sum of
      `sizes[0 .. len(subs)-1]`): every entry of `r` is an int32 value, `b` is an int32 value, and — the domain of
      `Of`, see `Tie_bitmap_Of` — the last entry of `r` is `< 2^31 - 64` and `b ≤ 2^31 - 64`.
      The Go code computes `base + idx` and `base += sizes[i]` in int32 (wrapping), the model in unbounded integers:
      when an entry or the final base leaves the int32 range the two DIFFER (outside the documented domain).
      The INTERMEDIATE values of `base` need not be in range, nor the elements of `subs`/`sizes` themselves: int32
      addition is addition modulo `2^32`, so only the exact sums that are used matter.
    When `sizes` is shorter than `subs` both sides are `none` (`hdom` is vacuous there); a negative entry, or entries
    that are not ascending far enough to leave the allocated words, panic inside `Of` on both sides.
    Fuel: every `fuel ≥ max(len(subs), Σ len(subs[i])) + 1` (each loop instance starts with the full fuel: the first
    and the outer loop run `len(subs)` times, an inner loop `len(subs[i])` times, the loop of `Of` `Σ len(subs[i])`
    times, each plus the final test). -/
theorem Tie_bitmap_OfMany (subs : List (List Int)) (sizes : List Int) (fuel : Nat)
    (hsl : subs.length < 2^63) (htot : (subs.map List.length).sum < 2^63)
    (hdom : ∀ r b, ofManyFlat subs sizes 0 = some (r, b) →
      (∀ x ∈ r, -2^31 ≤ x ∧ x < 2^31) ∧ (∀ l, r.getLast? = some l → l < 2^31 - 64) ∧ -2^31 ≤ b ∧ b < 2^31 - 63)
    (hfuel : max subs.length (subs.map List.length).sum + 1 ≤ fuel) :
    Gen.Ssa3.bitmap_OfMany fuel subs sizes = ofMany subs sizes := by
  have hfuel7 : ∀ e ∈ subs, e.length + 1 ≤ fuel := by
    intro e he; have := length_le_sum_of_mem subs e he; omega
  have h1 := OfMany_loop1 fuel subs sizes hsl subs 0 fuel 0 (by simp) (by omega) (by omega) (by omega)
  rw [show ((0 : Nat) : Int) - 1 = -1 from rfl, show ((0 : Nat) : Int) = 0 from rfl, Nat.zero_add] at h1
  have h4 := OfMany_loop4 fuel subs sizes hsl hfuel7 subs 0 fuel 0 0
    (List.replicate (subs.map List.length).sum 0) (by simp) (by omega) (by omega) (by simp) (by simpa using htot)
  rw [show ((0 : Nat) : Int) - 1 = -1 from rfl, show ((0 : Nat) : Int) = 0 from rfl, List.drop_zero] at h4
  have hf := flatC_eq subs sizes 0
  rw [show wrap32 0 = 0 by decide] at hf
  rw [Gen.Ssa3.bitmap_OfMany]
  simp only [len_eq]
  rw [h1, h4, ofMany]
  cases hm : ofManyFlat subs sizes 0 with
  | none => rw [hm] at hf; rw [hf]; rfl
  | some rb =>
    obtain ⟨r, b⟩ := rb
    obtain ⟨hr, hlast, hb0, hb1⟩ := hdom r b hm
    rw [hm] at hf
    have hrw : r.map wrap32 = r := by
      have : ∀ x ∈ r, wrap32 x = id x := fun x hx => wrap32_id (by have := hr x hx; omega) (by have := hr x hx; omega)
      rw [List.map_congr_left this, List.map_id]
    have hbw : wrap32 b = b := wrap32_id (by omega) (by omega)
    simp only [Option.map_some, hrw, hbw] at hf
    have hrl : r.length = (subs.map List.length).sum := flatC_length subs sizes 0 r b hf
    rw [hf]
    simp only [List.take_zero, List.nil_append]
    rw [Tie_bitmap_Of r [b] fuel (by omega) hlast (by intro n hn; cases hn; exact hb1) (by omega)]
    rfl

example : Gen.Ssa3.bitmap_OfMany 5 [[0, 2], [], [1, 63]] [4, 60, 64] = some [5, 0x8000000000000002] := by decide
example : ofMany [[0, 2], [], [1, 63]] [4, 60, 64] = some [5, 0x8000000000000002] := by decide
-- `sizes` shorter than `subs`: index out of range
example : Gen.Ssa3.bitmap_OfMany 5 [[0, 2], [], [1, 63]] [4, 60] = none := by decide
example : ofMany [[0, 2], [], [1, 63]] [4, 60] = none := by decide
-- an intermediate `base` beyond int32 (2^31 after two steps, wrapped by the code) is harmless: `hdom` holds, both agree
example : Gen.Ssa3.bitmap_OfMany 5 [[], [], [], [3]] [2147483647, 1, -2147483648, 10] = some [8] := by decide
example : ofMany [[], [], [], [3]] [2147483647, 1, -2147483648, 10] = some [8] := by decide
-- out of fuel (4 positions need 5 units in the loop of `Of`)
example : Gen.Ssa3.bitmap_OfMany 4 [[0, 2], [], [1, 63]] [4, 60, 64] = none := by decide

end Low
