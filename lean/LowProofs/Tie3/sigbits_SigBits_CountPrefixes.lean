import Generated.Ssa3.sigbits_SigBits_CountPrefixes
import LowProofs.Tie3.sigbits_countPrefixes
/-
  Tie: the definition regenerated from the SSA form of `(*sigbits.SigBits).CountPrefixes` (loop-free wrapper:
  `countPrefixes(sb.sigbits[keyStart:keyEnd-1], maxitem)`) equals the model `sbCountPrefixes`.  The receiver fields
  arrive as the arguments `sb_keys` (not read by this method) and `sb_sigbits`; the struct invariant
  `sb.sigbits = FirstDiffBits(sb.keys)` is the hypothesis `hsig`.
-/
namespace Low
open Low.GoSem Low.GoSem3 Low.TieL Low.Tie2L Low.Tie3L

/-- the tuple is taken apart and rebuilt after the call -/
theorem bind_pair_eta {α β : Type} (x : Option (α × β)) : (x.bind fun t => some (t.1, t.2)) = x := by
  cases x <;> rfl

/-- `xs[s:h]` on the `Int` image of a list of naturals -/
theorem slice_map_ofNat (sig : List Nat) {s h : Nat} (h1 : s ≤ h) (h2 : h ≤ sig.length) :
    GoSem2.slice (sig.map Int.ofNat) (s : Int) (h : Int) = some (((sig.drop s).take (h - s)).map Int.ofNat) := by
  unfold GoSem2.slice
  have : (0 : Int) ≤ (s : Int) ∧ (s : Int) ≤ (h : Int) ∧ (h : Int) ≤ ((sig.map Int.ofNat).length : Int) := by
    rw [List.length_map]; omega
  rw [if_pos this, Int.toNat_natCast, Int.toNat_natCast, List.drop_take, List.map_take, List.map_drop]

theorem slice_map_ofNat_none (sig : List Nat) {s h : Nat} (h1 : h < s ∨ sig.length < h) :
    GoSem2.slice (sig.map Int.ofNat) (s : Int) (h : Int) = none := by
  unfold GoSem2.slice
  have : ¬ ((0 : Int) ≤ (s : Int) ∧ (s : Int) ≤ (h : Int) ∧ (h : Int) ≤ ((sig.map Int.ofNat).length : Int)) := by
    rw [List.length_map]; omega
  rw [if_neg this]

/-- Domain: `sig = FirstDiffBits(keys)` (the invariant of a `SigBits` built by `New`), its elements non-negative
    `int32` values; `keyStart = s ≥ 0` (any natural number), `keyEnd = e` with `0 ≤ e < 2^31`; `maxitem` any `int32`.
    Fuel: every `fuel ≥ keyEnd + max(maxitem, 0)`.
    Panics on both sides (`none`): `keyEnd = 0` (slice bound -1), `keyStart > keyEnd-1`, `keyEnd-1 > len(sigbits)`,
    `maxitem < 1`.  No hypothesis on the length of `sig` is needed: the slice has at most `keyEnd - 1 < 2^31 - 1`
    elements, so the sums of `countPrefixes` cannot wrap. -/
theorem Tie_sigbits_SigBits_CountPrefixes (keys : List (List Nat)) (sig : List Nat) (s e : Nat) (maxitem : Int)
    (fuel : Nat) (hsig : firstDiffBits keys = some sig) (he : e < 2^31) (hfd : ∀ d ∈ sig, d < 2^31)
    (hm : -2^31 ≤ maxitem ∧ maxitem < 2^31) (hfuel : e + maxitem.toNat ≤ fuel) :
    Gen.Ssa3.sigbits_SigBits_CountPrefixes fuel keys (sig.map Int.ofNat) (s : Int) (e : Int) maxitem
      = (sbCountPrefixes keys s e maxitem).map (fun r => ((r.1 : Int), r.2.map Int.ofNat)) := by
  rw [Gen.Ssa3.sigbits_SigBits_CountPrefixes, sbCountPrefixes, hsig]
  simp only []
  by_cases h0 : e = 0
  · subst h0
    rw [show subI32 ((0 : Nat) : Int) 1 = -1 from by decide, slice_neg _ _ (by omega)]
    simp
  · have e1 : subI32 (e : Int) 1 = ((e - 1 : Nat) : Int) := subI32_ofNat (b := 1) (by omega) (by omega)
    rw [e1]
    by_cases hr : e = 0 ∨ s > e - 1 ∨ e - 1 > sig.length
    · rw [if_pos hr, slice_map_ofNat_none sig (by omega)]
      rfl
    · rw [if_neg hr, slice_map_ofNat sig (by omega) (by omega), Option.bind_some, bind_pair_eta]
      have hl : ((sig.drop s).take (e - 1 - s)).length ≤ e - 1 - s := by
        rw [List.length_take]; exact Nat.min_le_left _ _
      exact Tie_sigbits_countPrefixes _ maxitem fuel
        (fun d hd => hfd d (List.mem_of_mem_drop (List.mem_of_mem_take hd))) (by omega) hm (by omega)

example : firstDiffBits [[0x61], [0x62], [0x63, 0x64]] = some [6, 7] := by decide
example : Gen.Ssa3.sigbits_SigBits_CountPrefixes 8 [[0x61], [0x62], [0x63, 0x64]] [6, 7] 0 3 4
    = some (6, [1, 2, 3, 3]) := by decide
example : sbCountPrefixes [[0x61], [0x62], [0x63, 0x64]] 0 3 4 = some (6, [1, 2, 3, 3]) := by decide
-- keyEnd - 1 > len(sigbits): slice bounds out of range
example : Gen.Ssa3.sigbits_SigBits_CountPrefixes 8 [[0x61], [0x62], [0x63, 0x64]] [6, 7] 0 4 4 = none := by decide
-- out of fuel
example : Gen.Ssa3.sigbits_SigBits_CountPrefixes 2 [[0x61], [0x62], [0x63, 0x64]] [6, 7] 0 3 4 = none := by decide

end Low
