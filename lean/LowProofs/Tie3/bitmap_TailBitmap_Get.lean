import Generated.Ssa3.bitmap_TailBitmap_Get
import LowModel.Bitmap.Tail
import LowProofs.Tie3.bitmap_TailBitmap_Get_L
/-
  Tie: the definition regenerated from the SSA form of `(*bitmap.TailBitmap).Get` (loop-free; the receiver fields
  `Offset`, `Words`, `reclaimed` are passed as arguments) equals the hand-written model `TailBitmap.get`.
-/
namespace Low
open Low.GoSem Low.GoSem3 Low.TieL Low.Tie2L Low.Tie3L Low.TailL

/-- Domain: `idx` and `tb.Offset` are int64 values, and the bit indices of `Words` fit an int64
    (`64 * len(Words) < 2^63`).  No hypothesis excludes a panic: an `idx` beyond the stored words gives `none` on
    both sides; this includes the case where `idx - Offset` wraps (Go: negative word index; model: a word index
    `≥ 2^57`, beyond every admissible `Words`).  (Only `idx < 2^63` and `-2^63 ≤ Offset` are used.) -/
theorem Tie_bitmap_TailBitmap_Get (tb : TailBitmap) (idx : Int)
    (hi1 : -9223372036854775808 ≤ idx) (hi2 : idx < 9223372036854775808)
    (ho1 : -9223372036854775808 ≤ tb.offset) (ho2 : tb.offset < 9223372036854775808)
    (hlen : 64 * tb.words.length < 9223372036854775808) :
    Gen.Ssa3.bitmap_TailBitmap_Get tb.offset tb.words tb.reclaimed idx = tb.get idx := by
  rw [Gen.Ssa3.bitmap_TailBitmap_Get, TailBitmap.get]
  by_cases hlt : idx < tb.offset
  · obtain ⟨m, hm, hm64⟩ : ∃ m : Nat, idx % 64 = (m : Int) ∧ m < 64 := ⟨(idx % 64).toNat, by omega, by omega⟩
    simp only [hlt, decide_true, ↓reduceIte, andI64_63, hm, tblBit_ofNat hm64, Int.toNat_natCast, Option.bind_some]
  · simp only [hlt, decide_false, Bool.false_eq_true, ↓reduceIte]
    by_cases hw : idx - tb.offset < 9223372036854775808
    · obtain ⟨k, hk⟩ : ∃ k : Nat, idx - tb.offset = (k : Int) := ⟨(idx - tb.offset).toNat, by omega⟩
      have hs : subI64 idx tb.offset = (k : Int) := by rw [subI64_id (by omega) hw, hk]
      simp only [hs, hk, Int.toNat_natCast, shrI64_6_ofNat, index_ofNat, andI64_63_ofNat,
        tblBit_ofNat (Nat.mod_lt k (by omega : 64 > 0)), andU64_eq]
      cases tb.words[k / 64]? <;> simp
    · have hneg : subI64 idx tb.offset < 0 := subI64_wrap_neg hi2 ho1 (by omega)
      have h6 : shrI64 (subI64 idx tb.offset) 6 < 0 := by rw [shrI64_6]; omega
      rw [index_neg _ h6]
      have hn : tb.words[(idx - tb.offset).toNat / 64]? = none := List.getElem?_eq_none (by omega)
      simp [hn]

example : Gen.Ssa3.bitmap_TailBitmap_Get 128 [5, 0] 0 130 = some 4 := by decide
example : Gen.Ssa3.bitmap_TailBitmap_Get 128 [5, 0] 0 67 = some 8 := by decide
example : Gen.Ssa3.bitmap_TailBitmap_Get 128 [5, 0] 0 256 = none := by decide
example : (TailBitmap.mk 128 [5, 0] 0).get 130 = some 4 := by decide

end Low
