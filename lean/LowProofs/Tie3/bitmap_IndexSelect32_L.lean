import LowModel.Bitmap.Select
import LowProofs.Tie3.Lemmas
/-
  Helper lemmas shared by the ties of `bitmap.IndexSelect32` and `bitmap.IndexSelect32R64`: the bit test
  `words[i>>6] & (1 << uint(i&63)) != 0` is `bitAt ws i`, and the Go `int` (int64) arithmetic of the loop
  (`i>>6`, `i&63`, `ith&31`, `len(words)<<6`, `ith+1` starting from -1) on natural numbers.
-/
namespace Low.SelIdxL
open Low Low.GoSem Low.GoSem3 Low.TieL Low.Tie2L Low.Tie3L

/-! ### the bit test -/

theorem shl64_one {j : Nat} (hj : j < 64) : shl64 1 j = 2 ^ j := by
  have h : (2 : Nat) ^ j < 2 ^ 64 := Nat.pow_lt_pow_right (by omega) hj
  rw [shl64, if_pos hj, Nat.one_shiftLeft]
  exact Nat.mod_eq_of_lt h

theorem and_two_pow_eq_zero (w j : Nat) : w &&& 2 ^ j = 0 ↔ w.testBit j = false := by
  constructor
  · intro h
    have := congrArg (fun x => x.testBit j) h
    simpa [Nat.testBit_two_pow_self] using this
  · intro h
    apply Nat.eq_of_testBit_eq; intro k
    rw [Nat.testBit_and, Nat.testBit_two_pow, Nat.zero_testBit]
    by_cases hk : j = k
    · subst hk; simp [h]
    · simp [hk]

/-- `w & (1 << j) != 0` for `j < 64` is bit `j` of `w` (any `w`, no bound needed) -/
theorem decide_and_shl64_ne_zero (w : Nat) {j : Nat} (hj : j < 64) :
    decide (andU64 w (shlU64 1 j) ≠ 0) = w.testBit j := by
  rw [andU64_eq, shlU64_eq, shl64_one hj]
  cases hb : w.testBit j with
  | false => simp [(and_two_pow_eq_zero w j).2 hb]
  | true =>
    have : ¬ (w &&& 2 ^ j = 0) := by
      intro h; rw [and_two_pow_eq_zero] at h; rw [hb] at h; exact absurd h (by simp)
    simp [this]

/-- the word read by `words[i>>6]` for a position inside the bitmap -/
theorem getElem?_word (ws : List Nat) {i : Nat} (hi : i < ws.length * 64) :
    ws[i / 64]? = some (ws.getD (i / 64) 0) := by
  have h : i / 64 < ws.length := by omega
  rw [List.getD_eq_getElem?_getD, List.getElem?_eq_getElem h]; rfl

/-! ### Go `int` arithmetic on natural numbers -/

theorem shrI64_6_ofNat (n : Nat) : shrI64 (n : Int) 6 = ((n / 64 : Nat) : Int) := by
  unfold shrI64
  rw [← Int.natCast_shiftRight, shr_6]

theorem andI64_ofNat {a b : Nat} (ha : a < 9223372036854775808) (hb : b < 9223372036854775808) :
    andI64 (a : Int) (b : Int) = ((a &&& b : Nat) : Int) := by
  unfold andI64
  rw [u64_ofNat_lt (by omega), u64_ofNat_lt (by omega)]
  apply wrap64_ofNat
  have : a &&& b ≤ a := Nat.and_le_left
  omega

theorem andI64_63_ofNat {n : Nat} (h : n < 9223372036854775808) : andI64 (n : Int) 63 = ((n % 64 : Nat) : Int) := by
  have := andI64_ofNat h (b := 63) (by omega)
  rw [and_63] at this; exact this

theorem andI64_31_ofNat {n : Nat} (h : n < 9223372036854775808) : andI64 (n : Int) 31 = ((n % 32 : Nat) : Int) := by
  have := andI64_ofNat h (b := 31) (by omega)
  rw [and_31] at this; exact this

theorem shlI64_6_ofNat {n : Nat} (h : n * 64 < 9223372036854775808) : shlI64 (n : Int) 6 = ((n * 64 : Nat) : Int) := by
  rw [shlI64]
  have : (n : Int) * 2 ^ 6 = ((n * 64 : Nat) : Int) := by simp
  rw [this]; exact wrap64_ofNat h

/-- `ith++` where `ith = cnt - 1` (`ith` starts at -1) -/
theorem addI64_pred_one {c : Nat} (h : c < 9223372036854775808) : addI64 ((c : Int) - 1) 1 = (c : Int) := by
  rw [addI64]; exact (wrap64_id (by omega) (by omega)).trans (by omega)

theorem toU64_mod64 (n : Nat) : toU64 ((n % 64 : Nat) : Int) = n % 64 :=
  toU64_ofNat_lt (by omega)

end Low.SelIdxL
