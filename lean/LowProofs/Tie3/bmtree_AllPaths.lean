import Generated.Ssa3.bmtree_AllPaths
import LowModel.Bmtree.Index
import LowProofs.Tie.bmtree_Height
import LowProofs.Tie3.Lemmas
import LowProofs.Lemmas.C03Bits
/-
  Tie: the definition regenerated from the SSA form of `bmtree.AllPaths` (two NESTED loops that append to a slice
  the function allocates, with an early `return paths` inside the inner loop) equals the hand-written model
  `allPaths`.

  The generated inner loop `bmtree_AllPaths_loop9` (counter `tz`, an `int32` running from `min(tz(i), height)` down
  to `-1`) receives the outer loop's continuation `blk5` (`bmtree_AllPaths_loop5 … gas`, i.e. "go on with `i + 1`");
  the outer loop `bmtree_AllPaths_loop5` walks `i` from `from >> 32` up to `t` and starts every instance of the inner
  loop with the full `fuel`.  The code APPENDS (`paths ++ [p]`), the model conses onto an accumulator and reverses at
  the end: the loop lemmas relate the code's list `L` to the model's accumulator `acc` by `L = acc.reverse`.
  `AllPaths_inner` (induction on `k`, following `allPathsInner`) is generic in the continuation `blk5`;
  `AllPaths_outer` (induction on the number `cnt` of remaining values of `i`, following `allPathsOuter`).
-/
namespace Low
open Low.GoSem Low.GoSem3 Low.TieL Low.Tie2L Low.Tie3L

namespace Tie3AP

/-- for `1 ≤ t < 2^31` the height is a natural number `h ≤ 30` with `2^h ≤ t < 2^(h+1)` -/
theorem height_nat30 {t : Nat} (ht : 1 ≤ t) (ht' : t < 2^31) :
    ∃ h : Nat, height t = (h : Int) ∧ h ≤ 30 ∧ 2^h ≤ t ∧ t < 2^(h+1) := by
  have hlt : t < 2^32 := by omega
  have hm : t % M32 = t := Nat.mod_eq_of_lt (by simp only [M32]; omega)
  have ⟨a, _, _⟩ := C03L.bitLen_range (w := t) (by omega) 32 hlt
  have hle := C03L.bitLen_le t 32
  have hh : height t = ((bitLen t 32 - 1 : Nat) : Int) := by simp only [height, lz, hm]; omega
  have ⟨x, y, z⟩ := C03L.height_spec ht ht' hh
  exact ⟨_, hh, z, x, y⟩

/-- `a & (1 << j) == 0` tests bit `j` -/
theorem and_two_pow_eq_zero (a j : Nat) : (a &&& 2^j = 0) ↔ a.testBit j = false := by
  constructor
  · intro h
    have := congrArg (fun x => x.testBit j) h
    simpa [Nat.testBit_and, Nat.testBit_two_pow] using this
  · intro h
    apply Nat.eq_of_testBit_eq; intro k
    rw [Nat.testBit_and, Nat.testBit_two_pow, Nat.zero_testBit]
    by_cases hk : j = k
    · subst hk; simp [h]
    · simp [hk]

theorem xorU64_eq (x y : Nat) : xorU64 x y = x ^^^ y := by rw [xorU64]

/-- `bitmapSize & int32(bitmap.Bit[j]) == 0` for `j ≤ 30` -/
theorem andI32_bit {t j : Nat} (ht' : t < 2^31) (hj : j ≤ 30) :
    (andI32 (t : Int) (toI32 ((bit j : Nat) : Int)) = 0) ↔ t.testBit j = false := by
  have hb : bit j < 2147483648 := by
    have : (2 : Nat) ^ j ≤ 2 ^ 30 := Nat.pow_le_pow_right (by omega) hj
    simp only [bit]; omega
  rw [toI32_ofNat_lt hb, andI32_ofNat (by omega) hb, ← and_two_pow_eq_zero]
  simp only [bit]; omega

/-- one round of the inner loop in the model: the local `step` of `allPathsInner` (`none` = return now) -/
def apStep (t h frm to i k : Nat) (acc : List Nat) : Option (List Nat) :=
  if t.testBit (h - k) then
    let p := (shl64 i 32) ||| (mask h ^^^ mask k)
    if p < frm then some acc else if p ≥ to then none else some (p :: acc)
  else some acc

theorem allPathsInner_eq (t h frm to i k : Nat) (acc : List Nat) :
    allPathsInner t h frm to i k acc =
      match apStep t h frm to i k acc with
      | none => (acc, true)
      | some acc' =>
        match k with
        | 0 => (acc', false)
        | k'+1 => allPathsInner t h frm to i k' acc' := by
  rw [allPathsInner]; rfl

/-- one round of the generated inner loop with `tz = k ≥ 0` -/
theorem loop9_step (fuel t frm to h i : Nat) (blk5 : List Nat → Nat → Option (List Nat)) (g k : Nat)
    (acc : List Nat) (hk : k ≤ h) (hh : h ≤ 30) (ht' : t < 2^31) :
    Gen.Ssa3.bmtree_AllPaths_loop9 fuel (t : Int) frm to (h : Int) (mask h) i blk5 (g + 1) acc.reverse (k : Int) =
      match apStep t h frm to i k acc with
      | none => some acc.reverse
      | some acc' =>
        Gen.Ssa3.bmtree_AllPaths_loop9 fuel (t : Int) frm to (h : Int) (mask h) i blk5 g acc'.reverse ((k : Int) - 1) := by
  have e0 : ((k : Int) ≥ 0) := by omega
  have e1 : subI32 (h : Int) (k : Int) = ((h - k : Nat) : Int) := subI32_ofNat hk (by omega)
  have e2 : subI32 (k : Int) 1 = (k : Int) - 1 := by rw [subI32]; exact wrap32_id (by omega) (by omega)
  have e3 := andI32_bit (t := t) (j := h - k) ht' (by omega)
  rw [Gen.Ssa3.bmtree_AllPaths_loop9, apStep]
  simp only [e0, decide_true, ↓reduceIte, e1, e2, tblBit_ofNat (show h - k < 64 by omega),
    tblMask_ofNat (show k < 65 by omega)]
  -- `rw`, not `simp only`, for `Option.bind_some` here: as a `rfl`-lemma simp applies it without a proof step, and the
  -- kernel then evaluates the `if` on the `int32` condition (deep recursion in `Nat.land` on literals)
  rw [Option.bind_some]
  simp only [decide_eq_true_eq, e3]
  cases hb : t.testBit (h - k) with
  | false => simp only [↓reduceIte, Bool.false_eq_true]
  | true =>
    simp only [Bool.true_eq_false, ↓reduceIte]
    rw [Option.bind_some]
    simp only [shlU64_eq, orU64_eq, xorU64_eq, setIdx_newArray_one, Option.bind_some]
    by_cases h1 : (shl64 i 32 ||| mask h ^^^ mask k) < frm
    · simp only [h1, ↓reduceIte]
    · by_cases h2 : (shl64 i 32 ||| mask h ^^^ mask k) ≥ to
      · simp only [h1, h2, ↓reduceIte]
      · simp only [h1, h2, ↓reduceIte, List.reverse_cons]

/-- the exit of the generated inner loop: `tz = -1` -/
theorem loop9_exit (fuel : Nat) (t : Int) (frm to : Nat) (h : Int) (m i : Nat)
    (blk5 : List Nat → Nat → Option (List Nat)) (g : Nat) (L : List Nat) :
    Gen.Ssa3.bmtree_AllPaths_loop9 fuel t frm to h m i blk5 (g + 1) L (-1) = blk5 L (addU64 i 1) := by
  rw [Gen.Ssa3.bmtree_AllPaths_loop9]
  simp

end Tie3AP
open Tie3AP

/-- The inner loop, started with `tz = k ≤ height` and at least `k + 2` units of fuel (`k + 1` rounds and the final
    test), for an arbitrary continuation `blk5`: either the early `return paths` (the model's `stop = true`) or the
    continuation with `i + 1`. -/
theorem AllPaths_inner (fuel t frm to h i : Nat) (blk5 : List Nat → Nat → Option (List Nat))
    (hh : h ≤ 30) (ht' : t < 2^31) (hi : i + 1 < 2^64) :
    ∀ (k gas : Nat) (acc : List Nat), k ≤ h → k + 2 ≤ gas →
      Gen.Ssa3.bmtree_AllPaths_loop9 fuel (t : Int) frm to (h : Int) (mask h) i blk5 gas acc.reverse (k : Int) =
        if (allPathsInner t h frm to i k acc).2 = true then some (allPathsInner t h frm to i k acc).1.reverse
        else blk5 (allPathsInner t h frm to i k acc).1.reverse (i + 1)
  | 0, gas, acc, hk, hg => by
    obtain ⟨g, rfl⟩ : ∃ g, gas = g + 2 := ⟨gas - 2, by omega⟩
    have ea : addU64 i 1 = i + 1 := by rw [addU64, add64]; exact Nat.mod_eq_of_lt (by simp only [M64]; omega)
    rw [loop9_step fuel t frm to h i blk5 (g + 1) 0 acc hk hh ht', allPathsInner_eq]
    cases apStep t h frm to i 0 acc with
    | none => simp
    | some acc' =>
      have : ((0 : Nat) : Int) - 1 = -1 := by omega
      simp only [this, loop9_exit, ea]
      simp
  | k+1, gas, acc, hk, hg => by
    obtain ⟨g, rfl⟩ : ∃ g, gas = g + 1 := ⟨gas - 1, by omega⟩
    rw [loop9_step fuel t frm to h i blk5 g (k + 1) acc hk hh ht', allPathsInner_eq]
    cases apStep t h frm to i (k + 1) acc with
    | none => simp
    | some acc' =>
      have : ((k + 1 : Nat) : Int) - 1 = (k : Int) := by omega
      simp only [this]
      exact AllPaths_inner fuel t frm to h i blk5 hh ht' hi k g acc' (by omega) (by omega)

/-- The outer loop with `cnt = t - i` values of `i` to go: `cnt + 1` units of fuel for the outer loop, and
    `fuel ≥ height + 2` for every instance of the inner loop. -/
theorem AllPaths_outer (fuel t frm to h tt : Nat) (hh : h ≤ 30) (ht' : t < 2^31) (htt : tt ≤ 2^h)
    (hfuel : h + 2 ≤ fuel) :
    ∀ (cnt i gas : Nat) (acc : List Nat), cnt = tt - i → cnt + 1 ≤ gas →
      Gen.Ssa3.bmtree_AllPaths_loop5 fuel (t : Int) frm to (h : Int) (mask h) tt gas acc.reverse i
        = some (allPathsOuter t h frm to cnt i acc).reverse
  | 0, i, gas, acc, hc, hg => by
    obtain ⟨g, rfl⟩ : ∃ g, gas = g + 1 := ⟨gas - 1, by omega⟩
    have hlt : ¬ i < tt := by omega
    rw [Gen.Ssa3.bmtree_AllPaths_loop5, allPathsOuter]
    simp [hlt]
  | cnt+1, i, gas, acc, hc, hg => by
    obtain ⟨g, rfl⟩ : ∃ g, gas = g + 1 := ⟨gas - 1, by omega⟩
    have hlt : i < tt := by omega
    have h30 : (2 : Nat) ^ h ≤ 2 ^ 30 := Nat.pow_le_pow_right (by omega) hh
    have hi : i + 1 < 2^64 := by omega
    have htz : tz i 64 ≤ 64 := tz_le _ _
    have ih := fun acc' => AllPaths_outer fuel t frm to h tt hh ht' htt hfuel cnt (i + 1) g acc' (by omega) (by omega)
    have hin := AllPaths_inner fuel t frm to h i
      (Gen.Ssa3.bmtree_AllPaths_loop5 fuel (t : Int) frm to (h : Int) (mask h) tt g) hh ht' hi
      (min (tz i 64) h) fuel acc (Nat.min_le_right _ _) (by have := Nat.min_le_right (tz i 64) h; omega)
    rw [Gen.Ssa3.bmtree_AllPaths_loop5, allPathsOuter]
    simp only [hlt, decide_true, ↓reduceIte, toI32_tz64, gt_iff_lt, Int.ofNat_lt, decide_eq_true_eq]
    have hsel : (if h < tz i 64 then
          Gen.Ssa3.bmtree_AllPaths_loop9 fuel (t : Int) frm to (h : Int) (mask h) i
            (Gen.Ssa3.bmtree_AllPaths_loop5 fuel (t : Int) frm to (h : Int) (mask h) tt g) fuel acc.reverse (h : Int)
        else
          Gen.Ssa3.bmtree_AllPaths_loop9 fuel (t : Int) frm to (h : Int) (mask h) i
            (Gen.Ssa3.bmtree_AllPaths_loop5 fuel (t : Int) frm to (h : Int) (mask h) tt g) fuel acc.reverse
            ((tz i 64 : Nat) : Int)) =
        Gen.Ssa3.bmtree_AllPaths_loop9 fuel (t : Int) frm to (h : Int) (mask h) i
            (Gen.Ssa3.bmtree_AllPaths_loop5 fuel (t : Int) frm to (h : Int) (mask h) tt g) fuel acc.reverse
            ((min (tz i 64) h : Nat) : Int) := by
      by_cases hc : h < tz i 64
      · rw [if_pos hc, Nat.min_eq_right (by omega)]
      · rw [if_neg hc, Nat.min_eq_left (by omega)]
    rw [hsel, hin]
    generalize allPathsInner t h frm to i (min (tz i 64) h) acc = r
    obtain ⟨acc', stop⟩ := r
    cases stop with
    | true => simp
    | false => simp [ih]

/-- Domain:
    * `1 ≤ t < 2^31`: `bitmapSize` a positive `int32` (for `bitmapSize = 0` `Height` is `-1` and `bitmap.Bit[-1]`
      panics; the model is documented for `1 ≤ bitmapSize`); the height `h` is then in `0..30`, so `Bit[h]`,
      `Mask[h]`, `Bit[h - tz]`, `Mask[tz]` are in range and `int32(Bit[h - tz])` is `2^(h-tz)`;
    * `frm`, `to` any `uint64` (the bounds `< 2^64` state the domain; the equation holds without them).
    Fuel: with `cnt = min (to>>32 + 1) 2^h - from>>32` (the number of values of `i` the outer loop visits) every
    `fuel ≥ cnt + 32`: the outer loop needs `cnt + 1`, every instance of the inner loop (which starts with the full
    `fuel`) at most `h + 2 ≤ 32`.
    On this domain the Go function neither panics nor diverges. -/
theorem Tie_bmtree_AllPaths (t frm to fuel : Nat) (ht : 1 ≤ t) (ht' : t < 2^31) (_hfrm : frm < 2^64) (_hto : to < 2^64)
    (hfuel : (min (add64 (to >>> 32) 1) (2 ^ (height t).toNat) - frm >>> 32) + 32 ≤ fuel) :
    Gen.Ssa3.bmtree_AllPaths fuel (t : Int) frm to = some (allPaths t frm to) := by
  obtain ⟨h, hh, hh30, _, _⟩ := height_nat30 ht ht'
  rw [hh, Int.toNat_natCast] at hfuel
  rw [Gen.Ssa3.bmtree_AllPaths, allPaths]
  simp only [Tie_bmtree_Height, hh, Int.toNat_natCast, newArray_zero, tblBit_ofNat (show h < 64 by omega),
    tblMask_ofNat (show h < 65 by omega), Option.bind_some, shrU64_lt _ (show 32 < 64 by omega), addU64,
    decide_eq_true_eq, gt_iff_lt]
  have hnil : ([] : List Nat) = ([] : List Nat).reverse := rfl
  by_cases hc : bit h < add64 (to >>> 32) 1
  · rw [if_pos hc, if_pos hc, hnil]
    have hm : min (add64 (to >>> 32) 1) (2 ^ h) = bit h := by simp only [bit] at hc ⊢; omega
    rw [hm] at hfuel
    exact AllPaths_outer fuel t frm to h (bit h) hh30 ht' (Nat.le_refl _) (by omega) _ _ fuel [] rfl (by omega)
  · rw [if_neg hc, if_neg hc, hnil]
    have hm : min (add64 (to >>> 32) 1) (2 ^ h) = add64 (to >>> 32) 1 := by simp only [bit] at hc ⊢; omega
    rw [hm] at hfuel
    exact AllPaths_outer fuel t frm to h _ hh30 ht' (by simp only [bit] at hc; omega) (by omega) _ _ fuel [] rfl
      (by omega)

/-- The same with the simpler (weaker) fuel bound `2^height + 32`. -/
theorem Tie_bmtree_AllPaths' (t frm to fuel : Nat) (ht : 1 ≤ t) (ht' : t < 2^31) (hfrm : frm < 2^64) (hto : to < 2^64)
    (hfuel : 2 ^ (height t).toNat + 32 ≤ fuel) :
    Gen.Ssa3.bmtree_AllPaths fuel (t : Int) frm to = some (allPaths t frm to) :=
  Tie_bmtree_AllPaths t frm to fuel ht ht' hfrm hto
    (by
      generalize 2 ^ (height t).toNat = P at hfuel ⊢
      have := Nat.min_le_right (add64 (to >>> 32) 1) P; omega)

example : Gen.Ssa3.bmtree_AllPaths 40 5 0 (2^63) = some [0, 3, 0x100000003, 0x200000003, 0x300000003] := by decide
example : allPaths 5 0 (2^63) = [0, 3, 0x100000003, 0x200000003, 0x300000003] :=
  Option.some.inj ((Tie_bmtree_AllPaths 5 0 (2^63) 40 (by decide) (by decide) (by decide) (by decide) (by decide)).symm.trans
    (by decide))
-- `from` / `to` cut the enumeration (the early `return paths` of the inner loop)
example : Gen.Ssa3.bmtree_AllPaths 40 7 2 0x200000002 = some [2, 3, 0x100000003] := by decide
example : allPaths 7 2 0x200000002 = [2, 3, 0x100000003] :=
  Option.some.inj ((Tie_bmtree_AllPaths 7 2 0x200000002 40 (by decide) (by decide) (by decide) (by decide)
    (by decide)).symm.trans (by decide))
-- out of fuel
example : Gen.Ssa3.bmtree_AllPaths 3 5 0 (2^63) = none := by decide
-- `bitmapSize = 0`: `bitmap.Bit[-1]` panics
example : Gen.Ssa3.bmtree_AllPaths 40 0 0 (2^63) = none := by decide

end Low
