import Generated.Ssa3.bitmap_Join
import LowModel.Bitmap.Of
import LowProofs.Tie3.Lemmas
/-
  Tie: the definition regenerated from the SSA form of `bitmap.Join` (a `range` loop that ORs every sub-bitmap into a
  slice the function allocates with `make`) equals the hand-written model `bmJoin`.  The generated loop
  `bitmap_Join_loop1` carries the range index (`t8`, starting at -1 and incremented at the loop head) and the CONTENTS
  of the allocated slice (`t6_b1`, a hidden parameter); `r[j>>6] |= …` is a read `GoSem.index` followed by the
  functional update `GoSem3.setIdx`.  The model `joinLoop` recurses over the suffix `subs.drop i` with the same buffer;
  `Join_loop` relates the two for an arbitrary buffer.
-/
namespace Low
open Low.GoSem Low.GoSem3 Low.TieL Low.Tie2L Low.Tie3L

/-! ### int64 analogues of the int32 lemmas of `TieL` / `Tie2L` -/

theorem Join_shrI64_ofNat (n s : Nat) : shrI64 (n : Int) s = ((n >>> s : Nat) : Int) := by
  unfold shrI64; rfl

theorem Join_shrI64_6_ofNat (n : Nat) : shrI64 (n : Int) 6 = ((n / 64 : Nat) : Int) := by
  rw [Join_shrI64_ofNat, shr_6]

/-- `n & -2^k` (i.e. `n & ^(2^k - 1)`) on 64-bit patterns clears the low `k` bits -/
theorem Join_and_negPow64 {n : Nat} (h : n < 18446744073709551616) (k : Nat) (hk : k ≤ 64) :
    n &&& (18446744073709551616 - 2 ^ k) = n / 2 ^ k * 2 ^ k := by
  have e : (18446744073709551616 - 2 ^ k : Nat) = (2 ^ (64 - k) - 1) <<< k := by
    rw [Nat.shiftLeft_eq, Nat.sub_mul, ← Nat.pow_add, show 64 - k + k = 64 by omega]; simp
  have e2 : n / 2 ^ k * 2 ^ k = (n >>> k) <<< k := by rw [Nat.shiftLeft_eq, Nat.shiftRight_eq_div_pow]
  apply Nat.eq_of_testBit_eq; intro b
  rw [e, e2, Nat.testBit_and, Nat.testBit_shiftLeft, Nat.testBit_shiftLeft, Nat.testBit_two_pow_sub_one,
    Nat.testBit_shiftRight]
  by_cases hb : k ≤ b
  · have e3 : k + (b - k) = b := by omega
    rw [e3]
    by_cases hb2 : b < 64
    · have : b - k < 64 - k := by omega
      simp [hb, this]
    · have h64 : (2 : Nat) ^ 64 ≤ 2 ^ b := Nat.pow_le_pow_right (by omega) (by omega)
      have : n.testBit b = false := Nat.testBit_lt_two_pow (Nat.lt_of_lt_of_le h h64)
      simp [this]
  · simp [hb]

/-- `x & ^63` on a non-negative int -/
theorem Join_andI64_neg64_ofNat {n : Nat} (h : n < 9223372036854775808) :
    andI64 (n : Int) (-64) = ((n / 64 * 64 : Nat) : Int) := by
  have hm : u64 (-64) = 18446744073709551616 - 2 ^ 6 := by decide
  rw [andI64, u64_ofNat_lt (by omega), hm, Join_and_negPow64 (by omega) 6 (by omega)]
  exact wrap64_ofNat (by simp only [Nat.reducePow]; omega)

/-- `x & 63` on a non-negative int -/
theorem Join_andI64_63_ofNat {n : Nat} (h : n < 9223372036854775808) :
    andI64 (n : Int) 63 = ((n % 64 : Nat) : Int) := by
  have h63 : u64 63 = 63 := by decide
  rw [andI64, u64_ofNat_lt (by omega), h63, and_63]
  exact wrap64_ofNat (by omega)

theorem Join_mulI64_ofNat {a b : Nat} (h : a * b < 9223372036854775808) :
    mulI64 (a : Int) (b : Int) = ((a * b : Nat) : Int) := by
  rw [mulI64, ← Int.natCast_mul]; exact wrap64_ofNat h

/-! ### the loop -/

theorem Join_loop (fuel : Nat) (subs : List Nat) (size : Nat) (hsize : size ≤ 64) (hlen : subs.length < 2^56) :
    ∀ (rest : List Nat) (i gas : Nat) (t8 : Int) (buf : List Nat), rest = subs.drop i → i ≤ subs.length →
      rest.length + 1 ≤ gas → addI64 t8 1 = (i : Int) →
      Gen.Ssa3.bitmap_Join_loop1 fuel subs (size : Int) (subs.length : Int) gas t8 buf = joinLoop size rest i buf
  | [], i, gas, t8, buf, hr, hi, hg, ht => by
    obtain ⟨g, rfl⟩ : ∃ g, gas = g + 1 := ⟨gas - 1, by omega⟩
    have hil : i = subs.length := by have := drop_eq_nil_le hr; omega
    subst hil
    rw [Gen.Ssa3.bitmap_Join_loop1, joinLoop]
    simp only [ht, Int.lt_irrefl, decide_false, Bool.false_eq_true, ↓reduceIte]
  | e :: es, i, gas, t8, buf, hr, hi, hg, ht => by
    obtain ⟨g, rfl⟩ : ∃ g, gas = g + 1 := ⟨gas - 1, by omega⟩
    have hil : i < subs.length := drop_eq_cons_lt hr
    have he : subs[i]? = some e := getElem?_of_drop_eq_cons hr
    have hmul : i * size ≤ subs.length * 64 := Nat.mul_le_mul (by omega) hsize
    have b0 : size < 9223372036854775808 := by omega
    have b1 : i * size < 9223372036854775808 := by omega
    have b4 : i * size % 64 < 18446744073709551616 := by omega
    have b5 : i + 1 < 9223372036854775808 := by omega
    have b6 : i + 1 ≤ subs.length := by omega
    have b7 : es.length + 1 ≤ g := by simp only [List.length_cons] at hg; omega
    have e0 : toI64 (size : Int) = (size : Int) := toI64_ofNat_lt b0
    have e1 : mulI64 (i : Int) (size : Int) = ((i * size : Nat) : Int) := Join_mulI64_ofNat b1
    have e2 : shrI64 ((i * size : Nat) : Int) 6 = ((i * size / 64 : Nat) : Int) := Join_shrI64_6_ofNat _
    have e3 : andI64 ((i * size : Nat) : Int) 63 = ((i * size % 64 : Nat) : Int) := Join_andI64_63_ofNat b1
    have e4 : toU64 ((i * size % 64 : Nat) : Int) = i * size % 64 := toU64_ofNat_lt b4
    have e5 : addI64 (i : Int) 1 = ((i + 1 : Nat) : Int) := addI64_one_ofNat b5
    rw [Gen.Ssa3.bitmap_Join_loop1, joinLoop]
    simp only [ht, Int.ofNat_lt, hil, decide_true, ↓reduceIte, index_ofNat, he, Option.bind_some, e0, e1, e2, e3, e4,
      tblMask_ofNat (by omega : size < 65), andU64_eq, orU64_eq, shlU64_eq]
    cases hw : buf[i * size / 64]? with
    | none => simp only [Option.bind_none]
    | some w =>
      have hj : i * size / 64 < buf.length := by
        have := (List.getElem?_eq_some_iff.mp hw).1; exact this
      simp only [Option.bind_some, setIdx_ofNat buf _ hj]
      exact Join_loop fuel subs size hsize hlen es (i + 1) g (i : Int) _ (drop_succ_of_drop_eq_cons hr) b6 b7 e5

/-- Domain: `size` an `int32` value in `0 … 64` (given as a natural number), `subs` with fewer than `2^56` elements (so
    that `size * len(subs) + 63` fits an `int`); NO hypothesis on the elements of `subs`.  Fuel: every
    `fuel ≥ len(subs) + 1`.  Where the Go function panics (index out of range: cannot happen here, the allocated slice
    is long enough, but this is not needed for the tie) the model is `none` as well.

    Why `size ≤ 64`: the Go code reads the table `Mask[size]` (65 entries) and PANICS for `size > 64` (and non-empty
    `subs`), whereas the model `bmJoin` uses the function `mask size = 2^size - 1` and does not: outside `0 … 64` the
    model and the code differ (for `size > 64` and `subs ≠ []`; a negative `size` is not expressible in the model). -/
theorem Tie_bitmap_Join (subs : List Nat) (size fuel : Nat) (hsize : size ≤ 64) (hlen : subs.length < 2^56)
    (hfuel : subs.length + 1 ≤ fuel) :
    Gen.Ssa3.bitmap_Join fuel subs (size : Int) = bmJoin subs size := by
  have hmul : size * subs.length ≤ 64 * subs.length := Nat.mul_le_mul_right _ hsize
  have e0 : toI64 (size : Int) = (size : Int) := toI64_ofNat_lt (by omega)
  have e1 : mulI64 (size : Int) (subs.length : Int) = ((size * subs.length : Nat) : Int) :=
    Join_mulI64_ofNat (by omega)
  have e2 : addI64 ((size * subs.length : Nat) : Int) 63 = ((size * subs.length + 63 : Nat) : Int) :=
    addI64_ofNat (b := 63) (by omega)
  have e3 : andI64 ((size * subs.length + 63 : Nat) : Int) (-64)
      = (((size * subs.length + 63) / 64 * 64 : Nat) : Int) := Join_andI64_neg64_ofNat (by omega)
  have e4 : shrI64 (((size * subs.length + 63) / 64 * 64 : Nat) : Int) 6
      = (((size * subs.length + 63) / 64 : Nat) : Int) := by
    rw [Join_shrI64_6_ofNat, Nat.mul_div_cancel _ (by omega)]
  rw [Gen.Ssa3.bitmap_Join, bmJoin]
  simp only [len_eq, e0, e1, e2, e3, e4, makeSlice_ofNat, Option.bind_some]
  exact Join_loop fuel subs size hsize hlen subs 0 fuel (-1) _ (by simp) (by omega) (by omega) addI64_neg_one_one

example : Gen.Ssa3.bitmap_Join 4 [5, 3, 0xff] 4 = some [0xf35] := by decide
example : bmJoin [5, 3, 0xff] 4 = some [0xf35] := by decide
example : Gen.Ssa3.bitmap_Join 1 [] 7 = some [] := by decide
-- two words
example : Gen.Ssa3.bitmap_Join 3 [1, 1] 64 = some [1, 1] := by decide
-- out of fuel
example : Gen.Ssa3.bitmap_Join 3 [5, 3, 0xff] 4 = none := by decide
-- outside the domain the code panics and the model does not
example : Gen.Ssa3.bitmap_Join 3 [1] 65 = none := by decide
example : bmJoin [1] 65 = some [1, 0] := by decide

end Low
