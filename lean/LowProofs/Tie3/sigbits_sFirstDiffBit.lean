import Generated.Ssa3.sigbits_sFirstDiffBit
import LowModel.Sigbits
import LowProofs.Tie3.Lemmas
import LowProofs.Tie3.sigbits_get64Bits
/-
  Tie: the definition regenerated from the SSA form of `sigbits.sFirstDiffBit` (a read-only loop `i += 8` that calls
  `get64Bits` on the suffixes `a[i:]`, `b[i:]`) equals the hand-written model `sFirstDiffBit`.  The model's loop
  `sFirstDiffLoop` has its own fuel `len(a)/8 + 1`; `sFirstDiffBit_loop` relates the generated loop at `i = 8*j` with
  `gas` units of fuel to the model's loop at `i = 8*j` with `mf` units, by induction on `mf`
  (`len(a)/8 + 1 ≤ mf + j`: when the model's fuel is exhausted, `i ≥ len(a)` and the Go loop exits, too).
  Proof-engineering note: `simp only [leadingZeros64]` does not rewrite the `Decidable` instance argument of
  `decide (t13 < 64)`; a later `generalize lz … = first` then has to re-establish the instance's type by unfolding `lz`
  (max recursion / kernel deep recursion).  Hence `rw [show leadingZeros64 … = … from rfl]` (rewrites every instance,
  instance arguments included) and the separate lemma `sFirstDiffBit_step` for the arithmetic after it.
-/
namespace Low
open Low.GoSem Low.GoSem3 Low.TieL Low.Tie2L Low.Tie3L

/-- `xs[i:]` -/
theorem slice_from_ofNat {α : Type} (xs : List α) {i : Nat} (h : i ≤ xs.length) :
    GoSem2.slice xs (i : Int) (xs.length : Int) = some (xs.drop i) := by
  unfold GoSem2.slice
  have : (0 : Int) ≤ (i : Int) ∧ (i : Int) ≤ (xs.length : Int) ∧ (xs.length : Int) ≤ (xs.length : Int) := by omega
  rw [if_pos this]
  simp

/-- the part of the loop body after `first := bits.LeadingZeros64(au ^ bu)`; `k` = the next iteration -/
theorem sFirstDiffBit_step (j first minl : Nat) (k : Option Int) (hj : 8 * j < 2^28) (hm : minl < 2^31) (hfi : first ≤ 64) :
    (if decide (((first : Nat) : Int) < 64) = true then
      if decide (addI64 (shlI64 ((8 * j : Nat) : Int) 3) (first : Int) < (minl : Int)) = true then
        some (toI32 (addI64 (shlI64 ((8 * j : Nat) : Int) 3) (first : Int)))
      else some (toI32 (minl : Int))
    else k)
      = if first < 64 then some (((if 8 * j * 8 + first < minl then 8 * j * 8 + first else minl : Nat)) : Int) else k := by
  have em : toI32 (minl : Int) = (minl : Int) := toI32_ofNat_lt (by omega)
  have e2 : shlI64 ((8 * j : Nat) : Int) 3 = ((8 * j * 8 : Nat) : Int) := by
    rw [shlI64]
    have : ((8 * j : Nat) : Int) * 2 ^ 3 = ((8 * j * 8 : Nat) : Int) := by simp
    rw [this]; exact wrap64_ofNat (by omega)
  have e3 : addI64 ((8 * j * 8 : Nat) : Int) (first : Int) = ((8 * j * 8 + first : Nat) : Int) :=
    addI64_ofNat (by omega)
  rw [e2, e3, em]
  by_cases hf : first < 64
  · have hf' : ((first : Nat) : Int) < 64 := by omega
    simp only [hf, hf', decide_true, ↓reduceIte, Int.ofNat_lt]
    by_cases hlt : 8 * j * 8 + first < minl
    · simp only [hlt, decide_true, ↓reduceIte, toI32_ofNat_lt (by omega : 8 * j * 8 + first < 2147483648)]
    · simp only [hlt, decide_false, Bool.false_eq_true, ↓reduceIte]
  · have hf' : ¬ (((first : Nat) : Int) < 64) := by omega
    simp only [hf, hf', decide_false, Bool.false_eq_true, ↓reduceIte]

theorem sFirstDiffBit_loop (fuel : Nat) (a b : List Nat) (minl : Nat) (ha : ∀ x ∈ a, x < 256) (hb : ∀ x ∈ b, x < 256)
    (hla : a.length < 2^28) (hm : minl < 2^31) :
    ∀ (mf j gas : Nat), a.length / 8 + 1 ≤ mf + j → mf + 1 ≤ gas →
      Gen.Ssa3.sigbits_sFirstDiffBit_loop5 fuel a b (a.length : Int) (b.length : Int) (minl : Int) gas ((8 * j : Nat) : Int)
        = some ((sFirstDiffLoop a b minl mf (8 * j) : Nat) : Int)
  | 0, j, gas, hj, hg => by
    obtain ⟨g, rfl⟩ : ∃ g, gas = g + 1 := ⟨gas - 1, by omega⟩
    have hnl : ¬ (8 * j < a.length) := by omega
    rw [Gen.Ssa3.sigbits_sFirstDiffBit_loop5, sFirstDiffLoop]
    simp only [Int.ofNat_lt, hnl, decide_false, Bool.false_eq_true, ↓reduceIte,
      toI32_ofNat_lt (by omega : minl < 2147483648)]
  | mf + 1, j, gas, hj, hg => by
    obtain ⟨g, rfl⟩ : ∃ g, gas = g + 1 := ⟨gas - 1, by omega⟩
    have em : toI32 (minl : Int) = (minl : Int) := toI32_ofNat_lt (by omega)
    rw [Gen.Ssa3.sigbits_sFirstDiffBit_loop5, sFirstDiffLoop]
    by_cases h1 : 8 * j < a.length
    · by_cases h2 : 8 * j < b.length
      · have ih := sFirstDiffBit_loop fuel a b minl ha hb hla hm mf (j + 1) g (by omega) (by omega)
        have hga := Tie_sigbits_get64Bits (a.drop (8 * j)) (fun x hx => ha x (List.mem_of_mem_drop hx))
        have hgb := Tie_sigbits_get64Bits (b.drop (8 * j)) (fun x hx => hb x (List.mem_of_mem_drop hx))
        have e1 : addI64 ((8 * j : Nat) : Int) 8 = ((8 * (j + 1) : Nat) : Int) := by
          have := addI64_ofNat (a := 8 * j) (b := 8) (by omega)
          simpa [Nat.mul_add] using this
        simp only [len_eq, Int.ofNat_lt, h1, h2, decide_true, ↓reduceIte, and_self]
        rw [slice_from_ofNat a (Nat.le_of_lt h1), Option.bind_some, hga, Option.bind_some,
          slice_from_ofNat b (Nat.le_of_lt h2), Option.bind_some, hgb, Option.bind_some, e1, ih]
        generalize get64Bits (List.drop (8 * j) a) = au
        generalize get64Bits (List.drop (8 * j) b) = bu
        rw [show leadingZeros64 (xorU64 au bu) = ((lz (au ^^^ bu) 64 : Nat) : Int) from rfl,
          sFirstDiffBit_step j _ minl _ (by omega) hm (lz_le _ _), Nat.mul_add]
        by_cases hf : lz (au ^^^ bu) 64 < 64
        · simp only [hf, ↓reduceIte]
        · simp only [hf, ↓reduceIte]
      · simp only [Int.ofNat_lt, h1, h2, decide_true, decide_false, Bool.false_eq_true, ↓reduceIte, and_false, em]
    · simp only [Int.ofNat_lt, h1, decide_false, Bool.false_eq_true, ↓reduceIte, false_and, em]

/-- Domain: `a`, `b` byte strings (`BytesOK`) shorter than `2^28` bytes (so that `len*8` fits the `int32` result type).
    Fuel: every `fuel ≥ len(a)/8 + 2`.  The Go function cannot panic on this domain: the result is `some`. -/
theorem Tie_sigbits_sFirstDiffBit (a b : List Nat) (fuel : Nat) (ha : ∀ x ∈ a, x < 256) (hb : ∀ x ∈ b, x < 256)
    (hla : a.length < 2^28) (hlb : b.length < 2^28) (hfuel : a.length / 8 + 2 ≤ fuel) :
    Gen.Ssa3.sigbits_sFirstDiffBit fuel a b = some ((sFirstDiffBit a b : Nat) : Int) := by
  have ea : mulI64 (a.length : Int) 8 = ((a.length * 8 : Nat) : Int) := by
    rw [mulI64]
    have : (a.length : Int) * 8 = ((a.length * 8 : Nat) : Int) := by simp
    rw [this]; exact wrap64_ofNat (by omega)
  have eb : mulI64 (b.length : Int) 8 = ((b.length * 8 : Nat) : Int) := by
    rw [mulI64]
    have : (b.length : Int) * 8 = ((b.length * 8 : Nat) : Int) := by simp
    rw [this]; exact wrap64_ofNat (by omega)
  have hloop : ∀ (minl : Nat), minl < 2^31 →
      Gen.Ssa3.sigbits_sFirstDiffBit_loop5 fuel a b (a.length : Int) (b.length : Int) (minl : Int) fuel 0
        = some ((sFirstDiffLoop a b minl (a.length / 8 + 1) 0 : Nat) : Int) := fun minl hm =>
    sFirstDiffBit_loop fuel a b minl ha hb hla hm (a.length / 8 + 1) 0 fuel (by omega) (by omega)
  rw [Gen.Ssa3.sigbits_sFirstDiffBit, sFirstDiffBit]
  simp only [len_eq, ea, eb, gt_iff_lt, Int.ofNat_lt]
  by_cases h : b.length * 8 < a.length * 8
  · have hmin : min (a.length * 8) (b.length * 8) = b.length * 8 := by omega
    simp only [h, decide_true, ↓reduceIte, hmin]
    exact hloop (b.length * 8) (by omega)
  · have hmin : min (a.length * 8) (b.length * 8) = a.length * 8 := by omega
    simp only [h, decide_false, Bool.false_eq_true, ↓reduceIte, hmin]
    exact hloop (a.length * 8) (by omega)

example : Gen.Ssa3.sigbits_sFirstDiffBit 3 [1, 2, 3] [1, 2, 7, 9] = some 21 := by decide
example : sFirstDiffBit [1, 2, 3] [1, 2, 7, 9] = 21 := by decide
example : Gen.Ssa3.sigbits_sFirstDiffBit 3 [1, 2, 3, 4, 5, 6, 7, 8, 9] [1, 2, 3, 4, 5, 6, 7, 8, 9, 10] = some 72 := by decide
-- out of fuel
example : Gen.Ssa3.sigbits_sFirstDiffBit 2 [1, 2, 3, 4, 5, 6, 7, 8, 9] [1, 2, 3, 4, 5, 6, 7, 8, 9] = none := by decide

end Low
