import LowModel.GoSem3
import LowProofs.Tie2.Lemmas
/-
  Helper lemmas for the tie proofs of the functions that allocate and write slices (`LowProofs/Tie3/*.lean`), on top
  of `LowProofs/Tie/Lemmas.lean` (`Low.TieL`) and `LowProofs/Tie2/Lemmas.lean` (`Low.Tie2L`): what the `GoSem3`
  vocabulary computes on in-range arguments, and list facts about functional updates of a buffer that an index loop
  fills from left to right.
-/
namespace Low.Tie3L
open Low Low.GoSem Low.GoSem3 Low.TieL Low.Tie2L

/-! ### make / new -/

theorem makeSlice_ofNat {α : Type} (z : α) (n : Nat) : makeSlice z (n : Int) = some (List.replicate n z) := by
  unfold makeSlice
  have : ¬ ((n : Int) < 0) := by omega
  simp [this]

theorem makeSlice_neg {α : Type} (z : α) {n : Int} (h : n < 0) : makeSlice z n = (none : Option (List α)) := by
  unfold makeSlice; simp [h]

theorem makeSlice_toNat {α : Type} (z : α) {n : Int} (h : 0 ≤ n) : makeSlice z n = some (List.replicate n.toNat z) := by
  unfold makeSlice
  have : ¬ (n < 0) := by omega
  simp [this]

theorem makeSliceCap_ofNat {α : Type} (z : α) {n c : Nat} (h : n ≤ c) :
    makeSliceCap z (n : Int) (c : Int) = some (List.replicate n z) := by
  unfold makeSliceCap
  have : (0 : Int) ≤ (n : Int) ∧ (n : Int) ≤ (c : Int) := by omega
  simp [this]

theorem makeSliceCap_zero {α : Type} (z : α) (c : Nat) : makeSliceCap z 0 (c : Int) = some ([] : List α) := by
  have := makeSliceCap_ofNat z (n := 0) (c := c) (by omega)
  simpa using this

theorem newArray_zero {α : Type} (z : α) : newArray z 0 = ([] : List α) := rfl
theorem newArray_one {α : Type} (z : α) : newArray z 1 = [z] := rfl
theorem newArray_length {α : Type} (z : α) (n : Nat) : (newArray z n).length = n := by simp [newArray]

/-! ### indexed stores -/

theorem setIdx_ofNat {α : Type} (xs : List α) {i : Nat} (v : α) (h : i < xs.length) :
    setIdx xs (i : Int) v = some (xs.set i v) := by
  unfold setIdx
  have : (0 : Int) ≤ (i : Int) ∧ (i : Int) < (xs.length : Int) := by omega
  simp [this]

theorem setIdx_ge {α : Type} (xs : List α) {i : Nat} (v : α) (h : xs.length ≤ i) :
    setIdx xs (i : Int) v = none := by
  unfold setIdx
  have : ¬ ((0 : Int) ≤ (i : Int) ∧ (i : Int) < (xs.length : Int)) := by omega
  rw [if_neg this]

theorem setIdx_neg {α : Type} (xs : List α) {i : Int} (v : α) (h : i < 0) : setIdx xs i v = none := by
  unfold setIdx
  have : ¬ ((0 : Int) ≤ i ∧ i < (xs.length : Int)) := by omega
  rw [if_neg this]

theorem setIdx_toNat {α : Type} (xs : List α) {i : Int} (v : α) (h0 : 0 ≤ i) (h : i.toNat < xs.length) :
    setIdx xs i v = some (xs.set i.toNat v) := by
  unfold setIdx
  have : (0 : Int) ≤ i ∧ i < (xs.length : Int) := by omega
  simp [this]

/-- the array go/ssa allocates for the single argument of a variadic call (`append(s, v)`, `f(xs, v)`) -/
theorem setIdx_newArray_one {α : Type} (z v : α) : setIdx (newArray z 1) (0 : Int) v = some [v] := by
  unfold setIdx newArray; simp

theorem setIdx_length {α : Type} {xs ys : List α} {i : Int} {v : α} (h : setIdx xs i v = some ys) :
    ys.length = xs.length := by
  unfold setIdx at h
  split at h
  · injection h with h; rw [← h]; simp
  · exact absurd h (by simp)

/-! ### copy -/

theorem copyInto_length {α : Type} (dst src : List α) : (copyInto dst src).length = dst.length := by
  unfold copyInto; simp; omega

theorem copyInto_short {α : Type} (dst src : List α) (h : src.length ≤ dst.length) :
    copyInto dst src = src ++ dst.drop src.length := by
  unfold copyInto; rw [List.take_of_length_le h]

theorem copyInto_long {α : Type} (dst src : List α) (h : dst.length ≤ src.length) :
    copyInto dst src = src.take dst.length := by
  unfold copyInto; rw [List.drop_of_length_le h]; simp

/-! ### a buffer filled from left to right: position `i` is written, then `i + 1`, … -/

/-- writing position `i` of a buffer whose first `i` elements are `pre` -/
theorem set_append_replicate {α : Type} (pre : List α) (z v : α) (k : Nat) :
    (pre ++ List.replicate (k + 1) z).set pre.length v = (pre ++ [v]) ++ List.replicate k z := by
  rw [List.set_append_right _ _ (by omega)]
  simp [List.replicate_succ]

theorem take_set_succ {α : Type} (xs : List α) (i : Nat) (v : α) (h : i < xs.length) :
    (xs.set i v).take (i + 1) = xs.take i ++ [v] := by
  rw [List.take_add_one]
  simp [List.take_set_of_le, List.getElem?_set_self h]

theorem drop_set_succ {α : Type} (xs : List α) (i : Nat) (v : α) :
    (xs.set i v).drop (i + 1) = xs.drop (i + 1) := by
  rw [List.drop_set_of_lt (by omega)]

/-- `(xs.set i v)` read at `i` -/
theorem getElem?_set_self' {α : Type} (xs : List α) (i : Nat) (v : α) (h : i < xs.length) :
    (xs.set i v)[i]? = some v := List.getElem?_set_self h

/-! ### int / int64 arithmetic used by index loops -/

theorem addI64_one_ofNat {a : Nat} (h : a + 1 < 9223372036854775808) : addI64 (a : Int) 1 = ((a + 1 : Nat) : Int) :=
  addI64_ofNat (b := 1) h

/-- `rangeindex` loops start at -1 -/
theorem addI64_neg_one_one : addI64 (-1) 1 = 0 := by decide

theorem lt_ofNat_iff {a b : Nat} : ((a : Int) < (b : Int)) ↔ a < b := Int.ofNat_lt

end Low.Tie3L
