import LowProofs.Tie3.sigbits_countPrefixes_L
/-
  Tie: the definition regenerated from the SSA form of `sigbits.countPrefixes` equals the hand-written model
  `countPrefixes` (`LowModel/Sigbits.lean`).  Three loops in sequence: `min` over `firstdiffs`; the table
  `counts[d - min]++`; the prefix sums `rst[i+1] = rst[i] + counts[i]`.  The loop lemmas are in
  `sigbits_countPrefixes_L.lean` (`Low.CountPrefixesL`).
-/
namespace Low
open Low.GoSem Low.GoSem3 Low.TieL Low.Tie2L Low.Tie3L Low.CountPrefixesL

/-- `maxitem = m + 1 ≥ 1`: no panic -/
theorem countPrefixes_pos (fds : List Nat) (m : Nat) (fuel : Nat) (hfd : ∀ d ∈ fds, d < 2^31)
    (hn : fds.length + 1 < 2^31) (hm : m + 1 < 2^31) (hfuel : fds.length + 1 ≤ fuel ∧ m + 1 ≤ fuel) :
    Gen.Ssa3.sigbits_countPrefixes_loop1 fuel (fds.map Int.ofNat) ((m + 1 : Nat) : Int) (fds.length : Int) fuel
        2147483647 (-1)
      = some (((fds.foldl (fun mn d => if mn > d then d else mn) 0x7fffffff : Nat) : Int),
          ((countsOf (fds.foldl (fun mn d => if mn > d then d else mn) 0x7fffffff) m fds).foldl
            (fun (acc : List Nat × Nat) c => (acc.1 ++ [acc.2 + c], acc.2 + c)) ([1], 1)).1.map Int.ofNat) := by
  have hM : subI32 ((m + 1 : Nat) : Int) 1 = (m : Int) := subI32_ofNat (b := 1) (by omega) (by omega)
  have hmn : ∀ d ∈ fds, fds.foldl (fun mn d => if mn > d then d else mn) 0x7fffffff ≤ d :=
    foldl_min_le_mem fds _
  have e0 : (-1 : Int) = ((0 : Nat) : Int) - 1 := rfl
  have e1 : (2147483647 : Int) = ((0x7fffffff : Nat) : Int) := rfl
  -- loop 1
  have h1 := loop1 fuel fds ((m + 1 : Nat) : Int) (by omega) fds 0 fuel 0x7fffffff (by simp) (by omega) (by omega)
  rw [← e0, ← e1] at h1
  rw [h1, hM, makeSlice_ofNat, Option.bind_some]
  clear h1
  generalize fds.foldl (fun mn d => if mn > d then d else mn) 0x7fffffff = mn at hmn ⊢
  have hC : (countsOf mn m fds).length = m := countsOf_length _ _ _
  -- loop 5
  have h5 := loop5 fuel fds ((m + 1 : Nat) : Int) mn m hM hmn hfd (by omega) fds 0 fuel (by simp) (by omega) (by omega)
  rw [← e0, List.take_zero, countsOf_nil, List.map_replicate] at h5
  rw [show Int.ofNat 0 = (0 : Int) from rfl] at h5
  have es : setIdx (List.replicate (m + 1) (0 : Int)) 0 1 = some ((List.replicate (m + 1) (0 : Int)).set 0 1) :=
    setIdx_ofNat (i := 0) _ _ (by simp)
  rw [h5, makeSlice_ofNat, Option.bind_some, es, Option.bind_some]
  -- loop 11
  have h11 := loop11 fuel (fds.map Int.ofNat) ((m + 1 : Nat) : Int) (mn : Int) (countsOf mn m fds)
    (by rw [hM, hC]) (by omega) (countsOf mn m fds) fuel [] 1 (by simp) (by omega)
    (by have := countsOf_sum_le mn m fds; omega)
  rw [hC] at h11
  have eb : (List.replicate (m + 1) (0 : Int)).set 0 1 = ([] ++ [1]).map Int.ofNat ++ List.replicate m 0 := by
    simp [List.replicate_succ]
  rw [eb]
  exact h11

/-- Domain: `firstdiffs` = non-negative `int32` values (`FirstDiffBits` produces bit positions), fewer than
    `2^31 - 1` of them; `maxitem` any `int32`.  Fuel: every `fuel ≥ len(firstdiffs) + max(maxitem, 0) + 1`
    (what is used: `len(firstdiffs) + 1` iterations for each of the first two loops, `maxitem` for the third).
    `maxitem < 1`: both sides panic (`make` with a negative length; for `maxitem = -2^31` the first `make` gets the
    wrapped length `2^31 - 1` and succeeds, the second one, `make([]int32, maxitem)`, panics).
    FINDING (boundary): with exactly `2^31 - 1` elements (allowed by `len < 2^31`) the last sum
    `rst[maxitem-1]` can be `len + 1 = 2^31`, which wraps to `-2^31` in the Go `int32` but not in the model's `Nat`;
    hence `hn : fds.length + 1 < 2^31` rather than `fds.length < 2^31`.  (A `SigBits` over `int32` key indices
    never has that many first-diff entries: see `Tie_sigbits_SigBits_CountPrefixes`, where no such hypothesis is needed.) -/
theorem Tie_sigbits_countPrefixes (fds : List Nat) (maxitem : Int) (fuel : Nat) (hfd : ∀ d ∈ fds, d < 2^31)
    (hn : fds.length + 1 < 2^31) (hm : -2^31 ≤ maxitem ∧ maxitem < 2^31)
    (hfuel : fds.length + maxitem.toNat + 1 ≤ fuel) :
    Gen.Ssa3.sigbits_countPrefixes fuel (fds.map Int.ofNat) maxitem
      = (countPrefixes fds maxitem).map (fun r => ((r.1 : Int), r.2.map Int.ofNat)) := by
  rw [Gen.Ssa3.sigbits_countPrefixes, countPrefixes]
  by_cases h1 : maxitem < 1
  · rw [if_pos h1, Option.map_none]
    apply loop1_none
    intro t1
    by_cases h0 : maxitem = 0
    · subst h0
      rw [show subI32 0 1 = -1 from by decide, makeSlice_neg _ (by omega)]; rfl
    · have hneg : maxitem < 0 := by omega
      cases makeSlice (0 : Int) (subI32 maxitem 1) with
      | none => rfl
      | some t9 => exact loop5_neg fuel _ maxitem t1 _ hneg fuel _ _
  · rw [if_neg h1]
    obtain ⟨m, rfl⟩ : ∃ m : Nat, maxitem = ((m + 1 : Nat) : Int) := ⟨(maxitem - 1).toNat, by omega⟩
    have := countPrefixes_pos fds m fuel hfd hn (by omega) (by omega)
    simp only [len_eq, List.length_map, Int.toNat_natCast, Nat.add_sub_cancel, Option.map_some]
    exact this

example : Gen.Ssa3.sigbits_countPrefixes 8 [5, 3, 4, 3] 4 = some (3, [1, 3, 4, 5]) := by decide
example : countPrefixes [5, 3, 4, 3] 4 = some (3, [1, 3, 4, 5]) := by decide
example : Gen.Ssa3.sigbits_countPrefixes 8 [5, 3, 9, 3] 3 = some (3, [1, 3, 3]) := by decide
-- maxitem = 0: make([]int32, -1) panics
example : Gen.Ssa3.sigbits_countPrefixes 8 [5, 3, 4, 3] 0 = none := by decide
-- out of fuel (the first loop needs len + 1 = 5 iterations)
example : Gen.Ssa3.sigbits_countPrefixes 4 [5, 3, 4, 3] 4 = none := by decide

end Low
